(* C10 — the three range mappers equal the reference range semantics [ref] for every list of block sizes and every
   range inside the stream; the binary searches terminate and never index out of range, for EVERY input. *)
From Coq Require Import NArith Lia List Bool ZifyBool ZifyN Arith.
From AV Require Import model.C10_manifest model.C10_ranges.
Import ListNotations.
Local Open Scope N_scope.

(* ---------- totals ---------- *)
Lemma total_app a b : total (a ++ b) = total a + total b.
Proof. induction a as [|x a IH]; cbn; [reflexivity|]. unfold total in *. cbn. rewrite IH. lia. Qed.
Lemma total_cons x a : total (x :: a) = x + total a.
Proof. reflexivity. Qed.
Lemma total_nil : total [] = 0.
Proof. reflexivity. Qed.
Lemma total_snoc a x : total (a ++ [x]) = total a + x.
Proof. rewrite total_app, total_cons, total_nil. lia. Qed.

(* ---------- reference: pieces vanish outside the range ---------- *)
Lemma ref_from_nil_after sizes : forall i o pos len, pos + len <= o -> ref_from i o sizes pos len = [].
Proof.
  induction sizes as [|s r IH]; intros i o pos len H; cbn; [reflexivity|].
  destruct (N.max pos o <? N.min (pos + len) (o + s)) eqn:E; [lia|].
  cbn. apply IH. lia.
Qed.
Lemma ref_from_len0 sizes : forall i o pos, ref_from i o sizes pos 0 = [].
Proof.
  induction sizes as [|s r IH]; intros i o pos; cbn; [reflexivity|].
  destruct (N.max pos o <? N.min (pos + 0) (o + s)) eqn:E; [lia|]. cbn. apply IH.
Qed.
(* blocks that end at or before the range start contribute nothing *)
Lemma ref_from_skip pre : forall rest k o pos len,
  o + total pre <= pos ->
  ref_from k o (pre ++ rest) pos len = ref_from (k + List.length pre) (o + total pre) rest pos len.
Proof.
  induction pre as [|s pre IH]; intros rest k o pos len H.
  - cbn. rewrite Nat.add_0_r, N.add_0_r. reflexivity.
  - rewrite total_cons in *. cbn [app ref_from].
    destruct (N.max pos o <? N.min (pos + len) (o + s)) eqn:E; [lia|].
    cbn [app]. rewrite IH by lia. cbn [List.length]. rewrite Nat.add_succ_r. f_equal. lia.
Qed.

(* =========================== collection filesystem =========================== *)
Definition cur_ok (sizes : list N) (cur : nat * N) : Prop :=
  exists pre rest, sizes = pre ++ rest /\ fst cur = List.length pre /\ snd cur = total pre.

Lemma skipn_length_app {A} (pre rest : list A) : skipn (List.length pre) (pre ++ rest) = rest.
Proof. induction pre; cbn; auto. Qed.

Lemma fs_loop_ref rest : forall pre offset len,
  offset + len <= total pre + total rest ->
  exists pre' rest', pre ++ rest = pre' ++ rest' /\
    fs_loop rest (List.length pre) (total pre) offset len (Some (offset + len)) =
    FsSegs (ref_from (List.length pre) (total pre) rest offset len) (List.length pre') (total pre').
Proof.
  induction rest as [|sl r IH]; intros pre offset len H.
  - rewrite total_nil in H. exists pre, []. split; [reflexivity|]. cbn.
    destruct (offset + len <=? total pre) eqn:E; [reflexivity|lia].
  - rewrite total_cons in H. cbn [fs_loop ref_from].
    assert (Hpre : pre ++ sl :: r = (pre ++ [sl]) ++ r) by (rewrite <- app_assoc; reflexivity).
    assert (Hlen : S (List.length pre) = List.length (pre ++ [sl])) by (rewrite app_length; cbn; lia).
    assert (Htot : total pre + sl = total (pre ++ [sl])) by (rewrite total_snoc; reflexivity).
    destruct ((total pre + sl <=? offset) || (sl =? 0)) eqn:E1.
    + (* block entirely before the range, or empty *)
      destruct (N.max offset (total pre) <? N.min (offset + len) (total pre + sl)) eqn:E2; [lia|].
      cbn [app]. rewrite Hpre, Hlen, Htot. apply IH. rewrite total_snoc. lia.
    + destruct ((len =? 0) || ge_end (total pre) (Some (offset + len))) eqn:E2.
      * (* nothing (more) to take *)
        exists pre, (sl :: r). split; [reflexivity|]. f_equal.
        destruct (N.max offset (total pre) <? N.min (offset + len) (total pre + sl)) eqn:E3; [cbn in E2; lia|].
        cbn [app]. symmetry.
        destruct (len =? 0) eqn:E4.
        -- assert (len = 0) by lia. subst len. apply ref_from_len0.
        -- cbn in E2. apply ref_from_nil_after. lia.
      * cbn [ge_end gt_end end_val] in *.
        destruct (N.max offset (total pre) <? N.min (offset + len) (total pre + sl)) eqn:E3; [|lia].
        set (blkOff := if total pre <? offset then offset - total pre else 0).
        assert (HblkOff : blkOff = N.max offset (total pre) - total pre).
        { unfold blkOff. destruct (total pre <? offset) eqn:E5; lia. }
        set (blkLen := if offset + len <? total pre + (blkOff + (sl - blkOff)) then offset + len - total pre - blkOff else sl - blkOff).
        assert (HblkLen : blkLen = N.min (offset + len) (total pre + sl) - N.max offset (total pre)).
        { unfold blkLen. rewrite HblkOff.
          destruct (offset + len <? total pre + (N.max offset (total pre) - total pre + (sl - (N.max offset (total pre) - total pre)))) eqn:E5; lia. }
        rewrite HblkOff, HblkLen.
        destruct (offset + len <? total pre + sl) eqn:E6.
        -- exists pre, (sl :: r). split; [reflexivity|]. cbn [app]. f_equal.
           rewrite ref_from_nil_after by lia. reflexivity.
        -- destruct (IH (pre ++ [sl]) offset len) as (pre' & rest' & Hsplit & Hloop); [rewrite total_snoc; lia|].
           rewrite Hlen, Htot, Hloop. exists pre', rest'. split; [rewrite Hpre; exact Hsplit|]. reflexivity.
Qed.

Theorem fs_map_ref : forall sizes cur offset len,
  cur_ok sizes cur -> offset + len <= total sizes -> offset + len < 2 ^ 63 ->
  exists cur', fs_map sizes cur offset len = FsSegs (ref sizes offset len) (fst cur') (snd cur') /\ cur_ok sizes cur'.
Proof.
  intros sizes [segIdx pos] offset len (pre & rest & Hs & Hi & Hp) Hin Hsmall. cbn in Hi, Hp. subst segIdx pos.
  unfold fs_map. cbn [snd].
  assert (HE : fs_end offset len = Some (offset + len)).
  { unfold fs_end. destruct (offset + len <? 2 ^ 63) eqn:E; [reflexivity|lia]. }
  rewrite HE.
  destruct (offset <? total pre) eqn:E.
  - (* rewind *)
    destruct (fs_loop_ref sizes [] offset len) as (pre' & rest' & Hsplit & Hloop); [rewrite total_nil; lia|].
    cbn [skipn]. cbn in Hloop. rewrite Hloop. exists (List.length pre', total pre'). split; [reflexivity|].
    exists pre', rest'. auto.
  - subst sizes. rewrite skipn_length_app.
    destruct (fs_loop_ref rest pre offset len) as (pre' & rest' & Hsplit & Hloop); [rewrite <- total_app; exact Hin|].
    rewrite Hloop. exists (List.length pre', total pre'). split.
    + cbn [fst snd]. f_equal. unfold ref. rewrite (ref_from_skip pre rest 0 0) by lia. reflexivity.
    + exists pre', rest'. auto.
Qed.

Lemma cur_ok_start sizes : cur_ok sizes (O, 0).
Proof. exists [], sizes. auto. Qed.

(* the loader never produces an empty segment (the defect repaired by commit 3d5ecdf) *)
Lemma ref_from_nonempty sizes : forall i o pos len sg, In sg (ref_from i o sizes pos len) -> 0 < snd sg.
Proof.
  induction sizes as [|s r IH]; intros i o pos len sg H; cbn in H; [contradiction|].
  apply in_app_or in H. destruct H as [H|H]; [|eapply IH; eauto].
  destruct (N.max pos o <? N.min (pos + len) (o + s)) eqn:E; [|contradiction].
  destruct H as [H|[]]. subst sg. cbn. lia.
Qed.

(* =========================== Go manifest package: firstBlock =========================== *)
Lemma nth_error_offsets_from sizes : forall o pre rest, sizes = pre ++ rest ->
  nth_error (offsets_from o sizes) (List.length pre) = Some (o + total pre).
Proof.
  induction sizes as [|s r IH]; intros o pre rest H.
  - destruct pre; [|discriminate]. cbn. f_equal. lia.
  - destruct pre as [|x pre].
    + cbn. f_equal. lia.
    + cbn in H. injection H as -> H. cbn [List.length offsets_from nth_error].
      rewrite (IH (o + x) pre rest H), total_cons. f_equal. lia.
Qed.
Lemma offsets_from_length sizes : forall o, List.length (offsets_from o sizes) = S (List.length sizes).
Proof. induction sizes as [|s r IH]; intros o; cbn; [reflexivity|]. rewrite IH. reflexivity. Qed.

Lemma div2_bounds lo hi : (lo < hi)%nat -> (lo <= Nat.div2 (hi + lo) < hi)%nat.
Proof.
  intros H. pose proof (Nat.div2_odd (hi + lo)) as E.
  destruct (Nat.odd (hi + lo)); cbn [Nat.b2n] in E; lia.
Qed.

(* termination and index safety for EVERY offsets list with at least two entries and every start *)
Lemma go_first_loop_safe offs start : forall fuel lo hi,
  (lo < hi)%nat -> (hi < List.length offs)%nat -> (hi - lo < fuel)%nat ->
  match go_first_loop fuel offs lo hi (Nat.div2 (hi + lo)) start with
  | BsFound i => (lo <= i < hi)%nat
  | BsNotFound => True
  | BsPanic => False
  | BsFuel => False
  end.
Proof.
  induction fuel as [|f IH]; intros lo hi Hlt Hhi Hfuel; [lia|].
  pose proof (div2_bounds lo hi Hlt) as Hi. set (i := Nat.div2 (hi + lo)) in *.
  cbn [go_first_loop].
  destruct (nth_error offs i) as [bs|] eqn:E1; [|apply nth_error_None in E1; lia].
  destruct (nth_error offs (S i)) as [be|] eqn:E2; [|apply nth_error_None in E2; lia].
  destruct ((bs <=? start) && (start <? be)); [lia|].
  destruct (Nat.eqb lo i) eqn:E3; [exact I|]. apply Nat.eqb_neq in E3.
  destruct (be <=? start).
  - specialize (IH i hi ltac:(lia) Hhi ltac:(lia)).
    destruct (go_first_loop f offs i hi (Nat.div2 (hi + i)) start); try exact IH. lia.
  - replace (i + lo)%nat with (i + lo)%nat by reflexivity.
    specialize (IH lo i ltac:(lia) ltac:(lia) ltac:(lia)).
    destruct (go_first_loop f offs lo i (Nat.div2 (i + lo)) start); try exact IH. lia.
Qed.

Theorem go_first_safe : forall offs start, (2 <= List.length offs)%nat ->
  match go_first offs start with
  | BsFound i => (S i < List.length offs)%nat
  | BsNotFound => True
  | BsPanic | BsFuel => False
  end.
Proof.
  intros offs start H. unfold go_first.
  pose proof (go_first_loop_safe offs start (S (List.length offs)) 0 (List.length offs - 1)
                ltac:(lia) ltac:(lia) ltac:(lia)) as HS.
  rewrite Nat.add_0_r in HS.
  destruct (go_first_loop (S (List.length offs)) offs 0 (List.length offs - 1) (Nat.div2 (List.length offs - 1)) start); auto. lia.
Qed.

(* monotone offsets: the search finds the block that contains start *)
Definition offs_at (offs : list N) (i : nat) : N := nth i offs 0.
Lemma go_first_loop_finds offs start :
  (forall a b, (a <= b < List.length offs)%nat -> offs_at offs a <= offs_at offs b) ->
  forall fuel lo hi,
  (lo < hi)%nat -> (hi < List.length offs)%nat -> (hi - lo < fuel)%nat ->
  offs_at offs lo <= start -> start < offs_at offs hi ->
  exists i, go_first_loop fuel offs lo hi (Nat.div2 (hi + lo)) start = BsFound i /\
            (S i < List.length offs)%nat /\ offs_at offs i <= start < offs_at offs (S i).
Proof.
  intros Hmono. induction fuel as [|f IH]; intros lo hi Hlt Hhi Hfuel Hlo Hhi'; [lia|].
  pose proof (div2_bounds lo hi Hlt) as Hi. pose proof (Nat.div2_odd (hi + lo)) as Hodd.
  remember (Nat.div2 (hi + lo)) as i eqn:Hi'.
  cbn [go_first_loop].
  assert (E1 : nth_error offs i = Some (offs_at offs i)) by (apply nth_error_nth'; lia).
  assert (E2 : nth_error offs (S i) = Some (offs_at offs (S i))) by (apply nth_error_nth'; lia).
  rewrite E1, E2.
  destruct ((offs_at offs i <=? start) && (start <? offs_at offs (S i))) eqn:E3.
  - exists i. split; [reflexivity|]. split; [lia|]. lia.
  - destruct (Nat.eqb lo i) eqn:E4.
    + apply Nat.eqb_eq in E4. exfalso.
      assert (Hhi2 : hi = S i) by (destruct (Nat.odd (hi + lo)); cbn [Nat.b2n] in Hodd; lia).
      rewrite E4 in Hlo. rewrite Hhi2 in Hhi'. lia.
    + apply Nat.eqb_neq in E4.
      destruct (offs_at offs (S i) <=? start) eqn:E5.
      * apply IH; try lia. pose proof (Hmono i (S i) ltac:(lia)). lia.
      * apply IH; try lia.
Qed.

Lemma offsets_nth sizes : forall pre rest, sizes = pre ++ rest ->
  offs_at (offsets sizes) (List.length pre) = total pre.
Proof.
  intros pre rest H. unfold offs_at, offsets.
  pose proof (nth_error_offsets_from sizes 0 pre rest H) as E.
  apply nth_error_nth with (d := 0) in E. rewrite E. lia.
Qed.
Lemma split_at {A} (l : list A) i : (i <= List.length l)%nat -> exists pre rest, l = pre ++ rest /\ List.length pre = i.
Proof.
  intros H. exists (firstn i l), (skipn i l). split; [symmetry; apply firstn_skipn|]. apply firstn_length_le. exact H.
Qed.
Lemma total_prefix_le (pre1 : list N) : forall rest1 pre2 rest2, pre1 ++ rest1 = pre2 ++ rest2 ->
  (List.length pre1 <= List.length pre2)%nat -> total pre1 <= total pre2.
Proof.
  induction pre1 as [|x p IH]; intros rest1 pre2 rest2 H Hl; [rewrite total_nil; lia|].
  destruct pre2 as [|y q]; [cbn in Hl; lia|]. cbn in H. injection H as -> H.
  rewrite !total_cons. pose proof (IH rest1 q rest2 H ltac:(cbn in Hl; lia)). lia.
Qed.
Lemma offsets_mono sizes a b : (a <= b < List.length (offsets sizes))%nat ->
  offs_at (offsets sizes) a <= offs_at (offsets sizes) b.
Proof.
  unfold offsets at 1. rewrite offsets_from_length. intros H.
  destruct (split_at sizes a ltac:(lia)) as (p1 & r1 & H1 & L1).
  destruct (split_at sizes b ltac:(lia)) as (p2 & r2 & H2 & L2).
  rewrite <- L1, <- L2, (offsets_nth sizes p1 r1 H1), (offsets_nth sizes p2 r2 H2).
  eapply total_prefix_le; [rewrite <- H1, <- H2; reflexivity|lia].
Qed.

Theorem go_first_finds : forall sizes start, start < total sizes ->
  exists pre s rest, sizes = pre ++ s :: rest /\ go_first (offsets sizes) start = BsFound (List.length pre) /\
                     total pre <= start < total pre + s.
Proof.
  intros sizes start H.
  assert (Hne : sizes <> []) by (intros ->; rewrite total_nil in H; lia).
  assert (Hlen : List.length (offsets sizes) = S (List.length sizes)) by apply offsets_from_length.
  unfold go_first. rewrite Hlen. replace (S (List.length sizes) - 1)%nat with (List.length sizes) by lia.
  assert (Hpos : (0 < List.length sizes)%nat) by (destruct sizes; [congruence|cbn; lia]).
  destruct (go_first_loop_finds (offsets sizes) start (offsets_mono sizes) (S (S (List.length sizes))) 0 (List.length sizes))
    as (i & Hf & Hi & Hin); try lia.
  - change 0%nat with (@List.length N []). rewrite (offsets_nth sizes [] sizes eq_refl), total_nil. lia.
  - rewrite (offsets_nth sizes sizes []) by (symmetry; apply app_nil_r). exact H.
  - rewrite Nat.add_0_r in Hf. rewrite Hlen in Hi.
    destruct (split_at sizes i ltac:(lia)) as (pre & rest & Hs & Hl).
    destruct rest as [|s rest]; [rewrite app_nil_r in Hs; subst pre; lia|].
    exists pre, s, rest. split; [exact Hs|]. split; [rewrite Hl; exact Hf|].
    rewrite <- Hl in Hin. rewrite (offsets_nth sizes pre (s :: rest) Hs) in Hin.
    assert (Hs' : sizes = (pre ++ [s]) ++ rest) by (rewrite <- app_assoc; exact Hs).
    replace (S (List.length pre)) with (List.length (pre ++ [s])) in Hin by (rewrite app_length; cbn; lia).
    rewrite (offsets_nth sizes (pre ++ [s]) rest Hs'), total_snoc in Hin. exact Hin.
Qed.

(* =========================== Go manifest package: the scan =========================== *)
Lemma go_scan_ref sizes : forall rest pre fuel wantPos wantEnd,
  sizes = pre ++ rest -> (List.length rest <= fuel)%nat ->
  wantPos < wantEnd ->
  (rest <> [] -> wantPos < total pre + hd 0 rest) ->
  exists l, go_scan fuel (offsets sizes) (List.length sizes) (List.length pre) wantPos wantEnd = GSegs l /\
            nonempty l = ref_from (List.length pre) (total pre) rest wantPos (wantEnd - wantPos).
Proof.
  induction rest as [|s r IH]; intros pre fuel wantPos wantEnd Hs Hfuel Hlt Hhd.
  - exists []. split; [|reflexivity]. rewrite app_nil_r in Hs. subst pre.
    destruct fuel; cbn [go_scan]; [reflexivity|]. rewrite Nat.leb_refl. reflexivity.
  - destruct fuel as [|f]; [cbn in Hfuel; lia|]. cbn [go_scan].
    assert (Hl : (List.length pre < List.length sizes)%nat) by (subst sizes; rewrite app_length; cbn; lia).
    destruct (Nat.leb (List.length sizes) (List.length pre)) eqn:E0; [apply Nat.leb_le in E0; lia|].
    assert (Hs' : sizes = (pre ++ [s]) ++ r) by (rewrite <- app_assoc; exact Hs).
    assert (Hlen : S (List.length pre) = List.length (pre ++ [s])) by (rewrite app_length; cbn; lia).
    unfold offsets. rewrite (nth_error_offsets_from sizes 0 pre (s :: r) Hs).
    rewrite Hlen, (nth_error_offsets_from sizes 0 (pre ++ [s]) r Hs'), total_snoc, !N.add_0_l.
    specialize (Hhd ltac:(discriminate)). cbn [hd] in Hhd.
    destruct (total pre + s <=? wantPos) eqn:E1; [lia|].
    cbn [ref_from].
    destruct (wantEnd <=? total pre) eqn:E2.
    + exists []. split; [reflexivity|]. cbn [nonempty filter].
      destruct (N.max wantPos (total pre) <? N.min (wantPos + (wantEnd - wantPos)) (total pre + s)) eqn:E3; [lia|].
      cbn [app]. symmetry. apply ref_from_nil_after. lia.
    + destruct (IH (pre ++ [s]) f wantPos wantEnd Hs' ltac:(cbn in Hfuel; lia) Hlt) as (l & Hscan & Hne).
      { intros _. rewrite total_snoc. destruct r as [|s2 r2]; cbn [hd]; lia. }
      unfold offsets in Hscan. rewrite Hscan. rewrite total_snoc in Hne.
      eexists. split; [reflexivity|]. cbn [nonempty filter]. fold (nonempty l). rewrite Hne.
      set (off := if total pre <? wantPos then wantPos - total pre else 0).
      assert (Hoff : off = N.max wantPos (total pre) - total pre) by (unfold off; destruct (total pre <? wantPos) eqn:E; lia).
      set (len := if wantEnd <? total pre + s then wantEnd - total pre - off else total pre + s - total pre - off).
      assert (Hlen' : len = N.min (wantPos + (wantEnd - wantPos)) (total pre + s) - N.max wantPos (total pre)).
      { unfold len. rewrite Hoff. destruct (wantEnd <? total pre + s) eqn:E; lia. }
      destruct (N.max wantPos (total pre) <? N.min (wantPos + (wantEnd - wantPos)) (total pre + s)) eqn:E3.
      * destruct (0 <? len) eqn:E4; [|lia]. cbn [app]. rewrite Hoff, Hlen', <- Hlen. reflexivity.
      * destruct (0 <? len) eqn:E4; [lia|]. rewrite <- Hlen. reflexivity.
Qed.

(* codec_agrees_gomanifest at the range level: for every block-size list (empty blocks anywhere) and every
   non-empty range inside the stream that does not overflow uint64, the segments that carry bytes are exactly the
   reference's *)
Theorem go_map_ref : forall sizes pos len,
  0 < len -> pos + len <= total sizes -> pos + len < 2 ^ 64 ->
  exists l, go_map sizes pos len = GSegs l /\ nonempty l = ref sizes pos len.
Proof.
  intros sizes pos len Hlen Hin Hsmall. unfold go_map.
  destruct (go_first_finds sizes pos ltac:(lia)) as (pre & s & rest & Hs & Hf & Hb).
  rewrite Hf. unfold w64. rewrite N.mod_small by exact Hsmall.
  destruct (go_scan_ref sizes (s :: rest) pre (List.length sizes) pos (pos + len) Hs) as (l & Hscan & Hne).
  - subst sizes. rewrite app_length. lia.
  - lia.
  - intros _. cbn [hd]. lia.
  - exists l. split; [exact Hscan|]. rewrite Hne. replace (pos + len - pos) with len by lia.
    unfold ref. subst sizes. rewrite (ref_from_skip pre (s :: rest) 0 0) by lia. reflexivity.
Qed.

(* the parser's range check (with the wrap test of commit b3717b9) implies that nothing wraps *)
Lemma go_range_ok_nowrap sizes pos len : pos < 2 ^ 64 -> len < 2 ^ 64 -> go_range_ok sizes pos len = true ->
  pos + len < 2 ^ 64 /\ pos + len <= total sizes.
Proof.
  intros Hp Hl H. unfold go_range_ok, w64 in H. apply andb_prop in H. destruct H as [H1 H2].
  destruct (N.lt_ge_cases (pos + len) (2 ^ 64)) as [Hs|Hs].
  - rewrite N.mod_small in H1 by exact Hs. lia.
  - exfalso. assert (Hm : (pos + len) mod 2 ^ 64 = pos + len - 2 ^ 64).
    { rewrite <- (N.mod_small (pos + len - 2 ^ 64) (2 ^ 64)) by lia.
      replace (pos + len) with ((pos + len - 2 ^ 64) + 1 * 2 ^ 64) at 1 by lia. apply N.mod_add. lia. }
    rewrite Hm in H2. lia.
Qed.
(* no_panic, range level: every file token (uint64 fields) that the parser accepts is mapped without panic, whatever
   the block sizes (with len = 0 the code does not search at all) *)
Theorem go_map_no_panic : forall sizes pos len,
  0 < len -> pos < 2 ^ 64 -> len < 2 ^ 64 -> go_range_ok sizes pos len = true -> go_map sizes pos len <> GPanic.
Proof.
  intros sizes pos len Hlen Hp Hl Hok.
  destruct (go_range_ok_nowrap sizes pos len Hp Hl Hok) as [Hs Hin].
  destruct (go_map_ref sizes pos len Hlen Hin Hs) as (l & H & _). rewrite H. discriminate.
Qed.
(* the former finding F14: the wrapped sum is now rejected by the check *)
Lemma go_range_rejects_overflow : go_range_ok [3] 18446744073709551615 1 = false.
Proof. vm_compute. reflexivity. Qed.

(* =========================== Python =========================== *)
Lemma nth_error_ranges_from sizes : forall o i,
  nth_error (ranges_from o sizes) i =
  match nth_error (offsets_from o sizes) i, nth_error (offsets_from o sizes) (S i) with
  | Some a, Some b => Some (a, b - a)
  | _, _ => None
  end.
Proof.
  induction sizes as [|s r IH]; intros o i.
  - destruct i as [|[|i]]; reflexivity.
  - destruct i as [|i].
    + cbn. destruct r; cbn; f_equal; f_equal; lia.
    + cbn [ranges_from offsets_from nth_error]. rewrite IH. reflexivity.
Qed.
Lemma offsets_from_step sizes : forall o i a b,
  nth_error (offsets_from o sizes) i = Some a -> nth_error (offsets_from o sizes) (S i) = Some b -> a <= b.
Proof.
  induction sizes as [|s r IH]; intros o i a b H1 H2.
  - destruct i as [|[|i]]; cbn in H2; discriminate.
  - destruct i as [|i].
    + cbn in H1, H2. injection H1 as <-. destruct r; cbn in H2; injection H2 as <-; lia.
    + cbn [offsets_from nth_error] in H1, H2. eapply IH; eauto.
Qed.

Lemma py_first_loop_eq sizes start : forall fuel o lo hi i,
  py_first_loop fuel (ranges_from o sizes) lo hi i start = go_first_loop fuel (offsets_from o sizes) lo hi i start.
Proof.
  induction fuel as [|f IH]; intros o lo hi i; [reflexivity|].
  cbn [py_first_loop go_first_loop]. rewrite nth_error_ranges_from.
  destruct (nth_error (offsets_from o sizes) i) as [a|] eqn:E1; [|reflexivity].
  destruct (nth_error (offsets_from o sizes) (S i)) as [b|] eqn:E2; [|reflexivity].
  pose proof (offsets_from_step sizes o i a b E1 E2) as Hab.
  replace (a + (b - a)) with b by lia. rewrite !IH. reflexivity.
Qed.
Lemma ranges_from_length sizes : forall o, List.length (ranges_from o sizes) = List.length sizes.
Proof. induction sizes as [|s r IH]; intros o; cbn; [reflexivity|]. rewrite IH. reflexivity. Qed.

(* Python's first_block is the Go firstBlock *)
Theorem py_first_eq : forall sizes start, py_first (ranges_from 0 sizes) start = go_first (offsets sizes) start.
Proof.
  intros sizes start. unfold py_first, go_first, offsets. rewrite ranges_from_length, offsets_from_length.
  replace (S (List.length sizes) - 1)%nat with (List.length sizes) by lia. apply py_first_loop_eq.
Qed.

Lemma skipn_ranges_from pre : forall rest o,
  skipn (List.length pre) (ranges_from o (pre ++ rest)) = ranges_from (o + total pre) rest.
Proof.
  induction pre as [|x p IH]; intros rest o; cbn [List.length skipn app ranges_from].
  - rewrite total_nil, N.add_0_r. reflexivity.
  - rewrite IH, total_cons. f_equal. lia.
Qed.

Lemma py_scan_ref rest : forall i o rstart rsize,
  0 < rsize ->
  nonempty (py_scan (ranges_from o rest) i rstart rsize) = ref_from i o rest rstart rsize.
Proof.
  induction rest as [|s r IH]; intros i o rstart rsize Hsz; [reflexivity|].
  cbn [ranges_from py_scan ref_from].
  destruct (rstart + rsize <=? o) eqn:E1.
  - destruct (N.max rstart o <? N.min (rstart + rsize) (o + s)) eqn:E2; [lia|].
    cbn. symmetry. apply ref_from_nil_after. lia.
  - unfold nonempty. rewrite filter_app. fold (nonempty (py_scan (ranges_from (o + s) r) (S i) rstart rsize)).
    rewrite IH by exact Hsz. f_equal.
    destruct (N.max rstart o <? N.min (rstart + rsize) (o + s)) eqn:E2.
    + destruct ((o <=? rstart) && (rstart + rsize <=? o + s)) eqn:C1.
      { cbn. destruct (0 <? rsize) eqn:Z; [|lia]. f_equal. f_equal; [f_equal|]; lia. }
      destruct ((o <=? rstart) && (o + s <? rstart + rsize)) eqn:C2.
      { cbn. destruct (0 <? o + s - rstart) eqn:Z; [|lia]. f_equal. f_equal; [f_equal|]; lia. }
      destruct ((rstart <? o) && (o + s <? rstart + rsize)) eqn:C3.
      { cbn. destruct (0 <? s) eqn:Z; [|lia]. f_equal. f_equal; [f_equal|]; lia. }
      destruct ((rstart <? o) && (rstart + rsize <=? o + s)) eqn:C4.
      { cbn. destruct (0 <? rstart + rsize - o) eqn:Z; [|lia]. f_equal. f_equal; [f_equal|]; lia. }
      lia.
    + destruct ((o <=? rstart) && (rstart + rsize <=? o + s)) eqn:C1; [lia|].
      destruct ((o <=? rstart) && (o + s <? rstart + rsize)) eqn:C2.
      { cbn. destruct (0 <? o + s - rstart) eqn:Z; [lia|]. reflexivity. }
      destruct ((rstart <? o) && (o + s <? rstart + rsize)) eqn:C3.
      { cbn. destruct (0 <? s) eqn:Z; [lia|]. reflexivity. }
      destruct ((rstart <? o) && (rstart + rsize <=? o + s)) eqn:C4; [lia|]. reflexivity.
Qed.

(* codec_agrees_python at the range level *)
Theorem py_lar_ref : forall sizes pos len,
  pos + len <= total sizes ->
  exists l, py_lar sizes pos len = PySegs l /\ nonempty l = ref sizes pos len.
Proof.
  intros sizes pos len Hin. unfold py_lar.
  destruct (len =? 0) eqn:E0.
  - assert (len = 0) by lia. subst len. exists []. split; [reflexivity|]. unfold ref. rewrite ref_from_len0. reflexivity.
  - rewrite py_first_eq.
    destruct (go_first_finds sizes pos ltac:(lia)) as (pre & s & rest & Hs & Hf & Hb).
    rewrite Hf. eexists. split; [reflexivity|].
    subst sizes. rewrite skipn_ranges_from, N.add_0_l, py_scan_ref by lia.
    unfold ref. rewrite (ref_from_skip pre (s :: rest) 0 0) by lia. reflexivity.
Qed.

(* a range that starts at or after the end of the stream: Python returns no data and raises nothing
   (non-empty block list); an empty block list raises IndexError for a non-empty range *)
Theorem py_lar_no_exception : forall sizes pos len, sizes <> [] -> py_lar sizes pos len <> PyPanic.
Proof.
  intros sizes pos len Hne. unfold py_lar. destruct (len =? 0); [discriminate|].
  rewrite py_first_eq.
  pose proof (go_first_safe (offsets sizes) pos) as HS.
  unfold offsets in HS at 1. rewrite offsets_from_length in HS.
  specialize (HS ltac:(destruct sizes; [congruence|cbn; lia])).
  destruct (go_first (offsets sizes) pos); try discriminate; contradiction.
Qed.
Lemma py_lar_empty_list_raises : py_lar [] 0 1 = PyPanic.
Proof. vm_compute. reflexivity. Qed.
