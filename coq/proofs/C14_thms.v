(* C14 — remaining statements: worker selection, the scheduler pass instantiated with the real pool model,
   non-vacuity examples of the transition system. *)
From Coq Require Import List ZArith Bool NArith Lia.
From AV Require Import model.C16_runq model.C14_pool model.C14_sys model.C14_wp_run
                       proofs.C16_runq proofs.C14_pool proofs.C14_sys.
Import ListNotations.
Local Open Scope Z_scope.

(* Pool.StartContainer only ever picks an instance that is idle, has IdleBehavior run and the requested
   type: never held, draining, booting, unknown or shut down *)
Theorem start_only_idle_run_workers it u p id p' :
  pool_start it u p = (Some id, p') ->
  exists w, In w (p_workers p) /\ w_id w = id /\ w_st w = WIdle /\ w_ib w = IRun /\ w_it w = it.
Proof.
  unfold pool_start. destruct (pick_latest it (p_workers p) None) as [w|] eqn:E; [|discriminate].
  intros H; injection H as <- <-. destruct (pick_latest_in _ _ _ _ E) as [[Hin Hc]|Hb]; [|discriminate].
  exists w. split; [exact Hin|]. split; [reflexivity|]. unfold start_candidate in Hc. rewrite !andb_true_iff in Hc.
  destruct Hc as [[H1 H2] H3]. apply N.eqb_eq in H1.
  split; [destruct (w_st w); cbn in H2; congruence|]. split; [destruct (w_ib w); cbn in H3; congruence|exact H1].
Qed.

(* the scheduler pass over the real pool: nothing reported by Pool.Running() (starting, running or an
   exited placeholder not yet forgotten) is started *)
Theorem run_queue_skips_running sorted e it u r :
  In (EStart it u r) (r_log (sched_pass sorted e)) -> ~ In u (map fst (pool_running (pe_pool e))).
Proof.
  unfold sched_pass. intros H.
  destruct (rq_start_only_locked_positive _ _ _ _ _ _ _ _ _ _ _ _ H) as (x & _ & _ & _ & _ & _ & Hm).
  intros Hin. apply memN_In in Hin. congruence.
Qed.

(* ---------------- the transition system is not vacuous ---------------- *)
Definition cfg0 : cfg := mkcfg 1000000000 1000000000 1000000000 1000000000 1000000000.
Definition ent1 : ent := mkent 7 Locked 5 0.

(* create an instance, boot it, start container 7, restart the dispatcher, rediscover the process, and
   run the scheduler again on the same (still Locked) entry: exactly one process *)
Definition demo_run : list label :=
  [LSched [ent1]; LProbeBegin 1 true true false false; LProbeEnd 1; LSched [ent1]; LLands 1 7 true;
   LRestart; LPoolSync []; LProbeBegin 1 true true false false; LProbeEnd 1; LSched [ent1]].
Example demo_run_ok :
  match run cfg0 demo_run (init_sys [0%N]) with
  | Some s => all_procs s = [7%N] /\ map (fun w => (w_id w, w_st w, wbook w)) (p_workers (spool s)) = [(1%N, WRunning, [7%N])]
  | None => False
  end.
Proof. vm_compute. split; reflexivity. Qed.

(* assumption A2 is what keeps the scheduler from starting the container again right after the restart,
   before the old process has been rediscovered: that pass is not a step of the system *)
Example restart_needs_A2 :
  match run cfg0 [LSched [ent1]; LProbeBegin 1 true true false false; LProbeEnd 1; LSched [ent1]; LLands 1 7 true;
                  LSched [mkent 8 Locked 4 0]; LProbeBegin 2 true true false false; LProbeEnd 2;
                  LRestart; LPoolSync []; LProbeBegin 2 true true false false; LProbeEnd 2] (init_sys [0%N; 0%N]) with
  | Some s => step cfg0 (LSched [ent1]) s = None /\ undiscovered s 7 = true
  | None => False
  end.
Proof. vm_compute. split; reflexivity. Qed.
