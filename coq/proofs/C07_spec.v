(* C07 — the evaluator of model/C07_run.v: (1) looking signatures up in the per-case table changes
   nothing (check_case_eq); (2) the boolean specification reflects the Prop-level statements;
   (3) the model's own output always satisfies the boolean specification (so a spec failure on the
   implementation's output is a disagreement with the proved model, not an artefact). *)
From Coq Require Import NArith List Ascii String Bool Lia Arith.
From AV Require Import lib.Str lib.Sha1 lib.TokSplit lib.HexNum lib.Sha1Facts model.C07_model model.C07_run
     proofs.C07_msg proofs.C07_parse proofs.C07_verify proofs.C07_manifest.
Import ListNotations.
Local Open Scope string_scope.

(* ---------- (1) the signature table ---------- *)
Definition ext (mk : sigfun) : Prop := forall k h t e l, mk k h t e l = make_sig k h t e l.

Lemma tuple_eqb_eq a b : tuple_eqb a b = true -> a = b.
Proof.
  destruct a as [[[[k h] t] e] l], b as [[[[k' h'] t'] e'] l']. cbn [tuple_eqb]. intro H.
  repeat (apply andb_true_iff in H; destruct H as [H ?]).
  repeat match goal with X : String.eqb _ _ = true |- _ => apply String.eqb_eq in X end. congruence.
Qed.

Definition tab_ok (t : sigtab) : Prop :=
  Forall (fun xs : tuple * string => let '(k, h, tk, e, l) := fst xs in snd xs = make_sig k h tk e l) t.

Lemma tab_find_ok t x s : tab_ok t -> tab_find t x = Some s -> let '(k, h, tk, e, l) := x in s = make_sig k h tk e l.
Proof.
  induction 1 as [|[y s'] r Hy _ IH]; [discriminate|]. cbn [tab_find]. destruct (tuple_eqb x y) eqn:E.
  - apply tuple_eqb_eq in E. subst y. intro H. injection H as <-. exact Hy.
  - exact IH.
Qed.

Lemma build_tab_ok l : tab_ok (build_tab l).
Proof.
  unfold build_tab, tab_ok. apply Forall_forall. intros [x s] Hin. apply in_map_iff in Hin.
  destruct Hin as [[[[[k h] t] e] l'] [Heq _]]. injection Heq as <- <-. reflexivity.
Qed.

Lemma mk_cached_ext t : tab_ok t -> ext (mk_cached t).
Proof.
  intros Hok k h tk e l. unfold mk_cached. destruct (tab_find t (k, h, tk, e, l)) as [s|] eqn:E; [|reflexivity].
  exact (tab_find_ok t (k, h, tk, e, l) s Hok E).
Qed.

Section Ext.
Variable mk : sigfun.
Hypothesis Hmk : ext mk.

Lemma sign_locator_ext loc tok exp ttl key : sign_locator_k mk loc tok exp ttl key = sign_locator loc tok exp ttl key.
Proof. unfold sign_locator, sign_locator_k. rewrite Hmk. reflexivity. Qed.
Lemma verify_ext loc tok ttl key now : verify_k mk loc tok ttl key now = verify loc tok ttl key now.
Proof.
  unfold verify, verify_k. destruct (parse_signed loc) as [[[h sg] e]|]; [|reflexivity].
  destruct (hexnum e); [|reflexivity]. rewrite Hmk. reflexivity.
Qed.
Lemma sign_tok_ext tokn exp ttl key t : sign_tok_k mk tokn exp ttl key t = sign_tok_k make_sig tokn exp ttl key t.
Proof. unfold sign_tok_k. rewrite sign_locator_ext. reflexivity. Qed.
Lemma sm_scan_ext (f g : string -> string) : (forall t, f t = g t) -> forall s, sm_scan f s = sm_scan g s.
Proof.
  intros Hfg. induction s as [|c r IH]; [reflexivity|]. cbn [sm_scan]. rewrite IH.
  destruct (sm_scan g r) as [t out]. unfold flush. destruct t; rewrite ?Hfg; reflexivity.
Qed.
Lemma sign_manifest_ext m tokn exp ttl key : sign_manifest_k mk m tokn exp ttl key = sign_manifest m tokn exp ttl key.
Proof.
  unfold sign_manifest, sign_manifest_k, map_tokens. rewrite (sm_scan_ext _ _ (sign_tok_ext tokn exp ttl key)).
  destruct (sm_scan _ m) as [t out]. unfold flush. destruct t; rewrite ?sign_tok_ext; reflexivity.
Qed.
Lemma get_gate_ext signing path auth ttl key now : get_gate_k mk signing path auth ttl key now = get_gate signing path auth ttl key now.
Proof. unfold get_gate, get_gate_k. rewrite verify_ext. reflexivity. Qed.

Lemma spec_verify_ext loc tok ttl key now o : spec_verify_k mk loc tok ttl key now o = spec_verify_k make_sig loc tok ttl key now o.
Proof.
  unfold spec_verify_k. destruct (parse_signed loc) as [[[h sg] e]|]; [|reflexivity].
  destruct (hexnum e); [|reflexivity]. rewrite Hmk. reflexivity.
Qed.
Lemma spec_sign_ext loc tok exp ttl key o : spec_sign_k mk loc tok exp ttl key o = spec_sign_k make_sig loc tok exp ttl key o.
Proof. unfold spec_sign_k. rewrite Hmk. reflexivity. Qed.
Lemma spec_tok_ext tokn exp ttl key t : spec_tok_k mk tokn exp ttl key t = spec_tok_k make_sig tokn exp ttl key t.
Proof. unfold spec_tok_k. rewrite Hmk. reflexivity. Qed.
Lemma spec_manifest_ext m tokn exp ttl key o : spec_manifest_k mk m tokn exp ttl key o = spec_manifest_k make_sig m tokn exp ttl key o.
Proof.
  unfold spec_manifest_k. f_equal. f_equal. apply map_ext. intros [k s]. cbn [fst snd]. rewrite spec_tok_ext. reflexivity.
Qed.
Lemma spec_get_ext signing path auth ttl key now stored code body_ok :
  spec_get_k mk signing path auth ttl key now stored code body_ok = spec_get_k make_sig signing path auth ttl key now stored code body_ok.
Proof. unfold spec_get_k. rewrite !spec_verify_ext. reflexivity. Qed.

Lemma forallb'_ext {A} (f g : A -> bool) l : (forall x, f x = g x) -> forallb' f l = forallb' g l.
Proof. intro H. induction l as [|x r IH]; [reflexivity|]. cbn [forallb']. rewrite H, IH. reflexivity. Qed.

Lemma spec_k_ext c : spec_k mk c = spec_k make_sig c.
Proof.
  destruct c; cbn [spec_k].
  - apply spec_sign_ext.
  - apply spec_verify_ext.
  - rewrite spec_sign_ext. f_equal. unfold base_tuple. rewrite Hmk.
    apply forallb'_ext. intro p. rewrite spec_verify_ext. reflexivity.
  - apply spec_manifest_ext.
  - apply spec_get_ext.
  - reflexivity.
Qed.
Lemma model_k_ext c : model_k mk c = model_k make_sig c.
Proof.
  destruct c; cbn [model_k].
  - rewrite sign_locator_ext, Hmk. reflexivity.
  - rewrite verify_ext. reflexivity.
  - rewrite sign_locator_ext. f_equal. apply forallb'_ext. intro p. rewrite verify_ext. reflexivity.
  - rewrite sign_manifest_ext. reflexivity.
  - rewrite get_gate_ext. reflexivity.
  - reflexivity.
Qed.
End Ext.

Theorem check_case_eq c : check_case c = code_of (model_b c) (spec_b c).
Proof.
  unfold check_case, model_b, spec_b.
  rewrite (model_k_ext _ (mk_cached_ext _ (build_tab_ok (needs c)))), (spec_k_ext _ (mk_cached_ext _ (build_tab_ok (needs c)))).
  reflexivity.
Qed.

(* ---------- (2) the boolean specification reflects the Prop-level one ---------- *)
Definition VerifySpec (loc tok : string) (ttl : N) (key : string) (now : N) (o : vres) : Prop :=
  (o = VOk <-> accepts loc tok ttl key now) /\ (o = VExpired <-> wf_expired loc now).

Lemma spec_verify_vs_model loc tok ttl key now o :
  spec_verify_k make_sig loc tok ttl key now o = true <->
  ((o = VOk <-> verify loc tok ttl key now = VOk) /\ (o = VExpired <-> verify loc tok ttl key now = VExpired)).
Proof.
  unfold spec_verify_k, verify, verify_k. destruct (parse_signed loc) as [[[h sg] e]|].
  - destruct (hexnum e) as [ts|].
    + destruct (expired ts now).
      * destruct o; cbn; intuition congruence.
      * destruct (String.eqb sg _); destruct o; cbn; intuition congruence.
    + destruct o; cbn; intuition congruence.
  - destruct o; cbn; intuition congruence.
Qed.

Theorem spec_verify_reflects loc tok ttl key now o :
  spec_verify_k make_sig loc tok ttl key now o = true <-> VerifySpec loc tok ttl key now o.
Proof.
  rewrite spec_verify_vs_model. unfold VerifySpec.
  rewrite (verify_ok_iff loc tok ttl key now), (verify_expired_iff loc tok ttl key now). reflexivity.
Qed.

Definition SignSpec (loc tok : string) (exp ttl : N) (key : string) (o : string) : Prop :=
  (key = "" \/ tok = "" -> o = loc) /\
  (key <> "" -> tok <> "" ->
   o = loc ++ "+A" ++ hmac_sha1_hex key (hd "" (split_on "+" loc) ++ "@" ++ tok ++ "@" ++ hex08 exp ++ "@" ++ hexn (ttl / 1000000000)) ++ "@" ++ hex08 exp).
Theorem spec_sign_reflects loc tok exp ttl key o :
  spec_sign_k make_sig loc tok exp ttl key o = true <-> SignSpec loc tok exp ttl key o.
Proof.
  unfold spec_sign_k, SignSpec. destruct (String.eqb_spec key "") as [->|Hk]; cbn [orb].
  - rewrite String.eqb_eq. split; [intros ->; split; [reflexivity|congruence]|intros [H _]; apply H; auto].
  - destruct (String.eqb_spec tok "") as [->|Ht].
    + rewrite String.eqb_eq. split; [intros ->; split; [reflexivity|congruence]|intros [H _]; apply H; auto].
    + rewrite String.eqb_eq. split.
      * intros ->. split; [intros [?|?]; contradiction|reflexivity].
      * intros [_ H]. apply H; assumption.
Qed.

Definition ManifestSpec (m tokn : string) (exp ttl : N) (key : string) (o : string) : Prop :=
  o = render (spec_tok_k make_sig tokn exp ttl key) (chunks m).
Theorem spec_manifest_reflects m tokn exp ttl key o :
  spec_manifest_k make_sig m tokn exp ttl key o = true <-> ManifestSpec m tokn exp ttl key o.
Proof. unfold spec_manifest_k, ManifestSpec, render. apply String.eqb_eq. Qed.

(* keepstore: with signing on, a routed non-remote GET is served (200 with the block, or 404 when the
   block is not stored) exactly if the signature is accepted; expired => 401; otherwise 403 *)
Definition served (stored : bool) (code : N) (body_ok : bool) : Prop :=
  if stored then code = 200%N /\ body_ok = true else code = 404%N.
Definition GetSpec (signing : bool) (path : string) (auth : option string) (ttl : N) (key : string) (now : N)
           (stored : bool) (code : N) (body_ok : bool) : Prop :=
  match route_get path with
  | None => code = 400%N
  | Some _ =>
    let loc := drop 1 path in
    if contains "+R" loc && negb (contains "+A" loc) then True
    else if negb signing then served stored code body_ok
    else (accepts loc (api_token auth) ttl key now -> served stored code body_ok) /\
         (wf_expired loc now -> code = 401%N) /\
         (~ accepts loc (api_token auth) ttl key now -> ~ wf_expired loc now -> code = 403%N)
  end.

Lemma served_b (stored : bool) (code : N) (body_ok : bool) :
  (if stored then (code =? 200)%N && body_ok else (code =? 404)%N) = true <-> served stored code body_ok.
Proof.
  unfold served. destruct stored.
  - rewrite andb_true_iff, N.eqb_eq. reflexivity.
  - apply N.eqb_eq.
Qed.

Theorem spec_get_reflects signing path auth ttl key now stored code body_ok :
  spec_get_k make_sig signing path auth ttl key now stored code body_ok = true <->
  GetSpec signing path auth ttl key now stored code body_ok.
Proof.
  unfold spec_get_k, GetSpec. destruct (route_get path) as [h|]; [|apply N.eqb_eq].
  destruct (contains "+R" (drop 1 path) && negb (contains "+A" (drop 1 path))); [tauto|].
  destruct signing; cbn [negb]; [|apply served_b].
  set (loc := drop 1 path). set (tok := api_token auth).
  pose proof (spec_verify_reflects loc tok ttl key now VOk) as Hok.
  pose proof (spec_verify_reflects loc tok ttl key now VExpired) as Hex.
  unfold VerifySpec in Hok, Hex.
  destruct (spec_verify_k make_sig loc tok ttl key now VOk) eqn:E1.
  - destruct (proj1 Hok eq_refl) as [[Ha _] [_ Hne]]. specialize (Ha eq_refl).
    rewrite served_b. split.
    + intro Hs. split; [auto|]. split; [intro He; apply Hne in He; discriminate|intros Hna; contradiction].
    + intros [H _]. apply H, Ha.
  - assert (Hna : ~ accepts loc tok ttl key now).
    { intro Ha. assert (spec_verify_k make_sig loc tok ttl key now VOk = true); [|congruence].
      apply spec_verify_vs_model. split; [split; [intros _; apply verify_ok_iff, Ha|reflexivity]|].
      split; [discriminate|]. intro Hv. apply verify_ok_iff in Ha. congruence. }
    destruct (spec_verify_k make_sig loc tok ttl key now VExpired) eqn:E2.
    + destruct (proj1 Hex eq_refl) as [_ [He _]]. specialize (He eq_refl). rewrite N.eqb_eq. split.
      * intros ->. split; [intro; contradiction|]. split; [reflexivity|intros _ Hn; contradiction].
      * intros (_ & H & _). apply H, He.
    + assert (Hne : ~ wf_expired loc now).
      { intro He. assert (spec_verify_k make_sig loc tok ttl key now VExpired = true); [|congruence].
        apply spec_verify_vs_model. pose proof (proj2 (verify_expired_iff loc tok ttl key now) He) as Hv.
        split; [split; [discriminate|congruence]|split; [intros _; exact Hv|reflexivity]]. }
      rewrite N.eqb_eq. split.
      * intros ->. split; [intro; contradiction|]. split; [intro; contradiction|reflexivity].
      * intros (_ & _ & H). apply H; assumption.
Qed.

(* ---------- (3) the model satisfies the boolean specification ---------- *)
Theorem model_verify_meets_spec loc tok ttl key now :
  spec_verify_k make_sig loc tok ttl key now (verify loc tok ttl key now) = true.
Proof. apply spec_verify_vs_model. tauto. Qed.

Theorem model_sign_meets_spec loc tok exp ttl key :
  spec_sign_k make_sig loc tok exp ttl key (sign_locator loc tok exp ttl key) = true.
Proof.
  unfold spec_sign_k, sign_locator, sign_locator_k, blob_hash.
  destruct (String.eqb key "" || String.eqb tok ""); apply String.eqb_refl.
Qed.

Lemma sign_tok_is_spec_tok tokn exp ttl key t : sign_tok_k make_sig tokn exp ttl key t = spec_tok_k make_sig tokn exp ttl key t.
Proof.
  unfold sign_tok_k, spec_tok_k. fold (is_blk t). destruct (is_blk t) eqn:Hb; [|reflexivity].
  unfold sign_locator_k. destruct (String.eqb key "" || String.eqb tokn "") eqn:E.
  - apply strip_sigs_join.
  - unfold blob_hash. rewrite strip_sigs_fields, join_snoc by apply nonA_fields_nonnil.
    rewrite strip_sigs_join. reflexivity.
Qed.

Theorem model_manifest_meets_spec m tokn exp ttl key :
  spec_manifest_k make_sig m tokn exp ttl key (sign_manifest m tokn exp ttl key) = true.
Proof.
  apply spec_manifest_reflects. unfold ManifestSpec. rewrite sign_manifest_chunks. unfold render. f_equal.
  apply map_ext. intros [k s]. cbn [fst snd]. rewrite sign_tok_is_spec_tok. reflexivity.
Qed.

Theorem model_get_meets_spec signing path auth ttl key now stored code body_ok :
  get_status (get_gate signing path auth ttl key now) stored = Some code ->
  (match get_gate signing path auth ttl key now with GVolume _ => stored = true -> body_ok = true | _ => True end) ->
  spec_get_k make_sig signing path auth ttl key now stored code body_ok = true.
Proof.
  unfold spec_get_k, get_gate, get_gate_k. destruct (route_get path) as [h|].
  - destruct (contains "+R" (drop 1 path) && negb (contains "+A" (drop 1 path))); [reflexivity|].
    destruct signing; cbn [negb].
    + fold (verify (drop 1 path) (api_token auth) ttl key now).
      pose proof (spec_verify_vs_model (drop 1 path) (api_token auth) ttl key now VOk) as H1.
      pose proof (spec_verify_vs_model (drop 1 path) (api_token auth) ttl key now VExpired) as H2.
      destruct (verify (drop 1 path) (api_token auth) ttl key now) eqn:Hv; cbn [get_status]; intros Hc Hb.
      * replace (spec_verify_k make_sig (drop 1 path) (api_token auth) ttl key now VOk) with true
          by (symmetry; apply H1; split; [tauto|split; [discriminate|congruence]]).
        injection Hc as <-. destruct stored; [rewrite Hb by reflexivity|]; reflexivity.
      * replace (spec_verify_k make_sig (drop 1 path) (api_token auth) ttl key now VOk) with false
          by (symmetry; apply not_true_iff_false; intro X; apply H1 in X; destruct X as [[X _] _]; specialize (X eq_refl); discriminate).
        replace (spec_verify_k make_sig (drop 1 path) (api_token auth) ttl key now VExpired) with true
          by (symmetry; apply H2; split; [split; [discriminate|congruence]|tauto]).
        injection Hc as <-. reflexivity.
      * replace (spec_verify_k make_sig (drop 1 path) (api_token auth) ttl key now VOk) with false
          by (symmetry; apply not_true_iff_false; intro X; apply H1 in X; destruct X as [[X _] _]; specialize (X eq_refl); discriminate).
        replace (spec_verify_k make_sig (drop 1 path) (api_token auth) ttl key now VExpired) with false
          by (symmetry; apply not_true_iff_false; intro X; apply H2 in X; destruct X as [_ [X _]]; specialize (X eq_refl); discriminate).
        injection Hc as <-. reflexivity.
      * replace (spec_verify_k make_sig (drop 1 path) (api_token auth) ttl key now VOk) with false
          by (symmetry; apply not_true_iff_false; intro X; apply H1 in X; destruct X as [[X _] _]; specialize (X eq_refl); discriminate).
        replace (spec_verify_k make_sig (drop 1 path) (api_token auth) ttl key now VExpired) with false
          by (symmetry; apply not_true_iff_false; intro X; apply H2 in X; destruct X as [_ [X _]]; specialize (X eq_refl); discriminate).
        injection Hc as <-. reflexivity.
    + cbn [get_status]. intros Hc Hb. injection Hc as <-. destruct stored; [rewrite Hb by reflexivity|]; reflexivity.
  - cbn [get_status]. intros Hc _. injection Hc as <-. reflexivity.
Qed.

(* the "perturbation rejected" clause of the evaluator: on the model's verdict it can only fail
   through an explicit HMAC-SHA1 collision *)
Theorem model_pert_meets_spec key h tok e ttl p now :
  String.length h = 32 -> has_char "@" e = false ->
  p_obs p = verify (p_loc p) (p_tok p) (p_ttl p) (p_key p) now ->
  spec_pert_b (key, h, tok, e, ttl_hex ttl) (make_sig key h tok e (ttl_hex ttl)) p = false ->
  exists h' e', hmac_collision key (sig_msg h tok e (ttl_hex ttl)) (p_key p) (sig_msg h' (p_tok p) e' (ttl_hex (p_ttl p))).
Proof.
  intros Lh Ee Hobs. unfold spec_pert_b. destruct (parse_signed (p_loc p)) as [[[h' sg'] e']|] eqn:Hp; [|discriminate].
  apply parse_signed_shape in Hp.
  destruct (Bool.eqb _ _) eqn:Hx; [discriminate|]. intro Hneg. apply negb_false_iff in Hneg.
  assert (Hv : verify (p_loc p) (p_tok p) (p_ttl p) (p_key p) now = VOk) by (rewrite <- Hobs; destruct (p_obs p); try discriminate; reflexivity).
  exists h', e'.
  pose proof (perturbation_rejected key h tok e ttl (p_loc p) (p_tok p) (p_ttl p) (p_key p) now h' sg' e' Lh Ee Hp) as PR.
  cbv zeta in PR.
  destruct (tuple_eqb (p_key p, h', p_tok p, e', ttl_hex (p_ttl p)) (key, h, tok, e, ttl_hex ttl)) eqn:Et;
  destruct (String.eqb_spec sg' (make_sig key h tok e (ttl_hex ttl))) as [Es|Es]; try discriminate Hx.
  - apply tuple_eqb_eq in Et. injection Et as E1 E2 E3 E4 E5.
    destruct PR as [PR|PR]; [right; split; [exact Es|auto]|contradiction|exact PR].
  - destruct PR as [PR|PR]; [left; split; [exact Es|]|contradiction|exact PR].
    intros (E1 & E2 & E3 & E4 & E5). subst. cbn [tuple_eqb] in Et. rewrite E5, !String.eqb_refl in Et. cbn in Et. discriminate.
Qed.
