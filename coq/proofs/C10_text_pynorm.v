(* C10 — normalize_preserves for the Python SDK (arvados/_normalize_stream.py normalize_stream): the token list it
   returns, joined by spaces, is a valid stream of the published grammar which the reference parser reads back with the
   same name, the same file names and, file by file, the same canonical segments.  The development mirrors
   C10_text_norm.v (Go normalizedText); the differences: blocks are keyed by the whole locator, escape() also escapes
   the colon, segments may be empty. *)
From Coq Require Import NArith Lia List Bool Ascii String Arith.
From AV Require Import lib.Str model.C10_manifest model.C10_ranges model.C10_fs model.C10_gomanifest model.C10_python
  proofs.C10_bytes_proofs proofs.C10_ranges_proofs proofs.C10_pdh_proofs proofs.C10_escape_proofs proofs.C10_gm_proofs
  proofs.C10_text_lines proofs.C10_text_fs proofs.C10_text_gm proofs.C10_text_canon proofs.C10_text_norm.
Import ListNotations.
Local Open Scope string_scope.
Local Open Scope list_scope.
Notation length := List.length.

Module PN.
Definition pkey (x : string) : string := x.
(* the Python functions on plain segments (locator, offset, length); the block size travels in the locator *)
Definition pb_block (st : list string * list (string * N) * N) (sg : seg) : list string * list (string * N) * N :=
  let '(toks, blocks, off) := st in
  let '(loc, _, _) := sg in
  match assoc_get (pkey loc) blocks with
  | Some _ => st
  | None => ((toks ++ [loc])%list, (blocks ++ [(pkey loc, off)])%list, (off + loc_size loc)%N)
  end.
Definition pb_seg (blocks : list (string * N)) (fout : string) (st : list string * option (N * N)) (sg : seg)
  : list string * option (N * N) :=
  let '(toks, span) := st in
  let '(loc, o, n) := sg in
  let so := (match assoc_get (pkey loc) blocks with Some b => b | None => 0%N end + o)%N in
  match span with
  | None => (toks, Some (so, (so + n)%N))
  | Some (a, b) =>
      if (so =? b)%N then (toks, Some (a, (b + n)%N))
      else ((toks ++ [span_token a b fout])%list, Some (so, (so + n)%N))
  end.
Definition pb_file (blocks : list (string * N)) (toks : list string) (f : string * list seg) : list string :=
  let fout := py_escape (fst f) in
  let '(toks1, span) := fold_left (pb_seg blocks fout) (snd f) (toks, None) in
  let toks2 := match span with Some (a, b) => (toks1 ++ [span_token a b fout])%list | None => toks1 end in
  match snd f with [] => (toks2 ++ [("0:0:" ++ fout)%string])%list | _ => toks2 end.

Definition seg_ok0 (sg : seg) : Prop :=
  let '(loc, o, n) := sg in is_locator loc = true /\ (loc_size loc <= max_block)%N /\ (o + n <= loc_size loc)%N.

Lemma py_escape_tokc s : all_chars is_tokc (py_escape s) = true.
Proof.
  rewrite py_escape_eq. apply escape_with_tokc. intros a H. unfold must_escape in H. apply orb_false_elim in H. destruct H as [H _].
  apply orb_false_elim in H. destruct H as [H _]. apply N.leb_gt in H. apply N.leb_le. lia.
Qed.
Lemma parse_span_token fname sp : parse_ftok (sp_tok (py_escape fname) sp) = Some (mk_ftok fname sp).
Proof.
  unfold sp_tok, span_token, parse_ftok. cbn [append].
  rewrite (splitn3_three c_colon _ _ _ (dec_no_colon _) (dec_no_colon _)). rewrite !parse_dec_dec.
  unfold mk_ftok. f_equal. f_equal. apply py_escape_roundtrip.
Qed.
Lemma parse_zero_token fname : parse_ftok ("0:0:" ++ py_escape fname)%string = Some (mk_ftok fname (0, 0)%N).
Proof. exact (parse_span_token fname (0, 0)%N). Qed.

(* ---------- first pass of normalizedText: the referenced blocks, each once ---------- *)
Fixpoint blocks_of (locs : list string) (o : N) : list (string * N) :=
  match locs with [] => [] | b :: r => (pkey b, o) :: blocks_of r (o + loc_size b) end.
Definition add_loc (locs : list string) (loc : string) : list string :=
  match assoc_get (pkey loc) (blocks_of locs 0) with Some _ => locs | None => locs ++ [loc] end.
Definition collect (locs : list string) (segs : list seg) : list string :=
  fold_left (fun l (sg : seg) => add_loc l (fst (fst sg))) segs locs.

Lemma blocks_of_app a : forall b o, blocks_of (a ++ b) o = blocks_of a o ++ blocks_of b (o + total (sizes_of a)).
Proof.
  induction a as [|x a IH]; intros b o; cbn [app blocks_of sizes_of map].
  - rewrite total_nil, N.add_0_r. reflexivity.
  - fold (sizes_of a). rewrite IH, total_cons, N.add_assoc. reflexivity.
Qed.
Lemma sizes_of_app a b : sizes_of (a ++ b) = sizes_of a ++ sizes_of b.
Proof. unfold sizes_of. apply map_app. Qed.

Lemma pass1_step t0 locs sg :
  pb_block (t0 ++ locs, blocks_of locs 0, total (sizes_of locs)) sg =
  (t0 ++ add_loc locs (fst (fst sg)), blocks_of (add_loc locs (fst (fst sg))) 0, total (sizes_of (add_loc locs (fst (fst sg))))).
Proof.
  destruct sg as [[loc o] n]. cbn [fst]. unfold pb_block, add_loc.
  destruct (assoc_get (pkey loc) (blocks_of locs 0)) eqn:E; [reflexivity|].
  rewrite app_assoc, blocks_of_app, sizes_of_app, total_app.
  cbn [blocks_of sizes_of map]. rewrite total_cons, total_nil, N.add_0_l, N.add_0_r. reflexivity.
Qed.
Lemma pass1 t0 : forall segs locs,
  fold_left pb_block segs (t0 ++ locs, blocks_of locs 0, total (sizes_of locs)) =
  (t0 ++ collect locs segs, blocks_of (collect locs segs) 0, total (sizes_of (collect locs segs))).
Proof.
  induction segs as [|sg segs IH]; intros locs; [reflexivity|].
  cbn [fold_left collect]. rewrite pass1_step. apply IH.
Qed.

Lemma assoc_get_none {A} k : forall l : list (string * A), assoc_get k l = None <-> ~ In k (map fst l).
Proof.
  induction l as [|[k0 v] l IH]; cbn [assoc_get map In fst]; [tauto|].
  destruct (String.eqb k k0) eqn:E.
  - apply String.eqb_eq in E. subst k0. split; [discriminate|tauto].
  - apply String.eqb_neq in E. rewrite IH. split; [intros H [H1|H1]; [congruence|tauto]|tauto].
Qed.
Lemma blocks_of_keys : forall L o, map fst (blocks_of L o) = map pkey L.
Proof. induction L as [|b L IH]; intros o; cbn; [reflexivity|]. rewrite IH. reflexivity. Qed.
Lemma blocks_of_lookup k : forall L o off, assoc_get k (blocks_of L o) = Some off ->
  exists L1 b L2, L = L1 ++ b :: L2 /\ pkey b = k /\ off = (o + total (sizes_of L1))%N.
Proof.
  induction L as [|b L IH]; intros o off H; cbn [blocks_of assoc_get] in H; [discriminate|].
  destruct (String.eqb k (pkey b)) eqn:E.
  - apply String.eqb_eq in E. injection H as <-. exists [], b, L. cbn [app sizes_of map]. rewrite total_nil, N.add_0_r. auto.
  - destruct (IH _ _ H) as (L1 & b' & L2 & -> & Hk & ->). exists (b :: L1), b', L2. cbn [app sizes_of map].
    fold (sizes_of L1). rewrite total_cons. split; [reflexivity|]. split; [exact Hk|]. lia.
Qed.

Lemma add_loc_incl locs loc x : In x locs -> In x (add_loc locs loc).
Proof. unfold add_loc. destruct (assoc_get _ _); [auto|]. intros H. apply in_app_iff. auto. Qed.
Lemma add_loc_from locs loc x : In x (add_loc locs loc) -> In x locs \/ x = loc.
Proof.
  unfold add_loc. destruct (assoc_get _ _); [auto|]. intros H. apply in_app_iff in H. destruct H as [H|[H|[]]]; auto.
Qed.
Lemma add_loc_key locs loc : In (pkey loc) (map pkey (add_loc locs loc)).
Proof.
  unfold add_loc. destruct (assoc_get (pkey loc) (blocks_of locs 0)) eqn:E.
  - destruct (in_dec string_dec (pkey loc) (map pkey locs)) as [H|H]; [exact H|].
    rewrite <- (blocks_of_keys locs 0) in H. apply assoc_get_none in H. congruence.
  - rewrite map_app, in_app_iff. right. left. reflexivity.
Qed.
Lemma add_loc_nodup locs loc : NoDup (map pkey locs) -> NoDup (map pkey (add_loc locs loc)).
Proof.
  unfold add_loc. destruct (assoc_get (pkey loc) (blocks_of locs 0)) eqn:E; [auto|]. intros H.
  rewrite map_app. cbn [map]. apply NoDup_snoc; [exact H|]. rewrite <- (blocks_of_keys locs 0). apply assoc_get_none. exact E.
Qed.

Lemma collect_incl : forall segs locs x, In x locs -> In x (collect locs segs).
Proof. induction segs as [|sg segs IH]; intros locs x H; [exact H|]. cbn [collect fold_left]. apply IH. apply add_loc_incl. exact H. Qed.
Lemma collect_from : forall segs locs x, In x (collect locs segs) -> In x locs \/ exists o n, In (x, o, n) segs.
Proof.
  induction segs as [|[[loc o] n] segs IH]; intros locs x H; [left; exact H|]. cbn [collect fold_left fst] in H.
  apply IH in H. destruct H as [H|(o' & n' & H)].
  - apply add_loc_from in H. destruct H as [H| ->]; [auto|]. right. exists o, n. left. reflexivity.
  - right. exists o', n'. right. exact H.
Qed.
Lemma collect_keys_mono : forall segs locs k, In k (map pkey locs) -> In k (map pkey (collect locs segs)).
Proof.
  intros segs locs k H. apply in_map_iff in H. destruct H as (x & <- & Hx). apply in_map. apply collect_incl. exact Hx.
Qed.
Lemma collect_covers : forall segs locs loc o n, In (loc, o, n) segs -> In (pkey loc) (map pkey (collect locs segs)).
Proof.
  induction segs as [|sg segs IH]; intros locs loc o n H; [destruct H|]. cbn [collect fold_left].
  destruct H as [->|H]; [|eapply IH; exact H]. cbn [fst]. apply collect_keys_mono. apply add_loc_key.
Qed.
Lemma collect_nodup : forall segs locs, NoDup (map pkey locs) -> NoDup (map pkey (collect locs segs)).
Proof. induction segs as [|sg segs IH]; intros locs H; [exact H|]. cbn [collect fold_left]. apply IH. apply add_loc_nodup. exact H. Qed.

(* ---------- second pass: the spans of one file ---------- *)
Definition son (blocks : list (string * N)) (sg : seg) : N * N :=
  let '(loc, o, n) := sg in ((match assoc_get (pkey loc) blocks with Some b => b | None => 0 end + o)%N, n).
Lemma nt_seg_run blocks fout : forall segs toks cur,
  fold_left (pb_seg blocks fout) segs (toks, cur) =
  (toks ++ map (sp_tok fout) (fst (run cur (map (son blocks) segs))), snd (run cur (map (son blocks) segs))).
Proof.
  induction segs as [|[[loc o] n] segs IH]; intros toks cur.
  - cbn. rewrite app_nil_r. reflexivity.
  - cbn [fold_left map]. unfold pb_seg at 2. unfold son at 1 3. cbn [run].
    set (so := (match assoc_get (pkey loc) blocks with Some b => b | None => 0%N end + o)%N).
    destruct cur as [[a b]|].
    + destruct (so =? b)%N eqn:E.
      * apply IH.
      * rewrite IH. destruct (run (Some (so, (so + n)%N)) (map (son blocks) segs)) as [e c]. cbn [fst snd map].
        rewrite <- app_assoc. reflexivity.
    + apply IH.
Qed.

Definition file_spans (blocks : list (string * N)) (segs : list seg) : list (N * N) := all_spans None (map (son blocks) segs).
Definition file_toks (blocks : list (string * N)) (f : string * list seg) : list string :=
  map (sp_tok (py_escape (fst f))) (file_spans blocks (snd f)) ++
  match snd f with [] => [("0:0:" ++ py_escape (fst f))%string] | _ => [] end.
Definition file_fts (blocks : list (string * N)) (f : string * list seg) : list ftok :=
  map (mk_ftok (fst f)) (file_spans blocks (snd f)) ++
  match snd f with [] => [mk_ftok (fst f) (0, 0)%N] | _ => [] end.

Lemma nt_file_eq blocks toks f : pb_file blocks toks f = toks ++ file_toks blocks f.
Proof.
  unfold pb_file, file_toks, file_spans, all_spans. rewrite nt_seg_run.
  destruct (run None (map (son blocks) (snd f))) as [e c]. cbn [fst snd].
  destruct c as [[a b]|]; rewrite ?map_app, <- ?app_assoc; cbn [map app]; destruct (snd f); rewrite ?app_nil_r; reflexivity.
Qed.
Lemma nt_files_eq blocks : forall files toks, fold_left (pb_file blocks) files toks = toks ++ flat_map (file_toks blocks) files.
Proof.
  induction files as [|f files IH]; intros toks; cbn [fold_left flat_map]; [rewrite app_nil_r; reflexivity|].
  rewrite nt_file_eq, IH, <- app_assoc. reflexivity.
Qed.

Lemma file_toks_parse blocks f : Forall2 (fun t x => parse_ftok t = Some x) (file_toks blocks f) (file_fts blocks f).
Proof.
  unfold file_toks, file_fts. apply Forall2_app.
  - induction (file_spans blocks (snd f)) as [|sp l IH]; cbn [map]; constructor; [apply parse_span_token|exact IH].
  - destruct (snd f); constructor; [apply parse_zero_token|constructor].
Qed.
Lemma file_spans_ne blocks sg segs : file_spans blocks (sg :: segs) <> [].
Proof.
  unfold file_spans, all_spans. cbn [map]. destruct (son blocks sg) as [so n]. cbn [run].
  pose proof (run_some (map (son blocks) segs) (Some (so, (so + n)%N)) ltac:(discriminate)) as H.
  destruct (run (Some (so, (so + n)%N)) (map (son blocks) segs)) as [e c]. cbn [snd] in H.
  destruct c as [s|]; [|congruence]. intros E. apply app_eq_nil in E. destruct E as [_ E]. discriminate.
Qed.
Lemma file_toks_ne blocks f : file_toks blocks f <> [].
Proof.
  unfold file_toks. destruct (snd f) as [|sg segs].
  - intros H. apply app_eq_nil in H. destruct H as [_ H]. discriminate.
  - rewrite app_nil_r. pose proof (file_spans_ne blocks sg segs) as H. destruct (file_spans blocks (sg :: segs)); [congruence|discriminate].
Qed.

Definition nt_locs (files : list (string * list seg)) : list string := collect [] (flat_map snd files).
Definition nt_locs1 (files : list (string * list seg)) : list string :=
  match nt_locs files with [] => [empty_block] | l => l end.
Definition nt_blocks (files : list (string * list seg)) : list (string * N) := blocks_of (nt_locs files) 0.
Definition nt_line (name : string) (files : list (string * list seg)) : string :=
  join " " (py_escape name :: nt_locs1 files ++ flat_map (file_toks (nt_blocks files)) files).
Definition nt_stream (name : string) (files : list (string * list seg)) : stream :=
  {| s_name := name; s_blocks := nt_locs1 files; s_ftoks := flat_map (file_fts (nt_blocks files)) files |}.

Section Norm.
Variables (name : string) (files : list (string * list seg)).
Hypothesis Hname : valid_stream_name_u name = true.
Hypothesis Hne : files <> [].
Hypothesis Hnd : NoDup (map fst files).
Hypothesis Hfn : Forall fname_ok files.
Hypothesis Hsegs : Forall (fun f => Forall seg_ok0 (snd f)) files.
Hypothesis Hagree : sizes_agree (map seg_loc (flat_map snd files)).

Let L := nt_locs files.
Let L1 := nt_locs1 files.
Let blocks := nt_blocks files.
Let bound := total (sizes_of L1).

Lemma all_seg_ok sg : In sg (flat_map snd files) -> seg_ok0 sg.
Proof.
  intros H. apply in_flat_map in H. destruct H as (f & Hf & Hsg). rewrite Forall_forall in Hsegs.
  specialize (Hsegs f Hf). rewrite Forall_forall in Hsegs. apply Hsegs. exact Hsg.
Qed.
Lemma L_from b : In b L -> exists o n, In (b, o, n) (flat_map snd files).
Proof. intros H. apply collect_from in H. destruct H as [[]|H]. exact H. Qed.
Lemma L_locator b : In b L -> is_locator b = true /\ (loc_size b <= max_block)%N.
Proof. intros H. destruct (L_from b H) as (o & n & Hs). pose proof (all_seg_ok _ Hs) as Hok. cbn in Hok. tauto. Qed.
Lemma L1_locator : Forall (fun b => is_locator b = true /\ (loc_size b <= max_block)%N) L1.
Proof.
  unfold L1, nt_locs1. fold L. destruct L as [|x l] eqn:E.
  - constructor; [split; [reflexivity|vm_compute; discriminate]|constructor].
  - rewrite <- E. apply Forall_forall. intros b Hb. apply L_locator. exact Hb.
Qed.
Lemma L1_ne : L1 <> [].
Proof. unfold L1, nt_locs1. destruct (nt_locs files); discriminate. Qed.
Lemma L1_eq : L <> [] -> L1 = L.
Proof. unfold L1, nt_locs1. fold L. destruct L; [congruence|reflexivity]. Qed.

(* where a referenced block sits in the normalized stream *)
Lemma seg_place loc o n : In (loc, o, n) (flat_map snd files) ->
  exists La b Lb, L = La ++ b :: Lb /\ L1 = L /\ loc_hash b = loc_hash loc /\ loc_size b = loc_size loc /\
    son blocks (loc, o, n) = ((total (sizes_of La) + o)%N, n).
Proof.
  intros Hin. pose proof (collect_covers _ [] _ _ _ Hin) as Hk. fold (nt_locs files) in Hk. fold L in Hk.
  destruct (assoc_get (pkey loc) blocks) as [off|] eqn:E.
  - destruct (blocks_of_lookup _ _ _ _ E) as (La & b & Lb & HL & Hkey & ->). fold L in HL.
    assert (HbL : In b L) by (rewrite HL; apply in_app_iff; right; left; reflexivity).
    destruct (L_from b HbL) as (o' & n' & Hb).
    pose proof (all_seg_ok _ Hin) as Hok. pose proof (all_seg_ok _ Hb) as Hokb. cbn in Hok, Hokb.
    assert (Hh : loc_hash b = loc_hash loc) by (unfold pkey in Hkey; rewrite Hkey; reflexivity).
    exists La, b, Lb. split; [exact HL|]. split; [apply L1_eq; rewrite HL; destruct La; discriminate|]. split; [exact Hh|].
    split.
    + apply Hagree; [apply (in_map seg_loc _ _ Hb)|apply (in_map seg_loc _ _ Hin)|exact Hh].
    + unfold son. rewrite E, N.add_0_l. reflexivity.
  - exfalso. apply assoc_get_none in E. apply E. unfold blocks, nt_blocks. rewrite blocks_of_keys. exact Hk.
Qed.

Lemma son_bound sg : In sg (flat_map snd files) -> (fst (son blocks sg) + snd (son blocks sg) <= bound)%N.
Proof.
  destruct sg as [[loc o] n]. intros Hin. destruct (seg_place _ _ _ Hin) as (La & b & Lb & HL & HL1 & Hh & Hs & Hson).
  rewrite Hson. cbn [fst snd]. unfold bound. rewrite HL1, HL, sizes_of_app, total_app. cbn [sizes_of map]. rewrite total_cons.
  pose proof (all_seg_ok _ Hin) as Hok. cbn in Hok. lia.
Qed.
Lemma son_addr sg : In sg (flat_map snd files) -> map (addr_of L1) (pos_son (son blocks sg)) = exH (hs sg).
Proof.
  destruct sg as [[loc o] n]. intros Hin. destruct (seg_place _ _ _ Hin) as (La & b & Lb & HL & HL1 & Hh & Hs & Hson).
  rewrite Hson. unfold pos_son. cbn [fst snd hs exH]. rewrite HL1, HL.
  pose proof (all_seg_ok _ Hin) as Hok. cbn in Hok.
  rewrite (N.add_comm (total (sizes_of La)) o), nseq_shift, map_map. apply map_ext_in. intros q Hq.
  apply nseq_bound in Hq. rewrite (N.add_comm q), addr_of_app. cbn [addr_of].
  destruct (N.ltb_spec q (loc_size b)); [rewrite Hh; reflexivity|lia].
Qed.

(* the tokens *)
Lemma tokens_tokc : Forall (fun t => all_chars is_tokc t = true) (py_escape name :: L1 ++ flat_map (file_toks blocks) files).
Proof.
  constructor; [apply py_escape_tokc|]. apply Forall_app. split.
  - eapply Forall_impl; [|exact L1_locator]. cbn. intros b [Hb _]. apply locator_tokc. exact Hb.
  - apply Forall_forall. intros t Ht. apply in_flat_map in Ht. destruct Ht as (f & _ & Ht). unfold file_toks in Ht.
    apply in_app_iff in Ht. destruct Ht as [Ht|Ht].
    + apply in_map_iff in Ht. destruct Ht as (sp & <- & _). apply sp_tok_tokc. apply py_escape_tokc.
    + destruct (snd f); [|destruct Ht]. destruct Ht as [<-|[]]. apply (sp_tok_tokc _ (0, 0)%N). apply py_escape_tokc.
Qed.
Lemma toks_parse : Forall2 (fun t x => parse_ftok t = Some x) (flat_map (file_toks blocks) files) (flat_map (file_fts blocks) files).
Proof. apply Forall2_flat_map. intros f _. apply file_toks_parse. Qed.
Lemma toks_ne : flat_map (file_toks blocks) files <> [].
Proof.
  destruct files as [|f r]; [congruence|]. cbn [flat_map]. intros H. apply app_eq_nil in H. destruct H as [H _].
  exact (file_toks_ne _ _ H).
Qed.

Lemma nt_split : split_on c_sp (nt_line name files) = py_escape name :: L1 ++ flat_map (file_toks blocks) files.
Proof.
  unfold nt_line. fold L1 blocks. apply (split_on_join c_sp); [discriminate|].
  eapply Forall_impl; [|exact tokens_tokc]. cbn. intros t Ht. apply (tokc_no c_sp); [reflexivity|exact Ht].
Qed.

Theorem nt_parse : parse_stream (nt_line name files) = Some (nt_stream name files).
Proof.
  unfold parse_stream. rewrite nt_split.
  assert (Hsp : span_locators (L1 ++ flat_map (file_toks blocks) files) = (L1, flat_map (file_toks blocks) files)).
  { apply span_locators_app.
    - eapply Forall_impl; [|exact L1_locator]. cbn. tauto.
    - pose proof toks_parse as H. destruct H as [|t x ts xs Ht _]; [exact I|]. eapply ftok_not_locator. exact Ht. }
  rewrite Hsp. cbv beta iota.
  pose proof L1_ne as H1. pose proof toks_ne as H2. pose proof (Forall2_map_opt _ _ _ toks_parse) as Hmo.
  destruct L1 as [|b0 bl] eqn:E1; [congruence|]. destruct (flat_map (file_toks blocks) files) as [|t0 tl] eqn:E2; [congruence|].
  rewrite Hmo. unfold nt_stream. fold L1 blocks. rewrite E1. f_equal. f_equal.
  change unescape with fs_unescape. apply py_escape_roundtrip.
Qed.

(* validity of the line *)
Lemma vfn_okc fname sp : noslash fname -> okc fname -> valid_file_name_u (mk_ftok fname sp) = true.
Proof.
  intros Hn Ho. unfold valid_file_name_u, is_marker, mk_ftok. cbn [ft_name ft_len]. unfold comps. rewrite (split_on_nosep _ _ Hn).
  cbn [last_str]. destruct (okc_inv _ Ho) as (_ & E & _). rewrite E, andb_false_r. cbn [forallb]. rewrite Ho. reflexivity.
Qed.
Lemma file_spans_bounds f : In f files -> Forall (fun sp => (fst sp <= snd sp <= bound)%N) (file_spans blocks (snd f)).
Proof.
  intros Hf. unfold file_spans. apply all_spans_bounds; [discriminate|].
  apply Forall_forall. intros x Hx. apply in_map_iff in Hx. destruct Hx as (sg & <- & Hsg). apply son_bound.
  apply in_flat_map. exists f. auto.
Qed.
Lemma fts_valid f x : In f files -> In x (file_fts blocks f) ->
  valid_file_name_u x = true /\ (ft_pos x + ft_len x <= bound)%N /\ ft_name x = fst f.
Proof.
  intros Hf Hx. pose proof Hfn as Hfn'. rewrite Forall_forall in Hfn'. destruct (Hfn' f Hf) as [Hns Hok].
  unfold file_fts in Hx. apply in_app_iff in Hx. destruct Hx as [Hx|Hx].
  - apply in_map_iff in Hx. destruct Hx as (sp & <- & Hsp).
    pose proof (file_spans_bounds f Hf) as Hb. rewrite Forall_forall in Hb. specialize (Hb sp Hsp).
    split; [|split; [cbn; lia|reflexivity]].
    destruct Hok as [Hok|[Hdot Hnil]]; [apply vfn_okc; assumption|]. rewrite Hnil in Hsp. destruct Hsp.
  - destruct (snd f) eqn:Es; [|destruct Hx]. destruct Hx as [<-|[]]. split; [|split; [cbn; lia|reflexivity]].
    destruct Hok as [Hok|[Hdot _]]; [apply vfn_okc; assumption|]. rewrite Hdot. reflexivity.
Qed.

Theorem nt_valid : valid_stream (nt_line name files) = true.
Proof.
  unfold valid_stream. rewrite nt_parse. cbn [nt_stream s_name s_blocks s_ftoks]. fold L1 blocks.
  apply andb_true_intro. split; [|apply andb_true_intro; split; [apply andb_true_intro; split|]].
  - unfold nt_line. fold L1 blocks. apply (all_chars_join _ c_sp); [reflexivity|].
    eapply Forall_impl; [|exact tokens_tokc]. cbn. intros t Ht. eapply all_chars_impl; [|exact Ht]. intros a ->. reflexivity.
  - exact Hname.
  - apply forallb_Forall. eapply Forall_impl; [|exact L1_locator]. cbn. intros b [_ Hb]. apply N.leb_le. exact Hb.
  - apply forallb_forall. intros x Hx. apply in_flat_map in Hx. destruct Hx as (f & Hf & Hx).
    destruct (fts_valid f x Hf Hx) as (H1 & H2 & _). rewrite H1. apply N.leb_le. exact H2.
Qed.

(* the names *)
Lemma nt_names x : In x (map ft_name (s_ftoks (nt_stream name files))) <-> In x (map fst files).
Proof.
  cbn [nt_stream s_ftoks]. fold blocks. rewrite !in_map_iff. split.
  - intros (t & <- & Ht). apply in_flat_map in Ht. destruct Ht as (f & Hf & Ht). exists f. split; [|exact Hf].
    destruct (fts_valid f t Hf Ht) as (_ & _ & H). symmetry. exact H.
  - intros (f & <- & Hf). assert (Hex : exists t, In t (file_fts blocks f)).
    { unfold file_fts. destruct (snd f) as [|sg segs] eqn:Es.
      - exists (mk_ftok (fst f) (0, 0)%N). apply in_app_iff. right. left. reflexivity.
      - pose proof (file_spans_ne blocks sg segs) as H. destruct (file_spans blocks (sg :: segs)) as [|sp l]; [congruence|].
        exists (mk_ftok (fst f) sp). apply in_app_iff. left. left. reflexivity. }
    destruct Hex as (t & Ht). exists t. split; [apply (fts_valid f t Hf Ht)|]. apply in_flat_map. exists f. auto.
Qed.

(* the content of every file *)
Lemma only_file f : In f files ->
  stream_segs (nt_stream name files) (path_of name (fst f)) = flat_map (ftok_segs (nt_stream name files)) (file_fts blocks f).
Proof.
  intros Hf. unfold stream_segs. cbn [nt_stream s_name s_ftoks]. fold blocks.
  set (S := nt_stream name files). change {| s_name := name; s_blocks := nt_locs1 files; s_ftoks := flat_map (file_fts blocks) files |} with S.
  rewrite flat_map_flat_map.
  assert (Hgen : forall fl, incl fl files -> NoDup (map fst fl) ->
            flat_map (fun g => flat_map (fun x => if String.eqb (path_of name (ft_name x)) (path_of name (fst f)) then ftok_segs S x else []) (file_fts blocks g)) fl =
            if in_dec string_dec (fst f) (map fst fl) then flat_map (ftok_segs S) (file_fts blocks f) else []).
  { induction fl as [|g fl IH]; intros Hincl Hndl; [reflexivity|]. cbn [flat_map map].
    inversion Hndl as [|? ? Hg Hndl']; subst. rewrite IH by (try exact Hndl'; intros y Hy; apply Hincl; right; exact Hy).
    assert (Hg' : In g files) by (apply Hincl; left; reflexivity).
    destruct (string_dec (fst g) (fst f)) as [Egf|Egf].
    - (* g has the name of f: g = f as far as file_fts is concerned *)
      assert (g = f).
      { clear - Hnd Hg' Hf Egf. induction files as [|h fs IH]; [destruct Hf|]. cbn [map] in Hnd. inversion Hnd as [|? ? Hh Hnd']; subst.
        destruct Hg' as [->|Hg']; destruct Hf as [->|Hf]; auto.
        - exfalso. apply Hh. rewrite Egf. apply in_map. exact Hf.
        - exfalso. apply Hh. rewrite <- Egf. apply in_map. exact Hg'. }
      subst g.
      destruct (in_dec string_dec (fst f) (fst f :: map fst fl)) as [_|Hn]; [|exfalso; apply Hn; left; reflexivity].
      destruct (in_dec string_dec (fst f) (map fst fl)) as [Hin|_]; [contradiction|]. rewrite app_nil_r.
      apply flat_map_ext'. intros x Hx. destruct (fts_valid f x Hf Hx) as (_ & _ & Hnm). rewrite Hnm, String.eqb_refl. reflexivity.
    - assert (Hnil : flat_map (fun x => if String.eqb (path_of name (ft_name x)) (path_of name (fst f)) then ftok_segs S x else []) (file_fts blocks g) = []).
      { rewrite <- (flat_map_ext' (fun _ => []) _ (file_fts blocks g)).
        - induction (file_fts blocks g); [reflexivity|assumption].
        - intros x Hx. destruct (fts_valid g x Hg' Hx) as (_ & _ & Hnm). rewrite Hnm.
          destruct (String.eqb (path_of name (fst g)) (path_of name (fst f))) eqn:E; [|reflexivity].
          apply String.eqb_eq in E. apply path_of_inj in E. contradiction. }
      rewrite Hnil. cbn [app].
      destruct (in_dec string_dec (fst f) (fst g :: map fst fl)) as [[H|H]|Hn]; [contradiction| |].
      + destruct (in_dec string_dec (fst f) (map fst fl)); [reflexivity|contradiction].
      + destruct (in_dec string_dec (fst f) (map fst fl)) as [H|_]; [exfalso; apply Hn; right; exact H|reflexivity]. }
  rewrite (Hgen files (incl_refl _) Hnd).
  destruct (in_dec string_dec (fst f) (map fst files)) as [_|Hn]; [reflexivity|]. exfalso. apply Hn. apply in_map. exact Hf.
Qed.

Theorem nt_content f : In f files -> explode (stream_segs (nt_stream name files) (path_of name (fst f))) = explode (snd f).
Proof.
  intros Hf. rewrite (only_file f Hf).
  assert (Htok : forall x, In x (file_fts blocks f) ->
            explode (ftok_segs (nt_stream name files) x) = map (addr_of L1) (nseq (ft_pos x) (N.to_nat (ft_len x)))).
  { intros x Hx. destruct (fts_valid f x Hf Hx) as (_ & Hr & _). unfold ftok_segs. cbn [nt_stream s_blocks]. fold L1.
    apply ref_pointwise. exact Hr. }
  assert (Hflat : forall l, incl l (file_fts blocks f) ->
            explode (flat_map (ftok_segs (nt_stream name files)) l) =
            map (addr_of L1) (flat_map (fun x => nseq (ft_pos x) (N.to_nat (ft_len x))) l)).
  { induction l as [|x l IH]; intros Hl; [reflexivity|]. cbn [flat_map]. rewrite explode_app, map_app, IH, Htok; auto.
    - apply Hl. left. reflexivity.
    - intros y Hy. apply Hl. right. exact Hy. }
  rewrite (Hflat _ (incl_refl _)). unfold file_fts. rewrite flat_map_app.
  assert (Hz : flat_map (fun x => nseq (ft_pos x) (N.to_nat (ft_len x))) match snd f with [] => [mk_ftok (fst f) (0, 0)%N] | _ :: _ => [] end = []).
  { destruct (snd f); reflexivity. }
  rewrite Hz, app_nil_r, flat_map_map.
  change (fun x : N * N => nseq (ft_pos (mk_ftok (fst f) x)) (N.to_nat (ft_len (mk_ftok (fst f) x)))) with pos_of.
  unfold file_spans. rewrite all_spans_positions by discriminate. cbn [app]. rewrite flat_map_map.
  assert (Hin : incl (snd f) (flat_map snd files)) by (intros sg Hsg; apply in_flat_map; exists f; auto).
  revert Hin. generalize (snd f) as segs. induction segs as [|sg segs IH]; intros Hin; [reflexivity|].
  cbn [flat_map]. rewrite map_app, explode_cons.
  rewrite son_addr by (apply Hin; left; reflexivity). f_equal. apply IH. intros y Hy. apply Hin. right. exact Hy.
Qed.
End Norm.

(* the same results with the hypotheses packaged *)
Record nt_ok (name : string) (files : list (string * list seg)) : Prop := {
  no_name : valid_stream_name_u name = true;
  no_ne : files <> [];
  no_nd : NoDup (map fst files);
  no_fn : Forall fname_ok files;
  no_segs : Forall (fun f => Forall seg_ok0 (snd f)) files;
  no_agree : sizes_agree (map seg_loc (flat_map snd files))
}.
Lemma nt_parse' name files : nt_ok name files -> parse_stream (nt_line name files) = Some (nt_stream name files).
Proof. intros [H1 H2 H3 H4 H5 H6]. apply nt_parse; assumption. Qed.
Lemma nt_valid' name files : nt_ok name files -> valid_stream (nt_line name files) = true.
Proof. intros [H1 H2 H3 H4 H5 H6]. apply nt_valid; assumption. Qed.
Lemma nt_names' name files : nt_ok name files -> forall x, In x (map ft_name (s_ftoks (nt_stream name files))) <-> In x (map fst files).
Proof. intros [H1 H2 H3 H4 H5 H6]. apply nt_names; assumption. Qed.
Lemma nt_content' name files : nt_ok name files -> forall f, In f files ->
  explode (stream_segs (nt_stream name files) (path_of name (fst f))) = explode (snd f).
Proof. intros [H1 H2 H3 H4 H5 H6]. apply nt_content; assumption. Qed.
Lemma fts_valid' name files : nt_ok name files -> forall f x, In f files -> In x (file_fts (nt_blocks files) f) ->
  valid_file_name_u x = true /\ (ft_pos x + ft_len x <= total (sizes_of (nt_locs1 files)))%N /\ ft_name x = fst f.
Proof. intros [H1 H2 H3 H4 H5 H6]. apply (fts_valid name); assumption. Qed.


(* ---------- the link to the model of normalize_stream ---------- *)
Definition of_pseg (x : pseg) : seg := let '(loc, _, o, n) := x in (loc, o, n).
Definition pseg_ok (x : pseg) : Prop := let '(loc, bs, _, _) := x in bs = loc_size loc.
Definition conv (f : string * list pseg) : string * list seg := (fst f, map of_pseg (snd f)).

Lemma pn_block_fold : forall l st, Forall pseg_ok l -> fold_left pn_block l st = fold_left pb_block (map of_pseg l) st.
Proof.
  induction l as [|x l IH]; intros st H; [reflexivity|]. inversion H as [|? ? Hx Hl]; subst. cbn [fold_left map].
  rewrite <- (IH _ Hl). f_equal. destruct st as [[toks blocks] off]. destruct x as [[[loc bs] o] n]. cbn in Hx. subst bs. reflexivity.
Qed.
Lemma pn_seg_fold blocks fout : forall l st, fold_left (pn_seg blocks fout) l st = fold_left (pb_seg blocks fout) (map of_pseg l) st.
Proof.
  induction l as [|x l IH]; intros st; [reflexivity|]. cbn [fold_left map]. rewrite <- IH. f_equal.
  destruct st as [toks span]. destruct x as [[[loc bs] o] n]. reflexivity.
Qed.
Lemma pn_file_eq blocks toks f : pn_file blocks toks f = pb_file blocks toks (conv f).
Proof.
  unfold pn_file, pb_file, conv. cbn [fst snd]. rewrite pn_seg_fold.
  destruct (fold_left (pb_seg blocks (py_escape (fst f))) (map of_pseg (snd f)) (toks, None)) as [toks1 span].
  destruct (snd f); reflexivity.
Qed.
Lemma pn_files_fold blocks : forall files toks, fold_left (pn_file blocks) files toks = fold_left (pb_file blocks) (map conv files) toks.
Proof. induction files as [|f files IH]; intros toks; [reflexivity|]. cbn [fold_left map]. rewrite pn_file_eq. apply IH. Qed.
Lemma conv_segs files : flat_map snd (map conv files) = map of_pseg (flat_map snd files).
Proof. induction files as [|f files IH]; [reflexivity|]. cbn [map flat_map]. rewrite IH, map_app. reflexivity. Qed.

Definition py_files (sf : pfiles) : list (string * list seg) := map conv (py_sorted_files sf).
Lemma py_normalize_stream_eq name sf : Forall pseg_ok (flat_map snd (py_sorted_files sf)) ->
  join " " (py_normalize_stream name sf) = nt_line name (py_files sf).
Proof.
  intros Hok. unfold py_normalize_stream, nt_line, nt_locs1, nt_blocks, nt_locs, py_files. set (files := py_sorted_files sf) in *.
  rewrite (pn_block_fold _ _ Hok), <- conv_segs.
  pose proof (pass1 [py_escape name] (flat_map snd (map conv files)) []) as H. cbn [app blocks_of sizes_of map] in H.
  rewrite total_nil in H. rewrite H. rewrite pn_files_fold, nt_files_eq.
  destruct (collect [] (flat_map snd (map conv files))) as [|x l]; reflexivity.
Qed.

Theorem py_normalize_stream_preserves : forall name sf,
  Forall pseg_ok (flat_map snd (py_sorted_files sf)) -> nt_ok name (py_files sf) ->
  exists s', valid_stream (join " " (py_normalize_stream name sf)) = true /\
    parse_stream (join " " (py_normalize_stream name sf)) = Some s' /\ s_name s' = name /\
    (forall b, In b (map ft_name (s_ftoks s')) <-> In b (map fst (py_sorted_files sf))) /\
    (forall f, In f (py_sorted_files sf) ->
       canon_eqb (stream_segs s' (path_of name (fst f))) (map of_pseg (snd f)) = true).
Proof.
  intros name sf Hps Hok. rewrite (py_normalize_stream_eq name sf Hps). exists (nt_stream name (py_files sf)).
  split; [apply nt_valid'; exact Hok|]. split; [apply nt_parse'; exact Hok|]. split; [reflexivity|]. split.
  - intros b. rewrite (nt_names' name _ Hok b). unfold py_files. rewrite map_map. cbn [conv fst]. tauto.
  - intros f Hf. apply explode_canon_eqb. apply (nt_content' name _ Hok (conv f)). unfold py_files. apply in_map. exact Hf.
Qed.
End PN.
