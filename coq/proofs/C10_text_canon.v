(* C10 — theory of the store-independent comparison [canon] (C10_manifest.v) used by the text-level proofs:
     - canon is a congruence for concatenation on both sides;
     - canon only depends on the sequence of (hash, byte offset) addresses a segment list denotes ([explode]);
     - the reference segments of a range, exploded, are the addresses of the stream positions of the range ([addr_of]). *)
From Coq Require Import NArith Lia List Bool Ascii String Arith.
From AV Require Import lib.Str model.C10_manifest model.C10_ranges
  proofs.C10_bytes_proofs proofs.C10_ranges_proofs.
Import ListNotations.
Local Open Scope string_scope.
Local Open Scope list_scope.
Notation length := List.length.
Local Open Scope N_scope.

Definition hs (sg : seg) : cseg := let '(loc, o, n) := sg in (loc_hash loc, o, n).
Definition cstep (acc : list cseg) (c : cseg) : list cseg :=
  let '(h, o, n) := c in if n =? 0 then acc else canon_add acc h o n.
Definition canonH (l : list cseg) : list cseg := rev (fold_left cstep l []).

Lemma fold_left_map_ext {A B C} (f : A -> C -> A) (g : B -> C) (f' : A -> B -> A) :
  (forall a b, f' a b = f a (g b)) -> forall l a, fold_left f' l a = fold_left f (map g l) a.
Proof. intros H. induction l as [|x l IH]; intros a; cbn; [reflexivity|]. rewrite H. apply IH. Qed.

Lemma canon_hs l : canon l = canonH (map hs l).
Proof.
  unfold canon, canonH. f_equal. apply fold_left_map_ext. intros a [[loc o] n]. reflexivity.
Qed.

(* adding the two halves of a split segment = adding the segment *)
Lemma cstep_merge T h o n' n : n <> 0 -> cstep (cstep T (h, o, n')) (h, o + n', n) = cstep T (h, o, n' + n).
Proof.
  intros Hn. cbn [cstep].
  destruct (N.eqb_spec n 0) as [E|_]; [contradiction|].
  destruct (N.eqb_spec (n' + n) 0) as [E|_]; [lia|].
  destruct (N.eqb_spec n' 0) as [E'|E'].
  - subst n'. rewrite !N.add_0_r, N.add_0_l. reflexivity.
  - unfold canon_add at 2 3. destruct T as [|[[h2 o2] n2] t].
    + cbn [canon_add]. rewrite String.eqb_refl, N.eqb_refl. reflexivity.
    + destruct (String.eqb h h2 && (o2 + n2 =? o)) eqn:E.
      * apply andb_prop in E. destruct E as [E1 E2]. apply N.eqb_eq in E2. cbn [canon_add]. rewrite E1.
        replace (o2 + (n2 + n') =? o + n') with true by (symmetry; apply N.eqb_eq; lia). cbn [andb].
        f_equal. f_equal. lia.
      * cbn [canon_add]. rewrite String.eqb_refl, N.eqb_refl. reflexivity.
Qed.

Lemma cstep_eq acc h o n : cstep acc (h, o, n) = if n =? 0 then acc else canon_add acc h o n.
Proof. reflexivity. Qed.
Lemma cstep_nz acc h o n : n <> 0 -> cstep acc (h, o, n) = canon_add acc h o n.
Proof. intros H. rewrite cstep_eq. destruct (N.eqb_spec n 0); [contradiction|reflexivity]. Qed.

Lemma fold_canonH : forall b S, fold_left cstep b S = fold_left cstep (canonH b) S.
Proof.
  induction b as [|x b IH] using rev_ind; intros S; [reflexivity|].
  rewrite fold_left_app. cbn [fold_left]. rewrite IH.
  unfold canonH. rewrite fold_left_app. cbn [fold_left]. set (R := fold_left cstep b []).
  destruct x as [[h o] n]. destruct (N.eqb_spec n 0) as [E|E].
  - subst n. rewrite !cstep_eq. reflexivity.
  - rewrite (cstep_nz R) by exact E.
    destruct R as [|[[h' o'] n'] r].
    + reflexivity.
    + cbn [canon_add]. destruct (String.eqb h h' && (o' + n' =? o)) eqn:Em.
      * apply andb_prop in Em. destruct Em as [E1 E2]. apply String.eqb_eq in E1. apply N.eqb_eq in E2. subst h' o.
        cbn [rev]. rewrite !fold_left_app. cbn [fold_left]. apply cstep_merge. exact E.
      * cbn [rev]. rewrite !fold_left_app. reflexivity.
Qed.

Lemma canonH_app_l a a' b : canonH a = canonH a' -> canonH (a ++ b) = canonH (a' ++ b).
Proof.
  unfold canonH. intros H. apply (f_equal (@rev cseg)) in H. rewrite !rev_involutive in H.
  rewrite !fold_left_app, H. reflexivity.
Qed.
Lemma canonH_app_r a b b' : canonH b = canonH b' -> canonH (a ++ b) = canonH (a ++ b').
Proof.
  intros H. unfold canonH. rewrite !fold_left_app. rewrite (fold_canonH b), (fold_canonH b'), H. reflexivity.
Qed.

(* ---------- addresses ---------- *)
Definition nseq (a : N) (k : nat) : list N := map (fun i => a + N.of_nat i) (seq 0 k).
Lemma nseq_S a k : nseq a (S k) = nseq a k ++ [a + N.of_nat k].
Proof. unfold nseq. rewrite seq_S, map_app. reflexivity. Qed.
Lemma map_seq_from {A} (f : nat -> A) : forall k s, map f (seq s k) = map (fun i => f (s + i)%nat) (seq 0 k).
Proof.
  induction k as [|k IH]; intros s; [reflexivity|]. cbn [seq map]. rewrite Nat.add_0_r. f_equal.
  rewrite IH, <- seq_shift, map_map. apply map_ext. intros i. f_equal. lia.
Qed.
Lemma nseq_app a k1 k2 : nseq a (k1 + k2) = nseq a k1 ++ nseq (a + N.of_nat k1) k2.
Proof.
  unfold nseq. rewrite seq_app, map_app. f_equal. cbn [Nat.add]. rewrite map_seq_from. apply map_ext. intros i. lia.
Qed.
Lemma nseq_shift a d k : nseq (a + d) k = map (fun q => q + d) (nseq a k).
Proof. unfold nseq. rewrite map_map. apply map_ext. intros i. lia. Qed.
Lemma nseq_bound a k q : In q (nseq a k) -> a <= q < a + N.of_nat k.
Proof. unfold nseq. intros H. apply in_map_iff in H. destruct H as (i & <- & Hi). apply in_seq in Hi. lia. Qed.

Definition unit_at (h : string) (q : N) : cseg := (h, q, 1).
Definition exH (c : cseg) : list cseg := let '(h, o, n) := c in map (unit_at h) (nseq o (N.to_nat n)).
Definition explode (l : list seg) : list cseg := flat_map exH (map hs l).

Lemma canonH_run h o : forall k, canonH (map (unit_at h) (nseq o k)) = match k with O => [] | _ => [(h, o, N.of_nat k)] end.
Proof.
  induction k as [|k IH]; [reflexivity|].
  rewrite nseq_S, map_app. unfold canonH in *. rewrite fold_left_app.
  apply (f_equal (@rev cseg)) in IH. rewrite rev_involutive in IH. rewrite IH.
  cbn [map fold_left]. unfold unit_at at 1.
  destruct k as [|k].
  - cbn. rewrite N.add_0_r. reflexivity.
  - cbn [rev app cstep]. change (1 =? 0) with false. cbn iota. cbn [canon_add]. rewrite String.eqb_refl, N.eqb_refl. cbn [andb rev app].
    f_equal. f_equal. lia.
Qed.
Lemma canonH_single c : canonH [c] = canonH (exH c).
Proof.
  destruct c as [[h o] n]. cbn [exH]. rewrite canonH_run. unfold canonH. cbn [fold_left cstep].
  destruct (N.eqb_spec n 0) as [E|E].
  - subst n. reflexivity.
  - destruct (N.to_nat n) eqn:Ek; [lia|]. rewrite <- Ek, N2Nat.id. reflexivity.
Qed.
Lemma canonH_explode : forall l, canonH l = canonH (flat_map exH l).
Proof.
  induction l as [|c l IH]; [reflexivity|]. cbn [flat_map].
  change (c :: l) with ([c] ++ l). rewrite (canonH_app_r [c] _ _ IH). apply canonH_app_l. apply canonH_single.
Qed.

Theorem explode_canon a b : explode a = explode b -> canon a = canon b.
Proof. unfold explode. intros H. rewrite !canon_hs, canonH_explode, (canonH_explode (map hs b)), H. reflexivity. Qed.

Lemma list_eqb_refl {A} (eq : A -> A -> bool) : (forall x, eq x x = true) -> forall l, list_eqb eq l l = true.
Proof. intros H. induction l as [|x l IH]; cbn; [reflexivity|]. rewrite H, IH. reflexivity. Qed.
Lemma cseg_eqb_refl c : cseg_eqb c c = true.
Proof. destruct c as [[h o] n]. cbn. rewrite String.eqb_refl, !N.eqb_refl. reflexivity. Qed.
Corollary explode_canon_eqb a b : explode a = explode b -> canon_eqb a b = true.
Proof. intros H. unfold canon_eqb. rewrite (explode_canon _ _ H). apply list_eqb_refl. exact cseg_eqb_refl. Qed.

Lemma explode_app a b : explode (a ++ b) = explode a ++ explode b.
Proof. unfold explode. rewrite map_app, flat_map_app. reflexivity. Qed.
Lemma explode_cons sg l : explode (sg :: l) = exH (hs sg) ++ explode l.
Proof. reflexivity. Qed.

(* ---------- the reference segments, pointwise ---------- *)
Lemma ref_from_translate sizes : forall i o pos len d,
  ref_from i (o + d) sizes (pos + d) len = ref_from i o sizes pos len.
Proof.
  induction sizes as [|s r IH]; intros i o pos len d; [reflexivity|]. cbn [ref_from].
  replace (o + d + s) with (o + s + d) by lia. rewrite IH. f_equal.
  destruct (N.max pos o <? N.min (pos + len) (o + s)) eqn:E1;
  destruct (N.max (pos + d) (o + d) <? N.min (pos + d + len) (o + s + d)) eqn:E2; try lia; [|reflexivity].
  f_equal. f_equal; [f_equal|]; lia.
Qed.
Lemma ref_from_clip sizes : forall i o pos len pos' len', pos <= o -> pos' <= o -> pos + len = pos' + len' ->
  ref_from i o sizes pos len = ref_from i o sizes pos' len'.
Proof.
  induction sizes as [|s r IH]; intros i o pos len pos' len' H1 H2 H3; [reflexivity|]. cbn [ref_from].
  rewrite (IH (S i) (o + s) pos len pos' len') by lia. f_equal.
  destruct (N.max pos o <? N.min (pos + len) (o + s)) eqn:E1;
  destruct (N.max pos' o <? N.min (pos' + len') (o + s)) eqn:E2; try lia; [|reflexivity].
  f_equal. f_equal; [f_equal|]; lia.
Qed.

Fixpoint addr_of (blocks : list string) (p : N) : cseg :=
  match blocks with
  | [] => unit_at ""%string p
  | b :: r => if p <? loc_size b then unit_at (loc_hash b) p else addr_of r (p - loc_size b)
  end.

Lemma exH_block b r pos n : pos + n <= loc_size b ->
  exH (hs (b, pos, n)) = map (addr_of (b :: r)) (nseq pos (N.to_nat n)).
Proof.
  intros H. cbn [hs exH]. apply map_ext_in. intros q Hq. apply nseq_bound in Hq. cbn [addr_of].
  destruct (N.ltb_spec q (loc_size b)); [reflexivity|lia].
Qed.
Lemma addr_of_skip b r pos k : loc_size b <= pos ->
  map (addr_of (b :: r)) (nseq pos k) = map (addr_of r) (nseq (pos - loc_size b) k).
Proof.
  intros H. replace pos with (pos - loc_size b + loc_size b) at 1 by lia. rewrite nseq_shift, map_map.
  apply map_ext. intros q. cbn [addr_of]. destruct (N.ltb_spec (q + loc_size b) (loc_size b)); [lia|]. f_equal. lia.
Qed.

Lemma name_segs_cons B i o n l : name_segs B ((i, o, n) :: l) = (nth i B ""%string, o, n) :: name_segs B l.
Proof. reflexivity. Qed.
Lemma ref_pointwise_from : forall B pre pos len, pos + len <= total (sizes_of B) ->
  explode (name_segs (pre ++ B) (ref_from (length pre) 0 (sizes_of B) pos len)) = map (addr_of B) (nseq pos (N.to_nat len)).
Proof.
  induction B as [|b r IH]; intros pre pos len H.
  - cbn in H. assert (len = 0) by lia. subst len. reflexivity.
  - cbn [sizes_of map] in *. fold (sizes_of r) in *. rewrite total_cons in H. cbn [ref_from]. rewrite N.add_0_l.
    assert (Hpre : pre ++ b :: r = (pre ++ [b]) ++ r) by (rewrite <- app_assoc; reflexivity).
    assert (Hlen : S (length pre) = length (pre ++ [b])) by (rewrite app_length; cbn; lia).
    destruct (N.ltb_spec pos (loc_size b)) as [Hlt|Hge].
    + destruct (N.leb_spec (pos + len) (loc_size b)) as [Hin|Hout].
      * (* entirely inside this block *)
        rewrite (ref_from_nil_after (sizes_of r)) by lia. rewrite app_nil_r.
        destruct (N.max pos 0 <? N.min (pos + len) (loc_size b)) eqn:E.
        -- rewrite name_segs_cons, nth_middle, explode_cons. unfold explode. cbn [name_segs map flat_map]. rewrite app_nil_r.
           replace (N.max pos 0 - 0) with pos by lia. replace (N.min (pos + len) (loc_size b) - N.max pos 0) with len by lia.
           apply exH_block. lia.
        -- assert (len = 0) by lia. subst len. reflexivity.
      * (* spills into the following blocks *)
        replace (N.max pos 0 <? N.min (pos + len) (loc_size b)) with true by (symmetry; apply N.ltb_lt; lia).
        cbn [app]. rewrite name_segs_cons, nth_middle, explode_cons.
        replace (N.max pos 0 - 0) with pos by lia. replace (N.min (pos + len) (loc_size b) - N.max pos 0) with (loc_size b - pos) by lia.
        rewrite (ref_from_clip (sizes_of r) _ _ pos len (loc_size b) (pos + len - loc_size b)) by lia.
        assert (Ht : forall i L, ref_from i (loc_size b) (sizes_of r) (loc_size b) L = ref_from i 0 (sizes_of r) 0 L).
        { intros i L. rewrite <- (ref_from_translate (sizes_of r) i 0 0 L (loc_size b)). rewrite !N.add_0_l. reflexivity. }
        rewrite Ht, Hpre, Hlen. rewrite IH by lia.
        replace (N.to_nat len) with (N.to_nat (loc_size b - pos) + N.to_nat (pos + len - loc_size b))%nat by lia.
        rewrite nseq_app, map_app. f_equal.
        -- apply exH_block. lia.
        -- rewrite N2Nat.id. replace (pos + (loc_size b - pos)) with (loc_size b) by lia.
           rewrite addr_of_skip by lia. rewrite N.sub_diag. reflexivity.
    + (* starts after this block *)
      replace (N.max pos 0 <? N.min (pos + len) (loc_size b)) with false by (symmetry; apply N.ltb_ge; lia).
      cbn [app].
      assert (Ht : forall i, ref_from i (loc_size b) (sizes_of r) pos len = ref_from i 0 (sizes_of r) (pos - loc_size b) len).
      { intros i. rewrite <- (ref_from_translate (sizes_of r) i 0 (pos - loc_size b) len (loc_size b)). rewrite N.add_0_l.
        replace (pos - loc_size b + loc_size b) with pos by lia. reflexivity. }
      rewrite Ht, Hpre, Hlen, IH by lia. symmetry. apply addr_of_skip. exact Hge.
Qed.
Theorem ref_pointwise B pos len : pos + len <= total (sizes_of B) ->
  explode (name_segs B (ref (sizes_of B) pos len)) = map (addr_of B) (nseq pos (N.to_nat len)).
Proof. intros H. exact (ref_pointwise_from B [] pos len H). Qed.
