(* C06 (a) — progress on a quiet table, checked exhaustively in a small scope by computation:
   with no concurrent events EachCollection returns nil within 2*|table|/limit + 4 page requests and has
   visited every row.  (The general fuel lemma of DESIGN §5 is not proved; this is the bounded version.) *)
From Coq Require Import List Arith Bool.
From AV Require Import model.C06_model.
Import ListNotations.

(* all assignments of timestamps 1..3 to uuids 1..n *)
Fixpoint tables (n : nat) : list (list row) :=
  match n with
  | O => [[]]
  | S k => flat_map (fun t => map (fun m => {| uuid := S k; mtime := m |} :: t) [1; 2; 3]) (tables k)
  end.
Definition nofaults : faults := {| fail_req := None; fail_cb := None |}.
Definition quiet_ok (db : list row) (limit : nat) : bool :=
  let n := List.length db in
  let '(res, vis, _, _) := each_collection (2 * n / limit + 4) limit nofaults [] db 3 in
  match res with ROk => forallb (fun r => existsb (Nat.eqb (uuid r)) vis) db | _ => false end.
Definition small_scope : bool :=
  forallb (fun n => forallb (fun db => forallb (fun limit => quiet_ok db limit) [1; 2; 3; 4; 5; 6]) (tables n)) [0; 1; 2; 3; 4; 5].

Lemma paging_progress_small_scope : small_scope = true.
Proof. vm_compute. reflexivity. Qed.

(* one concrete history with concurrent edits, to show the hypotheses of the completeness theorem are
   satisfiable with a successful scan: 5 rows in two timestamp groups, page size 2; row 2 is modified,
   row 9 added and row 4 deleted while the scan runs *)
Definition ex_db : list row := [{| uuid := 1; mtime := 1 |}; {| uuid := 2; mtime := 1 |}; {| uuid := 3; mtime := 1 |};
                                {| uuid := 4; mtime := 2 |}; {| uuid := 5; mtime := 2 |}].
Definition ex_evs : list (list event) := [[]; []; [Modify 2]; [Add 9; Delete 4]; []; [Tick; Modify 1]].
Lemma paging_example :
  let '(res, vis, _, _) := each_collection 30 2 nofaults ex_evs ex_db 2 in
  res = ROk /\ vis = [1; 2; 3; 5; 2; 9; 1].
Proof. vm_compute. split; reflexivity. Qed.
