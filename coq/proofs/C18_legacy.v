(* C18: the legacy path (fed_collections.go rewriteSignatures) agrees with the new one on valid manifests
   whose locators are either plain (hash+size) or signed in the shape SignedLocatorRe accepts. *)
From Coq Require Import NArith List Ascii String Bool Lia Arith.
From AV Require Import lib.Str lib.Md5 lib.TokSplit lib.ManifestTok model.C18_model proofs.C18_scan.
Import ListNotations.
Local Open Scope string_scope.

(* ---------- characters ---------- *)
Lemma has_char_join c sep l : Ascii.eqb sep c = false -> forallb (fun t => negb (has_char c t)) l = true ->
  has_char c (join sep l) = false.
Proof.
  intros Hs. induction l as [|t l IH]; intros H; [reflexivity|]. cbn [forallb] in H. apply andb_true_iff in H. destruct H as [H1 H2].
  apply negb_true_iff in H1. destruct l as [|u l]; [exact H1|]. rewrite join_cons, has_char_app, H1. cbn [has_char]. rewrite Hs. exact (IH H2).
Qed.
Lemma lhex_xdigit c : is_lhex c = true -> is_xdigit c = true.
Proof. unfold is_xdigit. intros ->. reflexivity. Qed.
Lemma all_chars_impl (p q : ascii -> bool) s : (forall c, p c = true -> q c = true) -> all_chars p s = true -> all_chars q s = true.
Proof.
  intros H. induction s as [|c s IH]; intros A; [reflexivity|]. cbn [all_chars] in *. apply andb_true_iff in A. destruct A as [A1 A2].
  rewrite (H c A1), (IH A2). reflexivity.
Qed.
Lemma no_char_of_class (p : ascii -> bool) c s : p c = false -> all_chars p s = true -> has_char c s = false.
Proof.
  intros H. apply all_chars_has_char. intros d Hd. destruct (Ascii.eqb_spec d c) as [->|]; [congruence|reflexivity].
Qed.
Lemma wf_hint_chars h : wf_hint h = true -> all_chars is_hintchar h = true.
Proof.
  destruct h as [|c t]; [discriminate|]. cbn [wf_hint all_chars]. intros W. apply andb_true_iff in W. destruct W as [U A].
  rewrite (upper_hintchar c U), A. reflexivity.
Qed.
(* a rendered locator contains none of: space, newline, CR *)
Lemma loc_no_char c l : wf_loc l = true -> is_lhex c = false -> is_digit c = false -> is_hintchar c = false -> Ascii.eqb plus c = false ->
  has_char c (render_loc l) = false.
Proof.
  intros W H1 H2 H3 H4. unfold wf_loc in W. rewrite !andb_true_iff in W. destruct W as [[[[_ A] _] B] C].
  unfold render_loc. apply has_char_join; [exact H4|]. cbn [forallb].
  rewrite (no_char_of_class is_lhex c _ H1 A), (no_char_of_class is_digit c _ H2 B). cbn [negb andb].
  rewrite forallb_forall in *. intros h Hh. rewrite (no_char_of_class is_hintchar c h H3 (wf_hint_chars h (C h Hh))). reflexivity.
Qed.

Definition line_of (s : mstream) : string := join sp (stream_tokens s).
Lemma render_stream_line s : render_stream s = line_of s ++ String nl "".
Proof. reflexivity. Qed.

Lemma tokens_no_char c s : wf_stream s = true -> is_lhex c = false -> is_digit c = false -> is_hintchar c = false ->
  Ascii.eqb plus c = false -> has_char c (s_name s) = false -> forallb (fun f => negb (has_char c f)) (s_files s) = true ->
  forallb (fun t => negb (has_char c t)) (stream_tokens s) = true.
Proof.
  intros W H1 H2 H3 H4 N F. unfold wf_stream in W. rewrite !andb_true_iff in W. destruct W as [[[[_ _] L] _] _].
  unfold stream_tokens. cbn [forallb]. rewrite N. cbn [negb andb]. rewrite forallb_app, F, andb_true_r.
  rewrite forallb_forall in *. intros t Ht. apply in_map_iff in Ht. destruct Ht as (l & <- & Hl).
  rewrite (loc_no_char c l (L l Hl) H1 H2 H3 H4). reflexivity.
Qed.
Lemma plain_parts s : wf_stream s = true ->
  has_char sp (s_name s) = false /\ has_char nl (s_name s) = false /\
  forallb (fun f => negb (has_char sp f)) (s_files s) = true /\ forallb (fun f => negb (has_char nl f)) (s_files s) = true.
Proof.
  unfold wf_stream, plain. rewrite !andb_true_iff. intros [[[[[[_ A] B] _] _] _] F]. apply negb_true_iff in A. apply negb_true_iff in B.
  split; [exact A|]. split; [exact B|]. rewrite !forallb_forall in *. split; intros f Hf; specialize (F f Hf);
  unfold wf_file, plain in F; rewrite !andb_true_iff in F; tauto.
Qed.

(* ---------- lines ---------- *)
Lemma drop_cr_id s : has_char cr s = false -> drop_cr s = s.
Proof.
  induction s as [|c s IH]; intros H; [reflexivity|]. cbn [has_char] in H. apply orb_false_iff in H. destruct H as [H1 H2].
  cbn [drop_cr]. destruct s as [|d s]; [rewrite H1; reflexivity|]. rewrite (IH H2). reflexivity.
Qed.
Lemma split_lines ss : forallb wf_stream ss = true ->
  split_on nl (render ss) = (map line_of ss ++ [EmptyString])%list.
Proof.
  induction ss as [|s ss IH]; intros W; [reflexivity|]. cbn [forallb] in W. apply andb_true_iff in W. destruct W as [W1 W2].
  cbn [render map app]. rewrite render_stream_line, app_assoc_s. cbn [append].
  rewrite split_on_app; [rewrite (IH W2); reflexivity|].
  destruct (plain_parts s W1) as (_ & N & _ & F). apply has_char_join; [reflexivity|].
  apply tokens_no_char; try assumption; reflexivity.
Qed.
Lemma drop_last_empty_snoc (l : list string) : drop_last_empty (l ++ [EmptyString]) = l.
Proof.
  induction l as [|x l IH]; [reflexivity|]. destruct l as [|y l]; [reflexivity|].
  change (drop_last_empty ((x :: y :: l) ++ [EmptyString])) with (x :: drop_last_empty ((y :: l) ++ [EmptyString])).
  rewrite IH. reflexivity.
Qed.
Lemma scan_lines_valid ss : forallb wf_stream ss = true -> forallb legacy_stream ss = true ->
  scan_lines (render ss) = map line_of ss.
Proof.
  intros W L. unfold scan_lines. rewrite (split_lines ss W), drop_last_empty_snoc. rewrite <- (map_id (map line_of ss)) at 2.
  rewrite !map_map. apply map_ext_in. intros s Hs. apply drop_cr_id.
  rewrite forallb_forall in W, L. specialize (W s Hs). specialize (L s Hs).
  unfold legacy_stream in L. rewrite !andb_true_iff in L. destruct L as [[_ N] F]. apply negb_true_iff in N.
  apply has_char_join; [reflexivity|]. apply tokens_no_char; try assumption; reflexivity.
Qed.
Lemma split_line s : wf_stream s = true -> split_on sp (line_of s) = stream_tokens s.
Proof.
  intros W. unfold line_of. apply split_join; [discriminate|]. destruct (plain_parts s W) as (N & _ & F & _).
  pose proof (tokens_no_char sp s W eq_refl eq_refl eq_refl eq_refl N F) as T.
  rewrite forallb_forall in T. apply Forall_forall. intros t Ht. specialize (T t Ht). apply negb_true_iff in T. exact T.
Qed.

(* ---------- SignedLocatorRe on rendered tokens ---------- *)
Lemma split_sig_spec hs : forall b s a, split_sig hs = Some (b, s, a) ->
  hs = (b ++ s :: a)%list /\ forallb is_bz_hint b = true /\ is_sig_hint s = true /\ forallb is_bz_hint a = true.
Proof.
  induction hs as [|h hs IH]; intros b s a H; [discriminate|]. cbn [split_sig] in H.
  destruct (is_sig_hint h) eqn:S.
  - destruct (forallb is_bz_hint hs) eqn:B; [|discriminate]. injection H as <- <- <-. cbn. auto.
  - destruct (is_bz_hint h) eqn:Z; [|discriminate]. destruct (split_sig hs) as [[[b' s'] a']|] eqn:R; [|discriminate].
    injection H as <- <- <-. destruct (IH _ _ _ eq_refl) as (E & B & S' & A). subst hs. cbn [app forallb]. rewrite Z, B. auto.
Qed.
Lemma bz_not_A r h : is_bz_hint h = true -> rw_hint r h = h.
Proof.
  destruct h as [|c t]; [reflexivity|]. cbn [is_bz_hint rw_hint]. rewrite !andb_true_iff. intros [[_ N] _]. apply negb_true_iff in N. rewrite N. reflexivity.
Qed.
Lemma sig_is_A r h : is_sig_hint h = true -> rw_hint r h = "R" ++ r ++ "-" ++ drop 1 h.
Proof.
  destruct h as [|c t]; [discriminate|]. cbn [is_sig_hint rw_hint]. rewrite !andb_true_iff. intros [[[[A _] _] _] _]. rewrite A. reflexivity.
Qed.
Lemma concat_plus_app a b : concat_plus (a ++ b)%list = concat_plus a ++ concat_plus b.
Proof. induction a as [|h a IH]; [reflexivity|]. cbn [app concat_plus]. rewrite IH. cbn [append]. rewrite app_assoc_s. reflexivity. Qed.
Lemma map_rw_bz r l : forallb is_bz_hint l = true -> map (rw_hint r) l = l.
Proof.
  induction l as [|h l IH]; intros H; [reflexivity|]. cbn [forallb] in H. apply andb_true_iff in H. destruct H as [H1 H2].
  cbn [map]. rewrite (bz_not_A r h H1), (IH H2). reflexivity.
Qed.

Lemma split_loc l : wf_loc l = true -> split_on plus (render_loc l) = l_hash l :: l_size l :: l_hints l.
Proof.
  intros W. unfold render_loc. apply split_join; [discriminate|]. unfold wf_loc in W. rewrite !andb_true_iff in W. destruct W as [[[[_ A] _] B] C].
  constructor; [apply (no_char_of_class is_lhex); [reflexivity|exact A]|].
  constructor; [apply (no_char_of_class is_digit); [reflexivity|exact B]|].
  apply Forall_forall. intros h Hh. rewrite forallb_forall in C. apply (no_char_of_class is_hintchar); [reflexivity|apply wf_hint_chars; apply C; exact Hh].
Qed.

Lemma legacy_token_loc cluster l : wf_loc l = true -> legacy_hints (l_hints l) = true ->
  legacy_token cluster (render_loc l) = (render_loc (rw_loc cluster l), render_loc (strip_loc l)).
Proof.
  intros W L. unfold legacy_token, signed_parse. rewrite (split_loc l W).
  pose proof W as W'. unfold wf_loc in W'. rewrite !andb_true_iff in W'. destruct W' as [[[[Len A] N] D] Hs].
  rewrite Len. rewrite (all_chars_impl _ _ _ lhex_xdigit A). cbn [andb].
  unfold is_digits. rewrite N, D. cbn [andb].
  unfold legacy_hints in L. destruct (l_hints l) as [|h hs] eqn:E.
  - cbn [split_sig]. rewrite !render_loc_eq. cbn [rw_loc strip_loc l_hash l_size l_hints]. rewrite E. reflexivity.
  - destruct (split_sig (h :: hs)) as [[[b s] a]|] eqn:R; [|discriminate].
    destruct (split_sig_spec _ _ _ _ R) as (Eh & B & S & A').
    rewrite !render_loc_eq. cbn [rw_loc strip_loc l_hash l_size l_hints concat_plus]. rewrite E, Eh.
    rewrite map_app. cbn [map]. rewrite (map_rw_bz cluster b B), (map_rw_bz cluster a A'), (sig_is_A cluster s S).
    rewrite concat_plus_app. cbn [concat_plus]. f_equal.
    + rewrite ?app_assoc_s. cbn [append]. rewrite ?app_assoc_s. reflexivity.
    + rewrite app_nil_r_s. cbn [append]. reflexivity.
Qed.

Lemma split_on_hd_app sep a x : has_char sep a = false ->
  exists t ts, split_on sep x = t :: ts /\ split_on sep (a ++ x) = (a ++ t) :: ts.
Proof.
  induction a as [|c a IH]; intros H.
  - pose proof (split_on_nonnil sep x) as N. destruct (split_on sep x) as [|t ts] eqn:E; [contradiction|]. exists t, ts. split; [reflexivity|]. cbn [append]. exact E.
  - cbn [has_char] in H. apply orb_false_iff in H. destruct H as [H1 H2]. destruct (IH H2) as (t & ts & E1 & E2).
    exists t, ts. split; [exact E1|]. cbn [append split_on]. rewrite H1, E2. reflexivity.
Qed.
Lemma legacy_token_file cluster f : wf_file f = true -> legacy_token cluster f = (f, f).
Proof.
  intros W. destruct (file_shape f W) as [_ (p & y & P & ->)]. unfold legacy_token, signed_parse.
  assert (Hp : has_char plus p = false) by (apply (no_char_of_class is_digit); [reflexivity|exact P]).
  destruct (split_on_hd_app plus p (String colon y) Hp) as (t & ts & E1 & E2). rewrite E2.
  assert (X : all_chars is_xdigit (p ++ t) = false).
  { rewrite all_chars_app. cbn [split_on] in E1. change (Ascii.eqb colon plus) with false in E1.
    destruct (split_on plus y) as [|u us]; injection E1 as <- _; cbn [all_chars]; change (is_xdigit colon) with false; cbn; apply andb_false_r. }
  rewrite X, andb_false_r. reflexivity.
Qed.

Lemma legacy_tokens_app cluster a b :
  legacy_tokens cluster (a ++ b) =
  (fst (legacy_tokens cluster a) ++ fst (legacy_tokens cluster b), snd (legacy_tokens cluster a) ++ snd (legacy_tokens cluster b)).
Proof.
  induction a as [|t a IH]; [cbn; destruct (legacy_tokens cluster b); reflexivity|].
  cbn [app legacy_tokens]. rewrite IH. destruct (legacy_token cluster t) as [o h].
  destruct (legacy_tokens cluster a) as [o1 h1]. destruct (legacy_tokens cluster b) as [o2 h2]. cbn [fst snd].
  rewrite ?app_assoc_s. reflexivity.
Qed.
Lemma legacy_tokens_locs cluster ls : forallb wf_loc ls = true -> forallb (fun l => legacy_hints (l_hints l)) ls = true ->
  legacy_tokens cluster (map render_loc ls) =
  (cat_sp (map render_loc (map (rw_loc cluster) ls)), cat_sp (map render_loc (map strip_loc ls))).
Proof.
  induction ls as [|l ls IH]; intros W L; [reflexivity|]. cbn [forallb] in W, L.
  apply andb_true_iff in W. destruct W as [W1 W2]. apply andb_true_iff in L. destruct L as [L1 L2].
  cbn [map legacy_tokens]. rewrite (legacy_token_loc cluster l W1 L1), (IH W2 L2). reflexivity.
Qed.
Lemma legacy_tokens_files cluster fs : forallb wf_file fs = true -> legacy_tokens cluster fs = (cat_sp fs, cat_sp fs).
Proof.
  induction fs as [|f fs IH]; intros W; [reflexivity|]. cbn [forallb] in W. apply andb_true_iff in W. destruct W as [W1 W2].
  cbn [legacy_tokens]. rewrite (legacy_token_file cluster f W1), (IH W2). reflexivity.
Qed.

Theorem legacy_lines_valid cluster ss : forallb wf_stream ss = true -> forallb legacy_stream ss = true ->
  legacy_lines cluster (map line_of ss) = Some (render (map (rw_stream cluster) ss), render (map strip_stream ss)).
Proof.
  induction ss as [|s ss IH]; intros W L; [reflexivity|]. cbn [forallb] in W, L.
  apply andb_true_iff in W. destruct W as [W1 W2]. apply andb_true_iff in L. destruct L as [L1 L2].
  cbn [map legacy_lines]. rewrite (split_line s W1). unfold stream_tokens.
  pose proof W1 as W1'. unfold wf_stream in W1'. rewrite !andb_true_iff in W1'. destruct W1' as [[[[_ NL] WL] NF] WF].
  unfold legacy_stream in L1. rewrite !andb_true_iff in L1. destruct L1 as [[LL _] _].
  destruct (s_locs s) as [|l ls] eqn:El; [discriminate|]. destruct (s_files s) as [|f fs] eqn:Ef; [discriminate|].
  assert (Sh : exists u v w, (map render_loc (l :: ls) ++ f :: fs)%list = u :: v :: w).
  { cbn [map app]. destruct ls; cbn [map app]; eauto. }
  destruct Sh as (u & v & w & Sh). rewrite Sh. rewrite <- Sh.
  rewrite legacy_tokens_app, (legacy_tokens_locs cluster _ WL LL), (legacy_tokens_files cluster _ WF). cbn [fst snd].
  rewrite (IH W2 L2). cbn [render map]. rewrite !render_stream_eq. cbn [rw_stream strip_stream s_name s_locs s_files].
  rewrite El, Ef. rewrite ?app_assoc_s. reflexivity.
Qed.

(* legacy_rewrite_agrees *)
Theorem legacy_rewrite_agrees cluster expect ss :
  forallb wf_stream ss = true -> forallb legacy_stream ss = true ->
  expect = "" \/ expect = pdh (render ss) ->
  legacy_rewrite cluster expect (pdh (render ss)) (render ss) = LOk (rewrite_manifest (render ss) cluster).
Proof.
  intros W L E. unfold legacy_rewrite. rewrite (scan_lines_valid ss W L), (legacy_lines_valid cluster ss W L).
  assert (X : (if expect =? "" then pdh (render ss) else expect) = pdh (render ss)).
  { destruct E as [->| ->]; [reflexivity|]. destruct (pdh (render ss) =? ""); reflexivity. }
  rewrite X. rewrite String.eqb_refl. cbn [negb].
  unfold pdh at 1. rewrite (pdh_text_valid ss W). rewrite String.eqb_refl. rewrite (rw_valid cluster ss W). reflexivity.
Qed.

Example hypotheses_satisfiable :
  let m := ". 930625b054ce894ac40596c3f5a0d947+33+A1f27a35dd9af37191d63ad8eb8985624451e7b79@5835c8bc 0:0:a 0:0:b 0:33:output.txt" ++ String nl "" in
  valid_manifest m = true /\
  (exists ss, parse m = Some ss /\ forallb legacy_stream ss = true) /\
  accept (pdh m) m = true /\ accept (pdh m ++ "+Afoo") m = true /\
  rewrite_manifest m "zzzzz" =
    ". 930625b054ce894ac40596c3f5a0d947+33+Rzzzzz-1f27a35dd9af37191d63ad8eb8985624451e7b79@5835c8bc 0:0:a 0:0:b 0:33:output.txt" ++ String nl "".
Proof.
  cbv zeta. split; [vm_compute; reflexivity|]. split.
  - eexists. split; [vm_compute; reflexivity|vm_compute; reflexivity].
  - split; [vm_compute; reflexivity|]. split; vm_compute; reflexivity.
Qed.
