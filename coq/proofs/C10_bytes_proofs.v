(* C10 — from segments to bytes.
   ref_bytes:   the reference segments of a file token select exactly the substring [pos, pos+len) of the
                concatenation of the stream's blocks (the sentence of the published format), for every block store
                whose blocks have the sizes their locators state.
   canon_bytes: segment lists with equal canonical forms denote equal bytes for EVERY store — this is what the boolean
                specification compares, so a spec_b verdict is a statement about all block stores. *)
From Coq Require Import NArith Lia List Bool Ascii String ZifyBool ZifyN Arith.
From AV Require Import lib.Str model.C10_manifest model.C10_ranges proofs.C10_ranges_proofs.
Import ListNotations.
Local Open Scope string_scope.

(* ---------- take / drop ---------- *)
Lemma take_0 s : take 0 s = "". Proof. destruct s; reflexivity. Qed.
Lemma drop_0 s : drop 0 s = s. Proof. destruct s; reflexivity. Qed.
Lemma take_nil n : take n "" = "". Proof. destruct n; reflexivity. Qed.
Lemma drop_nil n : drop n "" = "". Proof. destruct n; reflexivity. Qed.
Lemma take_app n : forall a b, take n (a ++ b) = take n a ++ take (n - String.length a) b.
Proof.
  induction n as [|n IH]; intros a b.
  - cbn [Nat.sub]. rewrite !take_0. reflexivity.
  - destruct a as [|c a]; cbn [append take String.length].
    + rewrite Nat.sub_0_r. reflexivity.
    + rewrite IH. reflexivity.
Qed.
Lemma drop_app n : forall a b, drop n (a ++ b) = drop n a ++ drop (n - String.length a) b.
Proof.
  induction n as [|n IH]; intros a b.
  - cbn [Nat.sub]. rewrite !drop_0. reflexivity.
  - destruct a as [|c a]; cbn [append drop String.length].
    + rewrite Nat.sub_0_r. reflexivity.
    + rewrite IH. reflexivity.
Qed.
Lemma take_all n : forall s, (String.length s <= n)%nat -> take n s = s.
Proof.
  induction n as [|n IH]; intros s H.
  - destruct s; [reflexivity|cbn in H; lia].
  - destruct s as [|c s]; [reflexivity|]. cbn in *. rewrite IH by lia. reflexivity.
Qed.
Lemma drop_all n : forall s, (String.length s <= n)%nat -> drop n s = "".
Proof.
  induction n as [|n IH]; intros s H.
  - destruct s; [reflexivity|cbn in H; lia].
  - destruct s as [|c s]; [reflexivity|]. cbn in *. apply IH. lia.
Qed.
Lemma take_length n : forall s, String.length (take n s) = Nat.min n (String.length s).
Proof.
  induction n as [|n IH]; intros s; [rewrite take_0; reflexivity|].
  destruct s as [|c s]; [reflexivity|]. cbn. rewrite IH. reflexivity.
Qed.
Lemma drop_drop a : forall b s, drop a (drop b s) = drop (b + a) s.
Proof.
  intros b. induction b as [|b IH]; intros s.
  - rewrite drop_0. reflexivity.
  - destruct s as [|c s]; [rewrite !drop_nil; reflexivity|]. cbn. apply IH.
Qed.
Lemma take_take_drop a : forall b s, take (a + b) s = take a s ++ take b (drop a s).
Proof.
  induction a as [|a IH]; intros b s.
  - rewrite take_0, drop_0. reflexivity.
  - destruct s as [|c s]; [rewrite drop_nil, !take_nil; reflexivity|]. cbn. rewrite IH. reflexivity.
Qed.
Lemma append_nil_r s : s ++ "" = s.
Proof. induction s as [|c s IH]; [reflexivity|]. cbn. rewrite IH. reflexivity. Qed.
Lemma append_assoc a b c : (a ++ b) ++ c = a ++ (b ++ c).
Proof. induction a as [|x a IH]; [reflexivity|]. cbn. rewrite IH. reflexivity. Qed.

(* window lo hi s = the bytes lo .. hi-1 of s *)
Definition window (lo hi : nat) (s : string) : string := take (hi - lo) (drop lo s).
Lemma window_empty lo hi s : (hi <= lo)%nat -> window lo hi s = "".
Proof. intros H. unfold window. replace (hi - lo)%nat with 0%nat by lia. apply take_0. Qed.
Lemma window_app lo hi a b : (lo <= hi)%nat ->
  window lo hi (a ++ b) = window lo (Nat.min hi (String.length a)) a ++ window (lo - String.length a) (hi - String.length a) b.
Proof.
  intros H. unfold window. rewrite drop_app, take_app.
  destruct (Nat.le_gt_cases (String.length a) lo) as [Hl|Hl].
  - (* the window starts after a *)
    rewrite (drop_all lo a Hl). cbn [append String.length]. rewrite !take_nil. cbn [append].
    rewrite Nat.sub_0_r. f_equal. lia.
  - assert (Hd : String.length (drop lo a) = (String.length a - lo)%nat).
    { clear -Hl. revert a Hl. induction lo as [|lo IH]; intros a Hl; [rewrite drop_0; lia|].
      destruct a as [|c a]; [cbn in Hl; lia|]. cbn in *. apply IH. lia. }
    rewrite Hd. replace (lo - String.length a)%nat with 0%nat by lia. rewrite drop_0.
    f_equal.
    + destruct (Nat.le_gt_cases hi (String.length a)) as [Hh|Hh].
      * rewrite Nat.min_l by lia. reflexivity.
      * rewrite Nat.min_r by lia. rewrite !take_all; [reflexivity| |]; rewrite Hd; lia.
    + f_equal. lia.
Qed.

(* ---------- ref selects the window ---------- *)
Definition datas_sizes (datas : list string) : list N := map slen datas.
Definition piece_bytes (datas : list string) (sg : seg3) : string :=
  let '(i, o, n) := sg in substr o n (nth i datas "").
Lemma slen_nat s : N.to_nat (slen s) = String.length s.
Proof. unfold slen. apply Nat2N.id. Qed.

Lemma ref_from_window rest : forall pre o pos len,
  o = total (datas_sizes pre) ->
  sconcat (map (piece_bytes (pre ++ rest)%list) (ref_from (List.length pre) o (datas_sizes rest) pos len)) =
  window (N.to_nat (pos - o)) (N.to_nat (pos + len - o)) (sconcat rest).
Proof.
  induction rest as [|d r IH]; intros pre o pos len Ho.
  - cbn. unfold window. rewrite drop_nil, take_nil. reflexivity.
  - cbn [datas_sizes map ref_from sconcat].
    rewrite map_app, (window_app _ _ d (sconcat r)) by lia.
    assert (Hpre : (pre ++ d :: r = (pre ++ [d]) ++ r)%list) by (rewrite <- app_assoc; reflexivity).
    assert (Hrest : sconcat (map (piece_bytes (pre ++ d :: r)%list)
                     (ref_from (S (List.length pre)) (o + slen d) (map slen r) pos len)) =
                   window (N.to_nat (pos - o) - String.length d) (N.to_nat (pos + len - o) - String.length d) (sconcat r)).
    { rewrite Hpre. replace (S (List.length pre)) with (List.length (pre ++ [d])%list) by (rewrite app_length; cbn; lia).
      fold (datas_sizes r). rewrite IH.
      - f_equal; rewrite <- slen_nat; lia.
      - unfold datas_sizes in *. rewrite map_app, total_app, <- Ho. cbn. unfold total. cbn. lia. }
    (* sconcat distributes *)
    assert (Hcat : forall (a b : list string), sconcat (a ++ b)%list = sconcat a ++ sconcat b).
    { induction a as [|x a IHa]; intros b; [reflexivity|]. cbn. rewrite IHa, append_assoc. reflexivity. }
    rewrite Hcat. f_equal; [|exact Hrest].
    destruct (N.max pos o <? N.min (pos + len) (o + slen d))%N eqn:E.
    + cbn [map sconcat piece_bytes]. rewrite append_nil_r.
      rewrite nth_middle. unfold substr, window. f_equal.
      * rewrite <- slen_nat. lia.
      * f_equal. lia.
    + cbn [map sconcat]. symmetry. apply window_empty. rewrite <- slen_nat. lia.
Qed.

(* indices produced by ref are in range *)
Lemma ref_from_index sizes : forall i o pos len sg, In sg (ref_from i o sizes pos len) ->
  (i <= fst (fst sg) < i + List.length sizes)%nat.
Proof.
  induction sizes as [|s r IH]; intros i o pos len sg H; cbn in H; [contradiction|].
  apply in_app_or in H. destruct H as [H|H].
  - destruct (N.max pos o <? N.min (pos + len) (o + s))%N; [|contradiction].
    destruct H as [<-|[]]. cbn. lia.
  - specialize (IH _ _ _ _ _ H). cbn [List.length]. lia.
Qed.

Lemma name_segs_bytes st blocks : forall l,
  (forall sg, In sg l -> (fst (fst sg) < List.length blocks)%nat) ->
  segs_bytes st (name_segs blocks l) =
  sconcat (map (piece_bytes (map (fun b => st (loc_hash b)) blocks)) l).
Proof.
  induction l as [|[[i o] n] l IH]; intros Hr; [reflexivity|].
  change (name_segs blocks ((i, o, n) :: l)) with ((nth i blocks "", o, n) :: name_segs blocks l).
  unfold segs_bytes in *. cbn [map sconcat]. rewrite IH by (intros sg Hs; apply Hr; right; exact Hs). f_equal.
  cbn [seg_bytes piece_bytes]. f_equal.
  specialize (Hr (i, o, n) (or_introl eq_refl)). cbn in Hr.
  rewrite (nth_indep (map _ blocks) "" (st (loc_hash ""))) by (rewrite map_length; exact Hr).
  rewrite (map_nth (fun b => st (loc_hash b))). reflexivity.
Qed.

(* ref_bytes: the published sentence.  [stream_data] = "logically concatenating the blocks in the order that they
   appear"; [ftok_bytes] = "the size is the count of bytes following the position". *)
Theorem ref_bytes : forall (st : store) (s : stream) (f : ftok),
  consistent_blocks st (s_blocks s) ->
  segs_bytes st (ftok_segs s f) = ftok_bytes st s f.
Proof.
  intros st s f Hc. unfold ftok_segs, ftok_bytes, stream_data.
  set (blocks := s_blocks s) in *. set (datas := map (fun b => st (loc_hash b)) blocks).
  assert (Hs : sizes_of blocks = datas_sizes datas).
  { unfold sizes_of, datas_sizes, datas. rewrite map_map. apply map_ext_in. intros b Hb. symmetry. apply Hc. exact Hb. }
  rewrite name_segs_bytes.
  - rewrite Hs. unfold ref. fold datas.
    pose proof (ref_from_window datas [] 0%N (ft_pos f) (ft_len f) eq_refl) as H. cbn [app List.length] in H.
    rewrite H. unfold window, substr. rewrite !N.sub_0_r. f_equal. lia.
  - intros sg Hin. unfold ref in Hin. apply ref_from_index in Hin. unfold sizes_of in Hin. rewrite map_length in Hin. lia.
Qed.

(* ---------- canon ---------- *)
Definition cseg_bytes (st : store) (c : cseg) : string := let '(h, o, n) := c in substr o n (st h).
Definition csegs_bytes (st : store) (l : list cseg) : string := sconcat (map (cseg_bytes st) l).
Lemma sconcat_app (a b : list string) : sconcat (a ++ b)%list = sconcat a ++ sconcat b.
Proof. induction a as [|x a IH]; [reflexivity|]. cbn. rewrite IH, append_assoc. reflexivity. Qed.

Lemma substr_merge o n n' s : substr o n s ++ substr (o + n) n' s = substr o (n + n') s.
Proof.
  unfold substr. rewrite N2Nat.inj_add, (N2Nat.inj_add n n'), take_take_drop, drop_drop. reflexivity.
Qed.

Lemma canon_add_bytes st acc h o n :
  csegs_bytes st (rev (canon_add acc h o n)) = csegs_bytes st (rev acc) ++ substr o n (st h).
Proof.
  unfold canon_add. destruct acc as [|[[h' o'] n'] r].
  - cbn. rewrite append_nil_r. reflexivity.
  - destruct (String.eqb h h' && (o' + n' =? o)%N) eqn:E.
    + apply andb_prop in E. destruct E as [E1 E2]. apply String.eqb_eq in E1. apply N.eqb_eq in E2. subst h' o.
      cbn [rev]. unfold csegs_bytes. rewrite !map_app, !sconcat_app. cbn [map sconcat cseg_bytes].
      rewrite !append_nil_r, append_assoc, substr_merge. reflexivity.
    + cbn [rev]. unfold csegs_bytes. rewrite !map_app, !sconcat_app. cbn [map sconcat cseg_bytes].
      rewrite !append_nil_r. reflexivity.
Qed.

Lemma canon_fold_bytes st l : forall acc,
  csegs_bytes st (rev (fold_left (fun acc '(loc, o, n) => if (n =? 0)%N then acc else canon_add acc (loc_hash loc) o n) l acc)) =
  csegs_bytes st (rev acc) ++ segs_bytes st l.
Proof.
  induction l as [|[[loc o] n] l IH]; intros acc.
  - cbn. rewrite append_nil_r. reflexivity.
  - cbn [fold_left]. rewrite IH. unfold segs_bytes. cbn [map sconcat seg_bytes].
    destruct (n =? 0)%N eqn:E.
    + apply N.eqb_eq in E. subst n.
      replace (substr o 0 (st (loc_hash loc))) with "" by (unfold substr; symmetry; apply take_0).
      reflexivity.
    + rewrite canon_add_bytes, append_assoc. reflexivity.
Qed.

Theorem canon_bytes : forall st l, csegs_bytes st (canon l) = segs_bytes st l.
Proof. intros st l. unfold canon. rewrite canon_fold_bytes. reflexivity. Qed.

Lemma list_eqb_eq {A} (eq : A -> A -> bool) : (forall x y, eq x y = true -> x = y) ->
  forall a b, list_eqb eq a b = true -> a = b.
Proof.
  intros He. induction a as [|x a IH]; intros [|y b] H; try discriminate; [reflexivity|].
  cbn in H. apply andb_prop in H. destruct H as [H1 H2]. f_equal; [apply He; exact H1|apply IH; exact H2].
Qed.
Lemma cseg_eqb_eq x y : cseg_eqb x y = true -> x = y.
Proof.
  destruct x as [[h o] n], y as [[h' o'] n']. cbn. intros H.
  apply andb_prop in H. destruct H as [H H3]. apply andb_prop in H. destruct H as [H1 H2].
  apply String.eqb_eq in H1. apply N.eqb_eq in H2. apply N.eqb_eq in H3. subst. reflexivity.
Qed.
(* what spec_b's comparison means: equal bytes for every block store *)
Theorem canon_eqb_bytes : forall a b, canon_eqb a b = true -> forall st, segs_bytes st a = segs_bytes st b.
Proof.
  intros a b H st. unfold canon_eqb in H. apply (list_eqb_eq _ cseg_eqb_eq) in H.
  rewrite <- (canon_bytes st a), <- (canon_bytes st b), H. reflexivity.
Qed.
