(* C10 — lifting the range theorem of the collection filesystem loader to whole manifest texts:
   for every valid manifest text (streams below 2^63 bytes) [fs_load] succeeds, and the loaded tree has exactly the
   reference files and directories, every file holding exactly the reference segments [denote m path]
   (concatenation, over the file tokens of that path in manifest order, of [ref blocks pos len]). *)
From Coq Require Import NArith Lia List Bool Ascii String Arith.
From AV Require Import lib.Str model.C10_manifest model.C10_ranges model.C10_fs
  proofs.C10_bytes_proofs proofs.C10_ranges_proofs proofs.C10_pdh_proofs proofs.C10_escape_proofs proofs.C10_text_lines.
Import ListNotations.
Local Open Scope string_scope.
Local Open Scope list_scope.
Notation length := List.length.

(* ---------- the flat tree ---------- *)
Lemma path_eqb_eq : forall a b, path_eqb a b = true <-> a = b.
Proof.
  induction a as [|x a IH]; intros [|y b]; cbn; try (split; [discriminate|congruence]); [tauto|].
  rewrite andb_true_iff, IH, String.eqb_eq. split; [intros [-> ->]; reflexivity|intros H; injection H; auto].
Qed.
Lemma path_eqb_refl a : path_eqb a a = true.
Proof. apply path_eqb_eq. reflexivity. Qed.
Lemma is_dir_In t p : is_dir t p = true <-> In p (t_dirs t).
Proof.
  unfold is_dir. rewrite existsb_exists. split.
  - intros (x & Hx & E). apply path_eqb_eq in E. subst x. exact Hx.
  - intros H. exists p. split; [exact H|apply path_eqb_refl].
Qed.
Lemma is_file_In t p : is_file t p = true <-> In p (map fst (t_files t)).
Proof.
  unfold is_file. rewrite existsb_exists. split.
  - intros (x & Hx & E). apply path_eqb_eq in E. subst p. apply in_map. exact Hx.
  - intros H. apply in_map_iff in H. destruct H as (x & <- & Hx). exists x. split; [exact Hx|apply path_eqb_refl].
Qed.

Fixpoint add_dirs (t : fstree) (node : fpath) (names : list string) : fstree :=
  match names with [] => t | n :: r => add_dirs (add_dir t (node ++ [n])) (node ++ [n]) r end.

Lemma add_dir_files t p : t_files (add_dir t p) = t_files t.
Proof. unfold add_dir. destruct (is_dir t p); reflexivity. Qed.
Lemma add_dir_In t p q : In q (t_dirs (add_dir t p)) <-> In q (t_dirs t) \/ q = p.
Proof.
  unfold add_dir. destruct (is_dir t p) eqn:E; cbn [t_dirs].
  - apply is_dir_In in E. split; [auto|]. intros [H| ->]; assumption.
  - rewrite in_app_iff. cbn. intuition.
Qed.
Lemma add_dir_NoDup t p : NoDup (t_dirs t) -> NoDup (t_dirs (add_dir t p)).
Proof.
  unfold add_dir. destruct (is_dir t p) eqn:E; cbn [t_dirs]; [auto|]. intros H.
  apply NoDup_snoc; [exact H|]. intros Hin. apply is_dir_In in Hin. congruence.
Qed.

Lemma add_dirs_files : forall names t node, t_files (add_dirs t node names) = t_files t.
Proof. induction names as [|n r IH]; intros t node; cbn [add_dirs]; [reflexivity|]. rewrite IH. apply add_dir_files. Qed.
Lemma add_dirs_In : forall names t node q,
  In q (t_dirs (add_dirs t node names)) <->
  In q (t_dirs t) \/ exists k, (1 <= k <= length names)%nat /\ q = node ++ firstn k names.
Proof.
  induction names as [|n r IH]; intros t node q; cbn [add_dirs].
  - split; [auto|]. intros [H|(k & Hk & _)]; [exact H|cbn in Hk; lia].
  - rewrite IH, add_dir_In. split.
    + intros [[H| ->]|(k & Hk & ->)]; [auto| |].
      * right. exists 1%nat. cbn. split; [lia|reflexivity].
      * right. exists (S k). cbn [length firstn]. split; [lia|]. rewrite <- app_assoc. reflexivity.
    + intros [H|(k & Hk & ->)]; [auto|]. destruct k as [|k]; [lia|]. destruct k as [|k].
      * left. right. reflexivity.
      * right. exists (S k). cbn [length] in Hk. split; [lia|]. cbn [firstn]. rewrite <- app_assoc. reflexivity.
Qed.
Lemma add_dirs_NoDup : forall names t node, NoDup (t_dirs t) -> NoDup (t_dirs (add_dirs t node names)).
Proof. induction names as [|n r IH]; intros t node H; cbn [add_dirs]; [exact H|]. apply IH. apply add_dir_NoDup. exact H. Qed.

Definition okc (c : string) : Prop := ok_comp c = true.
Lemma okc_inv c : okc c -> String.eqb c "" = false /\ String.eqb c "." = false /\ String.eqb c ".." = false.
Proof.
  unfold okc, ok_comp. intros H. apply andb_prop in H. destruct H as [H H3]. apply andb_prop in H. destruct H as [H1 H2].
  apply negb_true_iff in H1, H2, H3. auto.
Qed.

Lemma is_file_add_dir t p q : is_file (add_dir t p) q = is_file t q.
Proof. unfold is_file. rewrite add_dir_files. reflexivity. Qed.

Lemma walk_dirs_ok : forall names t node, Forall okc names ->
  (forall k, (1 <= k <= length names)%nat -> is_file t (node ++ firstn k names) = false) ->
  walk_dirs t node names = Some (add_dirs t node names, node ++ names).
Proof.
  induction names as [|n r IH]; intros t node Hok Hf; cbn [walk_dirs add_dirs].
  - rewrite app_nil_r. reflexivity.
  - inversion Hok as [|? ? Hn Hr]; subst. destruct (okc_inv _ Hn) as (E1 & E2 & E3). rewrite E1, E2, E3. cbn [orb].
    pose proof (Hf 1%nat ltac:(cbn; lia)) as H1. cbn [firstn] in H1. rewrite H1.
    rewrite IH; [rewrite <- app_assoc; reflexivity|exact Hr|].
    intros k Hk. rewrite is_file_add_dir. rewrite <- app_assoc. apply (Hf (S k)). cbn [length]. lia.
Qed.

(* createFileAndParents on a path "./d1/../dn/b" *)
Lemma cfp_file t P l' b : comps P = "."%string :: l' ++ [b] -> Forall okc l' -> okc b ->
  (forall k, (1 <= k <= length l')%nat -> is_file t (firstn k l') = false) ->
  is_dir (add_dirs t [] l') (l' ++ [b]) = false ->
  create_file_and_parents t P = Some (add_file (add_dirs t [] l') (l' ++ [b]), Some (l' ++ [b])).
Proof.
  intros Hc Hl Hb Hf Hd. unfold create_file_and_parents. fold (comps P). rewrite Hc.
  change ("."%string :: l' ++ [b]) with (("."%string :: l') ++ [b]). rewrite last_str_snoc, removelast_last.
  cbn [walk_dirs]. change (("." =? "") || ("." =? "."))%string with true. cbn iota.
  rewrite walk_dirs_ok by assumption. cbn [app].
  destruct (okc_inv _ Hb) as (E1 & E2 & E3). rewrite E1, E2, E3. cbn [orb]. rewrite Hd. reflexivity.
Qed.
Lemma cfp_marker t P l' : comps P = "."%string :: l' ++ ["."%string] -> Forall okc l' ->
  (forall k, (1 <= k <= length l')%nat -> is_file t (firstn k l') = false) ->
  create_file_and_parents t P = Some (add_dirs t [] l', None).
Proof.
  intros Hc Hl Hf. unfold create_file_and_parents. fold (comps P). rewrite Hc.
  change ("."%string :: l' ++ ["."%string]) with (("."%string :: l') ++ ["."%string]). rewrite last_str_snoc, removelast_last.
  cbn [walk_dirs]. change (("." =? "") || ("." =? "."))%string with true. cbn iota.
  rewrite walk_dirs_ok by assumption. cbn [app]. rewrite String.eqb_refl. reflexivity.
Qed.

(* ---------- files of the tree ---------- *)
Definition selp (p : string) (e : fpath * list seg) : list seg := if String.eqb (path_string (fst e)) p then snd e else [].
Definition upd (q : fpath) (l : list seg) (e : fpath * list seg) : fpath * list seg :=
  if path_eqb q (fst e) then (fst e, snd e ++ l) else e.
Lemma fs_file_segs_eq t p : fs_file_segs t p = flat_map (selp p) (t_files t).
Proof. reflexivity. Qed.
Lemma fs_files_eq t : fs_files t = map path_string (map fst (t_files t)).
Proof. unfold fs_files. rewrite map_map. reflexivity. Qed.

Lemma upd_fst q l (fl : list (fpath * list seg)) : map fst (map (upd q l) fl) = map fst fl.
Proof.
  rewrite map_map. apply map_ext. intros e. unfold upd. destruct (path_eqb q (fst e)); reflexivity.
Qed.
Lemma upd_notin q l : forall fl : list (fpath * list seg), ~ In q (map fst fl) -> map (upd q l) fl = fl.
Proof.
  induction fl as [|e r IH]; intros H; cbn [map]; [reflexivity|].
  cbn [map In] in H. rewrite IH by tauto. unfold upd.
  destruct (path_eqb q (fst e)) eqn:E; [|reflexivity]. apply path_eqb_eq in E. subst q. tauto.
Qed.
Lemma selp_other q : forall fl : list (fpath * list seg), Forall (Forall noslash) (map fst fl) -> Forall noslash q -> ~ In q (map fst fl) ->
  flat_map (selp (path_string q)) fl = [].
Proof.
  induction fl as [|e r IH]; intros Hg Hq Hn; [reflexivity|].
  cbn [map In] in *. inversion Hg as [|? ? He Hr]; subst. cbn [flat_map]. rewrite IH by tauto.
  unfold selp. destruct (String.eqb (path_string (fst e)) (path_string q)) eqn:E; [|reflexivity]. exfalso.
  apply String.eqb_eq in E. apply path_string_inj in E; [|assumption|assumption]. tauto.
Qed.
Lemma append_segs_sel q l p : forall fl : list (fpath * list seg), NoDup (map fst fl) -> Forall (Forall noslash) (map fst fl) -> In q (map fst fl) ->
  flat_map (selp p) (map (upd q l) fl) = flat_map (selp p) fl ++ (if String.eqb (path_string q) p then l else []).
Proof.
  induction fl as [|e r IH]; intros Hnd Hg Hin; [destruct Hin|].
  cbn [map] in *. inversion Hnd as [|? ? Hne Hnd']; subst. inversion Hg as [|? ? Hge Hgr]; subst.
  cbn [flat_map]. unfold upd at 1. destruct (path_eqb q (fst e)) eqn:E.
  - apply path_eqb_eq in E. subst q. rewrite (upd_notin _ _ _ Hne).
    unfold selp at 1 3. cbn [fst snd].
    destruct (String.eqb (path_string (fst e)) p) eqn:Ep.
    + apply String.eqb_eq in Ep. subst p. rewrite (selp_other _ _ Hgr Hge Hne). rewrite !app_nil_r. reflexivity.
    + rewrite app_nil_r. reflexivity.
  - destruct Hin as [Hin|Hin]; [subst q; rewrite path_eqb_refl in E; discriminate|].
    rewrite IH by assumption. rewrite app_assoc. reflexivity.
Qed.

Lemma add_file_dirs t p : t_dirs (add_file t p) = t_dirs t.
Proof. unfold add_file. destruct (is_file t p); reflexivity. Qed.
Lemma add_file_In t p q : In q (map fst (t_files (add_file t p))) <-> In q (map fst (t_files t)) \/ q = p.
Proof.
  unfold add_file. destruct (is_file t p) eqn:E; cbn [t_files].
  - apply is_file_In in E. split; [auto|]. intros [H| ->]; assumption.
  - rewrite map_app, in_app_iff. cbn. intuition.
Qed.
Lemma add_file_NoDup t p : NoDup (map fst (t_files t)) -> NoDup (map fst (t_files (add_file t p))).
Proof.
  unfold add_file. destruct (is_file t p) eqn:E; cbn [t_files]; [auto|]. intros H. rewrite map_app. cbn [map fst].
  apply NoDup_snoc; [exact H|]. intros Hin. apply is_file_In in Hin. congruence.
Qed.
Lemma add_file_sel t q p : flat_map (selp p) (t_files (add_file t q)) = flat_map (selp p) (t_files t).
Proof.
  unfold add_file. destruct (is_file t q); cbn [t_files]; [reflexivity|].
  rewrite flat_map_app. cbn [flat_map]. unfold selp at 2. cbn [fst snd].
  destruct (String.eqb (path_string q) p); rewrite !app_nil_r; reflexivity.
Qed.

(* ---------- the invariant of the load ---------- *)
Record Inv (E : list entry) (t : fstree) (es : list entry) : Prop := {
  inv_incl : incl es E;
  inv_gd : Forall (Forall noslash) (t_dirs t);
  inv_gf : Forall (Forall noslash) (map fst (t_files t));
  inv_ndf : NoDup (map fst (t_files t));
  inv_ndd : NoDup (t_dirs t);
  inv_files : forall p, In p (fs_files t) <-> In p (files_of es);
  inv_dirs : forall p, In p (map path_string (t_dirs t)) <-> In p (dirs_of es) /\ p <> "."%string;
  inv_segs : forall p, fs_file_segs t p = flat_map (sel p) es
}.

Lemma Inv_empty E : Inv E empty_tree [].
Proof.
  constructor; cbn; try constructor; try tauto; try reflexivity. intros x [].
Qed.

(* the directories of one more entry *)
Lemma firstn_app_le {A} k (a b : list A) : (k <= length a)%nat -> firstn k (a ++ b) = firstn k a.
Proof. intros H. rewrite firstn_app. replace (k - length a)%nat with O by lia. cbn. apply app_nil_r. Qed.

Lemma Forall_firstn {A} (P : A -> Prop) k l : Forall P l -> Forall P (firstn k l).
Proof. revert k. induction l as [|x l IH]; intros [|k] H; cbn; try constructor; inversion H; subst; auto. Qed.

Section Step.
Variables (E : list entry) (t : fstree) (es : list entry) (e : entry) (l' : list string) (b : string).
Hypothesis HI : Inv E t es.
Hypothesis HE : In e E.
Hypothesis Hcf : conflict_free E.
Hypothesis Hc : comps (e_path e) = "."%string :: l' ++ [b].
Hypothesis Hl : Forall okc l'.

Lemma step_noslash : Forall noslash (l' ++ [b]).
Proof. pose proof (comps_noslash (e_path e)) as H. rewrite Hc in H. inversion H; assumption. Qed.

Lemma step_prefix_dir k : (1 <= k <= length l')%nat -> In (path_string (firstn k l')) (dirs_of E).
Proof.
  intros Hk. unfold dirs_of. apply in_flat_map. exists e. split; [exact HE|].
  apply (dir_prefixes_spec _ _ _ Hc). right. exists k. rewrite app_length. cbn [length]. split; [lia|].
  rewrite firstn_app_le by lia. reflexivity.
Qed.

Lemma step_no_file k : (1 <= k <= length l')%nat -> is_file t (firstn k l') = false.
Proof.
  intros Hk. destruct (is_file t (firstn k l')) eqn:Ef; [|reflexivity]. exfalso.
  apply is_file_In in Ef. apply (in_map path_string) in Ef. rewrite <- fs_files_eq in Ef.
  apply (inv_files _ _ _ HI) in Ef. apply (files_of_incl _ _ (inv_incl _ _ _ HI)) in Ef.
  exact (Hcf _ Ef (step_prefix_dir k Hk)).
Qed.

Let t1 := add_dirs t [] l'.
Lemma step_dirs p : In p (map path_string (t_dirs t1)) <-> In p (dirs_of (es ++ [e])) /\ p <> "."%string.
Proof.
  rewrite dirs_of_app, in_app_iff. unfold dirs_of at 2. cbn [flat_map]. rewrite app_nil_r.
  rewrite (dir_prefixes_spec _ _ p Hc). rewrite in_map_iff. split.
  - intros (q & <- & Hq). apply add_dirs_In in Hq. destruct Hq as [Hq|(k & Hk & ->)].
    + apply (in_map path_string) in Hq. apply (inv_dirs _ _ _ HI) in Hq. tauto.
    + cbn [app]. split.
      * right. right. exists k. rewrite app_length. cbn [length]. split; [lia|]. rewrite firstn_app_le by lia. reflexivity.
      * destruct (firstn k l') eqn:Ek; [|apply path_string_cons_ne].
        apply (f_equal (@length string)) in Ek. rewrite firstn_length in Ek. cbn in Ek. lia.
  - intros [[Hd|[->|(k & Hk & ->)]] Hne].
    + assert (H : In p (map path_string (t_dirs t))) by (apply (inv_dirs _ _ _ HI); tauto).
      apply in_map_iff in H. destruct H as (q & <- & Hq). exists q. split; [reflexivity|]. apply add_dirs_In. left. exact Hq.
    + congruence.
    + rewrite app_length in Hk. cbn [length] in Hk. rewrite firstn_app_le by lia.
      exists (firstn k l'). split; [reflexivity|]. apply add_dirs_In. right. exists k. split; [lia|reflexivity].
Qed.
Lemma step_gd : Forall (Forall noslash) (t_dirs t1).
Proof.
  apply Forall_forall. intros q Hq. apply add_dirs_In in Hq. destruct Hq as [Hq|(k & Hk & ->)].
  - pose proof (inv_gd _ _ _ HI) as H. rewrite Forall_forall in H. apply H. exact Hq.
  - cbn [app]. apply Forall_firstn. pose proof step_noslash as H. apply Forall_app in H. tauto.
Qed.

Lemma step_marker : e_marker e = true -> e_segs e = [] -> b = "."%string ->
  create_file_and_parents t (e_path e) = Some (t1, None) /\ Inv E t1 (es ++ [e]).
Proof.
  intros Hm Hs Hb. pose proof Hc as Hc'. rewrite Hb in Hc'.
  split; [apply cfp_marker; [exact Hc'|exact Hl|exact step_no_file]|].
  constructor.
  - intros x Hx. apply in_app_iff in Hx. destruct Hx as [Hx|[<-|[]]]; [apply (inv_incl _ _ _ HI); exact Hx|exact HE].
  - exact step_gd.
  - unfold t1. rewrite add_dirs_files. apply (inv_gf _ _ _ HI).
  - unfold t1. rewrite add_dirs_files. apply (inv_ndf _ _ _ HI).
  - apply add_dirs_NoDup. apply (inv_ndd _ _ _ HI).
  - intros p. rewrite files_of_app. unfold files_of at 2. cbn [filter]. rewrite Hm. cbn [negb map]. rewrite app_nil_r.
    unfold fs_files, t1. rewrite add_dirs_files. apply (inv_files _ _ _ HI).
  - exact step_dirs.
  - intros p. rewrite flat_map_app. cbn [flat_map]. unfold sel at 2. rewrite Hs.
    destruct (String.eqb (e_path e) p); rewrite !app_nil_r; unfold fs_file_segs, t1; rewrite add_dirs_files; apply (inv_segs _ _ _ HI).
Qed.

Lemma step_file : e_marker e = false -> okc b ->
  create_file_and_parents t (e_path e) = Some (add_file t1 (l' ++ [b]), Some (l' ++ [b])) /\
  Inv E (append_segs (add_file t1 (l' ++ [b])) (l' ++ [b]) (e_segs e)) (es ++ [e]).
Proof.
  intros Hm Hb.
  assert (HP : path_string (l' ++ [b]) = e_path e) by (apply path_string_of_comps; exact Hc).
  assert (HF : In (e_path e) (files_of E)).
  { unfold files_of. apply in_map. apply filter_In. split; [exact HE|]. rewrite Hm. reflexivity. }
  split.
  - apply cfp_file; [exact Hc|exact Hl|exact Hb|exact step_no_file|].
    destruct (is_dir (add_dirs t [] l') (l' ++ [b])) eqn:Ed; [|reflexivity]. exfalso.
    apply is_dir_In in Ed. apply (in_map path_string) in Ed. apply step_dirs in Ed. destruct Ed as [Ed _].
    rewrite HP in Ed. apply (Hcf _ HF). apply (dirs_of_incl (es ++ [e]) E); [|exact Ed].
    intros x Hx. apply in_app_iff in Hx. destruct Hx as [Hx|[<-|[]]]; [apply (inv_incl _ _ _ HI); exact Hx|exact HE].
  - set (q := l' ++ [b]) in *. set (t2 := add_file t1 q).
    assert (Hfst : map fst (t_files (append_segs t2 q (e_segs e))) = map fst (t_files t2)) by apply upd_fst.
    assert (Hin : forall x, In x (map fst (t_files t2)) <-> In x (map fst (t_files t)) \/ x = q).
    { intros x. unfold t2. rewrite add_file_In. unfold t1. rewrite add_dirs_files. tauto. }
    assert (Hg2 : Forall (Forall noslash) (map fst (t_files t2))).
    { apply Forall_forall. intros x Hx. apply Hin in Hx. destruct Hx as [Hx| ->]; [|exact step_noslash].
      pose proof (inv_gf _ _ _ HI) as H. rewrite Forall_forall in H. apply H. exact Hx. }
    assert (Hnd2 : NoDup (map fst (t_files t2))).
    { apply add_file_NoDup. unfold t1. rewrite add_dirs_files. apply (inv_ndf _ _ _ HI). }
    constructor.
    + intros x Hx. apply in_app_iff in Hx. destruct Hx as [Hx|[<-|[]]]; [apply (inv_incl _ _ _ HI); exact Hx|exact HE].
    + cbn [append_segs t_dirs]. unfold t2. rewrite add_file_dirs. exact step_gd.
    + rewrite Hfst. exact Hg2.
    + rewrite Hfst. exact Hnd2.
    + cbn [append_segs t_dirs]. unfold t2. rewrite add_file_dirs. apply add_dirs_NoDup. apply (inv_ndd _ _ _ HI).
    + intros p. rewrite fs_files_eq, Hfst. rewrite files_of_app, in_app_iff. unfold files_of at 2. cbn [filter].
      rewrite Hm. cbn [negb map In]. rewrite <- (inv_files _ _ _ HI), fs_files_eq, !in_map_iff. split.
      * intros (x & <- & Hx). apply Hin in Hx. destruct Hx as [Hx| ->]; [left; exists x; auto|right; left; symmetry; exact HP].
      * intros [(x & <- & Hx)|[<-|[]]]; [exists x; split; [reflexivity|apply Hin; auto]|].
        exists q. split; [exact HP|apply Hin; auto].
    + cbn [append_segs t_dirs]. unfold t2. rewrite add_file_dirs. exact step_dirs.
    + intros p. rewrite fs_file_segs_eq. cbn [append_segs t_files]. fold (upd q (e_segs e)).
      rewrite append_segs_sel; [|exact Hnd2|exact Hg2|apply Hin; auto].
      unfold t2. rewrite add_file_sel. unfold t1. rewrite add_dirs_files. rewrite <- fs_file_segs_eq, (inv_segs _ _ _ HI).
      rewrite flat_map_app. cbn [flat_map]. rewrite app_nil_r. unfold sel at 2. rewrite HP. reflexivity.
Qed.
End Step.

(* ---------- one stream ---------- *)
Definition segs_of (blocks : list string) : list (string * N) := map (fun b => (b, loc_size b)) blocks.
Lemma segs_of_fst blocks : map fst (segs_of blocks) = blocks.
Proof. unfold segs_of. rewrite map_map. cbn. apply map_id. Qed.
Lemma segs_of_snd blocks : map snd (segs_of blocks) = sizes_of blocks.
Proof. unfold segs_of, sizes_of. rewrite map_map. reflexivity. Qed.

Lemma load_tokens_app dn : forall a b st,
  load_tokens dn st (a ++ b) = match load_tokens dn st a with Some st' => load_tokens dn st' b | None => None end.
Proof.
  induction a as [|x a IH]; intros b st; cbn [app load_tokens]; [reflexivity|].
  destruct (load_token dn st x); [apply IH|reflexivity].
Qed.

Lemma load_locs dn : forall locs t sg cur,
  Forall (fun b => is_locator b = true) locs -> Forall (fun b => (loc_size b <= max_block)%N) locs ->
  load_tokens dn {| l_tree := t; l_segs := sg; l_any := false; l_cur := cur |} locs =
  Some {| l_tree := t; l_segs := sg ++ segs_of locs; l_any := false; l_cur := cur |}.
Proof.
  induction locs as [|b r IH]; intros t sg cur Hl Hs; cbn [load_tokens segs_of map].
  - rewrite app_nil_r. reflexivity.
  - inversion Hl as [|? ? Hb Hr]; subst. inversion Hs as [|? ? Hb' Hr']; subst.
    unfold load_token at 1. rewrite (locator_no_colon _ Hb). cbn [negb l_any l_tree l_segs l_cur].
    rewrite (fs_loc_size_locator _ Hb Hb'). rewrite IH by assumption. rewrite <- app_assoc. reflexivity.
Qed.

Lemma dot_match {A} (c : string) (x y : A) :
  match c with "."%string => x | _ => y end = if String.eqb c "." then x else y.
Proof.
  destruct c as [|a c]; [reflexivity|].
  destruct a as [[] [] [] [] [] [] [] []]; try reflexivity. destruct c; reflexivity.
Qed.
Lemma valid_stream_name_inv sn : valid_stream_name_u sn = true -> exists ds, comps sn = "."%string :: ds /\ Forall okc ds.
Proof.
  unfold valid_stream_name_u. destruct (comps sn) as [|c ds]; [discriminate|].
  rewrite (dot_match c (forallb ok_comp ds) false).
  destruct (String.eqb c ".") eqn:E; [|discriminate].
  apply String.eqb_eq in E. subst c. intros H. exists ds. split; [reflexivity|]. apply forallb_Forall. exact H.
Qed.

(* the component structure of a valid file token name *)
Lemma valid_file_name_inv f : valid_file_name_u f = true ->
  exists cs' b, comps (ft_name f) = cs' ++ [b] /\ Forall okc cs' /\
                (if is_marker f then b = "."%string /\ ft_len f = 0%N else okc b).
Proof.
  unfold valid_file_name_u. destruct (exists_last (comps_nonempty (ft_name f))) as (cs' & b & Hcs).
  intros H. exists cs', b. split; [exact Hcs|].
  unfold is_marker in *. rewrite Hcs in *. rewrite last_str_snoc in *.
  destruct ((ft_len f =? 0)%N && String.eqb b ".") eqn:Em.
  - rewrite removelast_last in H. apply andb_prop in Em. destruct Em as [E1 E2].
    apply N.eqb_eq in E1. apply String.eqb_eq in E2. split; [apply forallb_Forall; exact H|auto].
  - apply forallb_Forall in H. apply Forall_app in H. destruct H as [H1 H2]. inversion H2; subst. split; assumption.
Qed.

Lemma match_nonempty {A B} (l : list A) (x y : B) : l <> [] -> match l with [] => x | _ :: _ => y end = y.
Proof. destruct l; [congruence|reflexivity]. Qed.

Section Token.
Variables (E : list entry) (sn : string) (blocks : list string) (ds : list string).
Hypothesis Hcf : conflict_free E.
Hypothesis Hsn : comps sn = "."%string :: ds.
Hypothesis Hds : Forall okc ds.
Hypothesis Hne : blocks <> [].
Hypothesis Hsmall : (total (sizes_of blocks) < 2 ^ 63)%N.

Lemma load_ftok st es tok f :
  l_segs st = segs_of blocks -> cur_ok (sizes_of blocks) (l_cur st) -> Inv E (l_tree st) es ->
  parse_ftok tok = Some f -> valid_file_name_u f = true -> (ft_pos f + ft_len f <= total (sizes_of blocks))%N ->
  In (entry_of sn blocks f) E ->
  exists st', load_token sn st tok = Some st' /\ l_segs st' = segs_of blocks /\ l_any st' = true /\
              cur_ok (sizes_of blocks) (l_cur st') /\ Inv E (l_tree st') (es ++ [entry_of sn blocks f]).
Proof.
  intros Hsg Hcur HI Hp Hv Hr HE.
  unfold load_token. rewrite (ftok_has_colon _ _ Hp). cbn [negb].
  rewrite match_nonempty by (rewrite Hsg; destruct blocks; [congruence|discriminate]).
  destruct (parse_ftok_inv _ _ Hp) as (p & s & n & Hsp & Hpp & Hps & Hnm). rewrite Hsp.
  rewrite (parse_dec_nonneg 64 _ _ Hpp) by (cbn; lia). rewrite (parse_dec_nonneg 64 _ _ Hps) by (cbn; lia).
  assert (HEnd : fs_end (ft_pos f) (ft_len f) = Some (ft_pos f + ft_len f)%N).
  { unfold fs_end. destruct (N.ltb_spec (ft_pos f + ft_len f) (2 ^ 63)); [reflexivity|lia]. }
  rewrite HEnd.
  set (e := entry_of sn blocks f) in *.
  assert (HP : (sn ++ "/" ++ fs_unescape n)%string = e_path e).
  { unfold e, entry_of, path_of. cbn [e_path]. rewrite Hnm. reflexivity. }
  rewrite HP.
  destruct (valid_file_name_inv _ Hv) as (cs' & b & Hcs & Hcs' & Hb).
  assert (Hc : comps (e_path e) = "."%string :: (ds ++ cs') ++ [b]).
  { unfold e, entry_of. cbn [e_path]. rewrite comps_path_of, Hsn, Hcs. cbn [app]. rewrite app_assoc. reflexivity. }
  assert (Hl : Forall okc (ds ++ cs')) by (apply Forall_app; split; assumption).
  destruct (is_marker f) eqn:Em.
  - destruct Hb as [-> Hlen].
    assert (Hs0 : e_segs e = []).
    { unfold e, entry_of. cbn [e_segs]. rewrite Hlen. unfold ref. rewrite ref_from_len0. reflexivity. }
    destruct (step_marker E (l_tree st) es e (ds ++ cs') "." HI HE Hcf Hc Hl Em Hs0 eq_refl) as [Hcfp HI'].
    rewrite Hcfp. rewrite Hlen. cbn [N.eqb].
    eexists. split; [reflexivity|]. cbn [l_segs l_any l_cur l_tree]. auto.
  - destruct (step_file E (l_tree st) es e (ds ++ cs') b HI HE Hcf Hc Hl Em Hb) as [Hcfp HI'].
    rewrite Hcfp.
    change (map snd (l_segs st)) with (map snd (l_segs st)). rewrite Hsg, segs_of_snd, segs_of_fst.
    destruct (fs_map_ref (sizes_of blocks) (l_cur st) (ft_pos f) (ft_len f) Hcur Hr) as (cur' & Hmap & Hcur'); [lia|].
    rewrite Hmap.
    eexists. split; [reflexivity|]. cbn [l_segs l_any l_cur l_tree]. destruct cur'. auto.
Qed.

Lemma load_ftoks : forall toks fs st es,
  l_segs st = segs_of blocks -> cur_ok (sizes_of blocks) (l_cur st) -> Inv E (l_tree st) es ->
  Forall2 (fun t f => parse_ftok t = Some f) toks fs ->
  Forall (fun f => valid_file_name_u f = true /\ (ft_pos f + ft_len f <= total (sizes_of blocks))%N) fs ->
  incl (map (entry_of sn blocks) fs) E ->
  exists st', load_tokens sn st toks = Some st' /\ l_segs st' = segs_of blocks /\ (toks <> [] -> l_any st' = true) /\
              Inv E (l_tree st') (es ++ map (entry_of sn blocks) fs).
Proof.
  induction toks as [|tok toks IH]; intros fs st es Hsg Hcur HI H2 Hv Hin.
  - inversion H2; subst. exists st. cbn [load_tokens map]. rewrite app_nil_r.
    split; [reflexivity|]. split; [exact Hsg|]. split; [congruence|exact HI].
  - inversion H2 as [|? f ? fs' Hp H2']; subst. inversion Hv as [|? ? [Hv1 Hv2] Hv']; subst.
    cbn [map] in Hin.
    destruct (load_ftok st es tok f Hsg Hcur HI Hp Hv1 Hv2 (Hin _ (or_introl eq_refl))) as (st1 & Hld & Hsg1 & Hany1 & Hcur1 & HI1).
    destruct (IH fs' st1 _ Hsg1 Hcur1 HI1 H2' Hv') as (st' & Hld' & Hsg' & Hany' & HI').
    { intros x Hx. apply Hin. right. exact Hx. }
    exists st'. cbn [load_tokens]. rewrite Hld. split; [exact Hld'|]. split; [exact Hsg'|]. split.
    + intros _. destruct toks as [|t2 toks'].
      * cbn in Hld'. injection Hld' as <-. exact Hany1.
      * apply Hany'. discriminate.
    + cbn [map]. rewrite <- app_assoc in HI'. exact HI'.
Qed.
End Token.

Definition small_stream (s : stream) : Prop := (total (sizes_of (s_blocks s)) < 2 ^ 63)%N.
(* every stream is shorter than 2^63 bytes (the loader's int64; a longer stream needs more than 2^37 locators) *)
Definition small_manifest (m : manifest) : bool := forallb (fun s => small_total (sizes_of (s_blocks s))) m.
Lemma small_manifest_spec m : small_manifest m = true <-> Forall small_stream m.
Proof.
  unfold small_manifest. rewrite forallb_Forall. split; apply Forall_impl; intros s; unfold small_stream, small_total;
    [apply N.ltb_lt|apply N.ltb_lt].
Qed.

Lemma load_stream_ok E t es line s name fts :
  stream_ok line s name fts -> small_stream s -> conflict_free E -> incl (stream_entries s) E -> Inv E t es ->
  exists t', load_stream t line = Some t' /\ Inv E t' (es ++ stream_entries s).
Proof.
  intros Hok Hsm Hcf Hin HI.
  destruct Hok as [so_parse0 so_split0 so_name0 so_blocks_ne0 so_fts_ne0 so_locs0 so_fts0 so_vname0 so_sizes0 so_files0 so_chars0].
  destruct (valid_stream_name_inv _ so_vname0) as (ds & Hsn & Hds).
  unfold load_stream. rewrite so_split0.
  change (fs_unescape name) with (unescape name). rewrite <- so_name0.
  rewrite load_tokens_app, load_locs by assumption. cbn [app].
  destruct (load_ftoks E (s_name s) (s_blocks s) ds Hcf Hsn Hds so_blocks_ne0 Hsm fts (s_ftoks s)
              {| l_tree := t; l_segs := segs_of (s_blocks s); l_any := false; l_cur := (O, 0%N) |} es)
    as (st' & Hld & Hsg & Hany & HI'); cbn [l_tree l_segs l_cur]; auto using cur_ok_start.
  rewrite Hld. rewrite (Hany so_fts_ne0). cbn [negb].
  rewrite match_nonempty by (rewrite Hsg; destruct (s_blocks s); [congruence|discriminate]).
  destruct (String.eqb (s_name s) "") eqn:En.
  - apply String.eqb_eq in En. rewrite En in Hsn. discriminate.
  - exists (l_tree st'). split; [reflexivity|]. exact HI'.
Qed.

Lemma load_streams_ok E : forall ls ms t es,
  Forall2 (fun l s => exists name fts, stream_ok l s name fts) ls ms -> Forall small_stream ms -> conflict_free E ->
  incl (entries ms) E -> Inv E t es ->
  exists t', load_streams t ls = Some t' /\ Inv E t' (es ++ entries ms).
Proof.
  induction ls as [|l ls IH]; intros ms t es H2 Hsm Hcf Hin HI.
  - inversion H2; subst. exists t. cbn. rewrite app_nil_r. auto.
  - inversion H2 as [|? s ? ms' (name & fts & Hok) H2']; subst. inversion Hsm as [|? ? Hs Hsm']; subst.
    cbn [entries flat_map] in Hin.
    destruct (load_stream_ok E t es l s name fts Hok Hs Hcf) as (t1 & Hl1 & HI1); [|exact HI|].
    { intros x Hx. apply Hin. apply in_app_iff. left. exact Hx. }
    assert (Hin' : incl (entries ms') E) by (intros x Hx; apply Hin; apply in_app_iff; right; exact Hx).
    destruct (IH ms' t1 _ H2' Hsm' Hcf Hin' HI1) as (t' & Hl' & HI').
    exists t'. cbn [load_streams]. rewrite Hl1. split; [exact Hl'|]. cbn [entries flat_map]. rewrite app_assoc. exact HI'.
Qed.

Lemma valid_lines_ok : forall ls m, Forall (fun l => valid_stream l = true) ls -> map_opt parse_stream ls = Some m ->
  Forall2 (fun l s => exists name fts, stream_ok l s name fts) ls m.
Proof.
  intros ls m Hv Hm. apply map_opt_Forall2 in Hm. induction Hm as [|l s ls m Hp Hm IH]; [constructor|].
  inversion Hv as [|? ? Hl Hv']; subst. constructor; [|apply IH; exact Hv'].
  destruct (valid_stream_inv _ Hl) as (s' & name & fts & Hok). pose proof (so_parse _ _ _ _ Hok) as Hp'.
  rewrite Hp in Hp'. injection Hp' as <-. exists name, fts. exact Hok.
Qed.

(* ---------- codec_agrees, text level, collection filesystem loader ---------- *)
Theorem fs_text_agrees : forall txt m,
  valid_manifest txt = true -> parse_manifest txt = Some m -> small_manifest m = true ->
  exists t, fs_load txt = Some t /\
    (forall path, fs_file_segs t path = denote m path) /\
    (forall path, In path (fs_files t) <-> In path (file_paths m)) /\
    (forall path, In path (fs_dirs t) <-> path = "."%string \/ In path (dir_paths m)) /\
    NoDup (fs_files t) /\ NoDup (fs_dirs t).
Proof.
  intros txt m Hv Hp Hsm. destruct (valid_manifest_inv _ Hv) as (ls & m' & Hls & Hmo & Hp' & Hvl & Hnc).
  rewrite Hp in Hp'. injection Hp' as <-.
  apply small_manifest_spec in Hsm.
  destruct (load_streams_ok (entries m) ls m empty_tree [] (valid_lines_ok _ _ Hvl Hmo) Hsm (no_conflict_free _ Hnc))
    as (t & Hl & HI); [apply incl_refl|apply Inv_empty|].
  cbn [app] in HI. exists t. unfold fs_load. rewrite Hls. split; [exact Hl|].
  assert (Hinj : forall l : list fpath, Forall (Forall noslash) l -> NoDup l -> NoDup (map path_string l)).
  { intros l Hg Hn. induction Hn as [|x l Hx Hn IH]; cbn; [constructor|]. inversion Hg as [|? ? Hgx Hgl]; subst.
    constructor; [|apply IH; exact Hgl]. intros Hin. apply in_map_iff in Hin. destruct Hin as (y & Hy & Hyl).
    apply path_string_inj in Hy; [subst y; tauto| |exact Hgx]. rewrite Forall_forall in Hgl. apply Hgl. exact Hyl. }
  repeat split.
  - intros p. rewrite denote_entries. apply (inv_segs _ _ _ HI).
  - rewrite file_paths_entries. apply (inv_files _ _ _ HI).
  - rewrite file_paths_entries. apply (inv_files _ _ _ HI).
  - unfold fs_dirs. cbn [In]. rewrite dir_paths_entries. intros [H|H]; [auto|]. apply (inv_dirs _ _ _ HI) in H. tauto.
  - unfold fs_dirs. cbn [In]. rewrite dir_paths_entries. intros [->|H]; [auto|].
    destruct (String.eqb path ".") eqn:E; [apply String.eqb_eq in E; auto|]. apply String.eqb_neq in E.
    right. apply (inv_dirs _ _ _ HI). auto.
  - rewrite fs_files_eq. apply Hinj; [apply (inv_gf _ _ _ HI)|apply (inv_ndf _ _ _ HI)].
  - unfold fs_dirs. constructor; [|apply Hinj; [apply (inv_gd _ _ _ HI)|apply (inv_ndd _ _ _ HI)]].
    intros H. apply (inv_dirs _ _ _ HI) in H. tauto.
Qed.

(* bytes: for every block store, the data of every path of the loaded tree is the reference data *)
Corollary fs_text_bytes : forall txt m t (st : store) path,
  valid_manifest txt = true -> parse_manifest txt = Some m -> small_manifest m = true -> fs_load txt = Some t ->
  segs_bytes st (fs_file_segs t path) = file_bytes st m path.
Proof.
  intros txt m t st path Hv Hp Hsm Hl. destruct (fs_text_agrees txt m Hv Hp Hsm) as (t' & Hl' & Hs & _).
  rewrite Hl in Hl'. injection Hl' as <-. unfold file_bytes. rewrite Hs. reflexivity.
Qed.
