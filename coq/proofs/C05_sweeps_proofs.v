(* C05 — trash lists across balancing runs (model/C05_sweeps.v): whatever the service lists, restarts and
   failing requests, a committing keep-balance process never reads an index from a server that still holds a
   trash list computed for another service list. *)
From Coq Require Import List Arith Bool Lia.
From AV Require Import model.C06_model model.C05_sweeps.
Import ListNotations.

(* ---------- basics ---------- *)
Lemma list_nat_eqb_eq a : forall b, list_nat_eqb a b = true <-> a = b.
Proof.
  induction a as [|x r IH]; intros [|y s]; simpl; try (split; [discriminate|discriminate]); [split; reflexivity|].
  rewrite andb_true_iff, Nat.eqb_eq, IH. split; [intros [-> ->]; reflexivity|intros E; injection E; auto].
Qed.
Lemma list_nat_eqb_refl a : list_nat_eqb a a = true.
Proof. apply list_nat_eqb_eq. reflexivity. Qed.

Lemma pget_premove_same s p : pget (premove s p) s = None.
Proof.
  induction p as [|[k v] r IH]; simpl; [reflexivity|].
  destruct (k =? s) eqn:E; simpl; [exact IH|]. rewrite E. exact IH.
Qed.
Lemma pget_premove_other x s p : x <> s -> pget (premove x p) s = pget p s.
Proof.
  intros N. induction p as [|[k v] r IH]; simpl; [reflexivity|].
  destruct (k =? x) eqn:E; simpl.
  - apply Nat.eqb_eq in E. subst k. destruct (x =? s) eqn:F; [apply Nat.eqb_eq in F; contradiction|exact IH].
  - destruct (k =? s); [reflexivity|exact IH].
Qed.
Lemma pget_pset_same s v p : pget (pset s v p) s = Some v.
Proof. unfold pset. simpl. rewrite Nat.eqb_refl. reflexivity. Qed.
Lemma pget_pset_other x s v p : x <> s -> pget (pset x v p) s = pget p s.
Proof.
  intros N. unfold pset. simpl. destruct (x =? s) eqn:F; [apply Nat.eqb_eq in F; contradiction|].
  apply pget_premove_other. exact N.
Qed.

(* ---------- the specification at Prop level ---------- *)
(* server s holds a non-empty trash list that was not computed for the service list `set` *)
Definition Stale (p : pend) (set : list nat) (s : nat) : Prop :=
  exists tag, pget p s = Some tag /\ tag <> Some set.

Lemma stale_iff p set s : stale p set s = true <-> Stale p set s.
Proof.
  unfold stale, Stale. destruct (pget p s) as [[l|]|].
  - rewrite negb_true_iff. split.
    + intros H. exists (Some l). split; [reflexivity|]. intros E. injection E as ->. rewrite list_nat_eqb_refl in H. discriminate.
    + intros (tag & E & N). injection E as <-. destruct (list_nat_eqb l set) eqn:F; [|reflexivity].
      apply list_nat_eqb_eq in F. subst. contradiction.
  - split; [intros _; exists None; split; [reflexivity|discriminate]|reflexivity].
  - split; [discriminate|intros (tag & E & _); discriminate].
Qed.

(* some index of the run is answered by a server that holds a stale list at that moment *)
Definition ReadsStale (set : list nat) (log : list ev) (p : pend) : Prop :=
  exists pre s post, log = pre ++ EvIndex s :: post /\ Stale (pend_after set pre p) set s.

Lemma reads_stale_iff set : forall log p, reads_stale set log p = true <-> ReadsStale set log p.
Proof.
  induction log as [|e r IH]; intros p; simpl.
  - split; [discriminate|]. intros (pre & s & post & E & _). destruct pre; discriminate.
  - rewrite orb_true_iff, IH. split.
    + intros [H|(pre & s & post & E & H)].
      * destruct e as [s| |]; try discriminate. exists [], s, r. split; [reflexivity|]. apply stale_iff. exact H.
      * exists (e :: pre), s, post. split; [simpl; rewrite E; reflexivity|exact H].
    + intros (pre & s & post & E & H). destruct pre as [|e' pre]; simpl in E.
      * injection E as -> ->. left. apply stale_iff. exact H.
      * injection E as -> ->. right. exists pre, s, post. split; [reflexivity|exact H].
Qed.

(* the pending lists when run i starts *)
Fixpoint pend_before (runs : list (list nat * list ev)) (p : pend) (i : nat) : pend :=
  match i, runs with
  | S j, (set, log) :: r => pend_before r (pend_after set log p) j
  | _, _ => p
  end.

Definition StaleFree (ct : bool) (runs : list (list nat * list ev)) (p : pend) : Prop :=
  ct = true -> forall i set log, nth_error runs i = Some (set, log) -> ~ ReadsStale set log (pend_before runs p i).

Theorem stale_free_reflects ct : forall runs p, stale_free ct runs p = true <-> StaleFree ct runs p.
Proof.
  induction runs as [|[set log] r IH]; intros p; simpl.
  - split; [|reflexivity]. intros _ _ [|i] set log E; discriminate.
  - rewrite andb_true_iff, negb_true_iff, IH. unfold StaleFree. split.
    + intros [A B] Hct [|i] set' log' E; simpl in *.
      * injection E as <- <-. rewrite Hct in A. simpl in A. rewrite <- reads_stale_iff. congruence.
      * apply (B Hct i set' log' E).
    + intros H. split.
      * destruct ct; [|reflexivity]. simpl. destruct (reads_stale set log p) eqn:F; [|reflexivity].
        exfalso. apply (H eq_refl 0 set log eq_refl). apply reads_stale_iff. exact F.
      * intros Hct i set' log' E. apply (H Hct (S i) set' log' E).
Qed.

(* ---------- the invariant ---------- *)
Definition NoStale (A : list nat) (p : pend) : Prop := forall s, In s A -> stale p A s = false.
(* every server of the "safe" service list holds an empty list or one computed for that list *)
Definition Inv (safe : option (list nat)) (p : pend) : Prop :=
  match safe with None => True | Some A => NoStale A p end.

Lemma stale_pget p q A s : pget p s = pget q s -> stale p A s = stale q A s.
Proof. unfold stale. intros ->. reflexivity. Qed.

Lemma apply_ev_same A p e : NoStale A p -> NoStale A (apply_ev A p e).
Proof.
  intros H s Hs. destruct e as [x|x n d|x n d]; simpl; try (apply H; exact Hs).
  destruct d; [|apply H; exact Hs]. destruct (Nat.eq_dec x s) as [->|N].
  - destruct (n =? 0); unfold stale; [rewrite pget_premove_same; reflexivity|].
    rewrite pget_pset_same, list_nat_eqb_refl. reflexivity.
  - destruct (n =? 0).
    + rewrite (stale_pget _ p); [apply H; exact Hs|apply pget_premove_other; exact N].
    + rewrite (stale_pget _ p); [apply H; exact Hs|apply pget_pset_other; exact N].
Qed.
Lemma pend_after_same A : forall log p, NoStale A p -> NoStale A (pend_after A log p).
Proof. induction log as [|e r IH]; intros p H; simpl; [exact H|]. apply IH. apply apply_ev_same. exact H. Qed.

(* an event that installs no list *)
Definition harmless (e : ev) : bool := match e with EvTrash _ n true => n =? 0 | _ => true end.
Lemma apply_ev_harmless B set p e : harmless e = true -> NoStale B p -> NoStale B (apply_ev set p e).
Proof.
  intros Hh H s Hs. destruct e as [x|x n d|x n d]; simpl; try (apply H; exact Hs).
  destruct d; [|apply H; exact Hs]. simpl in Hh. rewrite Hh.
  destruct (Nat.eq_dec x s) as [->|N]; [unfold stale; rewrite pget_premove_same; reflexivity|].
  rewrite (stale_pget _ p); [apply H; exact Hs|apply pget_premove_other; exact N].
Qed.
Lemma pend_after_harmless B set : forall log p, forallb harmless log = true -> NoStale B p -> NoStale B (pend_after set log p).
Proof.
  induction log as [|e r IH]; intros p Hh H; simpl; [exact H|]. simpl in Hh. apply andb_true_iff in Hh. destruct Hh as [H1 H2].
  apply IH; [exact H2|]. apply apply_ev_harmless; assumption.
Qed.
Lemma inv_harmless safe set log p : forallb harmless log = true -> Inv safe p -> Inv safe (pend_after set log p).
Proof. destruct safe as [B|]; simpl; [apply pend_after_harmless|auto]. Qed.

Lemma pend_after_app set a b p : pend_after set (a ++ b) p = pend_after set b (pend_after set a p).
Proof. unfold pend_after. apply fold_left_app. Qed.

Definition is_index (e : ev) : bool := match e with EvIndex _ => true | _ => false end.
Lemma reads_stale_app set : forall a b p,
  reads_stale set (a ++ b) p = reads_stale set a p || reads_stale set b (pend_after set a p).
Proof.
  induction a as [|e r IH]; intros b p; simpl; [reflexivity|]. rewrite IH, orb_assoc. reflexivity.
Qed.
Lemma reads_stale_noindex set : forall log p, forallb (fun e => negb (is_index e)) log = true -> reads_stale set log p = false.
Proof.
  induction log as [|e r IH]; intros p H; simpl; [reflexivity|]. simpl in H. apply andb_true_iff in H. destruct H as [H1 H2].
  rewrite (IH _ H2). destruct e; simpl in *; try discriminate; reflexivity.
Qed.
Lemma pend_after_index set l p : pend_after set (map EvIndex l) p = p.
Proof. induction l as [|x r IH]; simpl; [reflexivity|exact IH]. Qed.
Lemma reads_stale_index set : forall l p, NoStale set p -> incl l set -> reads_stale set (map EvIndex l) p = false.
Proof.
  induction l as [|x r IH]; intros p H Hi; simpl; [reflexivity|].
  rewrite (H x (Hi x (or_introl eq_refl))). simpl. apply IH; [exact H|]. intros y Hy. apply Hi. right. exact Hy.
Qed.

(* after every server of the list accepted an empty list, none of them holds anything *)
Lemma cleared_none set (d : nat -> bool) : forall l p s,
  (forall x, In x l -> d x = true) -> (In s l \/ pget p s = None) ->
  pget (pend_after set (map (fun x => EvTrash x 0 (d x)) l) p) s = None.
Proof.
  induction l as [|x r IH]; intros p s Hd Hs; simpl.
  - destruct Hs as [[]|Hs]. exact Hs.
  - rewrite (Hd x (or_introl eq_refl)). simpl. apply IH; [intros y Hy; apply Hd; right; exact Hy|].
    destruct (Nat.eq_dec x s) as [->|N]; [right; apply pget_premove_same|].
    destruct Hs as [[E|Hs]|Hs]; [contradiction|left; exact Hs|right].
    rewrite pget_premove_other; assumption.
Qed.

Lemma clear_harmless (d : nat -> bool) l : forallb harmless (map (fun x => EvTrash x 0 (d x)) l) = true.
Proof. induction l as [|x r IH]; simpl; [reflexivity|]. rewrite IH. destruct (d x); reflexivity. Qed.
Lemma clear_noindex (d : nat -> bool) l : forallb (fun e => negb (is_index e)) (map (fun x => EvTrash x 0 (d x)) l) = true.
Proof. induction l as [|x r IH]; simpl; [reflexivity|exact IH]. Qed.
Lemma pulls_noindex (f : nat -> nat) (d : nat -> bool) l : forallb (fun e => negb (is_index e)) (map (fun x => EvPull x (f x) (d x)) l) = true.
Proof. induction l as [|x r IH]; simpl; [reflexivity|exact IH]. Qed.
Lemma trashes_noindex (f : nat -> nat) (d : nat -> bool) l : forallb (fun e => negb (is_index e)) (map (fun x => EvTrash x (f x) (d x)) l) = true.
Proof. induction l as [|x r IH]; simpl; [reflexivity|exact IH]. Qed.

(* ---------- one run ---------- *)
(* everything a run does after the clearing phase happens under one service list: no stale read, and the
   servers of the list keep holding lists computed for it *)
Lemma same_list_tail set : forall rest p, NoStale set p -> (forall s, In (EvIndex s) rest -> In s set) ->
  reads_stale set rest p = false /\ NoStale set (pend_after set rest p).
Proof.
  induction rest as [|e r IH]; intros p N Hi; simpl; [split; [reflexivity|exact N]|].
  destruct (IH (apply_ev set p e) (apply_ev_same set p e N) (fun s H => Hi s (or_intror H))) as [A B].
  rewrite A. split; [|exact B]. destruct e as [x| |]; try reflexivity.
  rewrite (N x (Hi x (or_introl eq_refl))). reflexivity.
Qed.

Lemma in_index_tail set (a b : list ev) s :
  forallb (fun e => negb (is_index e)) a = true -> forallb (fun e => negb (is_index e)) b = true ->
  In (EvIndex s) (map EvIndex set ++ a ++ b) -> In s set.
Proof.
  intros Ha Hb H. apply in_app_or in H. destruct H as [H|H].
  - apply in_map_iff in H. destruct H as (x & E & Hx). injection E as ->. exact Hx.
  - exfalso. apply in_app_or in H. rewrite forallb_forall in Ha, Hb.
    destruct H as [H|H]; [specialize (Ha _ H)|specialize (Hb _ H)]; discriminate.
Qed.

Lemma existsb_false_all (f : nat -> bool) l : existsb f l = false -> forall x, In x l -> negb (f x) = true.
Proof.
  intros H x Hx. destruct (f x) eqn:F; [|reflexivity].
  assert (existsb f l = true) by (apply existsb_exists; exists x; auto). congruence.
Qed.

(* shape of a committing run: either it stops before or inside the clearing phase (only empty lists were sent, no
   index was read, SafeRendezvousState is unchanged), or every server of the list accepted its empty list (if
   clearing was due), SafeRendezvousState is the current list, and all further requests belong to this list *)
Lemma run_shape cp safe i :
  let safe0 := if i_restart i then None else safe in
  let set := i_set i in
  let '(evs, ok, safe') := run_model cp true safe i in
  (forallb harmless evs = true /\ forallb (fun e => negb (is_index e)) evs = true /\ safe' = safe0) \/
  (exists d rest,
      evs = (if negb (same_set safe0 set) then map (fun s => EvTrash s 0 (d s)) set else []) ++ rest /\
      (negb (same_set safe0 set) = true -> forall x, In x set -> d x = true) /\
      (forall s, In (EvIndex s) rest -> In s set) /\ safe' = Some set /\
      (negb (same_set safe0 set) = false -> safe0 = Some set)).
Proof.
  intros safe0 set. unfold run_model. fold safe0. fold set. simpl andb.
  assert (Same : negb (same_set safe0 set) = false -> safe0 = Some set).
  { intros H. apply negb_false_iff in H. unfold same_set in H. destruct safe0 as [a|]; [|discriminate].
    apply list_nat_eqb_eq in H. subst. reflexivity. }
  assert (S1 : (if negb (same_set safe0 set) then Some set else safe0) = Some set).
  { destruct (negb (same_set safe0 set)) eqn:E; [reflexivity|auto]. }
  set (fp := classify (i_fail i)).
  set (d := fun s => negb (is_fclear fp s)).
  set (pulls := if cp then map (fun s => EvPull s (snd (plan_of (i_plan i) s)) (negb (is_fpull fp s))) set else []).
  set (trashes := map (fun s => EvTrash s (fst (plan_of (i_plan i) s)) (negb (is_ftrash fp s))) set).
  assert (Pn : forallb (fun e => negb (is_index e)) pulls = true) by (unfold pulls; destruct cp; [apply pulls_noindex|reflexivity]).
  assert (Tn : forallb (fun e => negb (is_index e)) trashes = true) by apply trashes_noindex.
  assert (Right : forall rest, (negb (same_set safe0 set) && existsb (is_fclear fp) set) = false ->
            (forall s, In (EvIndex s) rest -> In s set) ->
            let evs := (if negb (same_set safe0 set) then map (fun s => EvTrash s 0 (d s)) set else []) ++ rest in
            (forallb harmless evs = true /\ forallb (fun e => negb (is_index e)) evs = true /\ Some set = safe0) \/
            (exists d0 rest0,
               evs = (if negb (same_set safe0 set) then map (fun s => EvTrash s 0 (d0 s)) set else []) ++ rest0 /\
               (negb (same_set safe0 set) = true -> forall x, In x set -> d0 x = true) /\
               (forall s, In (EvIndex s) rest0 -> In s set) /\ Some set = Some set /\
               (negb (same_set safe0 set) = false -> safe0 = Some set))).
  { intros rest Hc Hi. right. exists d, rest. split; [reflexivity|]. split; [|auto].
    intros Hn x Hx. rewrite Hn in Hc. simpl in Hc. unfold d. apply (existsb_false_all _ _ Hc x Hx). }
  assert (Left : (forallb harmless (if negb (same_set safe0 set) then map (fun s => EvTrash s 0 (d s)) set else []) = true /\
                  forallb (fun e => negb (is_index e)) (if negb (same_set safe0 set) then map (fun s => EvTrash s 0 (d s)) set else []) = true)).
  { destruct (negb (same_set safe0 set)); [split; [apply clear_harmless|apply clear_noindex]|split; reflexivity]. }
  destruct fp eqn:Efp.
  - (* no failure *)
    replace (negb (same_set safe0 set) && existsb (is_fclear FNone) set) with false
      by (symmetry; rewrite andb_false_iff; right; clear; induction set; simpl; auto).
    replace (cp && existsb (is_fpull FNone) set) with false
      by (symmetry; rewrite andb_false_iff; right; clear; induction set; simpl; auto).
    rewrite S1. fold d. fold pulls. fold trashes.
    apply (Right (map EvIndex set ++ pulls ++ trashes)).
    + rewrite andb_false_iff; right; clear; induction set; simpl; auto.
    + intros s. apply in_index_tail; assumption.
  - (* FEarly *) left. auto.
  - (* FClear *)
    fold d. destruct (negb (same_set safe0 set) && existsb (is_fclear (FClear s)) set) eqn:Hc.
    + left. destruct Left as [A B]. auto.
    + replace (cp && existsb (is_fpull (FClear s)) set) with false
        by (symmetry; rewrite andb_false_iff; right; clear; induction set; simpl; auto).
      rewrite S1. fold pulls. fold trashes.
      apply (Right (map EvIndex set ++ pulls ++ trashes) eq_refl). intros x. apply in_index_tail; assumption.
  - (* FMid *)
    replace (negb (same_set safe0 set) && existsb (is_fclear FMid) set) with false
      by (symmetry; rewrite andb_false_iff; right; clear; induction set; simpl; auto).
    rewrite S1. fold d.
    apply (Right (map EvIndex set)).
    + rewrite andb_false_iff; right; clear; induction set; simpl; auto.
    + intros x H. apply in_map_iff in H. destruct H as (y & E & Hy). injection E as ->. exact Hy.
  - (* FPull *)
    replace (negb (same_set safe0 set) && existsb (is_fclear (FPull s)) set) with false
      by (symmetry; rewrite andb_false_iff; right; clear; induction set; simpl; auto).
    rewrite S1. fold d. fold pulls. fold trashes.
    assert (Hc : negb (same_set safe0 set) && existsb (is_fclear (FPull s)) set = false)
      by (rewrite andb_false_iff; right; clear; induction set; simpl; auto).
    destruct (cp && existsb (is_fpull (FPull s)) set).
    + apply (Right (map EvIndex set ++ pulls) Hc). intros x H.
      apply (in_index_tail set pulls [] x Pn eq_refl). rewrite app_nil_r. exact H.
    + apply (Right (map EvIndex set ++ pulls ++ trashes) Hc). intros x. apply in_index_tail; assumption.
  - (* FTrash *)
    replace (negb (same_set safe0 set) && existsb (is_fclear (FTrash s)) set) with false
      by (symmetry; rewrite andb_false_iff; right; clear; induction set; simpl; auto).
    replace (cp && existsb (is_fpull (FTrash s)) set) with false
      by (symmetry; rewrite andb_false_iff; right; clear; induction set; simpl; auto).
    rewrite S1. fold d. fold pulls. fold trashes.
    apply (Right (map EvIndex set ++ pulls ++ trashes)).
    + rewrite andb_false_iff; right; clear; induction set; simpl; auto.
    + intros x. apply in_index_tail; assumption.
Qed.

(* a committing run reads no index from a server holding a stale list, and hands the invariant on *)
Lemma run_step cp safe i p : Inv safe p ->
  let '(evs, ok, safe') := run_model cp true safe i in
  reads_stale (i_set i) evs p = false /\ Inv safe' (pend_after (i_set i) evs p).
Proof.
  intros HI. pose proof (run_shape cp safe i) as Sh. simpl in Sh.
  assert (H0 : Inv (if i_restart i then None else safe) p) by (destruct (i_restart i); [exact I|exact HI]).
  destruct (run_model cp true safe i) as [[evs ok] safe'].
  destruct Sh as [(A & B & ->)|(d & rest & -> & Hd & Hi & -> & Hs)].
  - split; [apply reads_stale_noindex; exact B|apply inv_harmless; assumption].
  - set (set := i_set i) in *. set (safe0 := if i_restart i then None else safe) in *.
    set (cl := if negb (same_set safe0 set) then map (fun s => EvTrash s 0 (d s)) set else []).
    assert (N : NoStale set (pend_after set cl p)).
    { unfold cl. destruct (negb (same_set safe0 set)) eqn:E.
      - intros s Hs'. unfold stale. rewrite cleared_none; [reflexivity|apply Hd; reflexivity|left; exact Hs'].
      - simpl. rewrite (Hs eq_refl) in H0. exact H0. }
    assert (Cn : forallb (fun e => negb (is_index e)) cl = true)
      by (unfold cl; destruct (negb (same_set safe0 set)); [apply clear_noindex|reflexivity]).
    destruct (same_list_tail set rest _ N Hi) as [R1 R2].
    rewrite reads_stale_app, pend_after_app, (reads_stale_noindex _ _ _ Cn), R1. split; [reflexivity|exact R2].
Qed.

(* ---------- every sequence of runs ---------- *)
Definition logs (m : list (list nat * list ev * bool)) : list (list nat * list ev) :=
  map (fun x => (fst (fst x), snd (fst x))) m.

Lemma seq_stale_free cp : forall ins safe p, Inv safe p ->
  stale_free true (logs (seq_model cp true safe ins)) p = true.
Proof.
  induction ins as [|i r IH]; intros safe p HI; simpl; [reflexivity|].
  pose proof (run_step cp safe i p HI) as S.
  destruct (run_model cp true safe i) as [[evs ok] safe'] eqn:E. destruct S as [S1 S2].
  simpl. rewrite S1. simpl. apply IH. exact S2.
Qed.

(* for every CommitPulls / CommitTrash setting, every sequence of service lists, restarts, failing requests and
   computed lists, and whatever trash lists the keepstores held before the process started *)
Theorem model_stale_free cp ct ins p0 :
  StaleFree ct (logs (seq_model cp ct None ins)) p0.
Proof.
  apply stale_free_reflects. destruct ct; [apply seq_stale_free; exact I|].
  generalize (@None (list nat)) as safe. revert p0.
  induction ins as [|i r IH]; intros p0 safe; simpl; [reflexivity|].
  destruct (run_model cp false safe i) as [[evs ok] safe']. simpl. apply IH.
Qed.

(* the same with SafeRendezvousState marked before the clearing lists were accepted: refuted *)
Definition run_model_early (cp ct : bool) (safe : option (list nat)) (i : run_in) : list ev * bool * option (list nat) :=
  let '(evs, ok, safe') := run_model cp ct safe i in
  let safe0 := if i_restart i then None else safe in
  match classify (i_fail i) with
  | FEarly => (evs, ok, safe')
  | _ => (evs, ok, if ct && negb (same_set safe0 (i_set i)) then Some (i_set i) else safe')
  end.
Fixpoint seq_model_early (cp ct : bool) (safe : option (list nat)) (ins : list run_in) : list (list nat * list ev * bool) :=
  match ins with
  | [] => []
  | i :: r => let '(evs, ok, safe') := run_model_early cp ct safe i in (i_set i, evs, ok) :: seq_model_early cp ct safe' r
  end.
(* services {0,1}: server 1 is sent a trash list; the list changes to {1,2}; clearing fails on server 1; the next run
   reads server 1's index while it still holds the list computed for {0,1} *)
Definition w_early : list run_in :=
  [ {| i_restart := false; i_set := [0; 1]; i_fail := None; i_plan := [(1, (1, 0))] |};
    {| i_restart := false; i_set := [1; 2]; i_fail := Some (QClearTrash 1); i_plan := [] |};
    {| i_restart := false; i_set := [1; 2]; i_fail := None; i_plan := [(2, (1, 0))] |} ].
Lemma early_marking_refuted :
  stale_free true (logs (seq_model_early true true None w_early)) [] = false /\
  stale_free true (logs (seq_model true true None w_early)) [] = true.
Proof. vm_compute. split; reflexivity. Qed.
