(* Keep client service discovery (model/KC_discover.v): what loadKeepServers installs, for every list. *)
From Coq Require Import Arith NArith List Ascii String Bool Lia.
From AV Require Import lib.Str model.KC_discover.
Import ListNotations.
Local Open Scope string_scope.
Local Open Scope list_scope.

(* ------------------------------------------------------------------ association lists *)
Lemma mset_fresh m k v : ~ In k (mkeys m) -> mset m k v = m ++ [(k, v)].
Proof.
  induction m as [|[k' v'] m IH]; cbn [mset mkeys map fst In app]; [reflexivity|].
  intros Hn. destruct (String.eqb_spec k' k) as [E|E]; [exfalso; apply Hn; left; exact E|].
  rewrite IH; [reflexivity|]. intros X. apply Hn. right. exact X.
Qed.

Lemma mkeys_app a b : mkeys (a ++ b) = mkeys a ++ mkeys b.
Proof. unfold mkeys. apply map_app. Qed.

(* inserting the entries of services with pairwise distinct, fresh uuids appends them in order *)
Lemma fold_mset_fresh (p : dsvc -> bool) ks : forall m0,
  NoDup (map d_uuid ks) -> (forall s, In s ks -> ~ In (d_uuid s) (mkeys m0)) ->
  fold_left (fun m s => if p s then mset m (d_uuid s) (d_url s) else m) ks m0 = m0 ++ map root_entry (filter p ks).
Proof.
  induction ks as [|s ks IH]; intros m0 Hnd Hfresh; cbn [fold_left filter map].
  - rewrite app_nil_r. reflexivity.
  - cbn [map] in Hnd. inversion Hnd as [|? ? Hs Hnd']; subst.
    destruct (p s) eqn:Ep.
    + rewrite mset_fresh by (apply Hfresh; left; reflexivity).
      rewrite IH; [cbn [map]; rewrite <- app_assoc; reflexivity|exact Hnd'|].
      intros t Ht. rewrite mkeys_app. cbn [mkeys map fst]. intros X. apply in_app_or in X. destruct X as [X|[X|[]]].
      * apply (Hfresh t (or_intror Ht)). exact X.
      * apply Hs. rewrite X. apply in_map. exact Ht.
    + apply IH; [exact Hnd'|]. intros t Ht. apply Hfresh. right. exact Ht.
Qed.

Lemma filter_true {A} (l : list A) : filter (fun _ => true) l = l.
Proof. induction l as [|x l IH]; cbn [filter]; [reflexivity|]. f_equal. exact IH. Qed.

Lemma fold_mset_fresh_all ks m0 :
  NoDup (map d_uuid ks) -> (forall s, In s ks -> ~ In (d_uuid s) (mkeys m0)) ->
  fold_left (fun m s => mset m (d_uuid s) (d_url s)) ks m0 = m0 ++ map root_entry ks.
Proof.
  intros Hnd Hf. pose proof (fold_mset_fresh (fun _ => true) ks m0 Hnd Hf) as X. cbn beta in X.
  rewrite filter_true in X. exact X.
Qed.

(* ------------------------------------------------------------------ the loop *)
(* the part of an iteration that touches the maps, for an item that is not skipped *)
Definition ins_roots (r : roots) (s : dsvc) : roots :=
  {| r_local := mset (r_local r) (d_uuid s) (d_url s);
     r_writable := if d_ro s then r_writable r else mset (r_writable r) (d_uuid s) (d_url s);
     r_gateway := mset (r_gateway r) (d_uuid s) (d_url s);
     r_rps := if negb (d_ro s) && negb (is_disk s) then 0 else r_rps r |}.

Lemma loop_is_fold_over_kept l : forall a,
  a_roots (fold_left load_step l a) = fold_left ins_roots (kept_from (a_listed a) l) (a_roots a).
Proof.
  induction l as [|s l IH]; intros a; cbn [fold_left kept_from]; [reflexivity|].
  unfold load_step at 2. destruct (existsb (String.eqb (d_url s)) (a_listed a)) eqn:E.
  - apply IH.
  - rewrite IH. cbn [a_listed a_roots fold_left]. reflexivity.
Qed.

Lemma fold_ins_local ks : forall r,
  r_local (fold_left ins_roots ks r) = fold_left (fun m s => mset m (d_uuid s) (d_url s)) ks (r_local r).
Proof. induction ks as [|s ks IH]; intros r; cbn [fold_left]; [reflexivity|]. rewrite IH. reflexivity. Qed.
Lemma fold_ins_gateway ks : forall r,
  r_gateway (fold_left ins_roots ks r) = fold_left (fun m s => mset m (d_uuid s) (d_url s)) ks (r_gateway r).
Proof. induction ks as [|s ks IH]; intros r; cbn [fold_left]; [reflexivity|]. rewrite IH. reflexivity. Qed.
Lemma fold_ins_writable ks : forall r,
  r_writable (fold_left ins_roots ks r) = fold_left (fun m s => if writable_svc s then mset m (d_uuid s) (d_url s) else m) ks (r_writable r).
Proof.
  induction ks as [|s ks IH]; intros r; cbn [fold_left]; [reflexivity|]. rewrite IH. cbn [ins_roots r_writable].
  unfold writable_svc. destruct (d_ro s); reflexivity.
Qed.
Lemma fold_ins_rps ks : forall r,
  r_rps (fold_left ins_roots ks r) = if forallb (fun s => d_ro s || is_disk s) ks then r_rps r else 0.
Proof.
  induction ks as [|s ks IH]; intros r; cbn [fold_left forallb]; [reflexivity|]. rewrite IH. cbn [ins_roots r_rps].
  destruct (d_ro s), (is_disk s); cbn [negb andb orb]; try reflexivity. destruct (forallb _ ks); reflexivity.
Qed.

(* ------------------------------------------------------------------ "skip duplicates" *)
Lemma kept_from_in listed l s : In s (kept_from listed l) -> In s l.
Proof.
  revert listed. induction l as [|x l IH]; intros listed; cbn [kept_from]; [tauto|].
  destruct (existsb (String.eqb (d_url x)) listed).
  - intros H. right. eapply IH. exact H.
  - intros [H|H]; [left; exact H|right; eapply IH; exact H].
Qed.

Lemma kept_from_nodup (f : dsvc -> string) listed l : NoDup (map f l) -> NoDup (map f (kept_from listed l)).
Proof.
  revert listed. induction l as [|x l IH]; intros listed Hnd; cbn [kept_from map]; [constructor|].
  cbn [map] in Hnd. inversion Hnd as [|? ? Hx Hnd']; subst.
  destruct (existsb (String.eqb (d_url x)) listed); [apply IH; exact Hnd'|].
  cbn [map]. constructor; [|apply IH; exact Hnd'].
  intros X. apply Hx. apply in_map_iff in X. destruct X as (t & Et & Ht). apply in_map_iff. exists t.
  split; [exact Et|eapply kept_from_in; exact Ht].
Qed.

Lemma existsb_eqb_in x l : existsb (String.eqb x) l = true <-> In x l.
Proof.
  rewrite existsb_exists. split.
  - intros (y & Hy & E). apply String.eqb_eq in E. subst. exact Hy.
  - intros H. exists x. split; [exact H|apply String.eqb_refl].
Qed.

(* an item survives iff no earlier item (and nothing listed before) has its URL: the first item per URL *)
Lemma kept_from_first listed l s :
  In s (kept_from listed l) <->
  exists pre post, l = pre ++ s :: post /\ ~ In (d_url s) listed /\ (forall t, In t pre -> d_url t <> d_url s).
Proof.
  revert listed. induction l as [|x l IH]; intros listed; cbn [kept_from].
  - split; [intros []|]. intros (pre & post & E & _). destruct pre; discriminate.
  - destruct (existsb (String.eqb (d_url x)) listed) eqn:Ex.
    + apply existsb_eqb_in in Ex. rewrite IH. split.
      * intros (pre & post & -> & Hl & Hp). exists (x :: pre), post. split; [reflexivity|]. split; [exact Hl|].
        intros t [<-|Ht]; [intros E; apply Hl; rewrite <- E; exact Ex|apply Hp; exact Ht].
      * intros (pre & post & E & Hl & Hp). destruct pre as [|y pre]; cbn [app] in E.
        -- injection E as -> _. contradiction.
        -- injection E as <- ->. exists pre, post. split; [reflexivity|]. split; [exact Hl|]. intros t Ht. apply Hp. right. exact Ht.
    + assert (Hx : ~ In (d_url x) listed) by (intros X; apply existsb_eqb_in in X; congruence).
      cbn [In]. rewrite IH. split.
      * intros [<-|(pre & post & -> & Hl & Hp)].
        -- exists [], l. split; [reflexivity|]. split; [exact Hx|]. intros t [].
        -- exists (x :: pre), post. split; [reflexivity|]. split; [intros X; apply Hl; right; exact X|].
           intros t [<-|Ht]; [intros E; apply Hl; left; exact E|apply Hp; exact Ht].
      * intros (pre & post & E & Hl & Hp). destruct pre as [|y pre]; cbn [app] in E.
        -- injection E as -> _. left. reflexivity.
        -- injection E as <- ->. right. exists pre, post. split; [reflexivity|]. split.
           ++ intros [X|X]; [apply (Hp x (or_introl eq_refl)); exact X|apply Hl; exact X].
           ++ intros t Ht. apply Hp. right. exact Ht.
Qed.

Theorem kept_is_first_per_url l s :
  In s (kept l) <-> exists pre post, l = pre ++ s :: post /\ (forall t, In t pre -> d_url t <> d_url s).
Proof.
  unfold kept. rewrite kept_from_first. split.
  - intros (pre & post & E & _ & Hp). exists pre, post. auto.
  - intros (pre & post & E & Hp). exists pre, post. split; [exact E|]. split; [intros []|exact Hp].
Qed.

(* ------------------------------------------------------------------ what one load installs *)
Lemma load_roots_fold l : load_roots l = fold_left ins_roots (kept l) empty_roots.
Proof. unfold load_roots, load_keep_servers. cbn [k_roots]. rewrite loop_is_fold_over_kept. reflexivity. Qed.

Theorem load_roots_maps l : NoDup (map d_uuid l) ->
  r_local (load_roots l) = map root_entry (kept l) /\
  r_writable (load_roots l) = map root_entry (filter writable_svc (kept l)) /\
  r_gateway (load_roots l) = map root_entry (kept l).
Proof.
  intros Hnd. pose proof (kept_from_nodup d_uuid [] l Hnd) as Hk. fold (kept l) in Hk.
  rewrite load_roots_fold, fold_ins_local, fold_ins_writable, fold_ins_gateway. cbn [empty_roots r_local r_writable r_gateway].
  rewrite !fold_mset_fresh by (try exact Hk; intros s _ []). cbn [app].
  rewrite !fold_mset_fresh_all by (try exact Hk; intros s _ []). cbn [app]. auto.
Qed.

Theorem load_roots_rps l :
  r_rps (load_roots l) = if forallb (fun s => d_ro s || is_disk s) (kept l) then 1 else 0.
Proof. rewrite load_roots_fold, fold_ins_rps. reflexivity. Qed.

(* every load replaces what was there: the maps in force depend on the last list only *)
Lemma load_roots_independent st l : k_roots (load_keep_servers st l) = load_roots l.
Proof. unfold load_roots, load_keep_servers. cbn [k_roots]. rewrite !loop_is_fold_over_kept. reflexivity. Qed.

Theorem load_history_irrelevant st ls l : k_roots (load_all st (ls ++ [l])) = load_roots l.
Proof. unfold load_all. rewrite fold_left_app. cbn [fold_left]. apply load_roots_independent. Qed.

Theorem load_all_current st ls : ls <> [] -> k_roots (load_all st ls) = load_roots (current_list ls).
Proof.
  intros Hne. destruct (exists_last Hne) as (ls' & l & ->). rewrite load_history_irrelevant.
  unfold current_list. rewrite last_last. reflexivity.
Qed.

(* ------------------------------------------------------------------ the Prop-level specification *)
Record RootsSpec (l : list dsvc) (local writable gateway : smap) : Prop := {
  rs_local : forall p, In p local <-> exists s, In s (kept l) /\ p = root_entry s;
  rs_writable : forall p, In p writable <-> exists s, In s (kept l) /\ d_ro s = false /\ p = root_entry s;
  rs_gateway_has : forall s, In s (kept l) -> In (root_entry s) gateway;
  rs_gateway_listed : forall p, In p gateway -> exists s, In s l /\ p = root_entry s
}.

Lemma pair_eqb_eq a b : pair_eqb a b = true <-> a = b.
Proof.
  destruct a as [a1 a2], b as [b1 b2]. unfold pair_eqb. cbn [fst snd]. rewrite andb_true_iff, !String.eqb_eq.
  split; [intros [-> ->]; reflexivity|intros [= -> ->]; auto].
Qed.

Lemma subset_b_incl a b : subset_b a b = true <-> incl a b.
Proof.
  unfold subset_b, incl. rewrite forallb_forall. split; intros H p Hp.
  - specialize (H p Hp). apply existsb_exists in H. destruct H as (q & Hq & E). apply pair_eqb_eq in E. subst. exact Hq.
  - apply existsb_exists. exists p. split; [apply H; exact Hp|apply pair_eqb_eq; reflexivity].
Qed.

Lemma same_pairs_iff a b : same_pairs_b a b = true <-> (forall p, In p a <-> In p b).
Proof.
  unfold same_pairs_b. rewrite andb_true_iff, !subset_b_incl. unfold incl. split.
  - intros [A B] p. split; [apply A|apply B].
  - intros H. split; intros p; apply H.
Qed.

Lemma nodup_b_iff l : nodup_b l = true <-> NoDup l.
Proof.
  induction l as [|x l IH]; cbn [nodup_b]; [split; [constructor|reflexivity]|].
  rewrite andb_true_iff, negb_true_iff, IH. split.
  - intros [A B]. constructor; [|exact B]. intros X. apply existsb_eqb_in in X. congruence.
  - intros H. inversion H as [|? ? Hx Hl]; subst. split; [|exact Hl].
    destruct (existsb (String.eqb x) l) eqn:E; [|reflexivity]. apply existsb_eqb_in in E. contradiction.
Qed.

Lemma in_map_entry (ks : list dsvc) p : In p (map root_entry ks) <-> exists s, In s ks /\ p = root_entry s.
Proof. rewrite in_map_iff. split; intros (s & A & B); exists s; [split; [exact B|symmetry; exact A]|split; [symmetry; exact B|exact A]]. Qed.

Theorem roots_spec_b_reflects l local writable gateway :
  roots_spec_b l local writable gateway = true <-> (NoDup (map d_uuid l) -> RootsSpec l local writable gateway).
Proof.
  unfold roots_spec_b, uuids_distinct_b. rewrite orb_true_iff, negb_true_iff, !andb_true_iff, !same_pairs_iff, !subset_b_incl.
  split.
  - intros [Hn|[[[A B] C] Dd]] Hnd.
    + apply nodup_b_iff in Hnd. congruence.
    + constructor.
      * intros p. rewrite A. apply in_map_entry.
      * intros p. rewrite B, in_map_entry. split.
        -- intros (s & Hs & E). apply filter_In in Hs. destruct Hs as [Hs Hw]. exists s. unfold writable_svc in Hw.
           apply negb_true_iff in Hw. auto.
        -- intros (s & Hs & Hr & E). exists s. split; [|exact E]. apply filter_In. split; [exact Hs|]. unfold writable_svc. rewrite Hr. reflexivity.
      * intros s Hs. apply C. apply in_map. exact Hs.
      * intros p Hp. apply in_map_entry. apply Dd. exact Hp.
  - intros H. destruct (nodup_b (map d_uuid l)) eqn:En; [|left; reflexivity]. right.
    apply nodup_b_iff in En. destruct (H En) as [A B C Dd]. split; [split; [split|]|].
    + intros p. rewrite A. symmetry. apply in_map_entry.
    + intros p. rewrite B, in_map_entry. split.
      * intros (s & Hs & Hr & E). exists s. split; [|exact E]. apply filter_In. split; [exact Hs|]. unfold writable_svc. rewrite Hr. reflexivity.
      * intros (s & Hs & E). apply filter_In in Hs. destruct Hs as [Hs Hw]. exists s. unfold writable_svc in Hw.
        apply negb_true_iff in Hw. auto.
    + intros p Hp. apply in_map_entry in Hp. destruct Hp as (s & Hs & ->). apply C. exact Hs.
    + intros p Hp. apply in_map_entry. apply Dd. exact Hp.
Qed.

(* the model's maps satisfy the specification, for every list with distinct uuids *)
Theorem load_meets_RootsSpec l : NoDup (map d_uuid l) ->
  RootsSpec l (r_local (load_roots l)) (r_writable (load_roots l)) (r_gateway (load_roots l)).
Proof.
  intros Hnd. destruct (load_roots_maps l Hnd) as (-> & -> & ->). constructor.
  - intros p. apply in_map_entry.
  - intros p. rewrite in_map_entry. split.
    + intros (s & Hs & E). apply filter_In in Hs. destruct Hs as [Hs Hw]. exists s. unfold writable_svc in Hw.
      apply negb_true_iff in Hw. auto.
    + intros (s & Hs & Hr & E). exists s. split; [|exact E]. apply filter_In. split; [exact Hs|]. unfold writable_svc. rewrite Hr. reflexivity.
  - intros s Hs. apply in_map. exact Hs.
  - intros p Hp. apply in_map_entry in Hp. destruct Hp as (s & Hs & ->). exists s. split; [|reflexivity]. eapply kept_from_in. exact Hs.
Qed.

Theorem load_meets_roots_spec_b l :
  roots_spec_b l (r_local (load_roots l)) (r_writable (load_roots l)) (r_gateway (load_roots l)) = true.
Proof. apply roots_spec_b_reflects. apply load_meets_RootsSpec. Qed.

(* ... after any history of earlier lists *)
Theorem load_all_meets_roots_spec_b st ls : ls <> [] ->
  let r := k_roots (load_all st ls) in
  roots_spec_b (current_list ls) (r_local r) (r_writable r) (r_gateway r) = true.
Proof. intros Hne. cbn zeta. rewrite load_all_current by exact Hne. apply load_meets_roots_spec_b. Qed.

(* spelled out: with distinct uuids, the writable roots are exactly the listed services that are not read-only (of
   whatever service type), every listed service is a gateway root under its uuid, and replicasPerService is 1
   exactly when every writable listed service is a disk *)
Theorem writable_roots_exactly l : NoDup (map d_uuid l) ->
  forall u r, In (u, r) (r_writable (load_roots l)) <->
              exists s, In s (kept l) /\ d_ro s = false /\ d_uuid s = u /\ d_url s = r.
Proof.
  intros Hnd u r. rewrite (rs_writable _ _ _ _ (load_meets_RootsSpec l Hnd)). unfold root_entry. split.
  - intros (s & Hs & Hr & [= -> ->]). exists s. auto.
  - intros (s & Hs & Hr & <- & <-). exists s. auto.
Qed.

Lemma mget_in_nodup m k v : NoDup (mkeys m) -> In (k, v) m -> mget m k = Some v.
Proof.
  induction m as [|[k' v'] m IH]; cbn [mkeys map fst mget In]; [intros _ []|].
  intros Hnd [E|Hin].
  - injection E as -> ->. rewrite String.eqb_refl. reflexivity.
  - inversion Hnd as [|? ? Hk Hnd']; subst. destruct (String.eqb_spec k' k) as [->|Hne].
    + exfalso. apply Hk. change (In (fst (k, v)) (map fst m)). apply in_map. exact Hin.
    + apply IH; assumption.
Qed.

Theorem gateway_has_every_listed l : NoDup (map d_uuid l) ->
  forall s, In s (kept l) -> mget (r_gateway (load_roots l)) (d_uuid s) = Some (d_url s).
Proof.
  intros Hnd s Hs. destruct (load_roots_maps l Hnd) as (_ & _ & ->).
  apply mget_in_nodup; [|change (In (root_entry s) (map root_entry (kept l))); apply in_map; exact Hs].
  unfold mkeys. rewrite map_map. cbn [root_entry fst]. apply (kept_from_nodup d_uuid [] l Hnd).
Qed.

(* RootsSpec written out as a conjunction (for the statements in props/) *)
Lemma RootsSpec_written_out l local writable gateway :
  RootsSpec l local writable gateway <->
  ((forall p, In p local <-> exists s, In s (kept l) /\ p = root_entry s) /\
   (forall p, In p writable <-> exists s, In s (kept l) /\ d_ro s = false /\ p = root_entry s) /\
   (forall s, In s (kept l) -> In (root_entry s) gateway) /\
   (forall p, In p gateway -> exists s, In s l /\ p = root_entry s)).
Proof. split; [intros [A B C Dd]; auto|intros (A & B & C & Dd); constructor; assumption]. Qed.

Theorem roots_spec_b_written_out l local writable gateway :
  roots_spec_b l local writable gateway = true <->
  (NoDup (map d_uuid l) ->
   (forall p, In p local <-> exists s, In s (kept l) /\ p = root_entry s) /\
   (forall p, In p writable <-> exists s, In s (kept l) /\ d_ro s = false /\ p = root_entry s) /\
   (forall s, In s (kept l) -> In (root_entry s) gateway) /\
   (forall p, In p gateway -> exists s, In s l /\ p = root_entry s)).
Proof.
  rewrite roots_spec_b_reflects. split; intros H Hnd; apply RootsSpec_written_out; apply H; exact Hnd.
Qed.
