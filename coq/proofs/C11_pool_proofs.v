(* C11 — the shared HTTP client pool (model/C11_pool.v): whatever KeepClients used the pool before, a KeepClient
   is handed a client built for its own configuration; slow answers inside that client's timeout count. *)
From Coq Require Import Arith NArith List Ascii String Bool Lia.
From AV Require Import lib.Str model.KC_discover model.C11_model model.C11_run model.C11_pool
  proofs.KC_discover_proofs proofs.C11_proofs proofs.C11_spec.
Import ListNotations.

(* ------------------------------------------------------------------ foundNonDiskSvc is sticky *)
Lemma loop_nondisk l : forall a,
  a_nondisk (fold_left load_step l a) =
  a_nondisk a || existsb (fun s => negb (is_disk s)) (kept_from (a_listed a) l).
Proof.
  induction l as [|s l IH]; intros a; cbn [fold_left kept_from existsb]; [rewrite orb_false_r; reflexivity|].
  unfold load_step at 2. destruct (existsb (String.eqb (d_url s)) (a_listed a)) eqn:E.
  - apply IH.
  - rewrite IH. cbn [a_listed a_nondisk existsb]. rewrite orb_assoc. reflexivity.
Qed.

Lemma load_nondisk st l : k_nondisk (load_keep_servers st l) = k_nondisk st || has_nondisk l.
Proof. unfold load_keep_servers, has_nondisk, kept. cbn [k_nondisk]. rewrite loop_nondisk. reflexivity. Qed.

Theorem nondisk_sticky ls : forall st, k_nondisk (load_all st ls) = k_nondisk st || existsb has_nondisk ls.
Proof.
  induction ls as [|l ls IH]; intros st; cbn [load_all fold_left existsb]; [rewrite orb_false_r; reflexivity|].
  fold (load_all (load_keep_servers st l) ls). rewrite IH, load_nondisk, orb_assoc. reflexivity.
Qed.

Lemma use_nondisk_spec u : use_nondisk u = existsb has_nondisk (u_lists u).
Proof. unfold use_nondisk. rewrite nondisk_sticky. reflexivity. Qed.

Lemma current_nondisk_ever ls : has_nondisk (current_list ls) = true -> existsb has_nondisk ls = true.
Proof.
  unfold current_list. induction ls as [|l ls IH]; cbn [last existsb]; [intros X; discriminate|].
  destruct ls as [|l2 ls'].
  - intros ->. reflexivity.
  - intros X. rewrite (IH X). apply orb_true_r.
Qed.

(* ------------------------------------------------------------------ the pool *)
(* every entry was built for the key it is filed under *)
Definition PoolOk (d : defaults) (p : pool) : Prop :=
  forall a b c, pool_get p a b = Some c -> c = mk_client d a b.

Lemma pool_ok_nil d : PoolOk d [].
Proof. intros a b c X. discriminate. Qed.

Lemma http_client_ok d p a b : PoolOk d p ->
  fst (http_client d p a b) = mk_client d a b /\ PoolOk d (snd (http_client d p a b)).
Proof.
  intros Hp. unfold http_client. destruct (pool_get p a b) as [c|] eqn:E; cbn [fst snd].
  - split; [apply Hp; exact E|exact Hp].
  - split; [reflexivity|]. intros a' b' c' X. cbn [pool_get] in X.
    destruct (Bool.eqb a a' && Bool.eqb b b') eqn:Ek.
    + apply andb_true_iff in Ek. destruct Ek as [Ea Eb]. apply eqb_prop in Ea. apply eqb_prop in Eb. subst. congruence.
    + apply Hp. exact X.
Qed.

(* whatever the earlier KeepClients of the process were, each one gets the client of its own configuration *)
Theorem run_uses_own_config d us : forall p, PoolOk d p ->
  run_uses d p us = map (fun u => mk_client d (u_insecure u) (use_nondisk u)) us.
Proof.
  induction us as [|u us IH]; intros p Hp; cbn [run_uses map]; [reflexivity|].
  destruct (http_client_ok d p (u_insecure u) (use_nondisk u) Hp) as [A B].
  destruct (http_client d p (u_insecure u) (use_nondisk u)) as [c p'] eqn:E. cbn [fst snd] in A, B.
  rewrite A, (IH p' B). reflexivity.
Qed.

(* ------------------------------------------------------------------ the specification *)
Definition UseOk (d : defaults) (u : kuse) (c : hcfg) : Prop :=
  h_insecure c = u_insecure u /\
  (has_nondisk (current_list (u_lists u)) = true -> c = mk_client d (u_insecure u) true) /\
  (existsb has_nondisk (u_lists u) = false -> c = mk_client d (u_insecure u) false) /\
  (c = mk_client d (u_insecure u) true \/ c = mk_client d (u_insecure u) false).

Lemma cfg_eqb_eq a b : cfg_eqb a b = true <-> a = b.
Proof.
  destruct a as [t1 l1 i1], b as [t2 l2 i2]. unfold cfg_eqb. cbn [h_timeout h_tls_timeout h_insecure].
  rewrite !andb_true_iff, !N.eqb_eq, eqb_true_iff. split; [intros [[-> ->] ->]; reflexivity|intros [= -> -> ->]; auto].
Qed.

Theorem use_ok_b_reflects d u c : use_ok_b d u c = true <-> UseOk d u c.
Proof.
  unfold use_ok_b, UseOk. rewrite andb_true_iff, eqb_true_iff.
  destruct (has_nondisk (current_list (u_lists u))) eqn:Ec.
  - rewrite (current_nondisk_ever _ Ec), cfg_eqb_eq. split.
    + intros [A B]. split; [exact A|]. split; [intros _; exact B|]. split; [intros X; discriminate|left; exact B].
    + intros (A & B & _ & _). split; [exact A|apply B; reflexivity].
  - destruct (existsb has_nondisk (u_lists u)) eqn:Ee.
    + rewrite orb_true_iff, !cfg_eqb_eq. split.
      * intros [A B]. split; [exact A|]. split; [intros X; discriminate|]. split; [intros X; discriminate|exact B].
      * intros (A & _ & _ & B). split; assumption.
    + rewrite cfg_eqb_eq. split.
      * intros [A B]. split; [exact A|]. split; [intros X; discriminate|]. split; [intros _; exact B|right; exact B].
      * intros (A & _ & B & _). split; [exact A|apply B; reflexivity].
Qed.

Theorem uses_ok_b_reflects d us cs : uses_ok_b d us cs = true <-> Forall2 (UseOk d) us cs.
Proof.
  revert cs. induction us as [|u us IH]; intros [|c cs]; cbn [uses_ok_b]; try (split; [discriminate|intros X; inversion X]).
  - split; [constructor|reflexivity].
  - rewrite andb_true_iff, use_ok_b_reflects, IH. split; [intros [A B]; constructor; assumption|intros X; inversion X; auto].
Qed.

Lemma own_config_ok d u : UseOk d u (mk_client d (u_insecure u) (use_nondisk u)).
Proof.
  rewrite use_nondisk_spec. unfold UseOk. split; [reflexivity|]. split; [|split].
  - intros X. rewrite (current_nondisk_ever _ X). reflexivity.
  - intros ->. reflexivity.
  - destruct (existsb has_nondisk (u_lists u)); auto.
Qed.

(* the model meets the specification for every process history, starting from any well-filed pool *)
Theorem pool_model_meets_spec d us p : PoolOk d p -> uses_ok_b d us (run_uses d p us) = true.
Proof.
  intros Hp. rewrite (run_uses_own_config d us p Hp). apply uses_ok_b_reflects.
  induction us as [|u us IH]; cbn [map]; constructor; [apply own_config_ok|exact IH].
Qed.

(* the transposed filing (new client stored under [nonDisk][insecure]) does not: an insecure-TLS disk client used
   first leaves its short-timeout, unverified client where a verified-TLS proxy client looks *)
Definition witness_defaults : defaults := DF 20000 300000 4000 10000.
Definition witness_uses : list kuse :=
  [U true [[D "u0" "k0" 25107 false "disk" false]]; U false [[D "u1" "p0" 25107 false "proxy" false]]].
Lemma transposed_pool_refuted :
  run_uses_transposed witness_defaults [] witness_uses = [HC 20000 4000 true; HC 20000 4000 true] /\
  uses_ok_b witness_defaults witness_uses (run_uses_transposed witness_defaults [] witness_uses) = false /\
  run_uses witness_defaults [] witness_uses = [HC 20000 4000 true; HC 300000 10000 false].
Proof. vm_compute. auto. Qed.

(* ------------------------------------------------------------------ slow responses *)
Lemma timed_in_time timeout lat o : (lat < timeout)%N -> timed timeout lat o = o.
Proof. intros H. unfold timed. apply N.ltb_lt in H. rewrite H. reflexivity. Qed.
Lemma timed_late timeout lat o : (timeout <= lat)%N -> timed timeout lat o = ConnErr.
Proof. intros H. unfold timed. apply N.ltb_ge in H. rewrite H. reflexivity. Qed.

(* a KeepClient with a non-disk service waits DefaultProxyRequestTimeout, whoever used the pool before *)
Theorem proxy_client_waits_proxy_timeout d p ins lat o : PoolOk d p -> (lat < df_proxy_req d)%N ->
  timed (h_timeout (fst (http_client d p ins true))) lat o = o.
Proof.
  intros Hp Hl. destruct (http_client_ok d p ins true Hp) as [-> _]. apply timed_in_time. exact Hl.
Qed.

(* the Put with response latencies: answers that arrive within the timeout are the answers, the others are
   "no response" *)
Definition with_latency (i : gin) (timeout : N) (lat : nat -> nat -> N) : gin :=
  {| g_H := g_H i; g_svcs := g_svcs i; g_order := g_order i; g_want := g_want i; g_retries := g_retries i;
     g_entry := g_entry i; g_hash := g_hash i; g_data := g_data i; g_nbytes := g_nbytes i;
     g_oracle := fun s r => timed timeout (lat s r) (g_oracle i s r); g_pick := g_pick i |}.

Lemma filter_length_mono {A} (p q : A -> bool) l :
  (forall x, In x l -> p x = true -> q x = true) -> List.length (filter p l) <= List.length (filter q l).
Proof.
  induction l as [|x l IH]; intros H; cbn [filter]; [lia|].
  assert (IH' : List.length (filter p l) <= List.length (filter q l)) by (apply IH; intros y Hy; apply H; right; exact Hy).
  destruct (p x) eqn:Ep.
  - rewrite (H x (or_introl eq_refl) Ep). cbn [List.length]. lia.
  - destruct (q x); cbn [List.length]; lia.
Qed.

(* Liveness with slow services: if at least want writable services answer every attempt within the client's
   timeout with a 200 confirming >= 1 replica, the Put succeeds, whatever the other services do and however slow
   they are. *)
Theorem put_succeeds_with_slow_accepting_services i timeout lat :
  NoDup (g_order i) -> oversize i = false ->
  g_want i <= List.length (filter (fun x => forallb (fun a => (lat x a <? timeout)%N &&
                                             (is200 (exp_answer i x a) && (1 <=? o_rep (exp_answer i x a))))
                                           (seq 0 (S (g_retries i)))) (sv_of i)) ->
  exists l n, r_res (run_g (with_latency i timeout lat)) = Ok l n.
Proof.
  intros Hnd Hov Hen. apply put_succeeds_if_enough_accept; [exact Hnd|exact Hov|].
  eapply Nat.le_trans; [exact Hen|]. apply filter_length_mono. intros x _ Hx.
  apply forallb_forall. intros a Ha. rewrite forallb_forall in Hx. specialize (Hx a Ha). apply andb_true_iff in Hx. destruct Hx as [Hl Hacc].
  unfold exp_answer, with_latency in *. cbn [g_H g_oracle g_entry g_data g_hash g_nbytes] in *.
  unfold eff_answer in *. unfold exp_hash, exp_len in *. cbn [g_H g_entry g_hash g_data g_nbytes] in *.
  destruct (body_ok _ _ _ _ _); [|exact Hacc]. unfold timed. rewrite Hl. exact Hacc.
Qed.

(* ------------------------------------------------------------------ the discovery cache around a refresh *)
(* the list of the last successful fetch, provided no clear came after it *)
Fixpoint fresh_list (cur : option (list dsvc)) (evs : list cache_event) : option (list dsvc) :=
  match evs with
  | [] => cur
  | EvClear :: r => fresh_list None r
  | EvFetched l :: r => fresh_list (Some l) r
  end.

Theorem cache_offers_only_fresh evs : forall st,
  cache_offer (cache_run st evs) = fresh_list (cache_offer st) evs.
Proof.
  induction evs as [|e evs IH]; intros st; cbn [cache_run fold_left fresh_list]; [reflexivity|].
  fold (cache_run (cache_step st e) evs). rewrite IH. destruct e; reflexivity.
Qed.

(* after a clear nothing is offered (a KeepClient that asks blocks) until a fetch succeeds, and then it is that fetch's list:
   a list obtained before the last refresh request is never handed out *)
Theorem cache_never_stale_after_clear st pre post :
  (forall l, ~ In (EvFetched l) post) -> cache_offer (cache_run st (pre ++ EvClear :: post)) = None.
Proof.
  intros Hno. rewrite cache_offers_only_fresh.
  assert (G : forall cur, fresh_list cur (pre ++ EvClear :: post) = fresh_list None post).
  { induction pre as [|e pre IH]; intros cur; cbn [app fresh_list]; [reflexivity|]. destruct e; apply IH. }
  rewrite G. clear G. induction post as [|e post IH]; [reflexivity|]. destruct e as [|l].
  - cbn [fresh_list]. apply IH. intros l H. apply (Hno l). right. exact H.
  - exfalso. apply (Hno l). left. reflexivity.
Qed.

Theorem cache_offers_last_fetch st pre l :
  cache_offer (cache_run st (pre ++ [EvFetched l])) = Some l.
Proof.
  rewrite cache_offers_only_fresh.
  generalize (cache_offer st). induction pre as [|e pre IH]; intros cur; cbn [app fresh_list]; [reflexivity|]. destruct e; apply IH.
Qed.

(* the oracle of stage c11refresh: every PUT of a Put that started after the refresh request went to a writable root of
   the refreshed (last) list *)
Theorem refresh_spec_b_reflects c : f_lists c <> [] ->
  (refresh_spec_b c = true <->
   (NoDup (map d_uuid (current_list (f_lists c))) ->
    forall u, In u (f_contacted c) ->
      exists uuid, In (uuid, u) (r_writable (k_roots (load_all kstate0 (f_lists c)))))).
Proof.
  intros Hne. unfold refresh_spec_b, uuids_distinct_b. rewrite (load_all_current kstate0 _ Hne).
  set (l := current_list (f_lists c)). rewrite orb_true_iff, negb_true_iff, forallb_forall.
  assert (M : NoDup (map d_uuid l) -> forall u,
              existsb (String.eqb u) (map d_url (filter writable_svc (kept l))) = true <->
              exists uuid, In (uuid, u) (r_writable (load_roots l))).
  { intros Hnd u. destruct (load_roots_maps l Hnd) as (_ & -> & _). rewrite existsb_exists. split.
    - intros (x & Hx & E). apply String.eqb_eq in E. subst x. apply in_map_iff in Hx. destruct Hx as (s & <- & Hs).
      exists (d_uuid s). change (In (root_entry s) (map root_entry (filter writable_svc (kept l)))). apply in_map. exact Hs.
    - intros (uuid & H). apply in_map_iff in H. destruct H as (s & E & Hs). unfold root_entry in E. injection E as _ <-.
      exists (d_url s). split; [apply in_map; exact Hs|apply String.eqb_refl]. }
  split.
  - intros [H|H] Hnd u Hu; [apply nodup_b_iff in Hnd; congruence|]. apply (M Hnd). apply H. exact Hu.
  - intros H. destruct (nodup_b (map d_uuid l)) eqn:E; [|left; reflexivity]. right. apply nodup_b_iff in E.
    intros u Hu. apply (M E). apply H; assumption.
Qed.
