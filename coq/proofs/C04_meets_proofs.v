(* C04 — the model's own trace satisfies the fresh_survives clause of the oracle, for every
   configuration, every initial state and every history (Untrash included) with a non-decreasing clock. *)
From Coq Require Import ZArith NArith List String Bool Lia.
From AV Require Import lib.Str model.C04_model model.C04_run proofs.C04_proofs proofs.C04_spec_proofs.
Import ListNotations.
Local Open Scope Z_scope.

(* the observations the model itself would produce *)
Fixpoint obs_run (c : cfg) (s : state) (hs : list (Z * op)) : list sobs :=
  match hs with
  | [] => []
  | (now, o) :: r =>
    let '(code, s') := step c s now o in
    St now now now o code (map listing_of (vols s')) :: obs_run c s' r
  end.

Lemma op_eq_dec_untrash (o : op) (h : string) : {o = Untrash h} + {o <> Untrash h}.
Proof.
  destruct o as [x|x|x|its|x|x|]; try (right; discriminate).
  destruct (string_dec x h) as [->|Ne]; [left; reflexivity|right; intros X; inversion X; contradiction].
Defined.

Lemma fresh_has h t vs : Fresh h t vs -> FreshAt h (map listing_of vs).
Proof.
  intros X. apply Exists_exists in X. destruct X as (v & Hin & m & A & _).
  exists (listing_of v). split; [apply in_map; exact Hin|]. exists m. exact A.
Qed.

Lemma fresh_later_model c h t : forall hs s prev,
  nondecr prev hs -> (Fresh h t (vols s) \/ t + ttl c <= prev) -> t <= prev ->
  FreshLater c false h t (obs_run c s hs).
Proof.
  induction hs as [|[now o] r IH]; intros s prev Hn Hinv Ht; cbn [obs_run]; [constructor|].
  cbn [nondecr] in Hn. destruct Hn as [Hle Hn].
  destruct (step c s now o) as [code s'] eqn:Es.
  - assert (Hs' : s' = snd (step c s now o)) by (rewrite Es; reflexivity).
    assert (Hinv' : Fresh h t (vols s') \/ t + ttl c <= now).
    { destruct (Z_lt_le_dec now (t + ttl c)) as [L|L]; [left|right; exact L].
      destruct Hinv as [F|F]; [|lia]. subst s'. eapply Forall2_keeps; [apply step_keeps; [lia|exact L]|exact F]. }
    apply FL_cons.
    + left. reflexivity.
    + cbn [s_now s_after St]. destruct Hinv' as [F|F]; [right; apply fresh_has with (t := t); exact F|left; exact F].
    + eapply IH; [exact Hn|exact Hinv'|lia].
Qed.

Theorem model_fresh_ok c : forall hs s prev, nondecr prev hs -> FreshOk c false (obs_run c s hs).
Proof.
  induction hs as [|[now o] r IH]; intros s prev Hn; cbn [obs_run]; [constructor|].
  cbn [nondecr] in Hn. destruct Hn as [Hle Hn].
  destruct (step c s now o) as [code s'] eqn:Es. constructor; [|eapply IH; exact Hn].
  cbn [s_op s_code s_after s_now St]. intros h Ho Hok.
  assert (Hc : code = 200%N).
  { unfold Ok2 in Hok. destruct Ho as [-> | ->]; cbn [step] in Es.
    - unfold h_put in Es. destruct (writable (vols s)); [inversion Es; subst; vm_compute in Hok; discriminate|].
      destruct (touch_first (vols s) h now); inversion Es; reflexivity.
    - unfold h_touch in Es. destruct (writable (vols s)); [inversion Es; subst; vm_compute in Hok; discriminate|].
      destruct (touch_first (vols s) h now); inversion Es; subst; [reflexivity|vm_compute in Hok; discriminate]. }
  assert (F : Fresh h now (vols s')) by (eapply ack_establishes; eassumption).
  split; [apply fresh_has with (t := now); exact F|].
  eapply fresh_later_model; [exact Hn|left; exact F|lia].
Qed.

Corollary model_fresh_ok_b c hs s prev : nondecr prev hs -> fresh_ok c false (obs_run c s hs) = true.
Proof. intros Hn. apply fresh_ok_iff. eapply model_fresh_ok. exact Hn. Qed.
