(* C04 (I) — proofs about model/C04_race.v: every interleaving of a TOUCH/PUT request with a DELETE
   request on one block.  The set of interleavings is finite; [finals] enumerates the final states of
   all maximal runs and is proved complete and sound for the step relation, runs are proved to be
   bounded by a rank function (so the enumeration's fuel suffices), and the per-scenario decisions
   are closed vm_compute sweeps lifted to all runs. *)
From Coq Require Import List Bool Arith Lia String.
From AV Require Import model.C04_race model.C04_race_run.
Import ListNotations.

Inductive rstep : st -> st -> Prop := rstep_intro s s' : In s' (succs s) -> rstep s s'.
Inductive rrun : nat -> st -> st -> Prop :=
| rrun_0 s : rrun 0 s s
| rrun_S n s s' s'' : rstep s s' -> rrun n s' s'' -> rrun (S n) s s''.

Lemma finals_complete fuel : forall n s s', n <= fuel -> rrun n s s' -> succs s' = [] -> In s' (finals fuel s).
Proof.
  induction fuel as [|f IH]; intros n s s' Hn Hr Hend.
  - assert (n = 0) by lia. subst. inversion Hr; subst. left; reflexivity.
  - cbn [finals]. inversion Hr as [|m a b d Hs Hr']; subst.
    + rewrite Hend. left; reflexivity.
    + inversion Hs as [x y Hin]; subst. destruct (succs s) as [|z zs] eqn:E; [contradiction|].
      apply in_flat_map. exists b. split; [exact Hin|]. eapply IH; [|exact Hr'|exact Hend]. lia.
Qed.

Lemma finals_sound fuel : forall s s', In s' (finals fuel s) -> exists n, rrun n s s'.
Proof.
  induction fuel as [|f IH]; intros s s' H; cbn [finals] in H.
  - destruct H as [<-|[]]. exists 0. constructor.
  - destruct (succs s) as [|z zs] eqn:E.
    + destruct H as [<-|[]]. exists 0. constructor.
    + apply in_flat_map in H. destruct H as (x & Hx & Hin). destruct (IH _ _ Hin) as [n Hn].
      exists (S n). econstructor; [constructor; rewrite E; exact Hx|exact Hn].
Qed.

(* ---- runs are bounded: a rank that every step decreases ---- *)
Definition rankA (p : pcA) : nat :=
  match p with
  | A_done _ => 0 | Aw_fclose _ => 1 | Aw_funlock _ => 2 | Aw_renameL _ _ => 3 | Aw_rename _ => 3
  | Aw_fwait _ _ => 4 | Aw_fflock _ _ => 5 | Aw_fopen _ => 6
  | Aw_utimes _ => 7 | Aw_closetmp _ => 8 | Aw_write _ => 9
  | Aw_create => 10 | Aw_mkdir => 11 | At_close _ _ => 12 | At_unflock _ _ => 13 | At_utimes _ => 14
  | At_wait _ => 15 | At_flock _ => 16 | At_open => 17 | Ac_close _ => 18 | Ac_open => 19 | Ac_stat => 20
  end.
Definition rankB (p : pcB) : nat :=
  match p with
  | B_done _ => 0 | B_close _ _ => 1 | B_unflock _ _ => 2 | B_move _ => 3 | B_stat _ => 4
  | B_wait _ => 5 | B_flock _ => 6 | B_open => 7
  end.
Definition rank (s : st) : nat := rankA (pa s) + rankB (pb s).

Lemma a_fail_rank s : rankA (a_fail s) <= 11.
Proof. unfold a_fail. destruct (is_put s); cbn; lia. Qed.

Lemma stepA_rank s s' : stepA s = Some s' -> rank s' < rank s.
Proof.
  unfold stepA, rank. destruct (pa s) eqn:Ea; intros X.
  all: repeat match type of X with
       | context [match ?x with _ => _ end] => destruct x eqn:?
       end.
  all: try discriminate.
  all: inversion X; subst; clear X; cbn [pa pb upd setA setB rankA rankB]; rewrite ?Ea; cbn [rankA rankB].
  all: unfold a_fail; repeat match goal with |- context [is_put ?x] => destruct (is_put x) end; cbn [rankA]; try lia.
  all: repeat match goal with H : pb _ = _ |- _ => rewrite H end; cbn [rankB]; try lia.
Qed.

Lemma stepB_rank s s' : stepB s = Some s' -> rank s' < rank s.
Proof.
  unfold stepB, rank. destruct (pb s) eqn:Eb; intros X.
  all: repeat match type of X with
       | context [match ?x with _ => _ end] => destruct x eqn:?
       end.
  all: try discriminate.
  all: inversion X; subst; clear X; cbn [pa pb upd setA setB rankA rankB]; rewrite ?Eb; cbn [rankA rankB].
  all: try lia.
  all: repeat match goal with H : pa _ = _ |- _ => rewrite H end; cbn [rankA]; try lia.
Qed.

Lemma step_rank s s' : rstep s s' -> rank s' < rank s.
Proof.
  intros [x y Hin]. unfold succs in Hin. apply in_app_or in Hin. destruct Hin as [Hin|Hin].
  - destruct (stepA x) eqn:E; [|contradiction]. destruct Hin as [<-|[]]. apply stepA_rank; exact E.
  - destruct (stepB x) eqn:E; [|contradiction]. destruct Hin as [<-|[]]. apply stepB_rank; exact E.
Qed.

Lemma run_bounded n s s' : rrun n s s' -> n + rank s' <= rank s.
Proof.
  induction 1 as [|n s s1 s2 Hs Hr IH]; [lia|]. apply step_rank in Hs. lia.
Qed.

Lemma init_gen_rank p put rm fx : rank (init_gen p put rm fx) <= FUEL.
Proof. destruct put; cbn; unfold FUEL; lia. Qed.
Lemma init_rank p put rm : rank (init p put rm) <= FUEL.
Proof. apply init_gen_rank. Qed.

Lemma maximal_in_finals_gen p put rm fx n s :
  rrun n (init_gen p put rm fx) s -> succs s = [] -> In s (finals FUEL (init_gen p put rm fx)).
Proof.
  intros Hr He. eapply finals_complete; [|exact Hr|exact He].
  pose proof (run_bounded _ _ _ Hr). pose proof (init_gen_rank p put rm fx). lia.
Qed.

Lemma runs_bounded p put rm n s : rrun n (init p put rm) s -> n <= FUEL.
Proof. intros Hr. pose proof (run_bounded _ _ _ Hr). pose proof (init_rank p put rm). lia. Qed.

(* every maximal run from an initial state ends in the enumerated list *)
Lemma maximal_in_finals p put rm n s :
  rrun n (init p put rm) s -> succs s = [] -> In s (finals FUEL (init p put rm)).
Proof.
  intros Hr He. eapply finals_complete; [|exact Hr|exact He].
  pose proof (run_bounded _ _ _ Hr). pose proof (init_rank p put rm). lia.
Qed.

(* ---- decisions ---- *)
Definition both_done (s : st) : bool := match pa s, pb s with A_done _, B_done _ => true | _, _ => false end.

Lemma both_done_succs s : both_done s = true -> succs s = [].
Proof.
  unfold both_done, succs, stepA, stepB. destruct (pa s); try discriminate. destruct (pb s); try discriminate. reflexivity.
Qed.

Lemma sweep_touch : forallb (fun p => forallb (fun rm => forallb (fun s => contract s && both_done s)
                        (finals FUEL (init p false rm))) [false; true]) all_priors = true.
Proof. vm_compute. reflexivity. Qed.

Lemma sweep_put : forallb (fun p => forallb (fun rm => forallb (fun s => contract s && both_done s)
                        (finals FUEL (init p true rm))) [false; true]) all_priors = true.
Proof. vm_compute. reflexivity. Qed.

Lemma sweep_corrupt_done_old : forallb (fun rm => forallb both_done (finals FUEL (init_old POldCorrupt true rm))) [false; true] = true.
Proof. vm_compute. reflexivity. Qed.

Lemma in_bools (b : bool) : In b [false; true].
Proof. destruct b; cbn; auto. Qed.
Lemma in_priors p : In p all_priors.
Proof. destruct p; cbn; auto 6. Qed.

(* Touch || Trash: for EVERY interleaving, on every prior state of the block and both trash modes:
   the TOUCH request fails, or the block is (intact) at its path afterwards; and nobody deadlocks *)
Theorem touch_trash_race p rm n s :
  rrun n (init p false rm) s -> succs s = [] -> contract s = true /\ both_done s = true.
Proof.
  intros Hr He. pose proof (maximal_in_finals _ _ _ _ _ Hr He) as Hin.
  pose proof sweep_touch as H. rewrite forallb_forall in H. specialize (H p (in_priors p)).
  rewrite forallb_forall in H. specialize (H rm (in_bools rm)). rewrite forallb_forall in H.
  specialize (H s Hin). apply andb_true_iff in H. exact H.
Qed.

(* Put || Trash at full strength: EVERY interleaving, every prior copy (absent, intact, CORRUPT, fresh),
   both trash modes — WriteBlock now takes the flock on the file it replaces *)
Theorem put_trash_race p rm n s :
  rrun n (init p true rm) s -> succs s = [] -> contract s = true /\ both_done s = true.
Proof.
  intros Hr He. pose proof (maximal_in_finals _ _ _ _ _ Hr He) as Hin.
  pose proof sweep_put as H. rewrite forallb_forall in H. specialize (H p (in_priors p)).
  rewrite forallb_forall in H. specialize (H rm (in_bools rm)). rewrite forallb_forall in H.
  specialize (H s Hin). apply andb_true_iff in H. exact H.
Qed.

(* a block whose timestamp is newer than the TTL is never trashed, whatever A does *)
Lemma sweep_fresh : forallb (fun put => forallb (fun rm => forallb
    (fun s => match at_path s with Some i => match i_cont i with Good => true | Corrupt => false end | None => false end)
    (finals FUEL (init PFreshGood put rm))) [false; true]) [false; true] = true.
Proof. vm_compute. reflexivity. Qed.
Theorem fresh_block_never_trashed put rm n s :
  rrun n (init PFreshGood put rm) s -> succs s = [] ->
  exists i, at_path s = Some i /\ i_cont i = Good.
Proof.
  intros Hr He. pose proof (maximal_in_finals _ _ _ _ _ Hr He) as Hin.
  pose proof sweep_fresh as H. rewrite forallb_forall in H. specialize (H put (in_bools put)).
  rewrite forallb_forall in H. specialize (H rm (in_bools rm)). rewrite forallb_forall in H.
  specialize (H s Hin). destruct (at_path s) as [i|]; [|discriminate]. exists i. split; [reflexivity|].
  destruct (i_cont i); [reflexivity|discriminate].
Qed.

(* ---- regression witness about the OLD model (code before /repo a9eb270, WriteBlock without flock):
   F7 — with a CORRUPT old copy WriteBlock could replace the file between Trash's stat and Trash's
   rename: the PUT was acknowledged and the freshly written block ended up in the trash (lifetime > 0)
   or was unlinked (lifetime = 0) ---- *)
Definition put_acked_but_gone (s : st) : bool :=
  a_ok s && match path s with None => true | Some _ => false end &&
  existsb (fun i => match get_inode s i with {| i_age := Fresh; i_cont := Good |} => true | _ => false end)
          (if remove s then gone s else trash s).

Lemma f7_exists_old rm : existsb put_acked_but_gone (finals FUEL (init_old POldCorrupt true rm)) = true.
Proof. destruct rm; vm_compute; reflexivity. Qed.

Theorem old_put_trash_race_corrupt_refuted rm :
  exists n s, rrun n (init_old POldCorrupt true rm) s /\ succs s = [] /\ contract s = false /\ put_acked_but_gone s = true.
Proof.
  pose proof (f7_exists_old rm) as H. apply existsb_exists in H. destruct H as (s & Hin & Hg).
  destruct (finals_sound _ _ _ Hin) as [n Hr]. exists n, s. split; [exact Hr|].
  pose proof sweep_corrupt_done_old as D. rewrite forallb_forall in D. specialize (D rm (in_bools rm)).
  rewrite forallb_forall in D. specialize (D s Hin).
  assert (He : succs s = []) by (apply both_done_succs; exact D).
  split; [exact He|]. split; [|exact Hg].
  unfold put_acked_but_gone in Hg. apply andb_true_iff in Hg. destruct Hg as [Hg _]. apply andb_true_iff in Hg.
  destruct Hg as [Ha Hp]. unfold contract, at_path. rewrite Ha. destruct (path s); [discriminate|reflexivity].
Qed.

Fixpoint exec (s : st) (sch : list tid) : option st :=
  match sch with
  | [] => Some s
  | t :: r => match step_t t s with Some s' => exec s' r | None => None end
  end.

(* completeness of the schedule enumeration that the harness follows *)
Lemma schedules_complete fuel : forall s sch s',
  List.length sch <= fuel -> exec s sch = Some s' -> succs s' = [] -> In sch (schedules fuel s).
Proof.
  induction fuel as [|f IH]; intros s sch s' Hl He Hend.
  - destruct sch; [left; reflexivity|cbn in Hl; lia].
  - cbn [schedules]. destruct sch as [|t r].
    + cbn in He. inversion He; subst s'. unfold succs in Hend.
      destruct (stepA s); [discriminate|]. destruct (stepB s); [discriminate|]. left; reflexivity.
    + cbn [exec] in He. cbn [List.length] in Hl. destruct t; cbn [step_t] in He.
      * destruct (stepA s) as [x|] eqn:Ea; [|discriminate].
        assert (In r (schedules f x)) by (eapply IH; [lia|exact He|exact Hend]).
        destruct (stepB s); apply in_or_app; left; apply in_map; assumption.
      * destruct (stepB s) as [x|] eqn:Eb; [|discriminate].
        assert (In r (schedules f x)) by (eapply IH; [lia|exact He|exact Hend]).
        destruct (stepA s); apply in_or_app; right; apply in_map; assumption.
Qed.

Lemma exec_run s : forall sch s', exec s sch = Some s' -> rrun (List.length sch) s s'.
Proof.
  intros sch. revert s. induction sch as [|t r IH]; intros s s' He; cbn in He.
  - inversion He; subst. constructor.
  - destruct (step_t t s) as [x|] eqn:E; [|discriminate]. cbn [List.length]. econstructor; [|apply IH; exact He].
    constructor. unfold succs. destruct t; cbn [step_t] in E; rewrite E.
    + left; reflexivity.
    + apply in_or_app. right. left; reflexivity.
Qed.

(* the hypotheses are satisfiable: a concrete maximal schedule of Touch || Trash where Touch wins *)
Example ex_touch_first :
  exists s, exec (init POldGood false false) [TA; TA; TA; TA; TA; TB; TB; TB; TB; TB] = Some s /\ succs s = [] /\
            a_ok s = true /\ contract s = true.
Proof. eexists. split; [vm_compute; reflexivity|]. repeat split; vm_compute; reflexivity. Qed.

(* ---- the interleaving-level boolean specification reflects its Prop form ---- *)
Definition SpecI (c : case) : Prop :=
  (r_a_ok c = true -> exists a, r_path c = Some (Good, a) \/ (r_put c = false /\ r_path c = Some (Corrupt, a))) /\
  (r_prior c = PFreshGood -> exists a, r_path c = Some (Good, a)).
Theorem race_spec_b_iff c : spec_b c = true <-> SpecI c.
Proof.
  unfold spec_b, SpecI. rewrite andb_true_iff, orb_true_iff, negb_true_iff. split.
  - intros [A B]. split.
    + intros Ha. destruct A as [A|A]; [congruence|]. destruct (r_path c) as [[[|] a]|]; [eauto| |discriminate].
      apply negb_true_iff in A. eauto.
    + intros Hp. rewrite Hp in B. destruct (r_path c) as [[[|] a]|]; try discriminate. eauto.
  - intros [A B]. split.
    + destruct (r_a_ok c); [right|left; reflexivity]. destruct (A eq_refl) as (a & [X|[X Y]]); rewrite ?X, ?Y; reflexivity.
    + destruct (r_prior c); try reflexivity. destruct (B eq_refl) as (a & X). rewrite X. reflexivity.
Qed.
