(* C10 — escaping: every codec's escape is undone by every codec's unescape, for all byte strings; the three
   unescape functions coincide; Python's two-pass escape is the one-pass reference escape. *)
From Coq Require Import NArith Lia List Bool Ascii String ZifyBool ZifyN Arith.
From AV Require Import lib.Str model.C10_manifest model.C10_ranges model.C10_fs model.C10_gomanifest model.C10_python.
Import ListNotations.
Local Open Scope string_scope.

(* per character: the three digits written for it are octal digits that read back as the character *)
Definition oct3_ok (a : ascii) : bool :=
  match oct3 (cn a) with
  | String d1 (String d2 (String d3 EmptyString)) =>
      is_octd d1 && is_octd d2 && is_octd d3 && negb (Ascii.eqb d1 c_bs) && (oct_val d1 d2 d3 <=? 255)%N &&
      Ascii.eqb (ascii_of_N (oct_val d1 d2 d3)) a &&
      is_tokc d1 && is_tokc d2 && is_tokc d3 &&
      negb (Ascii.eqb d1 c_colon) && negb (Ascii.eqb d2 c_colon) && negb (Ascii.eqb d3 c_colon)
  | _ => false
  end.
Lemma oct3_ok_all (a : ascii) : oct3_ok a = true.
Proof. destruct a as [[] [] [] [] [] [] [] []]; vm_compute; reflexivity. Qed.

Opaque is_octd is_tokc.
Lemma oct3_char (a : ascii) :
  exists d1 d2 d3, oct3 (cn a) = String d1 (String d2 (String d3 "")) /\
    is_octd d1 = true /\ is_octd d2 = true /\ is_octd d3 = true /\
    Ascii.eqb d1 c_bs = false /\ (oct_val d1 d2 d3 <=? 255)%N = true /\ ascii_of_N (oct_val d1 d2 d3) = a.
Proof.
  pose proof (oct3_ok_all a) as H. unfold oct3_ok in H.
  destruct (oct3 (cn a)) as [|d1 [|d2 [|d3 [|? ?]]]]; try discriminate.
  exists d1, d2, d3.
  repeat (apply andb_prop in H; destruct H as [H ?]).
  repeat split; auto.
  - destruct (Ascii.eqb d1 c_bs); [discriminate|reflexivity].
  - apply Ascii.eqb_eq. assumption.
Qed.

Transparent is_octd is_tokc.
Lemma unescape_escaped_char dig (a : ascii) (rest : string) :
  (forall x, is_octd x = true -> dig x = true) ->
  unescape_with dig (String c_bs (oct3 (cn a) ++ rest)) = String a (unescape_with dig rest).
Proof.
  intros Hdig. destruct (oct3_char a) as (d1 & d2 & d3 & E & O1 & O2 & O3 & NB & LE & V).
  rewrite E. cbn [append unescape_with].
  replace (Ascii.eqb c_bs c_bs) with true by (symmetry; apply Ascii.eqb_refl).
  rewrite NB, (Hdig _ O1), (Hdig _ O2), (Hdig _ O3), O1, O2, O3, LE, V. reflexivity.
Qed.

(* escape_roundtrip, general form: any escaper that escapes the backslash, any unescaper whose digit class contains
   the octal digits *)
Theorem escape_roundtrip_gen must dig :
  must c_bs = true -> (forall x, is_octd x = true -> dig x = true) ->
  forall s, unescape_with dig (escape_with must s) = s.
Proof.
  intros Hbs Hdig. induction s as [|a s IH]; [reflexivity|].
  cbn [escape_with]. unfold esc_char. destruct (must a) eqn:M.
  - rewrite unescape_escaped_char by exact Hdig. rewrite IH. reflexivity.
  - cbn [unescape_with]. destruct (Ascii.eqb a c_bs) eqn:E.
    + apply Ascii.eqb_eq in E. subst a. congruence.
    + rewrite IH. reflexivity.
Qed.

Lemma octd_digit x : is_octd x = true -> is_digit x = true.
Proof. unfold is_octd, is_digit, in_range. lia. Qed.
Lemma must_bs : must_escape c_bs = true. Proof. reflexivity. Qed.
Lemma gm_must_bs : gm_must_escape c_bs = true. Proof. reflexivity. Qed.

Theorem escape_roundtrip : forall s, unescape (escape s) = s.
Proof. apply escape_roundtrip_gen; auto. Qed.
Theorem fs_escape_roundtrip : forall s, fs_unescape (fs_escape s) = s.
Proof. apply escape_roundtrip_gen; auto. Qed.
Theorem gm_escape_roundtrip : forall s, gm_unescape (gm_escape s) = s.
Proof. apply escape_roundtrip_gen; [reflexivity|exact octd_digit]. Qed.
(* names written by one codec are read back by the other *)
Theorem gm_escape_fs_unescape : forall s, fs_unescape (gm_escape s) = s.
Proof. apply escape_roundtrip_gen; auto. Qed.
Theorem fs_escape_gm_unescape : forall s, gm_unescape (fs_escape s) = s.
Proof. apply escape_roundtrip_gen; [reflexivity|exact octd_digit]. Qed.

(* ---------- Python's escape = the reference escape ---------- *)
Definition py_f1 (a : ascii) : bool := Ascii.eqb a c_bs.
Definition py_f2 (a : ascii) : bool := (cn a <=? 32)%N || Ascii.eqb a c_colon.
Lemma py_bs_step X : escape_with py_f2 (esc_char py_f1 c_bs X) = esc_char must_escape c_bs (escape_with py_f2 X).
Proof. reflexivity. Qed.
Lemma py_escape_eq : forall s, py_escape s = escape s.
Proof.
  unfold py_escape, escape. change (fun a : ascii => (cn a <=? 32)%N || Ascii.eqb a c_colon) with py_f2.
  change (fun a : ascii => Ascii.eqb a c_bs) with py_f1.
  induction s as [|a s IH]; [reflexivity|].
  cbn [escape_with].
  destruct (Ascii.eqb a c_bs) eqn:E.
  - apply Ascii.eqb_eq in E. subst a. rewrite py_bs_step, IH. reflexivity.
  - assert (F1 : py_f1 a = false) by exact E.
    assert (F2 : must_escape a = py_f2 a) by (unfold must_escape, py_f2; rewrite E, orb_false_r; reflexivity).
    unfold esc_char at 1. rewrite F1. cbn [escape_with]. rewrite IH.
    unfold esc_char. rewrite F2. reflexivity.
Qed.
Theorem py_escape_roundtrip : forall s, unescape (py_escape s) = s.
Proof. intros s. rewrite py_escape_eq. apply escape_roundtrip. Qed.

(* ---------- the decimal-digit unescaper (manifest package) equals the octal-digit one (filesystem) ---------- *)
Lemma digit_not_bs x : is_digit x = true -> Ascii.eqb x c_bs = false.
Proof.
  intros H. destruct (Ascii.eqb x c_bs) eqn:E; [|reflexivity]. apply Ascii.eqb_eq in E. subst x. discriminate.
Qed.
Lemma unescape_digit_eq_aux : forall n s, (String.length s <= n)%nat ->
  unescape_with is_digit s = unescape_with is_octd s.
Proof.
  induction n as [|n IH]; intros s Hl.
  - destruct s; [reflexivity|cbn in Hl; lia].
  - destruct s as [|a r]; [reflexivity|]. cbn [String.length] in Hl.
    cbn [unescape_with]. destruct (Ascii.eqb a c_bs) eqn:Ea; [|rewrite (IH r) by lia; reflexivity].
    destruct r as [|b r1]; [reflexivity|]. cbn [String.length] in Hl.
    destruct (Ascii.eqb b c_bs) eqn:Eb; [rewrite (IH r1) by lia; reflexivity|].
    destruct r1 as [|c [|d r3]].
    { rewrite (IH (String b "")) by (cbn; lia). reflexivity. }
    { rewrite (IH (String b (String c ""))) by (cbn in *; lia). reflexivity. }
    cbn [String.length] in Hl.
    destruct (is_digit b && is_digit c && is_digit d) eqn:Ed.
    + destruct (is_octd b && is_octd c && is_octd d) eqn:Eo.
      * rewrite (IH r3) by lia. reflexivity.
      * (* three decimal digits that are not all octal: both leave the four characters alone *)
        apply andb_prop in Ed. destruct Ed as [Ed Hd]. apply andb_prop in Ed. destruct Ed as [Hb Hc].
        cbn [andb].
        cbn [unescape_with]. rewrite (digit_not_bs b Hb).
        cbn [unescape_with]. rewrite (digit_not_bs c Hc).
        cbn [unescape_with]. rewrite (digit_not_bs d Hd).
        rewrite (IH r3) by lia. reflexivity.
    + assert (Eo : is_octd b && is_octd c && is_octd d = false).
      { destruct (is_octd b) eqn:O1; [|reflexivity]. destruct (is_octd c) eqn:O2; [|reflexivity].
        destruct (is_octd d) eqn:O3; [|reflexivity]. rewrite (octd_digit _ O1), (octd_digit _ O2), (octd_digit _ O3) in Ed. discriminate. }
      rewrite Eo. rewrite (IH (String b (String c (String d r3)))) by (cbn; lia). reflexivity.
Qed.
Theorem gm_unescape_eq : forall s, gm_unescape s = unescape s.
Proof. intros s. apply (unescape_digit_eq_aux (String.length s)). lia. Qed.
Theorem fs_unescape_eq : forall s, fs_unescape s = unescape s.
Proof. reflexivity. Qed.

(* ---------- shape of escaped text: only token characters, and no colon where the escaper covers it ---------- *)
Opaque is_octd is_tokc.
Lemma oct3_shape (a : ascii) :
  exists d1 d2 d3, oct3 (cn a) = String d1 (String d2 (String d3 "")) /\
    is_tokc d1 = true /\ is_tokc d2 = true /\ is_tokc d3 = true /\
    Ascii.eqb d1 c_colon = false /\ Ascii.eqb d2 c_colon = false /\ Ascii.eqb d3 c_colon = false.
Proof.
  pose proof (oct3_ok_all a) as H. unfold oct3_ok in H.
  destruct (oct3 (cn a)) as [|d1 [|d2 [|d3 [|? ?]]]]; try discriminate.
  exists d1, d2, d3.
  repeat (apply andb_prop in H; destruct H as [H ?]).
  repeat match goal with H : negb ?x = true |- _ => destruct x eqn:?; [discriminate|clear H] end.
  repeat split; auto.
Qed.
Transparent is_octd is_tokc.
Lemma tokc_bs : is_tokc c_bs = true. Proof. reflexivity. Qed.
Lemma escape_with_tokc must : (forall a, must a = false -> is_tokc a = true) ->
  forall s, all_chars is_tokc (escape_with must s) = true.
Proof.
  intros Hm. induction s as [|a s IH]; [reflexivity|].
  cbn [escape_with]. unfold esc_char. destruct (must a) eqn:M.
  - destruct (oct3_shape a) as (d1 & d2 & d3 & E & T1 & T2 & T3 & _).
    rewrite E. cbn [append all_chars]. rewrite tokc_bs, T1, T2, T3, IH. reflexivity.
  - cbn [all_chars]. rewrite (Hm a M), IH. reflexivity.
Qed.
Lemma escape_with_no_colon must : must c_colon = true ->
  forall s, contains_char c_colon (escape_with must s) = false.
Proof.
  intros Hc. induction s as [|a s IH]; [reflexivity|].
  cbn [escape_with]. unfold esc_char. destruct (must a) eqn:M.
  - destruct (oct3_shape a) as (d1 & d2 & d3 & E & _ & _ & _ & C1 & C2 & C3).
    rewrite E. cbn [append contains_char]. rewrite C1, C2, C3, IH. reflexivity.
  - cbn [contains_char]. rewrite IH. destruct (Ascii.eqb a c_colon) eqn:E; [|reflexivity].
    apply Ascii.eqb_eq in E. subst a. congruence.
Qed.
