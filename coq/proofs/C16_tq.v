(* C16 — runQueue behind the real queue: [told] keeps the containers and their types, the latest answer
   wins, and a pass over any priority-sorted arrangement of the told snapshot meets the ordering
   specification with respect to the told priorities, for every pool behaviour. *)
From Coq Require Import List ZArith Bool NArith Lia Permutation Sorted.
From AV Require Import model.C16_runq model.C16_runq_run proofs.C16_runq proofs.C16_spec.
From AV Require Import model.C16_tq.
Import ListNotations.
Local Open Scope Z_scope.

Lemma apply_resp_uuids ents r : map e_uuid (apply_resp ents r) = map e_uuid ents.
Proof.
  unfold apply_resp. rewrite map_map. apply map_ext. intros e. destruct (N.eqb (e_uuid e) (rs_uuid r)); reflexivity.
Qed.
Lemma apply_resp_types ents r : map e_it (apply_resp ents r) = map e_it ents.
Proof.
  unfold apply_resp. rewrite map_map. apply map_ext. intros e. destruct (N.eqb (e_uuid e) (rs_uuid r)); reflexivity.
Qed.

Theorem told_uuids polled resps : map e_uuid (told polled resps) = map e_uuid polled.
Proof.
  unfold told. revert polled. induction resps as [|r rs IH]; intros polled; [reflexivity|].
  cbn [fold_left]. rewrite IH. apply apply_resp_uuids.
Qed.
Theorem told_types polled resps : map e_it (told polled resps) = map e_it polled.
Proof.
  unfold told. revert polled. induction resps as [|r rs IH]; intros polled; [reflexivity|].
  cbn [fold_left]. rewrite IH. apply apply_resp_types.
Qed.

(* a container without a response keeps what the poll said *)
Theorem told_no_resp polled resps e :
  (forall r, In r resps -> rs_uuid r <> e_uuid e) -> (In e (told polled resps) <-> In e polled).
Proof.
  unfold told. revert polled. induction resps as [|r rs IH]; intros polled H; [reflexivity|].
  cbn [fold_left]. rewrite IH by (intros r' Hr'; apply H; right; exact Hr').
  assert (Hr : rs_uuid r <> e_uuid e) by (apply H; left; reflexivity).
  unfold apply_resp. rewrite in_map_iff. split.
  - intros (x & Hx & Hin). destruct (N.eqb (e_uuid x) (rs_uuid r)) eqn:E.
    + apply N.eqb_eq in E. subst e. cbn in Hr. congruence.
    + subst x. exact Hin.
  - intros Hin. exists e. split; [|exact Hin].
    destruct (N.eqb (e_uuid e) (rs_uuid r)) eqn:E; [|reflexivity]. apply N.eqb_eq in E. congruence.
Qed.

Definition has (u : N) (st : cstate) (p : Z) (ents : list ent) : Prop :=
  forall e, In e ents -> e_uuid e = u -> e_state e = st /\ e_prio e = p.

Lemma apply_resp_sets ents r : has (rs_uuid r) (rs_state r) (rs_prio r) (apply_resp ents r).
Proof.
  intros e He Hu. unfold apply_resp in He. apply in_map_iff in He. destruct He as (x & Hx & _).
  destruct (N.eqb (e_uuid x) (rs_uuid r)) eqn:E.
  - subst e. cbn. auto.
  - subst x. apply N.eqb_neq in E. congruence.
Qed.
Lemma apply_resp_keeps ents r u st p : rs_uuid r <> u -> has u st p ents -> has u st p (apply_resp ents r).
Proof.
  intros Hr H e He Hu. unfold apply_resp in He. apply in_map_iff in He. destruct He as (x & Hx & Hin).
  destruct (N.eqb (e_uuid x) (rs_uuid r)) eqn:E.
  - apply N.eqb_eq in E. subst e. cbn in Hu. congruence.
  - subst x. exact (H e Hin Hu).
Qed.

(* the latest answer about a container wins: its state and priority in the told snapshot are those of the
   last response that mentions it *)
Theorem told_latest_wins polled a r b :
  (forall r', In r' b -> rs_uuid r' <> rs_uuid r) ->
  has (rs_uuid r) (rs_state r) (rs_prio r) (told polled (a ++ r :: b)).
Proof.
  intros Hb. unfold told. rewrite fold_left_app. cbn [fold_left].
  set (ents := apply_resp (fold_left apply_resp a polled) r).
  assert (H0 : has (rs_uuid r) (rs_state r) (rs_prio r) ents) by apply apply_resp_sets.
  clearbody ents. revert ents H0. induction b as [|x b IH]; intros ents H0; [exact H0|].
  cbn [fold_left]. apply IH.
  - intros r' Hr'. apply Hb. right. exact Hr'.
  - apply apply_resp_keeps; [apply Hb; left; reflexivity|exact H0].
Qed.

(* second half of the property behind the real queue, for every pool behaviour, poll result, sequence of
   responses and outcome of the unstable sort: a pass that sorts the told snapshot by priority meets the
   ordering specification with respect to the told states and priorities *)
Theorem told_run_queue_meets_spec
  (P : Type) (p_quota : P -> bool * P) (p_kill p_create : N -> P -> bool * P) (p_start : N -> N -> P -> bool * P)
  (running : list N) (polled : list ent) (resps : list resp) (sorted : list ent) (u0 : umap) (p : P) :
  Permutation sorted (told polled resps) -> StronglySorted prio_ge sorted -> NoDup (map e_uuid polled) ->
  let res := run_queue_sorted P p_quota p_kill p_create p_start running sorted u0 p in
  RqSpec (told polled resps) running (r_log res) (r_locks res).
Proof.
  intros Hp Hs Hnd. apply run_queue_meets_spec; [exact Hp|exact Hs|].
  unfold uuids. rewrite told_uuids. exact Hnd.
Qed.

Lemma tq_spec_is_rq_spec c :
  spec_b c = rq_spec_b (told (t_polled c) (t_resps c)) (t_running c) (to_log c) (to_locks c).
Proof. reflexivity. Qed.

(* not vacuous: A (priority 1 at the poll, 3 in its lock response) must be started before B (priority 2) *)
Example tq_example :
  let polled := [E 1 0 1 0; E 2 0 2 0] in
  let resps := [RS 1 1 3; RS 2 1 2] in
  told polled resps = [E 1 1 3 0; E 2 1 2 0] /\
  spec_b (mktq polled resps [] [(0%N, 1)] (mkstub [false] [] [(0%N, [false])] [(0%N, 1)])
               [EKill 1 false; EStart 0 1 true; ECreate 0 false] [] []) = true /\
  model_b (mktq polled resps [] [(0%N, 1)] (mkstub [false] [] [(0%N, [false])] [(0%N, 1)])
               [EKill 1 false; EStart 0 1 true; ECreate 0 false] [] []) = true /\
  spec_b (mktq polled resps [] [(0%N, 1)] (mkstub [true] [] [] [(0%N, 1)])
               [EKill 2 false; EStart 0 2 true; EUnlock 1] [] []) = false.
Proof. vm_compute. repeat split. Qed.
