(* C14 — the don't-clobber rule of container.Queue.Update. *)
From Coq Require Import List ZArith Bool NArith Lia.
From AV Require Import model.C16_runq model.C14_queue proofs.C16_runq.
Import ListNotations.
Local Open Scope Z_scope.

Lemma clook_cset_same u v c : clook u (cset u v c) = Some v.
Proof.
  induction c as [|[k x] r IH]; cbn [cset clook]; [rewrite N.eqb_refl; reflexivity|].
  destruct (N.eqb k u) eqn:E; cbn [clook]; rewrite E; [reflexivity|exact IH].
Qed.
Lemma clook_cset_other u u' v c : u' <> u -> clook u' (cset u v c) = clook u' c.
Proof.
  intros Hne. induction c as [|[k x] r IH]; cbn [cset clook].
  - destruct (N.eqb u u') eqn:E; [apply N.eqb_eq in E; congruence|reflexivity].
  - destruct (N.eqb k u) eqn:E; cbn [clook].
    + apply N.eqb_eq in E. subst k. destruct (N.eqb u u') eqn:E2; [apply N.eqb_eq in E2; congruence|reflexivity].
    + destruct (N.eqb k u'); [reflexivity|exact IH].
Qed.

Lemma clook_filter (f : N * (cstate * Z) -> bool) u c :
  (forall v, f (u, v) = true) -> clook u (filter f c) = clook u c.
Proof.
  intros Hf. induction c as [|[k x] r IH]; cbn [filter clook]; [reflexivity|].
  destruct (N.eqb k u) eqn:E.
  - apply N.eqb_eq in E. subst k. rewrite Hf. cbn [clook]. rewrite N.eqb_refl. reflexivity.
  - destruct (f (k, x)); cbn [clook]; [rewrite E|]; exact IH.
Qed.

(* the merge leaves every entry marked in dontupdate exactly as it is *)
Theorem update_end_keeps_local next cur dont u :
  memN u dont = true -> clook u (update_end next cur dont) = clook u cur.
Proof.
  intros Hm. unfold update_end. rewrite clook_filter by (intros v; cbn [fst]; rewrite Hm; reflexivity).
  revert cur. induction next as [|[k v] r IH]; intros cur; cbn [fold_left]; [reflexivity|].
  cbn [fst snd]. destruct (memN k dont) eqn:Ek; [apply IH|].
  rewrite IH. apply clook_cset_other. intros ->. congruence.
Qed.

(* C14: a local Lock/Unlock/Cancel result (updateWithResp) that arrives while a poll is in progress is what
   the cache shows after Update, whatever the poll returned for that container *)
Theorem no_clobber next cur u v old :
  clook u cur = Some old ->
  let '(cur', dont) := with_resp (Some (u, v)) cur (Some []) in
  clook u (update_end next cur' (match dont with Some d => d | None => [] end)) = Some v.
Proof.
  intros Hc. cbn [with_resp]. rewrite Hc. rewrite update_end_keeps_local.
  - apply clook_cset_same.
  - cbn. rewrite N.eqb_refl. reflexivity.
Qed.

(* without a local change the merge makes the cache equal to the poll result on every polled uuid *)
Theorem update_end_takes_poll next cur u v :
  clook u next = Some v -> NoDup (map fst next) -> clook u (update_end next cur []) = Some v.
Proof.
  intros Hn Hnd. unfold update_end. rewrite clook_filter by (intros x; cbn [fst memN existsb orb]; rewrite Hn; reflexivity).
  revert cur Hn Hnd. induction next as [|[k x] r IH]; intros cur Hn Hnd; cbn [clook] in Hn; [discriminate|].
  cbn [fold_left fst snd memN existsb]. cbn [map fst] in Hnd. apply NoDup_cons_iff in Hnd. destruct Hnd as [Hk Hr].
  destruct (N.eqb k u) eqn:E.
  - apply N.eqb_eq in E. subst k. injection Hn as ->.
    assert (Hnot : forall c, clook u (fold_left (fun c kv => if memN (fst kv) [] then c else cset (fst kv) (snd kv) c) r c) = clook u c).
    { clear -Hk. induction r as [|[k' x'] r' IH']; intros c; cbn [fold_left]; [reflexivity|]. cbn [fst snd memN existsb].
      rewrite IH'; [|intros Hin; apply Hk; right; exact Hin]. apply clook_cset_other. intros ->. apply Hk. left; reflexivity. }
    rewrite Hnot. apply clook_cset_same.
  - apply IH; assumption.
Qed.
