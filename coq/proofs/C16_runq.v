(* C16 / C14 — proofs about the runQueue model (model/C16_runq.v), for an arbitrary pool behaviour. *)
From Coq Require Import List ZArith Bool NArith Lia Permutation Sorted.
From AV Require Import model.C16_runq.
Import ListNotations.
Local Open Scope Z_scope.

(* ---------------- sorting ---------------- *)
Definition prio_ge (a b : ent) : Prop := e_prio b <= e_prio a.

Lemma ins_prio_perm x l : Permutation (ins_prio x l) (x :: l).
Proof.
  induction l as [|y r IH]; cbn [ins_prio]; [reflexivity|].
  destruct (e_prio y <? e_prio x); [reflexivity|]. rewrite IH. apply perm_swap.
Qed.
Lemma psort_perm l : Permutation (psort l) l.
Proof.
  induction l as [|x r IH]; cbn [psort fold_right]; [constructor|].
  fold (psort r). rewrite ins_prio_perm. constructor. exact IH.
Qed.
Lemma ins_prio_sorted x l : StronglySorted prio_ge l -> StronglySorted prio_ge (ins_prio x l).
Proof.
  induction l as [|y r IH]; intros H; cbn [ins_prio].
  - repeat constructor.
  - apply StronglySorted_inv in H. destruct H as [Hr Hy].
    destruct (e_prio y <? e_prio x) eqn:E.
    + apply Z.ltb_lt in E. constructor; [constructor; auto|].
      constructor; [unfold prio_ge; lia|].
      rewrite Forall_forall in *. intros z Hz. specialize (Hy z Hz). unfold prio_ge in *. lia.
    + apply Z.ltb_ge in E. constructor; [apply IH; exact Hr|].
      rewrite Forall_forall in *. intros z Hz.
      apply (Permutation_in _ (ins_prio_perm x r)) in Hz. destruct Hz as [<-|Hz]; [exact E|apply Hy; exact Hz].
Qed.
Lemma psort_sorted l : StronglySorted prio_ge (psort l).
Proof.
  induction l as [|x r IH]; cbn [psort fold_right]; [constructor|]. apply ins_prio_sorted. exact IH.
Qed.

Lemma psort_sorted_perm ents : Permutation (psort ents) ents /\ StronglySorted prio_ge (psort ents).
Proof. split; [apply psort_perm|apply psort_sorted]. Qed.

(* in a priority-sorted list a strictly higher priority comes first *)
Lemma sorted_split_before l : forall v u,
  StronglySorted prio_ge l -> In v l -> In u l -> e_prio u < e_prio v ->
  exists l1 l2, l = l1 ++ v :: l2 /\ In u l2.
Proof.
  induction l as [|x r IH]; intros v u Hs Hv Hu Hp; [destruct Hv|].
  apply StronglySorted_inv in Hs. destruct Hs as [Hr Hx]. rewrite Forall_forall in Hx.
  destruct Hv as [<-|Hv].
  - exists [], r. split; [reflexivity|]. destruct Hu as [<-|Hu]; [lia|exact Hu].
  - destruct Hu as [<-|Hu].
    + specialize (Hx v Hv). unfold prio_ge in Hx. lia.
    + destruct (IH v u Hr Hv Hu Hp) as (l1 & l2 & -> & Hin). exists (x :: l1), l2. split; [reflexivity|exact Hin].
Qed.

Lemma sorted_app_tail l1 : forall l2 u v,
  StronglySorted prio_ge (l1 ++ l2) -> In u l2 -> In v (l1 ++ l2) -> e_prio v < e_prio u -> In v l2.
Proof.
  induction l1 as [|x r IH]; intros l2 u v Hs Hu Hv Hp; cbn [app] in *; [exact Hv|].
  apply StronglySorted_inv in Hs. destruct Hs as [Hr Hx]. rewrite Forall_forall in Hx.
  destruct Hv as [<-|Hv].
  - assert (In u (r ++ l2)) by (apply in_or_app; right; exact Hu). specialize (Hx u H). unfold prio_ge in Hx. lia.
  - eapply IH; eauto.
Qed.

(* ---------------- the latch as a function of the log ---------------- *)
Lemma dont_after_app d a b : dont_after d (a ++ b) = dont_after (dont_after d a) b.
Proof.
  revert d. induction a as [|x a IH]; intros d; cbn [app dont_after]; [reflexivity|].
  destruct x as [| |it u [|]|]; apply IH.
Qed.
Lemma latch_b_app d a b : latch_b d (a ++ b) = latch_b d a && latch_b (dont_after d a) b.
Proof.
  revert d. induction a as [|x a IH]; intros d; cbn [app latch_b dont_after]; [reflexivity|].
  destruct x as [| |it u [|]|]; rewrite ?IH, ?andb_assoc; reflexivity.
Qed.
Lemma memN_In x l : memN x l = true <-> In x l.
Proof.
  unfold memN. rewrite existsb_exists. split.
  - intros (y & Hy & E). apply N.eqb_eq in E. subst. exact Hy.
  - intros H. exists x. split; [exact H|apply N.eqb_refl].
Qed.
Lemma memN_cons x y l : memN x (y :: l) = N.eqb x y || memN x l.
Proof. reflexivity. Qed.
Lemma dont_after_mono d evs it : memN it d = true -> memN it (dont_after d evs) = true.
Proof.
  revert d. induction evs as [|x r IH]; intros d H; cbn [dont_after]; [exact H|].
  destruct x as [| |it' u [|]|]; try (apply IH; exact H).
  apply IH. rewrite memN_cons, H. apply orb_true_r.
Qed.
Lemma latch_blocks d evs it : latch_b d evs = true -> memN it d = true -> forall u r, ~ In (EStart it u r) evs.
Proof.
  revert d. induction evs as [|x rest IH]; intros d Hl Hm u r Hin; [destruct Hin|].
  destruct x as [u0 r0|it0 r0|it0 u0 r0|u0]; cbn [latch_b] in Hl.
  - destruct Hin as [E|Hin]; [discriminate|]. eapply IH; eauto.
  - destruct Hin as [E|Hin]; [discriminate|]. eapply IH; eauto.
  - apply andb_true_iff in Hl. destruct Hl as [Hn Hl].
    destruct Hin as [E|Hin].
    + injection E as -> -> ->. rewrite Hm in Hn. discriminate.
    + eapply (IH _ Hl); [|exact Hin]. destruct r0; [exact Hm|]. rewrite memN_cons, Hm. apply orb_true_r.
  - destruct Hin as [E|Hin]; [discriminate|]. eapply IH; eauto.
Qed.

(* the latch in the words of the property: after a failed StartContainer(it, _) no later
   StartContainer(it, _) in the same pass *)
Definition latch_prop (log : list ev) : Prop :=
  forall a it u b, log = a ++ EStart it u false :: b -> forall u' r', ~ In (EStart it u' r') b.

Lemma latch_b_sound_gen d log : latch_b d log = true ->
  (forall a it u b, log = a ++ EStart it u false :: b -> forall u' r', ~ In (EStart it u' r') b).
Proof.
  revert d. induction log as [|x rest IH]; intros d Hl a it u b E u' r'.
  - destruct a; discriminate.
  - destruct a as [|y a]; cbn [app] in E.
    + injection E as -> ->. cbn [latch_b] in Hl. apply andb_true_iff in Hl. destruct Hl as [_ Hl].
      apply (latch_blocks _ _ it Hl). rewrite memN_cons, N.eqb_refl. reflexivity.
    + injection E as -> ->. destruct y as [u0 r0|it0 r0|it0 u0 r0|u0]; cbn [latch_b] in Hl;
        try (eapply IH; [exact Hl|reflexivity]).
      apply andb_true_iff in Hl. destruct Hl as [_ Hl]. eapply IH; [exact Hl|reflexivity].
Qed.
Lemma latch_b_complete_gen log : forall d,
  (forall it, memN it d = true -> forall u r, ~ In (EStart it u r) log) ->
  latch_prop log -> latch_b d log = true.
Proof.
  induction log as [|x rest IH]; intros d Hd Hp; [reflexivity|].
  assert (Hp' : latch_prop rest).
  { intros a it u b E. apply (Hp (x :: a) it u b). cbn [app]. rewrite E. reflexivity. }
  destruct x as [u0 r0|it0 r0|it0 u0 r0|u0]; cbn [latch_b];
    try (apply IH; [intros it Hm u r Hin; apply (Hd it Hm u r); right; exact Hin|exact Hp']).
  apply andb_true_iff. split.
  - destruct (memN it0 d) eqn:E; [|reflexivity]. exfalso. apply (Hd it0 E u0 r0). left; reflexivity.
  - apply IH; [|exact Hp'].
    intros it Hm u r Hin. destruct r0.
    + apply (Hd it Hm u r). right; exact Hin.
    + rewrite memN_cons in Hm. apply orb_true_iff in Hm. destruct Hm as [Hm|Hm].
      * apply N.eqb_eq in Hm. subst it0. apply (Hp [] it u0 rest eq_refl u r). exact Hin.
      * apply (Hd it Hm u r). right; exact Hin.
Qed.
Theorem latch_b_reflects log : latch_b [] log = true <-> latch_prop log.
Proof.
  split; [intros H; exact (latch_b_sound_gen [] log H)|].
  intros H. apply latch_b_complete_gen; [intros it Hm; discriminate|exact H].
Qed.

(* ---------------- one iteration ---------------- *)
Section RQ.
Variable P : Type.
Variable p_quota : P -> bool * P.
Variable p_kill : N -> P -> bool * P.
Variable p_create : N -> P -> bool * P.
Variable p_start : N -> N -> P -> bool * P.
Variable running : list N.

Notation step := (step P p_quota p_kill p_create p_start running).
Notation loop := (loop P p_quota p_kill p_create p_start running).
Notation try_start := (try_start P p_kill p_start).
Notation eligible := (eligible running).

(* the events of an iteration concern that entry only *)
Definition about (e : ent) (x : ev) : Prop :=
  match x with
  | EKill u _ => u = e_uuid e
  | ECreate it _ => it = e_it e
  | EStart it u _ => it = e_it e /\ u = e_uuid e
  | EUnlock u => u = e_uuid e
  end.

Ltac splits := match goal with |- _ /\ _ => split; [|splits] | _ => idtac end.
Ltac inv_pair := repeat match goal with
  | H : (_, _) = (_, _) |- _ => injection H; clear H; intros; subst
  end.

Lemma try_start_facts e s evs s' :
  try_start e s = (evs, s') ->
  Forall (about e) evs /\
  latch_b (dontstart s) evs = true /\
  dontstart s' = dont_after (dontstart s) evs /\
  unalloc s' = unalloc s /\ locks s' = locks s /\
  (forall x, In x evs -> match x with EKill _ _ | EStart _ _ _ => True | _ => False end) /\
  (memN (e_it e) (dontstart s') = true \/ In (EStart (e_it e) (e_uuid e) true) evs \/ In (EKill (e_uuid e) true) evs) /\
  (forall a it u r b, evs = a ++ EStart it u r :: b -> exists a', a = a' ++ [EKill u false]).
Proof.
  unfold C16_runq.try_start. intros H.
  destruct (memN (e_it e) (dontstart s)) eqn:Ed.
  { inv_pair. splits.
    - constructor.
    - reflexivity.
    - reflexivity.
    - reflexivity.
    - reflexivity.
    - intros x [].
    - left. exact Ed.
    - intros a it u r b E. destruct a; discriminate. }
  destruct (p_kill (e_uuid e) (pool s)) as [k p1]. destruct k.
  { inv_pair. cbn [dontstart unalloc locks]. splits.
    - repeat constructor.
    - reflexivity.
    - reflexivity.
    - reflexivity.
    - reflexivity.
    - intros x [<-|[]]. exact I.
    - right; right. left; reflexivity.
    - intros a it u r b E. destruct a as [|y [|z a]]; discriminate. }
  destruct (p_start (e_it e) (e_uuid e) p1) as [r p2]. inv_pair. cbn [dontstart unalloc locks]. splits.
  - repeat constructor.
  - cbn [latch_b]. rewrite Ed. destruct r; reflexivity.
  - destruct r; reflexivity.
  - reflexivity.
  - reflexivity.
  - intros x [<-|[<-|[]]]; exact I.
  - destruct r; [right; left; right; left; reflexivity|left; rewrite memN_cons, N.eqb_refl; reflexivity].
  - intros a it u r0 b E. destruct a as [|y [|z a]]; cbn [app] in E; try discriminate.
    + injection E; intros; subst. exists []. reflexivity.
    + injection E; intros HH; intros. destruct a; discriminate.
Qed.

Record step_facts (e : ent) (s : rstate P) (evs : list ev) (s' : rstate P) (brk : bool) : Prop := {
  sf_about : Forall (about e) evs;
  sf_latch : latch_b (dontstart s) evs = true;
  sf_dont : dontstart s' = dont_after (dontstart s) evs;
  sf_elig : evs <> [] -> eligible e = true;
  sf_start : forall it u r, In (EStart it u r) evs -> e_state e = Locked;
  sf_unlock : forall u, In (EUnlock u) evs -> e_state e = Locked /\ brk = true;
  sf_brk_locked : brk = true -> e_state e = Locked -> evs = [EUnlock (e_uuid e)];
  sf_brk_other : brk = true -> e_state e <> Locked -> evs = [];
  sf_brk_elig : brk = true -> eligible e = true /\ (e_state e = Locked \/ e_state e = Queued);
  sf_outcome : brk = false -> e_state e = Locked -> eligible e = true ->
               memN (e_it e) (dontstart s') = true \/ In (EStart (e_it e) (e_uuid e) true) evs \/
               In (EKill (e_uuid e) true) evs \/ In (ECreate (e_it e) false) evs;
  sf_kill_first : forall a it u r b, evs = a ++ EStart it u r :: b -> exists a', a = a' ++ [EKill u false];
  sf_locks : forall u, In u (locks s') -> In u (locks s) \/
               (u = e_uuid e /\ e_state e = Queued /\ eligible e = true /\ In (EKill u false) evs)
}.

Ltac solve_field El :=
  first
  [ solve [repeat constructor]
  | solve [intros _; exact El]
  | solve [intros HH; exfalso; apply HH; reflexivity]
  | solve [intros; discriminate]
  | solve [intros; congruence]
  | solve [intros ? ? ? HH; repeat (destruct HH as [HH|HH]; [discriminate|]); destruct HH]
  | solve [intros ? HH; repeat (destruct HH as [HH|HH]; [discriminate|]); destruct HH]
  | solve [intros a0 it0 u0 r0 b0 EE; destruct a0 as [|? [|? [|? ?]]]; discriminate]
  | solve [intros ? HH; left; exact HH]
  | solve [split; [exact El|auto]]
  | solve [intros _; split; [exact El|auto]] ].

Lemma step_ok e s evs s' brk : step e s = (evs, s', brk) -> step_facts e s evs s' brk.
Proof.
  unfold C16_runq.step. intros H.
  destruct (C16_runq.eligible running e) eqn:El; cbn [negb] in H.
  2:{ inv_pair. constructor; cbn [dontstart locks unalloc]; try solve_field El. }
  destruct (e_state e) eqn:Es.
  - (* Queued *)
    destruct (if uget (e_it e) (unalloc s) <? 1 then p_quota (pool s) else (false, pool s)) as [stop p0].
    destruct stop.
    { inv_pair. constructor; cbn [dontstart locks unalloc]; try solve_field El. }
    destruct (p_kill (e_uuid e) p0) as [k p1]. destruct k; inv_pair.
    + constructor; cbn [dontstart locks unalloc]; try solve_field El.
    + constructor; cbn [dontstart locks unalloc]; try solve_field El.
      intros u [<-|Hu]; [right|left; exact Hu]. split; [reflexivity|]. split; [exact Es|]. split; [exact El|]. left; reflexivity.
  - (* Locked *)
    destruct (0 <? uget (e_it e) (unalloc s)).
    + destruct (try_start e {| unalloc := udec (e_it e) (unalloc s); dontstart := dontstart s; locks := locks s; pool := pool s |})
        as [evs0 s0] eqn:Et.
      inv_pair. apply try_start_facts in Et. cbn [dontstart locks unalloc] in Et.
      destruct Et as (A & L & D & U & K & Sh & O & KF).
      constructor; try solve_field El; try first [exact A|exact L|exact D|exact KF].
      * intros u Hin. specialize (Sh _ Hin). destruct Sh.
      * intros _ _ _. destruct O as [O|[O|O]]; auto.
      * intros u Hu. left. rewrite K in Hu. exact Hu.
    + destruct (p_quota (pool s)) as [q p0]. destruct q.
      { inv_pair. constructor; cbn [dontstart locks unalloc]; try solve_field El.
        intros u [E|[]]. split; [exact Es|reflexivity]. }
      destruct (p_create (e_it e) p0) as [c p1]. destruct c.
      * destruct (try_start e {| unalloc := unalloc s; dontstart := dontstart s; locks := locks s; pool := p1 |})
          as [evs0 s0] eqn:Et.
        inv_pair. apply try_start_facts in Et. cbn [dontstart locks unalloc] in Et.
        destruct Et as (A & L & D & U & K & Sh & O & KF).
        constructor; try solve_field El; try first [exact L|exact D].
        -- constructor; [reflexivity|exact A].
        -- intros u [E|Hin]; [discriminate|]. specialize (Sh _ Hin). destruct Sh.
        -- intros _ _ _. destruct O as [O|[O|O]]; auto. right; left; right; exact O. right; right; left; right; exact O.
        -- intros a it u r b E. destruct a as [|y a]; cbn [app] in E; [discriminate|].
           injection E as <- E. destruct (KF _ _ _ _ _ E) as [a' ->]. exists (ECreate (e_it e) true :: a'). reflexivity.
        -- intros u Hu. left. rewrite K in Hu. exact Hu.
      * inv_pair. constructor; cbn [dontstart locks unalloc]; try solve_field El.
  - inv_pair. constructor; cbn [dontstart locks unalloc]; try solve_field El.
  - inv_pair. constructor; cbn [dontstart locks unalloc]; try solve_field El.
  - inv_pair. constructor; cbn [dontstart locks unalloc]; try solve_field El.
  - inv_pair. constructor; cbn [dontstart locks unalloc]; try solve_field El.
Qed.

(* ---------------- the loop ---------------- *)
Lemma loop_cons e r s :
  loop (e :: r) s =
  let '(evs, s', brk) := step e s in
  if brk then (evs, s', Some (e :: r))
  else let '(evs2, s'', t) := loop r s' in (evs ++ evs2, s'', t).
Proof. reflexivity. Qed.

(* every event stems from the iteration of some entry *)
Lemma loop_in l : forall s evs s' t x,
  loop l s = (evs, s', t) -> In x evs ->
  exists e s0 evs0 s1 b, In e l /\ step e s0 = (evs0, s1, b) /\ In x evs0.
Proof.
  induction l as [|e r IH]; intros s evs s' t x H Hin.
  - cbn in H. inv_pair. destruct Hin.
  - rewrite loop_cons in H. destruct (step e s) as [[evs0 s1] b] eqn:Es. destruct b.
    + inv_pair. exists e, s, evs, s', true. split; [left; reflexivity|]. split; [exact Es|exact Hin].
    + destruct (loop r s1) as [[evs2 s2] t2] eqn:El. inv_pair.
      apply in_app_or in Hin. destruct Hin as [Hin|Hin].
      * exists e, s, evs0, s1, false. split; [left; reflexivity|]. split; [exact Es|exact Hin].
      * destruct (IH _ _ _ _ _ El Hin) as (e' & s0 & ev' & s1' & b' & A & B & C).
        exists e', s0, ev', s1', b'. split; [right; exact A|]. split; assumption.
Qed.

Lemma loop_latch l : forall s evs s' t,
  loop l s = (evs, s', t) -> latch_b (dontstart s) evs = true /\ dontstart s' = dont_after (dontstart s) evs.
Proof.
  induction l as [|e r IH]; intros s evs s' t H.
  - cbn in H. inv_pair. split; reflexivity.
  - rewrite loop_cons in H. destruct (step e s) as [[evs0 s1] b] eqn:Es.
    pose proof (step_ok _ _ _ _ _ Es) as F. destruct b.
    + inv_pair. split; [apply (sf_latch _ _ _ _ _ F)|apply (sf_dont _ _ _ _ _ F)].
    + destruct (loop r s1) as [[evs2 s2] t2] eqn:El. inv_pair.
      destruct (IH _ _ _ _ El) as [L D].
      rewrite latch_b_app, dont_after_app, <- (sf_dont _ _ _ _ _ F), (sf_latch _ _ _ _ _ F), L, D. split; reflexivity.
Qed.

(* where the loop breaks *)
Lemma loop_tail l : forall s evs s' tail,
  loop l s = (evs, s', Some tail) ->
  exists l1 e r, l = l1 ++ tail /\ tail = e :: r /\ eligible e = true /\
                 (e_state e = Locked \/ e_state e = Queued) /\
                 (forall u, In (EUnlock u) evs -> u = e_uuid e /\ e_state e = Locked).
Proof.
  induction l as [|e r IH]; intros s evs s' tail H.
  - cbn in H. discriminate.
  - rewrite loop_cons in H. destruct (step e s) as [[evs0 s1] b] eqn:Es.
    pose proof (step_ok _ _ _ _ _ Es) as F. destruct b.
    + injection H as <- <- <-. exists [], e, r. split; [reflexivity|]. split; [reflexivity|].
      destruct (sf_brk_elig _ _ _ _ _ F eq_refl) as [E1 E2]. split; [exact E1|]. split; [exact E2|].
      intros u Hu. destruct (sf_unlock _ _ _ _ _ F u Hu) as [L _]. split; [|exact L].
      pose proof (sf_about _ _ _ _ _ F) as A. rewrite Forall_forall in A. exact (A _ Hu).
    + destruct (loop r s1) as [[evs2 s2] t2] eqn:El. injection H as <- <- ->.
      destruct (IH _ _ _ _ El) as (l1 & e' & r' & -> & -> & E1 & E2 & E3).
      exists (e :: l1), e', r'. split; [reflexivity|]. split; [reflexivity|]. split; [exact E1|]. split; [exact E2|].
      intros u Hu. apply in_app_or in Hu. destruct Hu as [Hu|Hu]; [|apply E3; exact Hu].
      destruct (sf_unlock _ _ _ _ _ F u Hu) as [_ Hb]. discriminate.
Qed.
Lemma loop_no_unlock l : forall s evs s' u,
  loop l s = (evs, s', None) -> ~ In (EUnlock u) evs.
Proof.
  induction l as [|e r IH]; intros s evs s' u H Hu.
  - cbn in H. inv_pair. destruct Hu.
  - rewrite loop_cons in H. destruct (step e s) as [[evs0 s1] b] eqn:Es.
    pose proof (step_ok _ _ _ _ _ Es) as F. destruct b; [discriminate|].
    destruct (loop r s1) as [[evs2 s2] t2] eqn:El. injection H as <- <- ->.
    apply in_app_or in Hu. destruct Hu as [Hu|Hu]; [|eapply IH; eauto].
    destruct (sf_unlock _ _ _ _ _ F u Hu) as [_ Hb]. discriminate.
Qed.

(* a blocked type sees no start for the rest of the pass *)
Lemma loop_blocked l s evs s' t it :
  loop l s = (evs, s', t) -> memN it (dontstart s) = true -> forall u r, ~ In (EStart it u r) evs.
Proof.
  intros H Hm. destruct (loop_latch _ _ _ _ _ H) as [L _]. exact (latch_blocks _ _ it L Hm).
Qed.

Definition uuids (l : list ent) : list N := map e_uuid l.

Lemma loop_uuids l s evs s' t it u r :
  loop l s = (evs, s', t) -> In (EStart it u r) evs -> In u (uuids l).
Proof.
  intros H Hin. destruct (loop_in _ _ _ _ _ _ H Hin) as (e & s0 & ev0 & s1 & b & A & B & C).
  pose proof (step_ok _ _ _ _ _ B) as F. pose proof (sf_about _ _ _ _ _ F) as Ab. rewrite Forall_forall in Ab.
  destruct (Ab _ C) as [_ ->]. unfold uuids. apply in_map. exact A.
Qed.

(* no overtaking: if a start (successful or not) is attempted for u, every eligible Locked entry v of
   the same instance type that is earlier in the sorted queue was started, or still has a lingering
   process being killed, or the pool refused to create an instance for it *)
Lemma loop_no_overtake l1 : forall s v l2 evs s' t uu r,
  loop (l1 ++ v :: l2) s = (evs, s', t) -> NoDup (uuids (l1 ++ v :: l2)) ->
  e_state v = Locked -> eligible v = true ->
  In (EStart (e_it v) uu r) evs -> In uu (uuids l2) ->
  In (EStart (e_it v) (e_uuid v) true) evs \/ In (EKill (e_uuid v) true) evs \/ In (ECreate (e_it v) false) evs.
Proof.
  induction l1 as [|x l1 IH]; intros s v l2 evs s' t uu r H Hnd Hl He Hin Hu; cbn [app] in *.
  - rewrite loop_cons in H. destruct (step v s) as [[evs0 s1] b] eqn:Es.
    pose proof (step_ok _ _ _ _ _ Es) as F.
    assert (Hne : uu <> e_uuid v).
    { cbn in Hnd. apply NoDup_cons_iff in Hnd. destruct Hnd as [Hn _]. intros ->. exact (Hn Hu). }
    assert (Hnot0 : ~ In (EStart (e_it v) uu r) evs0).
    { intros Hi. pose proof (sf_about _ _ _ _ _ F) as Ab. rewrite Forall_forall in Ab. destruct (Ab _ Hi) as [_ E]. auto. }
    destruct b.
    + inv_pair. contradiction.
    + destruct (loop l2 s1) as [[evs2 s2] t2] eqn:El. inv_pair.
      apply in_app_or in Hin. destruct Hin as [Hin|Hin]; [contradiction|].
      destruct (sf_outcome _ _ _ _ _ F eq_refl Hl He) as [O|[O|[O|O]]].
      * exfalso. exact (loop_blocked _ _ _ _ _ _ El O _ _ Hin).
      * left. apply in_or_app. left; exact O.
      * right; left. apply in_or_app. left; exact O.
      * right; right. apply in_or_app. left; exact O.
  - rewrite loop_cons in H. destruct (step x s) as [[evs0 s1] b] eqn:Es.
    pose proof (step_ok _ _ _ _ _ Es) as F.
    assert (Hne : uu <> e_uuid x).
    { cbn in Hnd. apply NoDup_cons_iff in Hnd. destruct Hnd as [Hn _]. intros ->. apply Hn.
      unfold uuids. rewrite map_app. apply in_or_app. right. right. exact Hu. }
    assert (Hnot0 : ~ In (EStart (e_it v) uu r) evs0).
    { intros Hi. pose proof (sf_about _ _ _ _ _ F) as Ab. rewrite Forall_forall in Ab. destruct (Ab _ Hi) as [_ E]. auto. }
    destruct b.
    + inv_pair. contradiction.
    + destruct (loop (l1 ++ v :: l2) s1) as [[evs2 s2] t2] eqn:El. inv_pair.
      apply in_app_or in Hin. destruct Hin as [Hin|Hin]; [contradiction|].
      cbn in Hnd. apply NoDup_cons_iff in Hnd. destruct Hnd as [_ Hnd].
      destruct (IH _ _ _ _ _ _ _ _ El Hnd Hl He Hin Hu) as [O|[O|O]].
      * left. apply in_or_app. right; exact O.
      * right; left. apply in_or_app. right; exact O.
      * right; right. apply in_or_app. right; exact O.
Qed.

(* ---------------- runQueue ---------------- *)
Notation run_queue_sorted := (run_queue_sorted P p_quota p_kill p_create p_start running).

(* ---------------- an invariant of the pool is carried through a pass ---------------- *)
Section PoolInv.
Variable R : P -> Prop.
Variable H : N -> Prop.      (* what is known about a uuid whose start succeeds in this pass *)
Hypothesis Rq : forall p, R p -> R (snd (p_quota p)).
Hypothesis Rk : forall u p, R p -> R (snd (p_kill u p)).
Hypothesis Rc : forall it p, R p -> R (snd (p_create it p)).
(* StartContainer is only ever called right after KillContainer(uuid) answered false *)
Hypothesis Rs : forall it u p, R p -> fst (p_kill u p) = false ->
  (fst (p_start it u (snd (p_kill u p))) = true -> H u) ->
  R (snd (p_start it u (snd (p_kill u p)))).

Lemma try_start_inv e s evs s' :
  try_start e s = (evs, s') -> R (pool s) -> (forall it u, In (EStart it u true) evs -> H u) -> R (pool s').
Proof.
  unfold C16_runq.try_start. intros E HR HH.
  destruct (memN (e_it e) (dontstart s)); [inv_pair; exact HR|].
  destruct (p_kill (e_uuid e) (pool s)) as [k p1] eqn:Ek. destruct k.
  - inv_pair. cbn [pool]. pose proof (Rk (e_uuid e) _ HR) as X. rewrite Ek in X. exact X.
  - destruct (p_start (e_it e) (e_uuid e) p1) as [r p2] eqn:Es. inv_pair. cbn [pool].
    pose proof (Rs (e_it e) (e_uuid e) _ HR) as X. rewrite Ek in X. cbn [fst snd] in X. rewrite Es in X. cbn [fst snd] in X.
    apply X; [reflexivity|]. intros ->. apply (HH (e_it e)). right; left; reflexivity.
Qed.

Lemma step_inv e s evs s' brk :
  step e s = (evs, s', brk) -> R (pool s) -> (forall it u, In (EStart it u true) evs -> H u) -> R (pool s').
Proof.
  unfold C16_runq.step. intros E HR HH.
  destruct (negb (C16_runq.eligible running e)); [inv_pair; exact HR|].
  destruct (e_state e); try (inv_pair; exact HR).
  - (* Queued *)
    destruct (uget (e_it e) (unalloc s) <? 1).
    + destruct (p_quota (pool s)) as [q p0] eqn:Eq. pose proof (Rq _ HR) as X0. rewrite Eq in X0. cbn [snd] in X0.
      destruct q; [inv_pair; exact X0|].
      destruct (p_kill (e_uuid e) p0) as [k p1] eqn:Ek. pose proof (Rk (e_uuid e) _ X0) as X1. rewrite Ek in X1.
      destruct k; inv_pair; exact X1.
    + destruct (p_kill (e_uuid e) (pool s)) as [k p1] eqn:Ek. pose proof (Rk (e_uuid e) _ HR) as X1. rewrite Ek in X1.
      destruct k; inv_pair; exact X1.
  - (* Locked *)
    destruct (0 <? uget (e_it e) (unalloc s)).
    + destruct (try_start e {| unalloc := udec (e_it e) (unalloc s); dontstart := dontstart s; locks := locks s; pool := pool s |})
        as [evs0 s0] eqn:Et. inv_pair. eapply try_start_inv; [exact Et|exact HR|exact HH].
    + destruct (p_quota (pool s)) as [q p0] eqn:Eq. pose proof (Rq _ HR) as X0. rewrite Eq in X0. cbn [snd] in X0.
      destruct q; [inv_pair; exact X0|].
      destruct (p_create (e_it e) p0) as [c p1] eqn:Ec. pose proof (Rc (e_it e) _ X0) as X1. rewrite Ec in X1. cbn [snd] in X1.
      destruct c; [|inv_pair; exact X1].
      destruct (try_start e {| unalloc := unalloc s; dontstart := dontstart s; locks := locks s; pool := p1 |}) as [evs0 s0] eqn:Et.
      inv_pair. eapply try_start_inv; [exact Et|exact X1|]. intros it u Hin. apply (HH it). right; exact Hin.
Qed.

Lemma loop_inv l : forall s evs s' t,
  loop l s = (evs, s', t) -> R (pool s) -> (forall it u, In (EStart it u true) evs -> H u) -> R (pool s').
Proof.
  induction l as [|e r IH]; intros s evs s' t E HR HH.
  - cbn in E. inv_pair. exact HR.
  - rewrite loop_cons in E. destruct (step e s) as [[evs0 s1] b] eqn:Es. destruct b.
    + inv_pair. eapply step_inv; eauto.
    + destruct (loop r s1) as [[evs2 s2] t2] eqn:El. inv_pair.
      eapply IH; [exact El| |].
      * eapply step_inv; [exact Es|exact HR|]. intros it u Hin. apply (HH it). apply in_or_app. left; exact Hin.
      * intros it u Hin. apply (HH it). apply in_or_app. right; exact Hin.
Qed.

Theorem rq_pool_inv sorted u0 p :
  R p -> (forall it u, In (EStart it u true) (r_log (run_queue_sorted sorted u0 p)) -> H u) ->
  R (r_pool (run_queue_sorted sorted u0 p)).
Proof.
  intros HR HH. unfold C16_runq.run_queue_sorted in *.
  destruct (loop sorted (mkrs u0 [] [] p)) as [[evs s] t] eqn:E.
  assert (R (pool s)).
  { eapply loop_inv; [exact E|exact HR|]. intros it u Hin. apply (HH it).
    destruct t; cbn [r_log]; [apply in_or_app; left; exact Hin|exact Hin]. }
  destruct t; exact H0.
Qed.
End PoolInv.


Lemma rq_log_cases sorted u0 p :
  exists evs s t, loop sorted (mkrs u0 [] [] p) = (evs, s, t) /\
    r_log (run_queue_sorted sorted u0 p) =
      evs ++ match t with None => [] | Some tail => map (fun e => EUnlock (e_uuid e)) (filter is_locked tail) end /\
    r_locks (run_queue_sorted sorted u0 p) = locks s.
Proof.
  unfold C16_runq.run_queue_sorted.
  destruct (loop sorted (mkrs u0 [] [] p)) as [[evs s] t] eqn:E. exists evs, s, t. split; [reflexivity|].
  destruct t; cbn [r_log r_locks]; [split; reflexivity|]. rewrite app_nil_r. split; reflexivity.
Qed.

Lemma in_unlock_map tail x :
  In x (map (fun e => EUnlock (e_uuid e)) (filter is_locked tail)) ->
  exists e, x = EUnlock (e_uuid e) /\ In e tail /\ e_state e = Locked.
Proof.
  intros H. apply in_map_iff in H. destruct H as (e & <- & Hf). apply filter_In in Hf. destruct Hf as [Hin Hl].
  exists e. split; [reflexivity|]. split; [exact Hin|]. unfold is_locked in Hl. destruct (e_state e); try discriminate. reflexivity.
Qed.

(* C14/C16: a start is only ever attempted for a cache-Locked entry with priority >= 1 that the pool
   does not report as running, on that entry's instance type *)
Theorem rq_start_only_locked_positive sorted u0 p it u r :
  In (EStart it u r) (r_log (run_queue_sorted sorted u0 p)) ->
  exists e, In e sorted /\ e_uuid e = u /\ e_it e = it /\ e_state e = Locked /\ 1 <= e_prio e /\ memN u running = false.
Proof.
  destruct (rq_log_cases sorted u0 p) as (evs & s & t & El & -> & _). intros Hin.
  apply in_app_or in Hin. destruct Hin as [Hin|Hin].
  - destruct (loop_in _ _ _ _ _ _ El Hin) as (e & s0 & ev0 & s1 & b & A & B & C).
    pose proof (step_ok _ _ _ _ _ B) as F. pose proof (sf_about _ _ _ _ _ F) as Ab. rewrite Forall_forall in Ab.
    destruct (Ab _ C) as [-> ->]. exists e. split; [exact A|]. split; [reflexivity|]. split; [reflexivity|].
    split; [exact (sf_start _ _ _ _ _ F _ _ _ C)|].
    assert (He : eligible e = true) by (apply (sf_elig _ _ _ _ _ F); intros ->; destruct C).
    unfold C16_runq.eligible in He. apply andb_true_iff in He. destruct He as [H1 H2].
    apply Z.leb_le in H2. split; [exact H2|]. destruct (memN (e_uuid e) running); [discriminate|reflexivity].
  - destruct t as [tail|]; [|destruct Hin]. apply in_unlock_map in Hin. destruct Hin as (e & E & _). discriminate.
Qed.

(* KillContainer is asked (and answers "no process") immediately before every StartContainer *)
Theorem rq_kill_before_start sorted u0 p a it u r b :
  r_log (run_queue_sorted sorted u0 p) = a ++ EStart it u r :: b -> exists a', a = a' ++ [EKill u false].
Proof.
  destruct (rq_log_cases sorted u0 p) as (evs & s & t & El & -> & _).
  set (tl := match t with None => [] | Some tail => map (fun e => EUnlock (e_uuid e)) (filter is_locked tail) end).
  assert (Htl : forall x, In x tl -> exists v, x = EUnlock v).
  { intros x Hx. subst tl. destruct t as [tail|]; [|destruct Hx]. apply in_unlock_map in Hx. destruct Hx as (e & -> & _). eauto. }
  clearbody tl. revert s sorted El. generalize (mkrs u0 (@nil N) (@nil N) p).
  intros s0 s sorted. revert s0 s evs a.
  induction sorted as [|e rest IH]; intros s0 s evs a El E.
  - cbn in El. inv_pair. cbn [app] in E.
    assert (In (EStart it u r) tl) by (rewrite E; apply in_or_app; right; left; reflexivity).
    destruct (Htl _ H) as [v Hv]. discriminate.
  - rewrite loop_cons in El. destruct (step e s0) as [[evs0 s1] bk] eqn:Es.
    pose proof (step_ok _ _ _ _ _ Es) as F.
    assert (Hsplit : forall rest_evs, (evs0 ++ rest_evs) = a ++ EStart it u r :: b ->
              (exists b0, evs0 = a ++ EStart it u r :: b0) \/ (exists a1, a = evs0 ++ a1 /\ rest_evs = a1 ++ EStart it u r :: b)).
    { clear. revert a. induction evs0 as [|x ev IH]; intros a rest_evs E; cbn [app] in *.
      - right. exists a. split; [reflexivity|exact E].
      - destruct a as [|y a]; cbn [app] in E.
        + injection E as -> E. left. exists ev. reflexivity.
        + injection E as -> E. destruct (IH _ _ E) as [[b0 ->]|[a1 [-> ->]]].
          * left. exists b0. reflexivity.
          * right. exists a1. split; reflexivity. }
    destruct bk.
    + inv_pair. destruct (Hsplit tl E) as [[b0 E0]|[a1 [-> E1]]].
      * exact (sf_kill_first _ _ _ _ _ F _ _ _ _ _ E0).
      * assert (In (EStart it u r) tl) by (rewrite E1; apply in_or_app; right; left; reflexivity).
        destruct (Htl _ H) as [v Hv]. discriminate.
    + destruct (loop rest s1) as [[evs2 s2] t2] eqn:El2. inv_pair. rewrite <- app_assoc in E.
      destruct (Hsplit _ E) as [[b0 E0]|[a1 [-> E1]]].
      * exact (sf_kill_first _ _ _ _ _ F _ _ _ _ _ E0).
      * destruct (IH _ _ _ _ El2 E1) as [a' ->]. exists (evs0 ++ a'). rewrite app_assoc. reflexivity.
Qed.

(* C16: the dontstart latch *)
Theorem rq_dontstart_latch sorted u0 p : latch_b [] (r_log (run_queue_sorted sorted u0 p)) = true.
Proof.
  destruct (rq_log_cases sorted u0 p) as (evs & s & t & El & -> & _).
  destruct (loop_latch _ _ _ _ _ El) as [L _]. cbn [dontstart] in L. rewrite latch_b_app, L. cbn [andb].
  destruct t as [tail|]; [|reflexivity].
  generalize (dont_after [] evs). induction (filter is_locked tail) as [|e r IH]; intros d; [reflexivity|apply IH].
Qed.

Theorem rq_dontstart_latch_prop sorted u0 p a it u b :
  r_log (run_queue_sorted sorted u0 p) = a ++ EStart it u false :: b -> forall u' r', ~ In (EStart it u' r') b.
Proof. apply latch_b_reflects. apply rq_dontstart_latch. Qed.

(* C16: no lower-priority start overtakes a Locked container waiting for a worker of the same type *)
Theorem rq_no_overtake sorted u0 p v u r :
  StronglySorted prio_ge sorted -> NoDup (uuids sorted) ->
  In v sorted -> In u sorted -> e_it u = e_it v -> e_prio u < e_prio v ->
  e_state v = Locked -> eligible v = true ->
  In (EStart (e_it u) (e_uuid u) r) (r_log (run_queue_sorted sorted u0 p)) ->
  let log := r_log (run_queue_sorted sorted u0 p) in
  In (EStart (e_it v) (e_uuid v) true) log \/ In (EKill (e_uuid v) true) log \/ In (ECreate (e_it v) false) log.
Proof.
  intros Hs Hnd Hv Hu Hit Hp Hl He Hin. cbn zeta.
  destruct (sorted_split_before _ _ _ Hs Hv Hu Hp) as (l1 & l2 & -> & Hu2).
  destruct (rq_log_cases (l1 ++ v :: l2) u0 p) as (evs & s & t & El & E & _). rewrite E in *.
  assert (Hin' : In (EStart (e_it v) (e_uuid u) r) evs).
  { rewrite Hit in Hin. apply in_app_or in Hin. destruct Hin as [Hin|Hin]; [exact Hin|].
    destruct t as [tail|]; [|destruct Hin]. apply in_unlock_map in Hin. destruct Hin as (e & Ee & _). discriminate. }
  assert (Hu3 : In (e_uuid u) (uuids l2)) by (unfold uuids; apply in_map; exact Hu2).
  destruct (loop_no_overtake _ _ _ _ _ _ _ _ _ El Hnd Hl He Hin' Hu3) as [O|[O|O]].
  - left. apply in_or_app. left; exact O.
  - right; left. apply in_or_app. left; exact O.
  - right; right. apply in_or_app. left; exact O.
Qed.

(* C16: the unlocked containers are a priority-suffix of the sorted queue: if u is unlocked, every
   Locked entry of strictly lower priority is unlocked too *)
Theorem rq_overquota_tail sorted u0 p u v :
  StronglySorted prio_ge sorted -> NoDup (uuids sorted) ->
  In u sorted -> In v sorted -> e_prio v < e_prio u -> e_state v = Locked ->
  In (EUnlock (e_uuid u)) (r_log (run_queue_sorted sorted u0 p)) ->
  In (EUnlock (e_uuid v)) (r_log (run_queue_sorted sorted u0 p)).
Proof.
  intros Hs Hnd Hu Hv Hp Hl Hin.
  destruct (rq_log_cases sorted u0 p) as (evs & s & t & El & E & _). rewrite E in *.
  destruct t as [tail|].
  2:{ rewrite app_nil_r in Hin. exfalso. exact (loop_no_unlock _ _ _ _ _ El Hin). }
  destruct (loop_tail _ _ _ _ _ El) as (l1 & e & r & -> & -> & E1 & E2 & E3).
  assert (Hut : In u (e :: r)).
  { apply in_app_or in Hin. destruct Hin as [Hin|Hin].
    - destruct (E3 _ Hin) as [Hue _].
      (* same uuid, NoDup => same entry *)
      assert (Hin_e : In e (l1 ++ e :: r)) by (apply in_or_app; right; left; reflexivity).
      clear - Hnd Hu Hin_e Hue. revert Hnd Hu Hin_e. generalize (l1 ++ e :: r). intros l Hnd Hu Hin_e.
      assert (u = e).
      { induction l as [|x l IH]; [destruct Hu|]. cbn in Hnd. apply NoDup_cons_iff in Hnd. destruct Hnd as [Hn Hnd].
        destruct Hu as [->|Hu]; destruct Hin_e as [->|Hie]; auto.
        - exfalso. apply Hn. rewrite Hue. apply in_map. exact Hie.
        - exfalso. apply Hn. rewrite <- Hue. apply in_map. exact Hu. }
      subst. left; reflexivity.
    - apply in_unlock_map in Hin. destruct Hin as (e' & Ee & Hin' & _). injection Ee as Ee.
      assert (In e' (l1 ++ e :: r)) by (apply in_or_app; right; exact Hin').
      assert (u = e').
      { clear - Hnd Hu H Ee. revert Hnd Hu H. generalize (l1 ++ e :: r). intros l Hnd Hu H.
        induction l as [|x l IH]; [destruct Hu|]. cbn in Hnd. apply NoDup_cons_iff in Hnd. destruct Hnd as [Hn Hnd].
        destruct Hu as [->|Hu]; destruct H as [->|Hie]; auto.
        - exfalso. apply Hn. rewrite Ee. apply in_map. exact Hie.
        - exfalso. apply Hn. rewrite <- Ee. apply in_map. exact Hu. }
      subst. exact Hin'. }
  pose proof (sorted_app_tail _ _ _ _ Hs Hut Hv Hp) as Hvt.
  apply in_or_app. right. apply in_map_iff. exists v. split; [reflexivity|].
  apply filter_In. split; [exact Hvt|]. unfold is_locked. rewrite Hl. reflexivity.
Qed.

(* unlocking happens only to Locked entries *)
Theorem rq_unlock_only_locked sorted u0 p uu :
  In (EUnlock uu) (r_log (run_queue_sorted sorted u0 p)) ->
  exists e, In e sorted /\ e_uuid e = uu /\ e_state e = Locked.
Proof.
  destruct (rq_log_cases sorted u0 p) as (evs & s & t & El & -> & _). intros Hin.
  apply in_app_or in Hin. destruct Hin as [Hin|Hin].
  - destruct (loop_in _ _ _ _ _ _ El Hin) as (e & s0 & ev0 & s1 & b & A & B & C).
    pose proof (step_ok _ _ _ _ _ B) as F. pose proof (sf_about _ _ _ _ _ F) as Ab. rewrite Forall_forall in Ab.
    exists e. split; [exact A|]. split; [symmetry; exact (Ab _ C)|]. exact (proj1 (sf_unlock _ _ _ _ _ F _ C)).
  - destruct t as [tail|]; [|destruct Hin]. apply in_unlock_map in Hin. destruct Hin as (e & Ee & Hin' & Hl).
    injection Ee as ->. destruct (loop_tail _ _ _ _ _ El) as (l1 & e0 & r & -> & -> & _).
    exists e. split; [apply in_or_app; right; exact Hin'|]. split; [reflexivity|exact Hl].
Qed.

(* lockContainer is spawned only for Queued, priority >= 1 entries without a process, after
   KillContainer answered "no process" *)
Lemma loop_locks l : forall s evs s' t u,
  loop l s = (evs, s', t) -> In u (locks s') -> In u (locks s) \/
  exists e, In e l /\ e_uuid e = u /\ e_state e = Queued /\ eligible e = true /\ In (EKill u false) evs.
Proof.
  induction l as [|e r IH]; intros s evs s' t u H Hu.
  - cbn in H. inv_pair. left; exact Hu.
  - rewrite loop_cons in H. destruct (step e s) as [[evs0 s1] b] eqn:Es.
    pose proof (step_ok _ _ _ _ _ Es) as F. destruct b.
    + inv_pair. destruct (sf_locks _ _ _ _ _ F u Hu) as [L|(-> & A & B & C)]; [left; exact L|].
      right. exists e. split; [left; reflexivity|]. auto.
    + destruct (loop r s1) as [[evs2 s2] t2] eqn:El. inv_pair.
      destruct (IH _ _ _ _ _ El Hu) as [L|(e' & A & B & C & D & E)].
      * destruct (sf_locks _ _ _ _ _ F u L) as [L'|(-> & A & B & C)]; [left; exact L'|].
        right. exists e. split; [left; reflexivity|]. repeat split; auto. apply in_or_app. left; exact C.
      * right. exists e'. split; [right; exact A|]. repeat split; auto. apply in_or_app. right; exact E.
Qed.
Theorem rq_lock_only_queued sorted u0 p u :
  In u (r_locks (run_queue_sorted sorted u0 p)) ->
  exists e, In e sorted /\ e_uuid e = u /\ e_state e = Queued /\ 1 <= e_prio e /\ memN u running = false /\
            In (EKill u false) (r_log (run_queue_sorted sorted u0 p)).
Proof.
  destruct (rq_log_cases sorted u0 p) as (evs & s & t & El & -> & ->). intros Hu.
  destruct (loop_locks _ _ _ _ _ _ El Hu) as [[]|(e & A & B & C & D & E)].
  exists e. split; [exact A|]. split; [exact B|]. split; [exact C|].
  unfold C16_runq.eligible in D. apply andb_true_iff in D. destruct D as [D1 D2]. apply Z.leb_le in D2.
  split; [exact D2|]. split; [subst u; destruct (memN (e_uuid e) running); [discriminate|reflexivity]|].
  apply in_or_app. left; exact E.
Qed.
End RQ.
