(* C12 — proofs about the rendezvous order model. *)
From Coq Require Import Arith NArith List Ascii String Bool Sorted Permutation Lia.
From AV Require Import lib.Str lib.Md5 lib.SortPerm model.C12_model.
Import ListNotations.
Local Open Scope string_scope.

Definition heavier (h : string) (a b : svc) : Prop := str_ltb (wkey h b) (wkey h a) = true.
Definition distinct_weights (h : string) (svcs : list svc) : Prop := NoDup (map (wkey h) svcs).

Lemma sorted_perm h svcs : Permutation (sorted h svcs) svcs.
Proof. apply sort_perm. Qed.

Lemma sorted_desc h svcs : distinct_weights h svcs -> StronglySorted (heavier h) (sorted h svcs).
Proof. intros Hd. apply (sort_sorted svc string (wkey h) str_ltb str_ltb_trans str_ltb_total); exact Hd. Qed.

Lemma sorted_unique h svcs l' :
  distinct_weights h svcs -> Permutation l' svcs -> StronglySorted (heavier h) l' -> l' = sorted h svcs.
Proof.
  intros Hd Hp Hs.
  apply (sort_unique svc string (wkey h) str_ltb str_ltb_irrefl str_ltb_trans str_ltb_total); assumption.
Qed.

Lemma distinct_perm h l l' : Permutation l l' -> distinct_weights h l -> distinct_weights h l'.
Proof. intros Hp Hd. unfold distinct_weights in *. eapply Permutation_NoDup; [apply Permutation_map; exact Hp|exact Hd]. Qed.

(* the order depends on the *set* of services and the hash only: Go's map iteration order and the
   unstable sort.Sort cannot influence it *)
Lemma sorted_input_order_irrelevant h svcs svcs' :
  distinct_weights h svcs -> Permutation svcs svcs' -> sorted h svcs' = sorted h svcs.
Proof.
  intros Hd Hp. apply sorted_unique; [exact Hd| |].
  - etransitivity; [apply sorted_perm|symmetry; exact Hp].
  - apply sorted_desc. eapply distinct_perm; eassumption.
Qed.

Lemma sorted_filter_commute h p svcs :
  distinct_weights h svcs -> sorted h (filter p svcs) = filter p (sorted h svcs).
Proof.
  intros Hd. apply (sort_filter svc string (wkey h) str_ltb str_ltb_irrefl str_ltb_trans str_ltb_total); exact Hd.
Qed.

(* generic: sorting commutes with a key-preserving map *)
Lemma insert_map {A B K} (f : A -> B) (ka : A -> K) (kb : B -> K) ltb (Hk : forall x, kb (f x) = ka x) x l :
  insert B K kb ltb (f x) (map f l) = map f (insert A K ka ltb x l).
Proof.
  induction l as [|y l IH]; cbn [insert map]; [reflexivity|].
  rewrite !Hk. destruct (ltb (ka y) (ka x)); cbn [map]; [reflexivity|]. rewrite IH. reflexivity.
Qed.
Lemma sort_map {A B K} (f : A -> B) (ka : A -> K) (kb : B -> K) ltb (Hk : forall x, kb (f x) = ka x) l :
  sort B K kb ltb (map f l) = map f (sort A K ka ltb l).
Proof.
  induction l as [|x l IH]; cbn [sort fold_right map]; [reflexivity|].
  fold (sort B K kb ltb (map f l)). fold (sort A K ka ltb l). rewrite IH. apply insert_map. exact Hk.
Qed.

Lemma balancer_order_is_client_order h svcs : balancer_order h svcs = map uuid (sorted h svcs).
Proof.
  unfold balancer_order, sorted_roots, sorted.
  rewrite (sort_map (fun s => {| uuid := uuid s; root := uuid s |}) (wkey h) (wkey h) str_ltb); [|reflexivity].
  rewrite map_map. reflexivity.
Qed.

(* writers: the first k writable services in the reader's order are the writer's first k *)
Lemma writer_prefix h (w : svc -> bool) svcs k :
  distinct_weights h svcs ->
  firstn k (sorted h (filter w svcs)) = firstn k (filter w (sorted h svcs)).
Proof. intros Hd. rewrite sorted_filter_commute by exact Hd. reflexivity. Qed.

(* a single addition: the old services keep their relative order *)
Lemma add_stable h s svcs :
  distinct_weights h (s :: svcs) ->
  forall p, (forall x, In x svcs -> p x = true) -> p s = false ->
  filter p (sorted h (s :: svcs)) = sorted h svcs.
Proof.
  intros Hd p Hall Hs. rewrite <- sorted_filter_commute by exact Hd. cbn [filter]. rewrite Hs.
  f_equal. clear Hd Hs. induction svcs as [|x l IH]; cbn [filter]; [reflexivity|].
  rewrite Hall by (left; reflexivity). f_equal. apply IH. intros y Hy. apply Hall. right; exact Hy.
Qed.

Lemma length_drop n s : String.length (drop n s) = String.length s - n.
Proof. revert s; induction n as [|n IH]; intros [|c s]; cbn [drop String.length]; try lia. rewrite IH. lia. Qed.
Lemma take_drop n s : (take n s ++ drop n s)%string = s.
Proof. revert s; induction n as [|n IH]; intros [|c s]; cbn [take drop append]; try reflexivity. rewrite IH. reflexivity. Qed.

Lemma weight_uses_last_15 h u :
  String.length u = 27 ->
  weight h u = md5hex (h ++ drop 12 u) /\ String.length (drop 12 u) = 15 /\ (take 12 u ++ drop 12 u)%string = u.
Proof.
  intros H. unfold weight, wsuffix. rewrite H. cbn [Nat.eqb]. split; [reflexivity|]. split; [rewrite length_drop; lia|apply take_drop].
Qed.
Lemma weight_other_length h u : String.length u <> 27 -> weight h u = md5hex (h ++ u).
Proof. intros H. unfold weight, wsuffix. destruct (Nat.eqb_spec (String.length u) 27); [contradiction|reflexivity]. Qed.

Lemma hints_then_rendezvous gw local loc :
  get_sorted_roots gw local loc = (hint_roots gw loc ++ map root (sorted (take 32 loc) local))%list.
Proof. reflexivity. Qed.

Lemma hint_root_cases gw f :
  hint_root gw f =
    if (7 <=? String.length f)%nat && String.eqb (take 2 f) "K@" then
      if Nat.eqb (String.length f) 7 then ["https://keep." ++ drop 2 f ++ ".arvadosapi.com"]
      else if Nat.eqb (String.length f) 29 then match lookup gw (drop 2 f) with Some r => [r] | None => [] end
      else []
    else [].
Proof.
  unfold hint_root. destruct (Nat.ltb_spec (String.length f) 7) as [H|H].
  - destruct (Nat.leb_spec 7 (String.length f)); [lia|reflexivity].
  - destruct (Nat.leb_spec 7 (String.length f)); [|lia]. cbn [andb]. destruct (String.eqb (take 2 f) "K@"); reflexivity.
Qed.
