(* C07 — the hand-written recogniser parse_signed accepts exactly the strings of the shape that
   SignedLocatorRe describes, and returns the hash, signature and expiry fields of that shape. *)
From Coq Require Import NArith List Ascii String Bool Lia Arith.
From AV Require Import lib.Str lib.TokSplit lib.HexNum model.C07_model.
Import ListNotations.
Local Open Scope string_scope.

(* "+f1+f2+...+fn" *)
Fixpoint plus_fields (fs : list string) : string :=
  match fs with [] => "" | f :: r => "+" ++ f ++ plus_fields r end.

Definition xdigits (n : nat) (s : string) : Prop := String.length s = n /\ all_chars is_xdigit s = true.

(* the language of SignedLocatorRe with its groups 1 (hash), 6 (signature), 7 (expiry) *)
Definition signed_shape (loc h sg e : string) : Prop :=
  exists szl hs1 hs2,
    (szl = [] \/ exists sz, szl = [sz] /\ is_size sz = true) /\
    Forall (fun f => is_hint f = true) hs1 /\ Forall (fun f => is_hint f = true) hs2 /\
    xdigits 32 h /\ xdigits 40 sg /\ xdigits 8 e /\
    loc = h ++ plus_fields (szl ++ hs1 ++ [("A" ++ sg ++ "@" ++ e)%string] ++ hs2)%list.

Lemma join_plus x fs : join "+" (x :: fs) = x ++ plus_fields fs.
Proof.
  revert x. induction fs as [|f r IH]; intros x.
  - cbn. rewrite app_nil_r_s. reflexivity.
  - rewrite join_cons, IH. reflexivity.
Qed.

Lemma drop_drop a b s : drop a (drop b s) = drop (b + a) s.
Proof. revert s. induction b as [|b IH]; intros s; [reflexivity|]. destruct s as [|c r]; [destruct a; reflexivity|]. cbn [drop Nat.add]. apply IH. Qed.

Lemma drop_app_plus a b k : drop (String.length a + k) (a ++ b) = drop k b.
Proof. induction a as [|c r IH]; [reflexivity|]. cbn [String.length Nat.add append drop]. exact IH. Qed.

Lemma take_app_le a b k : k <= String.length a -> take k (a ++ b) = take k a.
Proof.
  revert k. induction a as [|c r IH]; intros k Hk; cbn [String.length] in Hk.
  - replace k with 0 by lia. reflexivity.
  - destruct k as [|k]; [reflexivity|]. cbn [append take]. rewrite IH by lia. reflexivity.
Qed.

(* ---- the signature field ---- *)
Lemma parse_sigfield_some a sg e :
  parse_sigfield a = Some (sg, e) -> a = "A" ++ sg ++ "@" ++ e /\ xdigits 40 sg /\ xdigits 8 e.
Proof.
  unfold parse_sigfield. destruct a as [|c r]; [discriminate|].
  destruct (Ascii.eqb_spec c "A") as [->|]; [|discriminate]. cbn [andb].
  destruct (Nat.eqb_spec (String.length r) 49) as [Hl|]; [|discriminate]. cbn [andb].
  destruct (all_chars is_xdigit (take 40 r)) eqn:H40; [|discriminate]. cbn [andb].
  destruct (String.eqb_spec (take 1 (drop 40 r)) "@") as [Hat|]; [|discriminate]. cbn [andb].
  destruct (all_chars is_xdigit (drop 41 r)) eqn:H8; [|discriminate].
  intro H. assert (Hs : sg = take 40 r) by congruence. assert (He : e = drop 41 r) by congruence.
  clear H. subst sg e. split; [|split].
  - cbn [append]. f_equal. rewrite <- (take_drop 40 r) at 1. f_equal.
    rewrite <- (take_drop 1 (drop 40 r)) at 1. rewrite Hat, drop_drop. reflexivity.
  - unfold xdigits. split; [apply take_length; lia|exact H40].
  - unfold xdigits. split; [rewrite drop_length; lia|exact H8].
Qed.

Lemma parse_sigfield_shape sg e :
  xdigits 40 sg -> xdigits 8 e -> parse_sigfield ("A" ++ sg ++ "@" ++ e) = Some (sg, e).
Proof.
  intros [L40 X40] [L8 X8]. cbn [append parse_sigfield]. rewrite Ascii.eqb_refl. cbn [andb].
  rewrite length_app. cbn [String.length]. rewrite L40, L8. cbn [Nat.add Nat.eqb andb].
  assert (T40 : take 40 (sg ++ String "@" e) = sg) by (rewrite <- L40; apply take_app_exact).
  assert (D40 : drop 40 (sg ++ String "@" e) = String "@" e) by (rewrite <- L40; apply drop_app_exact).
  assert (D41 : drop 41 (sg ++ String "@" e) = e).
  { replace 41 with (String.length sg + 1) by lia. rewrite drop_app_plus. reflexivity. }
  rewrite T40, D40, D41, X40, X8. cbn. reflexivity.
Qed.

(* ---- hints ---- *)
Lemma skip_hints_spec fs :
  exists hs, fs = (hs ++ skip_hints fs)%list /\ Forall (fun f => is_hint f = true) hs /\
             match skip_hints fs with [] => True | a :: _ => is_hint a = false end.
Proof.
  induction fs as [|f r IH].
  - exists []. cbn. auto.
  - cbn [skip_hints]. destruct (is_hint f) eqn:Hf.
    + destruct IH as [hs [E [F M]]]. exists (f :: hs). split; [cbn; f_equal; exact E|]. split; [constructor; assumption|exact M].
    + exists []. cbn. auto.
Qed.

Lemma skip_hints_app hs rest :
  Forall (fun f => is_hint f = true) hs -> skip_hints (hs ++ rest) = skip_hints rest.
Proof. induction 1 as [|f r Hf _ IH]; [reflexivity|]. cbn [app skip_hints]. rewrite Hf. exact IH. Qed.

Lemma skip_hints_all hs : Forall (fun f => is_hint f = true) hs -> skip_hints hs = [].
Proof. intro H. rewrite <- (app_nil_r hs), skip_hints_app by exact H. reflexivity. Qed.

Lemma is_hintchar_no_plus : is_hintchar "+" = false.
Proof. reflexivity. Qed.

Lemma hint_no_plus f : is_hint f = true -> has_char "+" f = false.
Proof.
  destruct f as [|c r]; [discriminate|]. cbn [is_hint has_char]. intro H. apply andb_true_iff in H. destruct H as [H1 H2].
  rewrite (all_chars_no_char _ _ _ is_hintchar_no_plus H2), orb_false_r.
  destruct (Ascii.eqb_spec c "+") as [->|]; [discriminate H1|reflexivity].
Qed.
Lemma hint_not_size f : is_hint f = true -> is_size f = false.
Proof.
  destruct f as [|c r]; [discriminate|]. cbn [is_hint is_size all_chars]. intro H. apply andb_true_iff in H. destruct H as [H1 _].
  unfold is_BZ, is_digit, in_range in *. apply andb_true_iff in H1. destruct H1 as [H1 H2].
  apply N.leb_le in H1. destruct (N.leb_spec (cN c) 57) as [H3|H3]; [lia|]. rewrite andb_false_r. reflexivity.
Qed.
Lemma size_no_plus f : is_size f = true -> has_char "+" f = false.
Proof. destruct f as [|c r]; [discriminate|]. unfold is_size. apply all_chars_no_char. reflexivity. Qed.
Lemma sigfield_no_plus sg e : xdigits 40 sg -> xdigits 8 e -> has_char "+" ("A" ++ sg ++ "@" ++ e) = false.
Proof.
  intros [_ X1] [_ X2]. cbn [append has_char]. rewrite has_char_app. cbn [has_char].
  rewrite (xdigit_no_plus _ X1), (xdigit_no_plus _ X2). reflexivity.
Qed.

Theorem parse_signed_shape loc h sg e : parse_signed loc = Some (h, sg, e) <-> signed_shape loc h sg e.
Proof.
  split.
  - unfold parse_signed. intro H.
    destruct (Nat.eqb_spec (String.length (take 32 loc)) 32) as [L32|]; [|discriminate]. cbn [andb] in H.
    destruct (all_chars is_xdigit (take 32 loc)) eqn:X32; [|discriminate]. cbn [negb] in H.
    destruct (split_on "+" (drop 32 loc)) as [|f0 fs] eqn:Hsp; [discriminate|].
    destruct f0; [|discriminate].
    assert (Hloc : loc = take 32 loc ++ plus_fields fs).
    { rewrite <- (take_drop 32 loc) at 1. f_equal. rewrite <- (join_split "+" (drop 32 loc)), Hsp, join_plus. reflexivity. }
    assert (Hsz : exists szl, fs = (szl ++ skip_size fs)%list /\ (szl = [] \/ exists sz, szl = [sz] /\ is_size sz = true)).
    { destruct fs as [|f r]; [exists []; cbn; auto|]. cbn [skip_size]. destruct (is_size f) eqn:Hs.
      - exists [f]. split; [reflexivity|]. right. exists f. auto.
      - exists []. cbn. auto. }
    destruct Hsz as [szl [Hfs Hszl]].
    destruct (skip_hints_spec (skip_size fs)) as [hs1 [E1 [F1 _]]].
    destruct (skip_hints (skip_size fs)) as [|a r] eqn:Hsk; [discriminate|].
    destruct (parse_sigfield a) as [[sg' e']|] eqn:Hpa; [|discriminate].
    destruct (skip_hints r) as [|x y] eqn:Hr; [|discriminate].
    assert (Hh : h = take 32 loc) by congruence. assert (Hsg : sg = sg') by congruence.
    assert (He : e = e') by congruence. clear H. subst h sg' e'.
    destruct (parse_sigfield_some _ _ _ Hpa) as [-> [Xs Xe]].
    destruct (skip_hints_spec r) as [hs2 [E2 [F2 _]]]. rewrite Hr, app_nil_r in E2. subst hs2.
    exists szl, hs1, r. split; [exact Hszl|]. split; [exact F1|]. split; [exact F2|].
    split; [split; assumption|]. split; [exact Xs|]. split; [exact Xe|].
    rewrite Hloc at 1. f_equal. f_equal. rewrite Hfs at 1. f_equal. exact E1.
  - intros (szl & hs1 & hs2 & Hszl & F1 & F2 & [L32 X32] & Xs & Xe & ->).
    unfold parse_signed.
    assert (T : take 32 (h ++ plus_fields (szl ++ hs1 ++ [("A" ++ sg ++ "@" ++ e)%string] ++ hs2)) = h)
      by (rewrite <- L32; apply take_app_exact).
    assert (D : drop 32 (h ++ plus_fields (szl ++ hs1 ++ [("A" ++ sg ++ "@" ++ e)%string] ++ hs2)) =
                plus_fields (szl ++ hs1 ++ [("A" ++ sg ++ "@" ++ e)%string] ++ hs2))
      by (rewrite <- L32; apply drop_app_exact).
    rewrite T, D, L32, X32. cbn [Nat.eqb andb negb].
    set (fs := (szl ++ hs1 ++ [("A" ++ sg ++ "@" ++ e)%string] ++ hs2)%list).
    assert (Hsplit : split_on "+" (plus_fields fs) = "" :: fs).
    { change (plus_fields fs) with ("" ++ plus_fields fs). rewrite <- join_plus. apply split_join; [discriminate|].
      constructor; [reflexivity|]. unfold fs. apply Forall_app. split.
      - destruct Hszl as [->|[sz [-> Hs]]]; [constructor|]. constructor; [apply size_no_plus, Hs|constructor].
      - apply Forall_app. split; [eapply Forall_impl; [|exact F1]; apply hint_no_plus|].
        apply Forall_app. split; [constructor; [apply sigfield_no_plus; assumption|constructor]|].
        eapply Forall_impl; [|exact F2]. apply hint_no_plus. }
    rewrite Hsplit.
    assert (Hss : skip_size fs = (hs1 ++ [("A" ++ sg ++ "@" ++ e)%string] ++ hs2)%list).
    { unfold fs. destruct Hszl as [->|[sz [-> Hs]]].
      - cbn [app]. destruct hs1 as [|f r].
        + cbn [app skip_size is_size append]. reflexivity.
        + cbn [app skip_size]. inversion F1; subst. rewrite hint_not_size by assumption. reflexivity.
      - cbn [app skip_size]. rewrite Hs. reflexivity. }
    rewrite Hss, skip_hints_app by exact F1. cbn [app skip_hints].
    replace (is_hint ("A" ++ sg ++ "@" ++ e)) with false by reflexivity.
    rewrite parse_sigfield_shape by assumption. rewrite skip_hints_all by exact F2. reflexivity.
Qed.

(* the recogniser is a partial function of the locator: at most one reading *)
Corollary signed_shape_unique loc h sg e h' sg' e' :
  signed_shape loc h sg e -> signed_shape loc h' sg' e' -> h = h' /\ sg = sg' /\ e = e'.
Proof.
  intros H1 H2. apply parse_signed_shape in H1. apply parse_signed_shape in H2. rewrite H1 in H2.
  injection H2 as -> -> ->. auto.
Qed.

Example signed_shape_example :
  signed_shape "acbd18db4cc2f85cedef654fccc4a4d8+3+Kzzzzz+A668c2d56c63ef5c8258c307db0f6dbfdab48fdee@5f5e1000+Zx"
               "acbd18db4cc2f85cedef654fccc4a4d8" "668c2d56c63ef5c8258c307db0f6dbfdab48fdee" "5f5e1000".
Proof. apply parse_signed_shape. reflexivity. Qed.
