(* C06 (c'') - an Azure volume whose listing did not arrive completely never yields a response an index reader
   accepts (model/C06_azure.v). *)
From Coq Require Import List Arith Bool String.
From AV Require Import lib.Str model.C06_model model.C06_azure proofs.C06_index.
Import ListNotations.
Local Open Scope string_scope.

(* IndexTo returns nil exactly when every page of the listing arrived within the allowed attempts *)
Theorem az_index_ok_iff n : forall pages,
  snd (az_index n pages) = true <-> forall p, In p pages -> page_arrives n (p_atts p) = true.
Proof.
  induction pages as [|p r IH]; simpl.
  - split; [intros _ p []|reflexivity].
  - destruct (page_arrives n (p_atts p)) eqn:A.
    + destruct (az_index n r) as [es ok]. simpl in *. rewrite IH. split.
      * intros H x [<-|Hx]; auto.
      * intros H x Hx. apply H. auto.
    + simpl. split; [discriminate|]. intros H. rewrite (H p (or_introl eq_refl)) in A. discriminate.
Qed.

(* ... and then it wrote the entries of every page *)
Theorem az_index_complete n : forall pages, snd (az_index n pages) = true ->
  fst (az_index n pages) = List.concat (map p_entries pages).
Proof.
  induction pages as [|p r IH]; simpl; [reflexivity|].
  destruct (page_arrives n (p_atts p)); [|discriminate].
  destruct (az_index n r) as [es ok]. simpl in *. intros H. rewrite (IH H). reflexivity.
Qed.

(* a page that does not arrive - every allowed attempt answered "busy", or another error - after any number of pages
   that did: the handler's response has no end-of-index marker and both index readers reject it *)
Theorem az_partial_index_rejected n pages p :
  In p pages -> page_arrives n (p_atts p) = false ->
  forallb wf_entry (fst (az_index n pages)) = true ->
  (exists err, parse_index (az_response n pages) = inl err) /\ get_index (az_response n pages) = None.
Proof.
  intros Hin Hp Hwf.
  assert (Ok : snd (az_index n pages) = false).
  { destruct (snd (az_index n pages)) eqn:E; [|reflexivity].
    rewrite (proj1 (az_index_ok_iff n pages) E p Hin) in Hp. discriminate. }
  unfold az_response, az_vol. rewrite Ok.
  apply (handle_index_truncated [] (fst (az_index n pages)) (render_lines (fst (az_index n pages))) "" []).
  - simpl. exact Hwf.
  - apply sapp_nil_r.
Qed.

Theorem az_complete_index_response n pages :
  snd (az_index n pages) = true -> az_response n pages = render_index (List.concat (map p_entries pages)).
Proof.
  intros Ok. unfold az_response, az_vol. rewrite Ok, (az_index_complete n pages Ok). reflexivity.
Qed.

(* regression witness: a retry helper that returns an empty page and no error when every attempt was answered "busy" *)
Fixpoint az_index_swallow (maxatt : nat) (pages : list apage) : list (string * string) * bool :=
  match pages with
  | [] => ([], true)
  | p :: r => if page_arrives maxatt (p_atts p)
              then let '(es, ok) := az_index_swallow maxatt r in (p_entries p ++ es, ok)%list
              else if forallb (fun a => match a with ABusy => true | _ => false end) (firstn maxatt (p_atts p))
                   then ([], true)    (* empty page, NextMarker "" : "end of listing" *)
                   else ([], false)
  end.
Definition w_busy : list apage :=
  [AP [AOk] [("0123456789abcdef0123456789abcdef+3", "1500000000000000000")]; AP [ABusy; ABusy] [("fedcba9876543210fedcba9876543210+3", "1500000000000000001")]].
Lemma swallow_variant_refuted :
  snd (az_index_swallow 2 w_busy) = true /\ snd (az_index 2 w_busy) = false /\
  get_index (handle_index [{| v_text := render_lines (fst (az_index_swallow 2 w_busy)); v_ok := snd (az_index_swallow 2 w_busy) |}]) <> None /\
  get_index (az_response 2 w_busy) = None.
Proof. vm_compute. repeat split; discriminate. Qed.
