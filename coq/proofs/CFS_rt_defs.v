(* Definitions shared by the pieces of the marshal -> load round-trip proof (no proofs here). *)
From Coq Require Import List Arith Bool String Ascii Sorted.
Import ListNotations.
From AV Require Import lib.Str lib.Path model.CFS_file model.CFS_tree model.CFS_inst model.CFS_bg model.CFS_tload.
Local Open Scope string_scope.
Local Open Scope list_scope.

(* ---- well-formed directory entries: strictly sorted by name, every name an ordinary path component ---- *)
Definition valid_name (n : string) : Prop := special_name n = false /\ str_contains "/"%char n = false.
Definition name_lt (a b : string) : Prop := str_ltb a b = true.
Definition ents_ok {A} (l : list (string * A)) : Prop :=
  StronglySorted name_lt (map fst l) /\ Forall valid_name (map fst l).

Inductive twf : T -> Prop :=
| twf_F b : twf (TF b)
| twf_D ents : ents_ok ents -> Forall (fun e => twf (snd e)) ents -> twf (TD ents).

(* ---- what a saved manifest says, stream by stream ---- *)
Inductive srec := RFiles (dir : string) (files : list (string * list byte)) | RMarker (dir : string).

Definition files_of (ents : list (string * T)) : list (string * list byte) :=
  flat_map (fun e => match snd e with TF b => [(fst e, b)] | TD _ => [] end) ents.

(* the streams marshalManifest emits for the directory t at path prefix: its own files (if any), an
   empty-directory marker when it has no entries at all (never for the root), then its
   subdirectories in entry order *)
Fixpoint records_T (prefix : string) (t : T) : list srec :=
  match t with
  | TF _ => []
  | TD ents =>
      match ents with
      | [] => if String.eqb prefix "." then [] else [RMarker prefix]
      | _ => (match files_of ents with [] => [] | fl => [RFiles prefix fl] end) ++
             flat_map (fun e => match snd e with
                                | TD _ => records_T (prefix ++ "/" ++ fst e) (snd e)
                                | TF _ => []
                                end) ents
      end
  end.

(* ---- what the loader does with them ---- *)
Definition obind {A B} (o : option A) (f : A -> option B) : option B :=
  match o with Some x => f x | None => None end.

(* one file token: create the file (and missing parent directories) and append the bytes *)
Definition tins_part (t : T) (dir name : string) (b : list byte) : option T :=
  match tcreate t (dir ++ "/" ++ name) with
  | Some (t1, Some p) => tmod t1 p (tappend b)
  | _ => None
  end.
(* the "0:0:." token of an empty directory *)
Definition tins_marker (t : T) (dir : string) : option T :=
  match tcreate t (dir ++ "/" ++ ".") with
  | Some (t1, None) => Some t1
  | _ => None
  end.
Fixpoint tins_parts (t : T) (dir : string) (chunks : list (string * list byte)) : option T :=
  match chunks with
  | [] => Some t
  | (n, b) :: r => obind (tins_part t dir n b) (fun t' => tins_parts t' dir r)
  end.
Definition tins_rec (t : T) (r : srec) : option T :=
  match r with RFiles d fl => tins_parts t d fl | RMarker d => tins_marker t d end.
Fixpoint tins_all (t : T) (rs : list srec) : option T :=
  match rs with
  | [] => Some t
  | r :: rest => obind (tins_rec t r) (fun t' => tins_all t' rest)
  end.

(* a file delivered in several consecutive chunks *)
Definition chunks_of (groups : list (string * list (list byte))) : list (string * list byte) :=
  flat_map (fun g => map (fun b => (fst g, b)) (snd g)) groups.
Definition whole_of (groups : list (string * list (list byte))) : list (string * list byte) :=
  map (fun g => (fst g, List.concat (snd g))) groups.
