(* C10 — extract_preserves / normalize_preserves for sdk/go/manifest at the level of whole manifest texts:
   Manifest.Extract(srcpath, relocate) of a valid manifest (canonical arguments) returns a valid manifest whose paths
   are exactly the relocated paths of the reference reading of Extract's doc comment, every destination holding the
   content of its source (equal canonical segment lists = equal bytes for every block store).
   Normalisation is the case Extract(".", "."). *)
From Coq Require Import NArith Lia List Bool Ascii String Arith.
From AV Require Import lib.Str model.C10_manifest model.C10_ranges model.C10_fs model.C10_gomanifest model.C10_python model.C10_run
  proofs.C10_bytes_proofs proofs.C10_ranges_proofs proofs.C10_pdh_proofs proofs.C10_escape_proofs proofs.C10_gm_proofs
  proofs.C10_text_lines proofs.C10_text_fs proofs.C10_text_gm proofs.C10_text_canon proofs.C10_text_norm.
Import ListNotations.
Local Open Scope string_scope.
Local Open Scope list_scope.
Notation length := List.length.

(* ---------- sort_strs: sorted, duplicate-free, same elements ---------- *)
Definition slt (a b : string) : Prop := str_ltb a b = true.
Inductive ssorted : list string -> Prop :=
| ss_nil : ssorted []
| ss_cons x l : ssorted l -> (forall y, In y l -> slt x y) -> ssorted (x :: l).

Lemma insert_str_In x y : forall l, In y (insert_str x l) <-> y = x \/ In y l.
Proof.
  induction l as [|z l IH]; cbn [insert_str In]; [intuition|].
  destruct (str_ltb x z); cbn [In]; [intuition|]. destruct (String.eqb x z) eqn:E.
  - apply String.eqb_eq in E. subst z. cbn [In]. intuition.
  - cbn [In]. rewrite IH. intuition.
Qed.
Lemma insert_str_sorted x : forall l, ssorted l -> ssorted (insert_str x l).
Proof.
  induction l as [|z l IH]; intros H; cbn [insert_str].
  - constructor; [constructor|intros y []].
  - inversion H as [|? ? Hl Hz]; subst. destruct (str_ltb x z) eqn:Exz.
    + constructor; [exact H|]. intros y [<-|Hy]; [exact Exz|]. eapply str_ltb_trans; [exact Exz|apply Hz; exact Hy].
    + destruct (String.eqb x z) eqn:E; [exact H|]. apply String.eqb_neq in E.
      constructor; [apply IH; exact Hl|]. intros y Hy. apply insert_str_In in Hy. destruct Hy as [->|Hy]; [|apply Hz; exact Hy].
      destruct (str_ltb_total x z) as [H1|[H1|H1]]; [congruence|exact H1|contradiction].
Qed.
Lemma sort_strs_In x l : In x (sort_strs l) <-> In x l.
Proof.
  induction l as [|y l IH]; cbn [sort_strs fold_right In]; [tauto|]. fold (sort_strs l). rewrite insert_str_In, IH. intuition.
Qed.
Lemma sort_strs_sorted l : ssorted (sort_strs l).
Proof. induction l as [|y l IH]; cbn [sort_strs fold_right]; [constructor|]. apply insert_str_sorted. exact IH. Qed.
Lemma ssorted_NoDup l : ssorted l -> NoDup l.
Proof.
  induction 1 as [|x l Hl IH Hx]; constructor; [|exact IH]. intros Hin. specialize (Hx x Hin). unfold slt in Hx.
  rewrite str_ltb_irrefl in Hx. discriminate.
Qed.
Lemma ssorted_unique : forall a b, ssorted a -> ssorted b -> (forall x, In x a <-> In x b) -> a = b.
Proof.
  induction a as [|x a IH]; intros b Ha Hb Hab.
  - destruct b as [|y b]; [reflexivity|]. exfalso. apply (Hab y). left. reflexivity.
  - destruct b as [|y b]; [exfalso; apply (Hab x); left; reflexivity|].
    inversion Ha as [|? ? Ha' Hx]; subst. inversion Hb as [|? ? Hb' Hy]; subst.
    assert (Exy : x = y).
    { pose proof (proj1 (Hab x) (or_introl eq_refl)) as H1. pose proof (proj2 (Hab y) (or_introl eq_refl)) as H2.
      destruct H1 as [H1|H1]; [auto|]. destruct H2 as [H2|H2]; [auto|].
      specialize (Hy x H1). specialize (Hx y H2). unfold slt in *. pose proof (str_ltb_trans _ _ _ Hx Hy) as H.
      rewrite str_ltb_irrefl in H. discriminate. }
    subst y. f_equal. apply IH; [exact Ha'|exact Hb'|]. intros z. split; intros Hz.
    + destruct (proj1 (Hab z) (or_intror Hz)) as [<-|H]; [|exact H]. specialize (Hx x Hz). unfold slt in Hx.
      rewrite str_ltb_irrefl in Hx. discriminate.
    + destruct (proj2 (Hab z) (or_intror Hz)) as [<-|H]; [|exact H]. specialize (Hy x Hz). unfold slt in Hy.
      rewrite str_ltb_irrefl in Hy. discriminate.
Qed.
Lemma sort_strs_ext a b : (forall x, In x a <-> In x b) -> sort_strs a = sort_strs b.
Proof. intros H. apply ssorted_unique; try apply sort_strs_sorted. intros x. rewrite !sort_strs_In. apply H. Qed.
Lemma set_eqb_ext a b : (forall x, In x a <-> In x b) -> set_eqb a b = true.
Proof.
  intros H. unfold set_eqb, str_list_eqb. rewrite (sort_strs_ext _ _ H). apply list_eqb_refl. apply String.eqb_refl.
Qed.
Lemma sort_strs_NoDup l : NoDup (sort_strs l).
Proof. apply ssorted_NoDup. apply sort_strs_sorted. Qed.

(* ---------- a text made of normalized lines ---------- *)
Definition ostream := (string * list (string * list seg))%type.
Definition ostream_ok (st : ostream) : Prop := nt_ok (fst st) (snd st).
Definition out_line (st : ostream) : string := nt_line (fst st) (snd st).
Definition out_stream (st : ostream) : stream := nt_stream (fst st) (snd st).
Definition out_text (sts : list ostream) : string := sconcat (map (fun st => (out_line st ++ s_nl)%string) sts).
Definition out_manifest (sts : list ostream) : manifest := map out_stream sts.

Lemma out_line_valid st : ostream_ok st -> valid_stream (out_line st) = true /\ parse_stream (out_line st) = Some (out_stream st).
Proof.
  intros H. split; [apply nt_valid'; exact H|apply nt_parse'; exact H].
Qed.
Lemma valid_stream_no_nl line : valid_stream line = true -> contains_char c_nl line = false.
Proof.
  unfold valid_stream. intros H. apply andb_prop in H. destruct H as [H _].
  eapply all_chars_no; [|exact H]. reflexivity.
Qed.
Lemma split_lines : forall ls, Forall (fun l => contains_char c_nl l = false) ls ->
  split_on c_nl (sconcat (map (fun l => (l ++ s_nl)%string) ls)) = ls ++ [""%string].
Proof.
  induction ls as [|l ls IH]; intros H; [reflexivity|]. inversion H as [|? ? Hl Hls]; subst.
  cbn [map sconcat]. rewrite append_assoc. unfold s_nl at 1. cbn [append]. rewrite split_on_sep by exact Hl. rewrite IH by exact Hls. reflexivity.
Qed.
Lemma out_lines sts : Forall ostream_ok sts -> lines_of (out_text sts) = Some (map out_line sts).
Proof.
  intros H. unfold lines_of, out_text.
  rewrite <- (map_map out_line (fun l => (l ++ s_nl)%string)). rewrite split_lines.
  - rewrite rev_app_distr. cbn [rev app]. rewrite rev_involutive. reflexivity.
  - apply Forall_forall. intros l Hl. apply in_map_iff in Hl. destruct Hl as (st & <- & Hst). rewrite Forall_forall in H.
    apply valid_stream_no_nl. apply out_line_valid. apply H. exact Hst.
Qed.
Lemma out_parse_lines : forall sts, Forall ostream_ok sts -> map_opt parse_stream (map out_line sts) = Some (out_manifest sts).
Proof.
  induction sts as [|st sts IH]; intros H; [reflexivity|]. inversion H as [|? ? Hst Hsts]; subst.
  cbn [map map_opt]. rewrite (proj2 (out_line_valid st Hst)), (IH Hsts). reflexivity.
Qed.
Lemma out_parse sts : Forall ostream_ok sts -> parse_manifest (out_text sts) = Some (out_manifest sts).
Proof. intros H. unfold parse_manifest. rewrite (out_lines sts H). apply out_parse_lines. exact H. Qed.

(* tokens of the output streams *)
Lemma out_tok st x : ostream_ok st -> In x (s_ftoks (out_stream st)) ->
  exists f, In f (snd st) /\ ft_name x = fst f /\ (is_marker x = false -> okc (fst f)).
Proof.
  intros Hst Hx. cbn [out_stream nt_stream s_ftoks] in Hx. apply in_flat_map in Hx. destruct Hx as (f & Hf & Hx).
  destruct (fts_valid' (fst st) (snd st) Hst f x Hf Hx) as (_ & _ & Hnm).
  exists f. split; [exact Hf|]. split; [exact Hnm|]. intros Hm.
  pose proof (no_fn _ _ Hst) as H4. rewrite Forall_forall in H4. destruct (H4 f Hf) as [_ [Hok|[Hdot Hnil]]]; [exact Hok|]. exfalso.
  unfold file_fts in Hx. rewrite Hnil in Hx. cbn in Hx. destruct Hx as [<-|[]]. rewrite Hdot in Hm. discriminate.
Qed.

Section Out.
Variable sts : list ostream.
Hypothesis Hok : Forall ostream_ok sts.
Hypothesis Hnd : NoDup (map fst sts).
Hypothesis Hcf : forall st f st' f', In st sts -> In f (snd st) -> In st' sts -> In f' (snd st') -> okc (fst f) ->
  ~ In (path_of (fst st) (fst f)) (dir_prefixes (path_of (fst st') (fst f'))).

Lemma out_ok st : In st sts -> ostream_ok st.
Proof. intros H. rewrite Forall_forall in Hok. apply Hok. exact H. Qed.

Lemma out_no_conflict : no_conflict (out_manifest sts) = true.
Proof.
  unfold no_conflict. apply forallb_forall. intros p Hp. apply negb_true_iff.
  destruct (mem_str p (dir_paths (out_manifest sts))) eqn:E; [|reflexivity]. exfalso. apply mem_str_In in E.
  unfold file_paths, out_manifest in Hp. rewrite flat_map_map in Hp. apply in_flat_map in Hp. destruct Hp as (st & Hst & Hp).
  unfold stream_files in Hp. apply in_map_iff in Hp. destruct Hp as (x & <- & Hx). apply filter_In in Hx. destruct Hx as [Hx Hm].
  apply negb_true_iff in Hm. destruct (out_tok st x (out_ok st Hst) Hx) as (f & Hf & Hnm & Hokc). specialize (Hokc Hm).
  unfold dir_paths, out_manifest in E. rewrite flat_map_map in E. apply in_flat_map in E. destruct E as (st' & Hst' & E).
  unfold stream_dirs in E. apply in_flat_map in E. destruct E as (x' & Hx' & E).
  destruct (out_tok st' x' (out_ok st' Hst') Hx') as (f' & Hf' & Hnm' & _).
  cbn [out_stream nt_stream s_name] in E. rewrite Hnm, Hnm' in E.
  exact (Hcf st f st' f' Hst Hf Hst' Hf' Hokc E).
Qed.

Theorem out_valid : valid_manifest (out_text sts) = true.
Proof.
  unfold valid_manifest. rewrite (out_lines sts Hok), (out_parse_lines sts Hok), out_no_conflict, andb_true_r.
  apply forallb_forall. intros l Hl. apply in_map_iff in Hl. destruct Hl as (st & <- & Hst). apply out_line_valid. apply out_ok. exact Hst.
Qed.

Lemma out_paths p : In p (all_paths (out_manifest sts)) <-> exists st f, In st sts /\ In f (snd st) /\ p = path_of (fst st) (fst f).
Proof.
  unfold all_paths, out_manifest. rewrite flat_map_map, in_flat_map. split.
  - intros (st & Hst & Hp). apply in_map_iff in Hp. destruct Hp as (x & <- & Hx).
    destruct (out_tok st x (out_ok st Hst) Hx) as (f & Hf & Hnm & _). exists st, f. cbn [out_stream nt_stream s_name]. rewrite Hnm. auto.
  - intros (st & f & Hst & Hf & ->). exists st. split; [exact Hst|].
    assert (Hn : In (fst f) (map ft_name (s_ftoks (out_stream st)))).
    { apply (nt_names' (fst st) (snd st) (out_ok st Hst)). apply in_map. exact Hf. }
    apply in_map_iff in Hn. destruct Hn as (x & Hnm & Hx). apply in_map_iff. exists x. split; [|exact Hx].
    cbn [out_stream nt_stream s_name]. rewrite Hnm. reflexivity.
Qed.

Lemma flat_map_nil {A B} (g : A -> list B) : forall l, (forall y, In y l -> g y = []) -> flat_map g l = [].
Proof.
  induction l as [|y l IH]; intros H; [reflexivity|]. cbn [flat_map]. rewrite (H y (or_introl eq_refl)). cbn [app].
  apply IH. intros z Hz. apply H. right. exact Hz.
Qed.
Lemma flat_map_only {A B} (g : A -> list B) (x : A) : forall l, NoDup l -> In x l ->
  (forall y, In y l -> y <> x -> g y = []) -> flat_map g l = g x.
Proof.
  induction l as [|y l IH]; intros Hn Hx Hg; [destruct Hx|]. inversion Hn as [|? ? Hy Hn']; subst. cbn [flat_map].
  destruct Hx as [->|Hx].
  - rewrite flat_map_nil, app_nil_r; [reflexivity|]. intros z Hz. apply Hg; [right; exact Hz|]. intros ->. contradiction.
  - rewrite (Hg y); [|left; reflexivity|intros ->; contradiction]. cbn [app]. apply IH; [exact Hn'|exact Hx|].
    intros z Hz. apply Hg. right. exact Hz.
Qed.

Theorem out_content st f : In st sts -> In f (snd st) ->
  explode (denote (out_manifest sts) (path_of (fst st) (fst f))) = explode (snd f).
Proof.
  intros Hst Hf. unfold denote, out_manifest. rewrite flat_map_map.
  assert (Hnds : NoDup sts) by (eapply NoDup_map_inv; exact Hnd).
  rewrite (flat_map_only _ st sts Hnds Hst).
  - apply nt_content'; [apply out_ok; exact Hst|exact Hf].
  - intros st' Hst' Hne. unfold stream_segs. cbn [out_stream nt_stream s_name].
    apply flat_map_nil. intros x Hx. destruct (out_tok st' x (out_ok st' Hst') Hx) as (f' & Hf' & Hnm & _). rewrite Hnm.
    destruct (String.eqb (path_of (fst st') (fst f')) (path_of (fst st) (fst f))) eqn:E; [|reflexivity]. exfalso.
    apply String.eqb_eq in E. unfold path_of in E.
    pose proof (no_fn _ _ (out_ok st Hst)) as Hfn. pose proof (no_fn _ _ (out_ok st' Hst')) as Hfn'. rewrite Forall_forall in Hfn, Hfn'.
    apply path_key_inj in E; [|apply Hfn'; exact Hf'|apply Hfn; exact Hf]. destruct E as [E _].
    (* same stream name: same stream *)
    clear - Hnd Hst Hst' Hne E. induction sts as [|h l IH]; [destruct Hst|]. cbn [map] in Hnd. inversion Hnd as [|? ? Hh Hnd']; subst.
    destruct Hst as [->|Hst]; destruct Hst' as [->|Hst']; auto.
    + apply Hh. rewrite <- E. apply in_map. exact Hst'.
    + apply Hh. rewrite E. apply in_map. exact Hst.
Qed.
End Out.

(* ---------- the segments of a valid manifest are well-formed ---------- *)
Lemma ref_from_ok sizes : forall i0 o0 pos len i o n, In (i, o, n) (ref_from i0 o0 sizes pos len) ->
  (i0 <= i < i0 + length sizes)%nat /\ (0 < n)%N /\ (o + n <= nth (i - i0) sizes 0)%N.
Proof.
  induction sizes as [|s r IH]; intros i0 o0 pos len i o n H; cbn in H; [contradiction|].
  apply in_app_or in H. destruct H as [H|H].
  - destruct (N.max pos o0 <? N.min (pos + len) (o0 + s))%N eqn:E; [|contradiction].
    destruct H as [H|[]]. injection H as <- <- <-. rewrite Nat.sub_diag. cbn [nth length]. apply N.ltb_lt in E. lia.
  - destruct (IH _ _ _ _ _ _ _ H) as (H1 & H2 & H3). cbn [length]. split; [lia|]. split; [exact H2|].
    replace (i - i0)%nat with (S (i - S i0)) by lia. exact H3.
Qed.
Lemma name_segs_ok blocks pos len :
  Forall (fun b => is_locator b = true /\ (loc_size b <= max_block)%N) blocks ->
  Forall (fun sg => seg_ok sg /\ In (seg_loc sg) blocks) (name_segs blocks (ref (sizes_of blocks) pos len)).
Proof.
  intros Hb. apply Forall_forall. intros sg Hsg. unfold name_segs in Hsg. apply in_map_iff in Hsg.
  destruct Hsg as ([[i o] n] & <- & Hin). apply ref_from_ok in Hin. destruct Hin as (Hi & Hn & Hon).
  unfold sizes_of in *. rewrite map_length in Hi. rewrite Nat.sub_0_r in Hon.
  assert (Hnth : In (nth i blocks ""%string) blocks) by (apply nth_In; lia).
  rewrite Forall_forall in Hb. destruct (Hb _ Hnth) as [Hl Hs]. unfold seg_loc. cbn [fst]. split; [|exact Hnth].
  cbn. repeat split; auto. change 0%N with (loc_size ""%string) in Hon. rewrite map_nth in Hon. exact Hon.
Qed.

Definition good_seg (m : manifest) (sg : seg) : Prop := seg_ok sg /\ In (seg_loc sg) (flat_map s_blocks m).
Lemma entries_segs_ok ls m : lines_ok ls m -> forall e, In e (entries m) -> Forall (good_seg m) (e_segs e).
Proof.
  intros Hok. induction Hok as [|l s ls m (name & fts & Hs) _ IH]; intros e He; [destruct He|].
  cbn [entries flat_map] in He. apply in_app_iff in He. destruct He as [He|He].
  - unfold stream_entries in He. apply in_map_iff in He. destruct He as (f & <- & _). cbn [entry_of e_segs].
    assert (Hb : Forall (fun b => is_locator b = true /\ (loc_size b <= max_block)%N) (s_blocks s)).
    { pose proof (so_locs _ _ _ _ Hs) as H1. pose proof (so_sizes _ _ _ _ Hs) as H2. rewrite Forall_forall in *. auto. }
    eapply Forall_impl; [|apply name_segs_ok; exact Hb]. cbn. intros sg [H1 H2]. split; [exact H1|].
    cbn [flat_map]. apply in_app_iff. left. exact H2.
  - eapply Forall_impl; [|apply IH; exact He]. cbn. intros sg [H1 H2]. split; [exact H1|]. cbn [flat_map]. apply in_app_iff. right. exact H2.
Qed.
Lemma denote_segs_ok ls m p : lines_ok ls m -> Forall (good_seg m) (denote m p).
Proof.
  intros Hok. rewrite denote_entries. apply Forall_forall. intros sg Hsg. apply in_flat_map in Hsg. destruct Hsg as (e & He & Hsg).
  unfold sel in Hsg. destruct (String.eqb (e_path e) p); [|destruct Hsg].
  pose proof (entries_segs_ok ls m Hok e He) as H. rewrite Forall_forall in H. apply H. exact Hsg.
Qed.

(* locators with the same hash state the same size (true whenever some block store is consistent with the manifest) *)
Definition consistent_sizes (m : manifest) : Prop := sizes_agree (flat_map s_blocks m).
Lemma consistent_store_sizes (st : store) m : consistent st m -> consistent_sizes m.
Proof.
  intros H b1 b2 H1 H2 Hh. apply in_flat_map in H1, H2. destruct H1 as (s1 & Hs1 & H1). destruct H2 as (s2 & Hs2 & H2).
  rewrite <- (H s1 Hs1 b1 H1), <- (H s2 Hs2 b2 H2), Hh. reflexivity.
Qed.

(* ---------- strings ---------- *)
Notation slen' := String.length.
Lemma has_prefix_app p : forall x, has_prefix p (p ++ x)%string = true.
Proof. induction p as [|a p IH]; intros x; [destruct x; reflexivity|]. cbn. rewrite Ascii.eqb_refl. apply IH. Qed.
Lemma has_prefix_inv : forall p s, has_prefix p s = true -> exists x, s = (p ++ x)%string.
Proof.
  induction p as [|a p IH]; intros s H; [exists s; reflexivity|]. destruct s as [|b s]; [discriminate|]. cbn in H.
  apply andb_prop in H. destruct H as [H1 H2]. apply Ascii.eqb_eq in H1. subst b. destruct (IH s H2) as (x & ->). exists x. reflexivity.
Qed.
Lemma drop_length_app a x : drop (slen' a) (a ++ x)%string = x.
Proof. induction a as [|c a IH]; [apply drop_0|]. cbn. exact IH. Qed.
Lemma drop_length_self a : drop (slen' a) a = ""%string.
Proof. rewrite <- (append_nil_r a) at 2. apply drop_length_app. Qed.
Lemma has_prefix_refl_ext p x : has_prefix p p = true /\ has_prefix p (p ++ x)%string = true.
Proof. split; [rewrite <- (append_nil_r p) at 2|]; apply has_prefix_app. Qed.

Lemma nodup_str_In x : forall l, In x (nodup_str l) <-> In x l.
Proof.
  induction l as [|y l IH]; cbn [nodup_str In]; [tauto|]. rewrite filter_In, IH. split.
  - intros [H|[H _]]; auto.
  - intros [H|H]; [auto|]. destruct (String.eqb y x) eqn:E; [left; apply String.eqb_eq; exact E|]. right. split; [exact H|].
    reflexivity.
Qed.
Lemma mem_str_ext x a b : (forall y, In y a <-> In y b) -> mem_str x a = mem_str x b.
Proof.
  intros H. destruct (mem_str x a) eqn:Ea; destruct (mem_str x b) eqn:Eb; try reflexivity.
  - apply mem_str_In in Ea. apply H in Ea. apply mem_str_In in Ea. congruence.
  - apply mem_str_In in Eb. apply H in Eb. apply mem_str_In in Eb. congruence.
Qed.

(* names *)
Lemma valid_stream_name_intro x l : comps x = "."%string :: l -> Forall okc l -> valid_stream_name_u x = true.
Proof.
  intros Hc Hl. unfold valid_stream_name_u. rewrite Hc. rewrite (dot_match "." (forallb ok_comp l) false). cbn [String.eqb Ascii.eqb Bool.eqb].
  apply forallb_Forall. exact Hl.
Qed.
Lemma drop_last_spec : forall s, has_suffix_slash s = true -> s = (drop_last s ++ "/")%string.
Proof.
  unfold drop_last. induction s as [|a s IH]; intros H; [discriminate|]. cbn [has_suffix_slash] in H. destruct s as [|b s'].
  - apply Ascii.eqb_eq in H. subst a. reflexivity.
  - specialize (IH H). cbn [slen' Nat.sub] in *. rewrite Nat.sub_0_r in *. cbn [take append]. f_equal. exact IH.
Qed.
Lemma comps_dir x : comps (x ++ "/")%string = comps x ++ [""%string].
Proof. unfold comps. change "/"%string with (String c_slash ""). rewrite split_on_app_sep. reflexivity. Qed.

(* ---------- the segmented manifest of a valid text ---------- *)
Section Seg.
Variables (m : manifest) (sm : smanifest) (ls : list string).
Hypothesis Hok : lines_ok ls m.
Hypothesis Hcf : conflict_free (entries m).
Hypothesis Hcons : consistent_sizes m.
Hypothesis Hget : forall a b, get2 sm a b = sval (entries m) a b.
Hypothesis Hne : sm_ne sm.
Let E := entries m.
Let Hsh : Forall entry_shape E := entries_shape ls m Hok.

Lemma path_shape p : In p (map e_path E) ->
  exists l' b, comps p = "."%string :: l' ++ [b] /\ Forall okc l' /\ Forall noslash l' /\ noslash b /\ (okc b \/ b = "."%string) /\
               p = key_path (path_string l') b.
Proof.
  intros Hp. apply in_map_iff in Hp. destruct Hp as (e & <- & He). pose proof Hsh as H. rewrite Forall_forall in H.
  destruct (H e He) as (l' & b & Hc & Hl' & Hb). exists l', b.
  pose proof (comps_noslash (e_path e)) as Hns. rewrite Hc in Hns. inversion Hns as [|? ? _ Hns']; subst.
  apply Forall_app in Hns'. destruct Hns' as [Hn1 Hn2]. inversion Hn2 as [|? ? Hnb _]; subst.
  split; [exact Hc|]. split; [exact Hl'|]. split; [exact Hn1|]. split; [exact Hnb|]. split.
  - destruct (e_marker e); [right; tauto|left; exact Hb].
  - destruct (split_path_comps _ _ _ _ Hc) as [_ HP]. exact HP.
Qed.
Lemma key_path_comps a b l' : noslash b -> comps (key_path a b) = "."%string :: l' ++ [b] -> a = path_string l'.
Proof.
  intros Hb Hc. destruct (split_path_comps _ _ _ _ Hc) as [_ HP]. unfold key_path in HP.
  apply path_key_inj in HP; [|exact Hb|exact Hb]. destruct HP as [-> _]. reflexivity.
Qed.
(* file names and values under a key *)
Lemma get2_some a b v : get2 sm a b = Some v ->
  noslash b /\ In (key_path a b) (map e_path E) /\ v = denote m (key_path a b).
Proof.
  rewrite Hget. unfold sval. destruct (nsl b) eqn:Eb; [|discriminate]. cbn [andb].
  destruct (mem_str (key_path a b) (map e_path (entries m))) eqn:Em; [|discriminate]. intros H. injection H as <-.
  unfold nsl in Eb. apply negb_true_iff in Eb. split; [exact Eb|]. split; [apply mem_str_In; exact Em|]. symmetry. apply denote_entries.
Qed.
Lemma get2_intro a b : noslash b -> In (key_path a b) (map e_path E) -> get2 sm a b = Some (denote m (key_path a b)).
Proof.
  intros Hb Hin. rewrite Hget. unfold sval. replace (nsl b) with true by (symmetry; apply negb_true_iff; exact Hb).
  apply mem_str_In in Hin. fold E. rewrite Hin. cbn [andb]. rewrite denote_entries. reflexivity.
Qed.
Lemma sm_key a : In a (map fst sm) <-> exists b, get2 sm a b <> None.
Proof.
  split.
  - intros Hin. destruct (assoc_get a sm) as [sf|] eqn:Ea; [|apply assoc_get_none in Ea; contradiction].
    pose proof (Hne a sf Ea) as Hsf. destruct sf as [|[b v] sf]; [congruence|]. exists b. unfold get2. rewrite Ea.
    cbn [assoc_get]. rewrite String.eqb_refl. discriminate.
  - intros (b & Hb). unfold get2 in Hb. destruct (assoc_get a sm) eqn:Ea; [|congruence].
    destruct (in_dec string_dec a (map fst sm)) as [H|H]; [exact H|]. apply assoc_get_none in H. congruence.
Qed.
Lemma sf_key a b : In b (map fst (sf_of sm a)) <-> get2 sm a b <> None.
Proof.
  rewrite get2_sf. split.
  - intros Hin Hn. apply assoc_get_none in Hn. contradiction.
  - intros Hn. destruct (in_dec string_dec b (map fst (sf_of sm a))) as [H|H]; [exact H|]. apply assoc_get_none in H. contradiction.
Qed.

Lemma sorted_files_In a f : In f (sorted_files (sf_of sm a)) <->
  noslash (fst f) /\ In (key_path a (fst f)) (map e_path E) /\ snd f = denote m (key_path a (fst f)).
Proof.
  unfold sorted_files. rewrite in_map_iff. split.
  - intros (b & <- & Hb). apply (proj1 (sort_strs_In _ _)) in Hb. apply (proj1 (sf_key _ _)) in Hb. cbn [fst snd]. rewrite <- get2_sf.
    destruct (get2 sm a b) as [v|] eqn:Eg; [|congruence]. apply get2_some in Eg. tauto.
  - intros (H1 & H2 & H3). exists (fst f). pose proof (get2_intro a (fst f) H1 H2) as Hg. split.
    + rewrite <- get2_sf, Hg. destruct f as [b v]. cbn [fst snd] in *. rewrite H3. reflexivity.
    + apply sort_strs_In. apply sf_key. rewrite Hg. discriminate.
Qed.
Lemma sorted_files_names sf : map fst (sorted_files sf) = sort_strs (map fst sf).
Proof. unfold sorted_files. rewrite map_map. cbn [fst]. apply map_id. Qed.

Lemma marker_path_empty p l' : In p (map e_path E) -> comps p = "."%string :: l' ++ ["."%string] -> denote m p = [].
Proof.
  intros Hp Hc. rewrite denote_entries. apply in_map_iff in Hp. destruct Hp as (e & <- & He).
  apply (sel_marker_nil E e Hsh He); [|apply incl_refl].
  pose proof Hsh as H. rewrite Forall_forall in H. destruct (H e He) as (l2 & b & Hc2 & _ & Hb). rewrite Hc in Hc2.
  injection Hc2 as Hc2. apply app_inj_tail in Hc2. destruct Hc2 as [_ <-].
  destruct (e_marker e); [reflexivity|]. exfalso. exact (okc_dot Hb).
Qed.

Lemma key_ostream_ok a name' : In a (map fst sm) -> valid_stream_name_u name' = true ->
  ostream_ok (name', sorted_files (sf_of sm a)).
Proof.
  intros Ha Hn. unfold ostream_ok. cbn [fst snd]. constructor.
  - exact Hn.
  - apply (proj1 (sm_key _)) in Ha. destruct Ha as (b & Hb). apply (proj2 (sf_key _ _)) in Hb. apply (proj2 (sort_strs_In _ _)) in Hb. rewrite <- sorted_files_names in Hb.
    intros Hnil. rewrite Hnil in Hb. destruct Hb.
  - rewrite sorted_files_names. apply sort_strs_NoDup.
  - apply Forall_forall. intros f Hf. apply (proj1 (sorted_files_In _ _)) in Hf. destruct Hf as (H1 & H2 & H3). split; [exact H1|].
    destruct (path_shape _ H2) as (l' & b & Hc & _ & _ & Hnb & Hb & _).
    assert (Hbb : b = fst f).
    { change (key_path a (fst f)) with (path_of a (fst f)) in Hc. rewrite comps_path_of in Hc.
      unfold comps at 2 in Hc. rewrite (split_on_nosep _ _ H1) in Hc.
      change ("."%string :: l' ++ [b]) with (("."%string :: l') ++ [b]) in Hc. apply app_inj_tail in Hc. symmetry. apply Hc. }
    subst b. destruct Hb as [Hb|Hb]; [left; exact Hb|]. right. split; [exact Hb|]. rewrite H3.
    apply (marker_path_empty _ l' H2). rewrite Hc, Hb. reflexivity.
  - apply Forall_forall. intros f Hf. apply (proj1 (sorted_files_In _ _)) in Hf. destruct Hf as (_ & _ & H3). rewrite H3.
    eapply Forall_impl; [|apply (denote_segs_ok ls m _ Hok)]. cbn. intros sg [H _]. exact H.
  - intros b1 b2 H1 H2. apply Hcons.
    + apply in_map_iff in H1. destruct H1 as (sg & <- & Hsg). apply in_flat_map in Hsg. destruct Hsg as (f & Hf & Hsg).
      apply (proj1 (sorted_files_In _ _)) in Hf. destruct Hf as (_ & _ & H3). rewrite H3 in Hsg.
      pose proof (denote_segs_ok ls m (key_path a (fst f)) Hok) as H. rewrite Forall_forall in H. apply H. exact Hsg.
    + apply in_map_iff in H2. destruct H2 as (sg & <- & Hsg). apply in_flat_map in Hsg. destruct Hsg as (f & Hf & Hsg).
      apply (proj1 (sorted_files_In _ _)) in Hf. destruct Hf as (_ & _ & H3). rewrite H3 in Hsg.
      pose proof (denote_segs_ok ls m (key_path a (fst f)) Hok) as H. rewrite Forall_forall in H. apply H. exact Hsg.
Qed.

(* ---------- Extract(src, reloc) for canonical arguments ---------- *)
Variables (src reloc : string).
Let rel := GM.strip_slash reloc.
Let slash := has_suffix_slash reloc.
Hypothesis Hsrc : valid_stream_name_u src = true.
Hypothesis Hrel : valid_stream_name_u rel = true.

Lemma fix_valid x : valid_stream_name_u x = true -> fix_stream_name x = x.
Proof.
  intros H. destruct (valid_stream_name_inv _ H) as (ds & Hc & Hds).
  rewrite (fix_stream_name_path x ds []); [apply path_string_of_comps; exact Hc|rewrite app_nil_r; exact Hc|exact Hds|auto].
Qed.
Lemma reloc_shape : reloc = (if slash then rel ++ "/" else rel)%string.
Proof.
  unfold rel, GM.strip_slash, slash. destruct (has_suffix_slash reloc) eqn:Es; [apply drop_last_spec; exact Es|reflexivity].
Qed.
Lemma fix_reloc : fix_stream_name reloc = rel.
Proof.
  destruct (valid_stream_name_inv _ Hrel) as (dr & Hc & Hdr).
  rewrite (fix_stream_name_path reloc dr (if slash then [""%string] else [])).
  - apply path_string_of_comps. exact Hc.
  - rewrite reloc_shape at 1. destruct slash; [rewrite comps_dir, Hc; reflexivity|rewrite app_nil_r; exact Hc].
  - exact Hdr.
  - destruct slash; auto.
Qed.
Lemma relocate_suffix : has_suffix_slash (fix_stream_name reloc ++ (if slash then "/" else ""))%string = slash.
Proof.
  rewrite fix_reloc. destruct slash eqn:Es.
  - change "/"%string with (String "/" ""). rewrite has_suffix_slash_app. reflexivity.
  - rewrite append_nil_r. destruct (valid_stream_name_inv _ Hrel) as (dr & Hc & Hdr). apply (stream_name_no_suffix _ _ Hc Hdr).
Qed.

(* no path of the manifest ends with an empty component *)
Lemma no_empty_last p l' : In p (map e_path E) -> comps p <> "."%string :: l' ++ [""%string].
Proof.
  intros Hp Hc. destruct (path_shape _ Hp) as (l2 & b & Hc2 & _ & _ & _ & Hb & _). rewrite Hc in Hc2.
  injection Hc2 as Hc2. apply app_inj_tail in Hc2. destruct Hc2 as [_ <-]. destruct Hb as [Hb|Hb]; [|discriminate].
  destruct (okc_inv _ Hb) as [Hb' _]. discriminate.
Qed.
Lemma src_lookup : exists a b, split_path src = (a, b) /\
  get2 sm a b = (if mem_str src (map e_path E) then Some (denote m src) else None) /\
  (mem_str src (map e_path E) = true -> src = key_path a b /\ okc b /\ noslash b /\ valid_stream_name_u a = true).
Proof.
  destruct (valid_stream_name_inv _ Hsrc) as (ds & Hc & Hds).
  pose proof (comps_noslash src) as Hns. rewrite Hc in Hns. inversion Hns as [|? ? _ Hns']; subst.
  destruct ds as [|d0 ds0] using rev_ind.
  - (* src = "." *)
    assert (Hs : src = "."%string) by (rewrite <- (join_comps src), Hc; reflexivity).
    exists "."%string, ""%string. rewrite Hs. split; [reflexivity|].
    assert (H1 : mem_str "." (map e_path E) = false).
    { destruct (mem_str "." (map e_path E)) eqn:Em; [|reflexivity]. exfalso. apply mem_str_In in Em.
      destruct (path_shape _ Em) as (l2 & b & Hc2 & _). cbn in Hc2. injection Hc2 as Hc2. destruct l2; discriminate. }
    rewrite H1. split; [|discriminate]. rewrite Hget. unfold sval.
    destruct (mem_str (key_path "." "") (map e_path (entries m))) eqn:Em; [|rewrite andb_false_r; reflexivity].
    exfalso. apply mem_str_In in Em. apply (no_empty_last _ [] Em). reflexivity.
  - clear IHds0. apply Forall_app in Hds. destruct Hds as [Hds0 Hd0]. inversion Hd0 as [|? ? Hd0' _]; subst.
    apply Forall_app in Hns'. destruct Hns' as [Hn0 Hnd]. inversion Hnd as [|? ? Hnd0 _]; subst.
    destruct (split_path_comps _ _ _ _ Hc) as [Hsp HP]. fold (path_string ds0) in Hsp, HP.
    exists (path_string ds0), d0. split; [exact Hsp|].
    fold (key_path (path_string ds0) d0) in HP. split.
    + rewrite Hget. unfold sval. rewrite <- HP. replace (nsl d0) with true by (symmetry; apply negb_true_iff; exact Hnd0).
      cbn [andb]. fold E. destruct (mem_str src (map e_path E)); [rewrite denote_entries; reflexivity|reflexivity].
    + intros _. split; [exact HP|]. split; [exact Hd0'|]. split; [exact Hnd0|].
      apply (valid_stream_name_intro _ ds0); [|exact Hds0]. apply path_string_comps. exact Hn0.
Qed.

Lemma slen_app a b : slen' (a ++ b)%string = (slen' a + slen' b)%nat.
Proof. induction a as [|c a IH]; [reflexivity|]. cbn. rewrite IH. reflexivity. Qed.
Lemma drop_last_dir x : drop_last (x ++ "/")%string = x.
Proof.
  unfold drop_last. rewrite slen_app. cbn [slen']. replace (slen' x + 1 - 1)%nat with (slen' x) by lia.
  rewrite take_app, Nat.sub_diag, take_0, append_nil_r. apply take_all. lia.
Qed.

Definition sel_key (k : string) : bool := has_prefix (src ++ "/")%string k || String.eqb k src.
Definition multi_text : string :=
  sconcat (map (fun k => if sel_key k then normalized_text (rel ++ drop (slen' src) k)%string (sf_of sm k) else ""%string)
               (sort_strs (map fst sm))).
Lemma text_for_path_eq : text_for_path sm src reloc =
  match get2 sm (fst (split_path src)) (snd (split_path src)) with
  | Some segs =>
      let rr := split_path (if slash then rel ++ "/" else rel)%string in
      normalized_text (fst rr) [(if String.eqb (snd rr) "" then snd (split_path src) else snd rr, segs)]
  | None => multi_text
  end.
Proof.
  unfold text_for_path. cbv zeta. rewrite (fix_valid src Hsrc). fold slash. rewrite fix_reloc.
  assert (Hrr : (rel ++ (if slash then "/" else ""))%string = (if slash then rel ++ "/" else rel)%string).
  { destruct slash; [reflexivity|apply append_nil_r]. }
  assert (Hdl : (if has_suffix_slash (rel ++ (if slash then "/" else "")) then drop_last (rel ++ (if slash then "/" else ""))
                 else (rel ++ (if slash then "/" else ""))%string) = rel).
  { pose proof relocate_suffix as H. rewrite fix_reloc in H. rewrite H. destruct slash; [apply drop_last_dir|apply append_nil_r]. }
  rewrite Hdl, Hrr. destruct (split_path src) as [a b]. cbn [fst snd]. unfold get2.
  destruct (assoc_get a sm) as [sf|]; [|reflexivity]. destruct (assoc_get b sf) as [segs|]; [|reflexivity].
  destruct (split_path (if slash then (rel ++ "/")%string else rel)) as [rs rf]. reflexivity.
Qed.

Lemma comps_snoc acc c : noslash c -> comps (acc ++ "/" ++ c)%string = comps acc ++ [c].
Proof.
  intros H. change (acc ++ "/" ++ c)%string with (path_of acc c). rewrite comps_path_of. f_equal. apply split_on_nosep. exact H.
Qed.
(* a path is not one of its own directory prefixes *)
Lemma self_not_prefix a b : noslash b -> ~ In (path_of a b) (dir_prefixes (path_of a b)).
Proof.
  intros Hb Hin.
  assert (Hc : exists c0 l, comps (path_of a b) = c0 :: l /\ l <> []).
  { rewrite comps_path_of. destruct (comps a) as [|c0 r] eqn:Ea; [exfalso; exact (comps_nonempty a Ea)|].
    exists c0, (r ++ comps b). split; [reflexivity|]. intros H. apply app_eq_nil in H. destruct H as [_ H]. exact (comps_nonempty b H). }
  destruct Hc as (c0 & l & Hc & Hl). unfold dir_prefixes in Hin. rewrite Hc in Hin.
  (* every element of dir_prefixes has fewer components *)
  assert (Hlen : forall cs acc p, In p (prefixes_from acc cs) -> Forall noslash cs ->
            (length (comps p) < length (comps acc) + length cs)%nat).
  { induction cs as [|c r IH]; intros acc p Hp Hn; [destruct Hp|]. cbn [prefixes_from] in Hp. destruct r as [|c' r']; [destruct Hp|].
    inversion Hn as [|? ? Hc0 Hr]; subst. destruct Hp as [<-|Hp].
    - rewrite (comps_snoc acc c Hc0), app_length. cbn [length]. lia.
    - specialize (IH _ _ Hp Hr). rewrite (comps_snoc acc c Hc0), app_length in IH. cbn [length] in *. lia. }
  pose proof (comps_noslash (path_of a b)) as Hns. rewrite Hc in Hns. inversion Hns as [|? ? Hn0 Hnl]; subst.
  destruct Hin as [Hin|Hin].
  - apply (f_equal comps) in Hin. rewrite Hc in Hin. unfold comps in Hin. rewrite (split_on_nosep _ _ Hn0) in Hin.
    injection Hin as Hin. congruence.
  - specialize (Hlen l c0 _ Hin Hnl). rewrite Hc in Hlen. unfold comps in Hlen. rewrite (split_on_nosep _ _ Hn0) in Hlen.
    cbn [length] in Hlen. lia.
Qed.

Lemma dest_split b : okc b -> noslash b ->
  let rr := split_path (if slash then rel ++ "/" else rel)%string in
  exists rs rf, fst rr = rs /\ (if String.eqb (snd rr) "" then b else snd rr) = rf /\
    valid_stream_name_u rs = true /\ okc rf /\ noslash rf /\
    key_path rs rf = (if slash || String.eqb rel "." then rel ++ "/" ++ b else rel)%string.
Proof.
  intros Hb Hnb rr. destruct (valid_stream_name_inv _ Hrel) as (dr & Hc & Hdr).
  pose proof (comps_noslash rel) as Hns. rewrite Hc in Hns. inversion Hns as [|? ? _ Hns']; subst.
  unfold rr. destruct slash eqn:Es.
  - assert (Hc' : comps (rel ++ "/")%string = "."%string :: dr ++ [""%string]) by (rewrite comps_dir, Hc; reflexivity).
    destruct (split_path_comps _ _ _ _ Hc') as [Hsp _]. rewrite Hsp. cbn [fst snd String.eqb].
    fold (path_string dr). rewrite (path_string_of_comps _ _ Hc). exists rel, b. cbn [orb]. auto 10.
  - cbn [orb]. destruct dr as [|d0 dr0] using rev_ind.
    + assert (Hr : rel = "."%string) by (rewrite <- (join_comps rel), Hc; reflexivity). rewrite Hr.
      exists "."%string, b. cbn. auto 10.
    + clear IHdr0. apply Forall_app in Hdr. destruct Hdr as [Hdr0 Hd0]. inversion Hd0 as [|? ? Hd0' _]; subst.
      apply Forall_app in Hns'. destruct Hns' as [Hn0 Hnd]. inversion Hnd as [|? ? Hnd0 _]; subst.
      destruct (split_path_comps _ _ _ _ Hc) as [Hsp HP]. fold (path_string dr0) in Hsp, HP. rewrite Hsp. cbn [fst snd].
      destruct (okc_inv _ Hd0') as (E1 & _). rewrite E1.
      exists (path_string dr0), d0. split; [reflexivity|]. split; [reflexivity|].
      split; [apply (valid_stream_name_intro _ dr0); [apply path_string_comps; exact Hn0|exact Hdr0]|].
      split; [exact Hd0'|]. split; [exact Hnd0|].
      destruct (String.eqb rel ".") eqn:Er; [|symmetry; exact HP]. exfalso. apply String.eqb_eq in Er.
      rewrite Er in Hc. cbn in Hc. injection Hc as Hc. destruct dr0; discriminate.
Qed.

Lemma sorted_files_single b (v : list seg) : sorted_files [(b, v)] = [(b, v)].
Proof. unfold sorted_files. cbn. rewrite String.eqb_refl. reflexivity. Qed.

Lemma single_ostream_ok rs rf p : valid_stream_name_u rs = true -> okc rf -> noslash rf -> ostream_ok (rs, [(rf, denote m p)]).
Proof.
  intros H1 H2 H3. unfold ostream_ok. cbn [fst snd]. constructor.
  - exact H1.
  - discriminate.
  - cbn. constructor; [intros []|constructor].
  - constructor; [|constructor]. split; [exact H3|left; exact H2].
  - constructor; [|constructor]. cbn [snd]. eapply Forall_impl; [|apply (denote_segs_ok ls m _ Hok)]. cbn. intros sg [H _]. exact H.
  - cbn [flat_map snd]. rewrite app_nil_r. intros b1 b2 Hb1 Hb2. apply Hcons.
    + apply in_map_iff in Hb1. destruct Hb1 as (sg & <- & Hsg). pose proof (denote_segs_ok ls m p Hok) as H. rewrite Forall_forall in H. apply H. exact Hsg.
    + apply in_map_iff in Hb2. destruct Hb2 as (sg & <- & Hsg). pose proof (denote_segs_ok ls m p Hok) as H. rewrite Forall_forall in H. apply H. exact Hsg.
Qed.

Lemma all_paths_E : all_paths m = map e_path E.
Proof. apply all_paths_entries. Qed.

Theorem extract_single : mem_str src (map e_path E) = true -> GM.extract_ok m src reloc (text_for_path sm src reloc) = true.
Proof.
  intros Hmem. destruct src_lookup as (a & b & Hsp & Hg & Hshape). rewrite Hmem in Hg. destruct (Hshape Hmem) as (Hsrc' & Hb & Hnb & Ha).
  rewrite text_for_path_eq, Hsp. cbn [fst snd]. rewrite Hg. cbv zeta.
  destruct (dest_split b Hb Hnb) as (rs & rf & H1 & H2 & Hrs & Hrf & Hnrf & Hdest). rewrite H1, H2.
  rewrite normalized_text_eq, sorted_files_single.
  set (st := (rs, [(rf, denote m src)]) : ostream).
  assert (Hst : Forall ostream_ok [st]) by (constructor; [apply single_ostream_ok; assumption|constructor]).
  assert (Hout : (nt_line rs [(rf, denote m src)] ++ s_nl)%string = out_text [st]).
  { unfold out_text, out_line, st. cbn [map sconcat fst snd]. rewrite append_nil_r. reflexivity. }
  rewrite Hout.
  assert (Hnd1 : NoDup (map fst [st])) by (cbn; constructor; [intros []|constructor]).
  assert (Hcf1 : forall s1 f1 s2 f2, In s1 [st] -> In f1 (snd s1) -> In s2 [st] -> In f2 (snd s2) -> okc (fst f1) ->
            ~ In (path_of (fst s1) (fst f1)) (dir_prefixes (path_of (fst s2) (fst f2)))).
  { intros s1 f1 s2 f2 [<-|[]] [<-|[]] [<-|[]] [<-|[]] _. cbn [fst snd]. apply self_not_prefix. exact Hnrf. }
  unfold GM.extract_ok. fold slash rel.
  assert (HE : extract_ref m src rel slash = [(key_path rs rf, src)]).
  { unfold extract_ref. rewrite (mem_str_ext src _ (all_paths m) (fun y => nodup_str_In y _)), all_paths_E, Hmem.
    rewrite Hdest. f_equal. f_equal. rewrite Hsrc' at 1. change (key_path a b) with (path_of a b). rewrite comps_path_of.
    unfold comps at 2. rewrite (split_on_nosep _ _ Hnb), last_str_snoc. reflexivity. }
  rewrite HE. rewrite (out_valid [st] Hst Hcf1), (out_parse [st] Hst). cbn [andb map fst forallb].
  apply andb_true_intro. split.
  - apply set_eqb_ext. intros x. rewrite (out_paths [st] Hst). cbn [In]. split.
    + intros (s1 & f1 & [<-|[]] & [<-|[]] & ->). left. reflexivity.
    + intros [<-|[]]. exists st, (rf, denote m src). cbn. auto.
  - rewrite andb_true_r. apply explode_canon_eqb.
    apply (out_content [st] Hst Hnd1 st (rf, denote m src)); left; reflexivity.
Qed.

(* ---- the directory case ---- *)
Lemma join_app sep : forall a b, a <> [] -> b <> [] -> join sep (a ++ b) = (join sep a ++ sep ++ join sep b)%string.
Proof.
  induction a as [|x a IH]; intros b Ha Hb; [congruence|]. destruct a as [|y a].
  - cbn [app]. destruct b as [|z b]; [congruence|]. rewrite join_cons2. reflexivity.
  - change ((x :: y :: a) ++ b) with (x :: (y :: a) ++ b). cbn [app]. rewrite !join_cons2.
    change (y :: a ++ b) with ((y :: a) ++ b). rewrite IH by (try discriminate; exact Hb). rewrite !append_assoc. reflexivity.
Qed.
Lemma NoDup_map_inj {A B} (f : A -> B) : forall l, NoDup l -> (forall x y, In x l -> In y l -> f x = f y -> x = y) -> NoDup (map f l).
Proof.
  induction l as [|x l IH]; intros Hn Hinj; cbn; [constructor|]. inversion Hn as [|? ? Hx Hn']; subst. constructor.
  - intros Hin. apply in_map_iff in Hin. destruct Hin as (y & Hy & Hyl). apply Hinj in Hy; [subst y; contradiction|right; exact Hyl|left; reflexivity].
  - apply IH; [exact Hn'|]. intros a b Ha Hb. apply Hinj; right; assumption.
Qed.
Lemma sconcat_filter (sel : string -> bool) (g : string -> string) : forall l,
  sconcat (map (fun k => if sel k then g k else ""%string) l) = sconcat (map g (filter sel l)).
Proof.
  induction l as [|k l IH]; [reflexivity|]. cbn [map sconcat filter]. destruct (sel k); cbn [map sconcat]; rewrite IH; reflexivity.
Qed.

Definition phi (k : string) : string := (rel ++ drop (slen' src) k)%string.
Definition keys : list string := filter sel_key (sort_strs (map fst sm)).
Definition msts : list ostream := map (fun k => (phi k, sorted_files (sf_of sm k))) keys.

Lemma multi_text_eq : multi_text = out_text msts.
Proof.
  unfold multi_text, out_text, msts, keys. rewrite (sconcat_filter sel_key (fun k => normalized_text (rel ++ drop (slen' src) k)%string (sf_of sm k))).
  rewrite map_map. f_equal. apply map_ext. intros k. unfold out_line. cbn [fst snd]. apply normalized_text_eq.
Qed.

(* components of a selected key and of its image *)
Lemma key_comps k : In k (map fst sm) -> exists l', comps k = "."%string :: l' /\ Forall okc l' /\ Forall noslash l' /\ k = path_string l'.
Proof.
  intros Hk. apply (proj1 (sm_key _)) in Hk. destruct Hk as (b & Hb). destruct (get2 sm k b) as [v|] eqn:Eg; [|congruence].
  apply get2_some in Eg. destruct Eg as (Hnb & Hin & _). destruct (path_shape _ Hin) as (l' & b0 & Hc & Hl' & Hnl' & _ & _ & _).
  assert (Hb0 : b0 = b).
  { unfold key_path in Hc. rewrite (comps_snoc k b Hnb) in Hc. change ("."%string :: l' ++ [b0]) with (("."%string :: l') ++ [b0]) in Hc.
    apply app_inj_tail in Hc. symmetry. apply Hc. }
  subst b0. pose proof (key_path_comps k b l' Hnb Hc) as Hk. exists l'. split; [rewrite Hk; apply path_string_comps; exact Hnl'|]. auto.
Qed.
Lemma sel_comps k : In k (map fst sm) -> sel_key k = true ->
  forall ds dr, comps src = "."%string :: ds -> comps rel = "."%string :: dr ->
  exists ck, comps k = "."%string :: ds ++ ck /\ Forall okc ck /\ comps (phi k) = "."%string :: dr ++ ck /\ (slen' src <= slen' k)%nat.
Proof.
  intros Hk Hsel ds dr Hcs Hcr. destruct (key_comps k Hk) as (l' & Hc & Hl' & _ & _).
  unfold sel_key in Hsel. apply orb_prop in Hsel. destruct Hsel as [Hsel|Hsel].
  - apply has_prefix_inv in Hsel. destruct Hsel as (r1 & Hk1).
    assert (Hk2 : k = (src ++ String c_slash r1)%string) by (rewrite Hk1, append_assoc; reflexivity).
    assert (Hck : comps k = "."%string :: ds ++ comps r1).
    { rewrite Hk2 at 1. unfold comps at 1. rewrite split_on_app_sep. fold (comps src) (comps r1). rewrite Hcs. reflexivity. }
    exists (comps r1). split; [exact Hck|]. rewrite Hc in Hck. injection Hck as Hck. rewrite Hck in Hl'.
    apply Forall_app in Hl'. split; [apply Hl'|]. split.
    + unfold phi. rewrite Hk2, drop_length_app. unfold comps at 1. rewrite split_on_app_sep. fold (comps rel) (comps r1). rewrite Hcr. reflexivity.
    + rewrite Hk2, slen_app. lia.
  - apply String.eqb_eq in Hsel. subst k. exists []. rewrite app_nil_r. split; [exact Hcs|]. split; [constructor|]. split; [|lia].
    unfold phi. rewrite drop_length_self, append_nil_r, app_nil_r. exact Hcr.
Qed.

Lemma sel_key_of_prefix k b l' : comps k = "."%string :: l' -> noslash b ->
  has_prefix (src ++ "/")%string (key_path k b) = true -> sel_key k = true.
Proof.
  intros Hck Hnb Hpre. apply has_prefix_inv in Hpre. destruct Hpre as (rest & Hp).
  assert (Hp2 : key_path k b = (src ++ String c_slash rest)%string) by (rewrite Hp, append_assoc; reflexivity).
  apply (f_equal comps) in Hp2. unfold key_path in Hp2. rewrite (comps_snoc k b Hnb) in Hp2.
  unfold comps at 2 in Hp2. rewrite split_on_app_sep in Hp2. fold (comps src) (comps rest) in Hp2.
  destruct (exists_last (comps_nonempty rest)) as (cr & lastc & Hcr). rewrite Hcr, app_assoc in Hp2.
  apply app_inj_tail in Hp2. destruct Hp2 as [Hk _]. unfold sel_key.
  destruct cr as [|c1 cr'].
  - rewrite app_nil_r in Hk. assert (k = src) by (rewrite <- (join_comps k), <- (join_comps src), Hk; reflexivity).
    subst k. rewrite String.eqb_refl. apply orb_true_r.
  - assert (Hk2 : k = ((src ++ "/") ++ join "/" (c1 :: cr'))%string).
    { rewrite <- (join_comps k), Hk, join_app by (try discriminate; apply comps_nonempty). rewrite join_comps, append_assoc. reflexivity. }
    rewrite Hk2 at 1. rewrite has_prefix_app. reflexivity.
Qed.
Lemma prefix_of_sel k b : sel_key k = true -> has_prefix (src ++ "/")%string (key_path k b) = true.
Proof.
  unfold sel_key, key_path. intros H. apply orb_prop in H. destruct H as [H|H].
  - apply has_prefix_inv in H. destruct H as (x & ->). rewrite append_assoc. apply has_prefix_app.
  - apply String.eqb_eq in H. subst k. rewrite <- append_assoc. apply has_prefix_app.
Qed.
Lemma phi_path k b : (slen' src <= slen' k)%nat -> path_of (phi k) b = (rel ++ drop (slen' src) (key_path k b))%string.
Proof.
  intros H. unfold path_of, phi, key_path. rewrite drop_app. replace (slen' src - slen' k)%nat with O by lia. rewrite drop_0.
  rewrite !append_assoc. reflexivity.
Qed.

Section Multi.
Variables (ds dr : list string).
Hypothesis Hcs : comps src = "."%string :: ds.
Hypothesis Hcr : comps rel = "."%string :: dr.
Hypothesis Hds : Forall okc ds.
Hypothesis Hdr : Forall okc dr.

Lemma mst_facts st f : In st msts -> In f (snd st) ->
  exists k ck, In k (map fst sm) /\ sel_key k = true /\ st = (phi k, sorted_files (sf_of sm k)) /\
    comps k = "."%string :: ds ++ ck /\ comps (phi k) = "."%string :: dr ++ ck /\ Forall okc ck /\
    noslash (fst f) /\ In (key_path k (fst f)) (map e_path E) /\ snd f = denote m (key_path k (fst f)) /\
    (slen' src <= slen' k)%nat.
Proof.
  intros Hst Hf. unfold msts in Hst. apply in_map_iff in Hst. destruct Hst as (k & <- & Hk). cbn [snd] in Hf.
  unfold keys in Hk. apply filter_In in Hk. destruct Hk as [Hk Hsel]. apply (proj1 (sort_strs_In _ _)) in Hk.
  destruct (sel_comps k Hk Hsel ds dr Hcs Hcr) as (ck & H1 & H2 & H3 & H4).
  apply (proj1 (sorted_files_In _ _)) in Hf. destruct Hf as (F1 & F2 & F3).
  exists k, ck. auto 12.
Qed.

Lemma mst_ok : Forall ostream_ok msts.
Proof.
  apply Forall_forall. intros st Hst. unfold msts in Hst. apply in_map_iff in Hst. destruct Hst as (k & <- & Hk).
  unfold keys in Hk. apply filter_In in Hk. destruct Hk as [Hk Hsel]. apply (proj1 (sort_strs_In _ _)) in Hk.
  destruct (sel_comps k Hk Hsel ds dr Hcs Hcr) as (ck & H1 & H2 & H3 & H4).
  apply key_ostream_ok; [exact Hk|]. apply (valid_stream_name_intro _ (dr ++ ck)); [exact H3|]. apply Forall_app. auto.
Qed.
Lemma mst_nodup : NoDup (map fst msts).
Proof.
  unfold msts. rewrite map_map. cbn [fst]. apply NoDup_map_inj.
  - unfold keys. apply NoDup_filter. apply sort_strs_NoDup.
  - intros k k' Hk Hk' Hphi. unfold keys in Hk, Hk'. apply filter_In in Hk, Hk'. destruct Hk as [Hk Hsel]. destruct Hk' as [Hk' Hsel'].
    apply (proj1 (sort_strs_In _ _)) in Hk, Hk'.
    destruct (sel_comps k Hk Hsel ds dr Hcs Hcr) as (ck & H1 & _ & H3 & _).
    destruct (sel_comps k' Hk' Hsel' ds dr Hcs Hcr) as (ck' & H1' & _ & H3' & _).
    rewrite Hphi, H3' in H3. injection H3 as H3. apply app_inv_head in H3. subst ck'.
    rewrite <- (join_comps k), <- (join_comps k'), H1, H1'. reflexivity.
Qed.

Lemma firstn_past {A} (a x : list A) j : (length a <= j)%nat -> firstn j (a ++ x) = a ++ firstn (j - length a) x.
Proof. intros H. rewrite firstn_app, firstn_all2 by exact H. reflexivity. Qed.

Lemma mst_conflict st f st' f' : In st msts -> In f (snd st) -> In st' msts -> In f' (snd st') -> okc (fst f) ->
  ~ In (path_of (fst st) (fst f)) (dir_prefixes (path_of (fst st') (fst f'))).
Proof.
  intros Hst Hf Hst' Hf' Hokc Hin.
  destruct (mst_facts st f Hst Hf) as (k & ck & Hk & Hsel & -> & Hck & Hcp & Hokck & Hnb & Hpin & _ & _).
  destruct (mst_facts st' f' Hst' Hf') as (k' & ck' & Hk' & Hsel' & -> & Hck' & Hcp' & Hokck' & Hnb' & Hpin' & _ & _).
  cbn [fst] in Hin. set (b := fst f) in *. set (b' := fst f') in *.
  assert (HcP : comps (path_of (phi k) b) = "."%string :: (dr ++ ck) ++ [b]).
  { change (path_of (phi k) b) with (phi k ++ "/" ++ b)%string. rewrite (comps_snoc _ _ Hnb), Hcp. reflexivity. }
  assert (HcP' : comps (path_of (phi k') b') = "."%string :: (dr ++ ck') ++ [b']).
  { change (path_of (phi k') b') with (phi k' ++ "/" ++ b')%string. rewrite (comps_snoc _ _ Hnb'), Hcp'. reflexivity. }
  assert (HcK : comps (key_path k b) = "."%string :: (ds ++ ck) ++ [b]).
  { unfold key_path. rewrite (comps_snoc _ _ Hnb), Hck. reflexivity. }
  assert (HcK' : comps (key_path k' b') = "."%string :: (ds ++ ck') ++ [b']).
  { unfold key_path. rewrite (comps_snoc _ _ Hnb'), Hck'. reflexivity. }
  apply (dir_prefixes_spec _ _ _ HcP') in Hin. rewrite <- (path_string_of_comps _ _ HcP) in Hin.
  destruct Hin as [Hin|(j & Hj & Hin)].
  - destruct ((dr ++ ck) ++ [b]) eqn:El; [destruct (dr ++ ck); discriminate|]. exact (path_string_cons_ne _ _ Hin).
  - pose proof (comps_noslash (path_of (phi k) b)) as Hn1. rewrite HcP in Hn1. inversion Hn1 as [|? ? _ Hn1']; subst.
    pose proof (comps_noslash (path_of (phi k') b')) as Hn2. rewrite HcP' in Hn2. inversion Hn2 as [|? ? _ Hn2']; subst.
    apply path_string_inj in Hin; [|exact Hn1'|apply Forall_firstn; exact Hn2'].
    rewrite <- !app_assoc in Hin. rewrite !app_length in Hj. cbn [length] in Hj.
    assert (Hlen : (length dr + length ck + 1 = j)%nat).
    { apply (f_equal (@length string)) in Hin. rewrite firstn_length, !app_length in Hin. cbn [length] in Hin. lia. }
    rewrite firstn_past in Hin by lia. apply app_inv_head in Hin.
    (* the same happens in the input: a file path is a directory prefix of another path *)
    apply (Hcf (key_path k b)).
    + apply in_map_iff in Hpin. destruct Hpin as (e & He1 & He2). unfold files_of. rewrite <- He1. apply in_map. apply filter_In.
      split; [exact He2|]. pose proof Hsh as H. rewrite Forall_forall in H. destruct (H e He2) as (l2 & b2 & Hc2 & _ & Hb2).
      rewrite He1, HcK in Hc2. injection Hc2 as Hc2. apply app_inj_tail in Hc2. destruct Hc2 as [_ <-].
      destruct (e_marker e); [|reflexivity]. exfalso. destruct Hb2 as [Hb2 _]. fold b in Hokc. rewrite Hb2 in Hokc. exact (okc_dot Hokc).
    + apply in_map_iff in Hpin'. destruct Hpin' as (e' & He1' & He2'). unfold dirs_of. apply in_flat_map. exists e'. split; [exact He2'|].
      rewrite He1'. apply (dir_prefixes_spec _ _ _ HcK'). right. exists (length ds + (j - length dr))%nat.
      rewrite !app_length. cbn [length]. split; [lia|].
      rewrite <- (path_string_of_comps _ _ HcK). f_equal. rewrite <- !app_assoc. rewrite firstn_past by lia.
      f_equal. replace (length ds + (j - length dr) - length ds)%nat with (j - length dr)%nat by lia. exact Hin.
Qed.

Lemma P_to_mst p : In p (map e_path E) -> has_prefix (src ++ "/")%string p = true ->
  exists st f, In st msts /\ In f (snd st) /\ path_of (fst st) (fst f) = (rel ++ drop (slen' src) p)%string /\ snd f = denote m p.
Proof.
  intros Hp Hpre. destruct (path_shape _ Hp) as (l' & b & Hc & Hl' & Hnl' & Hnb & _ & HP).
  set (k := path_string l') in *. assert (Hck : comps k = "."%string :: l') by (apply path_string_comps; exact Hnl').
  rewrite HP in Hpre, Hp. pose proof (sel_key_of_prefix k b l' Hck Hnb Hpre) as Hsel.
  assert (Hk : In k (map fst sm)).
  { apply sm_key. exists b. rewrite (get2_intro k b Hnb Hp). discriminate. }
  destruct (sel_comps k Hk Hsel ds dr Hcs Hcr) as (ck & _ & _ & _ & Hlen).
  exists (phi k, sorted_files (sf_of sm k)), (b, denote m p). cbn [fst snd]. split; [|split; [|split; [|reflexivity]]].
  - unfold msts. apply in_map_iff. exists k. split; [reflexivity|]. unfold keys. apply filter_In. split; [apply sort_strs_In; exact Hk|exact Hsel].
  - apply sorted_files_In. cbn [fst snd]. rewrite <- HP. rewrite HP at 1. auto.
  - rewrite HP. apply phi_path. exact Hlen.
Qed.
Lemma mst_to_P st f : In st msts -> In f (snd st) ->
  exists p, In p (map e_path E) /\ has_prefix (src ++ "/")%string p = true /\
            path_of (fst st) (fst f) = (rel ++ drop (slen' src) p)%string /\ snd f = denote m p.
Proof.
  intros Hst Hf. destruct (mst_facts st f Hst Hf) as (k & ck & Hk & Hsel & -> & _ & _ & _ & Hnb & Hpin & Hv & Hlen).
  exists (key_path k (fst f)). split; [exact Hpin|]. split; [apply prefix_of_sel; exact Hsel|]. split; [apply phi_path; exact Hlen|exact Hv].
Qed.
Lemma msts_nil : (forall p, In p (map e_path E) -> has_prefix (src ++ "/")%string p = true -> False) -> msts = [].
Proof.
  intros H. destruct msts as [|st r] eqn:Em; [reflexivity|]. exfalso.
  assert (Hst : In st msts) by (rewrite Em; left; reflexivity).
  pose proof mst_ok as Hmok. rewrite Forall_forall in Hmok. pose proof (no_ne _ _ (Hmok st Hst)) as Hfne.
  destruct (snd st) as [|f fr] eqn:Ef; [congruence|].
  destruct (mst_to_P st f Hst) as (p & Hp1 & Hp2 & _); [rewrite Ef; left; reflexivity|]. exact (H p Hp1 Hp2).
Qed.
End Multi.

Theorem extract_multi : mem_str src (map e_path E) = false -> GM.extract_ok m src reloc (text_for_path sm src reloc) = true.
Proof.
  intros Hmem. destruct src_lookup as (a & b & Hsp & Hg & _). rewrite Hmem in Hg.
  rewrite text_for_path_eq, Hsp. cbn [fst snd]. rewrite Hg, multi_text_eq.
  destruct (valid_stream_name_inv _ Hsrc) as (ds & Hcs & Hds). destruct (valid_stream_name_inv _ Hrel) as (dr & Hcr & Hdr).
  pose proof (mst_ok ds dr Hcs Hcr Hdr) as Hmok. pose proof (mst_nodup ds dr Hcs Hcr) as Hmnd.
  pose proof (mst_conflict ds dr Hcs Hcr) as Hmcf.
  unfold GM.extract_ok. fold slash rel.
  set (P := filter (has_prefix (src ++ "/")%string) (nodup_str (map e_path E))).
  assert (HP : forall p, In p P <-> In p (map e_path E) /\ has_prefix (src ++ "/")%string p = true).
  { intros p. unfold P. rewrite filter_In, nodup_str_In. tauto. }
  assert (HE : extract_ref m src rel slash = map (fun p => ((rel ++ drop (slen' src) p)%string, p)) P).
  { unfold extract_ref. rewrite all_paths_E. rewrite (mem_str_ext src _ (map e_path E) (fun y => nodup_str_In y _)), Hmem. reflexivity. }
  rewrite HE. destruct P as [|p0 P'] eqn:EP.
  - cbn [map]. rewrite (msts_nil ds dr Hcs Hcr Hdr); [reflexivity|]. intros p Hp1 Hp2. apply (proj2 (HP p)). auto.
  - rewrite <- EP. rewrite <- EP in HP.
    rewrite match_nonempty by (rewrite EP; discriminate).
    rewrite (out_valid msts Hmok Hmcf), (out_parse msts Hmok). cbn [andb].
    apply andb_true_intro. split.
    + apply set_eqb_ext. intros x. rewrite (out_paths msts Hmok), map_map. cbn [fst]. rewrite in_map_iff. split.
      * intros (st & f & Hst & Hf & ->). destruct (mst_to_P ds dr Hcs Hcr st f Hst Hf) as (p & Hp1 & Hp2 & Hp3 & _).
        exists p. split; [symmetry; exact Hp3|]. apply HP. auto.
      * intros (p & <- & Hp). apply (proj1 (HP p)) in Hp. destruct Hp as [Hp1 Hp2].
        destruct (P_to_mst ds dr Hcs Hcr p Hp1 Hp2) as (st & f & Hst & Hf & Hpath & _). exists st, f. auto.
    + apply forallb_forall. intros [d s0] Hds0. apply in_map_iff in Hds0. destruct Hds0 as (p & Hp & HpP). injection Hp as <- <-.
      apply (proj1 (HP p)) in HpP. destruct HpP as [Hp1 Hp2].
      destruct (P_to_mst ds dr Hcs Hcr p Hp1 Hp2) as (st & f & Hst & Hf & Hpath & Hv).
      apply explode_canon_eqb. rewrite <- Hpath, <- Hv. apply (out_content msts Hmok Hmnd st f Hst Hf).
Qed.

Theorem extract_ok_sm : GM.extract_ok m src reloc (text_for_path sm src reloc) = true.
Proof. destruct (mem_str src (map e_path E)) eqn:Em; [apply extract_single|apply extract_multi]; exact Em. Qed.
End Seg.

(* ---------- extract_preserves ---------- *)
Theorem extract_preserves : forall txt m src reloc,
  valid_manifest txt = true -> parse_manifest txt = Some m -> small_manifest m = true -> consistent_sizes m ->
  valid_stream_name_u src = true -> valid_stream_name_u (GM.strip_slash reloc) = true ->
  exists out, gm_extract txt src reloc = Ok out /\ GM.extract_ok m src reloc out = true.
Proof.
  intros txt m src reloc Hv Hp Hsm Hcons Hsrc Hrel.
  destruct (gm_segment_text_full txt m Hv Hp Hsm) as (sm & Hseg & Hget & Hne).
  destruct (valid_manifest_shape txt m Hv Hp) as (_ & Hcf & ls & Hok).
  exists (text_for_path sm src reloc). split; [unfold gm_extract; rewrite Hseg; reflexivity|].
  apply (extract_ok_sm m sm ls Hok Hcf Hcons Hget Hne src reloc Hsrc Hrel).
Qed.

(* ---------- normalize_preserves: Extract(".", ".") rewrites the whole manifest in normal form ---------- *)
Lemma set_eqb_true a b : set_eqb a b = true -> forall x, In x a <-> In x b.
Proof.
  unfold set_eqb, str_list_eqb. intros H x. apply (list_eqb_eq String.eqb) in H; [|intros u v Huv; apply String.eqb_eq; exact Huv].
  rewrite <- (sort_strs_In x a), <- (sort_strs_In x b), H. tauto.
Qed.
Lemma filter_all {A} (f : A -> bool) : forall l, (forall x, In x l -> f x = true) -> filter f l = l.
Proof.
  induction l as [|x l IH]; intros H; [reflexivity|]. cbn [filter]. rewrite (H x (or_introl eq_refl)). f_equal.
  apply IH. intros y Hy. apply H. right. exact Hy.
Qed.
Lemma path_dot_slash m ls p : lines_ok ls m -> In p (all_paths m) -> exists rest, p = ("./" ++ rest)%string.
Proof.
  intros Hok Hp. rewrite all_paths_entries in Hp. destruct (path_shape m ls Hok p Hp) as (l' & b & _ & _ & _ & _ & _ & HP).
  rewrite HP. unfold key_path, path_string. destruct l' as [|x l1].
  - exists b. reflexivity.
  - rewrite join_cons2. eexists. cbn [append]. reflexivity.
Qed.

Theorem normalize_preserves : forall txt m,
  valid_manifest txt = true -> parse_manifest txt = Some m -> small_manifest m = true -> consistent_sizes m ->
  exists out m', gm_extract txt "." "." = Ok out /\ valid_manifest out = true /\ parse_manifest out = Some m' /\
    (forall p, In p (all_paths m') <-> In p (all_paths m)) /\
    (forall p, In p (all_paths m) -> canon_eqb (denote m' p) (denote m p) = true).
Proof.
  intros txt m Hv Hp Hsm Hcons.
  destruct (extract_preserves txt m "." "." Hv Hp Hsm Hcons eq_refl eq_refl) as (out & Hex & Hok).
  destruct (valid_manifest_shape txt m Hv Hp) as (_ & _ & ls & Hlok).
  exists out. unfold GM.extract_ok in Hok. change (GM.strip_slash ".") with "."%string in Hok. change (has_suffix_slash ".") with false in Hok.
  assert (HE : extract_ref m "." "." false = map (fun p => (p, p)) (nodup_str (all_paths m))).
  { unfold extract_ref.
    assert (Hno : mem_str "." (nodup_str (all_paths m)) = false).
    { destruct (mem_str "." (nodup_str (all_paths m))) eqn:Em; [|reflexivity]. exfalso. apply mem_str_In in Em. apply (proj1 (nodup_str_In _ _)) in Em.
      destruct (path_dot_slash m ls "." Hlok Em) as (rest & Hr). discriminate. }
    rewrite Hno. rewrite filter_all.
    - apply map_ext_in. intros p Hp'. apply (proj1 (nodup_str_In _ _)) in Hp'. destruct (path_dot_slash m ls p Hlok Hp') as (rest & ->). reflexivity.
    - intros p Hp'. apply (proj1 (nodup_str_In _ _)) in Hp'. destruct (path_dot_slash m ls p Hlok Hp') as (rest & ->). reflexivity. }
  rewrite HE in Hok. destruct (nodup_str (all_paths m)) as [|p0 ps] eqn:Eps.
  - cbn [map] in Hok. apply String.eqb_eq in Hok. subst out. exists []. split; [exact Hex|]. split; [reflexivity|]. split; [reflexivity|].
    assert (Hnone : forall p, ~ In p (all_paths m)) by (intros p Hp'; apply (proj2 (nodup_str_In _ _)) in Hp'; rewrite Eps in Hp'; exact Hp').
    split; [intros p; split; [intros []|intros H; exact (Hnone p H)]|intros p H; destruct (Hnone p H)].
  - rewrite <- Eps in *. rewrite match_nonempty in Hok by (rewrite Eps; discriminate).
    apply andb_prop in Hok. destruct Hok as [Hval Hrest]. destruct (parse_manifest out) as [m'|]; [|discriminate].
    apply andb_prop in Hrest. destruct Hrest as [Hset Hall]. exists m'. split; [exact Hex|]. split; [exact Hval|]. split; [reflexivity|].
    rewrite map_map in Hset. cbn [fst] in Hset. rewrite map_id in Hset. split.
    + intros p. rewrite (set_eqb_true _ _ Hset p). apply nodup_str_In.
    + intros p Hp'. rewrite forallb_forall in Hall. apply (Hall (p, p)). apply in_map_iff. exists p. split; [reflexivity|].
      apply nodup_str_In. exact Hp'.
Qed.

(* the same two statements in terms of bytes, for every block store *)
Corollary normalize_preserves_bytes : forall txt m (st : store),
  valid_manifest txt = true -> parse_manifest txt = Some m -> small_manifest m = true -> consistent_sizes m ->
  exists out m', gm_extract txt "." "." = Ok out /\ valid_manifest out = true /\ parse_manifest out = Some m' /\
    (forall p, In p (all_paths m') <-> In p (all_paths m)) /\
    (forall p, In p (all_paths m) -> file_bytes st m' p = file_bytes st m p).
Proof.
  intros txt m st Hv Hp Hsm Hcons. destruct (normalize_preserves txt m Hv Hp Hsm Hcons) as (out & m' & H1 & H2 & H3 & H4 & H5).
  exists out, m'. repeat (split; [assumption|]). intros p Hp'. unfold file_bytes. apply canon_eqb_bytes. apply H5. exact Hp'.
Qed.

(* ---------- what extract_ok means: paths and bytes ---------- *)
Theorem extract_preserves_meaning : forall txt m src reloc,
  valid_manifest txt = true -> parse_manifest txt = Some m -> small_manifest m = true -> consistent_sizes m ->
  valid_stream_name_u src = true -> valid_stream_name_u (GM.strip_slash reloc) = true ->
  let E := extract_ref m src (GM.strip_slash reloc) (has_suffix_slash reloc) in
  exists out m', gm_extract txt src reloc = Ok out /\ valid_manifest out = true /\ parse_manifest out = Some m' /\
    (forall d, In d (all_paths m') <-> In d (map fst E)) /\
    (forall d s, In (d, s) E -> canon_eqb (denote m' d) (denote m s) = true) /\
    (forall (st : store) d s, In (d, s) E -> file_bytes st m' d = file_bytes st m s).
Proof.
  intros txt m src reloc Hv Hp Hsm Hcons Hsrc Hrel E.
  destruct (extract_preserves txt m src reloc Hv Hp Hsm Hcons Hsrc Hrel) as (out & Hex & Hok).
  exists out. unfold GM.extract_ok in Hok. fold E in Hok. destruct E as [|e0 Er] eqn:EE.
  - apply String.eqb_eq in Hok. subst out. exists []. split; [exact Hex|]. split; [reflexivity|]. split; [reflexivity|].
    split; [intros d; cbn; tauto|]. split; intros; contradiction.
  - apply andb_prop in Hok. destruct Hok as [Hval Hrest]. destruct (parse_manifest out) as [m'|]; [|discriminate].
    apply andb_prop in Hrest. destruct Hrest as [Hset Hall]. exists m'. split; [exact Hex|]. split; [exact Hval|]. split; [reflexivity|].
    split; [apply set_eqb_true; exact Hset|]. rewrite forallb_forall in Hall. split.
    + intros d s Hin. apply (Hall (d, s) Hin).
    + intros st d s Hin. unfold file_bytes. apply canon_eqb_bytes. apply (Hall (d, s) Hin).
Qed.

(* the hypothesis [consistent_sizes] cannot be dropped: two locators with the same hash and different sizes *)
Definition inconsistent_example : string :=
  ". 37b51d194a7513e45b56f6524f2d51f2+3 37b51d194a7513e45b56f6524f2d51f2+5 0:8:f" ++ s_nl.
Lemma extract_needs_consistent_sizes :
  valid_manifest inconsistent_example = true /\
  gm_extract inconsistent_example "." "." = Ok (". 37b51d194a7513e45b56f6524f2d51f2+3 0:3:f 0:5:f" ++ s_nl)%string /\
  valid_manifest (". 37b51d194a7513e45b56f6524f2d51f2+3 0:3:f 0:5:f" ++ s_nl)%string = false.
Proof. vm_compute. repeat split. Qed.
