(* C07 — the hypotheses of the main theorems are satisfiable: concrete instances, checked by computation. *)
From Coq Require Import NArith List Ascii String Bool.
From AV Require Import lib.Str lib.Sha1 lib.TokSplit model.C07_model proofs.C07_parse proofs.C07_verify.
Import ListNotations.
Local Open Scope string_scope.

Definition ex_loc := "acbd18db4cc2f85cedef654fccc4a4d8+3+Kzzzzz".
Definition ex_h := "acbd18db4cc2f85cedef654fccc4a4d8".
Definition ex_signed := sign_locator ex_loc "a@b+c" 1600000000 1209600000000000 "key".

Example ex_signed_value : ex_signed = "acbd18db4cc2f85cedef654fccc4a4d8+3+Kzzzzz+Aa2972e86934d0d719612d2926eb1d93dd3b179c5@5f5e1000".
Proof. vm_compute. reflexivity. Qed.

(* sign_then_verify: all hypotheses hold for this instance and so does the conclusion *)
Example sign_then_verify_instance :
  unsigned_shape ex_loc ex_h /\ "key" <> "" /\ "a@b+c" <> "" /\ (1600000000 < 4294967296)%N /\
  (1599999999000000000 <= 1600000000 * 1000000000)%N /\
  verify ex_signed "a@b+c" 1209600000000000 "key" 1599999999000000000 = VOk.
Proof.
  split; [exact sign_then_verify_example|]. split; [discriminate|]. split; [discriminate|].
  split; [reflexivity|]. split; [discriminate|]. vm_compute. reflexivity.
Qed.

(* perturbation_rejected: the signature is kept, one digit of the expiry field is changed *)
Definition ex_sig := make_sig "key" ex_h "a@b+c" "5f5e1000" (ttl_hex 1209600000000000).
Definition ex_perturbed := ex_loc ++ "+A" ++ ex_sig ++ "@" ++ "6f5e1000".
Example perturbation_instance :
  signed_shape ex_perturbed ex_h ex_sig "6f5e1000" /\
  (ex_sig = ex_sig /\ ~ ("key" = "key" /\ ex_h = ex_h /\ "a@b+c" = "a@b+c" /\ "6f5e1000" = "5f5e1000" /\
                         ttl_hex 1209600000000000 = ttl_hex 1209600000000000)) /\
  verify ex_perturbed "a@b+c" 1209600000000000 "key" 1599999999000000000 = VInvalid.
Proof.
  split; [apply parse_signed_shape; vm_compute; reflexivity|]. split.
  - split; [reflexivity|]. intros (_ & _ & _ & H & _). discriminate.
  - vm_compute. reflexivity.
Qed.

(* keepstore: the gate opens for the valid locator and the right token, and only then *)
Example keepstore_gate_instance :
  get_gate true ("/" ++ ex_signed) (Some "Bearer a@b+c") 1209600000000000 "key" 1599999999000000000 = GVolume ex_h /\
  get_gate true ("/" ++ ex_signed) (Some "Bearer other") 1209600000000000 "key" 1599999999000000000 = GDeny 403 /\
  get_gate true ("/" ++ ex_signed) (Some "Bearer a@b+c") 1209600000000000 "key" 1600000001000000000 = GDeny 401 /\
  get_gate true ("/" ++ ex_loc) None 1209600000000000 "key" 1599999999000000000 = GDeny 403.
Proof. repeat split; vm_compute; reflexivity. Qed.
