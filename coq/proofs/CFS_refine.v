(* File-level refinement in the form the tree layer needs: a segment-list file node refines a plain
   byte list, for reads through the caller's loop, writes and truncation, with the handle invariant
   [hok] that survives positions beyond end of file. *)
From Coq Require Import List Arith Lia Bool.
Import ListNotations.
From AV Require Import model.CFS_file model.CFS_tree model.CFS_inst proofs.CFS_file_proofs.

(* a handle's cached (idx, soff) may be trusted when its repack stamp is current and its offset lies
   inside the file; Go recomputes it in every other case *)
Definition hok (fn : fnode) (p : ptr) : Prop :=
  match rep p with
  | Some r => r <= repacked fn /\ (r = repacked fn -> off p <= size fn -> valid fn p)
  | None => True
  end.

Definition unrep (p : ptr) : ptr := {| off := off p; idx := idx p; soff := soff p; rep := None |}.

Lemma seek_beyond fn p : size fn <= off p -> seek fn p = seek fn (unrep p).
Proof. intros H. unfold seek, unrep. cbn [off rep idx soff]. destruct (Nat.leb_spec (size fn) (off p)); [reflexivity|lia]. Qed.

Lemma seek_rep fn p : rep (seek fn p) = Some (repacked fn).
Proof.
  unfold seek. destruct (size fn <=? off p); [reflexivity|].
  destruct (rep p) as [r|] eqn:E.
  - destruct (Nat.eqb_spec r (repacked fn)) as [->|].
    + destruct (slen (nthseg (segs fn) (idx p)) <=? soff p); cbn [rep]; try reflexivity; exact E.
    + destruct (locate (segs fn) (off p) 0); reflexivity.
  - destruct (locate (segs fn) (off p) 0); reflexivity.
Qed.

Lemma hok_pre fn p : hok fn p -> off p <= size fn -> rep p = Some (repacked fn) -> valid fn p.
Proof. unfold hok. intros H Hle E. rewrite E in H. destruct H as [_ H]. apply H; [reflexivity|exact Hle]. Qed.

Lemma handle_ok_unrep fn p : handle_ok fn (unrep p).
Proof. exact I. Qed.

Lemma hok_to_handle_ok fn p : hok fn p -> off p <= size fn -> handle_ok fn p.
Proof.
  unfold hok, handle_ok. destruct (rep p) as [r|]; [|trivial]. intros [A B] Hle. split; [exact A|]. intros E. apply B; assumption.
Qed.
Lemma handle_ok_to_hok fn p : handle_ok fn p -> hok fn p.
Proof. unfold hok, handle_ok. destruct (rep p) as [r|]; [|trivial]. intros [A B]. split; [exact A|]. intros E _. apply B; exact E. Qed.

(* ---- one Read call ---- *)
Lemma fn_read_rep fn n p : let '(_, p', _) := fn_read fn n p in rep p' = Some (repacked fn).
Proof.
  unfold fn_read. pose proof (seek_rep fn p) as E. set (q := seek fn p) in *.
  destruct (length (segs fn) <=? idx q); [exact E|].
  destruct (length (firstn n (skipn (soff q) (sbytes (nthseg (segs fn) (idx q))))) =? 0); [exact E|].
  destruct (soff q + length (firstn n (skipn (soff q) (sbytes (nthseg (segs fn) (idx q))))) =? slen (nthseg (segs fn) (idx q))); cbn [rep]; exact E.
Qed.

Lemma fn_read_beyond fn n p : WF fn -> size fn <= off p ->
  fn_read fn n p = ([], seek fn p, true).
Proof.
  intros Hwf H. unfold fn_read.
  assert (E : idx (seek fn p) = length (segs fn)).
  { unfold seek. destruct (Nat.leb_spec (size fn) (off p)); [reflexivity|lia]. }
  rewrite E. rewrite Nat.leb_refl. reflexivity.
Qed.

Lemma fn_read_eof fn n p : WF fn -> 0 < n -> off p < size fn ->
  (rep p = Some (repacked fn) -> valid fn p) ->
  let '(d, p', eof) := fn_read fn n p in
  eof = true -> off p' = size fn /\ size fn - off p < n.
Proof.
  intros Hwf Hn Hin Hv.
  destruct (seek_valid fn p Hwf ltac:(lia) Hv) as [Hq Hoff].
  unfold fn_read. set (q := seek fn p) in *.
  destruct Hq as [Ho Hc]. destruct Hwf as [Hsz Hpos].
  assert (Hidx : idx q < length (segs fn) /\ soff q < slen (nthseg (segs fn) (idx q))).
  { destruct Hc as [Hc|[Hc1 Hc2]]; [exact Hc|]. exfalso.
    rewrite Hc1, Hc2 in Ho. rewrite pre_len_all in Ho by lia. unfold content in Hsz. lia. }
  destruct Hidx as [Hi Hs].
  destruct (Nat.leb_spec (length (segs fn)) (idx q)); [lia|].
  set (s := nthseg (segs fn) (idx q)) in *.
  set (data := firstn n (skipn (soff q) (sbytes s))).
  assert (Hlen : length data = Nat.min n (slen s - soff q)).
  { unfold data. rewrite firstn_length, skipn_length. reflexivity. }
  destruct (Nat.eqb_spec (length data) 0) as [E0|E0]; [exfalso; lia|].
  destruct (Nat.eqb_spec (soff q + length data) (slen s)) as [E1|E1].
  - destruct (Nat.ltb_spec (S (idx q)) (length (segs fn))) as [E2|E2]; [discriminate|].
    intros He. apply Nat.ltb_lt in He. cbn [off].
    assert (Hlast : S (idx q) = length (segs fn)) by lia.
    assert (Htot : pre_len (segs fn) (S (idx q)) = size fn).
    { rewrite pre_len_all by lia. unfold content in Hsz. lia. }
    rewrite pre_len_S in Htot by lia. fold s in Htot. split; lia.
  - intros He. apply Nat.ltb_lt in He. exfalso. lia.
Qed.

Lemma fn_read_hok fn n p : WF fn -> hok fn p -> 0 < n ->
  let '(d, p', eof) := fn_read fn n p in
  d = firstn (length d) (skipn (off p) (content fn)) /\ length d <= n /\ off p' = off p + length d /\
  (size fn <= off p -> d = [] /\ eof = true) /\
  (off p < size fn -> 0 < length d) /\
  (off p < size fn -> eof = true -> off p' = size fn /\ size fn - off p < n) /\
  hok fn p'.
Proof.
  intros Hwf Hh Hn.
  destruct (Nat.le_gt_cases (size fn) (off p)) as [Hb|Hin].
  - rewrite (fn_read_beyond fn n p Hwf Hb).
    assert (Hs : off (seek fn p) = off p /\ idx (seek fn p) = length (segs fn) /\ soff (seek fn p) = 0).
    { unfold seek. destruct (Nat.leb_spec (size fn) (off p)); [cbn; auto|lia]. }
    destruct Hs as (S1 & S2 & S3).
    split; [reflexivity|]. split; [cbn; lia|]. split; [cbn [length]; lia|].
    split; [auto|]. split; [intros; lia|]. split; [intros; lia|].
    unfold hok. rewrite seek_rep. split; [lia|]. intros _ Hle.
    assert (off p = size fn) by lia. unfold valid. rewrite S1, S2, S3. destruct Hwf as [Hsz _].
    split; [|right; auto]. rewrite pre_len_all by lia. unfold content in Hsz. lia.
  - assert (Hv : rep p = Some (repacked fn) -> valid fn p) by (intros E; apply hok_pre; [exact Hh|lia|exact E]).
    pose proof (fn_read_ok fn n p Hwf Hv) as H.
    pose proof (fn_read_rep fn n p) as Hr.
    pose proof (fn_read_eof fn n p Hwf Hn Hin Hv) as He.
    destruct (fn_read fn n p) as [[d p'] eof].
    destruct H as (A & B & C & D & E & G).
    split; [exact A|]. split; [exact B|]. split; [exact C|]. split; [exact D|]. split; [intros _; apply E; assumption|].
    split; [intros _; exact He|].
    unfold hok. rewrite Hr. split; [lia|]. intros _ _. apply G. lia.
Qed.

(* ---- the read loop = a read from the byte array ---- *)
Lemma firstn_add {A} (l : list A) : forall k m, firstn (k + m) l = firstn k l ++ firstn m (skipn k l).
Proof.
  induction l as [|x l IH]; intros k m.
  - rewrite !firstn_nil, skipn_nil, firstn_nil. reflexivity.
  - destruct k; cbn [Nat.add firstn skipn app]; [reflexivity|]. rewrite IH. reflexivity.
Qed.
Lemma firstn_skipn_step (c : list byte) o k m :
  firstn k (skipn o c) ++ firstn m (skipn (o + k) c) = firstn (k + m) (skipn o c).
Proof. rewrite firstn_add, my_skipn_skipn. reflexivity. Qed.

Lemma fn_read_loop_S fuel fn n p acc :
  fn_read_loop (S fuel) fn n p acc =
  if Nat.eqb n 0 then (acc, p, false) else
  let '(d, p', eof) := fn_read fn n p in
  if eof then (acc ++ d, p', true) else fn_read_loop fuel fn (n - length d) p' (acc ++ d).
Proof. reflexivity. Qed.

Lemma read_loop_ok fn (Hwf : WF fn) : forall fuel n p acc,
  hok fn p -> n <= fuel ->
  let '(d, p', eof) := fn_read_loop (S fuel) fn n p acc in
  d = acc ++ firstn n (skipn (off p) (content fn)) /\
  off p' = off p + (length d - length acc) /\
  eof = (length (content fn) - off p <? n) /\
  hok fn p'.
Proof.
  induction fuel as [|fuel IH]; intros n p acc Hh Hn.
  - assert (n = 0) by lia. subst n. cbn. rewrite app_nil_r. split; [reflexivity|]. split; [lia|]. split; [reflexivity|exact Hh].
  - rewrite fn_read_loop_S. destruct (Nat.eqb_spec n 0) as [->|Hn0].
    + cbn. rewrite app_nil_r. split; [reflexivity|]. split; [lia|]. split; [reflexivity|exact Hh].
    + pose proof (fn_read_hok fn n p Hwf Hh ltac:(lia)) as H.
      destruct (fn_read fn n p) as [[d p'] eof].
      destruct H as (A & B & C & D & E & G & K).
      pose proof Hwf as [Hsz Hpos].
      assert (Havail : length d <= length (skipn (off p) (content fn))).
      { rewrite A at 1. rewrite firstn_length. lia. }
      rewrite skipn_length in Havail.
      destruct eof.
      * (* EOF reported: everything up to the end has been returned *)
        assert (Hall : length (content fn) - off p < n /\ d = firstn n (skipn (off p) (content fn))).
        { destruct (Nat.le_gt_cases (size fn) (off p)) as [Hb|Hin].
          - destruct (D Hb) as [-> _]. split; [lia|]. rewrite skipn_all2 by lia. destruct n; reflexivity.
          - destruct (G Hin eq_refl) as [G1 G2]. split; [lia|].
            rewrite A at 1. rewrite (firstn_all2 (n := n)) by (rewrite skipn_length; lia).
            apply firstn_all2. rewrite skipn_length. lia. }
        destruct Hall as [H1 H2].
        split; [rewrite H2; reflexivity|]. split; [rewrite app_length; lia|].
        split; [symmetry; apply Nat.ltb_lt; exact H1|exact K].
      * assert (Hin : off p < size fn).
        { destruct (Nat.le_gt_cases (size fn) (off p)) as [Hb|Hin]; [|exact Hin]. destruct (D Hb); discriminate. }
        specialize (E Hin).
        specialize (IH (n - length d) p' (acc ++ d) K ltac:(lia)).
        destruct (fn_read_loop (S fuel) fn (n - length d) p' (acc ++ d)) as [[d2 p2] eof2].
        destruct IH as (I1 & I2 & I3 & I4).
        apply conj.
        { rewrite I1, C, <- app_assoc. f_equal. rewrite A at 1.
          rewrite firstn_skipn_step. f_equal. lia. }
        apply conj.
        { rewrite I2, C. rewrite I1. rewrite !app_length. lia. }
        apply conj; [|exact I4].
        rewrite I3, C.
        destruct (Nat.ltb_spec (length (content fn) - (off p + length d)) (n - length d));
        destruct (Nat.ltb_spec (length (content fn) - off p) n); try reflexivity; lia.
Qed.

Lemma read_full_ok fn n p : WF fn -> hok fn p ->
  let '(d, p', eof) := fn_read_full fn n p in
  (d, off p', eof) = s_read (content fn) n (off p) /\ hok fn p'.
Proof.
  intros Hwf Hh. unfold fn_read_full.
  pose proof (read_loop_ok fn Hwf n n p [] Hh (le_n _)) as H.
  destruct (fn_read_loop (S n) fn n p []) as [[d p'] eof].
  destruct H as (A & B & C & D). cbn [app length] in *.
  split; [|exact D]. unfold s_read. rewrite A, B, C. rewrite Nat.sub_0_r. rewrite <- A. reflexivity.
Qed.

(* ---- write and truncate ---- *)
Lemma content_length_sum l : length (flat_map sbytes l) = list_sum (map slen l).
Proof. induction l as [|s l IH]; cbn [flat_map map list_sum]; [reflexivity|]. rewrite app_length, IH. reflexivity. Qed.

Lemma size_same_lengths fn fn' : WF fn -> WF fn' -> map slen (segs fn') = map slen (segs fn) -> size fn' = size fn.
Proof.
  intros [H1 _] [H2 _] E. rewrite H1, H2. unfold content. rewrite !content_length_sum, E. reflexivity.
Qed.

Lemma c_peof_valid fn : WF fn -> valid fn (c_peof fn).
Proof.
  intros [Hsz _]. unfold valid, c_peof. cbn [off idx soff]. split; [|right; auto].
  rewrite pre_len_all by lia. unfold content in Hsz. lia.
Qed.

Section WithMb.
Variable mb : nat.
Hypothesis Hmb : 1 <= mb.

Lemma fn_write_unrep fn p d : WF fn -> size fn < off p -> fn_write mb fn p d = fn_write mb fn (unrep p) d.
Proof.
  intros Hwf Hlt. unfold fn_write. cbn [off unrep].
  destruct (Nat.ltb_spec (size fn) (off p)) as [_|]; [|lia].
  destruct (truncate_grow_ok mb Hmb fn (off p) Hwf Hlt) as (_ & _ & Hs & _).
  rewrite (seek_beyond (fn_truncate mb fn (off p)) p) by lia. reflexivity.
Qed.

Lemma write_hok fn p0 data : WF fn -> hok fn p0 ->
  let '(fn', p') := fn_write mb fn p0 data in
  (content fn', off p') = s_write (content fn) (off p0) data /\ WF fn' /\ hok fn' p' /\
  (forall q, hok fn q -> hok fn' q).
Proof.
  intros Hwf Hh.
  assert (H : let '(fn', p') := fn_write mb fn p0 data in
    content fn' = overwrite (content fn ++ repeat 0 (off p0 - size fn)) (off p0) data /\
    WF fn' /\ valid fn' p' /\ off p' = off p0 + length data /\ rep p' = Some (repacked fn') /\
    (forall q, handle_ok fn q -> handle_ok fn' q) /\
    repacked fn <= repacked fn' /\
    (repacked fn' = repacked fn -> map slen (segs fn') = map slen (segs fn))).
  { destruct (Nat.le_gt_cases (off p0) (size fn)) as [Hle|Hgt].
    - apply (fn_write_ok mb Hmb fn p0 data Hwf). apply hok_to_handle_ok; assumption.
    - rewrite (fn_write_unrep fn p0 data Hwf Hgt).
      apply (fn_write_ok mb Hmb fn (unrep p0) data Hwf). exact I. }
  destruct (fn_write mb fn p0 data) as [fn' p'].
  destruct H as (A & B & C & D & E & G & M & S).
  pose proof Hwf as [Hsz _].
  split.
  { unfold s_write, zeros. rewrite A, D. unfold overwrite. rewrite Hsz. reflexivity. }
  split; [exact B|]. split.
  { unfold hok. rewrite E. split; [lia|]. intros _ _. exact C. }
  intros q Hq. unfold hok in *. destruct (rep q) as [r|]; [|exact I].
  destruct Hq as [Hr Hv]. split; [lia|]. intros Er Hle.
  assert (Erep : repacked fn' = repacked fn) by lia.
  specialize (S Erep).
  apply (valid_same_lengths fn fn' q S). apply Hv; [lia|].
  rewrite <- (size_same_lengths fn fn' Hwf B S). exact Hle.
Qed.

Lemma trunc_hok fn want : WF fn ->
  content (fn_truncate mb fn want) = s_trunc (content fn) want /\ WF (fn_truncate mb fn want) /\
  (forall q, hok fn q -> hok (fn_truncate mb fn want) q).
Proof.
  intros Hwf. pose proof Hwf as [Hsz _].
  destruct (Nat.lt_trichotomy want (size fn)) as [Hlt|[Heq|Hgt]].
  - destruct (truncate_shrink_ok mb Hmb fn want Hwf Hlt) as (A & B & C).
    split. { rewrite A. unfold s_trunc, zeros. replace (want - length (content fn)) with 0 by lia. cbn. rewrite app_nil_r. reflexivity. }
    split; [exact B|]. intros q Hq. unfold hok in *. destruct (rep q) as [r|]; [|exact I].
    destruct Hq as [Hr _]. split; [lia|]. intros; lia.
  - assert (E : fn_truncate mb fn want = fn). { unfold fn_truncate. rewrite Heq, Nat.eqb_refl. reflexivity. }
    rewrite E. split. { unfold s_trunc, zeros. rewrite firstn_all2 by lia. replace (want - length (content fn)) with 0 by lia. cbn. rewrite app_nil_r. reflexivity. }
    split; [exact Hwf|]. auto.
  - destruct (truncate_grow_ok mb Hmb fn want Hwf Hgt) as (A & B & C & D).
    split. { rewrite A. unfold s_trunc, zeros. rewrite firstn_all2 by lia. rewrite Hsz. reflexivity. }
    split; [exact B|]. intros q Hq. unfold hok in *. destruct (rep q) as [r|]; [|exact I].
    destruct Hq as [Hr _]. split; [lia|]. intros; lia.
Qed.

End WithMb.
