(* C20 — the filter loop and the up-front decisions of splitListRequest, related to the
   specification-level notion of target ("27-character string that satisfies every uuid filter"). *)
From Coq Require Import NArith ZArith List Ascii String Bool Lia Permutation.
From AV Require Import lib.Str lib.SortPerm model.C20_model model.C20_run proofs.C20_proofs.
Import ListNotations.
Local Open Scope string_scope.

(* ---------- Prop-level reading of the boolean specification vocabulary ---------- *)
Definition UuidFilter (f : lfilter) : Prop := f_attr f = "uuid" /\ (f_op f = "=" \/ f_op f = "in").
Definition Matches (f : lfilter) (u : string) : Prop :=
  match f_operand f with
  | OStr s => f_op f = "=" /\ s = u
  | OList l => f_op f = "in" /\ In (Some u) l
  | OStrs l => f_op f = "in" /\ In u l
  | OOther => False
  end.
(* u is requested: it has 27 characters, there is a uuid filter, and u satisfies every uuid filter *)
Definition Target (o : opts) (u : string) : Prop :=
  String.length u = 27 /\ (exists f, In f (o_filters o) /\ UuidFilter f) /\
  forall f, In f (o_filters o) -> UuidFilter f -> Matches f u.

Lemma is_uuid_filter_iff f : is_uuid_filter f = true <-> UuidFilter f.
Proof.
  unfold is_uuid_filter, UuidFilter. rewrite andb_true_iff, orb_true_iff, !String.eqb_eq. tauto.
Qed.
Lemma somes_In u l : In u (somes l) <-> In (Some u) l.
Proof.
  induction l as [|[s|] l IH]; cbn [somes In]; [tauto| |].
  - rewrite IH. split; intros [H|H]; auto; left; congruence.
  - rewrite IH. split; [auto|intros [H|H]; [discriminate|auto]].
Qed.
Lemma f_matches_iff f u : f_matches f u = true <-> Matches f u.
Proof.
  unfold f_matches, Matches. destruct (f_operand f) as [s|l|l|].
  - rewrite andb_true_iff, !String.eqb_eq. tauto.
  - rewrite andb_true_iff, String.eqb_eq, mem_In, somes_In. tauto.
  - rewrite andb_true_iff, String.eqb_eq, mem_In. tauto.
  - split; [discriminate|tauto].
Qed.
Theorem is_target_iff o u : is_target o u = true <-> Target o u.
Proof.
  unfold is_target, Target, is27. rewrite !andb_true_iff, Nat.eqb_eq, existsb_exists, forallb_forall.
  split.
  - intros [[H1 (f & Hf & Hu)] H3]. split; [exact H1|]. split.
    + exists f. split; [exact Hf|apply is_uuid_filter_iff; exact Hu].
    + intros g Hg Hgu. specialize (H3 g Hg). apply is_uuid_filter_iff in Hgu. rewrite Hgu in H3. cbn in H3.
      apply f_matches_iff. exact H3.
  - intros [H1 [(f & Hf & Hu) H3]]. split; [split; [exact H1|]|].
    + exists f. split; [exact Hf|apply is_uuid_filter_iff; exact Hu].
    + intros g Hg. destruct (is_uuid_filter g) eqn:E; cbn; [|reflexivity].
      apply f_matches_iff. apply H3; [exact Hg|apply is_uuid_filter_iff; exact E].
Qed.

(* ---------- dedup ---------- *)
Lemma dedup_In x l : In x (dedup l) <-> In x l.
Proof.
  induction l as [|a l IH]; cbn [dedup]; [tauto|]. destruct (mem a l) eqn:E.
  - rewrite IH. cbn [In]. split; [auto|]. intros [->|H]; [apply mem_In; exact E|exact H].
  - cbn [In]. rewrite IH. tauto.
Qed.
Lemma dedup_NoDup l : NoDup (dedup l).
Proof.
  induction l as [|a l IH]; cbn [dedup]; [constructor|]. destruct (mem a l) eqn:E; [exact IH|].
  constructor; [|exact IH]. rewrite dedup_In. apply mem_false. exact E.
Qed.

(* ---------- the filter loop ---------- *)
Definition fset (f : lfilter) : list string :=
  match f_operand f with OStr s => [s] | OList l => somes l | OStrs l => l | OOther => [] end.

Lemma classify_other f : is_uuid_filter f = false -> classify f = FOther.
Proof.
  unfold is_uuid_filter, classify. destruct (f_attr f =? "uuid"); cbn; [|reflexivity].
  destruct (f_op f =? "="); cbn; [discriminate|]. destruct (f_op f =? "in"); cbn; [discriminate|reflexivity].
Qed.
Lemma op_eq_in s : (s =? "=") = true -> (s =? "in") = false.
Proof. intros H. apply String.eqb_eq in H. subst. reflexivity. Qed.
Lemma classify_uuid f : is_uuid_filter f = true -> well_typed f = true ->
  classify f = FSet (fset f) /\ forall u, f_matches f u = mem u (fset f).
Proof.
  unfold is_uuid_filter, classify, well_typed, fset, f_matches. intros H W.
  apply andb_true_iff in H. destruct H as [Ha Ho]. rewrite Ha. cbn [negb].
  destruct (f_operand f) as [s|l|l|]; [| | |discriminate].
  - rewrite W. split; [reflexivity|]. intros u. cbn [mem existsb andb]. rewrite orb_false_r. apply String.eqb_sym.
  - destruct (f_op f =? "=") eqn:E; [rewrite (op_eq_in _ E) in W; discriminate|]. rewrite W. split; reflexivity.
  - destruct (f_op f =? "=") eqn:E; [rewrite (op_eq_in _ E) in W; discriminate|]. rewrite W. split; reflexivity.
Qed.
Lemma classify_bad f : is_uuid_filter f = true -> well_typed f = false -> classify f = FBad.
Proof.
  unfold is_uuid_filter, classify, well_typed. intros H W.
  apply andb_true_iff in H. destruct H as [Ha Ho]. rewrite Ha. cbn [negb].
  destruct (f_operand f) as [s|l|l|].
  - rewrite W. apply orb_true_iff in Ho. destruct Ho as [Ho|Ho]; [congruence|]. rewrite Ho. reflexivity.
  - rewrite W. apply orb_true_iff in Ho. destruct Ho as [Ho|Ho]; [|congruence]. rewrite Ho. reflexivity.
  - rewrite W. apply orb_true_iff in Ho. destruct Ho as [Ho|Ho]; [|congruence]. rewrite Ho. reflexivity.
  - destruct (f_op f =? "="); [reflexivity|]. destruct (f_op f =? "in"); [reflexivity|]. cbn in Ho. discriminate.
Qed.

(* matchAllFilters after the loop *)
Fixpoint inter_all (fs : list lfilter) (acc : option (list string)) : option (list string) :=
  match fs with
  | [] => acc
  | f :: r =>
    if is_uuid_filter f
    then inter_all r (Some (match acc with None => dedup (fset f) | Some a => filter (fun u => mem u (fset f)) a end))
    else inter_all r acc
  end.

Lemma scan_ok fs : forall cannot acc,
  forallb (fun f => negb (is_uuid_filter f) || well_typed f) fs = true ->
  scan fs cannot acc = Some (cannot || existsb (fun f => negb (is_uuid_filter f)) fs, inter_all fs acc).
Proof.
  induction fs as [|f fs IH]; intros cannot acc H; cbn [scan existsb inter_all]; [rewrite orb_false_r; reflexivity|].
  cbn [forallb] in H. apply andb_true_iff in H. destruct H as [Hf Hr].
  destruct (is_uuid_filter f) eqn:E; cbn [negb orb] in *.
  - destruct (classify_uuid f E Hf) as [-> _]. rewrite IH by exact Hr. reflexivity.
  - rewrite (classify_other f E). rewrite IH by exact Hr. rewrite orb_true_r. cbn. f_equal.
Qed.
Lemma scan_bad fs : forall cannot acc,
  forallb (fun f => negb (is_uuid_filter f) || well_typed f) fs = false -> scan fs cannot acc = None.
Proof.
  induction fs as [|f fs IH]; intros cannot acc H; cbn [forallb] in H; [discriminate|]. cbn [scan].
  destruct (is_uuid_filter f) eqn:E; cbn [negb orb] in H.
  - destruct (well_typed f) eqn:W; cbn [andb] in H.
    + destruct (classify_uuid f E W) as [-> _]. apply IH. exact H.
    + rewrite (classify_bad f E W). reflexivity.
  - rewrite (classify_other f E). apply IH. exact H.
Qed.

Lemma inter_all_some fs : forall a m, inter_all fs (Some a) = Some m ->
  (NoDup a -> NoDup m) /\
  forall u, In u m <-> In u a /\ forall f, In f fs -> is_uuid_filter f = true -> mem u (fset f) = true.
Proof.
  induction fs as [|f fs IH]; intros a m H; cbn [inter_all] in H.
  - injection H as <-. split; [auto|]. intros u. split; [intros Hu; split; [exact Hu|intros f []]|tauto].
  - destruct (is_uuid_filter f) eqn:E.
    + destruct (IH _ _ H) as [A B]. split.
      * intros Ha. apply A. apply NoDup_filter. exact Ha.
      * intros u. rewrite B, filter_In. split.
        -- intros [[H1 H2] H3]. split; [exact H1|]. intros g [<-|Hg] Hgu; [exact H2|apply H3; assumption].
        -- intros [H1 H2]. split; [split; [exact H1|apply H2; [left; reflexivity|exact E]]|].
           intros g Hg Hgu. apply H2; [right; exact Hg|exact Hgu].
    + destruct (IH _ _ H) as [A B]. split; [exact A|]. intros u. rewrite B. split.
      * intros [H1 H2]. split; [exact H1|]. intros g [<-|Hg] Hgu; [congruence|apply H2; assumption].
      * intros [H1 H2]. split; [exact H1|]. intros g Hg Hgu. apply H2; [right; exact Hg|exact Hgu].
Qed.
Lemma inter_all_none fs : inter_all fs None = None <-> existsb is_uuid_filter fs = false.
Proof.
  induction fs as [|f fs IH]; cbn [inter_all existsb]; [tauto|].
  destruct (is_uuid_filter f) eqn:E; cbn [orb]; [|exact IH].
  split; [|discriminate]. intros H. exfalso. revert H. generalize (dedup (fset f)). clear.
  induction fs as [|g fs IH]; intros a; cbn [inter_all]; [discriminate|]. destruct (is_uuid_filter g); apply IH.
Qed.
Lemma inter_all_none_some fs : forall m, inter_all fs None = Some m ->
  NoDup m /\ existsb is_uuid_filter fs = true /\
  forall u, In u m <-> forall f, In f fs -> is_uuid_filter f = true -> mem u (fset f) = true.
Proof.
  induction fs as [|f fs IH]; intros m H; cbn [inter_all] in H; [discriminate|]. cbn [existsb].
  destruct (is_uuid_filter f) eqn:E; cbn [orb].
  - destruct (inter_all_some _ _ _ H) as [A B]. split; [apply A; apply dedup_NoDup|]. split; [reflexivity|].
    intros u. rewrite B, dedup_In, <- mem_In. split.
    + intros [H1 H2] g [<-|Hg] Hgu; [exact H1|apply H2; assumption].
    + intros H1. split; [apply H1; [left; reflexivity|exact E]|]. intros g Hg Hgu. apply H1; [right; exact Hg|exact Hgu].
  - destruct (IH _ H) as (A & B & C). split; [exact A|]. split; [exact B|]. intros u. rewrite C. split.
    + intros H1 g [<-|Hg] Hgu; [congruence|apply H1; assumption].
    + intros H1 g Hg Hgu. apply H1; [right; exact Hg|exact Hgu].
Qed.

(* ---------- targets computed by the code = targets of the specification ---------- *)
Lemma mentioned_In o f u : In f (o_filters o) -> is_uuid_filter f = true -> mem u (fset f) = true -> In u (mentioned o).
Proof.
  intros Hf Hu Hm. unfold mentioned. apply in_flat_map. exists f. split.
  - apply filter_In. split; assumption.
  - apply mem_In in Hm. exact Hm.
Qed.

Lemma spec_targets_In o u : In u (spec_targets o) <-> is_target o u = true.
Proof.
  unfold spec_targets. rewrite dedup_In, filter_In. split; [tauto|]. intros H. split; [|exact H].
  unfold is_target in H. rewrite !andb_true_iff in H. destruct H as [[_ He] Hall].
  apply existsb_exists in He. destruct He as (f & Hf & Hu). rewrite forallb_forall in Hall.
  specialize (Hall f Hf). rewrite Hu in Hall. cbn in Hall.
  unfold mentioned. apply in_flat_map. exists f. split; [apply filter_In; split; assumption|].
  unfold f_matches in Hall. destruct (f_operand f) as [s|l|l|]; try discriminate.
  - apply andb_true_iff in Hall. destruct Hall as [_ Hs]. apply String.eqb_eq in Hs. left. exact Hs.
  - apply andb_true_iff in Hall. destruct Hall as [_ Hs]. apply mem_In. exact Hs.
  - apply andb_true_iff in Hall. destruct Hall as [_ Hs]. apply mem_In. exact Hs.
Qed.
Lemma spec_targets_NoDup o : NoDup (spec_targets o).
Proof. apply dedup_NoDup. Qed.

Lemma targets_spec o m :
  all_well_typed o = true -> inter_all (o_filters o) None = Some m ->
  NoDup (targets m) /\ forall u, In u (targets m) <-> is_target o u = true.
Proof.
  intros W H. destruct (inter_all_none_some _ _ H) as (A & B & C). split; [apply NoDup_filter; exact A|].
  intros u. unfold targets. rewrite filter_In, C. unfold is_target. rewrite !andb_true_iff, forallb_forall.
  unfold all_well_typed in W. rewrite forallb_forall in W.
  split.
  - intros [H1 H2]. split; [split; [exact H2|exact B]|]. intros f Hf. destruct (is_uuid_filter f) eqn:E; cbn; [|reflexivity].
    specialize (W f Hf). rewrite E in W. cbn in W. destruct (classify_uuid f E W) as [_ ->]. apply H1; assumption.
  - intros [[H1 _] H2]. split; [|exact H1]. intros f Hf E. specialize (H2 f Hf). rewrite E in H2. cbn in H2.
    specialize (W f Hf). rewrite E in W. cbn in W. destruct (classify_uuid f E W) as [_ <-]. exact H2.
Qed.
Lemma targets_length o m :
  all_well_typed o = true -> inter_all (o_filters o) None = Some m ->
  List.length (targets m) = List.length (spec_targets o).
Proof.
  intros W H. destruct (targets_spec o m W H) as [A B]. apply Permutation_length. apply NoDup_Permutation.
  - exact A.
  - apply spec_targets_NoDup.
  - intros u. rewrite B, spec_targets_In. tauto.
Qed.

(* ---------- clusters / todo ---------- *)
Lemma clusters_In c t : In c (clusters t) <-> exists u, In u t /\ prefix u = c.
Proof.
  unfold clusters. rewrite dedup_In, in_map_iff. split; intros (u & A & B); exists u; tauto.
Qed.
Lemma todo_of_In c t u : In u (todo_of c t) <-> In u t /\ prefix u = c.
Proof. unfold todo_of. rewrite filter_In, String.eqb_eq. tauto. Qed.

(* ---------- the plan ---------- *)
Definition safe_opts (cfg : config) (o : opts) (t : list string) : bool :=
  (o_count o =? "none") && negb (0 <=? o_limit o)%Z && (o_offset o =? 0)%Z && is_nil (o_order o) &&
  negb (cf_max cfg <? Z.of_nat (List.length t))%Z.

Lemma remote_involved_clusters cfg o t :
  (forall u, In u t <-> is_target o u = true) -> remote_involved cfg o = true ->
  is_nil (clusters t) = false /\ (Nat.eqb (List.length (clusters t)) 1 && mem (cf_local cfg) (clusters t)) = false.
Proof.
  intros Ht H. unfold remote_involved in H. apply existsb_exists in H. destruct H as (u & Hu & Hp).
  apply spec_targets_In in Hu. apply Ht in Hu. apply negb_true_iff in Hp.
  assert (Hc : In (prefix u) (clusters t)) by (apply clusters_In; exists u; tauto).
  split; [destruct (clusters t); [contradiction|reflexivity]|].
  apply andb_false_iff. destruct (clusters t) as [|c [|c' r]] eqn:E; [contradiction| |left; reflexivity].
  right. destruct Hc as [Hc|[]]. subst c. cbn [mem existsb]. rewrite orb_false_r. rewrite String.eqb_sym. exact Hp.
Qed.

Lemma not_remote_involved_clusters cfg o t :
  (forall u, In u t <-> is_target o u = true) -> remote_involved cfg o = false ->
  forall c, In c (clusters t) -> c = cf_local cfg.
Proof.
  intros Ht H c Hc. apply clusters_In in Hc. destruct Hc as (u & Hu & <-).
  unfold remote_involved in H. destruct (prefix u =? cf_local cfg) eqn:E; [apply String.eqb_eq; exact E|].
  exfalso. assert (X : existsb (fun u => negb (prefix u =? cf_local cfg)) (spec_targets o) = true).
  { apply existsb_exists. exists u. split; [apply spec_targets_In; apply Ht; exact Hu|rewrite E; reflexivity]. }
  congruence.
Qed.

(* plan_of, for federated well-typed requests, in terms of the specification's vocabulary *)
Theorem plan_reject cfg o :
  federated o = true -> all_well_typed o = true -> remote_involved cfg o = true -> unsafe cfg o = true ->
  plan_of cfg o = PReject 400.
Proof.
  intros F W R U. unfold plan_of. unfold federated in F. apply andb_true_iff in F. destruct F as [F1 F2].
  apply negb_true_iff in F1. rewrite F1, F2. cbn [negb orb].
  rewrite scan_ok by exact W. cbn [orb].
  destruct (inter_all (o_filters o) None) as [m|] eqn:Hm.
  2:{ exfalso. apply inter_all_none in Hm. unfold remote_involved in R. apply existsb_exists in R.
      destruct R as (u & Hu & _). apply spec_targets_In in Hu. unfold is_target in Hu.
      rewrite !andb_true_iff in Hu. destruct Hu as [[_ He] _]. congruence. }
  destruct (targets_spec o m W Hm) as [_ Ht].
  destruct (remote_involved_clusters cfg o _ Ht R) as [-> ->].
  rewrite (targets_length o m W Hm).
  unfold unsafe in U.
  destruct (existsb (fun f => negb (is_uuid_filter f)) (o_filters o)); [reflexivity|].
  destruct (o_count o =? "none"); cbn [negb]; [|reflexivity].
  cbn [orb negb] in U.
  destruct ((0 <=? o_limit o)%Z || negb (o_offset o =? 0)%Z || negb (is_nil (o_order o))); [reflexivity|].
  cbn [orb] in U. rewrite U. reflexivity.
Qed.

Theorem plan_split cfg o :
  federated o = true -> all_well_typed o = true -> remote_involved cfg o = true -> unsafe cfg o = false ->
  exists t, NoDup t /\ (forall u, In u t <-> is_target o u = true) /\
            plan_of cfg o = PSplit (map (fun c => (c, todo_of c t)) (clusters t)).
Proof.
  intros F W R U. unfold plan_of. unfold federated in F. apply andb_true_iff in F. destruct F as [F1 F2].
  apply negb_true_iff in F1. rewrite F1, F2. cbn [negb orb].
  rewrite scan_ok by exact W. cbn [orb].
  destruct (inter_all (o_filters o) None) as [m|] eqn:Hm.
  2:{ exfalso. apply inter_all_none in Hm. unfold remote_involved in R. apply existsb_exists in R.
      destruct R as (u & Hu & _). apply spec_targets_In in Hu. unfold is_target in Hu.
      rewrite !andb_true_iff in Hu. destruct Hu as [[_ He] _]. congruence. }
  destruct (targets_spec o m W Hm) as [Hnd Ht].
  destruct (remote_involved_clusters cfg o _ Ht R) as [-> ->].
  rewrite (targets_length o m W Hm).
  unfold unsafe in U. rewrite !orb_false_iff in U. destruct U as [[[[[U1 U2] U3] U4] U5] U6].
  rewrite U1, U2, U3, U4, U5, U6. cbn [orb].
  exists (targets m). split; [exact Hnd|]. split; [exact Ht|reflexivity].
Qed.

(* requests that involve no remote cluster never reach a remote backend *)
Theorem plan_local cfg o :
  federated o = true -> all_well_typed o = true -> remote_involved cfg o = false ->
  plan_of cfg o = PPass \/ plan_of cfg o = PNothing.
Proof.
  intros F W R. unfold plan_of. unfold federated in F. apply andb_true_iff in F. destruct F as [F1 F2].
  apply negb_true_iff in F1. rewrite F1, F2. cbn [negb orb].
  rewrite scan_ok by exact W. cbn [orb].
  destruct (inter_all (o_filters o) None) as [m|] eqn:Hm; [|left; reflexivity].
  destruct (targets_spec o m W Hm) as [Hnd Ht].
  pose proof (not_remote_involved_clusters cfg o _ Ht R) as Hc.
  pose proof (dedup_NoDup (map prefix (targets m))) as Hcn. fold (clusters (targets m)) in Hcn.
  destruct (clusters (targets m)) as [|c [|c' r]] eqn:E; cbn [is_nil]; [right; reflexivity| |].
  - left. rewrite (Hc c) by (left; reflexivity). cbn [List.length Nat.eqb mem existsb]. rewrite String.eqb_refl. reflexivity.
  - exfalso. rewrite (Hc c) in Hcn by (left; reflexivity). rewrite (Hc c') in Hcn by (right; left; reflexivity).
    inversion Hcn as [|? ? Hn _]. apply Hn. left. reflexivity.
Qed.

Theorem plan_bad_operand cfg o :
  federated o = true -> all_well_typed o = false -> plan_of cfg o = PReject 400.
Proof.
  intros F W. unfold plan_of. unfold federated in F. apply andb_true_iff in F. destruct F as [F1 F2].
  apply negb_true_iff in F1. rewrite F1, F2. cbn [negb orb]. rewrite scan_bad by exact W. reflexivity.
Qed.
Theorem plan_not_federated cfg o : federated o = false -> plan_of cfg o = PPass.
Proof.
  intros F. unfold plan_of. unfold federated in F. apply andb_false_iff in F. destruct F as [F|F].
  - apply negb_false_iff in F. rewrite F. reflexivity.
  - rewrite F. rewrite orb_true_r. reflexivity.
Qed.
