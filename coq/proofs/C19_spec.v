(* C19 — the evaluator of model/C19_run.v: the digest table is transparent (check_case_eq), the
   boolean specification reflects the Prop-level statements, the model satisfies it, and the
   known-finding bits are confined to the F6b trigger. *)
From Coq Require Import NArith List Ascii String Bool Lia Arith.
From AV Require Import lib.Str lib.Sha1 lib.TokSplit lib.HexNum lib.Sha1Facts model.C19_model model.C19_run proofs.C19_proofs.
Import ListNotations.
Local Open Scope string_scope.

(* ---------- classify, in words ---------- *)
Lemma is_obsolete_eq token : (Nat.leb 41 (String.length token) && all_chars is_obsolete_char token) = is_obsolete token.
Proof. reflexivity. Qed.
Lemma is_salted_eq s : (Nat.eqb (String.length s) 40 && all_chars is_lhex s) = is_salted_secret s.
Proof. reflexivity. Qed.

Lemma classify_v2 token uuid secret :
  v2_fields token uuid secret ->
  classify token = if is_salted_secret secret then TV2Salted uuid else TV2 uuid secret.
Proof. intros [r H]. unfold classify. rewrite H. cbn [String.eqb Ascii.eqb Bool.eqb andb]. rewrite is_salted_eq. reflexivity. Qed.
Lemma classify_not_v2 token : not_v2 token -> classify token = if is_obsolete token then TLegacy else TOpaque.
Proof.
  intro Hn. unfold classify. rewrite !is_obsolete_eq.
  destruct (split_on "/" token) as [|v [|u [|s r]]] eqn:E; try reflexivity.
  destruct (String.eqb_spec v "v2") as [->|]; [|reflexivity]. exfalso. apply (Hn u s). exists r. exact E.
Qed.

(* SaltToken in terms of the classification, for any digest function *)
Lemma salt_classify hm token remote :
  salt_token_k hm token remote =
  match classify token with
  | TV2 uuid secret => Salted ("v2/" ++ uuid ++ "/" ++ hm secret remote)
  | TV2Salted uuid => if has_prefix remote uuid then Salted token else ErrSalted
  | TLegacy => ErrObsolete
  | TOpaque => ErrFormat
  end.
Proof.
  unfold salt_token_k, classify. rewrite !is_obsolete_eq.
  destruct (split_on "/" token) as [|v [|u [|s r]]]; try (destruct (is_obsolete token); reflexivity).
  destruct (String.eqb v "v2"); cbn [negb]; [|destruct (is_obsolete token); reflexivity].
  rewrite is_salted_eq. destruct (is_salted_secret s); reflexivity.
Qed.

(* ---------- the digest table ---------- *)
Definition ext (hm : hmfun) : Prop := forall k m, hm k m = hmac_sha1_hex k m.

Lemma hm_cached_ext l : ext (hm_cached (build_tab l)).
Proof.
  intros k m. unfold hm_cached. destruct (hm_find (build_tab l) k m) as [d|] eqn:E; [|reflexivity].
  unfold build_tab in E. induction l as [|[k' m'] r IH]; [discriminate|]. cbn [map hm_find fst snd] in E.
  destruct (String.eqb_spec k k') as [->|]; cbn [andb] in E; [|exact (IH E)].
  destruct (String.eqb_spec m m') as [->|]; [|exact (IH E)]. injection E as <-. reflexivity.
Qed.

Section Ext.
Variable hm : hmfun.
Hypothesis Hhm : ext hm.

Lemma salt_token_ext token remote : salt_token_k hm token remote = salt_token token remote.
Proof. unfold salt_token. rewrite !salt_classify. destruct (classify token); rewrite ?Hhm; reflexivity. Qed.
Lemma provide_one_ext local remote token : provide_one_k hm local remote token = provide_one local remote token.
Proof.
  unfold provide_one, provide_one_k. rewrite !salt_token_ext. fold (salt_token token remote).
  destruct (salt_token token remote); try reflexivity. destruct (local token); try reflexivity.
  rewrite salt_token_ext. reflexivity.
Qed.
Lemma provide_all_ext local remote ts : provide_all_k hm local remote ts = provide_all_k hmac_sha1_hex local remote ts.
Proof. induction ts as [|t r IH]; [reflexivity|]. cbn [provide_all_k]. rewrite provide_one_ext, IH. reflexivity. Qed.
Lemma provider_ext local remote creds : provider_k hm local remote creds = provider local remote creds.
Proof. destruct creds; [apply provide_all_ext|reflexivity]. Qed.
Lemma remote_client_ext token remote : remote_client_k hm token remote = remote_client token remote.
Proof. unfold remote_client, remote_client_k. rewrite salt_token_ext. reflexivity. Qed.
Lemma legacy_ext db r remote : legacy_k hm db r remote = legacy db r remote.
Proof.
  unfold legacy, legacy_k. destruct (load_tokens r) as [|t0 rest]; [reflexivity|]. rewrite salt_token_ext.
  fold (salt_token t0 remote). destruct (salt_token t0 remote); try reflexivity;
    destruct (db t0); try reflexivity; rewrite salt_token_ext; reflexivity.
Qed.

Lemma remote_request_ext db r remote : remote_request_k hm db r remote = remote_request db r remote.
Proof. unfold remote_request, remote_request_k. rewrite legacy_ext. reflexivity. Qed.
Lemma crc_ext lookup mint local remotes target creds rt aca user :
  crc_k hm lookup mint local remotes target creds rt aca user = crc lookup mint local remotes target creds rt aca user.
Proof. unfold crc, crc_k. cbv zeta. rewrite provider_ext. reflexivity. Qed.
Lemma existsb_ext' {A} (f g : A -> bool) l : (forall x, f x = g x) -> existsb f l = existsb g l.
Proof. intro H. induction l as [|x l IH]; [reflexivity|]. cbn [existsb]. rewrite H, IH. reflexivity. Qed.
Lemma forallb_ext' {A} (f g : A -> bool) l : (forall x, f x = g x) -> forallb f l = forallb g l.
Proof. intro H. induction l as [|x l IH]; [reflexivity|]. cbn [forallb]. rewrite H, IH. reflexivity. Qed.
Lemma fwd_token_ext db t dest : fwd_token_k hm db t dest = fwd_token_k hmac_sha1_hex db t dest.
Proof.
  unfold fwd_token_k. rewrite (salt_token_ext t dest). change (salt_token_k hmac_sha1_hex t dest) with (salt_token t dest).
  destruct (salt_token t dest); try reflexivity; destruct (db t); try reflexivity;
    destruct (has_prefix dest user_uuid); try reflexivity; rewrite salt_token_ext; reflexivity.
Qed.
Lemma auth_explained_ext db r dest a : auth_explained_k hm db r dest a = auth_explained_k hmac_sha1_hex db r dest a.
Proof. unfold auth_explained_k. f_equal. apply existsb_ext'. intro t. rewrite fwd_token_ext. reflexivity. Qed.
Lemma conn_auth_ext lookup creds dest a : conn_auth_k hm lookup creds dest a = conn_auth_k hmac_sha1_hex lookup creds dest a.
Proof. unfold conn_auth_k. rewrite provider_ext. reflexivity. Qed.

Lemma spec_salt_ext token remote o : spec_salt_k hm token remote o = spec_salt_k hmac_sha1_hex token remote o.
Proof. unfold spec_salt_k. destruct (classify token); rewrite ?Hhm; reflexivity. Qed.
Lemma spec_fwd_ext local remote token : spec_fwd_k hm local remote token = spec_fwd_k hmac_sha1_hex local remote token.
Proof.
  unfold spec_fwd_k. destruct (classify token); rewrite ?Hhm; try reflexivity.
  destruct (local token); try reflexivity. destruct (has_prefix remote uuid); [reflexivity|].
  destruct (classify _); rewrite ?Hhm; reflexivity.
Qed.
Lemma spec_prov_ext remote creds local o : spec_prov_k hm remote creds local o = spec_prov_k hmac_sha1_hex remote creds local o.
Proof.
  unfold spec_prov_k. destruct creds as [ts|]; [|reflexivity]. f_equal. f_equal. f_equal.
  apply map_ext. intro t. apply spec_fwd_ext.
Qed.
Lemma spec_remote_ext token remote o : spec_remote_k hm token remote o = spec_remote_k hmac_sha1_hex token remote o.
Proof. unfold spec_remote_k. destruct (classify token); rewrite ?Hhm; reflexivity. Qed.

Lemma ks_auth_ok_ext token remote sent : ks_auth_ok_k hm token remote sent = ks_auth_ok_k hmac_sha1_hex token remote sent.
Proof.
  unfold ks_auth_ok_k. apply forallb_ext'. intro q. destruct (strip_prefix "OAuth2 " (snd (fst q))); [apply spec_remote_ext|reflexivity].
Qed.
Lemma spec_ksget_ext secrets token remote sent :
  spec_ksget_k hm secrets token remote sent = spec_ksget_k hmac_sha1_hex secrets token remote sent.
Proof. unfold spec_ksget_k. rewrite ks_auth_ok_ext. reflexivity. Qed.
Lemma ksget_model_ext token remote sent : ksget_model_k hm token remote sent = ksget_model_k hmac_sha1_hex token remote sent.
Proof. unfold ksget_model_k. rewrite remote_client_ext. reflexivity. Qed.
Lemma spec_k_ext c : spec_k hm c = spec_k hmac_sha1_hex c.
Proof.
  destruct c; cbn [spec_k]; [apply spec_salt_ext|apply spec_prov_ext|apply spec_remote_ext|reflexivity..| |].
  - apply spec_ksget_ext.
  - rewrite !spec_ksget_ext. reflexivity.
Qed.
Lemma model_k_ext c : model_k hm c = model_k hmac_sha1_hex c.
Proof.
  destruct c; cbn [model_k].
  - rewrite salt_token_ext. reflexivity.
  - rewrite provider_ext. reflexivity.
  - rewrite remote_client_ext. reflexivity.
  - rewrite remote_request_ext. reflexivity.
  - apply forallb_ext'. intro q. apply auth_explained_ext.
  - rewrite crc_ext. reflexivity.
  - apply forallb_ext'. intro q. apply conn_auth_ext.
  - apply ksget_model_ext.
  - rewrite !ksget_model_ext. reflexivity.
Qed.
End Ext.

Theorem check_case_eq c : check_case c = code_of (model_b c) (spec_b c) (known_F6b_bits c).
Proof.
  unfold check_case, model_b, spec_b.
  rewrite (model_k_ext _ (hm_cached_ext (needs c))), (spec_k_ext _ (hm_cached_ext (needs c))). reflexivity.
Qed.

(* ---------- the boolean specification against the model and the Prop level ---------- *)
Lemma res_eqb_eq a b : res_eqb a b = true <-> a = b.
Proof.
  destruct a, b; cbn; try (split; [discriminate|intro H; discriminate H]); try tauto.
  rewrite String.eqb_eq. split; [intros ->; reflexivity|intro H; injection H as ->; reflexivity].
Qed.
Lemma opt_eqb_eq a b : opt_eqb a b = true <-> a = b.
Proof.
  destruct a, b; cbn; try (split; [discriminate|intro H; discriminate H]); try tauto.
  rewrite String.eqb_eq. split; [intros ->; reflexivity|intro H; injection H as ->; reflexivity].
Qed.
Lemma list_eqb_eq a b : list_eqb a b = true <-> a = b.
Proof.
  revert b. induction a as [|x a IH]; intros [|y b]; cbn; try (split; [discriminate|intro H; discriminate H]); try tauto.
  rewrite andb_true_iff, String.eqb_eq, IH. split; [intros [-> ->]; reflexivity|intro H; injection H as -> ->; auto].
Qed.
Lemma optl_eqb_eq a b : optl_eqb a b = true <-> a = b.
Proof.
  destruct a, b; cbn; try (split; [discriminate|intro H; discriminate H]); try tauto.
  rewrite list_eqb_eq. split; [intros ->; reflexivity|intro H; injection H as ->; reflexivity].
Qed.

(* SaltToken *)
Definition SaltSpec (token remote : string) (o : salt_result) : Prop :=
  (forall uuid secret, v2_fields token uuid secret -> is_salted_secret secret = false ->
     o = Salted ("v2/" ++ uuid ++ "/" ++ hmac_sha1_hex secret remote)) /\
  (forall uuid secret, v2_fields token uuid secret -> is_salted_secret secret = true ->
     o = if has_prefix remote uuid then Salted token else ErrSalted) /\
  (not_v2 token -> o = if is_obsolete token then ErrObsolete else ErrFormat).

Lemma spec_salt_vs_model token remote o :
  spec_salt_k hmac_sha1_hex token remote o = res_eqb o (salt_token token remote).
Proof. unfold spec_salt_k, salt_token. rewrite salt_classify. destruct (classify token); try reflexivity. destruct (has_prefix remote uuid); reflexivity. Qed.

Theorem salt_meets_spec token remote : SaltSpec token remote (salt_token token remote).
Proof.
  split; [|split].
  - intros u s Hv Hs. apply (salt_shape token remote u s Hv Hs).
  - intros u s Hv Hs. apply (never_double_salted token remote u s Hv Hs).
  - apply salt_not_v2.
Qed.

Theorem spec_salt_reflects token remote o :
  spec_salt_k hmac_sha1_hex token remote o = true <-> SaltSpec token remote o.
Proof.
  rewrite spec_salt_vs_model, res_eqb_eq. split.
  - intros ->. apply salt_meets_spec.
  - intros (H1 & H2 & H3). destruct (classify_total token) as [Hn|(u & s & Hv)].
    + rewrite (H3 Hn). symmetry. apply salt_not_v2, Hn.
    + destruct (is_salted_secret s) eqn:Hs.
      * rewrite (H2 u s Hv Hs). symmetry. apply (never_double_salted token remote u s Hv Hs).
      * rewrite (H1 u s Hv Hs). symmetry. apply (salt_shape token remote u s Hv Hs).
Qed.

(* provider, one token *)
Lemma classify_salted_inv t u : classify t = TV2Salted u -> exists s, v2_fields t u s /\ is_salted_secret s = true.
Proof.
  destruct (classify_total t) as [Hn|(u' & s' & Hv)].
  - rewrite (classify_not_v2 _ Hn). destruct (is_obsolete t); discriminate.
  - rewrite (classify_v2 _ _ _ Hv). destruct (is_salted_secret s') eqn:Hs; [|discriminate].
    intro H. injection H as <-. exists s'. auto.
Qed.
Lemma first_field_prefix sep a b f rest : split_on sep (a ++ String sep b) = f :: rest -> has_prefix f a = true.
Proof.
  revert f rest. induction a as [|c a IH]; intros f rest H.
  - cbn [append split_on] in H. rewrite Ascii.eqb_refl in H. injection H as <- _. reflexivity.
  - cbn [append split_on] in H. destruct (Ascii.eqb c sep).
    + injection H as <- _. reflexivity.
    + destruct (split_on sep (a ++ String sep b)) as [|x xs] eqn:E.
      * injection H as <- _. cbn [has_prefix]. rewrite Ascii.eqb_refl. destruct a; reflexivity.
      * injection H as <- _. cbn [has_prefix]. rewrite Ascii.eqb_refl. apply (IH x xs eq_refl).
Qed.
Lemma has_prefix_trans a b c : has_prefix a b = true -> has_prefix b c = true -> has_prefix a c = true.
Proof.
  revert b c. induction a as [|x a IH]; intros b c H1 H2; [reflexivity|].
  destruct b as [|y b]; [discriminate|]. destruct c as [|z c]; [discriminate|]. cbn [has_prefix] in *.
  apply andb_true_iff in H1. destruct H1 as [E1 H1]. apply andb_true_iff in H2. destruct H2 as [E2 H2].
  apply Ascii.eqb_eq in E1. apply Ascii.eqb_eq in E2. subst. rewrite Ascii.eqb_refl. cbn [andb]. apply (IH b c); assumption.
Qed.
(* the uuid field of v2/uuid/api is a prefix of uuid *)
Lemma resolved_uuid_prefix uuid api u s : v2_fields ("v2/" ++ uuid ++ "/" ++ api) u s -> has_prefix u uuid = true.
Proof.
  intros [r H]. change ("v2/" ++ uuid ++ "/" ++ api) with ("v2" ++ String "/" (uuid ++ String "/" api)) in H.
  rewrite split_on_app in H by reflexivity. injection H as H. apply (first_field_prefix _ _ _ _ _ H).
Qed.

Lemma spec_fwd_vs_model local remote token : spec_fwd_k hmac_sha1_hex local remote token = provide_one local remote token.
Proof.
  unfold spec_fwd_k, provide_one, provide_one_k. rewrite salt_classify.
  destruct (classify token); try reflexivity.
  - destruct (has_prefix remote uuid); reflexivity.
  - destruct (local token) as [| |u a]; try reflexivity. destruct (has_prefix remote u) eqn:Hp; [reflexivity|].
    rewrite salt_classify. destruct (classify ("v2/" ++ u ++ "/" ++ a)) as [| u0 | |] eqn:Ec; try reflexivity.
    destruct (has_prefix remote u0) eqn:Hp0; [|reflexivity]. exfalso.
    destruct (classify_salted_inv _ _ Ec) as (s0 & Hv & _). apply resolved_uuid_prefix in Hv.
    rewrite (has_prefix_trans _ _ _ Hp0 Hv) in Hp. discriminate.
Qed.

Lemma all_some_provide local remote ts :
  all_some (map (spec_fwd_k hmac_sha1_hex local remote) ts) = provide_all_k hmac_sha1_hex local remote ts.
Proof.
  induction ts as [|t r IH]; [reflexivity|]. cbn [map all_some provide_all_k]. rewrite spec_fwd_vs_model.
  fold (provide_one local remote t). destruct (provide_one local remote t); [|reflexivity]. rewrite IH. reflexivity.
Qed.

Definition FwdSpec (local : string -> aca_result) (remote token : string) (out : option string) : Prop :=
  (forall uuid secret, v2_fields token uuid secret -> is_salted_secret secret = false ->
     out = Some ("v2/" ++ uuid ++ "/" ++ hmac_sha1_hex secret remote)) /\
  (forall uuid secret, v2_fields token uuid secret -> is_salted_secret secret = true -> out = Some token) /\
  (not_v2 token -> is_obsolete token = false -> out = Some token) /\
  (not_v2 token -> is_obsolete token = true ->
     out = match local token with
           | AcaUnauthorized => Some token
           | AcaError => None
           | AcaOk uuid api =>
             if has_prefix remote uuid then Some token
             else match salt_token ("v2/" ++ uuid ++ "/" ++ api) remote with Salted t => Some t | _ => None end
           end).

Theorem provide_one_meets_spec local remote token : FwdSpec local remote token (provide_one local remote token).
Proof.
  split; [|split; [|split]].
  - intros u s Hv Hs. apply (provide_v2_unsalted local remote token u s Hv Hs).
  - intros u s Hv Hs. apply (provide_v2_salted local remote token u s Hv Hs).
  - apply provide_opaque.
  - apply provide_legacy.
Qed.

Theorem spec_fwd_reflects local remote token out :
  spec_fwd_k hmac_sha1_hex local remote token = out <-> FwdSpec local remote token out.
Proof.
  rewrite spec_fwd_vs_model. split.
  - intros <-. apply provide_one_meets_spec.
  - intros (H1 & H2 & H3 & H4). destruct (classify_total token) as [Hn|(u & s & Hv)].
    + destruct (is_obsolete token) eqn:Ho.
      * rewrite (H4 Hn eq_refl). apply provide_legacy; assumption.
      * rewrite (H3 Hn eq_refl). apply provide_opaque; assumption.
    + destruct (is_salted_secret s) eqn:Hs.
      * rewrite (H2 u s Hv Hs). apply (provide_v2_salted local remote token u s Hv Hs).
      * rewrite (H1 u s Hv Hs). apply (provide_v2_unsalted local remote token u s Hv Hs).
Qed.

(* non-disclosure clause of the evaluator holds of the model's output *)
Lemma long_secret_spec t s :
  long_secret t = Some s -> exists uuid, v2_fields t uuid s /\ is_salted_secret s = false /\
                                      40 < String.length s /\ contains s uuid = false.
Proof.
  unfold long_secret. destruct (classify_total t) as [Hn|(u & s' & Hv)].
  - rewrite (classify_not_v2 _ Hn). destruct (is_obsolete t); discriminate.
  - rewrite (classify_v2 _ _ _ Hv). destruct (is_salted_secret s') eqn:Hs; [discriminate|].
    destruct (Nat.ltb_spec 40 (String.length s')) as [Hl|]; [|discriminate]. cbn [andb].
    destruct (contains s' u) eqn:Hc; [discriminate|]. cbn [negb]. intro H. injection H as <-.
    exists u. auto.
Qed.

Theorem provider_no_secret local remote ts outs :
  provider local remote (Some ts) = Some outs -> no_secret_b ts outs = true.
Proof.
  intro H. apply provider_pointwise in H. induction H as [|t o ts' os' Ho _ IH]; [reflexivity|].
  cbn [no_secret_b]. rewrite IH, andb_true_r. destruct (long_secret t) as [s|] eqn:El; [|reflexivity].
  destruct (long_secret_spec _ _ El) as (u & Hv & Hs & Hl & Hc).
  rewrite (provide_v2_unsalted local remote t u s Hv Hs) in Ho. injection Ho as <-.
  match goal with |- negb (contains s ?x) = true => destruct (contains s x) eqn:Ec; [|reflexivity] end.
  destruct (v2_fields_nosep _ _ _ Hv) as [_ Hns].
  destruct (forwarded_has_no_secret u s remote Hns) as [_ H2]. rewrite (H2 Hl Ec) in Hc. discriminate.
Qed.

Theorem model_meets_spec_prov remote creds local :
  spec_prov_k hmac_sha1_hex remote creds local (provider (tab_get local) remote creds) = true.
Proof.
  unfold spec_prov_k. destruct creds as [ts|]; [|reflexivity]. rewrite all_some_provide.
  fold (provider (tab_get local) remote (Some ts)). apply andb_true_iff. split; [apply optl_eqb_eq; reflexivity|].
  destruct (provider (tab_get local) remote (Some ts)) as [outs|] eqn:E; [|reflexivity].
  apply (provider_no_secret _ _ _ _ E).
Qed.

Theorem spec_prov_reflects remote ts local o :
  spec_prov_k hmac_sha1_hex remote (Some ts) local o = true <->
  (o = provider (tab_get local) remote (Some ts) /\ match o with Some outs => no_secret_b ts outs = true | None => True end).
Proof.
  unfold spec_prov_k. rewrite all_some_provide, andb_true_iff, optl_eqb_eq.
  fold (provider (tab_get local) remote (Some ts)). destruct o; tauto.
Qed.

(* keepstore *)
Lemma spec_remote_vs_model token remote o : spec_remote_k hmac_sha1_hex token remote o = opt_eqb o (remote_client token remote).
Proof.
  unfold spec_remote_k, remote_client, remote_client_k. rewrite salt_classify. destruct (classify token); try reflexivity.
  destruct (has_prefix remote uuid); reflexivity.
Qed.
Theorem spec_remote_reflects token remote o :
  spec_remote_k hmac_sha1_hex token remote o = true <->
  match o with Some out => salt_token token remote = Salted out | None => forall out, salt_token token remote <> Salted out end.
Proof.
  rewrite spec_remote_vs_model, opt_eqb_eq. destruct o as [out|].
  - rewrite <- remote_client_salted. split; congruence.
  - split.
    + intros H out Hs. apply remote_client_salted in Hs. congruence.
    + intro H. destruct (remote_client token remote) as [out|] eqn:E; [|reflexivity].
      apply remote_client_salted in E. exfalso. apply (H out E).
Qed.

Theorem model_meets_spec_salt token remote : spec_salt_k hmac_sha1_hex token remote (salt_token token remote) = true.
Proof. rewrite spec_salt_vs_model. apply res_eqb_eq. reflexivity. Qed.
Theorem model_meets_spec_remote token remote : spec_remote_k hmac_sha1_hex token remote (remote_client token remote) = true.
Proof. rewrite spec_remote_vs_model. apply opt_eqb_eq. reflexivity. Qed.

(* ---------- the known-finding bits are confined to the F6b trigger ---------- *)
Lemma f6b_bits_narrow r secrets o_err wire :
  f6b_bits r secrets o_err wire <> 0%N ->
  o_err = false /\
  found LAuth secrets wire = false /\ found LQuery secrets wire = false /\ found LOther secrets wire = false /\
  (found LBody secrets wire = true \/ found LCookie secrets wire = true) /\
  (found LBody secrets wire = true -> form_carries r secrets = true) /\
  (found LCookie secrets wire = true -> cookie_carries r secrets = true) /\
  f6b_bits r secrets o_err wire = ((if found LBody secrets wire then 4 else 0) + (if found LCookie secrets wire then 8 else 0))%N.
Proof.
  unfold f6b_bits.
  destruct o_err, (found LAuth secrets wire), (found LQuery secrets wire), (found LOther secrets wire); cbn [orb]; try congruence.
  destruct (found LBody secrets wire) eqn:Eb, (found LCookie secrets wire) eqn:Ec; cbn [negb orb andb];
    destruct (form_carries r secrets), (cookie_carries r secrets); cbn [negb orb andb];
    intro H; try congruence; try (exfalso; apply H; reflexivity); clear H; auto 10.
Qed.

Theorem known_bits_narrow c :
  known_F6b_bits c <> 0%N ->
  exists r secrets wire,
    ((exists remote dbt o_auth o_query, c = CLegacy r remote dbt secrets false o_auth o_query wire) \/
     (exists dbt sent, c = CStack r dbt secrets sent /\ wire = all_parts sent)) /\
    found LAuth secrets wire = false /\ found LQuery secrets wire = false /\ found LOther secrets wire = false /\
    (found LBody secrets wire = true \/ found LCookie secrets wire = true) /\
    (found LBody secrets wire = true -> form_carries r secrets = true) /\
    (found LCookie secrets wire = true -> cookie_carries r secrets = true) /\
    known_F6b_bits c = ((if found LBody secrets wire then 4 else 0) + (if found LCookie secrets wire then 8 else 0))%N.
Proof.
  destruct c as [| | |r remote dbt secrets o_err o_auth o_query wire|r dbt secrets sent| | | |]; cbn [known_F6b_bits]; try congruence.
  - intro H. destruct (f6b_bits_narrow _ _ _ _ H) as (-> & H1). exists r, secrets, wire.
    split; [left; exists remote, dbt, o_auth, o_query; reflexivity|exact H1].
  - intro H. destruct (f6b_bits_narrow _ _ _ _ H) as (_ & H1). exists r, secrets, (all_parts sent).
    split; [right; exists dbt, sent; auto|exact H1].
Qed.

(* ---------- non-disclosure at the wire: the boolean search against "occurs" ---------- *)
Definition Occurs (sub s : string) : Prop := exists a b, s = a ++ sub ++ b.

Lemma has_prefix_app p b : has_prefix p (p ++ b) = true.
Proof. induction p as [|c p IH]; [destruct b; reflexivity|]. cbn [append has_prefix]. rewrite Ascii.eqb_refl, IH. reflexivity. Qed.
Lemma has_prefix_inv p s : has_prefix p s = true -> exists b, s = p ++ b.
Proof.
  revert s. induction p as [|c p IH]; intros s H; [exists s; reflexivity|].
  destruct s as [|d s]; [discriminate|]. cbn [has_prefix] in H. apply andb_true_iff in H. destruct H as [H1 H2].
  apply Ascii.eqb_eq in H1. subst d. destruct (IH s H2) as [b ->]. exists b. reflexivity.
Qed.
Lemma contains_app a sub b : contains sub (a ++ sub ++ b) = true.
Proof.
  induction a as [|c a IH]; cbn [append].
  - destruct (sub ++ b) eqn:E; cbn [contains]; rewrite <- E, has_prefix_app; reflexivity.
  - cbn [contains]. rewrite IH. apply orb_true_r.
Qed.
Theorem contains_occurs sub s : contains sub s = true <-> Occurs sub s.
Proof.
  split.
  - induction s as [|c r IH]; cbn [contains]; intro H.
    + rewrite orb_false_r in H. destruct (has_prefix_inv _ _ H) as [b Hb]. exists "", b. exact Hb.
    + apply orb_true_iff in H. destruct H as [H|H].
      * destruct (has_prefix_inv _ _ H) as [b Hb]. exists "", b. exact Hb.
      * destruct (IH H) as (a & b & ->). exists (String c a), b. reflexivity.
  - intros (a & b & ->). apply contains_app.
Qed.

Lemma occurs_in_false secrets text : occurs_in secrets text = false <-> forall s, In s secrets -> ~ Occurs s text.
Proof.
  unfold occurs_in. split.
  - intros H s Hs Ho. apply contains_occurs in Ho.
    assert (existsb (fun s0 => contains s0 text) secrets = true) by (apply existsb_exists; exists s; auto). congruence.
  - intro H. destruct (existsb (fun s => contains s text) secrets) eqn:E; [|reflexivity].
    apply existsb_exists in E. destruct E as (s & Hs & Hc). apply contains_occurs in Hc. destruct (H s Hs Hc).
Qed.

(* clean_b: no secret occurs in any part of what leaves *)
Theorem clean_b_reflects secrets wire :
  clean_b secrets wire = true <-> forall s p, In s secrets -> In p wire -> ~ Occurs s (snd p).
Proof.
  unfold clean_b. rewrite forallb_forall. split.
  - intros H s p Hs Hp. specialize (H p Hp). apply negb_true_iff in H. apply (proj1 (occurs_in_false _ _) H s Hs).
  - intros H p Hp. apply negb_true_iff. apply occurs_in_false. intros s Hs. apply (H s p Hs Hp).
Qed.

(* the five places are all there is: nothing found at any place = clean *)
Lemma clean_b_found secrets wire :
  clean_b secrets wire =
  negb (found LAuth secrets wire || found LQuery secrets wire || found LBody secrets wire ||
        found LCookie secrets wire || found LOther secrets wire).
Proof.
  induction wire as [|[l t] w IH]; [reflexivity|].
  unfold clean_b, found in *. cbn [forallb existsb fst snd]. rewrite IH.
  destruct (occurs_in secrets t); [destruct l; cbn; rewrite ?orb_true_r; reflexivity|].
  rewrite !andb_false_r. reflexivity.
Qed.
Theorem spec_wire_reflects o_err secrets wire :
  spec_wire_b o_err secrets wire = true <->
  (o_err = true \/ forall s p, In s secrets -> In p wire -> ~ Occurs s (snd p)).
Proof.
  unfold spec_wire_b, spec_legacy_b. rewrite <- clean_b_found, orb_true_iff, clean_b_reflects. tauto.
Qed.

(* ContainerRequestCreate: the protected secrets, in words *)
Lemma crc_secrets_spec local creds aca s :
  In s (crc_secrets local creds aca) <->
  ((exists t uuid, In t creds /\ v2_fields t uuid s /\ is_salted_secret s = false /\
                   has_prefix local uuid = true /\ 40 < String.length s) \/
   (exists uuid scopes, aca = Some (uuid, s, scopes) /\ has_prefix local uuid = true /\ 40 < String.length s)).
Proof.
  unfold crc_secrets. rewrite in_app_iff, in_flat_map. split.
  - intros [(t & Ht & Hin)|Hin].
    + left. destruct (classify_total t) as [Hn|(u & s' & Hv)].
      * rewrite (classify_not_v2 _ Hn) in Hin. destruct (is_obsolete t); destruct Hin.
      * rewrite (classify_v2 _ _ _ Hv) in Hin. destruct (is_salted_secret s') eqn:Hs; [destruct Hin|].
        destruct (has_prefix local u) eqn:Hp; [|destruct Hin].
        destruct (Nat.ltb_spec 40 (String.length s')) as [Hl|]; [|destruct Hin].
        destruct Hin as [<-|[]]. exists t, u. auto.
    + right. destruct aca as [[[uuid api] scopes]|]; [|destruct Hin].
      destruct (has_prefix local uuid) eqn:Hp; [|destruct Hin].
      destruct (Nat.ltb_spec 40 (String.length api)) as [Hl|]; [|destruct Hin].
      destruct Hin as [<-|[]]. exists uuid, scopes. auto.
  - intros [(t & u & Ht & Hv & Hs & Hp & Hl)|(uuid & scopes & -> & Hp & Hl)].
    + left. exists t. split; [exact Ht|]. rewrite (classify_v2 _ _ _ Hv), Hs, Hp.
      destruct (Nat.ltb_spec 40 (String.length s)); [left; reflexivity|lia].
    + right. rewrite Hp. destruct (Nat.ltb_spec 40 (String.length s)); [left; reflexivity|lia].
Qed.

Theorem spec_crc_reflects local creds rt aca o_sent o_rt wire :
  spec_crc_b local creds rt aca o_sent o_rt wire = true <->
  ((forall s p, In s (crc_secrets local creds aca) -> In p wire -> ~ Occurs s (snd p)) /\
   (o_sent = true -> rt = None -> forall uuid api scopes, aca = Some (uuid, api, scopes) ->
      has_prefix local uuid = true -> o_rt <> Some ("v2/" ++ uuid ++ "/" ++ api))).
Proof.
  unfold spec_crc_b. rewrite andb_true_iff, clean_b_reflects, negb_true_iff.
  assert (Hc : (o_sent && current_token_forwarded local rt aca o_rt) = false <->
               (o_sent = true -> rt = None -> forall uuid api scopes, aca = Some (uuid, api, scopes) ->
                  has_prefix local uuid = true -> o_rt <> Some ("v2/" ++ uuid ++ "/" ++ api))).
  { unfold current_token_forwarded. destruct o_sent; cbn [andb]; [|split; [discriminate|reflexivity]].
    destruct rt as [g|]; [split; [discriminate|reflexivity]|].
    destruct aca as [[[uuid api] scopes]|]; [|split; [discriminate|reflexivity]].
    destruct (has_prefix local uuid) eqn:Hp; cbn [andb].
    - split.
      + intros H _ _ u a sc E. injection E as <- <- <-. intros _ Ho. subst o_rt.
        assert (opt_eqb (Some ("v2/" ++ uuid ++ "/" ++ api)) (Some ("v2/" ++ uuid ++ "/" ++ api)) = true) by (apply opt_eqb_eq; reflexivity). congruence.
      + intro H. destruct (opt_eqb o_rt (Some ("v2/" ++ uuid ++ "/" ++ api))) eqn:E; [|reflexivity].
        apply opt_eqb_eq in E. destruct (H eq_refl eq_refl uuid api scopes eq_refl Hp E).
    - split; [|reflexivity]. intros _ _ _ u a sc E. injection E as <- <- <-. congruence. }
  rewrite Hc. tauto.
Qed.

(* the model's output satisfies the runtime_token clause: a current token issued here is never forwarded *)
Theorem model_meets_spec_crc lookup mint local remotes target creds aca user a t :
  (forall u t', mint u = Some t' -> forall uuid api scopes, aca = Some (uuid, api, scopes) -> t' <> "v2/" ++ uuid ++ "/" ++ api) ->
  crc lookup mint local remotes target creds None aca user = CrcSent a t ->
  current_token_forwarded local None aca (Some t) = false.
Proof.
  intros Hm H. apply crc_sent_runtime_token in H. destruct H as [_ [H|(_ & uuid & api & scopes & -> & Hs & H)]]; [discriminate|].
  unfold current_token_forwarded. destruct H as [(Hp & u & -> & Hu)|(Hp & ->)].
  - rewrite Hp. cbn [andb]. destruct (opt_eqb (Some t) (Some ("v2/" ++ uuid ++ "/" ++ api))) eqn:E; [|reflexivity].
    apply opt_eqb_eq in E. injection E as ->. destruct (Hm u _ Hu uuid api scopes eq_refl eq_refl).
  - rewrite Hp. reflexivity.
Qed.

(* keepstore: the secrets judged at the wire, in words; and the model sends nothing it did not salt *)
Lemma ks_secrets_spec token s :
  In s (ks_secrets token) <->
  ((exists uuid, v2_fields token uuid s /\ is_salted_secret s = false /\ 40 < String.length s /\ contains s uuid = false) \/
   (not_v2 token /\ is_obsolete token = true /\ s = token)).
Proof.
  unfold ks_secrets. destruct (classify_total token) as [Hn|(u & s' & Hv)].
  - rewrite (classify_not_v2 _ Hn). destruct (is_obsolete token) eqn:Ho.
    + split.
      * intros [<-|[]]. right. auto.
      * intros [(u & Hv & _)|(_ & _ & ->)]; [destruct (Hn u s Hv)|left; reflexivity].
    + split; [intros []|]. intros [(u & Hv & _)|(_ & Hf & _)]; [destruct (Hn u s Hv)|discriminate].
  - rewrite (classify_v2 _ _ _ Hv). destruct (is_salted_secret s') eqn:Hs.
    + split; [intros []|]. intros [(u' & Hv' & Hs' & _)|(Hn & _)]; [|destruct (Hn u s' Hv)].
      destruct (v2_fields_fun _ _ _ _ _ Hv Hv') as [_ <-]. congruence.
    + destruct (Nat.ltb_spec 40 (String.length s')) as [Hl|Hl]; cbn [andb].
      * destruct (contains s' u) eqn:Hc; cbn [negb].
        -- split; [intros []|]. intros [(u' & Hv' & _ & _ & Hc')|(Hn & _)]; [|destruct (Hn u s' Hv)].
           destruct (v2_fields_fun _ _ _ _ _ Hv Hv') as [<- <-]. congruence.
        -- split.
           ++ intros [<-|[]]. left. exists u. auto.
           ++ intros [(u' & Hv' & _)|(Hn & _)]; [|destruct (Hn u s' Hv)].
              destruct (v2_fields_fun _ _ _ _ _ Hv Hv') as [_ <-]. left. reflexivity.
      * split; [intros []|]. intros [(u' & Hv' & _ & Hl' & _)|(Hn & _)]; [|destruct (Hn u s' Hv)].
        destruct (v2_fields_fun _ _ _ _ _ Hv Hv') as [_ <-]. lia.
Qed.

(* keepstore at the wire: every request sent on behalf of a caller bears exactly what SaltToken returned for
   that caller's token *)
Lemma strip_prefix_spec p s t : strip_prefix p s = Some t <-> s = p ++ t.
Proof.
  revert s. induction p as [|a p IH]; intro s; cbn [strip_prefix append].
  - split; [intro H; injection H; auto|intros ->; reflexivity].
  - destruct s as [|b s]; [split; discriminate|].
    destruct (Ascii.eqb_spec a b) as [->|Hne].
    + rewrite IH. split; [intros ->; reflexivity|intro H; injection H; auto].
    + split; [discriminate|]. intro H. injection H as H1 _. congruence.
Qed.
Theorem ks_auth_ok_reflects token remote sent :
  ks_auth_ok_k hmac_sha1_hex token remote sent = true <->
  forall q, In q sent -> exists t, snd (fst q) = "OAuth2 " ++ t /\ salt_token token remote = Salted t.
Proof.
  unfold ks_auth_ok_k. rewrite forallb_forall. split.
  - intros H q Hq. specialize (H q Hq). destruct (strip_prefix "OAuth2 " (snd (fst q))) as [t|] eqn:E; [|discriminate].
    exists t. split; [apply strip_prefix_spec; exact E|]. apply (proj1 (spec_remote_reflects token remote (Some t)) H).
  - intros H q Hq. destruct (H q Hq) as (t & Ha & Hs). apply strip_prefix_spec in Ha. rewrite Ha.
    apply (proj2 (spec_remote_reflects token remote (Some t)) Hs).
Qed.
Theorem spec_ksget_reflects secrets token remote sent :
  spec_ksget_k hmac_sha1_hex secrets token remote sent = true <->
  ((forall s p, In s secrets -> In p (all_parts sent) -> ~ Occurs s (snd p)) /\
   (forall q, In q sent -> exists t, snd (fst q) = "OAuth2 " ++ t /\ salt_token token remote = Salted t)).
Proof. unfold spec_ksget_k. rewrite andb_true_iff, clean_b_reflects, ks_auth_ok_reflects. tauto. Qed.
(* the model's requests satisfy the Authorization clause *)
Theorem ksget_model_auth_ok token remote sent :
  ksget_model_k hmac_sha1_hex token remote sent = true -> ks_auth_ok_k hmac_sha1_hex token remote sent = true.
Proof.
  unfold ksget_model_k. fold (remote_client token remote). intro H. apply ks_auth_ok_reflects. intros q Hq.
  destruct (remote_client token remote) as [t|] eqn:E.
  - rewrite forallb_forall in H. specialize (H q Hq). apply String.eqb_eq in H. exists t. split; [exact H|].
    apply remote_client_salted. exact E.
  - destruct sent; [destruct Hq|discriminate].
Qed.
