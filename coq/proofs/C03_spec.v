(* C03 — the Prop-level reading of the boolean specification [spec_b] (model/C03_run.v) and the proof
   that spec_b holds exactly when it does. *)
From Coq Require Import Arith NArith List Ascii String Bool Lia.
From AV Require Import lib.Str model.C03_model model.C03_run proofs.C03_err_proofs.
Import ListNotations.
Local Open Scope nat_scope.

(* a successful read of n bytes at offset off of content c *)
Definition SliceOk (c : string) (n off : nat) (bytes : string) : Prop := off <= slen c /\ bytes = take n (drop off c).
Definition RdOk (c : string) (n off : nat) (r : string * err) : Prop := snd r = ENil -> SliceOk c n off (fst r).

(* what a Get that returned a reader must satisfy, for a block whose locator stands for content c *)
Record GetSpec (loc c : string) (m : rmode) (size : nat) (bytes : string) (rerr cerr : err) : Prop := {
  gs_size : forall n, size_hint loc = Some n -> size = n;
  gs_readall : m = MReadAll -> rerr = EEOF \/ rerr = ENil -> bytes = c /\ cerr = ENil;
  gs_writeto : m = MWriteTo -> rerr = ENil -> bytes = c /\ cerr = ENil;
  gs_readfull : forall k, m = MReadFull k -> rerr = ENil -> cerr = ENil -> k <= slen c /\ bytes = take k c
}.

Definition OpSpec (i : cin) (o : op) (r : ores) : Prop :=
  match o, r with
  | OGet b m, RGet gerr size srv bytes rerr cerr =>
      b_consistent (blk_of i b) = true -> gerr = ENil ->
      GetSpec (b_loc (blk_of i b)) (b_content (blk_of i b)) m size bytes rerr cerr
  | OReadAt b n off, RRead bytes e =>
      b_consistent (blk_of i b) = true -> RdOk (b_content (blk_of i b)) n off (bytes, e)
  | OGroup k b n off, RGroup l =>
      List.length l = k /\
      (b_consistent (blk_of i b) = true -> forall r, In r l -> RdOk (b_content (blk_of i b)) n off r)
  | OFile segs off, RFile bytes e =>
      (forall s, In s segs -> b_consistent (blk_of i (fst (fst s))) = true) -> e = ENil -> bytes = file_bytes i segs off
  | _, _ => False
  end.

Lemma slice_ok_iff c n off bytes : slice_ok c n off bytes = true <-> SliceOk c n off bytes.
Proof. unfold slice_ok, SliceOk. rewrite andb_true_iff, Nat.leb_le, String.eqb_eq. tauto. Qed.

Lemma rd_ok_iff c n off r : rd_ok c n off r = true <-> RdOk c n off r.
Proof.
  unfold rd_ok, RdOk. destruct (snd r) eqn:E; try (split; [intros _ X; discriminate|reflexivity]).
  rewrite slice_ok_iff. split; [intros X _; exact X|intros X; apply X; reflexivity].
Qed.

Lemma get_spec_iff loc c m size bytes rerr cerr :
  (match size_hint loc with Some n => size =? n | None => true end &&
   match m with
   | MReadAll => match rerr with EEOF | ENil => String.eqb bytes c | _ => true end
   | MWriteTo => match rerr with ENil => String.eqb bytes c | _ => true end
   | MReadFull k => match rerr, cerr with ENil, ENil => (k <=? slen c) && String.eqb bytes (take k c) | _, _ => true end
   | MCloseOnly => true
   end &&
   match m, rerr, cerr with
   | MReadAll, (EEOF | ENil), ENil | MWriteTo, ENil, ENil => true
   | MReadAll, (EEOF | ENil), _ | MWriteTo, ENil, _ => false
   | _, _, _ => true
   end) = true <-> GetSpec loc c m size bytes rerr cerr.
Proof.
  rewrite !andb_true_iff. split.
  - intros [[Hs Hb] Hc]. constructor.
    + intros n E. rewrite E in Hs. apply Nat.eqb_eq. exact Hs.
    + intros -> [-> | ->]; apply String.eqb_eq in Hb; (split; [exact Hb|]); destruct cerr; try discriminate; reflexivity.
    + intros -> ->. apply String.eqb_eq in Hb. split; [exact Hb|]. destruct cerr; try discriminate; reflexivity.
    + intros k -> -> ->. apply andb_true_iff in Hb. rewrite Nat.leb_le, String.eqb_eq in Hb. exact Hb.
  - intros [Hs Hra Hwt Hrf]. split; [split|].
    + destruct (size_hint loc) as [n|]; [|reflexivity]. apply Nat.eqb_eq. apply Hs. reflexivity.
    + destruct m as [|k| |].
      * destruct rerr; try reflexivity; apply String.eqb_eq; apply Hra; auto.
      * destruct rerr; try reflexivity. destruct cerr; try reflexivity.
        destruct (Hrf k eq_refl eq_refl eq_refl) as [A B]. apply andb_true_iff. rewrite Nat.leb_le, String.eqb_eq. auto.
      * destruct rerr; try reflexivity. apply String.eqb_eq. apply Hwt; reflexivity.
      * reflexivity.
    + destruct m as [|k| |]; try reflexivity.
      * destruct rerr; try reflexivity; (destruct (Hra eq_refl) as [_ ->]; [auto|reflexivity]).
      * destruct rerr; try reflexivity. destruct (Hwt eq_refl eq_refl) as [_ ->]. reflexivity.
Qed.

Theorem op_ok_reflects i o r : op_ok i o r = true <-> OpSpec i o r.
Proof.
  destruct o as [b m|b n off|k b n off|segs off], r as [gerr size srv bytes rerr cerr|bytes e|l|bytes e];
    cbn [op_ok OpSpec]; try (split; [discriminate|intros []]).
  - destruct (b_consistent (blk_of i b)); cbn [negb orb].
    + destruct gerr; try (split; [intros _ _ X; discriminate|reflexivity]).
      rewrite get_spec_iff. split; [intros X _ _; exact X|intros X; apply X; reflexivity].
    + split; [intros _ X; discriminate|reflexivity].
  - destruct (b_consistent (blk_of i b)); cbn [negb orb].
    + rewrite rd_ok_iff. split; [intros X _; exact X|intros X; apply X; reflexivity].
    + split; [intros _ X; discriminate|reflexivity].
  - rewrite andb_true_iff, Nat.eqb_eq. destruct (b_consistent (blk_of i b)); cbn [negb orb].
    + rewrite forallb_forall. split; intros [A B]; (split; [exact A|]).
      * intros _ r Hr. apply rd_ok_iff. apply B. exact Hr.
      * intros r Hr. apply rd_ok_iff. apply B; [reflexivity|exact Hr].
    + split; intros [A _]; (split; [exact A|]); [intros X; discriminate|reflexivity].
  - destruct (forallb (fun s => b_consistent (blk_of i (fst (fst s)))) segs) eqn:Ef; cbn [negb orb].
    + rewrite forallb_forall in Ef. destruct e; try (split; [intros _ _ X; discriminate|reflexivity]).
      rewrite String.eqb_eq. split; [intros X _ _; exact X|intros X; apply X; [exact Ef|reflexivity]].
    + split; [|reflexivity]. intros _ Hall. exfalso.
      assert (forallb (fun s => b_consistent (blk_of i (fst (fst s)))) segs = true) by (apply forallb_forall; exact Hall). congruence.
Qed.

(* ------------------------------------------------------------------ the locator clauses (loc_ok) *)
Definition FullRead (m : rmode) (rerr : err) : Prop :=
  (m = MReadAll /\ (rerr = EEOF \/ rerr = ENil)) \/ (m = MWriteTo /\ rerr = ENil).

(* all blocks of the case that share the cache key of bl carry bl's size hint, and none takes the empty-block
   short cut *)
Definition LocGuard (i : cin) (bl : blockin) : Prop :=
  empty_block_loc (b_loc bl) = false /\
  forall bl', In bl' (i_blocks i) -> loc_hash (b_loc bl') = loc_hash (b_loc bl) ->
    size_hint (b_loc bl') = size_hint (b_loc bl) /\ empty_block_loc (b_loc bl') = false.

(* a Get that returned a reader: announced size, digest and size of what a successful read delivered *)
Record GetLocSpec (H : string -> string) (bl : blockin) (m : rmode) (size : nat) (bytes : string) (rerr cerr : err) : Prop := {
  gl_size : forall n, size_hint (b_loc bl) = Some n -> size = n;
  gl_hash : FullRead m rerr -> H bytes = loc_hash (b_loc bl);
  gl_len : FullRead m rerr -> forall n, size_hint (b_loc bl) = Some n -> slen bytes = n;
  gl_readfull : forall k, m = MReadFull k -> rerr = ENil -> cerr = ENil ->
                forall n, size_hint (b_loc bl) = Some n -> k <= n /\ slen bytes = k
}.

(* a cached read of k bytes at offset off that reported success: it lies inside the locator's size, has the
   length of that slice, and a read of the whole block has the locator's digest *)
Record RdLocSpec (H : string -> string) (loc : string) (k off : nat) (bytes : string) : Prop := {
  rl_hinted : forall n, size_hint loc = Some n ->
              off <= n /\ slen bytes = Nat.min k (n - off) /\ (off = 0 -> n <= k -> H bytes = loc_hash loc);
  rl_unhinted : size_hint loc = None -> off = 0 -> slen bytes < k -> H bytes = loc_hash loc
}.

Definition LocSpec (i : cin) (o : op) (r : ores) : Prop :=
  match o, r with
  | OGet b m, RGet gerr size srv bytes rerr cerr =>
      gerr = ENil -> empty_block_loc (b_loc (blk_of i b)) = false ->
      GetLocSpec (H_of i) (blk_of i b) m size bytes rerr cerr
  | OReadAt b k off, RRead bytes e =>
      LocGuard i (blk_of i b) -> e = ENil -> RdLocSpec (H_of i) (b_loc (blk_of i b)) k off bytes
  | OGroup g b k off, RGroup l =>
      LocGuard i (blk_of i b) -> forall r, In r l -> snd r = ENil -> RdLocSpec (H_of i) (b_loc (blk_of i b)) k off (fst r)
  | OFile _ _, RFile _ _ => True
  | _, _ => False
  end.

Lemma full_read_iff m rerr : full_read m rerr = true <-> FullRead m rerr.
Proof.
  unfold FullRead. destruct m as [|k| |], rerr; cbn; split; intros X; try discriminate; try reflexivity; auto;
    try (destruct X as [[X _]|[X _]]; discriminate); try (destruct X as [[_ [X|X]]|[_ X]]; discriminate);
    try (destruct X as [[X _]|[_ X]]; discriminate).
Qed.

Lemma hint_eqb_eq a b : hint_eqb a b = true <-> a = b.
Proof.
  destruct a as [x|], b as [y|]; cbn; try (split; [discriminate|intros [=]]); try (split; reflexivity).
  rewrite Nat.eqb_eq. split; [intros ->; reflexivity|intros [= ->]; reflexivity].
Qed.

Lemma loc_guard_iff i bl : loc_guard i bl = true <-> LocGuard i bl.
Proof.
  unfold loc_guard, LocGuard. rewrite andb_true_iff, negb_true_iff, forallb_forall. apply and_iff_compat_l. split.
  - intros Hall bl' Hin Eh. specialize (Hall bl' Hin). rewrite orb_true_iff, negb_true_iff, andb_true_iff in Hall.
    destruct Hall as [X|[A B]]; [apply String.eqb_neq in X; contradiction|].
    apply hint_eqb_eq in A. apply negb_true_iff in B. auto.
  - intros Hall bl' Hin. rewrite orb_true_iff, negb_true_iff, andb_true_iff.
    destruct (String.eqb_spec (loc_hash (b_loc bl')) (loc_hash (b_loc bl))) as [E|E]; [right|left; reflexivity].
    destruct (Hall bl' Hin E) as [A B]. split; [apply hint_eqb_eq; exact A|apply negb_true_iff; exact B].
Qed.

Lemma get_loc_ok_iff H bl m size bytes rerr cerr :
  get_loc_ok H bl m size bytes rerr cerr = true <-> GetLocSpec H bl m size bytes rerr cerr.
Proof.
  unfold get_loc_ok. rewrite !andb_true_iff. split.
  - intros [[[Hs Hh] Hl] Hd]. constructor.
    + intros n E. rewrite E in Hs. apply Nat.eqb_eq. exact Hs.
    + intros F. apply full_read_iff in F. rewrite F in Hh. cbn [negb orb] in Hh. apply String.eqb_eq. exact Hh.
    + intros F n E. apply full_read_iff in F. rewrite F, E in Hl. cbn [negb orb] in Hl. apply Nat.eqb_eq. exact Hl.
    + intros k -> -> -> n E. rewrite E in Hd. apply andb_true_iff in Hd. rewrite Nat.leb_le, Nat.eqb_eq in Hd. exact Hd.
  - intros [Hs Hh Hl Hd]. split; [split; [split|]|].
    + destruct (size_hint (b_loc bl)) as [n|]; [|reflexivity]. apply Nat.eqb_eq. apply Hs. reflexivity.
    + destruct (full_read m rerr) eqn:F; [|reflexivity]. cbn [negb orb]. apply String.eqb_eq. apply Hh. apply full_read_iff. exact F.
    + destruct (full_read m rerr) eqn:F; [|reflexivity]. cbn [negb orb].
      destruct (size_hint (b_loc bl)) as [n|] eqn:E; [|reflexivity]. apply Nat.eqb_eq.
      apply Hl; [apply full_read_iff; exact F|reflexivity].
    + destruct m as [|k| |]; try reflexivity. destruct rerr; try reflexivity. destruct cerr; try reflexivity.
      destruct (size_hint (b_loc bl)) as [n|] eqn:E; [|reflexivity].
      destruct (Hd k eq_refl eq_refl eq_refl n eq_refl) as [A B].
      apply andb_true_iff. rewrite Nat.leb_le, Nat.eqb_eq. auto.
Qed.

Lemma rd_loc_ok_iff H loc k off r :
  rd_loc_ok H loc k off r = true <-> (snd r = ENil -> RdLocSpec H loc k off (fst r)).
Proof.
  unfold rd_loc_ok. destruct (snd r) eqn:Er; try (split; [intros _ X; discriminate|reflexivity]).
  split.
  - intros Hb _. constructor.
    + intros n E. rewrite E in Hb. rewrite !andb_true_iff, Nat.leb_le, Nat.eqb_eq in Hb. destruct Hb as [[A B] C].
      split; [exact A|]. split; [exact B|]. intros -> Hn. apply Nat.leb_le in Hn. rewrite Hn in C. cbn in C. apply String.eqb_eq. exact C.
    + intros E -> Hl. rewrite E in Hb. apply Nat.ltb_lt in Hl. rewrite Hl in Hb. cbn in Hb. apply String.eqb_eq. exact Hb.
  - intros Hs. specialize (Hs eq_refl). destruct Hs as [Hh Hu]. destruct (size_hint loc) as [n|] eqn:E.
    + destruct (Hh n eq_refl) as (A & B & C). rewrite !andb_true_iff, Nat.leb_le, Nat.eqb_eq. split; [split; assumption|].
      destruct (off =? 0) eqn:E0; [|reflexivity]. destruct (n <=? k) eqn:E1; [|reflexivity]. cbn [andb negb orb].
      apply String.eqb_eq. apply C; [apply Nat.eqb_eq; exact E0|apply Nat.leb_le; exact E1].
    + destruct (off =? 0) eqn:E0; [|reflexivity]. destruct (slen (fst r) <? k) eqn:E1; [|reflexivity]. cbn [andb negb orb].
      apply String.eqb_eq. apply Hu; [reflexivity|apply Nat.eqb_eq; exact E0|apply Nat.ltb_lt; exact E1].
Qed.

Theorem loc_ok_reflects i o r : loc_ok i o r = true <-> LocSpec i o r.
Proof.
  destruct o as [b m|b n off|k b n off|segs off], r as [gerr size srv bytes rerr cerr|bytes e|l|bytes e];
    cbn [loc_ok LocSpec]; try (split; [discriminate|intros []]); try tauto.
  - destruct gerr; try (split; [intros _ X; discriminate|reflexivity]).
    destruct (empty_block_loc (b_loc (blk_of i b))); cbn [orb].
    + split; [intros _ _ X; discriminate|reflexivity].
    + rewrite get_loc_ok_iff. split; [intros X _ _; exact X|intros X; apply X; reflexivity].
  - destruct (loc_guard i (blk_of i b)) eqn:G; cbn [negb orb].
    + apply loc_guard_iff in G. rewrite rd_loc_ok_iff. cbn [fst snd]. split; [intros X _; exact X|intros X; apply X; exact G].
    + split; [|reflexivity]. intros _ G'. apply loc_guard_iff in G'. congruence.
  - destruct (loc_guard i (blk_of i b)) eqn:G; cbn [negb orb].
    + apply loc_guard_iff in G. rewrite forallb_forall. split.
      * intros X _ r Hr. apply rd_loc_ok_iff. apply X. exact Hr.
      * intros X r Hr. apply rd_loc_ok_iff. apply X; assumption.
    + split; [|reflexivity]. intros _ G'. apply loc_guard_iff in G'. congruence.
Qed.

(* ------------------------------------------------------------------ the error-class clause (class_ok, ops_err_ok) *)
Lemma is404b_iff r : is404b r = true <-> exists d b c, r = Resp 404 d b c.
Proof.
  destruct r as [st d b c|]; cbn; [|split; [discriminate|intros (? & ? & ? & X); discriminate]].
  rewrite N.eqb_eq. split; [intros ->; eauto|intros (? & ? & ? & [= -> _ _ _]); reflexivity].
Qed.
Lemma retryableb_iff r :
  retryableb r = true <-> r = ConnErr \/ exists st d b c, r = Resp st d b c /\ (st = 408 \/ st = 429 \/ 500 <= st)%N.
Proof.
  destruct r as [st d b c|]; cbn; [|split; auto].
  unfold retry_status. rewrite !orb_true_iff, !N.eqb_eq, N.leb_le. split.
  - intros X. right. exists st, d, b, c. split; [reflexivity|tauto].
  - intros [X|(st' & ? & ? & ? & [= <- _ _ _] & X)]; [discriminate|tauto].
Qed.

(* the error e of a failed read against the (service, answer) list al of the requests the operation made, in
   request order; order = the probe order of the block *)
Record ClassSpec (order : list nat) (al : list (nat * response)) (e : err) : Prop := {
  (* BlockNotFound: every service answered 404 to one of this operation's requests *)
  cl_notfound : e = ENotFound -> forall s, In s order -> exists r, In (s, r) al /\ is404b r = true;
  (* temporary: some service's last answer was retryable *)
  cl_temp : e = ETemp -> exists s r, In s order /\ last_of al s = Some r /\ retryableb r = true;
  (* permanent: no service's last answer was retryable *)
  cl_perm : e = EPerm -> forall s r, In s order -> last_of al s = Some r -> retryableb r = false;
  (* every service's last answer was a 404: BlockNotFound *)
  cl_all404 : order <> [] -> (forall s, In s order -> exists r, last_of al s = Some r /\ is404b r = true) -> e = ENotFound
}.

Lemma err_eqb_eq' a b : err_eqb a b = true <-> a = b.
Proof. destruct a, b; cbn; split; intros X; try reflexivity; try discriminate. Qed.

Lemma class_okb_iff order al e : class_okb order al e = true <-> ClassSpec order al e.
Proof.
  unfold class_okb. rewrite andb_true_iff, orb_true_iff, negb_true_iff, err_eqb_eq'. split.
  - intros [A B]. constructor.
    + intros -> s Hs. rewrite forallb_forall in A. apply has404_in. apply A. exact Hs.
    + intros ->. apply existsb_exists in A. destruct A as (s & Hs & A). unfold last_retry in A.
      destruct (last_of al s) as [r|] eqn:E; [|discriminate]. exists s, r. auto.
    + intros -> s r Hs El. apply negb_true_iff in A. destruct (retryableb r) eqn:Er; [|reflexivity].
      assert (X : existsb (last_retry al) order = true) by (apply existsb_exists; exists s; split; [exact Hs|unfold last_retry; rewrite El; exact Er]).
      congruence.
    + intros Hne Hall. destruct B as [B|B]; [|exact B]. exfalso.
      assert (X : all_last_404 order al = true).
      { apply all404_spec. split; [exact Hne|]. intros s Hs. destruct (Hall s Hs) as (r & El & Er). unfold last404. rewrite El. exact Er. }
      congruence.
  - intros [Hn Ht Hp Ha]. split.
    + destruct e; try reflexivity.
      * apply forallb_forall. intros s Hs. apply has404_in. apply Hn; [reflexivity|exact Hs].
      * destruct (Ht eq_refl) as (s & r & Hs & El & Er). apply existsb_exists. exists s. split; [exact Hs|]. unfold last_retry. rewrite El. exact Er.
      * apply negb_true_iff. destruct (existsb (last_retry al) order) eqn:E; [|reflexivity].
        apply existsb_exists in E. destruct E as (s & Hs & E). unfold last_retry in E. destruct (last_of al s) as [r|] eqn:El; [|discriminate].
        rewrite (Hp eq_refl s r Hs El) in E. discriminate.
    + destruct (all_last_404 order al) eqn:E; [right|left; reflexivity]. apply all404_spec in E. destruct E as [Hne E].
      apply Ha; [exact Hne|]. intros s Hs. specialize (E s Hs). unfold last404 in E. destruct (last_of al s) as [r|]; [|discriminate]. eauto.
Qed.

Lemma class_ok_iff order al e : class_ok order al e = true <-> (NoDup order -> ClassSpec order al e).
Proof.
  unfold class_ok. destruct (nodupb order) eqn:E; cbn [negb orb].
  - rewrite class_okb_iff. apply nodupb_NoDup in E. split; [intros X _; exact X|intros X; apply X; exact E].
  - split; [|reflexivity]. intros _ Hn. apply nodupb_NoDup in Hn. congruence.
Qed.

(* per operation, seg = the requests the operation caused *)
Definition ErrSpec (i : cin) (o : op) (r : ores) (seg : list (nat * nat * nat)) : Prop :=
  match o, r with
  | OGet b _, RGet gerr _ _ _ _ _ => NoDup (b_order (blk_of i b)) -> ClassSpec (b_order (blk_of i b)) (answers i seg) gerr
  | OReadAt b _ _, RRead _ e => NoDup (b_order (blk_of i b)) -> ClassSpec (b_order (blk_of i b)) (answers i seg) e
  | OGroup _ b _ _, RGroup l =>
      NoDup (b_order (blk_of i b)) -> forall r, In r l -> ClassSpec (b_order (blk_of i b)) (answers i seg) (snd r)
  | _, _ => True
  end.

(* ob_nreq cuts the request log into one segment per operation *)
Fixpoint OpsErrSpec (i : cin) (ops : list op) (rs : list ores) (ns : list nat) (log : list (nat * nat * nat)) : Prop :=
  match ops, rs, ns with
  | [], [], [] => True
  | o :: ops', r :: rs', n :: ns' => ErrSpec i o r (firstn n log) /\ OpsErrSpec i ops' rs' ns' (skipn n log)
  | _, _, _ => False
  end.

Lemma err_ok_reflects i o r seg : err_ok i o r seg = true <-> ErrSpec i o r seg.
Proof.
  destruct o as [b m|b n off|k b n off|segs off], r as [gerr size srv bytes rerr cerr|bytes e|l|bytes e];
    cbn [err_ok ErrSpec]; try tauto; try apply class_ok_iff.
  rewrite forallb_forall. split.
  - intros X Hn r Hr. apply class_ok_iff; [apply X; exact Hr|exact Hn].
  - intros X r Hr. apply class_ok_iff. intros Hn. apply X; assumption.
Qed.

Lemma ops_err_ok_reflects i ops : forall rs ns log, ops_err_ok i ops rs ns log = true <-> OpsErrSpec i ops rs ns log.
Proof.
  induction ops as [|o ops IH]; intros [|r rs] [|n ns] log; cbn [ops_err_ok OpsErrSpec]; try (split; [discriminate|intros []]).
  - split; [constructor|reflexivity].
  - rewrite andb_true_iff, err_ok_reflects, IH. reflexivity.
Qed.

(* the whole judgement: every operation's result satisfies OpSpec and LocSpec, and (not_found_classes) if the
   first operation is a Get/ReadAt of a block for which every service answers 404, its error is BlockNotFound *)
Definition NotFoundSpec (i : cin) (rs : list ores) : Prop :=
  match i_ops i, rs with
  | OGet b _ :: _, RGet gerr _ _ _ _ _ :: _ => first404 (blk_of i b) = true -> gerr = ENotFound
  | OReadAt b _ _ :: _, RRead _ e :: _ => first404 (blk_of i b) = true -> e = ENotFound
  | _, _ => True
  end.

Lemma err_eqb_eq a b : err_eqb a b = true <-> a = b.
Proof. destruct a, b; cbn; split; intros X; try reflexivity; try discriminate. Qed.

Theorem spec_b_reflects c :
  spec_b c = true <->
  (Forall2 (OpSpec (c_in c)) (i_ops (c_in c)) (ob_res (c_obs c)) /\ NotFoundSpec (c_in c) (ob_res (c_obs c)) /\
   Forall2 (LocSpec (c_in c)) (i_ops (c_in c)) (ob_res (c_obs c)) /\
   (ob_sync (c_obs c) = true ->
    OpsErrSpec (c_in c) (i_ops (c_in c)) (ob_res (c_obs c)) (ob_nreq (c_obs c)) (ob_log (c_obs c)))).
Proof.
  unfold spec_b. rewrite andb_true_iff.
  assert (Herr : (negb (ob_sync (c_obs c)) ||
                  ops_err_ok (c_in c) (i_ops (c_in c)) (ob_res (c_obs c)) (ob_nreq (c_obs c)) (ob_log (c_obs c))) = true <->
                 (ob_sync (c_obs c) = true ->
                  OpsErrSpec (c_in c) (i_ops (c_in c)) (ob_res (c_obs c)) (ob_nreq (c_obs c)) (ob_log (c_obs c)))).
  { destruct (ob_sync (c_obs c)); cbn [negb orb].
    - rewrite ops_err_ok_reflects. split; [intros X _; exact X|intros X; apply X; reflexivity].
    - split; [intros _ X; discriminate|reflexivity]. }
  rewrite Herr. clear Herr.
  match goal with |- (?a = true /\ ?R) <-> (?P /\ ?Q /\ ?L /\ ?R) => enough (a = true <-> (P /\ Q /\ L)) by tauto end.
  rewrite !andb_true_iff.
  assert (Hloc : forall ops rs, ops_loc_ok (c_in c) ops rs = true <-> Forall2 (LocSpec (c_in c)) ops rs).
  { induction ops as [|o ops IH]; intros [|r rs]; cbn [ops_loc_ok]; try (split; [discriminate|intros X; inversion X]).
    - split; [constructor|reflexivity].
    - rewrite andb_true_iff, loc_ok_reflects, IH. split; [intros [A B]; constructor; assumption|intros X; inversion X; auto]. }
  rewrite Hloc, and_assoc.
  assert (Hops : forall ops rs, ops_ok (c_in c) ops rs = true <-> Forall2 (OpSpec (c_in c)) ops rs).
  { induction ops as [|o ops IH]; intros [|r rs]; cbn [ops_ok]; try (split; [discriminate|intros X; inversion X]).
    - split; [constructor|reflexivity].
    - rewrite andb_true_iff, op_ok_reflects, IH. split; [intros [A B]; constructor; assumption|intros X; inversion X; auto]. }
  rewrite Hops. apply and_iff_compat_l. apply and_iff_compat_r.
  unfold notfound_ok, NotFoundSpec. destruct (i_ops (c_in c)) as [|o ops]; [tauto|].
  destruct o; try tauto; destruct (ob_res (c_obs c)) as [|r rs]; try tauto; destruct r; try tauto;
    rewrite orb_true_iff, negb_true_iff, err_eqb_eq; destruct (first404 (blk_of (c_in c) blk)); split; auto;
    try (intros [X|X]; [discriminate|intros _; exact X]); intros _ X; discriminate.
Qed.
