(* C03 — the Prop-level reading of the boolean specification [spec_b] (model/C03_run.v) and the proof
   that spec_b holds exactly when it does. *)
From Coq Require Import Arith NArith List Ascii String Bool Lia.
From AV Require Import lib.Str model.C03_model model.C03_run.
Import ListNotations.
Local Open Scope nat_scope.

(* a successful read of n bytes at offset off of content c *)
Definition SliceOk (c : string) (n off : nat) (bytes : string) : Prop := off <= slen c /\ bytes = take n (drop off c).
Definition RdOk (c : string) (n off : nat) (r : string * err) : Prop := snd r = ENil -> SliceOk c n off (fst r).

(* what a Get that returned a reader must satisfy, for a block whose locator stands for content c *)
Record GetSpec (loc c : string) (m : rmode) (size : nat) (bytes : string) (rerr cerr : err) : Prop := {
  gs_size : forall n, size_hint loc = Some n -> size = n;
  gs_readall : m = MReadAll -> rerr = EEOF \/ rerr = ENil -> bytes = c /\ cerr = ENil;
  gs_writeto : m = MWriteTo -> rerr = ENil -> bytes = c /\ cerr = ENil;
  gs_readfull : forall k, m = MReadFull k -> rerr = ENil -> cerr = ENil -> k <= slen c /\ bytes = take k c
}.

Definition OpSpec (i : cin) (o : op) (r : ores) : Prop :=
  match o, r with
  | OGet b m, RGet gerr size srv bytes rerr cerr =>
      b_consistent (blk_of i b) = true -> gerr = ENil ->
      GetSpec (b_loc (blk_of i b)) (b_content (blk_of i b)) m size bytes rerr cerr
  | OReadAt b n off, RRead bytes e =>
      b_consistent (blk_of i b) = true -> RdOk (b_content (blk_of i b)) n off (bytes, e)
  | OGroup k b n off, RGroup l =>
      List.length l = k /\
      (b_consistent (blk_of i b) = true -> forall r, In r l -> RdOk (b_content (blk_of i b)) n off r)
  | OFile segs off, RFile bytes e =>
      (forall s, In s segs -> b_consistent (blk_of i (fst (fst s))) = true) -> e = ENil -> bytes = file_bytes i segs off
  | _, _ => False
  end.

Lemma slice_ok_iff c n off bytes : slice_ok c n off bytes = true <-> SliceOk c n off bytes.
Proof. unfold slice_ok, SliceOk. rewrite andb_true_iff, Nat.leb_le, String.eqb_eq. tauto. Qed.

Lemma rd_ok_iff c n off r : rd_ok c n off r = true <-> RdOk c n off r.
Proof.
  unfold rd_ok, RdOk. destruct (snd r) eqn:E; try (split; [intros _ X; discriminate|reflexivity]).
  rewrite slice_ok_iff. split; [intros X _; exact X|intros X; apply X; reflexivity].
Qed.

Lemma get_spec_iff loc c m size bytes rerr cerr :
  (match size_hint loc with Some n => size =? n | None => true end &&
   match m with
   | MReadAll => match rerr with EEOF | ENil => String.eqb bytes c | _ => true end
   | MWriteTo => match rerr with ENil => String.eqb bytes c | _ => true end
   | MReadFull k => match rerr, cerr with ENil, ENil => (k <=? slen c) && String.eqb bytes (take k c) | _, _ => true end
   | MCloseOnly => true
   end &&
   match m, rerr, cerr with
   | MReadAll, (EEOF | ENil), ENil | MWriteTo, ENil, ENil => true
   | MReadAll, (EEOF | ENil), _ | MWriteTo, ENil, _ => false
   | _, _, _ => true
   end) = true <-> GetSpec loc c m size bytes rerr cerr.
Proof.
  rewrite !andb_true_iff. split.
  - intros [[Hs Hb] Hc]. constructor.
    + intros n E. rewrite E in Hs. apply Nat.eqb_eq. exact Hs.
    + intros -> [-> | ->]; apply String.eqb_eq in Hb; (split; [exact Hb|]); destruct cerr; try discriminate; reflexivity.
    + intros -> ->. apply String.eqb_eq in Hb. split; [exact Hb|]. destruct cerr; try discriminate; reflexivity.
    + intros k -> -> ->. apply andb_true_iff in Hb. rewrite Nat.leb_le, String.eqb_eq in Hb. exact Hb.
  - intros [Hs Hra Hwt Hrf]. split; [split|].
    + destruct (size_hint loc) as [n|]; [|reflexivity]. apply Nat.eqb_eq. apply Hs. reflexivity.
    + destruct m as [|k| |].
      * destruct rerr; try reflexivity; apply String.eqb_eq; apply Hra; auto.
      * destruct rerr; try reflexivity. destruct cerr; try reflexivity.
        destruct (Hrf k eq_refl eq_refl eq_refl) as [A B]. apply andb_true_iff. rewrite Nat.leb_le, String.eqb_eq. auto.
      * destruct rerr; try reflexivity. apply String.eqb_eq. apply Hwt; reflexivity.
      * reflexivity.
    + destruct m as [|k| |]; try reflexivity.
      * destruct rerr; try reflexivity; (destruct (Hra eq_refl) as [_ ->]; [auto|reflexivity]).
      * destruct rerr; try reflexivity. destruct (Hwt eq_refl eq_refl) as [_ ->]. reflexivity.
Qed.

Theorem op_ok_reflects i o r : op_ok i o r = true <-> OpSpec i o r.
Proof.
  destruct o as [b m|b n off|k b n off|segs off], r as [gerr size srv bytes rerr cerr|bytes e|l|bytes e];
    cbn [op_ok OpSpec]; try (split; [discriminate|intros []]).
  - destruct (b_consistent (blk_of i b)); cbn [negb orb].
    + destruct gerr; try (split; [intros _ _ X; discriminate|reflexivity]).
      rewrite get_spec_iff. split; [intros X _ _; exact X|intros X; apply X; reflexivity].
    + split; [intros _ X; discriminate|reflexivity].
  - destruct (b_consistent (blk_of i b)); cbn [negb orb].
    + rewrite rd_ok_iff. split; [intros X _; exact X|intros X; apply X; reflexivity].
    + split; [intros _ X; discriminate|reflexivity].
  - rewrite andb_true_iff, Nat.eqb_eq. destruct (b_consistent (blk_of i b)); cbn [negb orb].
    + rewrite forallb_forall. split; intros [A B]; (split; [exact A|]).
      * intros _ r Hr. apply rd_ok_iff. apply B. exact Hr.
      * intros r Hr. apply rd_ok_iff. apply B; [reflexivity|exact Hr].
    + split; intros [A _]; (split; [exact A|]); [intros X; discriminate|reflexivity].
  - destruct (forallb (fun s => b_consistent (blk_of i (fst (fst s)))) segs) eqn:Ef; cbn [negb orb].
    + rewrite forallb_forall in Ef. destruct e; try (split; [intros _ _ X; discriminate|reflexivity]).
      rewrite String.eqb_eq. split; [intros X _ _; exact X|intros X; apply X; [exact Ef|reflexivity]].
    + split; [|reflexivity]. intros _ Hall. exfalso.
      assert (forallb (fun s => b_consistent (blk_of i (fst (fst s)))) segs = true) by (apply forallb_forall; exact Hall). congruence.
Qed.

(* the whole judgement: every operation's result satisfies OpSpec, and (not_found_classes) if the first
   operation is a Get/ReadAt of a block for which every service answers 404, its error is BlockNotFound *)
Definition NotFoundSpec (i : cin) (rs : list ores) : Prop :=
  match i_ops i, rs with
  | OGet b _ :: _, RGet gerr _ _ _ _ _ :: _ => first404 (blk_of i b) = true -> gerr = ENotFound
  | OReadAt b _ _ :: _, RRead _ e :: _ => first404 (blk_of i b) = true -> e = ENotFound
  | _, _ => True
  end.

Lemma err_eqb_eq a b : err_eqb a b = true <-> a = b.
Proof. destruct a, b; cbn; split; intros X; try reflexivity; try discriminate. Qed.

Theorem spec_b_reflects c :
  spec_b c = true <->
  (Forall2 (OpSpec (c_in c)) (i_ops (c_in c)) (ob_res (c_obs c)) /\ NotFoundSpec (c_in c) (ob_res (c_obs c))).
Proof.
  unfold spec_b. rewrite andb_true_iff.
  assert (Hops : forall ops rs, ops_ok (c_in c) ops rs = true <-> Forall2 (OpSpec (c_in c)) ops rs).
  { induction ops as [|o ops IH]; intros [|r rs]; cbn [ops_ok]; try (split; [discriminate|intros X; inversion X]).
    - split; [constructor|reflexivity].
    - rewrite andb_true_iff, op_ok_reflects, IH. split; [intros [A B]; constructor; assumption|intros X; inversion X; auto]. }
  rewrite Hops. apply and_iff_compat_l.
  unfold notfound_ok, NotFoundSpec. destruct (i_ops (c_in c)) as [|o ops]; [tauto|].
  destruct o; try tauto; destruct (ob_res (c_obs c)) as [|r rs]; try tauto; destruct r; try tauto;
    rewrite orb_true_iff, negb_true_iff, err_eqb_eq; destruct (first404 (blk_of (c_in c) blk)); split; auto;
    try (intros [X|X]; [discriminate|intros _; exact X]); intros _ X; discriminate.
Qed.
