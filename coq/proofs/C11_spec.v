(* C11 — the Prop-level specification [Spec], the proof that the boolean [gspec_b] used on the
   implementation's observations reflects it, and the proof that the model's own run satisfies it for
   every input (every digest function, oracle and schedule). *)
From Coq Require Import Arith NArith List Ascii String Bool Lia Permutation.
From AV Require Import lib.Str model.KC_discover model.C11_model model.C11_run proofs.KC_discover_proofs proofs.C11_proofs.
Import ListNotations.
Local Open Scope nat_scope.

(* ------------------------------------------------------------------ Prop-level specification *)
Definition Retryable (o : outcome) : Prop :=
  let c := o_code o in (c = 0 \/ c = 408 \/ c = 429 \/ (500 <= c /\ c <> 503))%N.

(* service x may be sent a request after the answers in [seen]: it has only given transient failures
   so far, and fewer than 1+retries of them *)
Definition MayContact (retries : nat) (seen : list step) (x : nat) : Prop :=
  Forall Retryable (hist x seen) /\ List.length (hist x seen) <= retries.

Definition RetryOk (retries : nat) (ss : list step) : Prop :=
  forall pre s post, ss = pre ++ s :: post -> forall x, In x (st_started s) -> MayContact retries pre x.

Definition LocOk (l : string) (ss : list step) : Prop :=
  (exists s, In s ss /\ is200 (st_out s) = true /\ o_body (st_out s) = l) \/
  ((forall s, In s ss -> is200 (st_out s) = false) /\ l = EmptyString).

Definition AllReturned (o : obs) : Prop :=
  forall x, count_nat x (contacted o) <= count_nat x (map st_done (ob_steps o)).

Definition Exhausted (i : gin) (ss : list step) : Prop :=
  forall x, In x (sv_of i) ->
    1 <= List.length (hist x ss) /\ (last_retryable x ss = true -> List.length (hist x ss) = S (g_retries i)).

Definition ReqOk (i : gin) (q : oreq) : Prop :=
  q_path q = exp_hash i /\ q_desired q = dec (N.of_nat (g_want i)) /\ q_clen q = exp_len i /\
  (exp_body_ok i = true -> q_body q = if (exp_len i =? 0)%N then EmptyString else g_data i).

Record Spec (i : gin) (o : obs) : Prop := {
  (* the call returns *)
  sp_returned : ob_returned o = true;
  (* only writable services are written to *)
  sp_writable : forall x, In x (contacted o) -> In x (writable_ids (g_svcs i));
  (* every request names the block's hash, announces its size, carries the data and the desired replica count;
     the answers are those the services give to such requests *)
  sp_reqs : forall q, In q (ob_reqs o) -> ReqOk i q;
  sp_answers : forall s, In s (ob_steps o) -> st_out s = exp_answer i (st_done s) (st_round s);
  (* retry policy: a service is asked again only after a transient failure, at most 1+Retries times *)
  sp_retry : RetryOk (g_retries i) (ob_steps o);
  sp_extra : forall x, In x (ob_extra o) -> MayContact (g_retries i) (ob_steps o) x;
  (* success only with enough confirmed replicas; the locator is the body of a counted 200 answer *)
  sp_ok : forall l n, ob_res o = Ok l n ->
          oversize i = false /\ g_want i <= n /\ n <= total_stored (ob_steps o) /\ LocOk l (ob_steps o);
  (* otherwise: the exact number stored, nothing in flight, everything that could be tried was tried, and
     fewer than [want] services accept the block on every attempt *)
  sp_err : forall l n, ob_res o = Insufficient l n ->
           oversize i = false /\ n < g_want i /\ n = total_stored (ob_steps o) /\ LocOk l (ob_steps o) /\
           AllReturned o /\ Exhausted i (ob_steps o) /\ n_accepting i < g_want i;
  sp_over : ob_res o = Oversize -> oversize i = true /\ contacted o = [] /\ ob_reqs o = []
}.

(* ------------------------------------------------------------------ reflection *)
Lemma retryable_iff o : retryable (o_code o) = true <-> Retryable o.
Proof.
  unfold retryable, Retryable. cbn zeta.
  rewrite !orb_true_iff, andb_true_iff, negb_true_iff, !N.eqb_eq, N.leb_le, N.eqb_neq. tauto.
Qed.

Lemma may_contact_iff r seen x : may_contact_b r seen x = true <-> MayContact r seen x.
Proof.
  unfold may_contact_b, MayContact. rewrite andb_true_iff, forallb_forall, Forall_forall, Nat.leb_le.
  split; intros [A B]; (split; [|exact B]); intros o Ho; apply retryable_iff; apply A; exact Ho.
Qed.

Lemma retry_ok_iff_gen r todo : forall seen,
  retry_ok_b r seen todo = true <->
  (forall pre s post, todo = pre ++ s :: post -> forall x, In x (st_started s) -> MayContact r (seen ++ pre) x).
Proof.
  induction todo as [|t todo IH]; intros seen; cbn [retry_ok_b].
  - split; [|reflexivity]. intros _ pre s post E. destruct pre; discriminate.
  - rewrite andb_true_iff, forallb_forall, IH. split.
    + intros [A B] pre s post E x Hx. destruct pre as [|p pre]; cbn [app] in E; injection E as <- ->.
      * rewrite app_nil_r. apply may_contact_iff. apply A. exact Hx.
      * specialize (B pre s post eq_refl x Hx). rewrite <- app_assoc in B. exact B.
    + intros Hall. split.
      * intros x Hx. apply may_contact_iff. specialize (Hall [] t todo eq_refl x Hx). rewrite app_nil_r in Hall. exact Hall.
      * intros pre s post -> x Hx. rewrite <- app_assoc. apply (Hall (t :: pre) s post eq_refl x Hx).
Qed.

Lemma retry_ok_iff r ss : retry_ok_b r [] ss = true <-> RetryOk r ss.
Proof. apply (retry_ok_iff_gen r ss []). Qed.

Lemma loc_ok_iff l ss : loc_ok_b l ss = true <-> LocOk l ss.
Proof.
  unfold loc_ok_b, LocOk, outs. destruct (existsb is200 (map st_out ss)) eqn:E.
  - rewrite existsb_exists. split.
    + intros (o & Ho & H). apply in_map_iff in Ho. destruct Ho as (s & <- & Hs). apply andb_true_iff in H.
      destruct H as [A B]. apply String.eqb_eq in B. left. exists s. auto.
    + intros [(s & Hs & A & B)|[Hn _]].
      * exists (st_out s). split; [apply in_map; exact Hs|]. rewrite A, B, String.eqb_refl. reflexivity.
      * apply existsb_exists in E. destruct E as (o & Ho & H). apply in_map_iff in Ho. destruct Ho as (s & <- & Hs).
        rewrite (Hn s Hs) in H. discriminate.
  - rewrite String.eqb_eq. split.
    + intros ->. right. split; [|reflexivity]. intros s Hs. destruct (is200 (st_out s)) eqn:E2; [|reflexivity].
      assert (existsb is200 (map st_out ss) = true) by (apply existsb_exists; exists (st_out s); split; [apply in_map; exact Hs|exact E2]).
      congruence.
    + intros [(s & Hs & A & _)|[_ B]]; [|exact B].
      assert (existsb is200 (map st_out ss) = true) by (apply existsb_exists; exists (st_out s); split; [apply in_map; exact Hs|exact A]).
      congruence.
Qed.

Lemma count_notin x l : ~ In x l -> count_nat x l = 0.
Proof.
  induction l as [|y l IH]; intros H; cbn [count_nat]; [reflexivity|].
  destruct (Nat.eqb_spec x y) as [E|E]; [exfalso; apply H; left; auto|]. rewrite IH; [reflexivity|]. intros Hin. apply H. right. exact Hin.
Qed.

Lemma all_returned_iff o : all_returned_b o = true <-> AllReturned o.
Proof.
  unfold all_returned_b, AllReturned. rewrite forallb_forall. split.
  - intros H x. destruct (in_dec Nat.eq_dec x (contacted o)) as [Hin|Hn].
    + apply Nat.leb_le. apply H. exact Hin.
    + rewrite (count_notin x _ Hn). lia.
  - intros H x _. apply Nat.leb_le. apply H.
Qed.

Lemma exhausted_iff i ss : exhausted_b i ss = true <-> Exhausted i ss.
Proof.
  unfold exhausted_b, Exhausted. rewrite forallb_forall. split; intros H x Hx; specialize (H x Hx).
  - apply andb_true_iff in H. destruct H as [A B]. apply Nat.leb_le in A. split; [exact A|].
    intros Hl. rewrite Hl in B. cbn in B. apply Nat.eqb_eq in B. exact B.
  - destruct H as [A B]. apply andb_true_iff. split; [apply Nat.leb_le; exact A|].
    destruct (last_retryable x ss); cbn; [apply Nat.eqb_eq; apply B; reflexivity|reflexivity].
Qed.

Lemma req_ok_iff i q : req_ok_b i q = true <-> ReqOk i q.
Proof.
  unfold req_ok_b, ReqOk. rewrite !andb_true_iff, !String.eqb_eq, N.eqb_eq, orb_true_iff, negb_true_iff, String.eqb_eq.
  destruct (exp_body_ok i); split.
  - intros [[[A B] C] [D|D]]; [discriminate|]. auto.
  - intros (A & B & C & D). auto.
  - intros [[[A B] C] _]. repeat split; auto. discriminate.
  - intros (A & B & C & _). auto.
Qed.

Lemma opt_nat_eqb_eq a b : opt_nat_eqb a b = true <-> a = b.
Proof.
  destruct a, b; cbn; try (split; [discriminate|intros; discriminate]); try tauto.
  rewrite Nat.eqb_eq. split; [intros ->; reflexivity|intros [= ->]; reflexivity].
Qed.

Lemma outcome_eqb_eq a b : outcome_eqb a b = true <-> a = b.
Proof.
  destruct a, b; cbn; try (split; [discriminate|intros; discriminate]); try tauto.
  rewrite !andb_true_iff, N.eqb_eq, opt_nat_eqb_eq, String.eqb_eq. split.
  - intros [[-> ->] ->]. reflexivity.
  - intros [= -> -> ->]. auto.
Qed.

Theorem gspec_b_reflects i o : gspec_b i o = true <-> Spec i o.
Proof.
  unfold gspec_b. rewrite !andb_true_iff. split.
  - intros [[[[[[Hret Hw] Hq] Ha] Hr] He] Hres]. constructor.
    + exact Hret.
    + intros x Hx. apply mem_In. rewrite forallb_forall in Hw. apply Hw. exact Hx.
    + intros q Hq'. apply req_ok_iff. rewrite forallb_forall in Hq. apply Hq. exact Hq'.
    + intros s Hs. apply outcome_eqb_eq. rewrite forallb_forall in Ha. apply Ha. exact Hs.
    + apply retry_ok_iff. exact Hr.
    + intros x Hx. apply may_contact_iff. rewrite forallb_forall in He. apply He. exact Hx.
    + intros l n E. rewrite E in Hres. rewrite !andb_true_iff, negb_true_iff, !Nat.leb_le, loc_ok_iff in Hres. tauto.
    + intros l n E. rewrite E in Hres.
      rewrite !andb_true_iff, negb_true_iff, !Nat.ltb_lt, Nat.eqb_eq, loc_ok_iff, all_returned_iff, exhausted_iff in Hres. tauto.
    + intros E. rewrite E in Hres. rewrite !andb_true_iff in Hres. destruct Hres as [[A B] C].
      split; [exact A|]. split; [destruct (contacted o); [reflexivity|discriminate]|destruct (ob_reqs o); [reflexivity|discriminate]].
  - intros S. destruct S as [Hret Hw Hq Ha Hr He Hok Herr Hov]. repeat split.
    + exact Hret.
    + apply forallb_forall. intros x Hx. apply mem_In. apply Hw. exact Hx.
    + apply forallb_forall. intros q Hq'. apply req_ok_iff. apply Hq. exact Hq'.
    + apply forallb_forall. intros s Hs. apply outcome_eqb_eq. apply Ha. exact Hs.
    + apply retry_ok_iff. exact Hr.
    + apply forallb_forall. intros x Hx. apply may_contact_iff. apply He. exact Hx.
    + destruct (ob_res o) as [l n|l n|] eqn:E.
      * specialize (Hok l n eq_refl). rewrite !andb_true_iff, negb_true_iff, !Nat.leb_le, loc_ok_iff. tauto.
      * specialize (Herr l n eq_refl).
        rewrite !andb_true_iff, negb_true_iff, !Nat.ltb_lt, Nat.eqb_eq, loc_ok_iff, all_returned_iff, exhausted_iff. tauto.
      * specialize (Hov eq_refl). destruct Hov as (A & B & C). rewrite A, B, C. reflexivity.
Qed.

(* the whole judgement of a case: the Put specification, and the discovery specification of the list in force
   (proofs/KC_discover_proofs.v: RootsSpec) for the root maps read back from the client *)
Definition DiscSpec (i : cin) (o : obs) : Prop :=
  NoDup (map d_uuid (current_list (i_lists i))) ->
  RootsSpec (current_list (i_lists i)) (ob_local o) (ob_writable o) (ob_gateway o).

Corollary spec_b_reflects c : spec_b c = true <-> Spec (gin_of (c_in c)) (c_obs c) /\ DiscSpec (c_in c) (c_obs c).
Proof.
  unfold spec_b, disc_spec_b, DiscSpec. rewrite andb_true_iff, gspec_b_reflects, roots_spec_b_reflects. reflexivity.
Qed.

(* ------------------------------------------------------------------ the model meets the specification *)
(* what the model's run looks like to an observer: one request per started upload *)
Definition req_of (i : gin) (x : nat) : oreq :=
  {| q_svc := x; q_path := exp_hash i; q_desired := dec (N.of_nat (g_want i)); q_clen := exp_len i;
     q_body := if (exp_len i =? 0)%N then EmptyString else g_data i |}.
Definition obs_of_run (i : gin) (r : run) : obs :=
  {| ob_steps := r_steps r; ob_extra := []; ob_res := r_res r;
     ob_reqs := map (req_of i) (flat_map st_started (r_steps r)); ob_returned := true; ob_sync := true;
     (* the root maps are judged by DiscSpec, not by Spec *)
     ob_local := []; ob_writable := []; ob_gateway := [] |}.

Lemma sv_of_nodup i : NoDup (g_order i) -> NoDup (sv_of i).
Proof. intros H. unfold sv_of, put_order. apply NoDup_filter. exact H. Qed.

Lemma sv_of_writable i x : In x (sv_of i) -> In x (writable_ids (g_svcs i)).
Proof. unfold sv_of, put_order. rewrite filter_In. intros [_ H]. apply mem_In. exact H. Qed.

Lemma filter_length_le_sum {A} (p : A -> bool) (f : A -> nat) l :
  (forall x, p x = true -> 1 <= f x) -> List.length (filter p l) <= list_sum (map f l).
Proof.
  intros H. induction l as [|a l IH]; cbn [filter map list_sum List.length]; [lia|].
  change (list_sum (f a :: map f l)) with (f a + list_sum (map f l)).
  destruct (p a) eqn:E; cbn [List.length]; [specialize (H a E)|]; lia.
Qed.

Lemma accepting_le_gain i :
  n_accepting i <= gain (exp_answer i) 0 (sv_of i).
Proof.
  unfold n_accepting, gain. apply filter_length_le_sum. intros x Hx.
  unfold accepts_always in Hx. rewrite forallb_forall in Hx. specialize (Hx 0).
  assert (H0 : In 0 (seq 0 (S (g_retries i)))) by (apply in_seq; lia).
  specialize (Hx H0). unfold accept in Hx. apply andb_true_iff in Hx. destruct Hx as [A B].
  unfold stored_of. rewrite A. apply Nat.leb_le. exact B.
Qed.

Lemma run_g_unfold i :
  oversize i = false ->
  run_g i = outer (rpt_of (replicas_per_service (g_svcs i)) (g_want i)) (exp_answer i) (g_pick i)
                  (S (g_retries i)) 0 (sv_of i) 0 (g_want i) EmptyString 0 [].
Proof.
  unfold oversize, run_g, put, exp_answer, exp_hash, exp_len, sv_of, put_replicas, put_replicas_with.
  destruct (g_entry i); intros H; [reflexivity|reflexivity|]. rewrite H. reflexivity.
Qed.

Lemma run_g_post i :
  NoDup (g_order i) -> oversize i = false ->
  Post (exp_answer i) (g_want i) (g_retries i) (sv_of i) (run_g i).
Proof.
  intros Hnd Hov. rewrite (run_g_unfold i Hov).
  apply outer_post; [apply rinv_init; [apply sv_of_nodup; exact Hnd|reflexivity]|lia|lia].
Qed.

Theorem model_meets_spec i : NoDup (g_order i) -> Spec i (obs_of_run i (run_g i)).
Proof.
  intros Hnd. destruct (oversize i) eqn:Hov.
  - (* PutHR with dataBytes > BLOCKSIZE *)
    assert (E : run_g i = {| r_res := Oversize; r_steps := []; r_abandoned := [] |}).
    { unfold oversize in Hov. unfold run_g, put. destruct (g_entry i); try discriminate. rewrite Hov. reflexivity. }
    rewrite E. constructor; unfold obs_of_run, contacted; cbn; try reflexivity; try (intros; contradiction); try discriminate.
    + intros pre s post Hx. destruct pre; discriminate.
    + intros _. auto.
  - pose proof (run_g_post i Hnd Hov) as P. destruct P as [Pst Prt Pat Pfl Pab Pok Perr Pno].
    assert (Hstarted : forall x, In x (flat_map st_started (r_steps (run_g i))) -> In x (sv_of i)).
    { intros x Hx. apply in_flat_map in Hx. destruct Hx as (s & Hs & Hx). rewrite Forall_forall in Pst.
      destruct (Pst s Hs) as (_ & _ & Hinc). apply Hinc. exact Hx. }
    constructor; unfold obs_of_run, contacted; cbn [ob_steps ob_extra ob_res ob_reqs ob_returned].
    + reflexivity.
    + intros x Hx. rewrite app_nil_r in Hx. apply sv_of_writable. apply Hstarted. exact Hx.
    + intros q Hq. apply in_map_iff in Hq. destruct Hq as (x & <- & _). unfold ReqOk, req_of. cbn. auto.
    + intros s Hs. rewrite Forall_forall in Pst. destruct (Pst s Hs) as (A & _). exact A.
    + apply retry_ok_iff. exact Prt.
    + intros x [].
    + intros l n E. destruct (Pok l n E) as (A & B & C). split; [exact Hov|]. split; [exact A|]. split; [lia|].
      apply loc_ok_iff. rewrite C. apply loc_ok_last200.
    + intros l n E. destruct (Perr l n E) as (A & B & C & D & F).
      split; [exact Hov|]. split; [exact A|]. split; [exact B|]. split; [apply loc_ok_iff; rewrite C; apply loc_ok_last200|].
      split; [|split].
      * intros x. unfold contacted. cbn [ob_steps ob_extra]. rewrite app_nil_r. rewrite D, app_nil_r in Pfl.
        rewrite (count_perm x _ _ Pfl). lia.
      * exact F.
      * destruct (Nat.lt_ge_cases (n_accepting i) (g_want i)) as [Hlt|Hge]; [exact Hlt|exfalso].
        pose proof (accepting_le_gain i) as Hg.
        destruct (first_round_enough (rpt_of (replicas_per_service (g_svcs i)) (g_want i)) (exp_answer i) (g_pick i)
                                     (g_want i) (g_retries i) (sv_of i) (sv_of i) (sv_of_nodup i Hnd) eq_refl ltac:(lia)) as (l' & n' & E').
        rewrite <- (run_g_unfold i Hov) in E'. congruence.
    + intros E. contradiction.
Qed.

(* ------------------------------------------------------------------ corollaries in the terms of DESIGN §5-C11 *)
Lemma load_from_spec l : forall i0 listed i s,
  In (i, s) (load_from i0 listed l) -> i0 <= i /\ nth_error l (i - i0) = Some s.
Proof.
  induction l as [|a l IH]; intros i0 listed i s H; cbn [load_from] in H; [destruct H|].
  destruct (existsb (String.eqb (svc_url a)) listed).
  - destruct (IH _ _ _ _ H) as [A B]. split; [lia|]. replace (i - i0) with (S (i - S i0)) by lia. exact B.
  - destruct H as [H|H].
    + injection H as <- <-. split; [lia|]. rewrite Nat.sub_diag. reflexivity.
    + destruct (IH _ _ _ _ H) as [A B]. split; [lia|]. replace (i - i0) with (S (i - S i0)) by lia. exact B.
Qed.

(* a writable id denotes a list item that is not read-only *)
Lemma writable_ids_spec l x : In x (writable_ids l) -> exists s, nth_error l x = Some s /\ k_ro s = false.
Proof.
  unfold writable_ids. rewrite in_map_iff. intros ([i s] & <- & H). apply filter_In in H. destruct H as [H R].
  cbn [fst snd] in *. apply load_from_spec in H. destruct H as [_ H]. rewrite Nat.sub_0_r in H.
  exists s. split; [exact H|]. apply negb_true_iff. exact R.
Qed.

Lemma only_writable i : NoDup (g_order i) ->
  forall s x, In s (r_steps (run_g i)) -> In x (st_started s) ->
  exists k, nth_error (g_svcs i) x = Some k /\ k_ro k = false.
Proof.
  intros Hnd s x Hs Hx. apply writable_ids_spec.
  apply (sp_writable _ _ (model_meets_spec i Hnd)). unfold contacted, obs_of_run. cbn. rewrite app_nil_r.
  apply in_flat_map. exists s. auto.
Qed.

(* a counted answer carries the locator the service issued for exactly the block's hash and size *)
Lemma counted_answer_locator i x r :
  is200 (exp_answer i x r) = true ->
  exists h sfx, g_oracle i x r = Resp 200 h sfx /\ exp_body_ok i = true /\
                o_body (exp_answer i x r) = trim_space (exp_hash i ++ "+" ++ dec (exp_len i) ++ sfx)%string.
Proof.
  unfold exp_answer, eff_answer, exp_body_ok. destruct (body_ok _ _ _ _ _); [|discriminate].
  destruct (g_oracle i x r) as [c h sfx|]; [|discriminate]. unfold is200, issue, o_code, o_body. intros E.
  apply N.eqb_eq in E. rewrite E. exists h, sfx. auto.
Qed.

Lemma put_ok_enough i l n : NoDup (g_order i) -> r_res (run_g i) = Ok l n ->
  g_want i <= n /\ n = total_stored (r_steps (run_g i)) /\ LocOk l (r_steps (run_g i)) /\
  (forall s, In s (r_steps (run_g i)) -> st_out s = exp_answer i (st_done s) (st_round s)).
Proof.
  intros Hnd E. destruct (oversize i) eqn:Hov.
  - exfalso. pose proof (sp_over _ _ (model_meets_spec i Hnd)) as H. pose proof (sp_ok _ _ (model_meets_spec i Hnd) l n E) as H2.
    destruct H2 as [H2 _]. congruence.
  - destruct (run_g_post i Hnd Hov) as [Pst _ _ _ _ Pok _ _]. destruct (Pok l n E) as (A & B & C).
    split; [exact A|]. split; [exact B|]. split; [apply loc_ok_iff; rewrite C; apply loc_ok_last200|].
    intros s Hs. rewrite Forall_forall in Pst. apply (Pst s Hs).
Qed.

Lemma put_err_reports_count i l n : NoDup (g_order i) -> r_res (run_g i) = Insufficient l n ->
  n < g_want i /\ n = total_stored (r_steps (run_g i)) /\ r_abandoned (run_g i) = [] /\
  Exhausted i (r_steps (run_g i)) /\ n_accepting i < g_want i.
Proof.
  intros Hnd E. pose proof (sp_err _ _ (model_meets_spec i Hnd) l n E) as (Hov & A & B & _ & _ & F & G).
  destruct (run_g_post i Hnd Hov) as [_ _ _ _ _ _ Perr _]. destruct (Perr l n E) as (_ & _ & _ & D & _).
  auto.
Qed.

Lemma put_succeeds_if_enough_accept i : NoDup (g_order i) -> oversize i = false ->
  g_want i <= n_accepting i -> exists l n, r_res (run_g i) = Ok l n.
Proof.
  intros Hnd Hov Hacc. destruct (r_res (run_g i)) as [l n|l n|] eqn:E.
  - eauto.
  - pose proof (put_err_reports_count i l n Hnd E). lia.
  - exfalso. destruct (run_g_post i Hnd Hov) as [_ _ _ _ _ _ _ Pno]. contradiction.
Qed.

(* the stronger form proved in the design prototype: enough replicas offered in the first round *)
Lemma put_succeeds_if_first_round_enough i : NoDup (g_order i) -> oversize i = false ->
  g_want i <= gain (exp_answer i) 0 (sv_of i) -> exists l n, r_res (run_g i) = Ok l n.
Proof.
  intros Hnd Hov Hg. rewrite (run_g_unfold i Hov).
  apply (first_round_enough _ _ _ _ _ (sv_of i) (sv_of i) (sv_of_nodup i Hnd) eq_refl Hg).
Qed.

Lemma oversize_iff i : NoDup (g_order i) -> (r_res (run_g i) = Oversize <-> (g_entry i = EPutHR /\ (BLOCKSIZE < g_nbytes i)%N)).
Proof.
  intros Hnd. split.
  - intros E. destruct (sp_over _ _ (model_meets_spec i Hnd) E) as [A _]. unfold oversize in A.
    destruct (g_entry i); try discriminate. split; [reflexivity|apply N.ltb_lt; exact A].
  - intros [A B]. unfold run_g, put. rewrite A. apply N.ltb_lt in B. rewrite B. reflexivity.
Qed.

(* ------------------------------------------------------------------ termination of one round *)
Definition exited (s : st) : Prop := todo s = 0 \/ (active s = [] /\ List.length (sv s) <= next s).

Section Term.
Variable rpt : nat.
Variable answer : nat -> nat -> outcome.
Variable pick : nat -> nat.

Lemma inner_exits fuel round : forall s k, mu s < fuel -> exited (fst (inner rpt answer pick fuel round s k)).
Proof.
  induction fuel as [|f IH]; intros s k Hmu; [lia|]. cbn [inner].
  destruct (todo s =? 0) eqn:E0; [left; apply Nat.eqb_eq; exact E0|].
  destruct ((List.length (active s) * rpt <? todo s) && (next s <? List.length (sv s))) eqn:E1.
  - apply andb_true_iff in E1. destruct E1 as [_ E1]. apply Nat.ltb_lt in E1. apply IH.
    unfold mu, start in *. cbn [sv next active]. rewrite app_length. cbn [List.length]. lia.
  - destruct (active s) as [|a0 ar] eqn:Ea.
    + right. cbn [fst]. split; [exact Ea|]. apply andb_false_iff in E1. destruct E1 as [E1|E1].
      * apply Nat.ltb_ge in E1. cbn [List.length] in E1. apply Nat.eqb_neq in E0. lia.
      * apply Nat.ltb_ge in E1. exact E1.
    + rewrite <- Ea. apply IH.
      assert (Hi : pick k mod List.length (active s) < List.length (active s)).
      { apply Nat.mod_upper_bound. rewrite Ea. discriminate. }
      unfold mu, C11_model.complete in *. cbn [sv next active]. rewrite remove_nth_length by exact Hi. lia.
Qed.

Lemma inner_exited_stable e round s k : exited s -> inner rpt answer pick e round s k = (s, k).
Proof.
  intros H. destruct e as [|e]; [reflexivity|]. cbn [inner]. destruct H as [H|[Ha Hn]].
  - rewrite H. reflexivity.
  - destruct (todo s =? 0); [reflexivity|]. apply Nat.ltb_ge in Hn. rewrite Hn, andb_false_r, Ha. reflexivity.
Qed.

(* once the loop has exited, more fuel changes nothing *)
Lemma inner_fuel_irrelevant fuel round : forall s k e,
  exited (fst (inner rpt answer pick fuel round s k)) ->
  inner rpt answer pick (fuel + e) round s k = inner rpt answer pick fuel round s k.
Proof.
  induction fuel as [|f IH]; intros s k e H.
  - cbn [inner fst] in *. apply inner_exited_stable. exact H.
  - cbn [inner Nat.add] in *. destruct (todo s =? 0); [reflexivity|].
    destruct ((List.length (active s) * rpt <? todo s) && (next s <? List.length (sv s))); [apply IH; exact H|].
    destruct (active s) eqn:Ea; [reflexivity|]. rewrite <- Ea in *. apply IH. exact H.
Qed.

Lemma round_terminates round servers dn td lc tr k :
  exited (fst (inner rpt answer pick (round_fuel servers) round (s_init servers dn td lc tr) k)) /\
  forall e, inner rpt answer pick (round_fuel servers + e) round (s_init servers dn td lc tr) k =
            inner rpt answer pick (round_fuel servers) round (s_init servers dn td lc tr) k.
Proof.
  assert (H : exited (fst (inner rpt answer pick (round_fuel servers) round (s_init servers dn td lc tr) k))).
  { apply inner_exits. apply init_fuel. }
  split; [exact H|]. intros e. apply inner_fuel_irrelevant. exact H.
Qed.
End Term.

(* the number of requests is bounded: at most 1+Retries per writable service *)
Lemma oversize_rejected i : NoDup (g_order i) ->
  (r_res (run_g i) = Oversize <-> (g_entry i = EPutHR /\ (BLOCKSIZE < g_nbytes i)%N)) /\
  (r_res (run_g i) = Oversize -> r_steps (run_g i) = []).
Proof.
  intros Hnd. split; [apply oversize_iff; exact Hnd|]. intros E. apply (oversize_iff i Hnd) in E. destruct E as [A B].
  unfold run_g, put. rewrite A. apply N.ltb_lt in B. rewrite B. reflexivity.
Qed.

Definition example_in : cin :=
  {| i_lists := [[D "u0" "k0" 25107 false "disk" true]; (* an earlier list: forgotten *)
                 [D "u0" "k0" 25107 false "disk" false; D "u1" "k1" 25107 false "disk" false; D "u2" "k2" 25107 false "disk" true]];
     i_order := [2; 1; 0]; i_want := 2; i_retries := 1; i_entry := EPutHB; i_hash := "h"; i_data := "abc"; i_nbytes := 3;
     i_md5 := "h";
     i_table := [[Resp 200 None "+A0"; Resp 200 None "+A0"]; [Resp 200 (Some 1) "+A1"; Resp 200 (Some 1) "+A1"]; []];
     i_picks := [] |}.

Lemma example_put :
  exists i, NoDup (g_order i) /\ oversize i = false /\ g_want i = 2 /\ 2 <= n_accepting i /\
            r_res (run_g i) = Ok "h+3+A0"%string 2.
Proof.
  exists (gin_of example_in). split.
  - cbn. repeat constructor; cbn; intuition discriminate.
  - vm_compute. repeat split; auto.
Qed.

(* the round recorded in a step is the attempt number of its service: the number of answers the service had
   given before that step *)
Lemma att_ok_iff_gen todo : forall seen,
  att_ok_b seen todo = true <->
  (forall pre s post, todo = pre ++ s :: post -> st_round s = List.length (hist (st_done s) (seen ++ pre))).
Proof.
  induction todo as [|t todo IH]; intros seen; cbn [att_ok_b].
  - split; [|reflexivity]. intros _ pre s post E. destruct pre; discriminate.
  - rewrite andb_true_iff, Nat.eqb_eq, IH. split.
    + intros [A B] pre s post E. destruct pre as [|p pre]; cbn [app] in E; injection E as <- ->.
      * rewrite app_nil_r. exact A.
      * specialize (B pre s post eq_refl). rewrite <- app_assoc in B. exact B.
    + intros Hall. split.
      * specialize (Hall [] t todo eq_refl). rewrite app_nil_r in Hall. exact Hall.
      * intros pre s post ->. rewrite <- app_assoc. apply (Hall (t :: pre) s post eq_refl).
Qed.

Lemma round_is_attempt i : NoDup (g_order i) ->
  forall pre s post, r_steps (run_g i) = pre ++ s :: post -> st_round s = List.length (hist (st_done s) pre).
Proof.
  intros Hnd pre s post E. destruct (oversize i) eqn:Hov.
  - exfalso. assert (E2 : run_g i = {| r_res := Oversize; r_steps := []; r_abandoned := [] |}).
    { unfold oversize in Hov. unfold run_g, put. destruct (g_entry i); try discriminate. rewrite Hov. reflexivity. }
    rewrite E2 in E. destruct pre; discriminate.
  - pose proof (po_att _ _ _ _ _ (run_g_post i Hnd Hov)) as A.
    apply (proj1 (att_ok_iff_gen _ [])) with (pre := pre) (s := s) (post := post) in A; [exact A|exact E].
Qed.
