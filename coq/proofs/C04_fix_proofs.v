(* C04 — with the repair of fixes/F20.diff, fresh_survives holds for ALL histories (Untrash included). *)
From Coq Require Import ZArith NArith List String Bool Lia.
From AV Require Import lib.Str model.C04_model model.C04_run model.C04_fixes proofs.C04_proofs.
Import ListNotations.
Local Open Scope Z_scope.

Section FreshFixed.
Variable c : cfg.
Variable h : string.
Variable t : Z.

Lemma keeps_untrash_fixed v h' : keeps h t v (snd (vol_untrash_fixed v h')).
Proof.
  intros (m & A & B). unfold vol_untrash_fixed. destruct (v_ro v); [exists m; auto|].
  destruct (first_trash (v_trash v) h' None) as [t0|]; [|exists m; auto].
  destruct (has_block v h') eqn:Eb; [exists m; auto|].
  destruct (String.eqb_spec h' h) as [->|Ne].
  - unfold has_block in Eb. rewrite A in Eb. discriminate.
  - apply keeps_untrash; [exact Ne|exists m; auto].
Qed.

Lemma untrash_all_fixed_keeps vs h' : Forall2 (keeps h t) vs (snd (untrash_all_fixed vs h')).
Proof.
  induction vs as [|v r IH]; cbn [untrash_all_fixed]; [constructor|].
  destruct (untrash_all_fixed r h') as [n r'] eqn:E'. cbn [snd] in IH.
  destruct (v_ro v); cbn [snd]; [constructor; [apply keeps_refl|exact IH]|].
  pose proof (keeps_untrash_fixed v h') as K. destruct (vol_untrash_fixed v h') as [[| |] v']; cbn [snd] in *; constructor; assumption.
Qed.

Lemma step_fixed_keeps s now o : t <= now -> now < t + ttl c ->
  Forall2 (keeps h t) (vols s) (vols (snd (step_fixed c s now o))).
Proof.
  intros H1 H2. destruct o as [h'|h'|h'|its|h'|h'|]; cbn [step_fixed];
    try (apply step_keeps; [exact H1|exact H2|discriminate]).
  unfold h_untrash_fixed. destruct (writable (vols s)); [apply Forall2_keeps_refl|].
  pose proof (untrash_all_fixed_keeps (vols s) h') as K.
  destruct (untrash_all_fixed (vols s) h') as [n vs']. cbn [snd vols] in *. exact K.
Qed.

Lemma final_fixed_keeps hs : Forall (fun p => t <= fst p /\ fst p < t + ttl c) hs ->
  forall s, Fresh h t (vols s) -> Fresh h t (vols (final_fixed c s hs)).
Proof.
  induction hs as [|[now o] r IH]; intros HF s HS; cbn [final_fixed]; [exact HS|].
  inversion HF as [|x l [A B] HF']; subst. cbn [fst] in *.
  apply IH; [exact HF'|]. eapply Forall2_keeps; [apply step_fixed_keeps; assumption|exact HS].
Qed.
End FreshFixed.

(* with the repair: every history, Untrash of the same hash included *)
Theorem fresh_survives_fixed c s t o h code s1 hs :
  (o = Put h \/ o = Touch h) -> step_fixed c s t o = (code, s1) -> code = 200%N ->
  Forall (fun p => t <= fst p /\ fst p < t + ttl c) hs ->
  exists v m, In v (vols (final_fixed c s1 hs)) /\ find_block (v_blocks v) h = Some m /\ t <= m.
Proof.
  intros Ho Hs Hc HF.
  assert (Hs' : step c s t o = (code, s1)) by (destruct Ho as [-> | ->]; exact Hs).
  assert (X : Fresh h t (vols (final_fixed c s1 hs))).
  { apply final_fixed_keeps; [exact HF|]. eapply ack_establishes; eassumption. }
  apply Exists_exists in X. destruct X as (v & A & m & B & D). eauto.
Qed.
