(* C20 — the entry points Conn.<Type>List (model/C20_entry.v): which requests reach the splitter, what the
   forwarded UserList does, and the clause "every requested object is asked for at its home cluster". *)
From Coq Require Import NArith ZArith List Ascii String Bool Lia Permutation.
From AV Require Import lib.Str lib.SortPerm model.C20_model model.C20_entry model.C20_run
  proofs.C20_proofs proofs.C20_plan proofs.C20_main.
Import ListNotations.
Local Open Scope string_scope.

(* ---------- the guard of UserList ---------- *)
Theorem forwards_iff ec k o :
  forwards ec k o = true <->
  k = KUser /\ ec_login ec <> "" /\ ec_login ec <> cf_local (ec_cfg ec) /\ o_bypass o = false.
Proof.
  unfold forwards. rewrite !andb_true_iff, !negb_true_iff. split.
  - intros [[[K L1] L2] B]. split; [destruct k; try discriminate; reflexivity|].
    split; [intro E; rewrite E in L1; discriminate|]. split; [|exact B].
    intro E. rewrite E, String.eqb_refl in L2. discriminate.
  - intros (-> & L1 & L2 & B). split; [split; [split; [reflexivity|]|]|exact B].
    + destruct (String.eqb_spec (ec_login ec) ""); [contradiction|reflexivity].
    + destruct (String.eqb_spec (ec_login ec) (cf_local (ec_cfg ec))); [contradiction|reflexivity].
Qed.

Definition UsesSplitter (ec : econfig) (k : kind) (o : opts) : Prop :=
  k <> KUser \/ ec_login ec = "" \/ ec_login ec = cf_local (ec_cfg ec) \/ o_bypass o = true.

Lemma uses_splitter_forwards ec k o : UsesSplitter ec k o -> forwards ec k o = false.
Proof.
  intros H. destruct (forwards ec k o) eqn:E; [|reflexivity]. exfalso.
  apply forwards_iff in E. destruct E as (K & L1 & L2 & B).
  destruct H as [H|[H|[H|H]]]; [contradiction|contradiction|contradiction|congruence].
Qed.

(* every entry point other than "UserList on a cluster that delegates logins to another cluster" is the
   generic splitter: same requests to every backend, same error, same items, nothing cached *)
Theorem entry_uses_splitter ec page ok k o : UsesSplitter ec k o ->
  erun ec page k o = EGeneric (run (ec_cfg ec) page o) /\
  e_errs ec ok (erun ec page k o) = errs (run (ec_cfg ec) page o) /\
  (forall b, e_calls_to ec o (erun ec page k o) b = calls_to (ec_cfg ec) o (run (ec_cfg ec) page o) b) /\
  e_items ec (erun ec page k o) = merged (ec_cfg ec) (run (ec_cfg ec) page o) /\
  e_updates ec (erun ec page k o) = [].
Proof.
  intros H. unfold erun. rewrite (uses_splitter_forwards ec k o H). cbn. auto.
Qed.

(* chooseBackend always yields a configured backend *)
Lemma choose_backend_configured cfg id : has_backend cfg (choose_backend cfg id) = true.
Proof.
  assert (L : has_backend cfg (cf_local cfg) = true) by (unfold has_backend; rewrite String.eqb_refl; reflexivity).
  unfold choose_backend.
  destruct (if Nat.eqb (String.length id) 27 then Some (take 5 id) else if Nat.eqb (String.length id) 5 then Some id else None) as [i|];
    [|exact L].
  destruct (i =? cf_local cfg); [exact L|]. destruct (mem i (cf_remotes cfg)) eqn:M; [|exact L].
  unfold has_backend. rewrite M. apply orb_true_r.
Qed.
Lemma choose_backend_remote cfg id : String.length id = 5 -> id <> cf_local cfg -> mem id (cf_remotes cfg) = true ->
  choose_backend cfg id = id.
Proof.
  intros L N M. unfold choose_backend. rewrite L. cbn [Nat.eqb].
  destruct (String.eqb_spec id (cf_local cfg)); [contradiction|]. rewrite M. reflexivity.
Qed.

(* the forwarded UserList: exactly one list request, to the login cluster's backend (a configured one),
   carrying the caller's options unchanged; the answer is returned as it is *)
Theorem entry_forwarded ec page ok o : forwards ec KUser o = true ->
  let b := choose_backend (ec_cfg ec) (ec_login ec) in
  has_backend (ec_cfg ec) b = true /\
  (forall b', e_calls_to ec o (erun ec page KUser o) b' = if b' =? b then [o] else []) /\
  (forall code, page b 0 [] = AErr code -> e_errs ec ok (erun ec page KUser o) = [code]) /\
  (forall its, page b 0 [] = AItems its -> e_items ec (erun ec page KUser o) = map (fun i => (b, i)) its).
Proof.
  intros F b. split; [apply choose_backend_configured|]. unfold erun. rewrite F. fold b. cbn [e_calls_to e_errs e_items].
  split; [reflexivity|]. split.
  - intros code ->. reflexivity.
  - intros its ->. reflexivity.
Qed.

(* ---------- every requested object is asked for at its home cluster ---------- *)
Lemma loop_first page c todo n tr st : loop page c todo n tr st -> todo <> [] ->
  exists a tr', tr = (todo, a) :: tr'.
Proof.
  intros L Hne. destruct L as [n|todo n code Hn Hp|todo n Hn Hp|todo n its Hn Hp Hi Hpr|todo n its tr st Hn Hp Hi Hpr Hl].
  - contradiction.
  - eexists; eexists; reflexivity.
  - eexists; eexists; reflexivity.
  - eexists; eexists; reflexivity.
  - eexists; eexists; reflexivity.
Qed.

Lemma batch_of_remote_opts cfg o batch : batch_of (remote_opts cfg o batch) = batch.
Proof. reflexivity. Qed.

Theorem asked_home cfg page o u :
  federated o = true -> all_well_typed o = true -> remote_involved cfg o = true -> unsafe cfg o = false ->
  is_target o u = true -> has_backend cfg (prefix u) = true ->
  exists rq, In rq (calls_to cfg o (run cfg page o) (prefix u)) /\ In u (batch_of rq).
Proof.
  intros F W R U Hu Hb. destruct (plan_split cfg o F W R U) as (t & Hnd & Ht & Hp). rewrite (run_split cfg page o t Hp).
  assert (Hc : In (prefix u) (clusters t)) by (apply clusters_In; exists u; split; [apply Ht; exact Hu|reflexivity]).
  assert (Htd : In u (todo_of (prefix u) t)) by (apply todo_of_In; split; [apply Ht; exact Hu|reflexivity]).
  assert (Hne : todo_of (prefix u) t <> []) by (intro E; rewrite E in Htd; destruct Htd).
  destruct (loop_first page _ _ _ _ _ (crun_loop cfg page (prefix u) (todo_of (prefix u) t) Hb) Hne) as (a & tr' & Etr).
  exists (remote_opts cfg o (todo_of (prefix u) t)). split; [|rewrite batch_of_remote_opts; exact Htd].
  cbn [calls_to]. apply in_flat_map. exists (prefix u, crun cfg page (prefix u) (todo_of (prefix u) t)). split.
  - unfold split_runs. apply in_map_iff. exists (prefix u). split; [reflexivity|exact Hc].
  - cbn [fst snd]. rewrite String.eqb_refl. apply in_map_iff. exists (todo_of (prefix u) t, a). split; [reflexivity|].
    match goal with |- In _ ?l => replace l with ((todo_of (prefix u) t, a) :: tr') by (symmetry; exact Etr) end.
    left. reflexivity.
Qed.

(* the boolean clause of the evaluator means what it should ... *)
Theorem asked_home_b_iff cfg tg calls :
  asked_home_b cfg tg calls = true <->
  (forall u, In u tg -> has_backend cfg (prefix u) = true -> exists rq, In rq (calls (prefix u)) /\ In u (batch_of rq)).
Proof.
  unfold asked_home_b. rewrite forallb_forall. split.
  - intros H u Hu Hb. specialize (H u Hu). rewrite Hb in H. cbn [negb orb] in H.
    apply existsb_exists in H. destruct H as (rq & Hrq & M). exists rq. split; [exact Hrq|apply mem_In; exact M].
  - intros H u Hu. destruct (has_backend cfg (prefix u)) eqn:Hb; [|reflexivity]. cbn [negb orb].
    destruct (H u Hu Hb) as (rq & Hrq & M). apply existsb_exists. exists rq. split; [exact Hrq|apply mem_In; exact M].
Qed.
(* ... and the model passes it *)
Theorem model_asked_home cfg page o :
  federated o = true -> all_well_typed o = true -> remote_involved cfg o = true -> unsafe cfg o = false ->
  asked_home_b cfg (spec_targets o) (calls_to cfg o (run cfg page o)) = true.
Proof.
  intros F W R U. apply asked_home_b_iff. intros u Hu Hb. apply spec_targets_In in Hu.
  apply (asked_home cfg page o u F W R U Hu Hb).
Qed.

(* ---------- the same at the entry points, for every resource type and every LoginCluster setting that
   leaves the request to the splitter (in particular: users on a cluster that is its own LoginCluster) ---------- *)
Theorem entry_asked_home ec page k o u : UsesSplitter ec k o ->
  federated o = true -> all_well_typed o = true -> remote_involved (ec_cfg ec) o = true -> unsafe (ec_cfg ec) o = false ->
  is_target o u = true -> has_backend (ec_cfg ec) (prefix u) = true ->
  exists rq, In rq (e_calls_to ec o (erun ec page k o) (prefix u)) /\ In u (batch_of rq).
Proof.
  intros S F W R U Hu Hb. destruct (entry_uses_splitter ec page true k o S) as (_ & _ & C & _). rewrite C.
  apply (asked_home (ec_cfg ec) page o u F W R U Hu Hb).
Qed.
Theorem entry_unknown_cluster_fails ec page ok k o u : UsesSplitter ec k o ->
  federated o = true -> all_well_typed o = true -> unsafe (ec_cfg ec) o = false ->
  is_target o u = true -> has_backend (ec_cfg ec) (prefix u) = false ->
  In 404%N (e_errs ec ok (erun ec page k o)) /\ e_calls_to ec o (erun ec page k o) (prefix u) = [].
Proof.
  intros S F W U Hu Hb. destruct (entry_uses_splitter ec page ok k o S) as (_ & E & C & _). rewrite E, C.
  apply (unknown_cluster_fails (ec_cfg ec) page o u F W U Hu Hb).
Qed.
Theorem entry_rejects_before_any_call ec page ok k o : UsesSplitter ec k o ->
  federated o = true -> all_well_typed o = true -> remote_involved (ec_cfg ec) o = true -> unsafe (ec_cfg ec) o = true ->
  e_errs ec ok (erun ec page k o) = [400%N] /\ forall b, e_calls_to ec o (erun ec page k o) b = [].
Proof.
  intros S F W R U. destruct (entry_uses_splitter ec page ok k o S) as (_ & E & C & _). rewrite E. split.
  - apply (rejects_before_any_call (ec_cfg ec) page o F W R U).
  - intros b. rewrite C. apply (rejects_before_any_call (ec_cfg ec) page o F W R U).
Qed.

(* ---------- the call returns: no cluster loop of the model ever runs out of its |todo|+1 units of fuel, so
   every outcome of the model is a list or an error (the evaluator judges a call that does not return as a
   violation and as unexplained by the model) ---------- *)
Theorem split_never_out_of_fuel cfg page o runs c tr st :
  run cfg page o = OSplit runs -> In (c, (tr, st)) runs -> st <> CFuel.
Proof.
  intros H Hr. destruct (run_is_split cfg page o runs H _ Hr) as (todo & E). cbn [fst] in E.
  injection E as E2. pose proof (proj1 (crun_terminates cfg page c todo)) as T. rewrite <- E2 in T. exact T.
Qed.
Theorem spec_needs_return c : spec_b c = true -> o_fate c = 0%N.
Proof.
  unfold spec_b, spec_base_b, returned. intros H. apply andb_true_iff in H. destruct H as [H _].
  destruct (N.eqb_spec (o_fate c) 0) as [E|E]; [exact E|cbn in H; discriminate].
Qed.
Theorem model_needs_return c : model_b c = true -> o_fate c = 0%N.
Proof.
  unfold model_b. intros H. rewrite !andb_true_iff in H. destruct H as [[[H _] _] _]. apply N.eqb_eq. exact H.
Qed.
