(* C07 — VerifySignature / SignLocator: characterisation, sign-then-verify, perturbations, Rails. *)
From Coq Require Import NArith List Ascii String Bool Lia Arith.
From AV Require Import lib.Str lib.Sha1 lib.TokSplit lib.HexNum lib.Sha1Facts model.C07_model proofs.C07_msg proofs.C07_parse.
Import ListNotations.
Local Open Scope string_scope.

(* ---- the signature is 40 lowercase hex digits ---- *)
Theorem sig_hex40 key h tok e l :
  String.length (make_sig key h tok e l) = 40 /\ all_chars is_lhex (make_sig key h tok e l) = true.
Proof. unfold make_sig. split; [apply hmac_hex_length|apply hmac_hex_lhex]. Qed.

Lemma sig_xdigits40 key h tok e l : xdigits 40 (make_sig key h tok e l).
Proof. destruct (sig_hex40 key h tok e l) as [L X]. split; [exact L|]. eapply all_chars_weaken; [apply lhex_xdigit|exact X]. Qed.

(* ---- eight hex digits always denote a time ---- *)
Lemma hexnum_acc_xdigits s : all_chars is_xdigit s = true -> forall acc, exists n, hexnum_acc s acc = Some n.
Proof.
  induction s as [|c r IH]; intros H acc; [exists acc; reflexivity|].
  cbn [all_chars] in H. apply andb_true_iff in H. destruct H as [H1 H2]. cbn [hexnum_acc]. rewrite H1. apply IH, H2.
Qed.
Lemma hexnum_xdigits n e : xdigits (S n) e -> exists ts, hexnum e = Some ts.
Proof.
  intros [L X]. unfold hexnum. destruct e as [|c r]; [discriminate|]. apply hexnum_acc_xdigits, X.
Qed.

(* ---- the acceptance condition, as the property states it ---- *)
Definition time_ok (ts now_ns : N) : Prop := (now_ns <= ts * 1000000000)%N.
Definition accepts (loc tok : string) (ttl_ns : N) (key : string) (now_ns : N) : Prop :=
  exists h sg e ts, signed_shape loc h sg e /\ hexnum e = Some ts /\ time_ok ts now_ns /\
                    sg = make_sig key h tok e (ttl_hex ttl_ns).
Definition wf_expired (loc : string) (now_ns : N) : Prop :=
  exists h sg e ts, signed_shape loc h sg e /\ hexnum e = Some ts /\ ~ time_ok ts now_ns.
Definition wf_bad_signature (loc tok : string) (ttl_ns : N) (key : string) (now_ns : N) : Prop :=
  exists h sg e ts, signed_shape loc h sg e /\ hexnum e = Some ts /\ time_ok ts now_ns /\
                    sg <> make_sig key h tok e (ttl_hex ttl_ns).
Definition malformed (loc : string) : Prop := forall h sg e, ~ signed_shape loc h sg e.

Lemma expired_spec ts now : expired ts now = true <-> ~ time_ok ts now.
Proof. unfold expired, time_ok. rewrite N.ltb_lt. lia. Qed.
Lemma expired_false ts now : expired ts now = false <-> time_ok ts now.
Proof. unfold expired, time_ok. rewrite N.ltb_ge. lia. Qed.

Lemma verify_unfold loc tok ttl key now h sg e ts :
  parse_signed loc = Some (h, sg, e) -> hexnum e = Some ts ->
  verify loc tok ttl key now =
  if expired ts now then VExpired
  else if String.eqb sg (make_sig key h tok e (ttl_hex ttl)) then VOk else VInvalid.
Proof. intros Hp Hn. unfold verify, verify_k. rewrite Hp, Hn. reflexivity. Qed.

Theorem verify_ok_iff loc tok ttl key now : verify loc tok ttl key now = VOk <-> accepts loc tok ttl key now.
Proof.
  split.
  - unfold verify, verify_k. destruct (parse_signed loc) as [[[h sg] e]|] eqn:Hp; [|discriminate].
    destruct (hexnum e) as [ts|] eqn:Hn; [|discriminate].
    destruct (expired ts now) eqn:He; [discriminate|].
    destruct (String.eqb_spec sg (make_sig key h tok e (ttl_hex ttl))) as [Hs|]; [|discriminate].
    intros _. exists h, sg, e, ts. split; [apply parse_signed_shape, Hp|]. split; [exact Hn|]. split; [apply expired_false, He|exact Hs].
  - intros (h & sg & e & ts & Hs & Hn & Ht & Hg). apply parse_signed_shape in Hs.
    rewrite (verify_unfold _ _ _ _ _ _ _ _ _ Hs Hn). apply expired_false in Ht. rewrite Ht, Hg, String.eqb_refl. reflexivity.
Qed.

Theorem verify_expired_iff loc tok ttl key now : verify loc tok ttl key now = VExpired <-> wf_expired loc now.
Proof.
  split.
  - unfold verify, verify_k. destruct (parse_signed loc) as [[[h sg] e]|] eqn:Hp; [|discriminate].
    destruct (hexnum e) as [ts|] eqn:Hn; [|discriminate].
    destruct (expired ts now) eqn:He.
    + intros _. exists h, sg, e, ts. split; [apply parse_signed_shape, Hp|]. split; [exact Hn|apply expired_spec, He].
    + destruct (String.eqb sg _); discriminate.
  - intros (h & sg & e & ts & Hs & Hn & Ht). apply parse_signed_shape in Hs.
    rewrite (verify_unfold _ _ _ _ _ _ _ _ _ Hs Hn). apply expired_spec in Ht. rewrite Ht. reflexivity.
Qed.

Theorem verify_missing_iff loc tok ttl key now : verify loc tok ttl key now = VMissing <-> malformed loc.
Proof.
  split.
  - unfold verify, verify_k. destruct (parse_signed loc) as [[[h sg] e]|] eqn:Hp.
    + destruct (hexnum e) as [ts|]; [|discriminate]. destruct (expired ts now); [discriminate|].
      destruct (String.eqb sg _); discriminate.
    + intros _ h sg e Hs. apply parse_signed_shape in Hs. congruence.
  - intro Hm. unfold verify, verify_k. destruct (parse_signed loc) as [[[h sg] e]|] eqn:Hp; [|reflexivity].
    exfalso. apply (Hm h sg e), parse_signed_shape, Hp.
Qed.

Theorem verify_invalid_iff loc tok ttl key now :
  verify loc tok ttl key now = VInvalid <-> wf_bad_signature loc tok ttl key now.
Proof.
  split.
  - unfold verify, verify_k. destruct (parse_signed loc) as [[[h sg] e]|] eqn:Hp; [|discriminate].
    pose proof (proj1 (parse_signed_shape _ _ _ _) Hp) as Hs.
    destruct Hs as (szl & hs1 & hs2 & _ & _ & _ & _ & _ & Xe & _).
    destruct (hexnum_xdigits 7 e Xe) as [ts Hn]. rewrite Hn.
    destruct (expired ts now) eqn:He; [discriminate|].
    destruct (String.eqb_spec sg (make_sig key h tok e (ttl_hex ttl))) as [|Hne]; [discriminate|].
    intros _. exists h, sg, e, ts. split; [apply parse_signed_shape, Hp|]. split; [exact Hn|]. split; [apply expired_false, He|exact Hne].
  - intros (h & sg & e & ts & Hs & Hn & Ht & Hg). apply parse_signed_shape in Hs.
    rewrite (verify_unfold _ _ _ _ _ _ _ _ _ Hs Hn). apply expired_false in Ht. rewrite Ht.
    destruct (String.eqb_spec sg (make_sig key h tok e (ttl_hex ttl))); [contradiction|reflexivity].
Qed.

(* a well-formed signature whose time has passed is reported as expired whatever the signature,
   token, key and ttl are *)
Theorem expired_before_invalid loc h sg e ts tok ttl key now :
  signed_shape loc h sg e -> hexnum e = Some ts -> (ts * 1000000000 < now)%N ->
  verify loc tok ttl key now = VExpired.
Proof.
  intros Hs Hn Ht. apply verify_expired_iff. exists h, sg, e, ts. split; [exact Hs|]. split; [exact Hn|].
  unfold time_ok. lia.
Qed.

(* everything that is neither accepted nor well-formed-and-expired is Missing or Invalid *)
Theorem missing_or_invalid_otherwise loc tok ttl key now :
  ~ accepts loc tok ttl key now -> ~ wf_expired loc now ->
  (verify loc tok ttl key now = VMissing /\ malformed loc) \/
  (verify loc tok ttl key now = VInvalid /\ wf_bad_signature loc tok ttl key now).
Proof.
  intros Ha He. destruct (verify loc tok ttl key now) eqn:Hv.
  - exfalso. apply Ha, verify_ok_iff, Hv.
  - exfalso. apply He. apply (verify_expired_iff loc tok ttl key now), Hv.
  - right. split; [reflexivity|apply verify_invalid_iff, Hv].
  - left. split; [reflexivity|]. apply (verify_missing_iff loc tok ttl key now), Hv.
Qed.

(* ---- SignLocator then VerifySignature ---- *)
Definition unsigned_shape (loc h : string) : Prop :=
  exists szl hs, (szl = [] \/ exists sz, szl = [sz] /\ is_size sz = true) /\
                 Forall (fun f => is_hint f = true) hs /\ xdigits 32 h /\ loc = h ++ plus_fields (szl ++ hs)%list.

Lemma plus_fields_app a b : plus_fields (a ++ b)%list = plus_fields a ++ plus_fields b.
Proof. induction a as [|f r IH]; [reflexivity|]. cbn [app plus_fields]. rewrite IH. cbn [append]. rewrite app_assoc_s. reflexivity. Qed.

Lemma split_hd a fs : has_char "+" a = false -> hd "" (split_on "+" (a ++ plus_fields fs)) = a.
Proof.
  intro Ha. destruct fs as [|f r].
  - cbn [plus_fields]. rewrite app_nil_r_s, split_on_nosep by exact Ha. reflexivity.
  - cbn [plus_fields append]. rewrite split_on_app by exact Ha. reflexivity.
Qed.

Lemma blob_hash_unsigned loc h : unsigned_shape loc h -> blob_hash loc = h.
Proof.
  intros (szl & hs & _ & _ & [_ X] & ->). unfold blob_hash. apply split_hd, xdigit_no_plus, X.
Qed.

Lemma hex08_xdigits8 exp : (exp < 4294967296)%N -> xdigits 8 (hex08 exp).
Proof. intro H. split; [apply hex08_length, H|]. eapply all_chars_weaken; [apply lhex_xdigit|apply hex08_lhex]. Qed.

Lemma sign_locator_unfold loc tok exp ttl key :
  key <> "" -> tok <> "" ->
  sign_locator loc tok exp ttl key =
  loc ++ "+A" ++ make_sig key (blob_hash loc) tok (hex08 exp) (ttl_hex ttl) ++ "@" ++ hex08 exp.
Proof.
  intros Hk Ht. unfold sign_locator, sign_locator_k.
  destruct (String.eqb_spec key ""); [contradiction|]. destruct (String.eqb_spec tok ""); [contradiction|]. reflexivity.
Qed.

Lemma signed_has_shape loc h tok exp ttl key :
  unsigned_shape loc h -> key <> "" -> tok <> "" -> (exp < 4294967296)%N ->
  signed_shape (sign_locator loc tok exp ttl key) h (make_sig key h tok (hex08 exp) (ttl_hex ttl)) (hex08 exp).
Proof.
  intros Hu Hk Ht He. rewrite sign_locator_unfold by assumption. rewrite (blob_hash_unsigned _ _ Hu).
  destruct Hu as (szl & hs & Hszl & F & Xh & ->).
  exists szl, hs, []. split; [exact Hszl|]. split; [exact F|]. split; [constructor|]. split; [exact Xh|].
  split; [apply sig_xdigits40|]. split; [apply hex08_xdigits8, He|].
  rewrite app_nil_r, app_assoc, (plus_fields_app (szl ++ hs)). cbn [plus_fields]. rewrite app_assoc_s, app_nil_r_s. reflexivity.
Qed.

Theorem sign_then_verify loc h tok exp ttl key now :
  unsigned_shape loc h -> key <> "" -> tok <> "" -> (exp < 4294967296)%N -> (now <= exp * 1000000000)%N ->
  verify (sign_locator loc tok exp ttl key) tok ttl key now = VOk.
Proof.
  intros Hu Hk Ht He Hn. apply verify_ok_iff.
  exists h, (make_sig key h tok (hex08 exp) (ttl_hex ttl)), (hex08 exp), exp.
  split; [apply signed_has_shape; assumption|]. split; [apply hexnum_hex08|]. split; [exact Hn|reflexivity].
Qed.

Example sign_then_verify_example :
  unsigned_shape "acbd18db4cc2f85cedef654fccc4a4d8+3+Kzzzzz" "acbd18db4cc2f85cedef654fccc4a4d8".
Proof.
  exists ["3"], ["Kzzzzz"]. split; [right; exists "3"; split; reflexivity|]. split; [repeat constructor|].
  split; [split; reflexivity|reflexivity].
Qed.

(* ---- perturbations ---- *)
(* an explicit HMAC-SHA1 collision: two different (key, message) pairs with the same digest *)
Definition hmac_collision (k m k' m' : string) : Prop :=
  (k, m) <> (k', m') /\ hmac_sha1_hex k m = hmac_sha1_hex k' m'.

Lemma ttl_hex_no_at ttl : has_char "@" (ttl_hex ttl) = false.
Proof. apply lhex_no_at, hexn_lhex. Qed.

(* Somebody holds a locator validly signed for (key, h, tok, e, ttl) and presents loc' with tok',
   ttl', key'.  If the presentation keeps the signature field but differs in a signed field, or keeps
   all signed fields but differs in the signature field, it is rejected -- or the two HMAC inputs are
   an explicit collision.  Nothing is assumed about HMAC. *)
Theorem perturbation_rejected key h tok e ttl loc' tok' ttl' key' now h' sg' e' :
  String.length h = 32 -> has_char "@" e = false ->
  signed_shape loc' h' sg' e' ->
  let sg := make_sig key h tok e (ttl_hex ttl) in
  let same_fields := key' = key /\ h' = h /\ tok' = tok /\ e' = e /\ ttl_hex ttl' = ttl_hex ttl in
  (sg' = sg /\ ~ same_fields) \/ (sg' <> sg /\ same_fields) ->
  verify loc' tok' ttl' key' now <> VOk \/
  hmac_collision key (sig_msg h tok e (ttl_hex ttl)) key' (sig_msg h' tok' e' (ttl_hex ttl')).
Proof.
  intros Lh Ee Hs sg same Hcase.
  destruct (verify loc' tok' ttl' key' now) eqn:Hv; try (left; discriminate).
  apply verify_ok_iff in Hv. destruct Hv as (h2 & sg2 & e2 & ts & Hs2 & Hn & Ht & Hg).
  destruct (signed_shape_unique _ _ _ _ _ _ _ Hs Hs2) as (<- & <- & <-).
  destruct Hcase as [[Hsame Hdiff]|[Hdiff Hsame]].
  - right. split.
    + intro Heq. injection Heq as Hk Hm. apply Hdiff. unfold same.
      destruct Hs as (_ & _ & _ & _ & _ & _ & [Lh' _] & _ & [_ Xe'] & _).
      symmetry in Hm. apply msg_injective in Hm.
      * destruct Hm as (H1 & H2 & H3 & H4). auto.
      * lia.
      * apply xdigit_no_at, Xe'.
      * apply ttl_hex_no_at.
      * exact Ee.
      * apply ttl_hex_no_at.
    + unfold make_sig in *. subst sg. rewrite <- Hsame. exact Hg.
  - exfalso. destruct Hsame as (-> & -> & -> & -> & Hl). apply Hdiff. subst sg. rewrite Hg, Hl. reflexivity.
Qed.

(* in particular: any change to the signature field alone is rejected outright *)
Corollary signature_change_rejected key h tok e ttl loc' now sg' :
  String.length h = 32 -> has_char "@" e = false ->
  signed_shape loc' h sg' e -> sg' <> make_sig key h tok e (ttl_hex ttl) ->
  verify loc' tok ttl key now <> VOk.
Proof.
  intros Lh Ee Hs Hne Hv. apply verify_ok_iff in Hv. destruct Hv as (h2 & sg2 & e2 & ts & Hs2 & _ & _ & Hg).
  destruct (signed_shape_unique _ _ _ _ _ _ _ Hs Hs2) as (<- & <- & <-). contradiction.
Qed.

(* different TTLs (in whole seconds) are different signed fields *)
Lemma ttl_hex_inj a b : ttl_hex a = ttl_hex b -> (a / 1000000000 = b / 1000000000)%N.
Proof. apply hexn_inj. Qed.

(* ---- the API server's algorithm ---- *)
Lemma rails_sig_eq key h tok ts l : rails_sig key h tok ts l = make_sig key h tok ts l.
Proof. reflexivity. Qed.

Theorem go_equals_rails loc tok exp ttl key :
  key <> "" -> tok <> "" -> (268435456 <= exp)%N ->
  rails_sign_locator loc tok exp (ttl / 1000000000)%N key = sign_locator loc tok exp ttl key.
Proof.
  intros Hk Ht He. rewrite sign_locator_unfold by assumption. unfold rails_sign_locator.
  rewrite rails_sig_eq, hex08_big by exact He. reflexivity.
Qed.

(* below 2^28 the two differ: Go pads the expiry to eight digits, Rails does not *)
Example go_rails_differ_below_2_28 :
  rails_sign_locator "acbd18db4cc2f85cedef654fccc4a4d8" "t" 255 0 "k" <> sign_locator "acbd18db4cc2f85cedef654fccc4a4d8" "t" 255 0 "k".
Proof. vm_compute. discriminate. Qed.

(* ---- keepstore GET ---- *)
Theorem keepstore_get_gate path auth ttl key now :
  match get_gate true path auth ttl key now with
  | GVolume h => route_get path = Some h /\ accepts (drop 1 path) (api_token auth) ttl key now
  | GDeny c => (c = 401%N /\ wf_expired (drop 1 path) now) \/
               (c = 403%N /\ ~ accepts (drop 1 path) (api_token auth) ttl key now /\ ~ wf_expired (drop 1 path) now)
  | GBadRequest => route_get path = None
  | GRemote => contains "+R" (drop 1 path) = true /\ contains "+A" (drop 1 path) = false
  end.
Proof.
  unfold get_gate, get_gate_k. destruct (route_get path) as [h|] eqn:Hr; [|reflexivity].
  destruct (contains "+R" (drop 1 path) && negb (contains "+A" (drop 1 path))) eqn:Hrem.
  - apply andb_true_iff in Hrem. destruct Hrem as [H1 H2]. apply negb_true_iff in H2. auto.
  - fold (verify (drop 1 path) (api_token auth) ttl key now).
    destruct (verify (drop 1 path) (api_token auth) ttl key now) eqn:Hv.
    + split; [reflexivity|apply verify_ok_iff, Hv].
    + left. split; [reflexivity|]. apply (verify_expired_iff _ (api_token auth) ttl key now), Hv.
    + right. split; [reflexivity|]. split.
      * intro Ha. apply verify_ok_iff in Ha. congruence.
      * intro He. apply (verify_expired_iff _ (api_token auth) ttl key now) in He. congruence.
    + right. split; [reflexivity|]. split.
      * intro Ha. apply verify_ok_iff in Ha. congruence.
      * intro He. apply (verify_expired_iff _ (api_token auth) ttl key now) in He. congruence.
Qed.

(* block data (status 200) only behind a valid, unexpired signature for the requesting token *)
Corollary keepstore_data_only_if_valid path auth ttl key now stored :
  get_status (get_gate true path auth ttl key now) stored = Some 200%N ->
  accepts (drop 1 path) (api_token auth) ttl key now.
Proof.
  pose proof (keepstore_get_gate path auth ttl key now) as H.
  destruct (get_gate true path auth ttl key now) as [| |c|h]; cbn [get_status]; intro E; try discriminate.
  - injection E as ->. destruct H as [[H _]|[H _]]; discriminate.
  - apply H.
Qed.
