(* A synchronous flush that reports success has turned every memSegment it visited into a stored
   segment: after a successful save no file reachable from the root still holds buffered data, so the
   manifest text (which can only name stored segments) leaves nothing out. *)
From Coq Require Import List Arith Lia Bool String.
Import ListNotations.
From AV Require Import lib.Str lib.Path model.CFS_file model.CFS_tree model.CFS_inst model.C08_run model.CFS_bg model.CFS_tload
  proofs.CFS_file_proofs proofs.CFS_refine proofs.CFS_prov proofs.CFS_tree_proofs proofs.CFS_bg_proofs.
Notation length := List.length.
Notation byte := CFS_file.byte.
Local Open Scope list_scope.

(* ---- segment lists: same length, stored stays stored ---- *)
Definition SM (l l' : list seg) : Prop :=
  length l' = length l /\ forall i, is_sto (nthseg l i) = true -> is_sto (nthseg l' i) = true.
Lemma SM_refl l : SM l l. Proof. split; auto. Qed.
Lemma SM_trans a b c : SM a b -> SM b c -> SM a c.
Proof. intros [A1 A2] [B1 B2]. split; [congruence|auto]. Qed.

Lemma nthseg_set_nth_other l : forall i x j, i < length l -> j <> i -> nthseg (set_nth l i x) j = nthseg l j.
Proof.
  unfold nthseg, set_nth. induction l as [|a l IH]; intros i x j Hi Hj; [cbn in Hi; lia|].
  destruct i as [|i].
  - destruct j as [|j]; [congruence|]. reflexivity.
  - destruct j as [|j]; [reflexivity|]. cbn [firstn skipn app nth]. apply IH; [cbn in Hi; lia|congruence].
Qed.
Lemma SM_set_nth l i x : i < length l -> (is_sto (nthseg l i) = true -> is_sto x = true) -> SM l (set_nth l i x).
Proof.
  intros Hi Hx. split; [apply set_nth_length; exact Hi|]. intros j Hj. destruct (Nat.eq_dec j i) as [->|Hne].
  - rewrite nth_set_nth by exact Hi. apply Hx. exact Hj.
  - rewrite nthseg_set_nth_other by assumption. exact Hj.
Qed.

Lemma forallb_nth_sto l : forallb is_sto l = true <-> (forall i, i < length l -> is_sto (nthseg l i) = true).
Proof.
  induction l as [|s l IH]; cbn [forallb length]; [split; [intros _ i Hi; lia|reflexivity]|]. split.
  - intros H i Hi. apply andb_true_iff in H. destruct H as [H1 H2]. destruct i; [exact H1|]. apply IH; [exact H2|lia].
  - intros H. apply andb_true_iff. split; [apply (H 0); lia|]. apply IH. intros i Hi. apply (H (S i)). lia.
Qed.
Lemma SM_forallb l l' : SM l l' -> forallb is_sto l = true -> forallb is_sto l' = true.
Proof. intros [H1 H2] H. apply forallb_nth_sto. intros i Hi. apply H2. apply forallb_nth_sto; [exact H|lia]. Qed.

Section Flush.
Variable mb : nat.
Hypothesis Hmb : 1 <= mb.
Notation C := (Conc mb).

Definition Mono (s s' : fs C) : Prop := forall fid, SM (file_segs mb s fid) (file_segs mb s' fid).
Lemma Mono_refl s : Mono s s. Proof. intros fid. apply SM_refl. Qed.
Lemma Mono_trans a b c : Mono a b -> Mono b c -> Mono a c.
Proof. intros H1 H2 fid. eapply SM_trans; [apply H1|apply H2]. Qed.

Definition sto_at (s : fs C) (p : nat * nat) : bool := is_sto (seg_at mb s (fst p) (snd p)).
Lemma Mono_sto s s' p : Mono s s' -> sto_at s p = true -> sto_at s' p = true.
Proof. intros H. unfold sto_at. rewrite !seg_at_nth. apply (H (fst p)). Qed.

Lemma file_segs_set_seg_at s fid i x id :
  file_segs mb (set_seg_at mb s fid i x) id =
  if Nat.eqb id fid then match i_node C (get_ino C s fid) with
                         | IFile _ => set_nth (file_segs mb s fid) i x
                         | IDir _ => []
                         end
  else file_segs mb s id.
Proof.
  unfold set_seg_at. destruct (i_node C (get_ino C s fid)) as [fn|e] eqn:En.
  - unfold set_file. rewrite (file_segs_set_ino mb Hmb).
    assert (Hb : fid < length (inodes C s)) by (eapply get_ino_file_bound; exact En).
    destruct (Nat.eqb_spec id fid) as [->|]; cbn [andb]; [|reflexivity].
    destruct (Nat.ltb_spec fid (length (inodes C s))) as [_|]; [|lia]. cbn [i_node set_seg segs].
    rewrite (file_segs_file mb s fid fn En). reflexivity.
  - destruct (Nat.eqb_spec id fid) as [->|]; [|reflexivity]. unfold file_segs. rewrite En. reflexivity.
Qed.

Lemma Mono_set_seg_at s fid i x : i < length (file_segs mb s fid) ->
  (is_sto (seg_at mb s fid i) = true -> is_sto x = true) ->
  Mono s (set_seg_at mb s fid i x) /\ seg_at mb (set_seg_at mb s fid i x) fid i = x.
Proof.
  intros Hi Hx.
  assert (Hf : exists fn, i_node C (get_ino C s fid) = IFile fn).
  { unfold file_segs in Hi. destruct (i_node C (get_ino C s fid)) as [fn|]; [exists fn; reflexivity|cbn in Hi; lia]. }
  destruct Hf as (fn & En). split.
  - intros id. rewrite file_segs_set_seg_at, En. destruct (Nat.eqb_spec id fid) as [->|]; [|apply SM_refl].
    apply SM_set_nth; [exact Hi|]. rewrite <- seg_at_nth. exact Hx.
  - rewrite seg_at_nth, file_segs_set_seg_at, Nat.eqb_refl, En. apply nth_set_nth. exact Hi.
Qed.

(* ---- commitBlock(sync) ---- *)
Definition key (r : pref) : nat * nat := (r_file r, r_idx r).

Lemma assign_tokens_mono : forall refs st boff acc,
  let '(st', res) := assign_tokens mb true refs st boff acc in
  Mono (fsys mb st) (fsys mb st') /\
  match res with
  | Some (prs, _) => map key prs = map key (rev acc) ++ refs /\
                     forall p, In p refs -> snd p < length (file_segs mb (fsys mb st') (fst p))
  | None => True
  end.
Proof.
  induction refs as [|[fid i] refs IH]; intros st boff acc; cbn [assign_tokens].
  - split; [apply Mono_refl|]. rewrite app_nil_r. split; [reflexivity|intros p []].
  - destruct (Nat.ltb_spec i (length (file_segs mb (fsys mb st) fid))) as [Hi|Hi]; cbn [negb]; [|split; [apply Mono_refl|exact I]].
    destruct (seg_at mb (fsys mb st) fid i) as [b tok|b l0 z0 o0] eqn:Es; [|split; [apply Mono_refl|exact I]].
    cbn [negb andb].
    set (st1 := {| fsys := set_seg_at mb (fsys mb st) fid i (Mem b (Some (ntok mb st))); pends := pends mb st; ntok := S (ntok mb st);
                   nput := nput mb st; blocks := blocks mb st; mode := mode mb st |}).
    destruct (Mono_set_seg_at (fsys mb st) fid i (Mem b (Some (ntok mb st))) Hi) as [HM _]; [rewrite Es; discriminate|].
    specialize (IH st1 (boff + length b) ({| r_file := fid; r_idx := i; r_tok := ntok mb st; r_boff := boff |} :: acc)).
    destruct (assign_tokens mb true refs st1 (boff + length b) ({| r_file := fid; r_idx := i; r_tok := ntok mb st; r_boff := boff |} :: acc)) as [st' res].
    destruct IH as [IH1 IH2]. split; [eapply Mono_trans; [exact HM|exact IH1]|].
    destruct res as [[prs tot]|]; [|exact I]. destruct IH2 as [E Hlen]. split.
    + rewrite E. cbn [rev]. rewrite map_app. cbn [map key r_file r_idx]. rewrite <- app_assoc. reflexivity.
    + intros p [<-|Hp]; [|apply Hlen; exact Hp]. cbn [fst snd].
      destruct (IH1 fid) as [L _]. rewrite L. destruct (HM fid) as [L0 _]. cbn [fsys st1]. rewrite L0. exact Hi.
Qed.

Lemma install_sync_fold loc bsz : forall prs s,
  (forall r, In r prs -> r_idx r < length (file_segs mb s (r_file r))) ->
  Mono s (fold_left (install_sync mb loc bsz) prs s) /\
  forall r, In r prs -> sto_at (fold_left (install_sync mb loc bsz) prs s) (key r) = true.
Proof.
  induction prs as [|r prs IH]; intros s Hlen; cbn [fold_left]; [split; [apply Mono_refl|intros r []]|].
  assert (Hstep : Mono s (install_sync mb loc bsz s r) /\ sto_at (install_sync mb loc bsz s r) (key r) = true).
  { unfold install_sync. destruct (seg_at mb s (r_file r) (r_idx r)) as [b tok|b l0 z0 o0] eqn:Es.
    - destruct (Mono_set_seg_at s (r_file r) (r_idx r) (Sto b loc bsz (r_boff r)) (Hlen r (or_introl eq_refl))) as [HM Hat]; [reflexivity|].
      split; [exact HM|]. unfold sto_at, key. cbn [fst snd]. rewrite Hat. reflexivity.
    - split; [apply Mono_refl|]. unfold sto_at, key. cbn [fst snd]. rewrite Es. reflexivity. }
  destruct Hstep as [HM Hs].
  destruct (IH (install_sync mb loc bsz s r)) as [IH1 IH2].
  { intros r' Hr'. destruct (HM (r_file r')) as [L _]. rewrite L. apply Hlen. right. exact Hr'. }
  split; [eapply Mono_trans; eassumption|]. intros r' [<-|Hr']; [eapply Mono_sto; eassumption|apply IH2; exact Hr'].
Qed.

Lemma commit_sync_stored st refs : forall st', commit_sync mb st refs = (st', true) ->
  Mono (fsys mb st) (fsys mb st') /\ forall p, In p refs -> sto_at (fsys mb st') p = true.
Proof.
  intros st' E. unfold commit_sync in E. destruct refs as [|r0 refs']; [inversion E; subst; split; [apply Mono_refl|intros p []]|].
  set (refs := r0 :: refs') in *.
  pose proof (assign_tokens_mono refs st 0 []) as HA.
  destruct (assign_tokens mb true refs st 0 []) as [st1 [[prs total]|]]; [|inversion E].
  destruct HA as [HM [Ek Hlen]].
  destruct (put_fails (mode mb st1) (refs_data mb (fsys mb st) refs)); inversion E; subst st'. clear E. cbn [fsys].
  destruct (install_sync_fold (length (blocks mb st1)) (length (refs_data mb (fsys mb st) refs)) prs (fsys mb st1)) as [HM2 Hs].
  { intros r Hr. apply (Hlen (key r)). cbn [rev map app] in Ek. rewrite <- Ek. apply (in_map key). exact Hr. }
  split; [eapply Mono_trans; eassumption|]. intros p Hp. cbn [rev map app] in Ek. rewrite <- Ek in Hp.
  apply in_map_iff in Hp. destruct Hp as (r & <- & Hr). apply Hs. exact Hr.
Qed.

(* ---- dirnode.flush ---- *)
(* positions already visited are stored, or waiting in the pending list *)
Definition Cov (s : fs C) (pending P : list (nat * nat)) : Prop :=
  forall p, In p P -> sto_at s p = true \/ In p pending.
Lemma Cov_mono s s' pending P : Mono s s' -> Cov s pending P -> Cov s' pending P.
Proof. intros HM H p Hp. destruct (H p Hp) as [H1|H1]; [left; eapply Mono_sto; eassumption|right; exact H1]. Qed.

Definition positions (fid i n : nat) : list (nat * nat) := map (fun k => (fid, i + k)) (seq 0 n).
Lemma positions_S fid i n : positions fid i (S n) = (fid, i) :: positions fid (S i) n.
Proof.
  unfold positions. cbn [seq map]. rewrite Nat.add_0_r. f_equal. rewrite <- seq_shift, map_map.
  apply map_ext. intros k. f_equal. lia.
Qed.

Lemma flush_segs_cov fid : forall l i st ok pending plen P,
  let '(st', ok', pending', _) := flush_segs mb true fid i l st ok pending plen in
  ok' = true -> ok = true /\
  ((forall k, k < length l -> is_sto (nthseg l k) = true -> sto_at (fsys mb st) (fid, i + k) = true) ->
   Cov (fsys mb st) pending P ->
   Mono (fsys mb st) (fsys mb st') /\ Cov (fsys mb st') pending' (P ++ positions fid i (length l))).
Proof.
  induction l as [|x l IH]; intros i st ok pending plen P; cbn [flush_segs].
  - intros ->. split; [reflexivity|]. intros _ HC. split; [apply Mono_refl|]. unfold positions. cbn [length seq map]. rewrite app_nil_r. exact HC.
  - cbn [length]. rewrite positions_S.
    assert (Hshape : forall (Q : list (nat * nat)), P ++ (fid, i) :: Q = (P ++ [(fid, i)]) ++ Q) by (intros Q; rewrite <- app_assoc; reflexivity).
    rewrite Hshape.
    assert (Hold' : forall st1, (forall k, k < S (length l) -> is_sto (nthseg (x :: l) k) = true -> sto_at (fsys mb st) (fid, i + k) = true) ->
               Mono (fsys mb st) (fsys mb st1) ->
               forall k, k < length l -> is_sto (nthseg l k) = true -> sto_at (fsys mb st1) (fid, S i + k) = true).
    { intros st1 Hold HM k Hk Hs. eapply Mono_sto; [exact HM|]. replace (S i + k) with (i + S k) by lia. apply Hold; [lia|exact Hs]. }
    destruct x as [b tok|b loc bsz boff].
    + destruct (mb / 2 <? length b).
      * destruct (commit_sync mb st [(fid, i)]) as [st1 ok1] eqn:Ec.
        specialize (IH (S i) st1 (ok && ok1) pending plen (P ++ [(fid, i)])).
        destruct (flush_segs mb true fid (S i) l st1 (ok && ok1) pending plen) as [[[st' ok'] pending'] plen'].
        intros Hok'. destruct (IH Hok') as [Hand IHr]. apply andb_true_iff in Hand. destruct Hand as [Hok ->].
        split; [exact Hok|]. intros Hold HC.
        destruct (commit_sync_stored st [(fid, i)] st1 Ec) as [HM Hs].
        destruct IHr as [HM' HC']; [apply Hold'; assumption| |split; [eapply Mono_trans; eassumption|exact HC']].
        intros p Hp. apply in_app_or in Hp. destruct Hp as [Hp|[<-|[]]]; [eapply Cov_mono; eassumption|left; apply Hs; left; reflexivity].
      * destruct (mb <? plen + length b).
        -- destruct (commit_sync mb st pending) as [st1 ok1] eqn:Ec.
           specialize (IH (S i) st1 (ok && ok1) [(fid, i)] (length b) (P ++ [(fid, i)])).
           destruct (flush_segs mb true fid (S i) l st1 (ok && ok1) [(fid, i)] (length b)) as [[[st' ok'] pending'] plen'].
           intros Hok'. destruct (IH Hok') as [Hand IHr]. apply andb_true_iff in Hand. destruct Hand as [Hok ->].
           split; [exact Hok|]. intros Hold HC.
           destruct (commit_sync_stored st pending st1 Ec) as [HM Hs].
           destruct IHr as [HM' HC']; [apply Hold'; assumption| |split; [eapply Mono_trans; eassumption|exact HC']].
           intros p Hp. apply in_app_or in Hp. destruct Hp as [Hp|[<-|[]]]; [|right; left; reflexivity].
           left. destruct (HC p Hp) as [H1|H1]; [eapply Mono_sto; eassumption|apply Hs; exact H1].
        -- specialize (IH (S i) st ok (pending ++ [(fid, i)]) (plen + length b) (P ++ [(fid, i)])).
           destruct (flush_segs mb true fid (S i) l st ok (pending ++ [(fid, i)]) (plen + length b)) as [[[st' ok'] pending'] plen'].
           intros Hok'. destruct (IH Hok') as [Hok IHr]. split; [exact Hok|]. intros Hold HC.
           apply IHr; [apply Hold'; [exact Hold|apply Mono_refl]|].
           intros p Hp. apply in_app_or in Hp. destruct Hp as [Hp|[<-|[]]]; [|right; apply in_or_app; right; left; reflexivity].
           destruct (HC p Hp) as [H1|H1]; [left; exact H1|right; apply in_or_app; left; exact H1].
    + specialize (IH (S i) st ok pending plen (P ++ [(fid, i)])).
      destruct (flush_segs mb true fid (S i) l st ok pending plen) as [[[st' ok'] pending'] plen'].
      intros Hok'. destruct (IH Hok') as [Hok IHr]. split; [exact Hok|]. intros Hold HC.
      apply IHr; [apply Hold'; [exact Hold|apply Mono_refl]|].
      intros p Hp. apply in_app_or in Hp. destruct Hp as [Hp|[<-|[]]]; [apply HC; exact Hp|].
      left. replace i with (i + 0) by lia. apply Hold; [lia|reflexivity].
Qed.

(* ---- the whole directory tree ---- *)
Fixpoint stored_under (fuel : nat) (s : fs C) (d : nat) : Prop :=
  match fuel with
  | O => True
  | S f => forall e, In e (dir_ents C s d) ->
             if is_dir C s (snd e) then stored_under f s (snd e) else forallb is_sto (file_segs mb s (snd e)) = true
  end.

Definition SameTree (s s' : fs C) : Prop := forall id, dir_ents C s' id = dir_ents C s id /\ is_dir C s' id = is_dir C s id.
Lemma SameTree_refl s : SameTree s s. Proof. intros id. split; reflexivity. Qed.
Lemma SameTree_trans a b c : SameTree a b -> SameTree b c -> SameTree a c.
Proof. intros H1 H2 id. destruct (H1 id) as [A1 A2]. destruct (H2 id) as [B1 B2]. split; congruence. Qed.
Lemma quiet_same st st' : quiet mb st st' -> SameTree (fsys mb st) (fsys mb st').
Proof.
  intros [Habs _] id. split.
  - rewrite <- !(dir_ents_abs mb). rewrite Habs. reflexivity.
  - rewrite <- !(is_dir_abs mb). rewrite Habs. reflexivity.
Qed.

Lemma stored_under_mono s s' : SameTree s s' -> Mono s s' -> forall fuel d, stored_under fuel s d -> stored_under fuel s' d.
Proof.
  intros HT HM. induction fuel as [|fuel IH]; intros d H; [exact I|]. cbn [stored_under] in *.
  intros e He. destruct (HT d) as [Ed _]. rewrite Ed in He. specialize (H e He).
  destruct (HT (snd e)) as [_ Ei]. rewrite Ei. destruct (is_dir C s (snd e)); [apply IH; exact H|].
  eapply SM_forallb; [apply HM|exact H].
Qed.

Definition dstep (fuel : nat) (acc : bst mb * bool * list (nat * nat) * nat) (e : string * nat) :=
  let '(st0, ok0, pending, plen) := acc in
  if is_dir C (fsys mb st0) (snd e) then
    let '(st1, ok1) := flush_dir mb fuel true true true st0 (snd e) in (st1, ok0 && ok1, pending, plen)
  else flush_segs mb true (snd e) 0 (file_segs mb (fsys mb st0) (snd e)) st0 ok0 pending plen.

Lemma flush_dir_S fuel st d :
  flush_dir mb (S fuel) true true true st d =
  let '(st1, ok1, pending, plen) := fold_left (dstep fuel) (dir_ents C (fsys mb st) d) (st, true, [], 0) in
  let '(st2, ok2) := commit_sync mb st1 pending in (st2, ok1 && ok2).
Proof. reflexivity. Qed.

Section Fold.
Variable fuel : nat.
Hypothesis IHfuel : forall st d, BInv mb st -> forall st', flush_dir mb fuel true true true st d = (st', true) ->
  Mono (fsys mb st) (fsys mb st') /\ stored_under fuel (fsys mb st') d.

Lemma dfold_stored : forall ents st0 ok0 pending plen P, BInv mb st0 ->
  let '(st1, ok1, pending1, _) := fold_left (dstep fuel) ents (st0, ok0, pending, plen) in
  ok1 = true -> ok0 = true /\ BInv mb st1 /\ SameTree (fsys mb st0) (fsys mb st1) /\
  (Cov (fsys mb st0) pending P ->
   exists P', Mono (fsys mb st0) (fsys mb st1) /\ Cov (fsys mb st1) pending1 (P ++ P') /\
     (forall e, In e ents -> is_dir C (fsys mb st0) (snd e) = false ->
        forall k, k < length (file_segs mb (fsys mb st1) (snd e)) -> In (snd e, k) P') /\
     (forall e, In e ents -> is_dir C (fsys mb st0) (snd e) = true -> stored_under fuel (fsys mb st1) (snd e))).
Proof.
  induction ents as [|e ents IH]; intros st0 ok0 pending plen P HB; cbn [fold_left].
  - intros ->. split; [reflexivity|]. split; [exact HB|]. split; [apply SameTree_refl|]. intros HC. exists [].
    rewrite app_nil_r. split; [apply Mono_refl|]. split; [exact HC|]. split; intros e [].
  - unfold dstep at 2. destruct (is_dir C (fsys mb st0) (snd e)) eqn:Hd.
    + (* a sub-directory *)
      pose proof (flush_dir_quiet mb Hmb fuel true true true st0 (snd e) HB) as Q.
      destruct (flush_dir mb fuel true true true st0 (snd e)) as [sta oka] eqn:Ef. cbn [fst] in Q.
      specialize (IH sta (ok0 && oka) pending plen P (proj2 Q)).
      destruct (fold_left (dstep fuel) ents (sta, ok0 && oka, pending, plen)) as [[[st1 ok1] pending1] plen1].
      intros Hok1. destruct (IH Hok1) as (Hand & HB1 & HT1 & IHr). apply andb_true_iff in Hand. destruct Hand as [Hok0 ->].
      split; [exact Hok0|]. split; [exact HB1|]. pose proof (quiet_same _ _ Q) as HTa.
      split; [eapply SameTree_trans; eassumption|]. intros HC.
      destruct (IHfuel st0 (snd e) HB sta Ef) as [HMa Hsa].
      destruct IHr as (P' & HM1 & HC1 & Hf1 & Hd1); [eapply Cov_mono; eassumption|].
      exists P'. split; [eapply Mono_trans; eassumption|]. split; [exact HC1|]. split.
      * intros e' [<-|He'] Hd'; [congruence|]. apply Hf1; [exact He'|]. destruct (HTa (snd e')) as [_ Ei]. rewrite Ei. exact Hd'.
      * intros e' [<-|He'] Hd'.
        -- eapply stored_under_mono; [exact HT1|exact HM1|exact Hsa].
        -- apply Hd1; [exact He'|]. destruct (HTa (snd e')) as [_ Ei]. rewrite Ei. exact Hd'.
    + (* a file *)
      set (l := file_segs mb (fsys mb st0) (snd e)).
      pose proof (flush_segs_quiet mb Hmb true (snd e) l 0 st0 ok0 pending plen HB) as Q.
      pose proof (flush_segs_cov (snd e) l 0 st0 ok0 pending plen P) as Hcov.
      destruct (flush_segs mb true (snd e) 0 l st0 ok0 pending plen) as [[[sta oka] pendinga] plena].
      specialize (IH sta oka pendinga plena (P ++ positions (snd e) 0 (length l)) (proj2 Q)).
      destruct (fold_left (dstep fuel) ents (sta, oka, pendinga, plena)) as [[[st1 ok1] pending1] plen1].
      intros Hok1. destruct (IH Hok1) as (Hoka & HB1 & HT1 & IHr).
      destruct (Hcov Hoka) as [Hok0 Hcr]. split; [exact Hok0|]. split; [exact HB1|]. pose proof (quiet_same _ _ Q) as HTa.
      split; [eapply SameTree_trans; eassumption|]. intros HC.
      destruct Hcr as [HMa HCa]; [|exact HC|].
      { intros k Hk Hs. unfold sto_at. cbn [fst snd Nat.add]. rewrite seg_at_nth. exact Hs. }
      destruct (IHr HCa) as (P' & HM1 & HC1 & Hf1 & Hd1).
      exists (positions (snd e) 0 (length l) ++ P'). split; [eapply Mono_trans; eassumption|].
      split; [rewrite app_assoc; exact HC1|]. split.
      * intros e' [<-|He'] Hd' k Hk.
        -- apply in_or_app. left. unfold positions. apply in_map_iff. exists k. split; [reflexivity|]. apply in_seq.
           destruct (HM1 (snd e)) as [L1 _]. destruct (HMa (snd e)) as [La _]. fold l in La. lia.
        -- apply in_or_app. right. apply Hf1; [exact He'| |exact Hk]. destruct (HTa (snd e')) as [_ Ei]. rewrite Ei. exact Hd'.
      * intros e' [<-|He'] Hd'; [congruence|]. apply Hd1; [exact He'|]. destruct (HTa (snd e')) as [_ Ei]. rewrite Ei. exact Hd'.
Qed.
End Fold.

Theorem flush_dir_stored : forall fuel st d, BInv mb st -> forall st', flush_dir mb fuel true true true st d = (st', true) ->
  Mono (fsys mb st) (fsys mb st') /\ stored_under fuel (fsys mb st') d.
Proof.
  induction fuel as [|fuel IH]; intros st d HB st' E.
  - cbn [flush_dir] in E. inversion E; subst. split; [apply Mono_refl|exact I].
  - rewrite flush_dir_S in E.
    pose proof (dfold_stored fuel IH (dir_ents C (fsys mb st) d) st true [] 0 [] HB) as Hf.
    destruct (fold_left (dstep fuel) (dir_ents C (fsys mb st) d) (st, true, [], 0)) as [[[st1 ok1] pending1] plen1].
    destruct (commit_sync mb st1 pending1) as [st2 ok2] eqn:Ec. inversion E; subst st2. clear E.
    match goal with H : ok1 && ok2 = true |- _ => apply andb_true_iff in H; destruct H as [-> ->] end.
    destruct (Hf eq_refl) as (_ & HB1 & HT1 & Hr). destruct Hr as (P' & HM1 & HC1 & Hf1 & Hd1); [intros p []|].
    destruct (commit_sync_stored st1 pending1 st' Ec) as [HM2 Hs2].
    pose proof (commit_sync_ok mb Hmb st1 pending1 HB1) as Q2. rewrite Ec in Q2.
    pose proof (quiet_same st1 st' Q2) as HT2.
    split; [eapply Mono_trans; eassumption|]. cbn [stored_under]. intros e He.
    destruct (SameTree_trans _ _ _ HT1 HT2 d) as [Ed _]. rewrite Ed in He.
    destruct (SameTree_trans _ _ _ HT1 HT2 (snd e)) as [_ Ei]. rewrite Ei.
    destruct (is_dir C (fsys mb st) (snd e)) eqn:Hd.
    + eapply stored_under_mono; [exact HT2|exact HM2|]. apply Hd1; assumption.
    + apply forallb_nth_sto. intros k Hk. destruct (HM2 (snd e)) as [L2 _]. rewrite L2 in Hk.
      specialize (Hf1 e He Hd k Hk). destruct (HC1 (snd e, k)) as [H1|H1]; [exact Hf1| |].
      * rewrite <- seg_at_nth. exact (Mono_sto _ _ (snd e, k) HM2 H1).
      * rewrite <- seg_at_nth. exact (Hs2 (snd e, k) H1).
Qed.

(* MarshalManifest: when it returns a text, nothing reachable within the recursion bound is still buffered *)
Theorem b_marshal_stored tab st st1 txt : BInv mb st -> b_marshal mb tab st = (st1, Ok txt) ->
  stored_under (length (inodes C (fsys mb st))) (fsys mb st1) root_id.
Proof.
  intros HB E. unfold b_marshal in E.
  destruct (flush_dir mb (length (inodes C (fsys mb st))) true true true st root_id) as [st1' ok] eqn:Ef.
  destruct ok; [|inversion E]. inversion E; subst. exact (proj2 (flush_dir_stored _ st root_id HB st1 Ef)).
Qed.

(* with the recursion bound, that is exactly the round-trip theorem's condition *)
Lemma ready_of_stored : forall fuel s d, deep_ok mb fuel s d = true -> stored_under fuel s d -> ready mb fuel s d = true.
Proof.
  induction fuel as [|fuel IH]; intros s d Hd Hs; [discriminate|]. cbn [deep_ok ready stored_under] in *.
  apply forallb_forall. intros e He. rewrite forallb_forall in Hd. specialize (Hd e He). specialize (Hs e He).
  destruct (is_dir C s (snd e)); [apply IH; assumption|exact Hs].
Qed.
Lemma deep_ok_same s s' : SameTree s s' -> forall fuel d, deep_ok mb fuel s' d = deep_ok mb fuel s d.
Proof.
  intros HT. induction fuel as [|fuel IH]; intros d; [reflexivity|]. cbn [deep_ok]. destruct (HT d) as [-> _].
  induction (dir_ents C s d) as [|e l IHl]; [reflexivity|]. cbn [forallb]. rewrite IHl. f_equal.
  destruct (HT (snd e)) as [_ ->]. destruct (is_dir C s (snd e)); [apply IH|reflexivity].
Qed.

Theorem b_marshal_ready tab st st1 txt : BInv mb st -> b_marshal mb tab st = (st1, Ok txt) ->
  deep_ok mb (length (inodes C (fsys mb st))) (fsys mb st) root_id = true ->
  ready mb (length (inodes C (fsys mb st1))) (fsys mb st1) root_id = true.
Proof.
  intros HB E Hd.
  pose proof (b_marshal_quiet mb Hmb tab st HB) as Q. rewrite E in Q. cbn [fst] in Q.
  assert (Hlen : length (inodes C (fsys mb st1)) = length (inodes C (fsys mb st))).
  { rewrite <- !(length_inodes_abs mb). rewrite (proj1 Q). reflexivity. }
  rewrite Hlen. apply ready_of_stored.
  - rewrite (deep_ok_same _ _ (quiet_same st st1 Q)). exact Hd.
  - exact (b_marshal_stored tab st st1 txt HB E).
Qed.

End Flush.
