(* C04 (D) — proofs about the delayed-write model (model/C04_delay.v) and its evaluator.
   The timed program of every scenario (4 priors x PUT/TOUCH x both trash modes) is a fixed label
   sequence; a run is accepted by [trun] only if it follows that sequence, so the statements are proved
   by symbolic execution of each scenario with SYMBOLIC clock values (the quantifier "for all delays,
   wherever they occur" is the quantifier over these values). *)
From Coq Require Import ZArith NArith List Bool Arith String Lia.
From AV Require Import model.C04_race model.C04_delay model.C04_delay_run.
Import ListNotations.
Local Open Scope Z_scope.

(* ---- symbolic execution ---- *)
Ltac run_end H Hok tac :=
  inversion H; subst; clear H; cbn in Hok; try discriminate Hok; tac.

Ltac run_go H Hok tac :=
  lazymatch type of H with
  | None = Some _ => discriminate H
  | trun _ ?steps = Some _ =>
    let l := fresh "l" in let t := fresh "t" in let E := fresh "E" in
    destruct steps as [|[l t] steps];
    [ run_end H Hok tac
    | cbn -[String.eqb] in H;
      lazymatch type of H with
      | (if String.eqb ?a l then _ else _) = Some _ =>
          destruct (String.eqb a l) eqn:E;
          [ apply String.eqb_eq in E; subst l; cbn -[String.eqb] in H; run_go H Hok tac
          | discriminate H ]
      end ]
  end.

(* what the DELETE does to the final state, once it is known whether the stored timestamp is fresh *)
Ltac trash_fresh Hu :=
  let X := fresh "X" in
  match type of Hu with
  | ?u - ?t < ?ttl => assert (X : (u - t <? ttl) = true) by (apply Z.ltb_lt; exact Hu)
  | ?ttl <= ?u - ?t => assert (X : (u - t <? ttl) = false) by (apply Z.ltb_ge; exact Hu)
  end;
  unfold after_trash; cbv -[Z.ltb Z.sub]; rewrite ?X; cbv -[Z.ltb Z.sub]; rewrite ?X; cbv -[Z.ltb Z.sub].

(* Everything the other theorems need about an acknowledged run, in one symbolic execution. *)
Lemma timed_run_char : forall p put rm m0 steps T,
  trun (tinit p put rm m0) steps = Some T -> a_ok (t_s T) = true ->
  exists j t,
    path (t_s T) = Some j /\ last_pre None steps = Some t /\ mtime_of T j = t /\
    (put = true -> cont_good (at_path (t_s T)) = true) /\
    forall u ttl,
      (u - t < ttl ->
         path (after_trash T u ttl) = Some j /\ at_path (after_trash T u ttl) = at_path (t_s T) /\
         trash (after_trash T u ttl) = [] /\ pb (after_trash T u ttl) = B_done BNoop) /\
      (ttl <= u - t ->
         path (after_trash T u ttl) = None /\ pb (after_trash T u ttl) = B_done BTrashed).
Proof.
  intros p put rm m0 steps T H Hok.
  destruct p, put, rm; unfold tinit, tinit_gen, init, init_gen in H; cbn -[String.eqb] in H;
    run_go H Hok ltac:(
      eexists; eexists; split; [reflexivity|]; split; [reflexivity|]; split; [reflexivity|];
      split; [first [intros _; reflexivity | intros X; discriminate X]|];
      intros u ttl; split; intros Hu; trash_fresh Hu; repeat split; reflexivity).
Qed.

(* (1) the stored timestamp of an acknowledged PUT / TOUCH is the clock value at which the request left
   its last yield point before the commit phase, whatever time passed at whichever yield point *)
Theorem delayed_timestamp : forall p put rm m0 steps T,
  trun (tinit p put rm m0) steps = Some T -> a_ok (t_s T) = true ->
  exists j t, path (t_s T) = Some j /\ last_pre None steps = Some t /\ mtime_of T j = t.
Proof.
  intros p put rm m0 steps T H Hok.
  destruct (timed_run_char _ _ _ _ _ _ H Hok) as (j & t & A & B & C & _). eauto.
Qed.

(* (2) hence: a DELETE that arrives less than TTL after that moment leaves the block where it is (after
   a PUT: with the right content); one that arrives later trashes it *)
Theorem delayed_ack_survives : forall p put rm m0 steps T t u ttl,
  trun (tinit p put rm m0) steps = Some T -> a_ok (t_s T) = true -> last_pre None steps = Some t ->
  u - t < ttl ->
  present (after_trash T u ttl) = true /\
  (put = true -> cont_good (at_path (after_trash T u ttl)) = true) /\
  pb (after_trash T u ttl) = B_done BNoop.
Proof.
  intros p put rm m0 steps T t u ttl H Hok Hl Hu.
  destruct (timed_run_char _ _ _ _ _ _ H Hok) as (j & t' & A & B & C & D & F).
  assert (Et : t' = t) by congruence. rewrite Et in *. clear Et B. destruct (F u ttl) as [(P1 & P2 & P3 & P4) _]; [exact Hu|].
  unfold present. rewrite P1, P2. auto.
Qed.

Theorem delayed_expiry_trashes : forall p put rm m0 steps T t u ttl,
  trun (tinit p put rm m0) steps = Some T -> a_ok (t_s T) = true -> last_pre None steps = Some t ->
  ttl <= u - t ->
  present (after_trash T u ttl) = false /\ pb (after_trash T u ttl) = B_done BTrashed.
Proof.
  intros p put rm m0 steps T t u ttl H Hok Hl Hu.
  destruct (timed_run_char _ _ _ _ _ _ H Hok) as (j & t' & A & B & C & D & F).
  assert (Et : t' = t) by congruence. rewrite Et in *. clear Et B. destruct (F u ttl) as [_ G]. destruct (G Hu) as [P1 P2].
  unfold present. rewrite P1. auto.
Qed.

(* ---- the boolean oracle is the Prop-level specification ---- *)
Definition DSpec (c : dcase) : Prop :=
  d_a_ok c = true ->
  forall t, last_pre None (rels c) = Some t ->
    (exists m, d_mtime c = Some m /\ t - GRAN <= m) /\
    (d_u_hi c - t + MARGIN < d_ttl c ->
       d_present c = true /\ (d_put c = true -> d_get_ok c = true)).

Theorem dspec_b_iff : forall c, dspec_b c = true <-> DSpec c.
Proof.
  intros c. unfold dspec_b, DSpec. destruct (d_a_ok c); cbn [negb orb].
  2: { split; [intros _ X; discriminate X|reflexivity]. }
  destruct (last_pre None (rels c)) as [t|].
  2: { split; [intros _ _ t X; discriminate X|reflexivity]. }
  rewrite andb_true_iff. split.
  - intros [A B] _ t' X. inversion X; subst t'. split.
    + destruct (d_mtime c) as [m|]; [|discriminate A]. exists m. split; [reflexivity|apply Z.leb_le; exact A].
    + intros Hlt. apply orb_true_iff in B. destruct B as [B|B].
      * apply negb_true_iff in B. apply Z.ltb_ge in B. lia.
      * apply andb_true_iff in B. destruct B as [B1 B2]. split; [exact B1|].
        intros Hp. rewrite Hp in B2. exact B2.
  - intros Hs. destruct (Hs eq_refl t eq_refl) as [(m & Hm & Hle) Hrest]. split.
    + rewrite Hm. apply Z.leb_le. exact Hle.
    + destruct (d_u_hi c - t + MARGIN <? d_ttl c) eqn:E; [|reflexivity]. cbn [negb orb].
      apply Z.ltb_lt in E. destruct (Hrest E) as [P G]. rewrite P. cbn [andb].
      destruct (d_put c); [rewrite (G eq_refl); reflexivity|reflexivity].
Qed.

(* ---- the model's own behaviour satisfies the specification: every scenario, every timed run ---- *)
Definition model_case (p : prior) (put rm : bool) (ttl m0 : Z) (steps : list (string * Z)) (T : tst) (u : Z) : dcase :=
  let s' := after_trash T u ttl in
  {| d_prior := p; d_put := put; d_rm := rm; d_ttl := ttl; d_m0 := m0;
     d_steps := map (fun x => (fst x, snd x, snd x)) steps;
     d_a_ok := a_ok (t_s T);
     d_mtime := match path (t_s T) with Some j => Some (mtime_of T j) | None => None end;
     d_u_lo := u; d_u_hi := u;
     d_b_ok := b_status_ok s'; d_present := present s'; d_get_ok := cont_good (at_path s');
     d_ntrash := N.of_nat (List.length (trash s')); d_stray := 0%N |}.

Lemma rels_model_case p put rm ttl m0 steps T u : rels (model_case p put rm ttl m0 steps T u) = steps.
Proof.
  unfold rels, model_case. cbn [d_steps]. rewrite map_map. cbn [fst snd].
  induction steps as [|[l t] r IH]; cbn [map fst snd]; [reflexivity|rewrite IH; reflexivity].
Qed.

Theorem delay_model_meets_spec : forall p put rm ttl m0 steps T u,
  trun (tinit p put rm m0) steps = Some T -> DSpec (model_case p put rm ttl m0 steps T u).
Proof.
  intros p put rm ttl m0 steps T u H. unfold DSpec. rewrite rels_model_case.
  intros Hok t Hl. cbn [model_case d_a_ok] in Hok.
  destruct (timed_run_char _ _ _ _ _ _ H Hok) as (j & t' & A & B & C & D & F).
  assert (Et : t' = t) by congruence. rewrite Et in *. clear Et B. cbn [model_case d_mtime d_u_hi d_ttl d_present d_get_ok d_put].
  rewrite A. split.
  - exists (mtime_of T j). split; [reflexivity|]. rewrite C. unfold GRAN. lia.
  - intros Hlt. assert (Hu : u - t < ttl) by (unfold MARGIN in Hlt; lia).
    destruct (delayed_ack_survives _ _ _ _ _ _ _ _ _ H Hok Hl Hu) as (P1 & P2 & _). auto.
Qed.

(* ---- the statement has teeth: in the VARIANT that reads the clock when the temp file is created
   (before the Serialize lock and the data copy) an acknowledged block is trashed although the DELETE
   arrives less than TTL after the request left its last yield point before the commit phase ---- *)
Local Open Scope string_scope.
Definition early_steps : list (string * Z) :=
  [("stat:v.os.Stat", 0); ("WriteBlock:os.MkdirAll", 0); ("WriteBlock:v.os.TempFile", 0);
   ("WriteBlock:v.lock", 100);      (* the Serialize mutex was busy for 100 time units *)
   ("WriteBlock:write:tmpfile", 100); ("WriteBlock:tmpfile.Close", 100);
   ("WriteBlock:os.Chtimes", 100); ("WriteBlock:v.os.OpenFile", 100); ("WriteBlock:v.os.Rename", 100)]%Z.
Local Close Scope string_scope.

Theorem delayed_early_ts_refuted :
  exists T t u ttl,
    trun (tinit_gen PAbsent true false 0 true) early_steps = Some T /\ a_ok (t_s T) = true /\
    last_pre None early_steps = Some t /\ u - t < ttl /\
    present (after_trash T u ttl) = false.
Proof.
  destruct (trun (tinit_gen PAbsent true false 0 true) early_steps) as [T|] eqn:E; [|vm_compute in E; discriminate E].
  exists T, 100, 150, 120. vm_compute in E. inversion E; subst T. vm_compute. repeat split; reflexivity.
Qed.
