(* C06 (a) — EachCollection visits every collection that exists throughout the scan.
   Re-homed from design-evidence/Paging.v + PagingPage.v; extended with timestamp ties among the
   concurrent events (Tick), the request/callback faults and the final count check.
   Invariant (DESIGN §5 C06): with cursor K = (last.mtime, last.uuid),
     I1 every persistent, not yet visited row has key > K;
     I2 in the `modified_at > F` mode every such row has mtime > F;
     I3 filterTime = last.mtime in the `>= F, uuid != last` mode, and last.mtime = F in exact mode. *)
From Coq Require Import List Arith Lia Bool Sorted Permutation.
From AV Require Import model.C06_model.
Import ListNotations.

Definition key_lt (a b : row) : Prop :=
  mtime a < mtime b \/ (mtime a = mtime b /\ uuid a < uuid b).

(* ---------- key order facts ---------- *)
Lemma key_lt_irrefl a : ~ key_lt a a.
Proof. unfold key_lt; lia. Qed.
Lemma key_lt_trans a b c : key_lt a b -> key_lt b c -> key_lt a c.
Proof. unfold key_lt; lia. Qed.
Lemma key_tricho a b : uuid a <> uuid b -> key_lt a b \/ key_lt b a.
Proof. unfold key_lt; lia. Qed.

Definition above (l : option row) (r : row) : Prop :=
  match l with None => True | Some l => key_lt l r end.

Lemma skip_not_above l c : skip l c = true -> ~ above l c.
Proof.
  destruct l as [l|]; simpl; [|discriminate].
  rewrite andb_true_iff, Nat.eqb_eq, Nat.leb_le. unfold key_lt. lia.
Qed.

(* ---------- the server's page function, characterised ---------- *)
Section Scan.
Variable page : list row -> flt -> nat -> list row.
Hypothesis page_in : forall db f n r, In r (page db f n) -> In r db /\ matches f r = true.
Hypothesis page_closed : forall db f n r r', NoDup (map uuid db) ->
  In r db -> matches f r = true -> In r' (page db f n) -> key_lt r r' -> In r (page db f n).
Hypothesis page_sorted : forall db f n, NoDup (map uuid db) -> StronglySorted key_lt (page db f n).
Hypothesis page_nonempty : forall db f n r,
  1 <= n -> In r db -> matches f r = true -> page db f n <> [].

(* mode-specific part of the invariant *)
Definition mode_inv (s : st) (db : list row) (alive : list nat) : Prop :=
  match cur s with
  | FNone => last s = None /\ exact s = false
  | FGe t u => exact s = false /\ ftime s = t /\ exists l, last s = Some l /\ mtime l = t /\ uuid l = u
  | FEq t u => exact s = true /\ ftime s = t /\ exists l, last s = Some l /\ mtime l = t /\ uuid l = u
  | FGt t => exact s = false /\ ftime s = t /\ (exists l, last s = Some l /\ mtime l = t) /\
             forall r, In r db -> In (uuid r) alive -> In (uuid r) (visited s) \/ t < mtime r
  end.

Definition cover (s : st) (db : list row) (alive : list nat) : Prop :=
  forall r, In r db -> In (uuid r) alive -> In (uuid r) (visited s) \/ above (last s) r.

Definition Inv (s : st) (db : list row) (clock : nat) (alive : list nat) : Prop :=
  NoDup (map uuid db) /\
  (forall r, In r db -> 1 <= mtime r <= clock) /\
  lastm s <= clock /\ ftime s <= clock /\
  (forall l, last s = Some l -> In (uuid l) (visited s) /\ 1 <= mtime l) /\
  cover s db alive /\ mode_inv s db alive.

(* rows with the same uuid in a NoDup db are equal *)
Lemma nodup_uuid_eq db a b :
  NoDup (map uuid db) -> In a db -> In b db -> uuid a = uuid b -> a = b.
Proof.
  induction db as [|x xs IH]; simpl; intros Hnd Ha Hb He; [contradiction|].
  inversion Hnd as [|? ? Hnin Hnd']; subst.
  destruct Ha as [->|Ha], Hb as [->|Hb]; auto.
  - exfalso; apply Hnin; rewrite He; apply in_map; exact Hb.
  - exfalso; apply Hnin; rewrite <- He; apply in_map; exact Ha.
Qed.

(* an unvisited persistent row above the old cursor, not above a page item c, matches the filter *)
Lemma unvisited_matches s db alive r c n :
  mode_inv s db alive ->
  (forall l, last s = Some l -> In (uuid l) (visited s) /\ 1 <= mtime l) ->
  In r db -> In (uuid r) alive -> ~ In (uuid r) (visited s) ->
  above (last s) r ->
  In c (page db (cur s) n) -> key_lt r c ->
  matches (cur s) r = true.
Proof.
  intros Hm Hl Hr Ha Hnv Hab Hc Hrc.
  destruct (page_in _ _ _ _ Hc) as [_ Hcm].
  unfold mode_inv in Hm. destruct (cur s) as [|t u|t u|t]; simpl in *.
  - reflexivity.
  - destruct Hm as (_ & _ & l & Hl1 & Hl2 & Hl3). rewrite Hl1 in Hab; simpl in Hab.
    rewrite andb_true_iff, Nat.leb_le, negb_true_iff, Nat.eqb_neq.
    split; [unfold key_lt in Hab; lia|].
    intro E. apply Hnv. destruct (Hl _ Hl1) as [Hv _]. rewrite E, <- Hl3. exact Hv.
  - destruct Hm as (_ & _ & l & Hl1 & Hl2 & Hl3). rewrite Hl1 in Hab; simpl in Hab.
    rewrite andb_true_iff, Nat.eqb_eq, Nat.ltb_lt in *.
    unfold key_lt in *. lia.
  - destruct Hm as (_ & _ & _ & H2). destruct (H2 r Hr Ha) as [Hv|Hlt]; [contradiction|].
    apply Nat.ltb_lt; exact Hlt.
Qed.

(* processing the items of a page *)
Lemma process_cover s0 db alive n pre suf s :
  NoDup (map uuid db) ->
  mode_inv s0 db alive ->
  (forall l, last s0 = Some l -> In (uuid l) (visited s0) /\ 1 <= mtime l) ->
  cover s0 db alive ->
  page db (cur s0) n = pre ++ suf ->
  (* running state *)
  cur s = cur s0 -> exact s = exact s0 -> ftime s = ftime s0 ->
  (forall u, In u (visited s0) -> In u (visited s)) ->
  cover s db alive ->
  (forall r, In r pre -> In (uuid r) alive -> In (uuid r) (visited s)) ->
  (forall l, last s = Some l -> In (uuid l) (visited s) /\ 1 <= mtime l /\ (last s = last s0 \/ In l pre)) ->
  (forall r, In r db -> 1 <= mtime r) ->
  let s' := process s suf in
  cur s' = cur s0 /\ exact s' = exact s0 /\ ftime s' = ftime s0 /\
  (forall u, In u (visited s0) -> In u (visited s')) /\
  cover s' db alive /\
  (forall r, In r (pre ++ suf) -> In (uuid r) alive -> In (uuid r) (visited s')) /\
  (forall l, last s' = Some l -> In (uuid l) (visited s') /\ 1 <= mtime l /\ (last s' = last s0 \/ In l (pre ++ suf))).
Proof.
  intros Hnd Hm0 Hl0 Hc0 Hpg.
  revert pre s Hpg.
  induction suf as [|c suf IH]; intros pre s Hpg Hcur Hex Hft Hvis Hcov Hpre Hlast Hmt; simpl.
  - rewrite app_nil_r. repeat split; auto; apply Hlast; auto.
  - assert (Hcin : In c (page db (cur s0) n)) by (rewrite Hpg; apply in_or_app; right; left; reflexivity).
    destruct (page_in _ _ _ _ Hcin) as [Hcdb Hcm].
    replace (pre ++ c :: suf) with ((pre ++ [c]) ++ suf) in * by (rewrite <- app_assoc; reflexivity).
    destruct (skip (last s) c) eqn:Hsk.
    + (* skipped: c must already be visited if persistent *)
      assert (Ev : visit s c = s) by (unfold visit; rewrite Hsk; reflexivity).
      rewrite Ev. apply IH; auto.
      * intros r Hr Har. apply in_app_or in Hr. destruct Hr as [Hr|[<-|[]]]; [auto|].
        destruct (Hcov c Hcdb Har) as [Hv|Hab]; [exact Hv|].
        exfalso; eapply skip_not_above; eauto.
      * intros l Hl. destruct (Hlast l Hl) as (A & B & [C|C]); repeat split; auto.
        right; apply in_or_app; left; exact C.
    + (* visited *)
      assert (Ev : visit s c = {| last := Some c; ftime := ftime s; exact := exact s; cur := cur s; visited := uuid c :: visited s |})
        by (unfold visit; rewrite Hsk; reflexivity).
      rewrite Ev. apply IH; simpl; auto.
      * intros r Hr Har.
        destruct (Nat.eq_dec (uuid r) (uuid c)) as [E|NE]; [left; left; symmetry; exact E|].
        destruct (Hcov r Hr Har) as [Hv|Hab]; [left; right; exact Hv|].
        destruct (key_tricho r c NE) as [Hrc|Hcr]; [|right; exact Hcr].
        (* r below c, unvisited: it is in the page before c, hence in pre, hence visited *)
        left; right.
        destruct (in_dec Nat.eq_dec (uuid r) (visited s)) as [Hin|Hnin]; [exact Hin|exfalso].
        assert (Hnv0 : ~ In (uuid r) (visited s0)) by (intro X; apply Hnin; apply Hvis; exact X).
        assert (Hab0 : above (last s0) r).
        { destruct (Hc0 r Hr Har) as [X|X]; [contradiction|exact X]. }
        assert (Hmr : matches (cur s0) r = true).
        { eapply unvisited_matches; eauto. }
        assert (Hrin : In r (page db (cur s0) n)) by (eapply page_closed; eauto).
        rewrite Hpg in Hrin. rewrite <- app_assoc in Hrin. simpl in Hrin.
        apply in_app_or in Hrin. destruct Hrin as [Hrp|[Hrc'|Hrs]].
        -- apply Hnin. apply Hpre; auto.
        -- subst r. apply NE; reflexivity.
        -- (* r after c in a sorted list: contradiction with key_lt r c *)
           pose proof (page_sorted db (cur s0) n Hnd) as Hs. rewrite Hpg in Hs.
           rewrite <- app_assoc in Hs; simpl in Hs.
           assert (Hs2 : StronglySorted key_lt (c :: suf)).
           { clear - Hs. induction pre as [|p pre IHp]; simpl in Hs; [exact Hs|].
             inversion Hs; subst; auto. }
           inversion Hs2 as [|? ? _ Hall]; subst.
           rewrite Forall_forall in Hall. specialize (Hall r Hrs).
           eapply key_lt_irrefl. eapply key_lt_trans; eauto.
      * intros r Hr Har. apply in_app_or in Hr. destruct Hr as [Hr|[<-|[]]]; [right; auto|left; reflexivity].
      * intros l Hl. injection Hl as <-. repeat split; auto.
        right. apply in_or_app; right; left; reflexivity.
Qed.

(* ---------- one page request: advance preserves Inv, Done means covered ---------- *)
Lemma lastm_some s l : last s = Some l -> lastm s = mtime l.
Proof. unfold lastm; intros ->; reflexivity. Qed.
Lemma lastu_some s l : last s = Some l -> lastu s = uuid l.
Proof. unfold lastu; intros ->; reflexivity. Qed.

Lemma process_page s db clock alive n :
  Inv s db clock alive ->
  let s' := process s (page db (cur s) n) in
  cur s' = cur s /\ exact s' = exact s /\ ftime s' = ftime s /\
  (forall u, In u (visited s) -> In u (visited s')) /\
  cover s' db alive /\
  (forall l, last s' = Some l -> In (uuid l) (visited s') /\ 1 <= mtime l /\
       (last s' = last s \/ In l (page db (cur s) n))).
Proof.
  intros (Hnd & Hmt & Hlm & Hft & Hl & Hcov & Hm).
  assert (P := process_cover s db alive n [] (page db (cur s) n) s Hnd Hm Hl Hcov eq_refl
     eq_refl eq_refl eq_refl (fun u H => H) Hcov).
  cbv zeta in P. simpl in P.
  assert (H1 : forall r : row, False -> In (uuid r) alive -> In (uuid r) (visited s)) by (intros r []).
  assert (H2 : forall l, last s = Some l -> In (uuid l) (visited s) /\ 1 <= mtime l /\ (last s = last s \/ False)).
  { intros l Hl'. destruct (Hl l Hl') as [X Y]. repeat split; auto. }
  assert (H3 : forall r, In r db -> 1 <= mtime r) by (intros r Hr; apply (Hmt r Hr)).
  destruct (P H1 H2 H3) as (A & B & C & D & E & _ & G).
  cbv zeta. repeat split; auto; apply G; auto.
Qed.

Definition all_visited (s : st) (db : list row) (alive : list nat) : Prop :=
  forall r, In r db -> In (uuid r) alive -> In (uuid r) (visited s).

Lemma mode_exact_true s db alive :
  mode_inv s db alive -> exact s = true ->
  exists t u l, cur s = FEq t u /\ ftime s = t /\ last s = Some l /\ mtime l = t /\ uuid l = u.
Proof.
  unfold mode_inv. destruct (cur s) as [|t u|t u|t]; intros H E.
  - destruct H as [_ H]; congruence.
  - destruct H as [H _]; congruence.
  - destruct H as (_ & Hf & l & A & B & C). exists t, u, l; auto.
  - destruct H as [H _]; congruence.
Qed.

Lemma unvisited_matches_nonexact s db alive r :
  mode_inv s db alive -> exact s = false ->
  (forall l, last s = Some l -> In (uuid l) (visited s) /\ 1 <= mtime l) ->
  In r db -> In (uuid r) alive -> ~ In (uuid r) (visited s) -> above (last s) r ->
  matches (cur s) r = true.
Proof.
  intros Hm He Hl Hr Ha Hnv Hab. unfold mode_inv in Hm.
  destruct (cur s) as [|t u|t u|t]; simpl.
  - reflexivity.
  - destruct Hm as (_ & _ & l & Hl1 & Hl2 & Hl3). rewrite Hl1 in Hab; simpl in Hab.
    rewrite andb_true_iff, Nat.leb_le, negb_true_iff, Nat.eqb_neq.
    split; [unfold key_lt in Hab; lia|].
    intro E. apply Hnv. destruct (Hl _ Hl1) as [Hv _]. rewrite E, <- Hl3. exact Hv.
  - destruct Hm as [Hm _]; congruence.
  - destruct Hm as (_ & _ & _ & H2). destruct (H2 r Hr Ha) as [Hv|Hlt]; [contradiction|].
    apply Nat.ltb_lt; exact Hlt.
Qed.

Lemma lastm_zero_none s :
  (forall l, last s = Some l -> 1 <= mtime l) -> lastm s = 0 -> last s = None.
Proof.
  unfold lastm. destruct (last s) as [l|]; auto. intros H E. specialize (H l eq_refl). lia.
Qed.

Lemma Inv_build s db clock alive :
  NoDup (map uuid db) -> (forall r, In r db -> 1 <= mtime r <= clock) ->
  lastm s <= clock -> ftime s <= clock ->
  (forall l, last s = Some l -> In (uuid l) (visited s) /\ 1 <= mtime l) ->
  cover s db alive -> mode_inv s db alive -> Inv s db clock alive.
Proof. unfold Inv; intros A B C D E F G. split; [exact A|]. split; [exact B|]. split; [exact C|]. split; [exact D|]. split; [exact E|]. split; [exact F|exact G]. Qed.

Lemma advance_ok s db clock alive n :
  1 <= n ->
  Inv s db clock alive ->
  match advance s (page db (cur s) n) with
  | Continue s' => Inv s' db clock alive /\ (forall u, In u (visited s) -> In u (visited s'))
  | Done s' => all_visited s' db alive
  | Bug _ => True
  end.
Proof.
  intros Hn HI.
  pose proof (process_page s db clock alive n HI) as P. cbv zeta in P.
  destruct HI as (Hnd & Hmt & Hlm & Hft & Hl & Hcov & Hm).
  unfold advance.
  set (pg := page db (cur s) n) in *.
  set (s1 := process s pg) in *.
  destruct P as (Pc & Pe & Pf & Pv & Pcov & Pl).
  assert (Hl1 : forall l, last s1 = Some l -> In (uuid l) (visited s1) /\ 1 <= mtime l).
  { intros l E. destruct (Pl l E) as (A & B & _); auto. }
  assert (Hlm1 : lastm s1 <= clock).
  { unfold lastm. destruct (last s1) as [l|] eqn:E; [|lia].
    destruct (Pl l eq_refl) as (_ & _ & [X|X]).
    - unfold lastm in Hlm. rewrite <- X in Hlm. exact Hlm.
    - destruct (page_in _ _ _ _ X) as [Y _]. apply Hmt in Y. lia. }
  assert (Hm1 : mode_inv s1 db alive -> True) by auto.
  (* mode_inv transported to s1 where only visited/last changed is re-established per branch *)
  assert (Done_case : pg = [] -> exact s = false -> all_visited s db alive).
  { intros Epg Eex r Hr Ha.
    destruct (in_dec Nat.eq_dec (uuid r) (visited s)) as [Hin|Hnin]; [exact Hin|exfalso].
    destruct (Hcov r Hr Ha) as [X|Hab]; [contradiction|].
    assert (Hmr : matches (cur s) r = true) by (eapply unvisited_matches_nonexact; eauto).
    eapply page_nonempty; eauto. }
  assert (Branches :
    (pg = [] -> s1 = s) ->
    match (if lastm s1 =? 0 then Bug s1
     else if negb (length pg =? 0) && (lastm s1 =? ftime s1)
     then Continue {| last := last s1; ftime := ftime s1; exact := true; cur := FEq (ftime s1) (lastu s1); visited := visited s1 |}
     else if exact s1
     then Continue {| last := last s1; ftime := ftime s1; exact := false; cur := FGt (ftime s1); visited := visited s1 |}
     else Continue {| last := last s1; ftime := lastm s1; exact := false; cur := FGe (lastm s1) (lastu s1); visited := visited s1 |})
    with
    | Continue s' => Inv s' db clock alive /\ (forall u, In u (visited s) -> In u (visited s'))
    | Done s' => all_visited s' db alive
    | Bug _ => True
    end).
  { intros Hnil.
    destruct (lastm s1 =? 0) eqn:E0; [exact I|].
    apply Nat.eqb_neq in E0.
    assert (exists l, last s1 = Some l) as [l El].
    { destruct (last s1) as [l|] eqn:E; [eauto|]. exfalso; apply E0; unfold lastm; rewrite E; reflexivity. }
    destruct (negb (length pg =? 0) && (lastm s1 =? ftime s1)) eqn:E2.
    - (* enter / stay in exact mode *)
      apply andb_true_iff in E2. destruct E2 as [_ E2]. apply Nat.eqb_eq in E2.
      split; [|exact Pv].
      apply Inv_build; simpl; auto.
      + rewrite Pf; exact Hft.
      + unfold mode_inv; simpl. split; [reflexivity|]. split; [reflexivity|].
        exists l. split; [exact El|]. split.
        * rewrite <- E2. symmetry; apply lastm_some; exact El.
        * symmetry; apply lastu_some; exact El.
    - destruct (exact s1) eqn:Ex.
      + (* leave exact mode: page must have been empty *)
        assert (Exs : exact s = true) by (symmetry; exact Pe).
        destruct (mode_exact_true _ _ _ Hm Exs) as (t & u & l0 & Ec & Ef & El0 & Em0 & Eu0).
        assert (Hlt : lastm s1 = t).
        { rewrite (lastm_some _ _ El). destruct (Pl l El) as (_ & _ & [X|X]).
          - rewrite X in El. rewrite El0 in El. injection El as <-. exact Em0.
          - unfold pg in X. rewrite Ec in X. destruct (page_in _ _ _ _ X) as [_ Y]. simpl in Y.
            apply andb_true_iff in Y. destruct Y as [Y _]. apply Nat.eqb_eq in Y. exact Y. }
        assert (Epg : pg = []).
        { destruct pg as [|x xs]; [reflexivity|exfalso].
          simpl in E2. rewrite Pf, Ef, Hlt, Nat.eqb_refl in E2. discriminate. }
        specialize (Hnil Epg).
        split; [|exact Pv].
        apply Inv_build; simpl; auto.
        * rewrite Pf; exact Hft.
        * unfold mode_inv; simpl. split; [reflexivity|]. split; [reflexivity|]. split.
          -- exists l. split; auto. rewrite <- (lastm_some _ _ El). rewrite Hlt, Pf, Ef. reflexivity.
          -- intros r Hr Ha. rewrite Hnil.
             destruct (in_dec Nat.eq_dec (uuid r) (visited s)) as [Hin|Hnin]; [left; exact Hin|right].
             destruct (Hcov r Hr Ha) as [X|Hab]; [contradiction|].
             rewrite El0 in Hab; simpl in Hab. try rewrite Pf. rewrite Ef.
             destruct (Nat.lt_ge_cases t (mtime r)) as [G|G]; [exact G|exfalso].
             assert (Hmr : matches (cur s) r = true).
             { rewrite Ec; simpl. rewrite andb_true_iff, Nat.eqb_eq, Nat.ltb_lt. unfold key_lt in Hab. lia. }
             eapply page_nonempty; [exact Hn|exact Hr|exact Hmr|exact Epg].
      + (* normal case: filterTime := last.mtime *)
        split; [|exact Pv].
        apply Inv_build; simpl; auto.
        unfold mode_inv; simpl. split; [reflexivity|]. split; [reflexivity|].
        exists l. split; [exact El|]. split.
        -- symmetry; apply lastm_some; exact El.
        -- symmetry; apply lastu_some; exact El. }
  destruct pg as [|x xs] eqn:Epg.
  - assert (Hs : s1 = s) by reflexivity.
    destruct (exact s1) eqn:Ex.
    + apply Branches. intros _; exact Hs.
    + rewrite Hs. apply Done_case; [reflexivity|]. rewrite <- Hs. exact Ex.
  - apply Branches. intros X; discriminate.
Qed.

End Scan.

(* ---------- the concrete server: sort, filter, take ---------- *)
Lemma key_ltb_spec a b : key_ltb a b = true <-> key_lt a b.
Proof.
  unfold key_ltb, key_lt. rewrite orb_true_iff, andb_true_iff, !Nat.ltb_lt, Nat.eqb_eq. tauto.
Qed.

Lemma insert_in x y l : In y (insert x l) <-> y = x \/ In y l.
Proof.
  induction l as [|z l IH]; simpl; [intuition|].
  destruct (key_ltb x z); simpl; [intuition|]. rewrite IH. intuition.
Qed.
Lemma isort_in y l : In y (isort l) <-> In y l.
Proof.
  induction l as [|x l IH]; simpl; [tauto|]. rewrite insert_in, IH. intuition.
Qed.

Lemma insert_sorted x l :
  (forall y, In y l -> uuid y <> uuid x) ->
  StronglySorted key_lt l -> StronglySorted key_lt (insert x l).
Proof.
  induction l as [|z l IH]; intros Hne Hs; simpl.
  - constructor; [constructor|constructor].
  - inversion Hs as [|? ? Hs' Hall]; subst.
    destruct (key_ltb x z) eqn:E.
    + apply key_ltb_spec in E. constructor; [exact Hs|].
      constructor; [exact E|]. rewrite Forall_forall in *. intros y Hy.
      eapply key_lt_trans; [exact E|]. apply Hall; exact Hy.
    + constructor.
      * apply IH; auto. intros y Hy. apply Hne. right; exact Hy.
      * rewrite Forall_forall in *. intros y Hy. apply -> insert_in in Hy.
        destruct Hy as [->|Hy]; [|apply Hall; exact Hy].
        assert (Hzx : uuid z <> uuid x) by (apply Hne; left; reflexivity).
        destruct (key_tricho z x Hzx) as [H|H]; [exact H|].
        apply key_ltb_spec in H. congruence.
Qed.

Lemma isort_sorted l : NoDup (map uuid l) -> StronglySorted key_lt (isort l).
Proof.
  induction l as [|x l IH]; intros Hnd; simpl; [constructor|].
  inversion Hnd as [|? ? Hnin Hnd']; subst.
  apply insert_sorted; auto.
  intros y Hy E. apply -> isort_in in Hy. apply Hnin. rewrite <- E. apply in_map; exact Hy.
Qed.

Lemma nodup_filter_uuid (p : row -> bool) l : NoDup (map uuid l) -> NoDup (map uuid (filter p l)).
Proof.
  induction l as [|a l IH]; simpl; intros H; [constructor|].
  inversion H as [|? ? Hnin Hnd]; subst. destruct (p a); simpl; auto.
  constructor; auto. intro X. apply Hnin. apply in_map_iff in X. destruct X as (r & E & Hr).
  apply filter_In in Hr. destruct Hr as [Hr _]. apply in_map_iff. exists r; auto.
Qed.

Lemma sorted_firstn n l : StronglySorted key_lt l -> StronglySorted key_lt (firstn n l).
Proof.
  revert n. induction l as [|a l IH]; intros n Hs; destruct n; simpl; try constructor.
  - inversion Hs; subst. apply IH; auto.
  - inversion Hs as [|? ? _ Hall]; subst. rewrite Forall_forall in *. intros y Hy.
    apply Hall. rewrite <- (firstn_skipn n l). apply in_or_app; left; exact Hy.
Qed.

(* in a strictly sorted list, firstn is downward closed *)
Lemma firstn_closed n l r r' :
  StronglySorted key_lt l -> In r l -> In r' (firstn n l) -> key_lt r r' -> In r (firstn n l).
Proof.
  revert n. induction l as [|a l IH]; intros n Hs Hr Hr' Hlt; destruct n; simpl in *; try contradiction.
  inversion Hs as [|? ? Hs' Hall]; subst. rewrite Forall_forall in Hall.
  destruct Hr as [->|Hr]; [left; reflexivity|].
  destruct Hr' as [->|Hr'].
  - exfalso. eapply key_lt_irrefl. eapply key_lt_trans; [exact Hlt|]. apply Hall; exact Hr.
  - right. eapply IH; eauto.
Qed.

Theorem page_in_ok db f n r : In r (page db f n) -> In r db /\ matches f r = true.
Proof.
  unfold page. intros H.
  assert (In r (isort (filter (matches f) db))).
  { rewrite <- (firstn_skipn n (isort _)). apply in_or_app; left; exact H. }
  apply -> isort_in in H0. apply filter_In in H0. exact H0.
Qed.
Theorem page_sorted_ok db f n : NoDup (map uuid db) -> StronglySorted key_lt (page db f n).
Proof.
  intros H. unfold page. apply sorted_firstn. apply isort_sorted. apply nodup_filter_uuid; exact H.
Qed.
Theorem page_nonempty_ok db f n r : 1 <= n -> In r db -> matches f r = true -> page db f n <> [].
Proof.
  intros Hn Hr Hm. unfold page.
  assert (Hin : In r (isort (filter (matches f) db))) by (apply isort_in, filter_In; auto).
  destruct (isort (filter (matches f) db)) as [|a l]; [contradiction|].
  destruct n; [lia|]. simpl. discriminate.
Qed.
(* downward closure needs sortedness, hence uniqueness of uuids *)
Theorem page_closed_ok db f n r r' :
  NoDup (map uuid db) -> In r db -> matches f r = true -> In r' (page db f n) -> key_lt r r' -> In r (page db f n).
Proof.
  intros Hnd Hr Hm Hr' Hlt. unfold page in *.
  eapply firstn_closed; eauto.
  - apply isort_sorted. apply nodup_filter_uuid; exact Hnd.
  - apply isort_in, filter_In; auto.
Qed.

Lemma advance_ok_page s db clock alive n :
  1 <= n ->
  Inv s db clock alive ->
  match advance s (page db (cur s) n) with
  | Continue s' => Inv s' db clock alive /\ (forall u, In u (visited s) -> In u (visited s'))
  | Done s' => all_visited s' db alive
  | Bug _ => True
  end.
Proof.
  apply (advance_ok page).
  - intros; eapply page_in_ok; eauto.
  - intros; eapply page_closed_ok; eauto.
  - intros; apply page_sorted_ok; auto.
  - intros; eapply page_nonempty_ok; eauto.
Qed.

(* ---------- environment: concurrent edits between requests ---------- *)
Lemma touch_uuid clock u r : uuid (touch clock u r) = uuid r.
Proof. unfold touch. destruct (uuid r =? u) eqn:E; simpl; auto. apply Nat.eqb_eq in E; auto. Qed.
Lemma map_touch_uuid clock u db : map uuid (map (touch clock u) db) = map uuid db.
Proof. induction db; simpl; [reflexivity|]. rewrite touch_uuid, IHdb; reflexivity. Qed.

Lemma above_fresh s clock r : lastm s < clock -> mtime r = clock -> above (last s) r.
Proof. unfold lastm, above. destruct (last s) as [l|]; auto. unfold key_lt. lia. Qed.

(* inside a batch "now" is strictly later than anything the scanner has seen *)
Definition SInv (s : st) (db : list row) (clock : nat) (alive : list nat) : Prop :=
  Inv s db clock alive /\ lastm s < clock /\ ftime s < clock.

(* alive uuids always name a row of the table *)
Definition AInv (db : list row) (alive : list nat) : Prop := incl alive (map uuid db).

Lemma event_inv s db clock alive e :
  SInv s db clock alive -> AInv db alive ->
  let '(db', clock', alive') := apply_event (db, clock, alive) e in
  SInv s db' clock' alive' /\ (forall u, In u alive' -> In u alive).
Proof.
  intros ((Hnd & Hmt & Hlm & Hft & Hl & Hcov & Hm) & Sl & Sf) HA.
  destruct e as [u|u|u| |u t]; simpl.
  - (* Modify *)
    split; [|auto]. split; [|split; assumption]. apply Inv_build; auto.
    + rewrite map_touch_uuid; exact Hnd.
    + intros r Hr. apply in_map_iff in Hr. destruct Hr as (r0 & <- & Hr0).
      unfold touch. destruct (uuid r0 =? u); simpl; [lia|]. apply Hmt; exact Hr0.
    + intros r Hr Ha. apply in_map_iff in Hr. destruct Hr as (r0 & <- & Hr0).
      rewrite touch_uuid in *. unfold touch. destruct (uuid r0 =? u) eqn:E.
      * destruct (in_dec Nat.eq_dec (uuid r0) (visited s)); [left; auto|right].
        apply above_fresh with (clock := clock); auto.
      * apply Hcov; auto.
    + unfold mode_inv in *. destruct (cur s) as [|t x|t x|t]; auto.
      destruct Hm as (A & B & C & D). repeat split; auto.
      intros r Hr Ha. apply in_map_iff in Hr. destruct Hr as (r0 & <- & Hr0).
      rewrite touch_uuid in *. unfold touch. destruct (uuid r0 =? u) eqn:E.
      * simpl. right. lia.
      * apply D; auto.
  - (* Add *)
    destruct (has_uuid db u) eqn:Hh.
    + split; [|auto]. split; [|split; assumption]. apply Inv_build; auto.
    + split; [|auto]. split; [|split; assumption].
      assert (Hnin : ~ In u (map uuid db)).
      { intro X. apply in_map_iff in X. destruct X as (r & E & Hr).
        unfold has_uuid in Hh. assert (existsb (fun r => uuid r =? u) db = true).
        { apply existsb_exists. exists r. split; auto. apply Nat.eqb_eq; auto. }
        congruence. }
      apply Inv_build; auto.
      * simpl. constructor; auto.
      * intros r [<-|Hr]; simpl; [lia|]. apply Hmt; exact Hr.
      * intros r [<-|Hr] Ha; simpl in *.
        -- right. apply above_fresh with (clock := clock); auto.
        -- apply Hcov; auto.
      * unfold mode_inv in *. destruct (cur s) as [|t x|t x|t]; auto.
        destruct Hm as (A & B & C & D). repeat split; auto.
        intros r [<-|Hr] Ha; simpl in *; [right; lia|apply D; auto].
  - (* Delete *)
    split.
    + split; [|split; assumption]. apply Inv_build; auto.
      * clear - Hnd. induction db as [|a db IH]; simpl; [constructor|].
        inversion Hnd as [|? ? Hnin0 Hnd0]; subst. destruct (negb (uuid a =? u)); simpl; auto.
        constructor; auto. intro X. apply Hnin0. apply in_map_iff in X. destruct X as (r & E & Hr).
        apply filter_In in Hr. destruct Hr as [Hr _]. apply in_map_iff. exists r; auto.
      * intros r Hr. apply filter_In in Hr. destruct Hr as [Hr _]. auto.
      * intros r Hr Ha. apply filter_In in Hr. destruct Hr as [Hr _].
        apply in_remove in Ha. destruct Ha as [Ha _]. apply Hcov; auto.
      * unfold mode_inv in *. destruct (cur s) as [|t x|t x|t]; auto.
        destruct Hm as (A & B & C & D). repeat split; auto.
        intros r Hr Ha. apply filter_In in Hr. destruct Hr as [Hr _].
        apply in_remove in Ha. destruct Ha as [Ha _]. apply D; auto.
    + intros x Hx. apply in_remove in Hx. tauto.
  - (* Tick *)
    split; [|auto]. split; [|split; lia]. apply Inv_build; auto.
    intros r Hr. specialize (Hmt r Hr). lia.
  - (* Insert: a row that is not alive; nothing is claimed about it *)
    destruct (has_uuid db u || (t =? 0) || (clock <? t)) eqn:Hh.
    + split; [|auto]. split; [|split; assumption]. apply Inv_build; auto.
    + apply orb_false_iff in Hh. destruct Hh as [Hh Ht2]. apply orb_false_iff in Hh. destruct Hh as [Hh Ht1].
      apply Nat.eqb_neq in Ht1. apply Nat.ltb_ge in Ht2.
      split; [|auto]. split; [|split; assumption].
      assert (Hnin : ~ In u (map uuid db)).
      { intro X. apply in_map_iff in X. destruct X as (r & E & Hr).
        unfold has_uuid in Hh. assert (existsb (fun r => uuid r =? u) db = true).
        { apply existsb_exists. exists r. split; auto. apply Nat.eqb_eq; auto. }
        congruence. }
      assert (Hna : ~ In u alive) by (intro X; apply Hnin; apply HA; exact X).
      apply Inv_build; auto.
      * simpl. constructor; auto.
      * intros r [<-|Hr]; simpl; [lia|]. apply Hmt; exact Hr.
      * intros r [<-|Hr] Ha; simpl in *; [contradiction|apply Hcov; auto].
      * unfold mode_inv in *. destruct (cur s) as [|t0 x|t0 x|t0]; auto.
        destruct Hm as (A & B & C & D). repeat split; auto.
        intros r [<-|Hr] Ha; simpl in *; [contradiction|apply D; auto].
Qed.

Arguments apply_event : simpl never.

(* alive uuids only disappear *)
Lemma event_alive db clock alive e :
  let '(db', clock', alive') := apply_event (db, clock, alive) e in
  incl alive' alive /\ (AInv db alive -> AInv db' alive').
Proof.
  unfold apply_event. destruct e as [u|u|u| |u t].
  - split; [apply incl_refl|]. unfold AInv. rewrite map_touch_uuid. auto.
  - destruct (has_uuid db u); split; try apply incl_refl; auto.
    unfold AInv. intros H x Hx. simpl. right. apply H; exact Hx.
  - split; [intros x Hx; apply in_remove in Hx; tauto|].
    unfold AInv. intros H x Hx. apply in_remove in Hx. destruct Hx as [Hx Hne].
    apply H in Hx. apply in_map_iff in Hx. destruct Hx as (r & E & Hr). apply in_map_iff. exists r. split; auto.
    apply filter_In. split; auto. apply negb_true_iff. apply Nat.eqb_neq. congruence.
  - split; [apply incl_refl|auto].
  - destruct (has_uuid db u || (t =? 0) || (clock <? t)); split; try apply incl_refl; auto.
    unfold AInv. intros H x Hx. simpl. right. apply H; exact Hx.
Qed.
Lemma events_alive evs : forall db clock alive,
  let '(db', clock', alive') := fold_left apply_event evs (db, clock, alive) in
  incl alive' alive /\ (AInv db alive -> AInv db' alive').
Proof.
  induction evs as [|e evs IH]; intros db clock alive; simpl; [split; [apply incl_refl|auto]|].
  pose proof (event_alive db clock alive e) as H. revert H.
  destruct (apply_event (db, clock, alive) e) as [[db1 c1] a1]. intros [H1 H2].
  specialize (IH db1 c1 a1). revert IH.
  destruct (fold_left apply_event evs (db1, c1, a1)) as [[db2 c2] a2]. intros [I1 I2].
  split; [eapply incl_tran; eauto|auto].
Qed.
Lemma batch_alive evs db clock alive :
  let '(db', clock', alive') := apply_batch evs (db, clock, alive) in
  incl alive' alive /\ (AInv db alive -> AInv db' alive').
Proof. unfold apply_batch. apply events_alive. Qed.

Lemma events_inv s evs : forall db clock alive,
  SInv s db clock alive -> AInv db alive ->
  let '(db', clock', alive') := fold_left apply_event evs (db, clock, alive) in
  SInv s db' clock' alive' /\ (forall u, In u alive' -> In u alive).
Proof.
  induction evs as [|e evs IH]; intros db clock alive HI HA; simpl; [auto|].
  pose proof (event_inv s db clock alive e HI HA) as H.
  pose proof (event_alive db clock alive e) as H'. revert H H'.
  destruct (apply_event (db, clock, alive) e) as [[db1 c1] a1].
  intros [H1 H2] [_ H3].
  specialize (IH db1 c1 a1 H1 (H3 HA)). revert IH.
  destruct (fold_left apply_event evs (db1, c1, a1)) as [[db2 c2] a2].
  intros [I1 I2]. split; auto.
Qed.

Lemma batch_inv s evs db clock alive :
  Inv s db clock alive -> AInv db alive ->
  let '(db', clock', alive') := apply_batch evs (db, clock, alive) in
  Inv s db' clock' alive' /\ (forall u, In u alive' -> In u alive).
Proof.
  intros HI HA. unfold apply_batch.
  assert (HS : SInv s db (S clock) alive).
  { destruct HI as (Hnd & Hmt & Hlm & Hft & Hl & Hcov & Hm). split; [|split; lia].
    apply Inv_build; auto. intros r Hr. specialize (Hmt r Hr). lia. }
  pose proof (events_inv s evs db (S clock) alive HS HA) as H. revert H.
  destruct (fold_left apply_event evs (db, S clock, alive)) as [[db1 c1] a1].
  intros [[H1 _] H2]. split; auto.
Qed.

(* ---------- the whole call ---------- *)
Arguments apply_batch : simpl never.
Arguments advance : simpl never.
Arguments page : simpl never.

Lemma pages_complete fuel n f : forall evs db clock alive s k res vis db' clock' alive' s',
  1 <= n ->
  Inv s db clock alive -> AInv db alive ->
  pages fuel n f evs (db, clock, alive) s k = (res, vis, (db', clock', alive'), s') ->
  res = ROk ->
  (forall u, In u alive' -> In u vis) /\ incl alive' alive.
Proof.
  induction fuel as [|fuel IH]; intros evs db clock alive s k res vis db' clock' alive' s' Hn HI HA0 Hs Hok; simpl in Hs.
  - exfalso; congruence.
  - pose proof (batch_inv s (hd [] evs) db clock alive HI HA0) as HE.
    pose proof (batch_alive (hd [] evs) db clock alive) as HB. revert HE HB Hs.
    destruct (apply_batch (hd [] evs) (db, clock, alive)) as [[db1 c1] a1].
    intros [HI1 _] [Hsub HA1] Hs. specialize (HA1 HA0). cbv beta iota in Hs.
    destruct (is_k (fail_req f) k); [exfalso; congruence|].
    pose proof (advance_ok_page s db1 c1 a1 n Hn HI1) as HA. revert HA Hs.
    destruct (advance s (page db1 (cur s) n)) as [s2|s2|s2]; intros HA Hs.
    + destruct (cb_failed f s2); [exfalso; congruence|].
      destruct HA as [HI2 _].
      destruct (IH _ _ _ _ _ _ _ _ _ _ _ _ Hn HI2 HA1 Hs Hok) as [A B]. split; [exact A|eapply incl_tran; eauto].
    + destruct (cb_failed f s2); [exfalso; congruence|].
      (* Done: every alive uuid has been visited; events before the final count only shrink alive *)
      assert (Hvis : forall u, In u a1 -> In u (visited s2)).
      { intros u Hu. pose proof (HA1 u Hu) as Hm. apply in_map_iff in Hm. destruct Hm as (r & Er & Hr).
        subst u. apply HA; [exact Hr|exact Hu]. }
      pose proof (batch_alive (hd [] (tl evs)) db1 c1 a1) as HB2. revert HB2 Hs.
      destruct (apply_batch (hd [] (tl evs)) (db1, c1, a1)) as [[db2 c2] a2].
      intros [Hsub2 _] Hs. cbv beta iota in Hs.
      destruct (is_k (fail_req f) (S k)); [exfalso; congruence|].
      destruct (length (visited s2) <? count_le db2 (ftime s2)); [exfalso; congruence|].
      injection Hs as _ <- _ _ <- _. split.
      * intros u Hu. rewrite <- in_rev. apply Hvis. apply Hsub2. exact Hu.
      * eapply incl_tran; eauto.
    + destruct (cb_failed f s2); exfalso; congruence.
Qed.

(* uuids that no Delete event names stay alive *)
Definition never_deleted (u : nat) (evs : list (list event)) : Prop :=
  forall b, In b evs -> ~ In (Delete u) b.

Lemma event_keeps u db clock alive e :
  In u alive -> e <> Delete u ->
  let '(_, _, alive') := apply_event (db, clock, alive) e in In u alive'.
Proof.
  unfold apply_event. intros Hu Hne.
  destruct e as [v|v|v| |v t]; [exact Hu|destruct (has_uuid db v); exact Hu| |exact Hu|destruct (has_uuid db v || (t =? 0) || (clock <? t)); exact Hu].
  apply in_in_remove; [intro E; apply Hne; rewrite E; reflexivity|exact Hu].
Qed.
Lemma events_keep u evs : forall db clock alive,
  In u alive -> ~ In (Delete u) evs ->
  let '(_, _, alive') := fold_left apply_event evs (db, clock, alive) in In u alive'.
Proof.
  induction evs as [|e evs IH]; intros db clock alive Hu Hn; simpl; [exact Hu|].
  pose proof (event_keeps u db clock alive e Hu) as H.
  assert (e <> Delete u) by (intro E; apply Hn; left; exact E). specialize (H H0). revert H.
  destruct (apply_event (db, clock, alive) e) as [[db1 c1] a1]. intros H.
  apply IH; auto. intro X. apply Hn. right; exact X.
Qed.
Lemma batch_keeps u evs db clock alive :
  In u alive -> ~ In (Delete u) evs ->
  let '(_, _, alive') := apply_batch evs (db, clock, alive) in In u alive'.
Proof. unfold apply_batch. apply events_keep. Qed.

Lemma hd_never u evs : never_deleted u evs -> ~ In (Delete u) (hd [] evs).
Proof. destruct evs as [|b r]; simpl; [tauto|]. intros H. apply H. left; reflexivity. Qed.
Lemma tl_never u evs : never_deleted u evs -> never_deleted u (tl evs).
Proof. destruct evs as [|b r]; simpl; [auto|]. intros H b' Hb. apply H. right; exact Hb. Qed.

Lemma pages_keeps u fuel n f : forall evs db clock alive s k res vis db' clock' alive' s',
  In u alive -> never_deleted u evs ->
  pages fuel n f evs (db, clock, alive) s k = (res, vis, (db', clock', alive'), s') -> In u alive'.
Proof.
  induction fuel as [|fuel IH]; intros evs db clock alive s k res vis db' clock' alive' s' Hu Hn Hs; simpl in Hs.
  - injection Hs as _ _ _ _ <- _. exact Hu.
  - pose proof (batch_keeps u (hd [] evs) db clock alive Hu (hd_never _ _ Hn)) as HB. revert HB Hs.
    destruct (apply_batch (hd [] evs) (db, clock, alive)) as [[db1 c1] a1].
    intros Hu1 Hs. cbv beta iota in Hs.
    destruct (is_k (fail_req f) k); [injection Hs as _ _ _ _ <- _; exact Hu1|].
    destruct (advance s (page db1 (cur s) n)) as [s2|s2|s2].
    + destruct (cb_failed f s2); [injection Hs as _ _ _ _ <- _; exact Hu1|].
      eapply IH; [exact Hu1|apply tl_never; exact Hn|exact Hs].
    + destruct (cb_failed f s2); [injection Hs as _ _ _ _ <- _; exact Hu1|].
      pose proof (batch_keeps u (hd [] (tl evs)) db1 c1 a1 Hu1 (hd_never _ _ (tl_never _ _ Hn))) as HB2. revert HB2 Hs.
      destruct (apply_batch (hd [] (tl evs)) (db1, c1, a1)) as [[db2 c2] a2].
      intros Hu2 Hs. cbv beta iota in Hs.
      destruct (is_k (fail_req f) (S k)); [injection Hs as _ _ _ _ <- _; exact Hu2|].
      destruct (length (visited s2) <? count_le db2 (ftime s2)); injection Hs as _ _ _ _ <- _; exact Hu2.
    + destruct (cb_failed f s2); injection Hs as _ _ _ _ <- _; exact Hu1.
Qed.

(* initial state *)
Lemma Inv_init db clock :
  NoDup (map uuid db) -> (forall r, In r db -> 1 <= mtime r <= clock) ->
  Inv init db clock (map uuid db).
Proof.
  intros A B. apply Inv_build; auto.
  - unfold lastm; simpl. lia.
  - unfold init; simpl. lia.
  - simpl. intros l X; discriminate.
  - intros r Hr Ha. right. exact I.
  - unfold mode_inv; simpl; auto.
Qed.

(* EachCollection returned nil => every collection that was there at the start and was not deleted
   while the scan ran has been handed to the callback - whatever the page size, the ties, the
   concurrent modifications/additions/deletions, and for any fuel that sufficed *)
Theorem each_collection_complete fuel n f evs db clock vis w' s' :
  1 <= n -> NoDup (map uuid db) -> (forall r, In r db -> 1 <= mtime r <= clock) ->
  each_collection fuel n f evs db clock = (ROk, vis, w', s') ->
  forall u, In u (map uuid db) -> never_deleted u evs -> In u vis.
Proof.
  intros Hn Hnd Hmt Hs u Hu Hdel. unfold each_collection in Hs.
  pose proof (batch_inv init (hd [] evs) db clock (map uuid db) (Inv_init db clock Hnd Hmt) (incl_refl _)) as HE.
  pose proof (batch_alive (hd [] evs) db clock (map uuid db)) as HB.
  pose proof (batch_keeps u (hd [] evs) db clock (map uuid db) Hu (hd_never _ _ Hdel)) as HK.
  revert HE HB HK Hs.
  destruct (apply_batch (hd [] evs) (db, clock, map uuid db)) as [[db1 c1] a1].
  intros [HI1 _] [_ HA1] Hu1 Hs.
  destruct (is_k (fail_req f) 0); [discriminate|].
  destruct w' as [[db' clock'] alive'].
  destruct (pages_complete _ _ _ _ _ _ _ _ _ _ _ _ _ _ _ Hn HI1 (HA1 (incl_refl _)) Hs eq_refl) as [A _].
  apply A. eapply pages_keeps; [exact Hu1|apply tl_never; exact Hdel|exact Hs].
Qed.

(* the count check and the faults never turn a failed scan into a success: anything but ROk is an error
   return of EachCollection; conversely the visited sequence never contains a uuid that was not in a page *)
Lemma result_cases (r : result) : r = ROk \/ r <> ROk.
Proof. destruct r; auto; right; discriminate. Qed.

(* the boolean used by the evaluator on observed (result, visited) is the statement above *)
Definition deleted_in (u : nat) (evs : list (list event)) : bool :=
  existsb (fun b => existsb (fun e => match e with Delete v => v =? u | _ => false end) b) evs.
Lemma deleted_in_false u evs : deleted_in u evs = false -> never_deleted u evs.
Proof.
  unfold deleted_in, never_deleted. intros H b Hb Hd.
  assert (existsb (fun b => existsb (fun e => match e with Delete v => v =? u | _ => false end) b) evs = true); [|congruence].
  apply existsb_exists. exists b. split; [exact Hb|]. apply existsb_exists. exists (Delete u). split; [exact Hd|apply Nat.eqb_refl].
Qed.

Corollary each_collection_spec fuel n f evs db clock vis w' s' :
  1 <= n -> NoDup (map uuid db) -> (forall r, In r db -> 1 <= mtime r <= clock) ->
  each_collection fuel n f evs db clock = (ROk, vis, w', s') ->
  forallb (fun r => deleted_in (uuid r) evs || existsb (Nat.eqb (uuid r)) vis) db = true.
Proof.
  intros Hn Hnd Hmt Hs. apply forallb_forall. intros r Hr.
  destruct (deleted_in (uuid r) evs) eqn:D; [reflexivity|]. simpl.
  apply existsb_exists. exists (uuid r). split; [|apply Nat.eqb_refl].
  eapply each_collection_complete; eauto. apply in_map; exact Hr. apply deleted_in_false; exact D.
Qed.
