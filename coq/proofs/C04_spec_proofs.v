(* C04 — the boolean specifications of model/C04_run.v (history level) and model/C04_race_run.v
   (interleaving level) reflect Prop-level specifications. *)
From Coq Require Import ZArith NArith List String Bool Lia.
From AV Require Import lib.Str model.C04_model model.C04_run.
Import ListNotations.
Local Open Scope Z_scope.

(* ---- generic ---- *)
Lemma forallb_iff {A} (f : A -> bool) (P : A -> Prop) l :
  (forall x, f x = true <-> P x) -> (forallb f l = true <-> forall x, In x l -> P x).
Proof. intros H. rewrite forallb_forall. split; intros G x Hx; apply H; apply G; exact Hx. Qed.
Lemma existsb_iff {A} (f : A -> bool) (P : A -> Prop) l :
  (forall x, f x = true <-> P x) -> (existsb f l = true <-> exists x, In x l /\ P x).
Proof. intros H. rewrite existsb_exists. split; intros (x & A1 & A2); exists x; (split; [exact A1|apply H; exact A2]). Qed.
Lemma and_iff_compat (A B C D : Prop) : (A <-> B) -> (C <-> D) -> (A /\ C <-> B /\ D).
Proof. tauto. Qed.
Lemma or_iff_compat (A B C D : Prop) : (A <-> B) -> (C <-> D) -> (A \/ C <-> B \/ D).
Proof. tauto. Qed.

Lemma blk_eqb_eq a b : blk_eqb a b = true <-> a = b.
Proof.
  destruct a as [h m], b as [h' m']. unfold blk_eqb. cbn. rewrite andb_true_iff, String.eqb_eq, Z.eqb_eq.
  split; [intros [-> ->]; reflexivity|intros X; inversion X; auto].
Qed.
Lemma tr_eqb_eq a b : tr_eqb a b = true <-> a = b.
Proof.
  destruct a as [h d m], b as [h' d' m']. unfold tr_eqb. cbn. rewrite !andb_true_iff, String.eqb_eq, !Z.eqb_eq.
  split; [intros [[-> ->] ->]; reflexivity|intros X; inversion X; auto].
Qed.
Lemma subset_iff {A} (eqb : A -> A -> bool) : (forall a b, eqb a b = true <-> a = b) ->
  forall a b, subset eqb a b = true <-> incl a b.
Proof.
  intros He a b. unfold subset, incl. apply forallb_iff. intros x. rewrite existsb_exists. split.
  - intros (y & A1 & A2). apply He in A2. subst. exact A1.
  - intros Hx. exists x. split; [exact Hx|apply He; reflexivity].
Qed.
Definition SetEq {A} (a b : list A) : Prop := incl a b /\ incl b a /\ List.length a = List.length b.
Lemma seteq_iff {A} (eqb : A -> A -> bool) : (forall a b, eqb a b = true <-> a = b) ->
  forall a b, seteq eqb a b = true <-> SetEq a b.
Proof.
  intros He a b. unfold seteq, SetEq. rewrite !andb_true_iff, !(subset_iff eqb He), Nat.eqb_eq. tauto.
Qed.
Definition ListingEq (a b : listing) : Prop := SetEq (fst a) (fst b) /\ SetEq (snd a) (snd b).
Lemma listing_eqb_iff a b : listing_eqb a b = true <-> ListingEq a b.
Proof. unfold listing_eqb, ListingEq. rewrite andb_true_iff, (seteq_iff blk_eqb blk_eqb_eq), (seteq_iff tr_eqb tr_eqb_eq). tauto. Qed.

Definition HasBlock (l : listing) (h : string) : Prop := exists m, find_block (fst l) h = Some m.
Lemma l_has_block_iff l h : l_has_block l h = true <-> HasBlock l h.
Proof. unfold l_has_block, HasBlock. destruct (find_block (fst l) h); split; eauto; try discriminate. intros (m & X); discriminate. Qed.
Lemma l_has_block_false l h : l_has_block l h = false <-> ~ HasBlock l h.
Proof. rewrite <- l_has_block_iff. destruct (l_has_block l h); split; congruence. Qed.
Definition HasTrash (l : listing) (h : string) : Prop := exists t, In t (snd l) /\ t_hash t = h.
Lemma l_has_trash_iff l h : l_has_trash l h = true <-> HasTrash l h.
Proof. unfold l_has_trash, HasTrash. apply existsb_iff. intros t. apply String.eqb_eq. Qed.
Definition HasTrashKey (l : listing) (h : string) (d : Z) : Prop := exists t, In t (snd l) /\ t_hash t = h /\ t_dead t = d.
Lemma l_has_trash_key_iff l h d : l_has_trash_key l h d = true <-> HasTrashKey l h d.
Proof.
  unfold l_has_trash_key, HasTrashKey. apply existsb_iff. intros t. unfold same_trash.
  rewrite andb_true_iff, String.eqb_eq, Z.eqb_eq. tauto.
Qed.

(* ---- the clauses, Prop level ---- *)
Definition AsksTrash (c : cfg) (o : op) (now : Z) (uuid h : string) (m : Z) : Prop :=
  match o with
  | Delete h' => h' = h
  | TrashList its => exists it, In it its /\
      (((i_hash it = h /\ i_mtime it = m) /\ (i_mount it = ""%string \/ i_mount it = uuid)) /\ ttl c <= now - i_mtime it)
  | _ => False
  end.
Lemma asks_trash_iff c o now uuid h m : asks_trash c o now uuid h m = true <-> AsksTrash c o now uuid h m.
Proof.
  destruct o; cbn [asks_trash AsksTrash]; try (split; [discriminate|contradiction]).
  - apply existsb_iff. intros it. rewrite !andb_true_iff, orb_true_iff, !String.eqb_eq, Z.eqb_eq, Z.leb_le. tauto.
  - apply String.eqb_eq.
Qed.

(* a block file that disappears *)
Definition RemovedOk (c : cfg) (ro : bool) (uuid : string) (st : sobs) (after : listing) (b : blk) : Prop :=
  HasBlock after (b_hash b) \/
  ((((ro = false /\ blob_trash c = true) /\ ttl c <= s_now st - b_mtime b) /\
    AsksTrash c (s_op st) (s_now st) uuid (b_hash b) (b_mtime b)) /\
   (life c = 0 \/
    exists t, In t (snd after) /\
      (((t_hash t = b_hash b /\ t_mtime t = b_mtime b) /\ (s_lo st + life c) / NS <= t_dead t) /\
       t_dead t <= (s_hi st + life c) / NS))).
Lemma removed_ok_iff c ro uuid st before after b :
  removed_ok c ro uuid st before after b = true <-> RemovedOk c ro uuid st after b.
Proof.
  unfold removed_ok, RemovedOk. rewrite orb_true_iff, l_has_block_iff. apply or_iff_compat; [tauto|].
  rewrite !andb_true_iff, negb_true_iff, Z.leb_le, asks_trash_iff, orb_true_iff, Z.eqb_eq.
  apply and_iff_compat; [tauto|]. apply or_iff_compat; [tauto|].
  apply existsb_iff. intros t. rewrite !andb_true_iff, String.eqb_eq, Z.eqb_eq, !Z.leb_le. tauto.
Qed.

(* a trashed copy that disappears *)
Definition UntrashedOk (ro : bool) (st : sobs) (after : listing) (t : tr) : Prop :=
  HasTrashKey after (t_hash t) (t_dead t) \/
  (ro = false /\ match s_op st with
                 | EmptyTrash => t_dead t <= s_hi st / NS
                 | Untrash h => h = t_hash t
                 | _ => False
                 end).
Lemma untrashed_ok_iff ro st after t : untrashed_ok ro st after t = true <-> UntrashedOk ro st after t.
Proof.
  unfold untrashed_ok, UntrashedOk. rewrite orb_true_iff, l_has_trash_key_iff, andb_true_iff, negb_true_iff.
  apply or_iff_compat; [tauto|]. apply and_iff_compat; [tauto|].
  destruct (s_op st); try (split; [discriminate|contradiction]); [apply String.eqb_eq|apply Z.leb_le].
Qed.

(* a trashed copy that appears *)
Definition NewTrashOk (before after : listing) (t : tr) : Prop :=
  HasTrashKey before (t_hash t) (t_dead t) \/
  ((exists b, In b (fst before) /\ (b_hash b = t_hash t /\ b_mtime b = t_mtime t)) /\ ~ HasBlock after (t_hash t)).
Lemma newtrash_ok_iff before after t : newtrash_ok before after t = true <-> NewTrashOk before after t.
Proof.
  unfold newtrash_ok, NewTrashOk. rewrite orb_true_iff, l_has_trash_key_iff, andb_true_iff, negb_true_iff, l_has_block_false.
  apply or_iff_compat; [tauto|]. apply and_iff_compat; [|tauto].
  apply existsb_iff. intros b. rewrite andb_true_iff, String.eqb_eq, Z.eqb_eq. tauto.
Qed.

(* a block file (hash, mtime) that is there afterwards *)
Definition BlockAfterOk (ro : bool) (st : sobs) (before : listing) (b : blk) : Prop :=
  In b (fst before) \/
  (ro = false /\
   match s_op st with
   | Put h => (h = b_hash b /\ s_lo st <= b_mtime b) /\ b_mtime b <= s_hi st
   | Touch h => ((h = b_hash b /\ HasBlock before h) /\ s_lo st <= b_mtime b) /\ b_mtime b <= s_hi st
   | Untrash h => h = b_hash b /\ exists t, In t (snd before) /\ (t_hash t = h /\ t_mtime t = b_mtime b)
   | _ => False
   end).
Lemma block_after_ok_iff ro st before b : block_after_ok ro st before b = true <-> BlockAfterOk ro st before b.
Proof.
  unfold block_after_ok, BlockAfterOk. rewrite orb_true_iff, andb_true_iff, negb_true_iff.
  apply or_iff_compat.
  - rewrite existsb_exists. split.
    + intros (x & A1 & A2). apply blk_eqb_eq in A2. subst. exact A1.
    + intros Hx. exists b. split; [exact Hx|apply blk_eqb_eq; reflexivity].
  - apply and_iff_compat; [tauto|]. destruct (s_op st); try (split; [discriminate|contradiction]).
    + rewrite !andb_true_iff, String.eqb_eq, !Z.leb_le. tauto.
    + rewrite !andb_true_iff, String.eqb_eq, !Z.leb_le, l_has_block_iff. tauto.
    + rewrite andb_true_iff, String.eqb_eq. apply and_iff_compat; [tauto|].
      apply existsb_iff. intros t. rewrite andb_true_iff, String.eqb_eq, Z.eqb_eq. tauto.
Qed.

Definition VolStepOk (c : cfg) (ro : bool) (uuid : string) (st : sobs) (before after : listing) : Prop :=
  ((((ro = false \/ ListingEq before after) /\
     (forall b, In b (fst before) -> RemovedOk c ro uuid st after b)) /\
    (forall t, In t (snd before) -> UntrashedOk ro st after t)) /\
   (forall t, In t (snd after) -> NewTrashOk before after t)) /\
  (forall b, In b (fst after) -> BlockAfterOk ro st before b).
Lemma vol_step_ok_iff c ro uuid st before after :
  vol_step_ok c ro uuid st before after = true <-> VolStepOk c ro uuid st before after.
Proof.
  unfold vol_step_ok, VolStepOk. rewrite !andb_true_iff, orb_true_iff, negb_true_iff, listing_eqb_iff.
  rewrite (forallb_iff _ _ _ (removed_ok_iff c ro uuid st before after)).
  rewrite (forallb_iff _ _ _ (untrashed_ok_iff ro st after)).
  rewrite (forallb_iff _ _ _ (newtrash_ok_iff before after)).
  rewrite (forallb_iff _ _ _ (block_after_ok_iff ro st before)). tauto.
Qed.

Inductive VolsStepOk (c : cfg) (st : sobs) : list bool -> list string -> list listing -> list listing -> Prop :=
| VS_nil : VolsStepOk c st [] [] [] []
| VS_cons ro ros u us b bs a as_ : VolStepOk c ro u st b a -> VolsStepOk c st ros us bs as_ ->
                                   VolsStepOk c st (ro :: ros) (u :: us) (b :: bs) (a :: as_).
Lemma vols_step_ok_iff c st : forall ros us bs as_,
  vols_step_ok c ros us st bs as_ = true <-> VolsStepOk c st ros us bs as_.
Proof.
  induction ros as [|ro ros IH]; intros us bs as_; destruct us as [|u us], bs as [|b bs], as_ as [|a as_]; cbn [vols_step_ok];
    try (split; [discriminate|intros X; inversion X]); [split; [constructor|reflexivity]|].
  rewrite andb_true_iff, vol_step_ok_iff, IH. split; [intros [A B]; constructor; assumption|intros X; inversion X; auto].
Qed.

(* untrash brings a trashed copy back *)
Inductive UntrashVols (h : string) : list bool -> list listing -> list listing -> Prop :=
| UV_end ros bs as_ : (ros = [] \/ bs = [] \/ as_ = []) -> UntrashVols h ros bs as_
| UV_cons ro ros b bs a as_ : ((ro = true \/ ~ HasTrash b h) \/ HasBlock a h) -> UntrashVols h ros bs as_ ->
                              UntrashVols h (ro :: ros) (b :: bs) (a :: as_).
Lemma untrash_ok_vols_iff h : forall ros bs as_, untrash_ok_vols ros h bs as_ = true <-> UntrashVols h ros bs as_.
Proof.
  induction ros as [|ro ros IH]; intros bs as_; [cbn; split; [intros _; apply UV_end; auto|reflexivity]|].
  destruct bs as [|b bs]; [cbn; split; [intros _; apply UV_end; auto|reflexivity]|].
  destruct as_ as [|a as_]; [cbn; split; [intros _; apply UV_end; auto|reflexivity]|].
  cbn [untrash_ok_vols]. rewrite andb_true_iff, !orb_true_iff, negb_true_iff, l_has_block_iff, IH.
  assert (E : l_has_trash b h = false <-> ~ HasTrash b h) by (rewrite <- l_has_trash_iff; destruct (l_has_trash b h); split; congruence).
  rewrite E. split.
  - intros [A B]. apply UV_cons; assumption.
  - intros X. inversion X as [? ? ? [Y|[Y|Y]]|]; subst; try discriminate. auto.
Qed.
Inductive AnyTrashWritable (h : string) : list bool -> list listing -> Prop :=
| AT_here ros b bs : HasTrash b h -> AnyTrashWritable h (false :: ros) (b :: bs)
| AT_later ro ros b bs : AnyTrashWritable h ros bs -> AnyTrashWritable h (ro :: ros) (b :: bs).
Lemma any_trash_writable_iff h : forall ros bs, any_trash_writable ros h bs = true <-> AnyTrashWritable h ros bs.
Proof.
  induction ros as [|ro ros IH]; intros bs; [cbn; split; [discriminate|intros X; inversion X]|].
  destruct bs as [|b bs]; [cbn; split; [discriminate|intros X; inversion X]|].
  cbn [any_trash_writable]. rewrite orb_true_iff, andb_true_iff, negb_true_iff, l_has_trash_iff, IH. split.
  - intros [[-> A]|A]; [apply AT_here; exact A|apply AT_later; exact A].
  - intros X. inversion X; subst; auto.
Qed.
Definition Ok2 (code : N) : Prop := (code / 100 = 2)%N.
Lemma ok2_iff code : ok2 code = true <-> Ok2 code.
Proof. apply N.eqb_eq. Qed.
Definition UntrashOk (ros : list bool) (st : sobs) (before : list listing) : Prop :=
  match s_op st with
  | Untrash h => UntrashVols h ros before (s_after st) /\ (~ AnyTrashWritable h ros before \/ Ok2 (s_code st))
  | _ => True
  end.
Lemma untrash_ok_iff ros st before : untrash_ok ros st before = true <-> UntrashOk ros st before.
Proof.
  unfold untrash_ok, UntrashOk. destruct (s_op st); try tauto.
  rewrite andb_true_iff, orb_true_iff, negb_true_iff, untrash_ok_vols_iff, ok2_iff.
  assert (E : any_trash_writable ros h before = false <-> ~ AnyTrashWritable h ros before)
    by (rewrite <- any_trash_writable_iff; destruct (any_trash_writable ros h before); split; congruence).
  rewrite E. tauto.
Qed.

Inductive StepsOk (c : cfg) (ros : list bool) (us : list string) : list listing -> list sobs -> Prop :=
| SO_nil before : StepsOk c ros us before []
| SO_cons before st r : VolsStepOk c st ros us before (s_after st) -> UntrashOk ros st before ->
                        StepsOk c ros us (s_after st) r -> StepsOk c ros us before (st :: r).
Lemma steps_ok_iff c ros us : forall sts before, steps_ok c ros us before sts = true <-> StepsOk c ros us before sts.
Proof.
  induction sts as [|st r IH]; intros before; cbn [steps_ok]; [split; [constructor|reflexivity]|].
  rewrite !andb_true_iff, vols_step_ok_iff, untrash_ok_iff, IH. split.
  - intros [[A B] D]. constructor; assumption.
  - intros X. inversion X; subst. auto.
Qed.

(* fresh_survives, on observations *)
Definition FreshAt (h : string) (ls : list listing) : Prop := exists l, In l ls /\ HasBlock l h.
Lemma fresh_at_iff h t ls : fresh_at h t ls = true <-> FreshAt h ls.
Proof. unfold fresh_at, FreshAt. apply existsb_iff. intros l. apply l_has_block_iff. Qed.
Definition is_untrash_of (h : string) (o : op) : Prop := o = Untrash h.
Lemma is_untrash_b h o : (match o with Untrash h' => String.eqb h' h | _ => false end) = true <-> o = Untrash h.
Proof.
  destruct o; try (split; [discriminate|intros X; inversion X]).
  rewrite String.eqb_eq. split; [intros ->; reflexivity|intros X; inversion X; reflexivity].
Qed.
Inductive FreshLater (c : cfg) (excl : bool) (h : string) (t : Z) : list sobs -> Prop :=
| FL_nil : FreshLater c excl h t []
| FL_stop st r : excl = true -> s_op st = Untrash h -> FreshLater c excl h t (st :: r)
| FL_cons st r : (excl = false \/ s_op st <> Untrash h) ->
                 (t + ttl c <= s_now st \/ FreshAt h (s_after st)) -> FreshLater c excl h t r ->
                 FreshLater c excl h t (st :: r).
Lemma fresh_later_iff c excl h t : forall sts, fresh_later c excl h t sts = true <-> FreshLater c excl h t sts.
Proof.
  induction sts as [|st r IH]; cbn [fresh_later]; [split; [constructor|reflexivity]|].
  destruct (excl && match s_op st with Untrash h' => String.eqb h' h | _ => false end) eqn:E.
  - apply andb_true_iff in E. destruct E as [E1 E2]. apply is_untrash_b in E2.
    split; [intros _; apply FL_stop; assumption|reflexivity].
  - rewrite andb_true_iff, orb_true_iff, Z.leb_le, fresh_at_iff, IH.
    assert (Hn : excl = false \/ s_op st <> Untrash h).
    { apply andb_false_iff in E. destruct E as [E|E]; [left; exact E|right]. intros X. apply is_untrash_b in X. congruence. }
    split.
    + intros [A B]. apply FL_cons; assumption.
    + intros X. inversion X as [|? ? X1 X2|? ? X1 X2 X3]; subst.
      * destruct Hn as [Hn|Hn]; [congruence|contradiction].
      * auto.
Qed.
Inductive FreshOk (c : cfg) (excl : bool) : list sobs -> Prop :=
| FO_nil : FreshOk c excl []
| FO_cons st r :
    (forall h, (s_op st = Put h \/ s_op st = Touch h) -> Ok2 (s_code st) ->
               FreshAt h (s_after st) /\ FreshLater c excl h (s_now st) r) ->
    FreshOk c excl r -> FreshOk c excl (st :: r).
Lemma fresh_ok_iff c excl : forall sts, fresh_ok c excl sts = true <-> FreshOk c excl sts.
Proof.
  induction sts as [|st r IH]; cbn [fresh_ok]; [split; [constructor|reflexivity]|].
  rewrite andb_true_iff, IH. split.
  - intros [A B]. constructor; [|exact B]. intros h [E|E] Hok; rewrite E in A; apply ok2_iff in Hok; rewrite Hok in A; cbn [negb orb] in A;
      apply andb_true_iff in A; destruct A as [A1 A2]; apply fresh_at_iff in A1; apply fresh_later_iff in A2; auto.
  - intros X. inversion X as [|? ? X1 X2]; subst. split; [|exact X2].
    destruct (s_op st) eqn:E; try reflexivity.
    + destruct (ok2 (s_code st)) eqn:Eo; [|reflexivity]. cbn [negb orb]. destruct (X1 h (or_introl eq_refl) (proj1 (ok2_iff _) Eo)) as [A1 A2].
      apply andb_true_iff. split; [apply (fresh_at_iff h (s_now st)); exact A1|apply fresh_later_iff; exact A2].
    + destruct (ok2 (s_code st)) eqn:Eo; [|reflexivity]. cbn [negb orb]. destruct (X1 h (or_intror eq_refl) (proj1 (ok2_iff _) Eo)) as [A1 A2].
      apply andb_true_iff. split; [apply (fresh_at_iff h (s_now st)); exact A1|apply fresh_later_iff; exact A2].
Qed.

(* the whole history-level specification *)
Definition SpecH (c : case) : Prop :=
  StepsOk (c_cfg c) (c_ro c) (c_uuid c) (c_init c) (c_steps c) /\ FreshOk (c_cfg c) false (c_steps c).
Theorem spec_b_iff c : spec_b c = true <-> SpecH c.
Proof. unfold spec_b, spec_nofresh_b, SpecH. rewrite andb_true_iff, steps_ok_iff, fresh_ok_iff. tauto. Qed.

