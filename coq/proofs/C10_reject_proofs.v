(* C10 — malformed_rejected for the collection filesystem loader: every text that loadManifest accepts is structurally
   well-formed ([wf_manifest]: trailing newline; every line = name, one or more locators with a numeric size, one or
   more file tokens with numeric position and size; every non-empty segment inside its stream).  Contrapositive: a
   malformed text yields an error, and then no tree at all (fs_load returns None).  This was refuted by finding F15
   until commit 44931b6. *)
From Coq Require Import NArith Lia List Bool Ascii String ZifyBool ZifyN Arith.
From AV Require Import lib.Str model.C10_manifest model.C10_ranges model.C10_fs proofs.C10_ranges_proofs.
Import ListNotations.
Local Open Scope string_scope.

(* ---------- numbers ---------- *)
Lemma parse_nonneg_lenient bits s v : parse_nonneg bits s = Some v -> lenient_num s = Some v.
Proof.
  unfold parse_nonneg, parse_int, lenient_num.
  destruct s as [|a r].
  - cbn. discriminate.
  - destruct (Ascii.eqb a "+"%char); [|destruct (Ascii.eqb a "-"%char)].
    + destruct (all_digits r); [|discriminate]. destruct (dec_val r <? 2 ^ (bits - 1))%N; [|discriminate].
      intros H. injection H as <-. reflexivity.
    + destruct (all_digits r); [|discriminate]. destruct (dec_val r <=? 2 ^ (bits - 1))%N; [|discriminate].
      destruct (dec_val r =? 0)%N eqn:E; [|discriminate]. intros H. injection H as <-.
      cbn [andb negb]. apply N.eqb_eq in E. rewrite E. reflexivity.
    + destruct (all_digits (String a r)); [|discriminate]. destruct (dec_val (String a r) <? 2 ^ (bits - 1))%N; [|discriminate].
      intros H. injection H as <-. reflexivity.
Qed.

(* ---------- the loop: cursor and range ---------- *)
Lemma fs_loop_cursor rest : forall pre offset len E sg i p,
  fs_loop rest (List.length pre) (total pre) offset len E = FsSegs sg i p ->
  exists pre' rest', (pre ++ rest = pre' ++ rest')%list /\ i = List.length pre' /\ p = total pre'.
Proof.
  induction rest as [|sl r IH]; intros pre offset len E sg i p H; cbn [fs_loop] in H.
  - destruct (negb (ge_end (total pre) E)); [discriminate|]. injection H as _ <- <-. exists pre, []. auto.
  - assert (Hpre : (pre ++ sl :: r = (pre ++ [sl]) ++ r)%list) by (rewrite <- app_assoc; reflexivity).
    assert (Hlen : S (List.length pre) = List.length (pre ++ [sl])%list) by (rewrite app_length; cbn; lia).
    assert (Htot : (total pre + sl)%N = total (pre ++ [sl])%list) by (rewrite total_snoc; reflexivity).
    destruct ((total pre + sl <=? offset)%N || (sl =? 0)%N).
    + rewrite Hlen, Htot in H. destruct (IH _ _ _ _ _ _ _ H) as (p' & r' & Hs & Hi & Hp).
      exists p', r'. rewrite Hpre. auto.
    + destruct ((len =? 0)%N || ge_end (total pre) E).
      * injection H as _ <- <-. exists pre, (sl :: r). auto.
      * destruct (gt_end (total pre + sl) E).
        -- injection H as _ <- <-. exists pre, (sl :: r). auto.
        -- rewrite Hlen, Htot in H.
           destruct (fs_loop r _ _ offset len E) as [l' i' p'|] eqn:El; [|discriminate].
           injection H as _ <- <-. destruct (IH _ _ _ _ _ _ _ El) as (p'' & r'' & Hs & Hi & Hp).
           exists p'', r''. rewrite Hpre. auto.
Qed.
Lemma fs_loop_range rest : forall pre offset len e sg i p,
  fs_loop rest (List.length pre) (total pre) offset len (Some e) = FsSegs sg i p ->
  len = 0%N \/ (e <= total pre + total rest)%N.
Proof.
  induction rest as [|sl r IH]; intros pre offset len e sg i p H; cbn [fs_loop] in H.
  - cbn [ge_end] in H. destruct (e <=? total pre)%N eqn:E; [|discriminate]. right. rewrite total_nil. lia.
  - assert (Hlen : S (List.length pre) = List.length (pre ++ [sl])%list) by (rewrite app_length; cbn; lia).
    assert (Htot : (total pre + sl)%N = total (pre ++ [sl])%list) by (rewrite total_snoc; reflexivity).
    rewrite total_cons.
    destruct ((total pre + sl <=? offset)%N || (sl =? 0)%N).
    + rewrite Hlen, Htot in H. destruct (IH _ _ _ _ _ _ _ H) as [Hz|Hr]; [left; exact Hz|right]. rewrite total_snoc in Hr. lia.
    + destruct (len =? 0)%N eqn:E0; [left; lia|]. cbn [orb ge_end] in H.
      destruct (e <=? total pre)%N eqn:E1; [right; lia|].
      cbn [gt_end] in H. destruct (e <? total pre + sl)%N eqn:E2; [right; lia|].
      rewrite Hlen, Htot in H.
      destruct (fs_loop r _ _ offset len (Some e)) as [l' i' p'|] eqn:El; [|discriminate].
      destruct (IH _ _ _ _ _ _ _ El) as [Hz|Hr]; [left; exact Hz|right]. rewrite total_snoc in Hr. lia.
Qed.

Lemma fs_map_ok sizes cur offset len e sg i p :
  cur_ok sizes cur -> fs_end offset len = Some e -> fs_map sizes cur offset len = FsSegs sg i p ->
  cur_ok sizes (i, p) /\ (len = 0%N \/ (offset + len <= total sizes)%N).
Proof.
  intros (pre & rest & Hs & Hi & Hp) He H. destruct cur as [segIdx pos]. cbn in Hi, Hp. subst segIdx pos.
  unfold fs_map in H. cbn [snd] in H. rewrite He in H.
  assert (Hev : e = (offset + len)%N).
  { unfold fs_end in He. destruct (offset + len <? 2 ^ 63)%N; [injection He as <-; reflexivity|discriminate]. }
  destruct (offset <? total pre)%N.
  - cbn [skipn] in H. change O with (@List.length N []) in H. change 0%N with (total []) in H.
    destruct (fs_loop_cursor _ _ _ _ _ _ _ _ H) as (p' & r' & Hsp & Hi' & Hp').
    destruct (fs_loop_range _ _ _ _ _ _ _ _ H) as [Hz|Hr].
    + split; [exists p', r'; cbn in Hsp; rewrite Hsp; auto|left; exact Hz].
    + split; [exists p', r'; cbn in Hsp; rewrite Hsp; auto|right]. rewrite total_nil in Hr. lia.
  - subst sizes. rewrite skipn_length_app in H.
    destruct (fs_loop_cursor _ _ _ _ _ _ _ _ H) as (p' & r' & Hsp & Hi' & Hp').
    destruct (fs_loop_range _ _ _ _ _ _ _ _ H) as [Hz|Hr].
    + split; [exists p', r'; auto|left; exact Hz].
    + split; [exists p', r'; auto|right]. rewrite total_app. lia.
Qed.

(* ---------- tokens ---------- *)
Definition range_ok (sizes : list N) (r : N * N) : bool := let '(p, s) := r in ((s =? 0) || (p + s <=? total sizes))%N.

(* a file token accepted by the loader *)
Lemma load_token_file dn st tok st' :
  contains_char c_colon tok = true -> cur_ok (map snd (l_segs st)) (l_cur st) ->
  load_token dn st tok = Some st' ->
  l_segs st <> [] /\ l_segs st' = l_segs st /\ l_any st' = true /\ cur_ok (map snd (l_segs st')) (l_cur st') /\
  exists r, wf_ftok tok = Some r /\ range_ok (map snd (l_segs st)) r = true.
Proof.
  intros Hc Hcur H. unfold load_token in H. rewrite Hc in H. cbn [negb] in H.
  destruct (l_segs st) as [|s0 segs] eqn:Es; [discriminate|].
  unfold wf_ftok. destruct (splitn3 c_colon tok) as [|o [|n [|nm [|? ?]]]]; try discriminate.
  destruct (parse_nonneg 64 o) as [offset|] eqn:Eo; [|discriminate].
  destruct (parse_nonneg 64 n) as [length|] eqn:En; [|discriminate].
  rewrite (parse_nonneg_lenient _ _ _ Eo), (parse_nonneg_lenient _ _ _ En).
  destruct (fs_end offset length) as [e|] eqn:Ee; [|discriminate].
  destruct (create_file_and_parents (l_tree st) (dn ++ "/" ++ fs_unescape nm)) as [[t1 [p|]]|]; [| |discriminate].
  - destruct (fs_map (map snd (s0 :: segs)) (l_cur st) offset length) as [sg i pos|] eqn:Em; [|discriminate].
    injection H as <-. cbn [l_segs l_any l_cur].
    destruct (fs_map_ok _ _ _ _ _ _ _ _ Hcur Ee Em) as [Hc' Hr].
    split; [discriminate|]. split; [reflexivity|]. split; [reflexivity|]. split; [exact Hc'|].
    eexists. split; [reflexivity|]. cbn [range_ok]. destruct Hr as [->|Hr]; [reflexivity|].
    apply orb_true_iff. right. apply N.leb_le. exact Hr.
  - destruct (length =? 0)%N eqn:E0; [|discriminate]. injection H as <-. cbn [l_segs l_any l_cur].
    split; [discriminate|]. split; [reflexivity|]. split; [reflexivity|]. split; [exact Hcur|].
    eexists. split; [reflexivity|]. cbn [range_ok]. rewrite E0. reflexivity.
Qed.

(* phase 2: after the first file token only file tokens are accepted *)
Lemma load_tokens_files dn : forall toks st st',
  l_any st = true -> cur_ok (map snd (l_segs st)) (l_cur st) -> load_tokens dn st toks = Some st' ->
  l_any st' = true /\ span_nocolon toks = ([], toks) /\
  exists rs, map_opt wf_ftok toks = Some rs /\ forallb (range_ok (map snd (l_segs st))) rs = true.
Proof.
  induction toks as [|t r IH]; intros st st' Hany Hcur H; cbn [load_tokens] in H.
  - injection H as <-. split; [exact Hany|]. split; [reflexivity|]. exists []. split; reflexivity.
  - destruct (load_token dn st t) as [st1|] eqn:E1; [|discriminate].
    destruct (contains_char c_colon t) eqn:Ec.
    + destruct (load_token_file dn st t st1 Ec Hcur E1) as (_ & Hs1 & Ha1 & Hc1 & rr & Hw & Hr).
      destruct (IH st1 st' Ha1 Hc1 H) as (Ha' & Hsp & rs & Hm & Hf). rewrite Hs1 in Hf.
      split; [exact Ha'|]. split; [cbn [span_nocolon]; rewrite Ec; reflexivity|].
      exists (rr :: rs). split; [cbn [map_opt]; rewrite Hw, Hm; reflexivity|]. cbn [forallb]. rewrite Hr, Hf. reflexivity.
    + exfalso. unfold load_token in E1. rewrite Ec, Hany in E1. discriminate.
Qed.

(* phase 1: locators, then the first file token *)
Lemma load_tokens_locs dn : forall toks st st',
  l_any st = false -> l_cur st = (O, 0%N) -> load_tokens dn st toks = Some st' -> l_any st' = true ->
  exists locs fts szs rs, span_nocolon toks = (locs, fts) /\ fts <> [] /\
    map_opt wf_locator locs = Some szs /\ map_opt wf_ftok fts = Some rs /\
    (map snd (l_segs st) ++ szs)%list <> [] /\
    forallb (range_ok (map snd (l_segs st) ++ szs)%list) rs = true.
Proof.
  induction toks as [|t r IH]; intros st st' Hany Hcur H Hany'; cbn [load_tokens] in H.
  - injection H as <-. congruence.
  - destruct (load_token dn st t) as [st1|] eqn:E1; [|discriminate].
    destruct (contains_char c_colon t) eqn:Ec.
    + (* the first file token *)
      assert (Hco : cur_ok (map snd (l_segs st)) (l_cur st)) by (rewrite Hcur; apply cur_ok_start).
      destruct (load_token_file dn st t st1 Ec Hco E1) as (Hne & Hs1 & Ha1 & Hc1 & rr & Hw & Hr).
      destruct (load_tokens_files dn r st1 st' Ha1 Hc1 H) as (_ & Hsp & rs & Hm & Hf). rewrite Hs1 in Hf.
      exists [], (t :: r), [], (rr :: rs). rewrite app_nil_r.
      split; [cbn [span_nocolon]; rewrite Ec; reflexivity|]. split; [discriminate|]. split; [reflexivity|].
      split; [cbn [map_opt]; rewrite Hw, Hm; reflexivity|].
      split; [destruct (l_segs st); [congruence|discriminate]|]. cbn [forallb]. rewrite Hr, Hf. reflexivity.
    + (* a locator *)
      unfold load_token in E1. rewrite Ec, Hany in E1. cbn [negb] in E1.
      destruct (fs_loc_size t) as [n|] eqn:En; [|discriminate]. injection E1 as <-.
      destruct (IH {| l_tree := l_tree st; l_segs := (l_segs st ++ [(t, n)])%list; l_any := false; l_cur := l_cur st |}
                   st' eq_refl Hcur H Hany') as (locs & fts & szs & rs & Hsp & Hne & Hl & Hf & Hnn & Hr).
      cbn [l_segs] in Hnn, Hr. rewrite map_app in Hnn, Hr. cbn [map snd] in Hnn, Hr. rewrite <- app_assoc in Hnn, Hr. cbn [app] in Hnn, Hr.
      assert (Hwl : wf_locator t = Some n).
      { unfold fs_loc_size in En. unfold wf_locator. destruct (split_on c_plus t) as [|h [|sz tl]]; try discriminate.
        eapply parse_nonneg_lenient; eauto. }
      exists (t :: locs), fts, (n :: szs), rs.
      split; [cbn [span_nocolon]; rewrite Ec, Hsp; reflexivity|]. split; [exact Hne|].
      split; [cbn [map_opt]; rewrite Hwl, Hl; reflexivity|]. split; [exact Hf|]. split; assumption.
Qed.

Lemma fs_unescape_nil_inv s : fs_unescape s <> "" -> s <> "".
Proof. intros H ->. apply H. reflexivity. Qed.

Lemma load_stream_wf t line t' : load_stream t line = Some t' -> wf_line line = true.
Proof.
  unfold load_stream, wf_line. destruct (split_on c_sp line) as [|nm toks]; [discriminate|].
  destruct (load_tokens (fs_unescape nm) _ toks) as [st|] eqn:El; [|discriminate].
  destruct (negb (l_any st)) eqn:Ea; [discriminate|].
  destruct (l_segs st) eqn:Es; [discriminate|].
  destruct (String.eqb (fs_unescape nm) "") eqn:En; [discriminate|]. intros _.
  assert (Hnm : String.eqb nm "" = false).
  { destruct (String.eqb nm "") eqn:E; [|reflexivity]. apply String.eqb_eq in E. subst nm. cbn in En. discriminate. }
  rewrite Hnm. cbn [negb andb].
  destruct (load_tokens_locs (fs_unescape nm) toks {| l_tree := t; l_segs := []; l_any := false; l_cur := (O, 0%N) |} st
              eq_refl eq_refl El) as (locs & fts & szs & rs & Hsp & Hne & Hl & Hf & Hnn & Hr).
  { destruct (l_any st); [reflexivity|discriminate]. }
  cbn [l_segs map app] in Hnn, Hr.
  rewrite Hsp.
  destruct locs as [|l0 locs]; [cbn in Hl; injection Hl as <-; congruence|].
  destruct fts as [|f0 fts]; [congruence|].
  rewrite Hl, Hf.
  rewrite forallb_forall in Hr. apply forallb_forall. intros [p0 s0] Hin. specialize (Hr _ Hin). exact Hr.
Qed.

Lemma load_streams_wf : forall ls t t', load_streams t ls = Some t' -> forallb wf_line ls = true.
Proof.
  induction ls as [|l ls IH]; intros t t' H; [reflexivity|]. cbn [load_streams] in H.
  destruct (load_stream t l) as [t1|] eqn:E; [|discriminate].
  cbn [forallb]. rewrite (load_stream_wf _ _ _ E), (IH _ _ H). reflexivity.
Qed.

(* malformed_rejected_fs *)
Theorem fs_load_wf : forall txt t, fs_load txt = Some t -> wf_manifest txt = true.
Proof.
  intros txt t. unfold fs_load, wf_manifest. destruct (lines_of txt) as [ls|]; [|discriminate]. apply load_streams_wf.
Qed.
Corollary malformed_rejected_fs : forall txt, wf_manifest txt = false -> fs_load txt = None.
Proof.
  intros txt H. destruct (fs_load txt) as [t|] eqn:E; [|reflexivity]. rewrite (fs_load_wf _ _ E) in H. discriminate.
Qed.
