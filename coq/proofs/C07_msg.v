(* C07 — the signed message hash@token@expiry@ttl is an injective encoding of its four fields when
   the hash has a fixed length and expiry/ttl contain no '@' (tokens may contain '@' and '+').
   Re-homed from design-evidence/SigMsg.v, restated over [string]. *)
From Coq Require Import List Arith Lia Ascii String Bool.
From AV Require Import lib.Str lib.TokSplit model.C07_model.
Import ListNotations.

Section Msg.
Local Open Scope list_scope.
Variable A : Type.
Variable at_ : A.

Definition lmsg (h t e l : list A) : list A := h ++ [at_] ++ t ++ [at_] ++ e ++ [at_] ++ l.

Lemma app_inj_length (a b c d : list A) : List.length a = List.length c -> a ++ b = c ++ d -> a = c /\ b = d.
Proof.
  revert c. induction a as [|x a IH]; intros c Hl He; destruct c as [|y c]; cbn [List.length] in Hl; try lia.
  - auto.
  - cbn [app] in He. injection He as -> He. destruct (IH c ltac:(lia) He) as [-> ->]. auto.
Qed.

Lemma last_sep_inj (s s' l l' : list A) :
  ~ In at_ l -> ~ In at_ l' -> s ++ [at_] ++ l = s' ++ [at_] ++ l' -> s = s' /\ l = l'.
Proof.
  intros Hl Hl' He.
  assert (Hrev : rev l ++ [at_] ++ rev s = rev l' ++ [at_] ++ rev s').
  { apply (f_equal (@rev A)) in He. rewrite !rev_app_distr in He. cbn [rev app] in He.
    rewrite <- !app_assoc in He. exact He. }
  assert (Hn : forall a b c d : list A, ~ In at_ a -> ~ In at_ c -> a ++ [at_] ++ b = c ++ [at_] ++ d -> a = c /\ b = d).
  { induction a as [|x a IH]; intros b c d Ha Hc H.
    - destruct c as [|y c]; cbn [app] in H.
      + injection H as ->. auto.
      + injection H as Hy _. exfalso. apply Hc. left. symmetry; exact Hy.
    - destruct c as [|y c]; cbn [app] in H.
      + injection H as Hx _. exfalso. apply Ha. left. exact Hx.
      + injection H as -> H. destruct (IH b c d) as [-> ->]; auto.
        * intro X; apply Ha; right; exact X.
        * intro X; apply Hc; right; exact X. }
  destruct (Hn (rev l) (rev s) (rev l') (rev s')) as [E1 E2]; auto.
  - intro X. apply Hl. apply in_rev. exact X.
  - intro X. apply Hl'. apply in_rev. exact X.
  - split.
    + rewrite <- (rev_involutive s), <- (rev_involutive s'). f_equal. exact E2.
    + rewrite <- (rev_involutive l), <- (rev_involutive l'). f_equal. exact E1.
Qed.

Theorem lmsg_injective h t e l h' t' e' l' :
  List.length h = List.length h' ->
  ~ In at_ e -> ~ In at_ l -> ~ In at_ e' -> ~ In at_ l' ->
  lmsg h t e l = lmsg h' t' e' l' -> h = h' /\ t = t' /\ e = e' /\ l = l'.
Proof.
  intros Hh He Hl He' Hl' Hm. unfold lmsg in Hm.
  destruct (app_inj_length _ _ _ _ Hh Hm) as [-> Hm1]. cbn [app] in Hm1. injection Hm1 as Hm1.
  assert (H1 : (t ++ [at_] ++ e) ++ [at_] ++ l = (t' ++ [at_] ++ e') ++ [at_] ++ l').
  { rewrite <- !app_assoc. cbn [app]. exact Hm1. }
  destruct (last_sep_inj _ _ _ _ Hl Hl' H1) as [H2 ->].
  destruct (last_sep_inj _ _ _ _ He He' H2) as [-> ->]. auto.
Qed.
End Msg.
Local Open Scope string_scope.

(* transport to strings *)
Lemma loas_app a b : list_ascii_of_string (a ++ b) = (list_ascii_of_string a ++ list_ascii_of_string b)%list.
Proof. induction a as [|c r IH]; cbn [append list_ascii_of_string app]; [reflexivity|]. rewrite IH. reflexivity. Qed.
Lemma loas_inj a b : list_ascii_of_string a = list_ascii_of_string b -> a = b.
Proof. intro H. rewrite <- (string_of_list_ascii_of_string a), <- (string_of_list_ascii_of_string b), H. reflexivity. Qed.
Lemma loas_length a : List.length (list_ascii_of_string a) = String.length a.
Proof. induction a as [|c r IH]; cbn; [reflexivity|]. rewrite IH. reflexivity. Qed.
Lemma has_char_In c s : has_char c s = false -> ~ In c (list_ascii_of_string s).
Proof.
  induction s as [|d r IH]; cbn [has_char list_ascii_of_string In]; [tauto|]. intro H.
  apply orb_false_iff in H. destruct H as [H1 H2]. intros [->|X]; [rewrite Ascii.eqb_refl in H1; discriminate|].
  exact (IH H2 X).
Qed.

Lemma sig_msg_list h t e l :
  list_ascii_of_string (sig_msg h t e l) =
  lmsg ascii "@"%char (list_ascii_of_string h) (list_ascii_of_string t) (list_ascii_of_string e) (list_ascii_of_string l).
Proof. unfold sig_msg, lmsg. rewrite !loas_app. reflexivity. Qed.

Theorem msg_injective h t e l h' t' e' l' :
  String.length h = String.length h' ->
  has_char "@" e = false -> has_char "@" l = false -> has_char "@" e' = false -> has_char "@" l' = false ->
  sig_msg h t e l = sig_msg h' t' e' l' -> h = h' /\ t = t' /\ e = e' /\ l = l'.
Proof.
  intros Hh He Hl He' Hl' Hm. apply (f_equal list_ascii_of_string) in Hm. rewrite !sig_msg_list in Hm.
  apply lmsg_injective in Hm.
  - destruct Hm as (H1 & H2 & H3 & H4). repeat split; apply loas_inj; assumption.
  - rewrite !loas_length. exact Hh.
  - apply has_char_In, He.
  - apply has_char_In, Hl.
  - apply has_char_In, He'.
  - apply has_char_In, Hl'.
Qed.

(* the hypotheses are satisfiable and the statement is not vacuous: a token containing '@' *)
Example msg_injective_example :
  sig_msg "h" "a@b" "5f" "e10" = "h@a@b@5f@e10" /\ sig_msg "h" "a" "b@5f" "e10" = "h@a@b@5f@e10".
Proof. split; reflexivity. Qed.
