(* Tree-level refinement: the implementation model (tree layer over segment-list files) and the
   plain byte-array filesystem produce the same observations on every operation sequence.
   Functional simulation through [abs]: each file node is replaced by its content, each handle's
   pointer by its offset. *)
From Coq Require Import List Arith Lia Bool String.
Import ListNotations.
From AV Require Import lib.Str lib.Path model.CFS_file model.CFS_tree model.CFS_inst
  proofs.CFS_file_proofs proofs.CFS_refine.

Notation length := List.length.
Arguments IFile {I} f.
Arguments IDir {I} ents.

Section Sim.
Variable mb : nat.
Hypothesis Hmb : 1 <= mb.
Notation C := (Conc mb).

Definition abs_node (n : inode C) : inode Spec :=
  match n with IFile f => IFile (I := Spec) (content f) | IDir e => IDir e end.
Definition abs_ino (x : ino C) : ino Spec := {| i_node := abs_node (i_node C x); i_parent := i_parent C x |}.
Definition abs_handle (x : handle C) : handle Spec :=
  @Build_handle Spec (h_ino C x) (off (h_ptr C x)) (h_append C x) (h_r C x) (h_w C x).
Definition abs (s : fs C) : fs Spec :=
  {| inodes := map abs_ino (inodes C s); handles := map abs_handle (handles C s) |}.

(* every file is well formed; every handle on a file has a usable position *)
Definition Inv (s : fs C) : Prop :=
  (forall id f, i_node C (get_ino C s id) = IFile f -> WF f) /\
  (forall h x f, nth_error (handles C s) h = Some x -> i_node C (get_ino C s (h_ino C x)) = IFile f -> hok f (h_ptr C x)).

(* ---------- reading the table ---------- *)
Lemma get_ino_abs s id : get_ino Spec (abs s) id = abs_ino (get_ino C s id).
Proof.
  unfold get_ino, abs. cbn [inodes].
  exact (map_nth abs_ino (inodes C s) {| i_node := IDir []; i_parent := root_id |} id).
Qed.

Lemma is_dir_abs s id : is_dir Spec (abs s) id = is_dir C s id.
Proof. unfold is_dir. rewrite get_ino_abs. cbn. destruct (i_node C (get_ino C s id)); reflexivity. Qed.
Lemma parent_of_abs s id : parent_of Spec (abs s) id = parent_of C s id.
Proof. unfold parent_of. rewrite get_ino_abs. reflexivity. Qed.
Lemma dir_ents_abs s id : dir_ents Spec (abs s) id = dir_ents C s id.
Proof. unfold dir_ents. rewrite get_ino_abs. cbn. destruct (i_node C (get_ino C s id)); reflexivity. Qed.
Lemma child_abs s d n : child Spec (abs s) d n = child C s d n.
Proof. unfold child. rewrite get_ino_abs. cbn. destruct (i_node C (get_ino C s d)); reflexivity. Qed.
Lemma rlookup_comps_abs s comps : forall n, rlookup_comps Spec (abs s) n comps = rlookup_comps C s n comps.
Proof.
  induction comps as [|c r IH]; intros n; cbn [rlookup_comps]; [reflexivity|].
  rewrite is_dir_abs, parent_of_abs, child_abs, !IH.
  destruct (child C s n c) as [[m|]|e]; try reflexivity. rewrite IH. reflexivity.
Qed.
Lemma rlookup_abs s p : rlookup Spec (abs s) p = rlookup C s p.
Proof. apply rlookup_comps_abs. Qed.
Lemma length_inodes_abs s : length (inodes Spec (abs s)) = length (inodes C s).
Proof. cbn. apply map_length. Qed.
Lemma length_handles_abs s : length (handles Spec (abs s)) = length (handles C s).
Proof. cbn. apply map_length. Qed.
Lemma ancestors_abs s fuel : forall id, ancestors Spec (abs s) fuel id = ancestors C s fuel id.
Proof. induction fuel as [|f IH]; intros id; cbn [ancestors]; [reflexivity|]. rewrite parent_of_abs, IH. reflexivity. Qed.
Lemma info_abs s id : Inv s -> info Spec (abs s) id = info C s id.
Proof.
  intros [Hf _]. unfold info. rewrite get_ino_abs. cbn.
  destruct (i_node C (get_ino C s id)) as [f|e] eqn:E; [|reflexivity].
  cbn. f_equal. destruct (Hf id f E) as [Hs _]. symmetry. exact Hs.
Qed.
Lemma get_handle_abs s h : get_handle Spec (abs s) h = option_map abs_handle (get_handle C s h).
Proof. unfold get_handle, abs. cbn [handles]. apply nth_error_map. Qed.

(* ---------- updating the table ---------- *)
Lemma set_ino_abs s id x : abs (set_ino C s id x) = set_ino Spec (abs s) id (abs_ino x).
Proof.
  unfold set_ino. rewrite length_inodes_abs. destruct (id <? length (inodes C s)); [|reflexivity].
  unfold abs. cbn [inodes handles]. f_equal.
  rewrite map_app, firstn_map. cbn [map]. rewrite skipn_map. reflexivity.
Qed.
Lemma add_ino_abs s x : abs (fst (add_ino C s x)) = fst (add_ino Spec (abs s) (abs_ino x)) /\
                        snd (add_ino C s x) = snd (add_ino Spec (abs s) (abs_ino x)).
Proof.
  unfold add_ino. cbn [fst snd]. split; [|symmetry; apply length_inodes_abs].
  unfold abs. cbn [inodes handles]. rewrite map_app. reflexivity.
Qed.
Lemma set_ents_abs s d e : abs (set_ents C s d e) = set_ents Spec (abs s) d e.
Proof. unfold set_ents. rewrite set_ino_abs, get_ino_abs. reflexivity. Qed.
Lemma set_parent_abs s id p : abs (set_parent C s id p) = set_parent Spec (abs s) id p.
Proof. unfold set_parent. rewrite set_ino_abs, get_ino_abs. reflexivity. Qed.
Lemma set_file_abs s id f : abs (set_file C s id f) = set_file Spec (abs s) id (content f).
Proof. unfold set_file. rewrite set_ino_abs, get_ino_abs. reflexivity. Qed.
Lemma add_handle_abs s x : abs (fst (add_handle C s x)) = fst (add_handle Spec (abs s) (abs_handle x)) /\
                           snd (add_handle C s x) = snd (add_handle Spec (abs s) (abs_handle x)).
Proof.
  unfold add_handle. cbn [fst snd]. split; [|symmetry; apply length_handles_abs].
  unfold abs. cbn [inodes handles]. rewrite map_app. reflexivity.
Qed.
Lemma set_handle_abs s h x : abs (set_handle C s h x) = set_handle Spec (abs s) h (abs_handle x).
Proof.
  unfold set_handle. rewrite length_handles_abs. destruct (h <? length (handles C s)); [|reflexivity].
  unfold abs. cbn [inodes handles]. f_equal.
  rewrite map_app, firstn_map. cbn [map]. rewrite skipn_map. reflexivity.
Qed.

(* ---------- the invariant under updates ---------- *)
Lemma nth_firstn_lt' {A} (l : list A) : forall n i d, i < n -> nth i (firstn n l) d = nth i l d.
Proof.
  induction l as [|x l IH]; intros n i d H; [rewrite firstn_nil; reflexivity|].
  destruct n; [lia|]. destruct i; [reflexivity|]. cbn. apply IH. lia.
Qed.
Lemma nth_set {A} (l : list A) i x d j : i < length l ->
  nth j (firstn i l ++ x :: skipn (S i) l) d = if Nat.eqb j i then x else nth j l d.
Proof.
  intros Hi. destruct (Nat.eqb_spec j i) as [->|Hne].
  - rewrite app_nth2; rewrite firstn_length; replace (Nat.min i (length l)) with i by lia; [|lia].
    rewrite Nat.sub_diag. reflexivity.
  - destruct (Nat.lt_ge_cases j i) as [Hlt|Hge].
    + rewrite app_nth1 by (rewrite firstn_length; lia). apply nth_firstn_lt'; exact Hlt.
    + rewrite app_nth2; rewrite firstn_length; replace (Nat.min i (length l)) with i by lia; [|lia].
      destruct (j - i) as [|k] eqn:E; [lia|]. cbn [nth].
      rewrite <- (firstn_skipn (S i) l) at 2. rewrite app_nth2; rewrite firstn_length; [|lia].
      f_equal. lia.
Qed.

Lemma get_set_ino s id x j :
  get_ino C (set_ino C s id x) j = if Nat.eqb j id && (id <? length (inodes C s)) then x else get_ino C s j.
Proof.
  unfold set_ino. destruct (Nat.ltb_spec id (length (inodes C s))) as [Hlt|Hge].
  - unfold get_ino. cbn [inodes]. rewrite nth_set by exact Hlt. rewrite andb_true_r. reflexivity.
  - rewrite andb_false_r. reflexivity.
Qed.

Lemma handles_set_ino s id x : handles C (set_ino C s id x) = handles C s.
Proof. unfold set_ino. destruct (id <? length (inodes C s)); reflexivity. Qed.
Lemma inodes_set_handle s h x : inodes C (set_handle C s h x) = inodes C s.
Proof. unfold set_handle. destruct (h <? length (handles C s)); reflexivity. Qed.
Lemma get_ino_set_handle s h x j : get_ino C (set_handle C s h x) j = get_ino C s j.
Proof. unfold get_ino. rewrite inodes_set_handle. reflexivity. Qed.

(* replacing an inode by one whose file part (if any) is unchanged *)
Lemma Inv_set_ino_same s id x :
  Inv s -> (forall f, i_node C x = IFile f -> i_node C (get_ino C s id) = IFile f) -> Inv (set_ino C s id x).
Proof.
  intros [Hf Hh] Hx. split.
  - intros j f. rewrite get_set_ino. destruct (Nat.eqb_spec j id) as [->|]; cbn [andb].
    + destruct (id <? length (inodes C s)); [|apply Hf]. intros E. apply (Hf id f). apply Hx. exact E.
    + apply Hf.
  - intros h y f. rewrite handles_set_ino. intros Hn. rewrite get_set_ino.
    destruct (Nat.eqb_spec (h_ino C y) id) as [Ey|]; cbn [andb].
    + destruct (id <? length (inodes C s)); [|apply (Hh h y f Hn)]. intros E. apply (Hh h y f Hn). rewrite Ey. apply Hx. exact E.
    + apply (Hh h y f Hn).
Qed.

Lemma Inv_set_ents s d e : Inv s -> Inv (set_ents C s d e).
Proof. intros H. apply Inv_set_ino_same; [exact H|]. cbn. discriminate. Qed.
Lemma Inv_set_parent s id p : Inv s -> Inv (set_parent C s id p).
Proof. intros H. apply Inv_set_ino_same; [exact H|]. cbn. auto. Qed.

(* replacing a file by a new version that keeps all handles usable *)
Lemma Inv_set_file s id f f' :
  Inv s -> i_node C (get_ino C s id) = IFile f -> WF f' -> (forall q, hok f q -> hok f' q) -> Inv (set_file C s id f').
Proof.
  intros [Hf Hh] Eid Hwf Hq. unfold set_file. split.
  - intros j g. rewrite get_set_ino. destruct (Nat.eqb_spec j id) as [->|]; cbn [andb].
    + destruct (id <? length (inodes C s)); [|apply Hf]. cbn. intros E. inversion E; subst. exact Hwf.
    + apply Hf.
  - intros h y g. rewrite handles_set_ino. intros Hn. rewrite get_set_ino.
    destruct (Nat.eqb_spec (h_ino C y) id) as [Ey|]; cbn [andb].
    + destruct (id <? length (inodes C s)); [|apply (Hh h y g Hn)]. cbn. intros E. inversion E; subst g.
      apply Hq. apply (Hh h y f Hn). rewrite Ey. exact Eid.
    + apply (Hh h y g Hn).
Qed.

Lemma get_ino_file_bound s id f : i_node C (get_ino C s id) = IFile f -> id < length (inodes C s).
Proof.
  intros E. destruct (Nat.lt_ge_cases id (length (inodes C s))) as [H|H]; [exact H|].
  unfold get_ino in E. rewrite nth_overflow in E by exact H. discriminate.
Qed.

Lemma Inv_add_ino s x : Inv s -> (forall f, i_node C x = IFile f -> WF f) ->
  (forall h y, nth_error (handles C s) h = Some y -> h_ino C y < length (inodes C s) \/ forall f, i_node C x <> IFile f) ->
  Inv (fst (add_ino C s x)).
Proof.
  intros [Hf Hh] Hx Hb. unfold add_ino. cbn [fst]. split.
  - intros j f. unfold get_ino. cbn [inodes].
    destruct (Nat.lt_ge_cases j (length (inodes C s))) as [Hlt|Hge].
    + rewrite app_nth1 by exact Hlt. apply Hf.
    + rewrite app_nth2 by exact Hge. destruct (j - length (inodes C s)) as [|k]; cbn [nth].
      * apply Hx.
      * destruct k; discriminate.
  - intros h y f Hn. cbn [handles] in Hn. unfold get_ino. cbn [inodes].
    destruct (Nat.lt_ge_cases (h_ino C y) (length (inodes C s))) as [Hlt|Hge].
    + rewrite app_nth1 by exact Hlt. apply (Hh h y f Hn).
    + rewrite app_nth2 by exact Hge. destruct (h_ino C y - length (inodes C s)) as [|k] eqn:Ek; cbn [nth].
      * intros E. destruct (Hb h y Hn) as [Hlt|Hno]; [lia|]. exfalso. apply (Hno f). exact E.
      * destruct k; discriminate.
Qed.

(* handles always point inside the table when they point at a file; for new directories nothing is needed *)
Lemma Inv_add_dir s p : Inv s -> Inv (fst (add_ino C s {| i_node := IDir []; i_parent := p |})).
Proof. intros H. apply Inv_add_ino; [exact H| cbn; discriminate|]. intros h y _. right. cbn. discriminate. Qed.

Lemma Inv_add_handle s x :
  Inv s -> (forall f, i_node C (get_ino C s (h_ino C x)) = IFile f -> hok f (h_ptr C x)) -> Inv (fst (add_handle C s x)).
Proof.
  intros [Hf Hh] Hx. unfold add_handle. cbn [fst]. split; [exact Hf|].
  intros h y f Hn. cbn [handles] in Hn. change (get_ino C {| inodes := inodes C s; handles := handles C s ++ [x] |}) with (get_ino C s).
  destruct (Nat.lt_ge_cases h (length (handles C s))) as [Hlt|Hge].
  - rewrite nth_error_app1 in Hn by exact Hlt. apply (Hh h y f Hn).
  - rewrite nth_error_app2 in Hn by exact Hge. destruct (h - length (handles C s)) as [|k]; cbn in Hn.
    + inversion Hn; subst y. apply Hx.
    + destruct k; discriminate.
Qed.

Lemma nth_error_set {A} (l : list A) i x j : i < length l ->
  nth_error (firstn i l ++ x :: skipn (S i) l) j = if Nat.eqb j i then Some x else nth_error l j.
Proof.
  intros Hi. destruct (Nat.eqb_spec j i) as [->|Hne].
  - rewrite nth_error_app2; rewrite firstn_length; replace (Nat.min i (length l)) with i by lia; [|lia].
    rewrite Nat.sub_diag. reflexivity.
  - destruct (Nat.lt_ge_cases j i) as [Hlt|Hge].
    + rewrite nth_error_app1 by (rewrite firstn_length; lia).
      rewrite <- (firstn_skipn i l) at 2. rewrite nth_error_app1 by (rewrite firstn_length; lia). reflexivity.
    + rewrite nth_error_app2; rewrite firstn_length; replace (Nat.min i (length l)) with i by lia; [|lia].
      destruct (j - i) as [|k] eqn:E; [lia|]. cbn [nth_error].
      rewrite <- (firstn_skipn (S i) l) at 2. rewrite nth_error_app2; rewrite firstn_length; [|lia].
      f_equal. lia.
Qed.

Lemma Inv_set_handle s h x p :
  Inv s -> nth_error (handles C s) h = Some x ->
  (forall f, i_node C (get_ino C s (h_ino C x)) = IFile f -> hok f p) ->
  Inv (set_handle C s h (with_ptr C x p)).
Proof.
  intros [Hf Hh] Hx Hp. split.
  - intros j f. rewrite get_ino_set_handle. apply Hf.
  - intros k y f. rewrite get_ino_set_handle. unfold set_handle.
    destruct (Nat.ltb_spec h (length (handles C s))) as [Hlt|Hge]; [|apply Hh].
    cbn [handles]. rewrite nth_error_set by exact Hlt.
    destruct (Nat.eqb_spec k h) as [->|]; [|apply Hh].
    intros E. inversion E; subst y. cbn. apply Hp.
Qed.

(* ---------- table bounds: every id stored anywhere lies inside the table ---------- *)
Definition Bnd (s : fs C) : Prop :=
  0 < length (inodes C s) /\
  (forall id, id < length (inodes C s) -> i_parent C (get_ino C s id) < length (inodes C s)) /\
  (forall id n c, In (n, c) (dir_ents C s id) -> c < length (inodes C s)) /\
  (forall h x, nth_error (handles C s) h = Some x -> h_ino C x < length (inodes C s)).

Lemma ents_find_in l n c : ents_find l n = Some c -> In (n, c) l.
Proof.
  induction l as [|[m i] r IH]; cbn [ents_find]; [discriminate|].
  destruct (String.eqb_spec m n) as [->|]; [intros E; inversion E; left; reflexivity|]. intros E. right. apply IH; exact E.
Qed.
Lemma ents_put_in l n c x : In x (ents_put l n c) -> x = (n, c) \/ In x l.
Proof.
  induction l as [|[m i] r IH]; cbn [ents_put]; [intros [<-|[]]; left; reflexivity|].
  destruct (String.eqb m n).
  - intros [<-|H]; [left; reflexivity|right; right; exact H].
  - destruct (str_ltb n m).
    + intros [<-|H]; [left; reflexivity|right; exact H].
    + intros [<-|H]; [right; left; reflexivity|]. destruct (IH H) as [->|H']; [left; reflexivity|right; right; exact H'].
Qed.
Lemma ents_del_in l n x : In x (ents_del l n) -> In x l.
Proof.
  induction l as [|[m i] r IH]; cbn [ents_del]; [auto|].
  destruct (String.eqb m n); [intros H; right; exact H|]. intros [<-|H]; [left; reflexivity|right; apply IH; exact H].
Qed.

Lemma length_set_ino s id x : length (inodes C (set_ino C s id x)) = length (inodes C s).
Proof.
  unfold set_ino. destruct (Nat.ltb_spec id (length (inodes C s))) as [H|H]; [|reflexivity].
  cbn [inodes]. rewrite app_length. cbn [length]. rewrite firstn_length, skipn_length. lia.
Qed.

Lemma dir_ents_set_ino s id x j :
  dir_ents C (set_ino C s id x) j =
  if Nat.eqb j id && (id <? length (inodes C s)) then match i_node C x with IDir e => e | IFile _ => [] end
  else dir_ents C s j.
Proof. unfold dir_ents. rewrite get_set_ino. destruct (Nat.eqb j id && (id <? length (inodes C s))); reflexivity. Qed.

Lemma Bnd_set_ino s id x : Bnd s ->
  i_parent C x < length (inodes C s) ->
  (forall n c, In (n, c) (match i_node C x with IDir e => e | IFile _ => [] end) -> c < length (inodes C s)) ->
  Bnd (set_ino C s id x).
Proof.
  intros (B0 & B1 & B2 & B3) Hp He. unfold Bnd. rewrite length_set_ino. split; [exact B0|]. split; [|split].
  - intros j Hj. rewrite get_set_ino. destruct (Nat.eqb j id && (id <? length (inodes C s))); [exact Hp|apply B1; exact Hj].
  - intros j n c. rewrite dir_ents_set_ino. destruct (Nat.eqb j id && (id <? length (inodes C s))); [apply He|apply B2].
  - intros h y. rewrite handles_set_ino. apply B3.
Qed.

Lemma Bnd_set_ents s d e : Bnd s -> (forall n c, In (n, c) e -> c < length (inodes C s)) -> Bnd (set_ents C s d e).
Proof.
  intros HB He. unfold set_ents. apply Bnd_set_ino; [exact HB| |exact He]. cbn.
  destruct HB as (B0 & B1 & _). destruct (Nat.lt_ge_cases d (length (inodes C s))) as [H|H]; [apply B1; exact H|].
  unfold get_ino. rewrite nth_overflow by exact H. cbn. exact B0.
Qed.
Lemma parent_bound s id : Bnd s -> i_parent C (get_ino C s id) < length (inodes C s).
Proof.
  intros (B0 & B1 & _). destruct (Nat.lt_ge_cases id (length (inodes C s))) as [H|H]; [apply B1; exact H|].
  unfold get_ino. rewrite nth_overflow by exact H. cbn. exact B0.
Qed.
Lemma Bnd_set_parent s id p : Bnd s -> p < length (inodes C s) -> Bnd (set_parent C s id p).
Proof.
  intros HB Hp. unfold set_parent. apply Bnd_set_ino; [exact HB|exact Hp|]. cbn.
  destruct HB as (_ & _ & B2 & _). intros n c. apply (B2 id n c).
Qed.
Lemma Bnd_set_file s id f : Bnd s -> Bnd (set_file C s id f).
Proof. intros HB. unfold set_file. apply Bnd_set_ino; [exact HB|apply parent_bound; exact HB|]. cbn. intros n c []. Qed.

Lemma Bnd_add_ino s x : Bnd s -> i_parent C x < length (inodes C s) ->
  (forall n c, In (n, c) (match i_node C x with IDir e => e | IFile _ => [] end) -> c < length (inodes C s)) ->
  Bnd (fst (add_ino C s x)).
Proof.
  intros (B0 & B1 & B2 & B3) Hp He. unfold add_ino, Bnd. cbn [fst inodes handles]. rewrite app_length. cbn [length].
  split; [lia|]. split; [|split].
  - intros j Hj. unfold get_ino. cbn [inodes]. destruct (Nat.lt_ge_cases j (length (inodes C s))) as [H|H].
    + rewrite app_nth1 by exact H. specialize (B1 j H). unfold get_ino in B1. lia.
    + rewrite app_nth2 by exact H. replace (j - length (inodes C s)) with 0 by lia. cbn. lia.
  - intros j n c. unfold dir_ents, get_ino. cbn [inodes]. destruct (Nat.lt_ge_cases j (length (inodes C s))) as [H|H].
    + rewrite app_nth1 by exact H. intros Hin. specialize (B2 j n c). unfold dir_ents, get_ino in B2. specialize (B2 Hin). lia.
    + rewrite app_nth2 by exact H. destruct (j - length (inodes C s)) as [|k]; cbn [nth].
      * intros Hin. specialize (He n c Hin). lia.
      * destruct k; cbn; intros [].
  - intros h y Hy. specialize (B3 h y Hy). lia.
Qed.

Lemma Bnd_add_handle s x : Bnd s -> h_ino C x < length (inodes C s) -> Bnd (fst (add_handle C s x)).
Proof.
  intros (B0 & B1 & B2 & B3) Hx. unfold add_handle, Bnd. cbn [fst inodes handles].
  split; [exact B0|]. split; [exact B1|]. split; [exact B2|].
  intros h y Hn. destruct (Nat.lt_ge_cases h (length (handles C s))) as [Hlt|Hge].
  - rewrite nth_error_app1 in Hn by exact Hlt. apply (B3 h y Hn).
  - rewrite nth_error_app2 in Hn by exact Hge. destruct (h - length (handles C s)) as [|k]; cbn in Hn.
    + inversion Hn; subst y. exact Hx.
    + destruct k; discriminate.
Qed.

Lemma Bnd_set_handle s h x p : Bnd s -> nth_error (handles C s) h = Some x -> Bnd (set_handle C s h (with_ptr C x p)).
Proof.
  intros (B0 & B1 & B2 & B3) Hx. unfold Bnd. rewrite inodes_set_handle.
  split; [exact B0|]. split; [intros id; rewrite get_ino_set_handle; apply B1|].
  split; [intros id n c; unfold dir_ents; rewrite get_ino_set_handle; apply (B2 id n c)|].
  intros k y. unfold set_handle. destruct (Nat.ltb_spec h (length (handles C s))) as [Hlt|Hge]; [|apply B3].
  cbn [handles]. rewrite nth_error_set by exact Hlt. destruct (Nat.eqb_spec k h) as [->|]; [|apply B3].
  intros E. inversion E; subst y. cbn. apply (B3 h x Hx).
Qed.

Lemma child_bound s d n c : Bnd s -> child C s d n = Ok (Some c) -> c < length (inodes C s).
Proof.
  intros (_ & _ & B2 & _). unfold child. destruct (i_node C (get_ino C s d)) as [f|e] eqn:E; [discriminate|].
  destruct (special_name n); [discriminate|]. intros H. inversion H as [H1].
  apply (B2 d n c). unfold dir_ents. rewrite E. apply ents_find_in. exact H1.
Qed.
Lemma rlookup_comps_bound s comps : Bnd s -> forall n m, n < length (inodes C s) ->
  rlookup_comps C s n comps = Ok m -> m < length (inodes C s).
Proof.
  intros HB. induction comps as [|c r IH]; intros n m Hn; cbn [rlookup_comps].
  - intros E; inversion E; subst; exact Hn.
  - destruct (is_dir C s n && ((c =? ".")%string || (c =? "")%string)); [apply IH; exact Hn|].
    destruct (is_dir C s n && (c =? "..")%string); [apply IH; apply parent_bound; exact HB|].
    destruct (child C s n c) as [[k|]|e] eqn:E; try discriminate. apply IH. eapply child_bound; eassumption.
Qed.
Lemma rlookup_bound s p m : Bnd s -> rlookup C s p = Ok m -> m < length (inodes C s).
Proof. intros HB. unfold rlookup. apply rlookup_comps_bound; [exact HB|]. destruct HB as (B0 & _). exact B0. Qed.

Definition Good (s : fs C) : Prop := Inv s /\ Bnd s.

(* ---------- the operations ---------- *)
Lemma hok_zero f : WF f -> hok f c_pzero.
Proof.
  intros [Hsz Hpos]. unfold hok, c_pzero. cbn [rep off]. split; [lia|]. intros _ _.
  unfold valid. cbn [off idx soff]. split; [reflexivity|].
  destruct (segs f) as [|s0 l] eqn:E; [right; auto|left]. cbn [List.length]. split; [lia|].
  unfold nthseg. cbn [nth]. inversion Hpos; assumption.
Qed.

Lemma add_handle_sim s x : Good s -> h_ino C x < length (inodes C s) ->
  (forall f, i_node C (get_ino C s (h_ino C x)) = IFile f -> hok f (h_ptr C x)) ->
  add_handle Spec (abs s) (abs_handle x) = (abs (fst (add_handle C s x)), snd (add_handle C s x)) /\
  Good (fst (add_handle C s x)).
Proof.
  intros [HI HB] Hb Hx. destruct (add_handle_abs s x) as [A B].
  split; [rewrite A, B; apply surjective_pairing|].
  split; [apply Inv_add_handle; assumption|apply Bnd_add_handle; assumption].
Qed.

Lemma new_handle_sim s id ap r w : Good s -> id < length (inodes C s) ->
  let '(s1, h1) := add_handle C s (mk_handle C id ap r w) in
  add_handle Spec (abs s) (mk_handle Spec id ap r w) = (abs s1, h1) /\ Good s1.
Proof.
  intros HG Hid. pose proof (add_handle_sim s (mk_handle C id ap r w) HG Hid) as H.
  destruct (add_handle C s (mk_handle C id ap r w)) as [s1 h1]. cbn [fst snd] in H. apply H.
  intros f Ef. cbn. apply hok_zero. destruct HG as [[Hf _] _]. eapply Hf; exact Ef.
Qed.

Lemma open_file_sim s name fl : Good s ->
  let '(s', r) := open_file C s name fl in
  open_file Spec (abs s) name fl = (abs s', r) /\ Good s'.
Proof.
  intros HG. unfold open_file. destruct (o_sync fl); [auto|].
  destruct (path_split name) as [dirname base]. rewrite rlookup_abs.
  destruct (rlookup C s dirname) as [parent|e] eqn:Erl; [|auto].
  assert (Hpb : parent < length (inodes C s)) by (eapply rlookup_bound; [apply HG|exact Erl]).
  destruct (o_acc fl =? 3); [auto|].
  rewrite is_dir_abs, parent_of_abs, child_abs.
  set (rd := (o_acc fl =? 0) || (o_acc fl =? 2)). set (wr := (o_acc fl =? 1) || (o_acc fl =? 2)).
  destruct (negb wr && is_dir C s parent && ((base =? ".")%string || (base =? "")%string)).
  { pose proof (new_handle_sim s parent false false false HG Hpb) as H.
    destruct (add_handle C s (mk_handle C parent false false false)) as [s1 h1]. destruct H as [H1 H2].
    rewrite H1. auto. }
  destruct (negb wr && is_dir C s parent && (base =? "..")%string).
  { assert (Hpp : parent_of C s parent < length (inodes C s)) by (apply parent_bound; apply HG).
    pose proof (new_handle_sim s (parent_of C s parent) false false false HG Hpp) as H.
    destruct (add_handle C s (mk_handle C (parent_of C s parent) false false false)) as [s1 h1]. destruct H as [H1 H2].
    rewrite H1. auto. }
  destruct (child C s parent base) as [[n|]|e] eqn:Ech; [| |auto].
  - (* existing entry *)
    assert (Hnb : n < length (inodes C s)) by (eapply child_bound; [apply HG|exact Ech]).
    destruct (o_excl fl); [auto|].
    destruct (o_trunc fl).
    + destruct wr; cbn [negb]; [|auto].
      rewrite get_ino_abs. cbn [abs_ino i_node abs_node].
      destruct (i_node C (get_ino C s n)) as [f|e] eqn:En; cbn [abs_node]; [|auto].
      destruct HG as [HI HB].
      destruct (trunc_hok mb Hmb f 0) as (T1 & T2 & T3). { destruct HI as [Hf _]. eapply Hf; exact En. }
      assert (HG1 : Good (set_file C s n (fn_truncate mb f 0))).
      { split; [eapply Inv_set_file; eassumption|apply Bnd_set_file; exact HB]. }
      pose proof (set_file_abs s n (fn_truncate mb f 0)) as SF. rewrite T1 in SF.
      assert (Hnb1 : n < length (inodes C (set_file C s n (fn_truncate mb f 0)))).
      { unfold set_file. rewrite length_set_ino. exact Hnb. }
      pose proof (new_handle_sim _ n (o_append fl) rd true HG1 Hnb1) as H.
      cbn [f_trunc Conc Spec].
      destruct (add_handle C (set_file C s n (fn_truncate mb f 0)) (mk_handle C n (o_append fl) rd true)) as [s1 h1].
      destruct H as [H1 H2]. rewrite SF in H1. cbn [f_trunc Conc Spec] in H1. rewrite H1. auto.
    + pose proof (new_handle_sim s n (o_append fl) rd wr HG Hnb) as H.
      destruct (add_handle C s (mk_handle C n (o_append fl) rd wr)) as [s1 h1]. destruct H as [H1 H2].
      rewrite H1. auto.
  - (* create *)
    destruct (o_create fl); cbn [negb]; [|auto].
    destruct HG as [HI HB]. cbn [f_empty Conc Spec].
    set (x := {| i_node := IFile (I := C) f_new; i_parent := parent |}).
    destruct (add_ino_abs s x) as [A B].
    assert (HG1 : Good (fst (add_ino C s x))).
    { split.
      - apply Inv_add_ino; [exact HI| |].
        + cbn. intros f E. inversion E; subst. split; [reflexivity|constructor].
        + intros h y Hy. left. destruct HB as (_ & _ & _ & B3). apply (B3 h y Hy).
      - apply Bnd_add_ino; [exact HB|exact Hpb|]. cbn. intros n c []. }
    change (abs_ino x) with ({| i_node := IFile (I := Spec) []; i_parent := parent |}) in A, B.
    destruct (add_ino C s x) as [s1 id] eqn:E1.
    destruct (add_ino Spec (abs s) {| i_node := IFile (I := Spec) []; i_parent := parent |}) as [t1 k1]. cbn [fst snd] in A, B, HG1. subst t1 k1.
    assert (Hid : id = length (inodes C s)) by (unfold add_ino in E1; inversion E1; reflexivity).
    assert (Hlen1 : length (inodes C s1) = S (length (inodes C s))).
    { unfold add_ino in E1. inversion E1. cbn [inodes]. rewrite app_length. cbn [List.length]. lia. }
    rewrite dir_ents_abs.
    assert (HG2 : Good (set_ents C s1 parent (ents_put (dir_ents C s1 parent) base id))).
    { destruct HG1 as [HI1 HB1]. split; [apply Inv_set_ents; exact HI1|].
      apply Bnd_set_ents; [exact HB1|]. intros n c Hin. apply ents_put_in in Hin. destruct Hin as [E|Hin].
      - inversion E; subst. lia.
      - destruct HB1 as (_ & _ & B2 & _). apply (B2 parent n c Hin). }
    rewrite <- set_ents_abs.
    assert (Hidb : id < length (inodes C (set_ents C s1 parent (ents_put (dir_ents C s1 parent) base id)))).
    { unfold set_ents. rewrite length_set_ino. lia. }
    pose proof (new_handle_sim _ id (o_append fl) rd wr HG2 Hidb) as H.
    destruct (add_handle C (set_ents C s1 parent (ents_put (dir_ents C s1 parent) base id)) (mk_handle C id (o_append fl) rd wr)) as [s3 h3].
    destruct H as [H1 H2]. rewrite H1. auto.
Qed.


Lemma mkdir_sim s name : Good s ->
  let '(s', r) := mkdir C s name in mkdir Spec (abs s) name = (abs s', r) /\ Good s'.
Proof.
  intros HG. unfold mkdir. destruct (path_split name) as [dirname base]. rewrite rlookup_abs.
  destruct (rlookup C s dirname) as [n|e] eqn:Erl; [|auto].
  assert (Hnb : n < length (inodes C s)) by (eapply rlookup_bound; [apply HG|exact Erl]).
  rewrite child_abs. destruct (child C s n base) as [[c|]|e]; [auto| |auto].
  destruct HG as [HI HB].
  set (x := {| i_node := IDir (I := C) []; i_parent := n |}).
  destruct (add_ino_abs s x) as [A B].
  assert (HG1 : Good (fst (add_ino C s x))).
  { split; [apply Inv_add_dir; exact HI|]. apply Bnd_add_ino; [exact HB|exact Hnb|]. cbn. intros ? ? []. }
  change (abs_ino x) with ({| i_node := IDir (I := Spec) []; i_parent := n |}) in A, B.
  destruct (add_ino C s x) as [s1 id] eqn:E1.
  destruct (add_ino Spec (abs s) {| i_node := IDir (I := Spec) []; i_parent := n |}) as [t1 k1]. cbn [fst snd] in A, B, HG1. subst t1 k1.
  assert (Hid : id = length (inodes C s)) by (unfold add_ino in E1; inversion E1; reflexivity).
  assert (Hlen1 : length (inodes C s1) = S (length (inodes C s))).
  { unfold add_ino in E1. inversion E1. cbn [inodes]. rewrite app_length. cbn [List.length]. lia. }
  rewrite dir_ents_abs, <- set_ents_abs. split; [reflexivity|].
  destruct HG1 as [HI1 HB1]. split; [apply Inv_set_ents; exact HI1|].
  apply Bnd_set_ents; [exact HB1|]. intros m c Hin. apply ents_put_in in Hin. destruct Hin as [E|Hin].
  - inversion E; subst. lia.
  - destruct HB1 as (_ & _ & B2 & _). apply (B2 n m c Hin).
Qed.

Lemma stat_sim s name : Good s -> stat Spec (abs s) name = stat C s name.
Proof. intros [HI _]. unfold stat. rewrite rlookup_abs. destruct (rlookup C s name); [rewrite info_abs by exact HI|]; reflexivity. Qed.

Lemma rename_sim s a b : Good s ->
  let '(s', r) := rename C s a b in rename Spec (abs s) a b = (abs s', r) /\ Good s'.
Proof.
  intros HG. unfold rename. destruct (path_split a) as [olddir oldname].
  destruct (special_name oldname); [auto|]. rewrite rlookup_abs.
  destruct (rlookup C s olddir) as [od|e] eqn:E1; [|auto].
  destruct (path_split b) as [newdir newname0].
  destruct ((newname0 =? ".")%string || (newname0 =? "..")%string); [auto|].
  rewrite rlookup_abs. destruct (rlookup C s newdir) as [nd|e] eqn:E2; [|auto].
  assert (Hod : od < length (inodes C s)) by (eapply rlookup_bound; [apply HG|exact E1]).
  assert (Hnd : nd < length (inodes C s)) by (eapply rlookup_bound; [apply HG|exact E2]).
  rewrite length_inodes_abs, !ancestors_abs, !dir_ents_abs.
  set (newname := if (newname0 =? "")%string then oldname else newname0).
  destruct (ents_find (dir_ents C s od) oldname) as [oi|] eqn:Eoi; [|auto].
  assert (Hoi : oi < length (inodes C s)).
  { destruct HG as [_ (_ & _ & B2 & _)]. apply (B2 od oldname oi). apply ents_find_in. exact Eoi. }
  destruct (mem_nat oi _); [auto|].
  destruct (Nat.eqb nd od && (newname =? oldname)%string); [auto|].
  assert (Hmove : forall s0, s0 = s ->
    let s1 := set_ents C s nd (ents_put (dir_ents C s nd) newname oi) in
    let s2 := set_parent C s1 oi nd in
    let s3 := set_ents C s2 od (ents_del (dir_ents C s2 od) oldname) in
    (let t1 := set_ents Spec (abs s) nd (ents_put (dir_ents C s nd) newname oi) in
     let t2 := set_parent Spec t1 oi nd in
     set_ents Spec t2 od (ents_del (dir_ents Spec t2 od) oldname)) = abs s3 /\ Good s3).
  { intros s0 _. cbn zeta.
    rewrite <- set_ents_abs, <- set_parent_abs, dir_ents_abs, <- set_ents_abs. split; [reflexivity|].
    destruct HG as [HI HB].
    assert (HB1 : Bnd (set_ents C s nd (ents_put (dir_ents C s nd) newname oi))).
    { apply Bnd_set_ents; [exact HB|]. intros m c Hin. apply ents_put_in in Hin. destruct Hin as [E|Hin].
      - inversion E; subst. exact Hoi.
      - destruct HB as (_ & _ & B2 & _). apply (B2 nd m c Hin). }
    assert (HB2 : Bnd (set_parent C (set_ents C s nd (ents_put (dir_ents C s nd) newname oi)) oi nd)).
    { apply Bnd_set_parent; [exact HB1|]. unfold set_ents. rewrite length_set_ino. exact Hnd. }
    split.
    - apply Inv_set_ents, Inv_set_parent, Inv_set_ents. exact HI.
    - apply Bnd_set_ents; [exact HB2|]. intros m c Hin. apply ents_del_in in Hin.
      destruct HB2 as (_ & _ & B2 & _). apply (B2 od m c Hin). }
  specialize (Hmove s eq_refl). cbn zeta in Hmove. destruct Hmove as [M1 M2].
  destruct (ents_find (dir_ents C s nd) newname) as [ex|].
  - rewrite is_dir_abs. destruct (is_dir C s ex); [auto|]. rewrite M1. auto.
  - rewrite M1. auto.
Qed.

Lemma remove_sim s name : Good s ->
  let '(s', r) := remove C s name in remove Spec (abs s) name = (abs s', r) /\ Good s'.
Proof.
  intros HG. unfold remove. destruct (path_split (trim_right_slash name)) as [dirname base].
  destruct (special_name base); [auto|]. rewrite rlookup_abs.
  destruct (rlookup C s dirname) as [d|e]; [|auto].
  rewrite get_ino_abs. cbn [abs_ino i_node].
  destruct (i_node C (get_ino C s d)) as [f|ents] eqn:Ed; cbn [abs_node]; [auto|].
  destruct (ents_find ents base) as [n|]; [|auto].
  rewrite is_dir_abs, dir_ents_abs.
  destruct (is_dir C s n && negb (length (dir_ents C s n) =? 0)); [auto|].
  rewrite <- set_ents_abs. split; [reflexivity|]. destruct HG as [HI HB].
  split; [apply Inv_set_ents; exact HI|]. apply Bnd_set_ents; [exact HB|].
  intros m c Hin. apply ents_del_in in Hin. destruct HB as (_ & _ & B2 & _). apply (B2 d m c).
  unfold dir_ents. rewrite Ed. exact Hin.
Qed.
(* ---------- handle operations ---------- *)
Lemma hok_peof f : WF f -> hok f (c_peof f).
Proof. intros Hwf. unfold hok. cbn [rep c_peof]. split; [lia|]. intros _ _. apply c_peof_valid. exact Hwf. Qed.

Lemma get_handle_nth s h : get_handle C s h = nth_error (handles C s) h.
Proof. reflexivity. Qed.

Lemma h_read_sim s h n : Good s ->
  let '(s', r) := h_read C s h n in h_read Spec (abs s) h n = (abs s', r) /\ Good s'.
Proof.
  intros HG. unfold h_read. rewrite get_handle_abs.
  destruct (get_handle C s h) as [x|] eqn:Ex; cbn [option_map]; [|auto].
  change (h_r Spec (abs_handle x)) with (h_r C x). destruct (h_r C x); cbn [negb]; [|auto].
  rewrite get_ino_abs. change (h_ino Spec (abs_handle x)) with (h_ino C x). cbn [abs_ino i_node].
  destruct HG as [HI HB].
  destruct (i_node C (get_ino C s (h_ino C x))) as [f|e] eqn:En; cbn [abs_node].
  - pose proof HI as [Hf Hh].
    pose proof (read_full_ok f n (h_ptr C x) (Hf _ _ En) (Hh h x f Ex En)) as H.
    cbn [f_read Conc Spec]. change (h_ptr Spec (abs_handle x)) with (off (h_ptr C x)).
    destruct (fn_read_full f n (h_ptr C x)) as [[d p'] eof]. destruct H as [H1 H2].
    rewrite <- H1. rewrite set_handle_abs. split; [reflexivity|].
    split; [apply Inv_set_handle; [exact HI|exact Ex|]|apply Bnd_set_handle; [exact HB|exact Ex]].
    intros g Eg. rewrite En in Eg. inversion Eg; subst g. exact H2.
  - rewrite set_handle_abs. split; [reflexivity|].
    split; [apply Inv_set_handle; [exact HI|exact Ex|]|apply Bnd_set_handle; [exact HB|exact Ex]].
    intros g Eg. rewrite En in Eg. discriminate.
Qed.

Lemma h_seek_sim s h o neg wh : Good s ->
  let '(s', r) := h_seek C s h o neg wh in h_seek Spec (abs s) h o neg wh = (abs s', r) /\ Good s'.
Proof.
  intros HG. unfold h_seek. rewrite get_handle_abs.
  destruct (get_handle C s h) as [x|] eqn:Ex; cbn [option_map]; [|auto].
  change (h_ino Spec (abs_handle x)) with (h_ino C x). rewrite info_abs by apply HG.
  change (p_off Spec (h_ptr Spec (abs_handle x))) with (p_off C (h_ptr C x)).
  set (base := match wh with 0 => 0 | 1 => p_off C (h_ptr C x) | S (S _) => snd (info C s (h_ino C x)) end).
  destruct (neg && (base <? o)); [auto|].
  destruct ((if neg then base - o else base + o) =? p_off C (h_ptr C x)); [auto|].
  rewrite set_handle_abs. split; [reflexivity|]. destruct HG as [HI HB].
  split; [apply Inv_set_handle; [exact HI|exact Ex|]|apply Bnd_set_handle; [exact HB|exact Ex]].
  intros g _. exact I.
Qed.

Lemma h_write_sim s h data : Good s ->
  let '(s', r) := h_write C s h data in h_write Spec (abs s) h data = (abs s', r) /\ Good s'.
Proof.
  intros HG. unfold h_write. rewrite get_handle_abs.
  destruct (get_handle C s h) as [x|] eqn:Ex; cbn [option_map]; [|auto].
  change (h_w Spec (abs_handle x)) with (h_w C x). destruct (h_w C x); cbn [negb]; [|auto].
  rewrite get_ino_abs. change (h_ino Spec (abs_handle x)) with (h_ino C x). cbn [abs_ino i_node].
  destruct HG as [HI HB].
  destruct (i_node C (get_ino C s (h_ino C x))) as [f|e] eqn:En; cbn [abs_node].
  - pose proof HI as [Hf Hh]. pose proof (Hf _ _ En) as Hwf.
    change (h_append Spec (abs_handle x)) with (h_append C x).
    cbn [f_write p_eof Conc Spec]. change (h_ptr Spec (abs_handle x)) with (off (h_ptr C x)).
    assert (Hcore : forall p, hok f p ->
      let '(s', r) := let '(f', p') := fn_write mb f p data in
                      (set_handle C (set_file C s (h_ino C x) f') h (with_ptr C x p'), Ok (List.length data)) in
      (let '(f', p') := s_write (content f) (off p) data in
       (set_handle Spec (set_file Spec (abs s) (h_ino C x) f') h (with_ptr Spec (abs_handle x) p'), Ok (List.length data)))
      = (abs s', r) /\ Good s').
    2:{ destruct (h_append C x).
        - assert (El : List.length (content f) = off (c_peof f)) by (cbn; destruct Hwf as [Hs _]; symmetry; exact Hs).
          rewrite El. apply Hcore. apply hok_peof. exact Hwf.
        - apply Hcore. apply (Hh h x f Ex En). }
    intros p Hp.
    pose proof (write_hok mb Hmb f p data Hwf Hp) as H.
    destruct (fn_write mb f p data) as [f' p']. destruct H as (H1 & H2 & H3 & H4).
    rewrite <- H1. rewrite set_handle_abs, set_file_abs. split; [reflexivity|].
    assert (HI1 : Inv (set_file C s (h_ino C x) f')) by (eapply Inv_set_file; eassumption).
    assert (Ex1 : nth_error (handles C (set_file C s (h_ino C x) f')) h = Some x).
    { unfold set_file. rewrite handles_set_ino. exact Ex. }
    split; [apply Inv_set_handle; [exact HI1|exact Ex1|]|apply Bnd_set_handle; [apply Bnd_set_file; exact HB|exact Ex1]].
    intros g. unfold set_file. rewrite get_set_ino, Nat.eqb_refl. cbn [andb].
    destruct (Nat.ltb_spec (h_ino C x) (length (inodes C s))) as [Hlt|Hge].
    + cbn. intros E. inversion E; subst g. exact H3.
    + exfalso. pose proof (get_ino_file_bound s _ f En). lia.
  - rewrite set_handle_abs. split; [reflexivity|].
    split; [apply Inv_set_handle; [exact HI|exact Ex|]|apply Bnd_set_handle; [exact HB|exact Ex]].
    intros g Eg. rewrite En in Eg. discriminate.
Qed.

Lemma h_trunc_sim s h n : Good s ->
  let '(s', r) := h_trunc C s h n in h_trunc Spec (abs s) h n = (abs s', r) /\ Good s'.
Proof.
  intros HG. unfold h_trunc. rewrite get_handle_abs.
  destruct (get_handle C s h) as [x|] eqn:Ex; cbn [option_map]; [|auto].
  rewrite get_ino_abs. change (h_ino Spec (abs_handle x)) with (h_ino C x). cbn [abs_ino i_node].
  destruct HG as [HI HB].
  destruct (i_node C (get_ino C s (h_ino C x))) as [f|e] eqn:En; cbn [abs_node]; [|split; [reflexivity|split; assumption]].
  pose proof HI as [Hf Hh]. destruct (trunc_hok mb Hmb f n (Hf _ _ En)) as (T1 & T2 & T3).
  cbn [f_trunc Conc Spec]. rewrite set_file_abs, T1. split; [reflexivity|].
  split; [eapply Inv_set_file; eassumption|apply Bnd_set_file; exact HB].
Qed.

Lemma h_stat_sim s h : Good s -> h_stat Spec (abs s) h = h_stat C s h.
Proof.
  intros HG. unfold h_stat. rewrite get_handle_abs. destruct (get_handle C s h) as [x|]; cbn [option_map]; [|reflexivity].
  change (h_ino Spec (abs_handle x)) with (h_ino C x). rewrite info_abs by apply HG. reflexivity.
Qed.

Lemma h_readdir_sim s h : Good s -> h_readdir Spec (abs s) h = h_readdir C s h.
Proof.
  intros HG. unfold h_readdir. rewrite get_handle_abs. destruct (get_handle C s h) as [x|]; cbn [option_map]; [|reflexivity].
  rewrite get_ino_abs. change (h_ino Spec (abs_handle x)) with (h_ino C x). cbn [abs_ino i_node].
  destruct (i_node C (get_ino C s (h_ino C x))) as [f|e]; cbn [abs_node]; [reflexivity|].
  f_equal. apply map_ext. intros a. rewrite info_abs by apply HG. reflexivity.
Qed.

(* ---------- one step, and whole histories ---------- *)
Theorem step_sim s o : Good s ->
  let '(s', v) := step C s o in step Spec (abs s) o = (abs s', v) /\ Good s'.
Proof.
  intros HG. destruct o; cbn [step].
  - pose proof (open_file_sim s name fl HG) as H. destruct (open_file C s name fl) as [s' [r|e]]; destruct H as [-> H2]; auto.
  - pose proof (h_read_sim s h n HG) as H. destruct (h_read C s h n) as [s' [[d eof]|e]]; destruct H as [-> H2]; auto.
  - pose proof (h_write_sim s h data HG) as H. destruct (h_write C s h data) as [s' [r|e]]; destruct H as [-> H2]; auto.
  - pose proof (h_seek_sim s h off neg whence HG) as H. destruct (h_seek C s h off neg whence) as [s' [r|e]]; destruct H as [-> H2]; auto.
  - pose proof (h_trunc_sim s h size HG) as H. destruct (h_trunc C s h size) as [s' [r|e]]; destruct H as [-> H2]; auto.
  - rewrite (h_stat_sim s h HG). destruct (h_stat C s h) as [[d n]|e]; auto.
  - rewrite (h_readdir_sim s h HG). destruct (h_readdir C s h) as [l|e]; auto.
  - pose proof (mkdir_sim s name HG) as H. destruct (mkdir C s name) as [s' [r|e]]; destruct H as [-> H2]; auto.
  - pose proof (rename_sim s a b HG) as H. destruct (rename C s a b) as [s' [r|e]]; destruct H as [-> H2]; auto.
  - pose proof (remove_sim s name HG) as H. destruct (remove C s name) as [s' [r|e]]; destruct H as [-> H2]; auto.
  - rewrite (stat_sim s name HG). destruct (stat C s name) as [[d n]|e]; auto.
Qed.

Theorem run_sim ops : forall s, Good s -> run Spec (abs s) ops = run C s ops.
Proof.
  induction ops as [|o r IH]; intros s HG; cbn [run]; [reflexivity|].
  pose proof (step_sim s o HG) as H. destruct (step C s o) as [s' v]. destruct H as [-> H2].
  rewrite (IH s' H2). reflexivity.
Qed.

Lemma Good_init : Good (fs_init C).
Proof.
  split; [split|].
  - intros id f. unfold get_ino, fs_init. cbn. destruct id as [|[|id]]; discriminate.
  - intros h x f. cbn. destruct h; discriminate.
  - unfold Bnd, fs_init. cbn. split; [lia|]. split; [|split].
    + intros id Hid. destruct id as [|id]; [cbn; unfold root_id; lia|lia].
    + intros id n c. unfold dir_ents, get_ino. cbn. destruct id as [|[|id]]; cbn; intros [].
    + intros h x. destruct h; discriminate.
Qed.

Lemma abs_init : abs (fs_init C) = fs_init Spec.
Proof. reflexivity. Qed.

(* every history from the empty collection: the implementation model's observations are exactly
   those of the plain byte-array filesystem *)
Theorem history_refines ops : run C (fs_init C) ops = run Spec (fs_init Spec) ops.
Proof. rewrite <- abs_init. symmetry. apply run_sim. exact Good_init. Qed.

End Sim.
