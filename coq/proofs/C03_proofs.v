(* C03 — proofs about the Keep client read model (model/C03_model.v, model/C03_run.v).
   The digest H is an arbitrary function throughout: nothing about collision resistance is assumed;
   where "the bytes are the content" is wanted the statement has an explicit collision disjunct. *)
From Coq Require Import Arith NArith List Ascii String Bool Lia.
From AV Require Import lib.Str model.C03_model model.C03_run.
Import ListNotations.
Local Open Scope nat_scope.

(* ------------------------------------------------------------------ take / drop *)
Lemma slen_take n s : slen (take n s) = Nat.min n (slen s).
Proof. revert s. induction n as [|n IH]; intros [|c s]; cbn [take slen String.length]; try reflexivity. unfold slen in IH. rewrite IH. reflexivity. Qed.
Lemma slen_drop n s : slen (drop n s) = slen s - n.
Proof. revert s. induction n as [|n IH]; intros [|c s]; cbn [drop slen String.length]; try reflexivity; try lia. apply IH. Qed.
Lemma take_all n s : slen s <= n -> take n s = s.
Proof.
  revert s. induction n as [|n IH]; intros [|c s] Hl; cbn [take slen String.length] in *; try reflexivity; try lia.
  f_equal. apply IH. unfold slen. lia.
Qed.
Lemma take_0 s : take 0 s = EmptyString.
Proof. destruct s; reflexivity. Qed.
Lemma drop_0 s : drop 0 s = s.
Proof. destruct s; reflexivity. Qed.
Lemma drop_all n s : slen s <= n -> drop n s = EmptyString.
Proof.
  revert s. induction n as [|n IH]; intros [|c s] Hl; cbn [drop slen String.length] in *; try reflexivity; try lia.
  apply IH. unfold slen. lia.
Qed.
Lemma append_nil_r s : (s ++ "")%string = s.
Proof. induction s as [|c s IH]; cbn; [reflexivity|rewrite IH; reflexivity]. Qed.
Lemma append_assoc a b c : ((a ++ b) ++ c)%string = (a ++ (b ++ c))%string.
Proof. induction a as [|x a IH]; cbn; [reflexivity|rewrite IH; reflexivity]. Qed.

Section P.
Variable H : string -> string.

(* an explicit collision: two different byte strings with the same digest *)
Definition collision (a b : string) : Prop := a <> b /\ H a = H b.

Lemma same_digest_same_or_collision a b : H a = H b -> a = b \/ collision a b.
Proof. intros E. destruct (string_dec a b) as [D|D]; [left; exact D|right; split; assumption]. Qed.

Definition fresh (st : stream) (check : string) : hcr := {| h_st := st; h_pos := 0; h_check := check |}.

(* ------------------------------------------------------------------ HashCheckingReader *)
Lemma hash_ok_eq check b : hash_ok H check b = true <-> H b = check.
Proof. unfold hash_ok. apply String.eqb_eq. Qed.

(* all three entry points report success only at a clean EOF of a stream whose digest is the expected one *)
Lemma read_all_sound st check b :
  hcr_read_all H (fresh st check) = (b, EEOF) -> b = s_bytes st /\ s_term st = TEOF /\ H b = check.
Proof.
  unfold hcr_read_all, fresh. cbn [h_st h_pos h_check]. rewrite drop_0. destruct (s_term st); try (intros [= _ E]; discriminate).
  destruct (hash_ok H check (s_bytes st)) eqn:E; [|intros [= _ X]; discriminate].
  intros [= <-]. split; [reflexivity|]. split; [reflexivity|]. apply hash_ok_eq. exact E.
Qed.

Lemma write_to_sound st check b :
  hcr_write_to H (fresh st check) = (b, ENil) -> b = s_bytes st /\ s_term st = TEOF /\ H b = check.
Proof.
  unfold hcr_write_to, fresh. cbn [h_st h_pos h_check]. rewrite drop_0. destruct (s_term st); try (intros [= _ E]; discriminate).
  destruct (hash_ok H check (s_bytes st)) eqn:E; [|intros [= _ X]; discriminate].
  intros [= <-]. split; [reflexivity|]. split; [reflexivity|]. apply hash_ok_eq. exact E.
Qed.

Lemma close_sound r : hcr_close H r = ENil -> s_term (h_st r) = TEOF /\ H (s_bytes (h_st r)) = h_check r.
Proof.
  unfold hcr_close. destruct (s_term (h_st r)); try discriminate.
  destruct (hash_ok H (h_check r) (s_bytes (h_st r))) eqn:E; [|discriminate]. intros _. split; [reflexivity|apply hash_ok_eq; exact E].
Qed.

Lemma read_full_ok st check k b r' :
  hcr_read_full H (fresh st check) k = (b, ENil, r') ->
  k <= slen (s_bytes st) /\ b = take k (s_bytes st) /\ h_st r' = st /\ h_check r' = check.
Proof.
  unfold hcr_read_full, fresh. cbn [h_st h_pos h_check]. rewrite drop_0.
  destruct (k <=? slen (s_bytes st)) eqn:E.
  - intros [= <- <-]. apply Nat.leb_le in E. cbn. auto.
  - destruct (s_term st); try (intros [= _ X]; discriminate).
    destruct (hash_ok H check (s_bytes st)); [destruct (slen (s_bytes st) =? 0)|]; intros [= _ X]; discriminate.
Qed.

(* a partial read followed by a successful Close: the bytes read are a prefix of a verified stream *)
Lemma read_full_close_sound st check k b r' :
  hcr_read_full H (fresh st check) k = (b, ENil, r') -> hcr_close H r' = ENil ->
  b = take k (s_bytes st) /\ k <= slen (s_bytes st) /\ s_term st = TEOF /\ H (s_bytes st) = check.
Proof.
  intros E C. apply read_full_ok in E. destruct E as (A & B & S & K). apply close_sound in C. rewrite S, K in C. tauto.
Qed.

(* every way a stream can be wrong ends in an error at all three entry points *)
Lemma bad_stream_rejected st check :
  s_term st <> TEOF \/ H (s_bytes st) <> check ->
  snd (hcr_read_all H (fresh st check)) <> EEOF /\ snd (hcr_write_to H (fresh st check)) <> ENil /\ hcr_close H (fresh st check) <> ENil.
Proof.
  intros Hbad. unfold hcr_read_all, hcr_write_to, hcr_close, fresh. cbn [h_st h_pos h_check snd].
  destruct (s_term st).
  - destruct Hbad as [X|X]; [contradiction|].
    destruct (hash_ok H check (s_bytes st)) eqn:E; [apply hash_ok_eq in E; contradiction|]. repeat split; discriminate.
  - repeat split; discriminate.
  - repeat split; discriminate.
Qed.

(* hcr_read_all is what a loop of Read calls produces, whatever the buffer sizes (>= 1) *)
Fixpoint read_loop (fuel : nat) (r : hcr) (acc : string) : string * err :=
  match fuel with
  | 0 => (acc, ENil)
  | S f => let '(b, e, r') := hcr_read H r 1 in
           match e with ENil => read_loop f r' (acc ++ b)%string | _ => ((acc ++ b)%string, e) end
  end.

Lemma take1_drop_cons p s : p < slen s -> (take 1 (drop p s) ++ drop (S p) s)%string = drop p s.
Proof.
  revert s. induction p as [|p IH]; intros [|c s] Hl; cbn [slen String.length] in Hl; try lia.
  - cbn. destruct s; reflexivity.
  - cbn [drop]. apply IH. unfold slen. lia.
Qed.

Lemma read_loop_all fuel : forall r acc,
  slen (s_bytes (h_st r)) - h_pos r < fuel -> h_pos r <= slen (s_bytes (h_st r)) ->
  read_loop fuel r acc = ((acc ++ fst (hcr_read_all H r))%string, snd (hcr_read_all H r)).
Proof.
  induction fuel as [|f IH]; intros r acc Hf Hp; [lia|]. cbn [read_loop]. unfold hcr_read.
  destruct (h_pos r <? slen (s_bytes (h_st r))) eqn:E.
  - apply Nat.ltb_lt in E. rewrite Nat.min_l by lia.
    rewrite IH; cbn [h_st h_pos h_check]; try lia.
    unfold hcr_read_all. cbn [h_st h_pos h_check fst snd]. rewrite append_assoc, Nat.add_1_r, take1_drop_cons by exact E. reflexivity.
  - apply Nat.ltb_ge in E. unfold hcr_read_all. cbn [fst snd]. rewrite (drop_all (h_pos r)) by exact E.
    destruct (s_term (h_st r)); [destruct (hash_ok H (h_check r) (s_bytes (h_st r)))| |]; reflexivity.
Qed.

(* ------------------------------------------------------------------ getOrHead *)
Section G.
Variable oracle : nat -> nat -> response.

(* the reader handed out by a successful Get is over the transported body of a 200 answer, and the
   announced size is the size hint (when there is one) and the declared length (when there is one) *)
Definition from_200 (expect : option nat) (x round size : nat) (st : stream) : Prop :=
  exists declared body cut,
    oracle x round = Resp 200 declared body cut /\ st = sized size (transport declared body cut) /\
    (forall n, declared = Some n -> n = size) /\ (forall e, expect = Some e -> e = size) /\
    (expect = None -> declared <> None).

Lemma try_servers_ok servers : forall round expect c404 retry log x rd size st c' rt' log',
  try_servers oracle servers round expect c404 retry log = (Some (GOk x rd size st), c', rt', log') ->
  from_200 expect x rd size st /\ In x servers /\ rd = round.
Proof.
  induction servers as [|y rest IH]; intros round expect c404 retry log x rd size st c' rt' log' E; cbn [try_servers] in E; [discriminate|].
  destruct (oracle y round) as [stt declared body cut|] eqn:Eo.
  - destruct (negb (stt =? 200)%N) eqn:E2.
    + destruct (retry_status stt); [|destruct (stt =? 404)%N]; apply IH in E; destruct E as (A & B & C); (split; [exact A|split; [right; exact B|exact C]]).
    + apply negb_false_iff, N.eqb_eq in E2. subst stt.
      destruct expect as [e|], declared as [n|].
      * destruct (e =? n) eqn:En; [|discriminate]. apply Nat.eqb_eq in En. subst n.
        injection E as <- <- <- <- _ _ _. split; [|split; [left; reflexivity|reflexivity]].
        exists (Some e), body, cut. split; [exact Eo|]. split; [reflexivity|]. split; [intros ? [= <-]; reflexivity|]. split; [intros ? [= <-]; reflexivity|discriminate].
      * injection E as <- <- <- <- _ _ _. split; [|split; [left; reflexivity|reflexivity]].
        exists None, body, cut. split; [exact Eo|]. split; [reflexivity|]. split; [intros ? [=]|]. split; [intros ? [= <-]; reflexivity|discriminate].
      * injection E as <- <- <- <- _ _ _. split; [|split; [left; reflexivity|reflexivity]].
        exists (Some n), body, cut. split; [exact Eo|]. split; [reflexivity|]. split; [intros ? [= <-]; reflexivity|]. split; [intros ? [=]|discriminate].
      * discriminate.
  - apply IH in E. destruct E as (A & B & C). split; [exact A|split; [right; exact B|exact C]].
Qed.

Lemma get_rounds_ok tries : forall round servers ns expect c404 log x rd size st lg,
  get_rounds oracle tries round servers ns expect c404 log = {| g_res := GOk x rd size st; g_log := lg |} ->
  from_200 expect x rd size st.
Proof.
  induction tries as [|t IH]; intros round servers ns expect c404 log x rd size st lg E; cbn [get_rounds] in E; [discriminate|].
  destruct (try_servers oracle servers round expect c404 [] log) as [[[r c'] rt] lg'] eqn:Et.
  destruct r as [r|].
  - injection E as -> <-. apply try_servers_ok in Et. tauto.
  - eapply IH. exact E.
Qed.

Lemma get_or_head_ok retries order loc x rd size st lg :
  get_or_head oracle retries order loc = {| g_res := GOk x rd size st; g_log := lg |} ->
  from_200 (size_hint loc) x rd size st.
Proof.
  unfold get_or_head. destruct (empty_block_loc loc); [discriminate|]. apply get_rounds_ok.
Qed.

(* with a declared length, a stream that ends in EOF has exactly that many bytes *)
Lemma transport_declared_len n body cut : s_term (transport (Some n) body cut) = TEOF -> slen (s_bytes (transport (Some n) body cut)) = n.
Proof.
  unfold transport. destruct (n <=? slen body) eqn:E; cbn [s_term s_bytes]; [|discriminate].
  intros _. apply Nat.leb_le in E. rewrite slen_take. lia.
Qed.

(* the sized reader (fix F25): a stream that ends in a clean EOF has exactly the expected size, whatever the
   response declared; and sizing never turns an unclean end into a clean one *)
Lemma sized_eof_len n st : s_term (sized n st) = TEOF -> slen (s_bytes (sized n st)) = n /\ sized n st = st.
Proof.
  unfold sized. destruct (n <? slen (s_bytes st)) eqn:E1; cbn [s_term s_bytes]; [discriminate|].
  destruct (slen (s_bytes st) <? n) eqn:E2; cbn [s_term s_bytes].
  - destruct (s_term st); discriminate.
  - intros _. apply Nat.ltb_ge in E1, E2. split; [lia|reflexivity].
Qed.

(* DESIGN get_stream_sound *)
Theorem get_stream_sound retries order loc x rd size st lg b :
  get_or_head oracle retries order loc = {| g_res := GOk x rd size st; g_log := lg |} ->
  hcr_read_all H (fresh st (loc_hash loc)) = (b, EEOF) ->
  H b = loc_hash loc /\
  (forall e, size_hint loc = Some e -> size = e) /\
  slen b = size /\
  (forall c, H c = loc_hash loc -> b = c \/ collision b c).
Proof.
  intros G R. apply get_or_head_ok in G. destruct G as (declared & body & cut & Eo & Est & Hd & He & _).
  apply read_all_sound in R. destruct R as (Hb & Ht & Hh). split; [exact Hh|]. split; [intros e E; symmetry; apply He; exact E|]. split.
  - rewrite Hb, Est. rewrite Est in Ht. apply (sized_eof_len _ _ Ht).
  - intros c Hc. apply same_digest_same_or_collision. congruence.
Qed.

(* ---- not_found_classes ---- *)
Lemma get_rounds_nil tries : forall round ns expect c404 log,
  get_rounds oracle tries round [] ns expect c404 log =
  {| g_res := GErr (if c404 =? ns then ENotFound else EPerm); g_log := log |}.
Proof. induction tries as [|t IH]; intros; cbn [get_rounds try_servers]; [reflexivity|apply IH]. Qed.

Definition is404 (r : response) : Prop := exists d b c, r = Resp 404 d b c.

Lemma try_servers_all404 servers : forall round expect c404 retry log,
  (forall x, In x servers -> is404 (oracle x round)) ->
  try_servers oracle servers round expect c404 retry log =
  (None, c404 + List.length servers, retry, (log ++ map (fun x => (x, round)) servers)%list).
Proof.
  induction servers as [|y rest IH]; intros round expect c404 retry log Hall; cbn [try_servers map List.length].
  - rewrite Nat.add_0_r, app_nil_r. reflexivity.
  - destruct (Hall y (or_introl eq_refl)) as (d & b & c & ->). cbn.
    rewrite IH by (intros x Hx; apply Hall; right; exact Hx). rewrite <- app_assoc. cbn [app]. f_equal. f_equal. f_equal. lia.
Qed.

(* every service answers 404: BlockNotFound after exactly one request per service *)
Theorem all_404_not_found retries order loc :
  empty_block_loc loc = false -> (forall x, In x order -> is404 (oracle x 0)) ->
  get_or_head oracle retries order loc = {| g_res := GErr ENotFound; g_log := map (fun x => (x, 0)) order |}.
Proof.
  intros He Hall. unfold get_or_head. rewrite He. cbn [get_rounds]. rewrite try_servers_all404 by exact Hall.
  cbn [app Nat.add]. rewrite get_rounds_nil, Nat.eqb_refl. reflexivity.
Qed.

(* the error of a failed Get is one of the five classes of the code *)
Lemma try_servers_err servers : forall round expect c404 retry log e c' rt' log',
  try_servers oracle servers round expect c404 retry log = (Some (GErr e), c', rt', log') -> e = ENoSize \/ e = ESizeMismatch.
Proof.
  induction servers as [|y rest IH]; intros round expect c404 retry log e c' rt' log' E; cbn [try_servers] in E; [discriminate|].
  destruct (oracle y round) as [stt declared body cut|]; [|eapply IH; exact E].
  destruct (negb (stt =? 200)%N).
  - destruct (retry_status stt); [|destruct (stt =? 404)%N]; eapply IH; exact E.
  - destruct expect as [x|], declared as [n|]; try discriminate.
    + destruct (x =? n); [discriminate|]. injection E as <- _ _ _. right. reflexivity.
    + injection E as <- _ _ _. left. reflexivity.
Qed.

Lemma try_servers_noempty servers : forall round expect c404 retry log c' rt' log',
  try_servers oracle servers round expect c404 retry log <> (Some GEmpty, c', rt', log').
Proof.
  induction servers as [|y rest IH]; intros round expect c404 retry log c' rt' log' E; cbn [try_servers] in E; [discriminate|].
  destruct (oracle y round) as [stt declared body cut|]; [|eapply IH; exact E].
  destruct (negb (stt =? 200)%N).
  - destruct (retry_status stt); [|destruct (stt =? 404)%N]; eapply IH; exact E.
  - destruct expect as [x|], declared as [n|]; try discriminate. destruct (x =? n); discriminate.
Qed.

Lemma get_rounds_err tries : forall round servers ns expect c404 log e lg,
  get_rounds oracle tries round servers ns expect c404 log = {| g_res := GErr e; g_log := lg |} ->
  e = ENotFound \/ e = ETemp \/ e = EPerm \/ e = ESizeMismatch \/ e = ENoSize.
Proof.
  induction tries as [|t IH]; intros round servers ns expect c404 log e lg E; cbn [get_rounds] in E.
  - injection E as <- _. destruct (c404 =? ns); [auto|]. destruct servers; auto.
  - destruct (try_servers oracle servers round expect c404 [] log) as [[[r c'] rt] lg'] eqn:Et. destruct r as [r|].
    + injection E as -> _. apply try_servers_err in Et. destruct Et; auto.
    + eapply IH. exact E.
Qed.

Theorem not_found_classes retries order loc e lg :
  get_or_head oracle retries order loc = {| g_res := GErr e; g_log := lg |} ->
  e = ENotFound \/ e = ETemp \/ e = EPerm \/ e = ESizeMismatch \/ e = ENoSize.
Proof.
  unfold get_or_head. destruct (empty_block_loc loc); [discriminate|]. apply get_rounds_err.
Qed.
End G.

(* ------------------------------------------------------------------ block cache *)
(* DESIGN cache_ok_sound: what goes into the cache as data is the first [size] bytes of a stream that ended
   in a clean EOF and whose digest is the locator's hash *)
Theorem cache_ok_sound loc x rd size st d :
  fetch_entry H loc (GOk x rd size st) = EData d ->
  s_term st = TEOF /\ H (s_bytes st) = loc_hash loc /\ size <= slen (s_bytes st) /\ d = take size (s_bytes st).
Proof.
  unfold fetch_entry. fold (fresh st (loc_hash loc)).
  destruct (hcr_read_full H (fresh st (loc_hash loc)) size) as [[b e] r'] eqn:E.
  destruct e; try discriminate. destruct (hcr_close H r') eqn:C; try discriminate. intros [= <-].
  destruct (read_full_close_sound _ _ _ _ _ E C) as (A & B & T & Hh). auto.
Qed.

(* ... hence, for a locator that stands for content c (digest and size), the cached data is c or there is an
   explicit collision *)
Corollary cache_ok_content loc x rd size st d c :
  fetch_entry H loc (GOk x rd size st) = EData d -> H c = loc_hash loc -> slen c = size ->
  d = c \/ collision (s_bytes st) c.
Proof.
  intros E Hc Hs. apply cache_ok_sound in E. destruct E as (_ & Hh & Hle & ->).
  destruct (same_digest_same_or_collision (s_bytes st) c) as [Eq|Col]; [congruence| |right; exact Col].
  left. rewrite Eq. apply take_all. lia.
Qed.

(* an entry is data that passed verification, or an error *)
Definition verified (key d : string) : Prop := exists b n, H b = key /\ d = take n b.

(* DESIGN readat_bounds *)
Theorem readat_bounds d n off :
  (slen d < off -> entry_read_at (EData d) n off = (EmptyString, EUEOF)) /\
  (off <= slen d -> entry_read_at (EData d) n off = (take n (drop off d), ENil) /\
                    slen (take n (drop off d)) = Nat.min n (slen d - off)).
Proof.
  unfold entry_read_at. split; intros Hc.
  - apply Nat.ltb_lt in Hc. rewrite Hc. reflexivity.
  - assert (E : (slen d <? off) = false) by (apply Nat.ltb_ge; exact Hc). rewrite E. split; [reflexivity|].
    rewrite slen_take, slen_drop. reflexivity.
Qed.

Lemma readat_error e n off : entry_read_at (EErr e) n off = (EmptyString, e).
Proof. reflexivity. Qed.

(* ------------------------------------------------------------------ storedSegment.ReadAt *)
(* DESIGN file_read_is_segment_slice (segment level): over a verified block [blk] that covers the segment,
   ReadAt returns exactly bytes [offset+off, offset+off+min(n, length-off)) of the block, with io.EOF iff the
   caller asked for more than the segment holds; reads past the end give io.EOF and nothing *)
Theorem seg_read_at_slice blk se n off :
  sg_offset se + sg_length se <= slen blk ->
  (sg_length se < off -> seg_read_at (entry_read_at (EData blk)) se n off = (EmptyString, EEOF)) /\
  (off <= sg_length se ->
     seg_read_at (entry_read_at (EData blk)) se n off =
       (take (Nat.min n (sg_length se - off)) (drop (sg_offset se + off) blk),
        if sg_length se - off <? n then EEOF else ENil) /\
     slen (take (Nat.min n (sg_length se - off)) (drop (sg_offset se + off) blk)) = Nat.min n (sg_length se - off)).
Proof.
  intros Hb. unfold seg_read_at. split; intros Hc.
  - apply Nat.ltb_lt in Hc. rewrite Hc. reflexivity.
  - assert (E : (sg_length se <? off) = false) by (apply Nat.ltb_ge; exact Hc). rewrite E.
    assert (E2 : (slen blk <? off + sg_offset se) = false) by (apply Nat.ltb_ge; lia).
    split.
    + unfold entry_read_at. rewrite E2. rewrite (Nat.add_comm off).
      destruct (sg_length se - off <? n) eqn:E3.
      * apply Nat.ltb_lt in E3. rewrite Nat.min_r by lia. reflexivity.
      * apply Nat.ltb_ge in E3. rewrite Nat.min_l by lia. reflexivity.
    + rewrite slen_take, slen_drop. lia.
Qed.
End P.
