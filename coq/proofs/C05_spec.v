(* C05 — the Prop-level specification, its reflection by the boolean evaluator (C05_run.spec_core),
   the model-level theorems stated on `balance` (cleanupMounts; setupLookupTables; balanceBlock),
   the _refuted witnesses for the open findings and the _partial "model meets the specification". *)
From Coq Require Import List Arith Bool Lia Permutation NArith.
From AV Require Import model.C05_model model.C05_old_model model.C05_run proofs.C05_proofs proofs.C05_safety proofs.C05_repl proofs.C05_phys.
Import ListNotations.

(* ---------- Prop-level specification of an output (trash list, pull list, lost flag) ---------- *)
Definition Writable (eff : list mnt) (m : nat) : Prop := exists x, In x eff /\ mid x = m /\ mro x = false.

Definition Spec (c : case) (tr pl : list (nat * nat)) (lost : bool) : Prop :=
  let eff := setup (c_raw c) (c_sro c) in
  let before k := phys_repl (c_dflt c) k eff (held eff (c_repl c)) in
  let afterw k := phys_repl (c_dflt c) k eff (after eff (c_repl c) tr) in
  (* trash: an observed replica, older than MinMtime, on a writable mount of a writable server *)
  (forall m t, In (m, t) tr -> In (m, t) (c_repl c) /\ t < c_min c /\ Writable eff m) /\
  (* nothing is trashed while some desired class is under-replicated *)
  (forall k d, In (k, d) (c_desired c) -> 0 < d -> before k < d -> tr = []) /\
  (* executing every trash leaves each class with at least min(desired, before) *)
  (forall k d, In (k, d) (c_desired c) -> 0 < d -> Nat.min d (before k) <= afterw k) /\
  (* pulls: writable target that lacks the block; the source service has a replica *)
  (forall m f, In (m, f) pl -> Writable eff m /\ (forall t, ~ In (m, t) (c_repl c)) /\
      exists i t x, In (i, t) (c_repl c) /\ In x (c_raw c) /\ mid x = i /\ msrv x = f) /\
  (* referenced and no replica anywhere: lost *)
  (c_repl c = [] -> (exists k d, In (k, d) (c_desired c) /\ 0 < d) -> lost = true).

Lemma pair_mem_In p l : pair_mem p l = true <-> In p l.
Proof.
  unfold pair_mem. rewrite existsb_exists. destruct p as [a b]. split.
  - intros ([x y] & H & E). simpl in E. apply andb_true_iff in E. destruct E as [E1 E2].
    apply Nat.eqb_eq in E1, E2. subst. exact H.
  - intros H. exists (a, b). split; auto. simpl. rewrite !Nat.eqb_refl. reflexivity.
Qed.
Lemma writable_iff eff m : writable eff m = true <-> Writable eff m.
Proof.
  unfold writable, Writable. rewrite existsb_exists. split.
  - intros (x & Hx & E). apply andb_true_iff in E. destruct E as [E1 E2]. apply Nat.eqb_eq in E1. apply negb_true_iff in E2. eauto.
  - intros (x & Hx & E1 & E2). exists x. split; auto. rewrite E2. apply Nat.eqb_eq in E1. rewrite E1. reflexivity.
Qed.
Lemma is_nil_iff {A} (l : list A) : is_nil l = true <-> l = [].
Proof. destruct l; simpl; split; intros; congruence. Qed.
Lemma wanted_nonempty des : is_nil (wanted des) = false <-> exists k d, In (k, d) des /\ 0 < d.
Proof.
  unfold wanted. split.
  - intros H. destruct (filter (fun cd => 0 <? snd cd) des) as [|[k d] r] eqn:E; [discriminate|].
    assert (In (k, d) (filter (fun cd => 0 <? snd cd) des)) by (rewrite E; left; reflexivity).
    apply filter_In in H0. destruct H0 as [H1 H2]. apply Nat.ltb_lt in H2. eauto.
  - intros (k & d & Hin & Hd).
    assert (In (k, d) (filter (fun cd => 0 <? snd cd) des)) by (apply filter_In; split; auto; apply Nat.ltb_lt; exact Hd).
    destruct (filter (fun cd => 0 <? snd cd) des); [contradiction|reflexivity].
Qed.

Theorem spec_core_reflects c tr pl lost : spec_core c tr pl lost = true <-> Spec c tr pl lost.
Proof.
  unfold spec_core, Spec. rewrite !andb_true_iff.
  set (eff := setup (c_raw c) (c_sro c)).
  assert (R1 : cl_trash_basic c tr = true <->
               forall m t, In (m, t) tr -> In (m, t) (c_repl c) /\ t < c_min c /\ Writable eff m).
  { unfold cl_trash_basic. rewrite forallb_forall. fold eff. split.
    - intros H m t Hin. specialize (H _ Hin). rewrite !andb_true_iff in H. destruct H as [[H1 H2] H3].
      apply pair_mem_In in H1. apply Nat.ltb_lt in H2. apply writable_iff in H3. auto.
    - intros H [m t] Hin. destruct (H m t Hin) as (H1 & H2 & H3). rewrite !andb_true_iff.
      split; [split|]; [apply pair_mem_In; auto|apply Nat.ltb_lt; auto|apply writable_iff; auto]. }
  assert (R2 : cl_under c tr = true <->
               forall k d, In (k, d) (c_desired c) -> 0 < d -> phys_repl (c_dflt c) k eff (held eff (c_repl c)) < d -> tr = []).
  { unfold cl_under. rewrite forallb_forall. fold eff. split.
    - intros H k d Hin Hd Hlt. specialize (H _ Hin). simpl in H. unfold viol_under in H. fold eff in H.
      apply Nat.ltb_lt in Hd, Hlt. rewrite Hd, Hlt in H. simpl in H. apply negb_true_iff, negb_false_iff in H.
      apply is_nil_iff; exact H.
    - intros H [k d] Hin. simpl. unfold viol_under. fold eff.
      destruct (0 <? d) eqn:E1; simpl; [|reflexivity].
      destruct (phys_repl (c_dflt c) k eff (held eff (c_repl c)) <? d) eqn:E2; simpl; [|reflexivity].
      apply Nat.ltb_lt in E1, E2. rewrite (H k d Hin E1 E2). reflexivity. }
  assert (R3 : cl_pres c tr = true <->
               forall k d, In (k, d) (c_desired c) -> 0 < d ->
                 Nat.min d (phys_repl (c_dflt c) k eff (held eff (c_repl c))) <= phys_repl (c_dflt c) k eff (after eff (c_repl c) tr)).
  { unfold cl_pres. rewrite forallb_forall. fold eff. split.
    - intros H k d Hin Hd. specialize (H _ Hin). simpl in H. unfold viol_pres in H. fold eff in H.
      apply Nat.ltb_lt in Hd. rewrite Hd in H. simpl in H. apply negb_true_iff, negb_false_iff in H.
      apply Nat.leb_le; exact H.
    - intros H [k d] Hin. simpl. unfold viol_pres. fold eff.
      destruct (0 <? d) eqn:E1; simpl; [|reflexivity]. apply Nat.ltb_lt in E1.
      apply negb_true_iff, negb_false_iff. apply Nat.leb_le. auto. }
  assert (R4 : cl_pull c pl = true <->
               forall m f, In (m, f) pl -> Writable eff m /\ (forall t, ~ In (m, t) (c_repl c)) /\
                 exists i t x, In (i, t) (c_repl c) /\ In x (c_raw c) /\ mid x = i /\ msrv x = f).
  { unfold cl_pull. rewrite forallb_forall. fold eff. split.
    - intros H m f Hin. specialize (H _ Hin). simpl in H. rewrite !andb_true_iff in H. destruct H as [[H1 H2] H3].
      split; [apply writable_iff; exact H1|]. split.
      + intros t Ht. apply negb_true_iff in H2. assert (existsb (fun r => fst r =? m) (c_repl c) = true); [|congruence].
        apply existsb_exists. exists (m, t). split; auto. apply Nat.eqb_refl.
      + apply existsb_exists in H3. destruct H3 as ([i t] & Hr & H3). apply existsb_exists in H3.
        destruct H3 as (x & Hx & E). simpl in E. apply andb_true_iff in E. destruct E as [E1 E2].
        apply Nat.eqb_eq in E1, E2. exists i, t, x. auto.
    - intros H [m f] Hin. destruct (H m f Hin) as (H1 & H2 & (i & t & x & H3 & H4 & H5 & H6)). simpl.
      rewrite !andb_true_iff. split; [split|].
      + apply writable_iff; exact H1.
      + apply negb_true_iff. destruct (existsb (fun r => fst r =? m) (c_repl c)) eqn:E; [|reflexivity].
        apply existsb_exists in E. destruct E as ([i' t'] & Hr & E). simpl in E. apply Nat.eqb_eq in E. subst i'.
        exfalso. eapply H2; eauto.
      + apply existsb_exists. exists (i, t). split; auto. apply existsb_exists. exists x. split; auto.
        simpl. rewrite H5, H6, !Nat.eqb_refl. reflexivity. }
  assert (R5 : cl_lost c lost = true <->
               (c_repl c = [] -> (exists k d, In (k, d) (c_desired c) /\ 0 < d) -> lost = true)).
  { unfold cl_lost. split.
    - intros H Hr Hd. apply orb_true_iff in H. destruct H as [H|H]; [|exact H].
      apply negb_true_iff in H. apply andb_false_iff in H. destruct H as [H|H].
      + rewrite Hr in H. discriminate.
      + apply negb_false_iff in H. apply wanted_nonempty in Hd. congruence.
    - intros H. destruct lost; [apply orb_true_r|]. rewrite orb_false_r. apply negb_true_iff. apply andb_false_iff.
      destruct (c_repl c) eqn:Er; [|left; reflexivity]. right. apply negb_false_iff.
      destruct (is_nil (wanted (c_desired c))) eqn:E; [reflexivity|].
      apply wanted_nonempty in E. specialize (H eq_refl E). discriminate. }
  rewrite R1, R2, R3, R4, R5. tauto.
Qed.

(* the bits computed by the evaluator are 0 exactly when the specification holds *)
Lemma lor_zero a b : N.lor a b = 0%N <-> a = 0%N /\ b = 0%N.
Proof. apply N.lor_eq_0_iff. Qed.

Theorem spec_bits_zero c tr pl lost : spec_bits c tr pl lost = 0%N <-> spec_core c tr pl lost = true.
Proof.
  unfold spec_bits, spec_core. rewrite !lor_zero, !andb_true_iff.
  assert (A : repl_bits c tr = 0%N <-> cl_under c tr = true /\ cl_pres c tr = true).
  { unfold repl_bits, cl_under, cl_pres. induction (c_desired c) as [|[k d] r IH]; simpl; [tauto|].
    rewrite !andb_true_iff.
    destruct (viol_under c tr k d) eqn:E1; simpl.
    - split; [|intros [[X _] _]; discriminate]. intros H. apply lor_zero in H. destruct H as [_ H].
      destruct (N.eqb _ 0) eqn:E; [discriminate|]. apply N.eqb_neq in E. contradiction.
    - destruct (viol_pres c tr k d) eqn:E2; simpl.
      + split; [|intros [_ [X _]]; discriminate]. intros H. apply lor_zero in H. destruct H as [_ H].
        destruct (N.eqb _ 0) eqn:E; [discriminate|]. apply N.eqb_neq in E. contradiction.
      + rewrite IH. tauto. }
  assert (B : lost_bits c lost = 0%N <-> cl_lost c lost = true).
  { unfold lost_bits. destruct (cl_lost c lost); [tauto|].
    destruct (negb (existsb (fun m => negb (mro m)) (setup (c_raw c) (c_sro c)))); [split; discriminate|].
    destruct (negb (existsb _ (wanted (c_desired c)))); split; discriminate. }
  rewrite A, B.
  destruct (cl_trash_basic c tr), (cl_pull c pl), (cl_under c tr), (cl_pres c tr), (cl_lost c lost); simpl;
    split; intros H; try (exfalso; intuition discriminate); intuition reflexivity.
Qed.

(* ---------- from the effective layout back to what the services reported ---------- *)
Lemma setup_raw raw sro x : In x (setup raw sro) -> mro x = false ->
  exists r, In r raw /\ mid r = mid x /\ msrv r = msrv x /\ mro r = false /\ ~ In (msrv r) sro.
Proof.
  unfold setup. intros H Hro. apply in_map_iff in H. destruct H as (r & <- & Hr).
  unfold cleanup in Hr. apply filter_In in Hr. destruct Hr as [Hr _].
  simpl in Hro. apply orb_false_iff in Hro. destruct Hro as [H1 H2]. apply mem_false in H2.
  exists r. simpl. auto.
Qed.

(* ---------- full-strength theorems on `balance` ---------- *)
Section Balance.
Variables (dflt : nat) (rank devrank : nat -> nat) (minMtime : nat).
Variables (raw : list mnt) (sro : list nat) (repl desired : list (nat * nat)).
Let eff := setup raw sro.
Let out := balance_old dflt rank devrank minMtime raw sro repl desired.

Theorem trash_old_only m t : In (Trash m t) (fst out) -> t < minMtime /\ In (m, t) repl.
Proof using Type. intros H. unfold out, balance_old in H. apply block_trash_ok in H. tauto. Qed.

Theorem trash_writable_only m t : In (Trash m t) (fst out) ->
  exists r, In r raw /\ mid r = m /\ mro r = false /\ ~ In (msrv r) sro.
Proof using Type.
  intros H. unfold out, balance_old in H. apply block_trash_ok in H. destruct H as (_ & _ & x & Hx & <- & Hro).
  destruct (setup_raw _ _ _ Hx Hro) as (r & A & B & C & D & E). exists r. auto.
Qed.

Theorem pull_targets_ok m f : In (Pull m f) (fst out) ->
  (exists r, In r raw /\ mid r = m /\ mro r = false /\ ~ In (msrv r) sro) /\
  (forall t, ~ In (m, t) repl) /\
  exists m0 t0 rest, repl = (m0, t0) :: rest /\
     f = match find (fun x => mid x =? m0) raw with Some x => msrv x | None => 0 end.
Proof using Type.
  intros H. unfold out, balance_old in H. apply block_pull_ok in H. destruct H as ((x & Hx & <- & Hro) & H2 & H3).
  split; [|split; assumption].
  destruct (setup_raw _ _ _ Hx Hro) as (r & A & B & C & D & E). exists r. auto.
Qed.

Theorem no_trash_when_flag :
  under_flag_old dflt rank devrank eff repl (classes_of dflt eff) desired = true -> trashes (fst out) = [].
Proof using Type.
  intros F. destruct (trashes (fst out)) as [|[m t] r] eqn:E; [reflexivity|exfalso].
  assert (In (m, t) (trashes (fst out))) by (rewrite E; left; reflexivity).
  apply in_trashes in H. unfold out, balance_old in H. fold eff in H. eapply block_no_trash_when_flag; eauto.
Qed.

Theorem lost_reported k :
  repl = [] -> In k (classes_of dflt eff) -> 0 < lookup desired k ->
  (exists x, In x eff /\ mro x = false) -> snd out = true.
Proof using Type.
  intros -> Hk Hd Hw. unfold out, balance_old. fold eff. eapply block_lost_reported; eauto.
Qed.
End Balance.

(* ---------- hypotheses of the _partial theorem, as a boolean over a case ---------- *)
Lemma nodupb_NoDup l : nodupb l = true <-> NoDup l.
Proof.
  induction l as [|x r IH]; simpl; [split; [constructor|reflexivity]|].
  rewrite andb_true_iff, negb_true_iff, IH, mem_false. split.
  - intros [A B]. constructor; auto.
  - intros H. inversion H; auto.
Qed.

Lemma lookup_In des k d : NoDup (map fst des) -> In (k, d) des -> lookup des k = d.
Proof.
  induction des as [|[k' d'] r IH]; simpl; intros N H; [contradiction|].
  inversion N as [|? ? Hnin N']; subst.
  destruct H as [E|H].
  - injection E as -> ->. rewrite Nat.eqb_refl. reflexivity.
  - destruct (k' =? k) eqn:E; [|auto]. apply Nat.eqb_eq in E. subst. exfalso. apply Hnin.
    apply in_map_iff. exists (k, d). auto.
Qed.

Theorem model_meets_spec_partial c :
  hyp_b c = true ->
  let '(chs, lost) := m_out_old c in Spec c (trashes chs) (pulls chs) lost.
Proof.
  unfold hyp_b. set (eff := setup (c_raw c) (c_sro c)). rewrite !andb_true_iff.
  intros [[[[[H1 H2] H3] H4] H5] H6].
  apply nodupb_NoDup in H1, H2, H4.
  assert (U : unshared eff) by (split; assumption).
  unfold m_out_old. set (rk := fun s => nth s (c_rank c) 0). set (dr := fun d => nth d (c_devrank c) 0).
  destruct (balance_old (c_dflt c) rk dr (c_min c) (c_raw c) (c_sro c) (c_repl c) (c_desired c)) as [chs lost] eqn:E.
  assert (Ec : chs = fst (balance_old (c_dflt c) rk dr (c_min c) (c_raw c) (c_sro c) (c_repl c) (c_desired c))) by (rewrite E; reflexivity).
  assert (El : lost = snd (balance_old (c_dflt c) rk dr (c_min c) (c_raw c) (c_sro c) (c_repl c) (c_desired c))) by (rewrite E; reflexivity).
  assert (Hcls : forall k d, In (k, d) (c_desired c) -> 0 < d ->
             lookup (c_desired c) k = d /\ In k (classes_of (c_dflt c) eff) /\ NoDup (map msrv (filter (inclass (c_dflt c) k) eff))).
  { intros k d Hin Hd. rewrite forallb_forall in H5. specialize (H5 _ Hin). simpl in H5.
    apply Nat.ltb_lt in Hd. rewrite Hd in H5. simpl in H5. apply andb_true_iff in H5. destruct H5 as [A B].
    split; [apply lookup_In; auto|]. split; [apply mem_In; exact A|apply nodupb_NoDup; exact B]. }
  unfold Spec. fold eff. split; [|split; [|split; [|split]]].
  - intros m t Hin. apply in_trashes in Hin. rewrite Ec in Hin. unfold balance_old in Hin. fold eff in Hin.
    apply block_trash_ok in Hin. destruct Hin as (A & B & x & Hx & Em & Hro). split; [exact B|]. split; [exact A|].
    exists x. auto.
  - intros k d Hin Hd Hlt. destruct (Hcls k d Hin Hd) as (L & Ck & _). rewrite Ec.
    eapply under_partial; eauto; fold eff; rewrite ?L; auto.
  - intros k d Hin Hd. destruct (Hcls k d Hin Hd) as (L & Ck & Ns). rewrite Ec, <- L.
    apply pres_partial; fold eff; rewrite ?L; auto.
  - intros m f Hin. apply in_pulls in Hin. rewrite Ec in Hin. unfold balance_old in Hin. fold eff in Hin.
    apply block_pull_ok in Hin. destruct Hin as ((x & Hx & Em & Hro) & B & (m0 & t0 & rest & Er & Ef)).
    split; [exists x; auto|]. split; [exact B|].
    rewrite forallb_forall in H3. assert (In (m0, t0) (c_repl c)) by (rewrite Er; left; reflexivity).
    specialize (H3 _ H). simpl in H3. apply existsb_exists in H3. destruct H3 as (y & Hy & Ey). apply Nat.eqb_eq in Ey.
    destruct (find (fun x => mid x =? m0) (c_raw c)) as [z|] eqn:Fz.
    + apply find_some in Fz. destruct Fz as [Hz Ez]. apply Nat.eqb_eq in Ez. exists m0, t0, z. auto.
    + exfalso. eapply find_none in Fz; [|exact Hy]. apply Nat.eqb_neq in Fz. congruence.
  - intros Hr (k & d & Hin & Hd). destruct (Hcls k d Hin Hd) as (L & Ck & _). rewrite El.
    apply existsb_exists in H6. destruct H6 as (x & Hx & Hro). apply negb_true_iff in Hro.
    rewrite Hr. eapply block_lost_reported; [exact Ck|rewrite L; exact Hd|exists x; auto].
Qed.

Corollary model_spec_partial c : hyp_b c = true -> model_spec_old c = true.
Proof.
  intros H. pose proof (model_meets_spec_partial c H) as S. unfold model_spec_old.
  destruct (m_out_old c) as [chs lost]. apply spec_core_reflects. exact S.
Qed.
