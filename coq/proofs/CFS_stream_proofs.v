(* marshalManifest's per-directory stream: the block list and file parts it emits describe exactly the
   files' bytes (block coalescing and part merging included). *)
From Coq Require Import List Arith Lia Bool String.
Import ListNotations.
From AV Require Import lib.Str lib.Path model.CFS_file model.CFS_tree model.CFS_inst model.CFS_bg
  proofs.CFS_file_proofs proofs.CFS_refine proofs.CFS_prov proofs.CFS_bg_proofs proofs.CFS_range_proofs.
Notation length := List.length.
Notation byte := CFS_file.byte.
Local Open Scope string_scope.
Local Open Scope list_scope.

Section Stream.
Variable tab : list (list byte * string).
Variable blks : list (list byte).     (* block store: block id -> data *)

(* the digest table is functional in both directions on the blocks that occur *)
Hypothesis tab_inj : forall d d', In d blks -> In d' blks -> loc_text tab d = loc_text tab d' -> d = d'.

Definition slice (SS : list byte) (o n : nat) : list byte := firstn n (skipn o SS).

(* bytes that the parts of file [name] select from the stream SS, in order *)
Fixpoint parts_bytes (SS : list byte) (name : string) (ps : list fpart) : list byte :=
  match ps with
  | [] => []
  | p :: r => (if String.eqb (fp_name p) name then slice SS (fp_off p) (fp_len p) else []) ++ parts_bytes SS name r
  end.

Lemma parts_bytes_app SS name a b : parts_bytes SS name (a ++ b) = parts_bytes SS name a ++ parts_bytes SS name b.
Proof. induction a as [|p a IH]; cbn [app parts_bytes]; [reflexivity|]. rewrite IH, app_assoc. reflexivity. Qed.

Lemma slice_app_l (SS T : list byte) o n : o + n <= length SS -> slice (SS ++ T) o n = slice SS o n.
Proof.
  intros H. unfold slice. rewrite skipn_app. rewrite firstn_app. rewrite skipn_length.
  replace (n - (length SS - o)) with 0 by lia. cbn [firstn]. rewrite app_nil_r. reflexivity.
Qed.

Definition part_in (SS : list byte) (p : fpart) : Prop := fp_off p + fp_len p <= length SS.
Definition parts_in (SS : list byte) (ps : list fpart) : Prop := Forall (part_in SS) ps.
Lemma slice_0 (SS : list byte) o : slice SS o 0 = [].
Proof. reflexivity. Qed.

Lemma parts_bytes_grow SS T name ps : parts_in SS ps -> parts_bytes (SS ++ T) name ps = parts_bytes SS name ps.
Proof.
  induction ps as [|p r IH]; intros H; cbn [parts_bytes]; [reflexivity|].
  inversion H; subst. rewrite IH by assumption. destruct (String.eqb (fp_name p) name); [|reflexivity].
  unfold part_in in *.
  rewrite slice_app_l by assumption. reflexivity.
Qed.
Lemma parts_in_grow SS T ps : parts_in SS ps -> parts_in (SS ++ T) ps.
Proof. unfold parts_in. intros H. eapply Forall_impl; [|exact H]. intros p Hp. unfold part_in in *. rewrite app_length. lia. Qed.

(* stream invariant: BD is the data of the blocks listed so far *)
Record SInv (bl : list string) (ps : list fpart) (sl : nat) (BD : list (list byte)) : Prop := {
  si_txt : bl = map (loc_text tab) BD;
  si_in : Forall (fun d => In d blks) BD;
  si_len : sl = length (List.concat BD);
  si_parts : parts_in (List.concat BD) ps
}.

Lemma concat_snoc {A} (l : list (list A)) x : List.concat (l ++ [x]) = List.concat l ++ x.
Proof. rewrite concat_app. cbn. rewrite app_nil_r. reflexivity. Qed.

Lemma rev_cons_last {A} (l : list A) x r : rev l = x :: r -> l = rev r ++ [x].
Proof. intros H. rewrite <- (rev_involutive l), H. reflexivity. Qed.

Lemma slice_add (SS : list byte) o a b : slice SS o (a + b) = slice SS o a ++ slice SS (o + a) b.
Proof. unfold slice. rewrite firstn_add, my_skipn_skipn. reflexivity. Qed.

(* one file's segments *)
Lemma stream_segs_ok name : forall l bl ps sl BD,
  StoLocal blks l -> (forall b t, ~ In (Mem b t) l) -> Forall (fun s => 0 < slen s) l ->
  SInv bl ps sl BD ->
  let '(bl', ps', sl') := stream_segs tab blks name l bl ps sl in
  exists BD', SInv bl' ps' sl' BD' /\ (exists T, List.concat BD' = List.concat BD ++ T) /\
    parts_bytes (List.concat BD') name ps' = parts_bytes (List.concat BD) name ps ++ flat_map sbytes l /\
    (forall other, other <> name -> parts_bytes (List.concat BD') other ps' = parts_bytes (List.concat BD) other ps).
Proof.
  induction l as [|s l IH]; intros bl ps sl BD HS HN HZ HI; cbn [stream_segs].
  - exists BD. split; [exact HI|]. split; [exists []; rewrite app_nil_r; reflexivity|]. cbn. rewrite app_nil_r. auto.
  - destruct s as [b t|b loc bsz boff]; [exfalso; apply (HN b t); left; reflexivity|].
    assert (HSl : StoLocal blks l) by (eapply StoLocal_tail; exact HS).
    assert (HNl : forall b t, ~ In (Mem b t) l) by (intros b0 t0 H0; apply (HN b0 t0); right; exact H0).
    assert (HZl : Forall (fun s => 0 < slen s) l) by (inversion HZ; assumption).
    assert (Hbpos : 0 < length b) by (inversion HZ; subst; assumption).
    destruct (HS b loc bsz boff (or_introl eq_refl)) as (blk & Hnth & Hbsz & Hsl).
    assert (Hnd : nth loc blks [] = blk) by (apply nth_error_nth; exact Hnth).
    assert (Hin : In blk blks) by (eapply nth_error_In; exact Hnth).
    rewrite Hnd.
    destruct HI as [I1 I2 I3 I4].
    (* the block list after this segment, with its data *)
    set (lt := loc_text tab blk).
    assert (Hblocks : exists BD1 sl1,
              (let '(b1, s1) := match rev bl with
                                | last :: _ => if String.eqb last lt then (bl, sl - bsz) else (bl ++ [lt], sl)
                                | [] => ([lt], sl)
                                end in (b1, s1)) = (map (loc_text tab) BD1, sl1) /\
              Forall (fun d => In d blks) BD1 /\
              (exists T, List.concat BD1 = List.concat BD ++ T) /\
              sl1 + bsz = length (List.concat BD1) /\
              slice (List.concat BD1) sl1 bsz = blk).
    { destruct (rev bl) as [|last rb] eqn:Er.
      - assert (bl = []) by (destruct bl; [reflexivity|]; apply (f_equal (@length string)) in Er; rewrite rev_length in Er; discriminate).
        subst bl. destruct BD; [|discriminate]. cbn in I3. subst sl.
        exists [blk], 0. cbn. rewrite app_nil_r. split; [reflexivity|]. split; [constructor; [exact Hin|constructor]|].
        split; [exists blk; reflexivity|]. split; [lia|]. unfold slice. cbn. rewrite <- Hbsz. apply firstn_all.
      - destruct (String.eqb_spec last lt) as [El|Ene].
        + (* same locator as the last block: reuse it *)
          apply rev_cons_last in Er.
          assert (HBD : exists BD0 dl, BD = BD0 ++ [dl] /\ loc_text tab dl = last).
          { destruct (rev BD) as [|dl rBD] eqn:Erb.
            - assert (BD = []) by (destruct BD; [reflexivity|]; apply (f_equal (@length (list byte))) in Erb; rewrite rev_length in Erb; discriminate).
              subst BD. cbn in I1. rewrite I1 in Er. destruct (rev rb); discriminate.
            - apply rev_cons_last in Erb. exists (rev rBD), dl. split; [exact Erb|].
              rewrite Erb, map_app in I1. cbn in I1. rewrite Er in I1. apply app_inj_tail in I1. symmetry. apply I1. }
          destruct HBD as (BD0 & dl & EBD & Edl).
          assert (dl = blk).
          { apply tab_inj; [|exact Hin|rewrite Edl; exact El].
            rewrite Forall_forall in I2. apply I2. rewrite EBD. apply in_or_app. right. left. reflexivity. }
          subst dl. exists BD, (sl - bsz). split; [rewrite I1; reflexivity|]. split; [exact I2|].
          split; [exists []; rewrite app_nil_r; reflexivity|].
          rewrite EBD, concat_snoc in *. rewrite app_length in I3. split; [rewrite app_length; lia|].
          unfold slice. rewrite I3. replace (length (List.concat BD0) + length blk - bsz) with (length (List.concat BD0)) by lia.
          rewrite skipn_app, skipn_all, Nat.sub_diag. cbn [skipn app]. rewrite <- Hbsz. apply firstn_all.
        + exists (BD ++ [blk]), sl. rewrite map_app. cbn [map]. rewrite I1. split; [reflexivity|].
          split; [apply Forall_app; split; [exact I2|constructor; [exact Hin|constructor]]|].
          split; [exists blk; apply concat_snoc|]. rewrite concat_snoc, app_length. split; [lia|].
          unfold slice. rewrite I3, skipn_app, skipn_all, Nat.sub_diag. cbn [skipn app]. rewrite <- Hbsz. apply firstn_all. }
    destruct Hblocks as (BD1 & sl1 & Eb & HinBD1 & (T1 & HT1) & Hsl1 & Hslice).
    destruct (match rev bl with
              | last :: _ => if String.eqb last lt then (bl, sl - bsz) else (bl ++ [lt], sl)
              | [] => ([lt], sl)
              end) as [blocks1 slen1]. inversion Eb; subst blocks1 slen1. clear Eb.
    set (S1 := List.concat BD1) in *.
    (* the bytes of this segment in the stream *)
    assert (Hb : slice S1 (sl1 + boff) (length b) = b /\ boff + length b <= bsz).
    { unfold is_slice in Hsl. assert (Hle : length b <= length blk - boff).
      { rewrite Hsl at 1. rewrite firstn_length, skipn_length. lia. }
      split; [|lia]. rewrite Hsl at 2. rewrite <- Hslice. unfold slice.
      rewrite skipn_firstn_comm', my_skipn_skipn. rewrite firstn_firstn_le by lia. reflexivity. }
    destruct Hb as [Hb Hbo].
    assert (HP1 : parts_in S1 ps) by (rewrite HT1; apply parts_in_grow; exact I4).
    set (next := {| fp_name := name; fp_off := sl1 + boff; fp_len := length b |}).
    (* the part list after this segment *)
    assert (Hparts : exists ps1,
              ps1 = match rev ps with
                    | prev :: before => if String.eqb (fp_name prev) name && Nat.eqb (fp_off prev + fp_len prev) (fp_off next)
                                        then rev before ++ [{| fp_name := name; fp_off := fp_off prev; fp_len := fp_len prev + fp_len next |}]
                                        else ps ++ [next]
                    | [] => [next]
                    end /\
              parts_in S1 ps1 /\
              parts_bytes S1 name ps1 = parts_bytes S1 name ps ++ b /\
              (forall other, other <> name -> parts_bytes S1 other ps1 = parts_bytes S1 other ps)).
    { eexists. split; [reflexivity|].
      assert (Hnext_in : part_in S1 next) by (unfold part_in; cbn; lia).
      assert (Happend : parts_in S1 (ps ++ [next]) /\ parts_bytes S1 name (ps ++ [next]) = parts_bytes S1 name ps ++ b /\
                        (forall other, other <> name -> parts_bytes S1 other (ps ++ [next]) = parts_bytes S1 other ps)).
      { split; [apply Forall_app; split; [exact HP1|constructor; [exact Hnext_in|constructor]]|]. split.
        - rewrite parts_bytes_app. cbn [parts_bytes next fp_name fp_off fp_len]. rewrite String.eqb_refl, app_nil_r, Hb. reflexivity.
        - intros other Ho. rewrite parts_bytes_app. cbn [parts_bytes next fp_name]. destruct (String.eqb_spec name other); [congruence|].
          cbn. rewrite app_nil_r. reflexivity. }
      destruct (rev ps) as [|prev before] eqn:Erp.
      - assert (ps = []) by (destruct ps; [reflexivity|]; apply (f_equal (@length fpart)) in Erp; rewrite rev_length in Erp; discriminate).
        subst ps. exact Happend.
      - destruct (String.eqb (fp_name prev) name && Nat.eqb (fp_off prev + fp_len prev) (fp_off next)) eqn:Em; [|exact Happend].
        apply andb_true_iff in Em. destruct Em as [Em1 Em2]. apply String.eqb_eq in Em1. apply Nat.eqb_eq in Em2.
        apply rev_cons_last in Erp. subst ps.
        assert (HPb : parts_in S1 (rev before)) by (apply Forall_app in HP1; apply HP1).
        assert (Hprev_in : part_in S1 prev).
        { apply Forall_app in HP1. destruct HP1 as [_ H1]. inversion H1; assumption. }
        split; [|split].
        + apply Forall_app. split; [exact HPb|]. constructor; [|constructor]. unfold part_in in *. cbn [fp_off fp_len] in *. lia.
        + rewrite !parts_bytes_app. cbn [parts_bytes fp_name fp_off fp_len]. rewrite Em1, String.eqb_refl, !app_nil_r.
          rewrite <- app_assoc. f_equal. rewrite slice_add. f_equal. rewrite Em2. exact Hb.
        + intros other Ho. rewrite !parts_bytes_app. cbn [parts_bytes fp_name]. rewrite Em1.
          destruct (String.eqb_spec name other); [congruence|]. reflexivity. }
    destruct Hparts as (ps1 & Eps1 & HPin1 & HPb1 & HPo1). rewrite <- Eps1.
    assert (HI1 : SInv (map (loc_text tab) BD1) ps1 (sl1 + bsz) BD1).
    { constructor; [reflexivity|exact HinBD1|exact Hsl1|exact HPin1]. }
    specialize (IH (map (loc_text tab) BD1) ps1 (sl1 + bsz) BD1 HSl HNl HZl HI1).
    destruct (stream_segs tab blks name l (map (loc_text tab) BD1) ps1 (sl1 + bsz)) as [[bl' ps'] sl'].
    destruct IH as (BD' & HI' & (T' & HT') & HB' & HO').
    exists BD'. split; [exact HI'|]. split; [exists (T1 ++ T'); rewrite HT'; fold S1; rewrite HT1, app_assoc; reflexivity|].
    split.
    + fold S1 in HB'. rewrite HB', HPb1. rewrite HT1. rewrite parts_bytes_grow by exact I4. cbn [flat_map sbytes]. rewrite app_assoc. reflexivity.
    + intros other Ho. specialize (HO' other Ho). fold S1 in HO'. rewrite HO', (HPo1 other Ho). rewrite HT1. apply parts_bytes_grow. exact I4.
Qed.


(* ---- where the parts of a file go: appended after everything emitted before ---- *)
Definition named (name : string) (p : fpart) : Prop := fp_name p = name.
Definition other (name : string) (p : fpart) : Prop := fp_name p <> name.

Lemma rev_nil_inv {A} (l : list A) : rev l = [] -> l = [].
Proof. destruct l as [|x l]; [reflexivity|]. intros H. apply (f_equal (@length A)) in H. rewrite rev_length in H. discriminate. Qed.

Lemma stream_segs_shape name : forall l bl base cur sl,
  Forall (other name) base -> Forall (named name) cur -> (forall b t, ~ In (Mem b t) l) ->
  exists cur', snd (fst (stream_segs tab blks name l bl (base ++ cur) sl)) = base ++ cur' /\
               Forall (named name) cur' /\ (l <> [] \/ cur <> [] -> cur' <> []).
Proof.
  induction l as [|s l IH]; intros bl base cur sl Hb Hc HN; cbn [stream_segs].
  - exists cur. split; [reflexivity|]. split; [exact Hc|]. intros [H|H]; [congruence|exact H].
  - destruct s as [b t|b loc bsz boff]; [exfalso; apply (HN b t); left; reflexivity|].
    assert (HNl : forall b t, ~ In (Mem b t) l) by (intros b0 t0 H0; apply (HN b0 t0); right; exact H0).
    destruct (match rev bl with
              | last :: _ => if String.eqb last (loc_text tab (nth loc blks [])) then (bl, sl - bsz) else (bl ++ [loc_text tab (nth loc blks [])], sl)
              | [] => ([loc_text tab (nth loc blks [])], sl)
              end) as [blocks1 slen1].
    set (next := {| fp_name := name; fp_off := slen1 + boff; fp_len := length b |}).
    assert (Hshape : exists cur1, match rev (base ++ cur) with
                    | prev :: before => if String.eqb (fp_name prev) name && Nat.eqb (fp_off prev + fp_len prev) (fp_off next)
                                        then rev before ++ [{| fp_name := name; fp_off := fp_off prev; fp_len := fp_len prev + fp_len next |}]
                                        else (base ++ cur) ++ [next]
                    | [] => [next]
                    end = base ++ cur1 /\ Forall (named name) cur1 /\ cur1 <> []).
    { assert (Happ : (base ++ cur) ++ [next] = base ++ (cur ++ [next]) /\ Forall (named name) (cur ++ [next]) /\ cur ++ [next] <> []).
      { split; [rewrite app_assoc; reflexivity|]. split; [apply Forall_app; split; [exact Hc|constructor; [reflexivity|constructor]]|].
        destruct cur; discriminate. }
      destruct (rev (base ++ cur)) as [|prev before] eqn:Er.
      - apply rev_nil_inv in Er. apply app_eq_nil in Er. destruct Er as [-> ->]. exists [next]. split; [reflexivity|].
        split; [constructor; [reflexivity|constructor]|discriminate].
      - destruct (String.eqb (fp_name prev) name && Nat.eqb (fp_off prev + fp_len prev) (fp_off next)) eqn:Em; [|exists (cur ++ [next]); exact Happ].
        apply andb_true_iff in Em. destruct Em as [Em1 _]. apply String.eqb_eq in Em1.
        apply rev_cons_last in Er.
        destruct (rev cur) as [|cl rc] eqn:Erc.
        + apply rev_nil_inv in Erc. subst cur. rewrite app_nil_r in Er. exfalso.
          rewrite Er in Hb. apply Forall_app in Hb. destruct Hb as [_ Hb]. inversion Hb; subst. contradiction.
        + apply rev_cons_last in Erc. subst cur. rewrite app_assoc in Er. apply app_inj_tail in Er. destruct Er as [Er1 Er2].
          rewrite <- Er1. exists (rev rc ++ [{| fp_name := name; fp_off := fp_off prev; fp_len := fp_len prev + fp_len next |}]).
          split; [rewrite app_assoc; reflexivity|]. split; [|destruct (rev rc); discriminate].
          apply Forall_app in Hc. apply Forall_app. split; [apply Hc|constructor; [reflexivity|constructor]]. }
    destruct Hshape as (cur1 & E1 & Hc1 & Hne1). rewrite E1.
    destruct (IH blocks1 base cur1 (slen1 + bsz) Hb Hc1 HNl) as (cur' & E' & Hc' & Hne').
    exists cur'. split; [exact E'|]. split; [exact Hc'|]. intros _. apply Hne'. right. exact Hne1.
Qed.

Lemma parts_bytes_other SS name ps : Forall (other name) ps -> parts_bytes SS name ps = [].
Proof.
  induction ps as [|p r IH]; intros H; cbn [parts_bytes]; [reflexivity|]. inversion H; subst.
  destruct (String.eqb_spec (fp_name p) name); [contradiction|]. cbn. apply IH. assumption.
Qed.
Lemma parts_bytes_named SS name ps : Forall (named name) ps ->
  parts_bytes SS name ps = List.concat (map (fun p => slice SS (fp_off p) (fp_len p)) ps).
Proof.
  induction ps as [|p r IH]; intros H; cbn [parts_bytes map List.concat]; [reflexivity|]. inversion H; subst.
  unfold named in *. match goal with E : fp_name p = _ |- _ => rewrite E end. rewrite String.eqb_refl, IH by assumption. reflexivity.
Qed.

(* the chunk each part delivers *)
Definition chunk (SS : list byte) (p : fpart) : string * list byte := (fp_name p, slice SS (fp_off p) (fp_len p)).

(* parts emitted so far are, file by file and in order, non-empty runs whose chunks add up to the file *)
Definition Grouped (SS : list byte) (files : list (string * list byte)) (ps : list fpart) : Prop :=
  exists gs : list (list fpart), ps = List.concat gs /\
    Forall2 (fun f g => g <> [] /\ Forall (named (fst f)) g /\
                        List.concat (map (fun p => slice SS (fp_off p) (fp_len p)) g) = snd f) files gs.

Lemma Forall2_snoc {A B} (R : A -> B -> Prop) l1 l2 a b : Forall2 R l1 l2 -> R a b -> Forall2 R (l1 ++ [a]) (l2 ++ [b]).
Proof. intros H Hab. apply Forall2_app; [exact H|constructor; [exact Hab|constructor]]. Qed.

Lemma map_slice_grow SS TT g : parts_in SS g ->
  map (fun p => slice (SS ++ TT) (fp_off p) (fp_len p)) g = map (fun p => slice SS (fp_off p) (fp_len p)) g.
Proof.
  induction g as [|p r IH]; intros H; [reflexivity|]. inversion H; subst. cbn [map]. rewrite IH by assumption.
  rewrite slice_app_l by assumption. reflexivity.
Qed.

Lemma Grouped_grow SS TT files ps : parts_in SS ps -> Grouped SS files ps -> Grouped (SS ++ TT) files ps.
Proof.
  intros Hin (gs & E & H2). exists gs. split; [exact E|]. subst ps.
  revert Hin. induction H2 as [|f g fl gl (Hne & Hn & Hb) H2 IH]; intros Hin; [constructor|].
  cbn [List.concat] in Hin. apply Forall_app in Hin. destruct Hin as [Hg Hr].
  constructor; [|apply IH; exact Hr]. split; [exact Hne|]. split; [exact Hn|]. rewrite map_slice_grow by exact Hg. exact Hb.
Qed.

Lemma Grouped_names SS files ps p : Grouped SS files ps -> In p ps -> In (fp_name p) (map fst files).
Proof.
  intros (gs & E & H2) Hin. subst ps. induction H2 as [|f g fl gl (Hne & Hn & Hb) H2 IH]; [destruct Hin|].
  cbn [List.concat] in Hin. apply in_app_or in Hin. destruct Hin as [Hin|Hin].
  - left. rewrite Forall_forall in Hn. symmetry. apply Hn. exact Hin.
  - right. apply IH. exact Hin.
Qed.

(* one more file *)
Lemma stream_file_ok name l done bl ps sl BD :
  StoLocal blks l -> (forall b t, ~ In (Mem b t) l) -> Forall (fun s => 0 < slen s) l ->
  ~ In name (map fst done) ->
  SInv bl ps sl BD -> Grouped (List.concat BD) done ps ->
  let '(bl', ps', sl') := match l with
                          | [] => (bl, ps ++ [{| fp_name := name; fp_off := 0; fp_len := 0 |}], sl)
                          | _ => stream_segs tab blks name l bl ps sl
                          end in
  exists BD', SInv bl' ps' sl' BD' /\ Grouped (List.concat BD') (done ++ [(name, flat_map sbytes l)]) ps'.
Proof.
  intros HS HN HZ Hfresh HI HG.
  assert (Hother : Forall (other name) ps).
  { rewrite Forall_forall. intros p Hp E. apply Hfresh. rewrite <- E. eapply Grouped_names; eassumption. }
  destruct l as [|s0 l0].
  - exists BD. destruct HI as [I1 I2 I3 I4]. split.
    + constructor; [exact I1|exact I2|exact I3|]. apply Forall_app. split; [exact I4|]. constructor; [|constructor].
      unfold part_in. cbn. lia.
    + destruct HG as (gs & E & H2). exists (gs ++ [[{| fp_name := name; fp_off := 0; fp_len := 0 |}]]).
      split; [rewrite concat_snoc, E; reflexivity|]. apply Forall2_snoc; [exact H2|].
      split; [discriminate|]. split; [constructor; [reflexivity|constructor]|reflexivity].
  - set (l := s0 :: l0) in *.
    pose proof (stream_segs_ok name l bl ps sl BD HS HN HZ HI) as Hok.
    destruct (stream_segs_shape name l bl ps [] sl) as (cur' & Esh & Hc' & Hne'); [exact Hother|constructor|exact HN|].
    rewrite app_nil_r in Esh.
    destruct (stream_segs tab blks name l bl ps sl) as [[bl' ps'] sl'].
    cbn [fst snd] in Esh. destruct Hok as (BD' & HI' & (TT & HT) & HB & _).
    exists BD'. split; [exact HI'|].
    destruct HI as [I1 I2 I3 I4].
    pose proof (Grouped_grow _ TT _ _ I4 HG) as HG'. rewrite <- HT in HG'.
    destruct HG' as (gs & E & H2). exists (gs ++ [cur']). split; [rewrite concat_snoc, <- E; exact Esh|].
    apply Forall2_snoc; [exact H2|]. split; [apply Hne'; left; discriminate|]. split; [exact Hc'|]. cbn [snd].
    rewrite <- (parts_bytes_named (List.concat BD') name cur' Hc').
    rewrite Esh, parts_bytes_app in HB. rewrite (parts_bytes_other _ _ _ Hother) in HB. cbn [app] in HB.
    rewrite HB. rewrite (parts_bytes_other _ _ _ Hother). reflexivity.
Qed.


(* all files of a directory *)
Definition file_step (segs_of : nat -> list seg) (acc : list string * list fpart * nat) (e : string * nat) :=
  let '(bl, ps, sl) := acc in
  match segs_of (snd e) with
  | [] => (bl, ps ++ [{| fp_name := fst e; fp_off := 0; fp_len := 0 |}], sl)
  | l => stream_segs tab blks (fst e) l bl ps sl
  end.

Definition segs_stored (l : list seg) : Prop :=
  StoLocal blks l /\ (forall b t, ~ In (Mem b t) l) /\ Forall (fun s => 0 < slen s) l.

Lemma stream_fold_ok (segs_of : nat -> list seg) : forall files done bl ps sl BD,
  (forall e, In e files -> segs_stored (segs_of (snd e))) ->
  NoDup (map fst done ++ map fst files) ->
  SInv bl ps sl BD -> Grouped (List.concat BD) done ps ->
  let '(bl', ps', sl') := fold_left (file_step segs_of) files (bl, ps, sl) in
  exists BD', SInv bl' ps' sl' BD' /\
    Grouped (List.concat BD') (done ++ map (fun e => (fst e, flat_map sbytes (segs_of (snd e)))) files) ps'.
Proof.
  induction files as [|e files IH]; intros done bl ps sl BD Hst Hnd HI HG; cbn [fold_left map].
  - exists BD. rewrite app_nil_r. split; assumption.
  - assert (Hfresh : ~ In (fst e) (map fst done)).
    { cbn [map] in Hnd. apply NoDup_remove_2 in Hnd. intros Hin. apply Hnd. apply in_or_app. left. exact Hin. }
    destruct (Hst e (or_introl eq_refl)) as (HS & HN & HZ).
    pose proof (stream_file_ok (fst e) (segs_of (snd e)) done bl ps sl BD HS HN HZ Hfresh HI HG) as H1.
    unfold file_step at 2. 
    destruct (segs_of (snd e)) as [|s0 l0] eqn:El.
    + destruct H1 as (BD1 & HI1 & HG1).
      specialize (IH (done ++ [(fst e, [])]) bl (ps ++ [{| fp_name := fst e; fp_off := 0; fp_len := 0 |}]) sl BD1).
      match type of IH with ?A -> ?B -> ?C -> ?D -> _ => assert (HA : A); [|assert (HB : B); [|specialize (IH HA HB HI1 HG1)]] end.
      * intros e' He'. apply Hst. right. exact He'.
      * rewrite map_app. cbn [map fst]. rewrite <- app_assoc. cbn [app]. cbn [map] in Hnd.
        apply NoDup_remove_1 in Hnd as Hnd1. 
        replace (map fst done ++ fst e :: map fst files) with (map fst done ++ [fst e] ++ map fst files) by reflexivity.
        exact Hnd.
      * destruct (fold_left (file_step segs_of) files (bl, ps ++ [{| fp_name := fst e; fp_off := 0; fp_len := 0 |}], sl)) as [[bl' ps'] sl'].
        destruct IH as (BD' & HI' & HG'). exists BD'. split; [exact HI'|]. rewrite <- app_assoc in HG'. exact HG'.
    + destruct (stream_segs tab blks (fst e) (s0 :: l0) bl ps sl) as [[bl1 ps1] sl1].
      destruct H1 as (BD1 & HI1 & HG1).
      specialize (IH (done ++ [(fst e, flat_map sbytes (s0 :: l0))]) bl1 ps1 sl1 BD1).
      match type of IH with ?A -> ?B -> ?C -> ?D -> _ => assert (HA : A); [|assert (HB : B); [|specialize (IH HA HB HI1 HG1)]] end.
      * intros e' He'. apply Hst. right. exact He'.
      * rewrite map_app. cbn [map fst]. rewrite <- app_assoc. cbn [app]. exact Hnd.
      * destruct (fold_left (file_step segs_of) files (bl1, ps1, sl1)) as [[bl' ps'] sl'].
        destruct IH as (BD' & HI' & HG'). exists BD'. split; [exact HI'|]. rewrite <- app_assoc in HG'. exact HG'.
Qed.

Lemma SInv_init : SInv [] [] 0 [].
Proof. constructor; [reflexivity|constructor|reflexivity|constructor]. Qed.
Lemma Grouped_init : Grouped [] [] [].
Proof. exists []. split; [reflexivity|constructor]. Qed.

End Stream.
