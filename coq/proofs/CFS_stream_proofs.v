(* marshalManifest's per-directory stream: the block list and file parts it emits describe exactly the
   files' bytes (block coalescing and part merging included). *)
From Coq Require Import List Arith Lia Bool String.
Import ListNotations.
From AV Require Import lib.Str lib.Path model.CFS_file model.CFS_tree model.CFS_inst model.CFS_bg
  proofs.CFS_file_proofs proofs.CFS_refine proofs.CFS_prov proofs.CFS_bg_proofs proofs.CFS_range_proofs.
Notation length := List.length.
Notation byte := CFS_file.byte.
Local Open Scope string_scope.
Local Open Scope list_scope.

Section Stream.
Variable tab : list (list byte * string).
Variable blks : list (list byte).     (* block store: block id -> data *)

(* the digest table is functional in both directions on the blocks that occur *)
Hypothesis tab_inj : forall d d', In d blks -> In d' blks -> loc_text tab d = loc_text tab d' -> d = d'.

Definition slice (SS : list byte) (o n : nat) : list byte := firstn n (skipn o SS).

(* bytes that the parts of file [name] select from the stream SS, in order *)
Fixpoint parts_bytes (SS : list byte) (name : string) (ps : list fpart) : list byte :=
  match ps with
  | [] => []
  | p :: r => (if String.eqb (fp_name p) name then slice SS (fp_off p) (fp_len p) else []) ++ parts_bytes SS name r
  end.

Lemma parts_bytes_app SS name a b : parts_bytes SS name (a ++ b) = parts_bytes SS name a ++ parts_bytes SS name b.
Proof. induction a as [|p a IH]; cbn [app parts_bytes]; [reflexivity|]. rewrite IH, app_assoc. reflexivity. Qed.

Lemma slice_app_l (SS T : list byte) o n : o + n <= length SS -> slice (SS ++ T) o n = slice SS o n.
Proof.
  intros H. unfold slice. rewrite skipn_app. rewrite firstn_app. rewrite skipn_length.
  replace (n - (length SS - o)) with 0 by lia. cbn [firstn]. rewrite app_nil_r. reflexivity.
Qed.

Definition part_in (SS : list byte) (p : fpart) : Prop := fp_off p + fp_len p <= length SS.
Definition parts_in (SS : list byte) (ps : list fpart) : Prop := Forall (part_in SS) ps.
Lemma slice_0 (SS : list byte) o : slice SS o 0 = [].
Proof. reflexivity. Qed.

Lemma parts_bytes_grow SS T name ps : parts_in SS ps -> parts_bytes (SS ++ T) name ps = parts_bytes SS name ps.
Proof.
  induction ps as [|p r IH]; intros H; cbn [parts_bytes]; [reflexivity|].
  inversion H; subst. rewrite IH by assumption. destruct (String.eqb (fp_name p) name); [|reflexivity].
  unfold part_in in *.
  rewrite slice_app_l by assumption. reflexivity.
Qed.
Lemma parts_in_grow SS T ps : parts_in SS ps -> parts_in (SS ++ T) ps.
Proof. unfold parts_in. intros H. eapply Forall_impl; [|exact H]. intros p Hp. unfold part_in in *. rewrite app_length. lia. Qed.

(* stream invariant: BD is the data of the blocks listed so far *)
Record SInv (bl : list string) (ps : list fpart) (sl : nat) (BD : list (list byte)) : Prop := {
  si_txt : bl = map (loc_text tab) BD;
  si_in : Forall (fun d => In d blks) BD;
  si_len : sl = length (List.concat BD);
  si_parts : parts_in (List.concat BD) ps
}.

Lemma concat_snoc {A} (l : list (list A)) x : List.concat (l ++ [x]) = List.concat l ++ x.
Proof. rewrite concat_app. cbn. rewrite app_nil_r. reflexivity. Qed.

Lemma rev_cons_last {A} (l : list A) x r : rev l = x :: r -> l = rev r ++ [x].
Proof. intros H. rewrite <- (rev_involutive l), H. reflexivity. Qed.

Lemma slice_add (SS : list byte) o a b : slice SS o (a + b) = slice SS o a ++ slice SS (o + a) b.
Proof. unfold slice. rewrite firstn_add, my_skipn_skipn. reflexivity. Qed.

(* one file's segments *)
Lemma stream_segs_ok name : forall l bl ps sl BD,
  StoLocal blks l -> (forall b t, ~ In (Mem b t) l) -> Forall (fun s => 0 < slen s) l ->
  SInv bl ps sl BD ->
  let '(bl', ps', sl') := stream_segs tab blks name l bl ps sl in
  exists BD', SInv bl' ps' sl' BD' /\ (exists T, List.concat BD' = List.concat BD ++ T) /\
    parts_bytes (List.concat BD') name ps' = parts_bytes (List.concat BD) name ps ++ flat_map sbytes l /\
    (forall other, other <> name -> parts_bytes (List.concat BD') other ps' = parts_bytes (List.concat BD) other ps).
Proof.
  induction l as [|s l IH]; intros bl ps sl BD HS HN HZ HI; cbn [stream_segs].
  - exists BD. split; [exact HI|]. split; [exists []; rewrite app_nil_r; reflexivity|]. cbn. rewrite app_nil_r. auto.
  - destruct s as [b t|b loc bsz boff]; [exfalso; apply (HN b t); left; reflexivity|].
    assert (HSl : StoLocal blks l) by (eapply StoLocal_tail; exact HS).
    assert (HNl : forall b t, ~ In (Mem b t) l) by (intros b0 t0 H0; apply (HN b0 t0); right; exact H0).
    assert (HZl : Forall (fun s => 0 < slen s) l) by (inversion HZ; assumption).
    assert (Hbpos : 0 < length b) by (inversion HZ; subst; assumption).
    destruct (HS b loc bsz boff (or_introl eq_refl)) as (blk & Hnth & Hbsz & Hsl).
    assert (Hnd : nth loc blks [] = blk) by (apply nth_error_nth; exact Hnth).
    assert (Hin : In blk blks) by (eapply nth_error_In; exact Hnth).
    rewrite Hnd.
    destruct HI as [I1 I2 I3 I4].
    (* the block list after this segment, with its data *)
    set (lt := loc_text tab blk).
    assert (Hblocks : exists BD1 sl1,
              (let '(b1, s1) := match rev bl with
                                | last :: _ => if String.eqb last lt then (bl, sl - bsz) else (bl ++ [lt], sl)
                                | [] => ([lt], sl)
                                end in (b1, s1)) = (map (loc_text tab) BD1, sl1) /\
              Forall (fun d => In d blks) BD1 /\
              (exists T, List.concat BD1 = List.concat BD ++ T) /\
              sl1 + bsz = length (List.concat BD1) /\
              slice (List.concat BD1) sl1 bsz = blk).
    { destruct (rev bl) as [|last rb] eqn:Er.
      - assert (bl = []) by (destruct bl; [reflexivity|]; apply (f_equal (@length string)) in Er; rewrite rev_length in Er; discriminate).
        subst bl. destruct BD; [|discriminate]. cbn in I3. subst sl.
        exists [blk], 0. cbn. rewrite app_nil_r. split; [reflexivity|]. split; [constructor; [exact Hin|constructor]|].
        split; [exists blk; reflexivity|]. split; [lia|]. unfold slice. cbn. rewrite <- Hbsz. apply firstn_all.
      - destruct (String.eqb_spec last lt) as [El|Ene].
        + (* same locator as the last block: reuse it *)
          apply rev_cons_last in Er.
          assert (HBD : exists BD0 dl, BD = BD0 ++ [dl] /\ loc_text tab dl = last).
          { destruct (rev BD) as [|dl rBD] eqn:Erb.
            - assert (BD = []) by (destruct BD; [reflexivity|]; apply (f_equal (@length (list byte))) in Erb; rewrite rev_length in Erb; discriminate).
              subst BD. cbn in I1. rewrite I1 in Er. destruct (rev rb); discriminate.
            - apply rev_cons_last in Erb. exists (rev rBD), dl. split; [exact Erb|].
              rewrite Erb, map_app in I1. cbn in I1. rewrite Er in I1. apply app_inj_tail in I1. symmetry. apply I1. }
          destruct HBD as (BD0 & dl & EBD & Edl).
          assert (dl = blk).
          { apply tab_inj; [|exact Hin|rewrite Edl; exact El].
            rewrite Forall_forall in I2. apply I2. rewrite EBD. apply in_or_app. right. left. reflexivity. }
          subst dl. exists BD, (sl - bsz). split; [rewrite I1; reflexivity|]. split; [exact I2|].
          split; [exists []; rewrite app_nil_r; reflexivity|].
          rewrite EBD, concat_snoc in *. rewrite app_length in I3. split; [rewrite app_length; lia|].
          unfold slice. rewrite I3. replace (length (List.concat BD0) + length blk - bsz) with (length (List.concat BD0)) by lia.
          rewrite skipn_app, skipn_all, Nat.sub_diag. cbn [skipn app]. rewrite <- Hbsz. apply firstn_all.
        + exists (BD ++ [blk]), sl. rewrite map_app. cbn [map]. rewrite I1. split; [reflexivity|].
          split; [apply Forall_app; split; [exact I2|constructor; [exact Hin|constructor]]|].
          split; [exists blk; apply concat_snoc|]. rewrite concat_snoc, app_length. split; [lia|].
          unfold slice. rewrite I3, skipn_app, skipn_all, Nat.sub_diag. cbn [skipn app]. rewrite <- Hbsz. apply firstn_all. }
    destruct Hblocks as (BD1 & sl1 & Eb & HinBD1 & (T1 & HT1) & Hsl1 & Hslice).
    destruct (match rev bl with
              | last :: _ => if String.eqb last lt then (bl, sl - bsz) else (bl ++ [lt], sl)
              | [] => ([lt], sl)
              end) as [blocks1 slen1]. inversion Eb; subst blocks1 slen1. clear Eb.
    set (S1 := List.concat BD1) in *.
    (* the bytes of this segment in the stream *)
    assert (Hb : slice S1 (sl1 + boff) (length b) = b /\ boff + length b <= bsz).
    { unfold is_slice in Hsl. assert (Hle : length b <= length blk - boff).
      { rewrite Hsl at 1. rewrite firstn_length, skipn_length. lia. }
      split; [|lia]. rewrite Hsl at 2. rewrite <- Hslice. unfold slice.
      rewrite skipn_firstn_comm', my_skipn_skipn. rewrite firstn_firstn_le by lia. reflexivity. }
    destruct Hb as [Hb Hbo].
    assert (HP1 : parts_in S1 ps) by (rewrite HT1; apply parts_in_grow; exact I4).
    set (next := {| fp_name := name; fp_off := sl1 + boff; fp_len := length b |}).
    (* the part list after this segment *)
    assert (Hparts : exists ps1,
              ps1 = match rev ps with
                    | prev :: before => if String.eqb (fp_name prev) name && Nat.eqb (fp_off prev + fp_len prev) (fp_off next)
                                        then rev before ++ [{| fp_name := name; fp_off := fp_off prev; fp_len := fp_len prev + fp_len next |}]
                                        else ps ++ [next]
                    | [] => [next]
                    end /\
              parts_in S1 ps1 /\
              parts_bytes S1 name ps1 = parts_bytes S1 name ps ++ b /\
              (forall other, other <> name -> parts_bytes S1 other ps1 = parts_bytes S1 other ps)).
    { eexists. split; [reflexivity|].
      assert (Hnext_in : part_in S1 next) by (unfold part_in; cbn; lia).
      assert (Happend : parts_in S1 (ps ++ [next]) /\ parts_bytes S1 name (ps ++ [next]) = parts_bytes S1 name ps ++ b /\
                        (forall other, other <> name -> parts_bytes S1 other (ps ++ [next]) = parts_bytes S1 other ps)).
      { split; [apply Forall_app; split; [exact HP1|constructor; [exact Hnext_in|constructor]]|]. split.
        - rewrite parts_bytes_app. cbn [parts_bytes next fp_name fp_off fp_len]. rewrite String.eqb_refl, app_nil_r, Hb. reflexivity.
        - intros other Ho. rewrite parts_bytes_app. cbn [parts_bytes next fp_name]. destruct (String.eqb_spec name other); [congruence|].
          cbn. rewrite app_nil_r. reflexivity. }
      destruct (rev ps) as [|prev before] eqn:Erp.
      - assert (ps = []) by (destruct ps; [reflexivity|]; apply (f_equal (@length fpart)) in Erp; rewrite rev_length in Erp; discriminate).
        subst ps. exact Happend.
      - destruct (String.eqb (fp_name prev) name && Nat.eqb (fp_off prev + fp_len prev) (fp_off next)) eqn:Em; [|exact Happend].
        apply andb_true_iff in Em. destruct Em as [Em1 Em2]. apply String.eqb_eq in Em1. apply Nat.eqb_eq in Em2.
        apply rev_cons_last in Erp. subst ps.
        assert (HPb : parts_in S1 (rev before)) by (apply Forall_app in HP1; apply HP1).
        assert (Hprev_in : part_in S1 prev).
        { apply Forall_app in HP1. destruct HP1 as [_ H1]. inversion H1; assumption. }
        split; [|split].
        + apply Forall_app. split; [exact HPb|]. constructor; [|constructor]. unfold part_in in *. cbn [fp_off fp_len] in *. lia.
        + rewrite !parts_bytes_app. cbn [parts_bytes fp_name fp_off fp_len]. rewrite Em1, String.eqb_refl, !app_nil_r.
          rewrite <- app_assoc. f_equal. rewrite slice_add. f_equal. rewrite Em2. exact Hb.
        + intros other Ho. rewrite !parts_bytes_app. cbn [parts_bytes fp_name]. rewrite Em1.
          destruct (String.eqb_spec name other); [congruence|]. reflexivity. }
    destruct Hparts as (ps1 & Eps1 & HPin1 & HPb1 & HPo1). rewrite <- Eps1.
    assert (HI1 : SInv (map (loc_text tab) BD1) ps1 (sl1 + bsz) BD1).
    { constructor; [reflexivity|exact HinBD1|exact Hsl1|exact HPin1]. }
    specialize (IH (map (loc_text tab) BD1) ps1 (sl1 + bsz) BD1 HSl HNl HZl HI1).
    destruct (stream_segs tab blks name l (map (loc_text tab) BD1) ps1 (sl1 + bsz)) as [[bl' ps'] sl'].
    destruct IH as (BD' & HI' & (T' & HT') & HB' & HO').
    exists BD'. split; [exact HI'|]. split; [exists (T1 ++ T'); rewrite HT'; fold S1; rewrite HT1, app_assoc; reflexivity|].
    split.
    + fold S1 in HB'. rewrite HB', HPb1. rewrite HT1. rewrite parts_bytes_grow by exact I4. cbn [flat_map sbytes]. rewrite app_assoc. reflexivity.
    + intros other Ho. specialize (HO' other Ho). fold S1 in HO'. rewrite HO', (HPo1 other Ho). rewrite HT1. apply parts_bytes_grow. exact I4.
Qed.

End Stream.
