(* C03 — the locator clauses of the boolean specification ([loc_ok], model/C03_run.v): whatever the blocks
   of the case look like (the size hint may disagree with every answer the services give, the digest table is
   arbitrary, the scripts are arbitrary, answers with or without Content-Length) the results of the model's run
   satisfy them.  No consistency hypothesis is used here: the clauses speak about the locator only.
   (Model after fix F25: the reader returned by Get counts the bytes it delivers.) *)
From Coq Require Import Arith NArith List Ascii String Bool Lia.
From AV Require Import lib.Str model.C03_model model.C03_old_model model.C03_run proofs.C03_proofs proofs.C03_run_proofs proofs.C03_err_proofs proofs.C03_spec.
Import ListNotations.
Local Open Scope nat_scope.

Lemma empty_block_loc_nil : empty_block_loc "" = false.
Proof. reflexivity. Qed.

Section L.
Variable i : cin.
Let H := H_of i.

(* a block index denotes a block of the case, or (out of range) the block with no locator and no script *)
Lemma blk_in_or_none b : In (blk_of i b) (i_blocks i) \/ blk_of i b = no_block.
Proof. unfold blk_of. destruct (nth_in_or_default b (i_blocks i) no_block) as [X|X]; [left|right]; exact X. Qed.

(* an answer of the stub services comes from the block's script *)
Lemma oracle_resp_in st b srv round s d body cut :
  oracle_at i st b srv round = Resp s d body cut ->
  exists row, In row (b_script (blk_of i b)) /\ In (Resp s d body cut) row.
Proof.
  unfold oracle_at. set (k := count_log b srv (cs_log st) + round). set (sc := b_script (blk_of i b)). intros E.
  destruct (nth_in_or_default k (nth srv sc []) ConnErr) as [X|X]; [|rewrite X in E; discriminate].
  rewrite E in X. destruct (nth_in_or_default srv sc []) as [Y|Y].
  - exists (nth srv sc []). split; assumption.
  - rewrite Y in X. destruct X.
Qed.

Lemma oracle_resp_block st b srv round s d body cut :
  oracle_at i st b srv round = Resp s d body cut -> In (blk_of i b) (i_blocks i).
Proof.
  intros E. destruct (oracle_resp_in _ _ _ _ _ _ _ _ E) as (row & Hr & _).
  destruct (blk_in_or_none b) as [X|X]; [exact X|]. rewrite X in Hr. destruct Hr.
Qed.

(* the reader of a successful Get: the announced size is the hint, and a stream that ends cleanly has exactly
   the announced size — whatever the answer declared *)
Lemma stream_len st b x rd size s :
  from_200 (oracle_at i st b) (size_hint (b_loc (blk_of i b))) x rd size s ->
  (forall n, size_hint (b_loc (blk_of i b)) = Some n -> size = n) /\
  (s_term s = TEOF -> slen (s_bytes s) = size).
Proof.
  intros (declared & body & cut & Eo & Est & Hd & He & _). split.
  - intros n E. symmetry. apply He. exact E.
  - intros T. subst s. apply (sized_eof_len _ _ T).
Qed.

(* a fetch never leaves "error = nil" in an entry *)
Lemma fetch_err_not_nil oracle retries order loc e :
  fetch_entry H loc (g_res (get_or_head oracle retries order loc)) = EErr e -> e <> ENil.
Proof.
  destruct (get_or_head oracle retries order loc) as [r lg] eqn:G. cbn [g_res]. destruct r as [x rd size s| |e0].
  - unfold fetch_entry. destruct (hcr_read_full H _ size) as [[bb e1] r']. destruct e1, (hcr_close H r'); intros [= <-]; discriminate.
  - discriminate.
  - cbn. intros [= <-]. destruct (not_found_classes oracle _ _ _ _ _ G) as [->|[->|[->|[->| ->]]]]; discriminate.
Qed.

(* ------------------------------------------------------------------ the cache invariant *)
(* for every block whose cache key is used with one size hint only (and never with an empty-block locator):
   a data entry under that key has the locator's digest and the locator's size *)
Definition EntryLoc (bl : blockin) (d : string) : Prop :=
  H d = loc_hash (b_loc bl) /\ (forall n, size_hint (b_loc bl) = Some n -> slen d = n).
Definition CacheLoc (c : cache) : Prop :=
  forall bl d, loc_guard i bl = true -> lookup c (loc_hash (b_loc bl)) = Some (EData d) -> EntryLoc bl d.

Lemma fetch_loc st b bl d :
  loc_guard i bl = true -> loc_hash (b_loc (blk_of i b)) = loc_hash (b_loc bl) ->
  fetch_entry H (b_loc (blk_of i b))
    (g_res (get_or_head (oracle_at i st b) (i_retries i) (b_order (blk_of i b)) (b_loc (blk_of i b)))) = EData d ->
  EntryLoc bl d.
Proof.
  intros G Eh E. apply loc_guard_iff in G. destruct G as [Gne Gall].
  destruct (get_or_head (oracle_at i st b) (i_retries i) (b_order (blk_of i b)) (b_loc (blk_of i b))) as [r lg] eqn:Eg.
  cbn [g_res] in E. destruct r as [x rd size s| |e0].
  - pose proof (get_or_head_ok _ _ _ _ _ _ _ _ _ Eg) as F.
    assert (Hin : In (blk_of i b) (i_blocks i)).
    { destruct F as (declared & body & cut & Eo & _). eapply oracle_resp_block. exact Eo. }
    destruct (Gall _ Hin Eh) as [El _].
    destruct (stream_len _ _ _ _ _ _ F) as [Hs Hlen].
    apply cache_ok_sound in E. destruct E as (T & Hh & Hle & ->).
    specialize (Hlen T). rewrite take_all by lia. unfold EntryLoc. rewrite <- Eh. split; [exact Hh|].
    intros n En. rewrite Hlen. apply Hs. rewrite El. exact En.
  - exfalso. apply get_or_head_empty in Eg.
    destruct (blk_in_or_none b) as [Hin|Hno].
    + destruct (Gall _ Hin Eh) as [_ Ene]. congruence.
    + rewrite Hno in Eg. cbn [b_loc no_block] in Eg. rewrite empty_block_loc_nil in Eg. discriminate.
  - discriminate.
Qed.

Lemma cache_get_loc st b :
  CacheLoc (cs_cache st) ->
  CacheLoc (cs_cache (snd (cache_get i st b))) /\
  (loc_guard i (blk_of i b) = true -> forall d, fst (cache_get i st b) = EData d -> EntryLoc (blk_of i b) d) /\
  (forall x, fst (cache_get i st b) = EErr x -> x <> ENil).
Proof.
  intros G. unfold cache_get.
  assert (Hfetch :
    let '(g, st') := do_get i st b in
    let e := fetch_entry (H_of i) (b_loc (blk_of i b)) (g_res g) in
    CacheLoc (cs_cache (snd (e, {| cs_cache := store (cs_cache st') (loc_hash (b_loc (blk_of i b))) e; cs_log := cs_log st' |}))) /\
    (loc_guard i (blk_of i b) = true -> forall d, e = EData d -> EntryLoc (blk_of i b) d) /\
    (forall x, e = EErr x -> x <> ENil)).
  { unfold do_get. cbn [fst snd cs_cache cs_log]. fold H. split; [|split].
    - intros bl d Gd Hl. rewrite lookup_store in Hl.
      destruct (String.eqb_spec (loc_hash (b_loc (blk_of i b))) (loc_hash (b_loc bl))) as [Ek|Ek].
      + injection Hl as Hl. eapply fetch_loc; eassumption.
      + apply (G bl d Gd Hl).
    - intros Gd d E. eapply fetch_loc; [exact Gd|reflexivity|exact E].
    - intros x E. eapply fetch_err_not_nil. exact E. }
  destruct (lookup (cs_cache st) (loc_hash (b_loc (blk_of i b)))) as [[d|e0]|] eqn:El.
  - cbn [fst snd]. split; [exact G|]. split; [|discriminate]. intros Gd d' [= <-]. apply (G _ _ Gd El).
  - destruct (do_get i st b) as [g st']. exact Hfetch.
  - destruct (do_get i st b) as [g st']. exact Hfetch.
Qed.

(* ------------------------------------------------------------------ cached reads *)
Lemma rd_loc_entry bl e k off :
  (forall d, e = EData d -> EntryLoc bl d) -> (forall x, e = EErr x -> x <> ENil) ->
  rd_loc_ok H (b_loc bl) k off (entry_read_at e k off) = true.
Proof.
  intros Hd He. apply rd_loc_ok_iff. destruct e as [d|x].
  - destruct (Hd d eq_refl) as [Hh Hs]. unfold entry_read_at. destruct (slen d <? off) eqn:E; cbn [fst snd]; [discriminate|].
    apply Nat.ltb_ge in E. intros _. constructor.
    + intros n En. rewrite (Hs n En) in E. split; [exact E|]. split.
      * rewrite slen_take, slen_drop, (Hs n En). reflexivity.
      * intros -> Hk. rewrite drop_0, take_all by (rewrite (Hs n En); exact Hk). exact Hh.
    + intros _ -> Hl. rewrite drop_0 in *. rewrite slen_take in Hl. rewrite take_all by lia. exact Hh.
  - cbn [entry_read_at fst snd]. intros ->. exfalso. apply (He ENil eq_refl). reflexivity.
Qed.

Lemma read_at_loc st b k off :
  CacheLoc (cs_cache st) ->
  CacheLoc (cs_cache (snd (read_at i st b k off))) /\
  (negb (loc_guard i (blk_of i b)) || rd_loc_ok H (b_loc (blk_of i b)) k off (fst (read_at i st b k off))) = true.
Proof.
  intros G. unfold read_at. destruct (cache_get_loc st b G) as (G' & Hd & He).
  destruct (cache_get i st b) as [e st']. cbn [fst snd] in *. split; [exact G'|].
  destruct (loc_guard i (blk_of i b)) eqn:Gd; [|reflexivity]. cbn [negb orb].
  apply rd_loc_entry; [apply Hd; reflexivity|exact He].
Qed.

Lemma file_read_loc segs : forall st off acc,
  CacheLoc (cs_cache st) -> CacheLoc (cs_cache (snd (file_read i st segs off acc))).
Proof.
  induction segs as [|[[b o] l] rest IH]; intros st off acc G; cbn [file_read]; [exact G|].
  destruct (l <=? off); [apply IH; exact G|].
  destruct (cache_get_loc st b G) as (G' & _ & _). destruct (cache_get i st b) as [e st']. cbn [snd] in G'.
  destruct (seg_read_at (entry_read_at e) _ (l - off) off) as [bytes er].
  destruct er; try exact G'; (destruct (slen bytes =? l - off); [apply IH; exact G'|exact G']).
Qed.

(* ------------------------------------------------------------------ streaming Get *)
Lemma use_reader_loc st b m :
  loc_ok i (OGet b m) (use_reader i (g_res (fst (do_get i st b))) (b_loc (blk_of i b)) m) = true.
Proof.
  unfold do_get. cbn [fst]. set (bl := blk_of i b).
  destruct (get_or_head (oracle_at i st b) (i_retries i) (b_order bl) (b_loc bl)) as [r lg] eqn:G. cbn [g_res].
  destruct r as [x rd size s| |e].
  - pose proof (get_or_head_ok _ _ _ _ _ _ _ _ _ G) as F.
    destruct (stream_len _ _ _ _ _ _ F) as [Hs Hlen]. fold bl in Hs, Hlen.
    unfold use_reader. fold H. fold (fresh s (loc_hash (b_loc bl))). destruct m as [|k| |].
    + destruct (hcr_read_all H (fresh s (loc_hash (b_loc bl)))) as [bb e] eqn:Er. cbn [loc_ok]. fold bl.
      destruct (empty_block_loc (b_loc bl)); [reflexivity|]. cbn [orb]. fold H. apply get_loc_ok_iff.
      assert (Hfull : FullRead MReadAll e -> bb = s_bytes s /\ s_term s = TEOF /\ H bb = loc_hash (b_loc bl)).
      { intros [[_ [->| ->]]|[X _]]; [apply (read_all_sound H _ _ _ Er)| |discriminate].
        destruct (read_all_err i (fresh s (loc_hash (b_loc bl)))) as [X|[X|[X|X]]]; fold H in X; rewrite Er in X; discriminate. }
      constructor.
      * exact Hs.
      * intros Fr. apply Hfull. exact Fr.
      * intros Fr n En. destruct (Hfull Fr) as (-> & T & _). rewrite (Hlen T). apply Hs. exact En.
      * intros k [=].
    + destruct (hcr_read_full H (fresh s (loc_hash (b_loc bl))) k) as [[bb e] r'] eqn:Er. cbn [loc_ok]. fold bl.
      destruct (empty_block_loc (b_loc bl)); [reflexivity|]. cbn [orb]. fold H. apply get_loc_ok_iff. constructor.
      * exact Hs.
      * intros [[X _]|[X _]]; discriminate.
      * intros [[X _]|[X _]]; discriminate.
      * intros k' [= <-] -> Ecl n En.
        destruct (read_full_close_sound H _ _ _ _ _ Er Ecl) as (-> & Hle & T & _).
        rewrite (Hlen T), (Hs n En) in Hle. split; [exact Hle|]. rewrite slen_take, (Hlen T), (Hs n En). lia.
    + destruct (hcr_write_to H (fresh s (loc_hash (b_loc bl)))) as [bb e] eqn:Er. cbn [loc_ok]. fold bl.
      destruct (empty_block_loc (b_loc bl)); [reflexivity|]. cbn [orb]. fold H. apply get_loc_ok_iff.
      assert (Hfull : FullRead MWriteTo e -> bb = s_bytes s /\ s_term s = TEOF /\ H bb = loc_hash (b_loc bl)).
      { intros [[X _]|[_ ->]]; [discriminate|]. apply (write_to_sound H _ _ _ Er). }
      constructor.
      * exact Hs.
      * intros Fr. apply Hfull. exact Fr.
      * intros Fr n En. destruct (Hfull Fr) as (-> & T & _). rewrite (Hlen T). apply Hs. exact En.
      * intros k [=].
    + cbn [loc_ok]. fold bl. destruct (empty_block_loc (b_loc bl)); [reflexivity|]. cbn [orb]. apply get_loc_ok_iff. constructor.
      * exact Hs.
      * intros [[X _]|[X _]]; discriminate.
      * intros [[X _]|[X _]]; discriminate.
      * intros k [=].
  - apply get_or_head_empty in G. unfold use_reader. destruct m as [|[|k]| |]; cbn [loc_ok]; fold bl; rewrite G; reflexivity.
  - unfold use_reader. cbn [loc_ok]. destruct (not_found_classes _ _ _ _ _ _ G) as [->|[->|[->|[->| ->]]]]; reflexivity.
Qed.

(* ------------------------------------------------------------------ sessions *)
Lemma do_op_loc st o :
  CacheLoc (cs_cache st) -> loc_ok i o (fst (do_op i st o)) = true /\ CacheLoc (cs_cache (snd (do_op i st o))).
Proof.
  intros G. destruct o as [b m|b n off|k b n off|segs off]; cbn [do_op].
  - pose proof (use_reader_loc st b m) as U. destruct (do_get i st b) as [g st'] eqn:Eg. cbn [fst snd] in *.
    split; [exact U|]. unfold do_get in Eg. injection Eg as _ <-. exact G.
  - destruct (read_at_loc st b n off G) as [G' R]. destruct (read_at i st b n off) as [r st']. cbn [fst snd] in *.
    split; [|exact G']. cbn [loc_ok]. fold H. rewrite <- surjective_pairing. exact R.
  - destruct (read_at_loc st b n off G) as [G' R]. destruct (read_at i st b n off) as [r st']. cbn [fst snd] in *.
    split; [|exact G']. cbn [loc_ok]. fold H. destruct (loc_guard i (blk_of i b)); [|reflexivity]. cbn [negb orb] in *.
    apply forallb_forall. intros r' Hr. apply repeat_spec in Hr. subst r'. exact R.
  - pose proof (file_read_loc segs st off EmptyString G) as G'. destruct (file_read i st segs off "") as [r st']. cbn [fst snd] in *.
    split; [reflexivity|exact G'].
Qed.

Lemma do_ops_loc ops : forall st, CacheLoc (cs_cache st) -> ops_loc_ok i ops (fst (do_ops i st ops)) = true.
Proof.
  induction ops as [|o ops IH]; intros st G; cbn [do_ops ops_loc_ok]; [reflexivity|].
  destruct (do_op_loc st o G) as [A B]. destruct (do_op i st o) as [x st'] eqn:Eo. cbn [fst snd] in *.
  specialize (IH st' B). destruct (do_ops i st' ops) as [xs st''] eqn:Es. cbn [fst ops_loc_ok] in *.
  rewrite A, IH. reflexivity.
Qed.

Lemma do_ops_cache_loc ops : forall st, CacheLoc (cs_cache st) -> CacheLoc (cs_cache (snd (do_ops i st ops))).
Proof.
  induction ops as [|o ops IH]; intros st G; cbn [do_ops]; [exact G|].
  destruct (do_op_loc st o G) as [_ B]. destruct (do_op i st o) as [x st'] eqn:Eo. cbn [snd] in B.
  specialize (IH st' B). destruct (do_ops i st' ops) as [xs st''] eqn:Es. exact IH.
Qed.

Lemma cache_loc_nil : CacheLoc [].
Proof. intros bl d _ Hl. discriminate. Qed.

(* Whatever the blocks, the digest table, the scripts and the operations are: every result of the model's run
   satisfies the locator clauses. *)
Theorem model_loc_ok : ops_loc_ok i (i_ops i) (fst (run_model i)) = true.
Proof. unfold run_model. apply do_ops_loc. exact cache_loc_nil. Qed.

(* ... and after the run every data entry of the cache, for a key used with one size hint only, has the
   locator's digest and size *)
Theorem cache_holds_locator_size bl d :
  loc_guard i bl = true -> lookup (cs_cache (snd (run_model i))) (loc_hash (b_loc bl)) = Some (EData d) ->
  H d = loc_hash (b_loc bl) /\ (forall n, size_hint (b_loc bl) = Some n -> slen d = n).
Proof. intros G E. unfold run_model in E. exact (do_ops_cache_loc (i_ops i) {| cs_cache := []; cs_log := [] |} cache_loc_nil bl d G E). Qed.
End L.

(* the model's run passes the whole boolean specification *)
Theorem model_meets_spec i :
  (forall bl, In bl (i_blocks i) -> Cons i bl) -> Forall (op_wf i) (i_ops i) ->
  spec_b {| c_in := i; c_obs := {| ob_res := fst (run_model i); ob_log := cs_log (snd (run_model i));
                                   ob_nreq := run_nreq i; ob_sync := true |} |} = true.
Proof.
  intros Hc Hw. unfold spec_b. cbn [c_in c_obs ob_res ob_log ob_nreq ob_sync].
  rewrite (model_ops_ok i Hc Hw), (model_notfound_ok i), (model_loc_ok i), (model_errclass_ok i). reflexivity.
Qed.

(* ------------------------------------------------------------------ readable consequences of loc_ok *)
(* a ReadAll of the reader returned by Get that ended in EOF: digest and size of the locator *)
Lemma spec_get_readall_meaning i b size srv bytes cerr :
  empty_block_loc (b_loc (blk_of i b)) = false ->
  loc_ok i (OGet b MReadAll) (RGet ENil size srv bytes EEOF cerr) = true ->
  H_of i bytes = loc_hash (b_loc (blk_of i b)) /\
  (forall n, size_hint (b_loc (blk_of i b)) = Some n -> size = n /\ slen bytes = n).
Proof.
  intros He Hl. apply loc_ok_reflects in Hl. cbn [LocSpec] in Hl. destruct (Hl eq_refl He) as [Hs Hh Hn _].
  assert (F : FullRead MReadAll EEOF) by (left; auto). split; [apply Hh; exact F|].
  intros n En. split; [apply Hs; exact En|]. apply (Hn F). exact En.
Qed.

(* a successful cached read *)
Lemma spec_readat_loc_meaning i b k off bytes n :
  loc_guard i (blk_of i b) = true -> size_hint (b_loc (blk_of i b)) = Some n ->
  loc_ok i (OReadAt b k off) (RRead bytes ENil) = true ->
  off <= n /\ slen bytes = Nat.min k (n - off) /\ (off = 0 -> n <= k -> H_of i bytes = loc_hash (b_loc (blk_of i b))).
Proof.
  intros G En Hl. apply loc_ok_reflects in Hl. cbn [LocSpec] in Hl. apply loc_guard_iff in G.
  destruct (Hl G eq_refl) as [Hh _]. apply Hh. exact En.
Qed.

(* ------------------------------------------------------------------ every successful delivery has the expected size *)
(* One call of getOrHead("GET"), any oracle (answers with or without Content-Length): whatever the reader delivers
   as a success — ReadAll ending in EOF, WriteTo returning nil, Close returning nil, the block cache's fetch — has
   exactly the announced number of bytes, which is the locator's size hint when there is one. *)
Theorem get_delivers_hint_bytes H oracle retries order loc x rd size st lg :
  get_or_head oracle retries order loc = {| g_res := GOk x rd size st; g_log := lg |} ->
  (forall n, size_hint loc = Some n -> size = n) /\
  (forall b, hcr_read_all H (fresh st (loc_hash loc)) = (b, EEOF) -> slen b = size /\ H b = loc_hash loc) /\
  (forall b, hcr_write_to H (fresh st (loc_hash loc)) = (b, ENil) -> slen b = size /\ H b = loc_hash loc) /\
  (hcr_close H (fresh st (loc_hash loc)) = ENil -> slen (s_bytes st) = size) /\
  (forall k b r', hcr_read_full H (fresh st (loc_hash loc)) k = (b, ENil, r') -> hcr_close H r' = ENil -> k <= size /\ slen b = k) /\
  (forall d, fetch_entry H loc (GOk x rd size st) = EData d -> slen d = size /\ H d = loc_hash loc).
Proof.
  intros G. apply get_or_head_ok in G. destruct G as (declared & body & cut & Eo & Est & Hd & He & _).
  assert (Hlen : s_term st = TEOF -> slen (s_bytes st) = size) by (intros T; subst st; apply (sized_eof_len _ _ T)).
  split; [intros n E; symmetry; apply He; exact E|]. split; [|split; [|split; [|split]]].
  - intros b R. apply read_all_sound in R. destruct R as (-> & T & Hh). auto.
  - intros b R. apply write_to_sound in R. destruct R as (-> & T & Hh). auto.
  - intros C. apply (close_sound H (fresh st (loc_hash loc))) in C. apply Hlen. apply C.
  - intros k b r' R C. destruct (read_full_close_sound H _ _ _ _ _ R C) as (-> & Hle & T & _).
    rewrite (Hlen T) in Hle. split; [exact Hle|]. rewrite slen_take, (Hlen T). lia.
  - intros d E. apply cache_ok_sound in E. destruct E as (T & Hh & Hle & ->). rewrite take_all by (rewrite (Hlen T); lia).
    split; [apply Hlen; exact T|exact Hh].
Qed.

(* ------------------------------------------------------------------ the chunked answers of finding F25 *)
(* One service answers 200 with a chunked body "foo" (no Content-Length).  md5("foo") is the hash of both
   locators below, but their size hints say 5 and 2. *)
Definition ex_foo_hash : string := "acbd18db4cc2f85cedef654fccc4a4d8".
Definition ex_chunked_block (hint : string) : blockin :=
  {| b_loc := (ex_foo_hash ++ "+" ++ hint)%string; b_content := "foo"; b_consistent := false; b_order := [0];
     b_script := [[Resp 200 None "foo" false; Resp 200 None "foo" false]] |}.
Definition ex_chunked_in (hint : string) (o : op) : cin :=
  {| i_retries := 0; i_blocks := [ex_chunked_block hint]; i_htab := [("foo"%string, ex_foo_hash)]; i_ops := [o] |}.

(* after the fix: the read of "...+5" ends in the size error after the 3 bytes, the read of "...+2" after 2 bytes,
   and the cache keeps nothing *)
Lemma chunked_wrong_size_rejected :
  fst (run_model (ex_chunked_in "5" (OGet 0 MReadAll))) = [RGet ENil 5 0 "foo" EBadSize EBadSize] /\
  fst (run_model (ex_chunked_in "2" (OGet 0 MReadAll))) = [RGet ENil 2 0 "fo" EBadSize EBadSize] /\
  fst (run_model (ex_chunked_in "5" (OReadAt 0 8 0))) = [RRead "" EBadSize] /\
  fst (run_model (ex_chunked_in "2" (OReadAt 0 8 0))) = [RRead "" EBadSize] /\
  fst (run_model (ex_chunked_in "3" (OReadAt 0 8 0))) = [RRead "foo" ENil].
Proof. repeat split; vm_compute; reflexivity. Qed.

(* before the fix (model/C03_old_model.v): the same answers were delivered as successful reads of the wrong size.
   The statement "a ReadAll that ends in EOF delivers as many bytes as Get announced" is false of the old GET loop;
   and the old loop's reader for "...+2" let the cache keep the first 2 bytes of the 3-byte stream. *)
Definition ex_chunked_oracle : nat -> nat -> response := fun _ _ => Resp 200 None "foo" false.
Definition ex_H : string -> string := tab_lookup [("foo"%string, ex_foo_hash)].

Lemma old_model_chunked_wrong_size :
  ~ (forall H oracle retries order loc x rd size st lg b,
       old_get_or_head oracle retries order loc = {| g_res := GOk x rd size st; g_log := lg |} ->
       hcr_read_all H (fresh st (loc_hash loc)) = (b, EEOF) -> slen b = size).
Proof.
  intros X.
  specialize (X ex_H ex_chunked_oracle 0 [0] (ex_foo_hash ++ "+5")%string 0 0 5 (transport None "foo" false) [(0, 0)] "foo"%string).
  assert (E : slen "foo" = 5) by (apply X; vm_compute; reflexivity). discriminate E.
Qed.

Lemma old_model_chunked_witness :
  g_res (old_get_or_head ex_chunked_oracle 0 [0] (ex_foo_hash ++ "+5")%string) = GOk 0 0 5 (transport None "foo" false) /\
  hcr_read_all ex_H (fresh (transport None "foo" false) ex_foo_hash) = ("foo"%string, EEOF) /\
  fetch_entry ex_H (ex_foo_hash ++ "+2")%string (g_res (old_get_or_head ex_chunked_oracle 0 [0] (ex_foo_hash ++ "+2")%string)) = EData "fo" /\
  (* the same calls in the model of the fixed code *)
  g_res (get_or_head ex_chunked_oracle 0 [0] (ex_foo_hash ++ "+5")%string) = GOk 0 0 5 {| s_bytes := "foo"; s_term := TSIZE |} /\
  hcr_read_all ex_H (fresh {| s_bytes := "foo"; s_term := TSIZE |} ex_foo_hash) = ("foo"%string, EBadSize) /\
  fetch_entry ex_H (ex_foo_hash ++ "+2")%string (g_res (get_or_head ex_chunked_oracle 0 [0] (ex_foo_hash ++ "+2")%string)) = EErr EBadSize.
Proof. repeat split; vm_compute; reflexivity. Qed.

(* ------------------------------------------------------------------ the error class of a failed read *)
(* one call of getOrHead, Prop-level: the error is classified by the answers to the call's own requests *)
Lemma get_or_head_error_class oracle retries order loc e :
  NoDup order -> g_res (get_or_head oracle retries order loc) = GErr e ->
  ClassSpec order (ans_of oracle (g_log (get_or_head oracle retries order loc))) e.
Proof.
  intros Hnd E. pose proof (get_or_head_class oracle retries order loc Hnd) as C. rewrite E in C. apply class_okb_iff. exact C.
Qed.

Lemma answer_classes r :
  (is404b r = true <-> exists d b c, r = Resp 404 d b c) /\
  (retryableb r = true <-> r = ConnErr \/ exists st d b c, r = Resp st d b c /\ (st = 408 \/ st = 429 \/ 500 <= st)%N).
Proof. split; [apply is404b_iff|apply retryableb_iff]. Qed.

(* Two services, Retries = 2.  Service 0 answers 500 then 404; service 1 answers 500 three times.  The model asks
   0 1 | 0 1 | 1 and reports a temporary error; BlockNotFound for the same requests is rejected by the clause, and
   so is it for the request sequence 0 1 | 0 1 | 0 1 1 of a client that does not reset its retry list. *)
Definition ex_retry_block : blockin :=
  {| b_loc := "acbd18db4cc2f85cedef654fccc4a4d8+3"; b_content := "foo"; b_consistent := true; b_order := [0; 1];
     b_script := [[Resp 500 (Some 2) "no" false; Resp 404 (Some 2) "no" false; Resp 404 (Some 2) "no" false];
                  [Resp 500 (Some 2) "no" false; Resp 500 (Some 2) "no" false; Resp 500 (Some 2) "no" false;
                   Resp 500 (Some 2) "no" false]] |}.
Definition ex_retry_in : cin :=
  {| i_retries := 2; i_blocks := [ex_retry_block]; i_htab := [("foo"%string, "acbd18db4cc2f85cedef654fccc4a4d8"%string)];
     i_ops := [OGet 0 MReadAll] |}.

Lemma error_class_example :
  fst (run_model ex_retry_in) = [RGet ETemp 0 0 "" ENil ENil] /\
  cs_log (snd (run_model ex_retry_in)) = [(0, 0, 0); (0, 1, 0); (0, 0, 1); (0, 1, 1); (0, 1, 2)] /\
  run_nreq ex_retry_in = [5] /\
  err_ok ex_retry_in (OGet 0 MReadAll) (RGet ENotFound 0 0 "" ENil ENil) (cs_log (snd (run_model ex_retry_in))) = false /\
  err_ok ex_retry_in (OGet 0 MReadAll) (RGet ENotFound 0 0 "" ENil ENil)
         [(0, 0, 0); (0, 1, 0); (0, 0, 1); (0, 1, 1); (0, 0, 2); (0, 1, 2); (0, 1, 3)] = false.
Proof. repeat split; vm_compute; reflexivity. Qed.
