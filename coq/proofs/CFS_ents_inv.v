(* A history invariant of the collection-filesystem model: every directory's entry list is always
   strictly sorted by name and contains only ordinary path components (not "", ".", "..", and no '/').
   Holds for every foreground operation over any file representation, for every event of the
   background-write layer, and for whatever the manifest loader accepts. *)
From Coq Require Import List Arith Lia Bool Ascii String Sorted.
Import ListNotations.
From AV Require Import lib.Str lib.Path model.CFS_file model.CFS_tree model.CFS_inst model.C08_run model.CFS_bg model.CFS_run
  proofs.CFS_file_proofs proofs.CFS_refine proofs.CFS_prov proofs.CFS_tree_proofs proofs.CFS_bg_proofs proofs.CFS_hist_proofs
  proofs.CFS_load_proofs proofs.CFS_text_lemmas proofs.CFS_rt_defs.
Local Open Scope string_scope.
Local Open Scope list_scope.
Local Open Scope nat_scope.

(* ---------- the order on names ---------- *)
Lemma str_ltb_neq a b : str_ltb a b = true -> String.eqb a b = false.
Proof.
  intros H. destruct (String.eqb_spec a b) as [->|]; [|reflexivity]. rewrite str_ltb_irrefl in H. discriminate.
Qed.

Lemma str_ltb_asym a b : str_ltb a b = true -> str_ltb b a = false.
Proof.
  intros H. destruct (str_ltb b a) eqn:E; [|reflexivity].
  pose proof (str_ltb_trans a b a H E) as H2. rewrite str_ltb_irrefl in H2. discriminate.
Qed.

(* neither equal nor below: above *)
Lemma str_ltb_above n m : String.eqb m n = false -> str_ltb n m = false -> str_ltb m n = true.
Proof.
  intros He Hl. destruct (str_ltb_total n m) as [H|[H|H]].
  - rewrite H in Hl. discriminate.
  - exact H.
  - subst m. rewrite String.eqb_refl in He. discriminate.
Qed.

(* ---------- E1: ents_put / ents_del keep entry lists well formed ---------- *)
Lemma ents_ok_nil {A} : ents_ok (@nil (string * A)).
Proof. split; constructor. Qed.

Lemma ents_ok_cons_inv {A} (m : string) (i : A) r : ents_ok ((m, i) :: r) ->
  ents_ok r /\ Forall (name_lt m) (map fst r) /\ valid_name m.
Proof.
  intros [Hs Hv]. cbn [map fst] in Hs, Hv. inversion Hs as [|? ? Hs' Hlt]; subst. inversion Hv as [|? ? Hm Hv']; subst.
  split; [split; assumption|]. split; assumption.
Qed.

Lemma ents_ok_cons {A} (m : string) (i : A) r :
  ents_ok r -> Forall (name_lt m) (map fst r) -> valid_name m -> ents_ok ((m, i) :: r).
Proof. intros [Hs Hv] Hlt Hm. split; cbn [map fst]; constructor; assumption. Qed.

Lemma ents_put_names l n id x : In x (map fst (ents_put l n id)) -> x = n \/ In x (map fst l).
Proof.
  intros H. apply in_map_iff in H. destruct H as ([m c] & <- & Hin). cbn [fst].
  apply ents_put_in in Hin. destruct Hin as [E|Hin]; [inversion E; left; reflexivity|].
  right. apply in_map_iff. exists (m, c). split; [reflexivity|exact Hin].
Qed.

Lemma ents_del_names l n x : In x (map fst (ents_del l n)) -> In x (map fst l).
Proof.
  intros H. apply in_map_iff in H. destruct H as ([m c] & <- & Hin). cbn [fst].
  apply ents_del_in in Hin. apply in_map_iff. exists (m, c). split; [reflexivity|exact Hin].
Qed.

Theorem ents_put_ok l n id : ents_ok l -> valid_name n -> ents_ok (ents_put l n id).
Proof.
  intros Hl Hn. induction l as [|[m i] r IH]; cbn [ents_put].
  - apply ents_ok_cons; [apply ents_ok_nil|constructor|exact Hn].
  - destruct (ents_ok_cons_inv _ _ _ Hl) as (Hr & Hlt & Hm).
    destruct (String.eqb_spec m n) as [E|Hne].
    + subst m. apply ents_ok_cons; assumption.
    + destruct (str_ltb n m) eqn:Enm.
      * apply ents_ok_cons; [exact Hl| |exact Hn]. cbn [map fst]. constructor; [exact Enm|].
        rewrite Forall_forall in Hlt |- *. intros x Hx. unfold name_lt in *. eapply str_ltb_trans; [exact Enm|apply Hlt; exact Hx].
      * assert (Hmn : str_ltb m n = true).
        { apply str_ltb_above; [|exact Enm]. apply String.eqb_neq. exact Hne. }
        apply ents_ok_cons; [apply IH; exact Hr| |exact Hm].
        rewrite Forall_forall in Hlt |- *. intros x Hx. apply ents_put_names in Hx. destruct Hx as [->|Hx]; [exact Hmn|apply Hlt; exact Hx].
Qed.

Theorem ents_del_ok l n : ents_ok l -> ents_ok (ents_del l n).
Proof.
  intros Hl. induction l as [|[m i] r IH]; cbn [ents_del]; [exact Hl|].
  destruct (ents_ok_cons_inv _ _ _ Hl) as (Hr & Hlt & Hm).
  destruct (String.eqb m n); [exact Hr|].
  apply ents_ok_cons; [apply IH; exact Hr| |exact Hm].
  rewrite Forall_forall in Hlt |- *. intros x Hx. apply Hlt. eapply ents_del_names. exact Hx.
Qed.

(* ---------- names produced by splitting a path on '/' ---------- *)
Lemma str_contains_has_char c s : str_contains c s = has_char c s.
Proof. induction s as [|x r IH]; cbn [str_contains has_char]; [reflexivity|]. rewrite IH. reflexivity. Qed.

Lemma split_acc_nosep c s : forall k, (forall x, has_char c x = false -> has_char c (k x) = false) ->
  Forall (fun t => has_char c t = false) (split_acc c s k).
Proof.
  induction s as [|ch r IH]; intros k Hk; cbn [split_acc].
  - constructor; [apply Hk; reflexivity|constructor].
  - destruct (Ascii.eqb ch c) eqn:E.
    + constructor; [apply Hk; reflexivity|]. apply IH. intros x Hx. exact Hx.
    + apply IH. intros x Hx. apply Hk. cbn [has_char]. rewrite E, Hx. reflexivity.
Qed.

Lemma split_char_nosep c s : Forall (fun t => has_char c t = false) (split_char c s).
Proof. unfold split_char. apply split_acc_nosep. intros x Hx. exact Hx. Qed.

Lemma split_slash_nosep s t : In t (split_slash s) -> has_char "/"%char t = false.
Proof. intros H. pose proof (split_char_nosep "/"%char s) as HF. rewrite Forall_forall in HF. apply HF. exact H. Qed.

Lemma path_split_base_nosep s d b : path_split s = (d, b) -> has_char "/"%char b = false.
Proof.
  unfold path_split. destruct (rev (split_slash s)) as [|lst rest] eqn:E.
  - intros H. inversion H. reflexivity.
  - assert (Hin : In lst (split_slash s)) by (apply in_rev; rewrite E; left; reflexivity).
    destruct rest; intros H; inversion H; subst; apply (split_slash_nosep s); exact Hin.
Qed.

Lemma valid_name_intro n : special_name n = false -> has_char "/"%char n = false -> valid_name n.
Proof. intros H1 H2. split; [exact H1|]. rewrite str_contains_has_char. exact H2. Qed.

(* ---------- E0: the invariant, over any file representation ---------- *)
Definition EntsOK (I : FileImpl) (s : fs I) : Prop := forall id, ents_ok (dir_ents I s id).

Section Generic.
Variable I : FileImpl.

Definition node_ents (x : ino I) : list (string * nat) :=
  match i_node I x with IDir e => e | IFile _ => [] end.

Lemma g_get_set_ino (s : fs I) id x j :
  get_ino I (set_ino I s id x) j = if Nat.eqb j id && (id <? length (inodes I s)) then x else get_ino I s j.
Proof.
  unfold set_ino. destruct (Nat.ltb_spec id (length (inodes I s))) as [Hlt|Hge].
  - unfold get_ino. cbn [inodes]. rewrite (nth_set 1 (le_n 1)) by exact Hlt. rewrite andb_true_r. reflexivity.
  - rewrite andb_false_r. reflexivity.
Qed.

Lemma g_dir_ents_set_ino (s : fs I) id x j :
  dir_ents I (set_ino I s id x) j =
  if Nat.eqb j id && (id <? length (inodes I s)) then node_ents x else dir_ents I s j.
Proof. unfold dir_ents, node_ents. rewrite g_get_set_ino. destruct (Nat.eqb j id && (id <? length (inodes I s))); reflexivity. Qed.

Lemma EntsOK_set_ino (s : fs I) id x : EntsOK I s -> ents_ok (node_ents x) -> EntsOK I (set_ino I s id x).
Proof.
  intros H Hx j. rewrite g_dir_ents_set_ino. destruct (Nat.eqb j id && (id <? length (inodes I s))); [exact Hx|apply H].
Qed.

Lemma EntsOK_set_ents (s : fs I) d e : EntsOK I s -> ents_ok e -> EntsOK I (set_ents I s d e).
Proof. intros H He. unfold set_ents. apply EntsOK_set_ino; [exact H|exact He]. Qed.

Lemma EntsOK_set_parent (s : fs I) id p : EntsOK I s -> EntsOK I (set_parent I s id p).
Proof. intros H. unfold set_parent. apply EntsOK_set_ino; [exact H|]. unfold node_ents. cbn [i_node]. apply (H id). Qed.

Lemma EntsOK_set_file (s : fs I) id f : EntsOK I s -> EntsOK I (set_file I s id f).
Proof. intros H. unfold set_file. apply EntsOK_set_ino; [exact H|]. unfold node_ents. cbn [i_node]. apply ents_ok_nil. Qed.

Lemma EntsOK_add_ino (s : fs I) x : EntsOK I s -> ents_ok (node_ents x) -> EntsOK I (fst (add_ino I s x)).
Proof.
  intros H Hx j. unfold add_ino, dir_ents, get_ino. cbn [fst inodes].
  destruct (Nat.lt_ge_cases j (length (inodes I s))) as [Hlt|Hge].
  - rewrite app_nth1 by exact Hlt. apply (H j).
  - rewrite app_nth2 by exact Hge. destruct (j - length (inodes I s)) as [|k]; cbn [nth].
    + exact Hx.
    + destruct k; cbn [nth i_node]; apply ents_ok_nil.
Qed.

Lemma dir_ents_same_inodes (s s' : fs I) : inodes I s' = inodes I s -> forall id, dir_ents I s' id = dir_ents I s id.
Proof. intros E id. unfold dir_ents, get_ino. rewrite E. reflexivity. Qed.

Lemma EntsOK_same_inodes (s s' : fs I) : inodes I s' = inodes I s -> EntsOK I s -> EntsOK I s'.
Proof. intros E H id. rewrite (dir_ents_same_inodes s s' E). apply H. Qed.

Lemma g_inodes_set_handle (s : fs I) h x : inodes I (set_handle I s h x) = inodes I s.
Proof. unfold set_handle. destruct (h <? length (handles I s)); reflexivity. Qed.

Lemma EntsOK_set_handle (s : fs I) h x : EntsOK I s -> EntsOK I (set_handle I s h x).
Proof. apply EntsOK_same_inodes. apply g_inodes_set_handle. Qed.

Lemma EntsOK_add_handle (s : fs I) x : EntsOK I s -> EntsOK I (fst (add_handle I s x)).
Proof. apply EntsOK_same_inodes. reflexivity. Qed.

(* a new node entered under a valid name *)
Lemma EntsOK_add_child (s : fs I) x node name : EntsOK I s -> ents_ok (node_ents x) -> valid_name name ->
  EntsOK I (set_ents I (fst (add_ino I s x)) node (ents_put (dir_ents I (fst (add_ino I s x)) node) name (snd (add_ino I s x)))).
Proof.
  intros H Hx Hn. pose proof (EntsOK_add_ino s x H Hx) as H1.
  apply EntsOK_set_ents; [exact H1|]. apply ents_put_ok; [apply H1|exact Hn].
Qed.

Lemma child_ok_not_special (s : fs I) d name r : child I s d name = Ok r -> special_name name = false.
Proof.
  unfold child. destruct (i_node I (get_ino I s d)); [discriminate|]. destruct (special_name name); [discriminate|reflexivity].
Qed.

(* ---------- E2: the operations ---------- *)
Lemma open_file_EntsOK (s : fs I) name fl : EntsOK I s -> EntsOK I (fst (open_file I s name fl)).
Proof.
  intros H. unfold open_file. destruct (o_sync fl); [exact H|].
  destruct (path_split name) as [dirname base] eqn:Eps.
  destruct (rlookup I s dirname) as [parent|e]; [|exact H].
  destruct (o_acc fl =? 3); [exact H|].
  destruct (negb _ && is_dir I s parent && ((base =? ".")%string || (base =? "")%string)).
  { apply (EntsOK_add_handle s). exact H. }
  destruct (negb _ && is_dir I s parent && (base =? "..")%string).
  { apply (EntsOK_add_handle s). exact H. }
  destruct (child I s parent base) as [[n|]|e] eqn:Ech; [| |exact H].
  - destruct (o_excl fl); [exact H|]. destruct (o_trunc fl).
    + destruct (negb _); [exact H|]. destruct (i_node I (get_ino I s n)) as [f|e]; [|exact H].
      apply (EntsOK_add_handle (set_file I s n (f_trunc I f 0))). apply EntsOK_set_file. exact H.
    + apply (EntsOK_add_handle s). exact H.
  - destruct (o_create fl); cbn [negb]; [|exact H].
    assert (Hv : valid_name base).
    { apply valid_name_intro; [eapply child_ok_not_special; exact Ech|eapply path_split_base_nosep; exact Eps]. }
    pose proof (EntsOK_add_child s {| i_node := IFile (f_empty I); i_parent := parent |} parent base H ents_ok_nil Hv) as H2.
    destruct (add_ino I s {| i_node := IFile (f_empty I); i_parent := parent |}) as [s1 id]. cbn [fst snd] in H2.
    match goal with |- context [add_handle I ?s2 ?x] => apply (EntsOK_add_handle s2 x) end. exact H2.
Qed.

Lemma mkdir_EntsOK (s : fs I) name : EntsOK I s -> EntsOK I (fst (mkdir I s name)).
Proof.
  intros H. unfold mkdir. destruct (path_split name) as [dirname base] eqn:Eps.
  destruct (rlookup I s dirname) as [n|e]; [|exact H].
  destruct (child I s n base) as [[c|]|e] eqn:Ech; [exact H| |exact H].
  assert (Hv : valid_name base).
  { apply valid_name_intro; [eapply child_ok_not_special; exact Ech|eapply path_split_base_nosep; exact Eps]. }
  pose proof (EntsOK_add_child s {| i_node := IDir []; i_parent := n |} n base H ents_ok_nil Hv) as H2.
  destruct (add_ino I s {| i_node := IDir []; i_parent := n |}) as [s1 id]. cbn [fst snd] in H2 |- *. exact H2.
Qed.

Lemma rename_EntsOK (s : fs I) a b : EntsOK I s -> EntsOK I (fst (rename I s a b)).
Proof.
  intros H. unfold rename. destruct (path_split a) as [olddir oldname] eqn:Ea.
  destruct (special_name oldname) eqn:Eso; [exact H|].
  destruct (rlookup I s olddir) as [od|e]; [|exact H].
  destruct (path_split b) as [newdir newname0] eqn:Eb.
  destruct ((newname0 =? ".")%string || (newname0 =? "..")%string) eqn:Edots; [exact H|].
  destruct (rlookup I s newdir) as [nd|e]; [|exact H].
  set (newname := if (newname0 =? "")%string then oldname else newname0).
  assert (Hv : valid_name newname).
  { unfold newname. destruct (newname0 =? "")%string eqn:Ee.
    - apply valid_name_intro; [exact Eso|eapply path_split_base_nosep; exact Ea].
    - apply valid_name_intro; [|eapply path_split_base_nosep; exact Eb].
      unfold special_name. rewrite Ee. cbn [orb]. exact Edots. }
  destruct (ents_find (dir_ents I s od) oldname) as [oi|]; [|exact H].
  destruct (mem_nat oi _); [exact H|].
  destruct (Nat.eqb nd od && (newname =? oldname)%string); [exact H|].
  assert (Hmove : EntsOK I (set_ents I (set_parent I (set_ents I s nd (ents_put (dir_ents I s nd) newname oi)) oi nd) od
            (ents_del (dir_ents I (set_parent I (set_ents I s nd (ents_put (dir_ents I s nd) newname oi)) oi nd) od) oldname))).
  { assert (H1 : EntsOK I (set_ents I s nd (ents_put (dir_ents I s nd) newname oi))).
    { apply EntsOK_set_ents; [exact H|]. apply ents_put_ok; [apply H|exact Hv]. }
    pose proof (EntsOK_set_parent _ oi nd H1) as H2.
    apply EntsOK_set_ents; [exact H2|]. apply ents_del_ok. apply H2. }
  destruct (ents_find (dir_ents I s nd) newname) as [ex|].
  - destruct (is_dir I s ex); [exact H|exact Hmove].
  - exact Hmove.
Qed.

Lemma remove_EntsOK (s : fs I) name : EntsOK I s -> EntsOK I (fst (remove I s name)).
Proof.
  intros H. unfold remove. destruct (path_split (trim_right_slash name)) as [dirname base].
  destruct (special_name base); [exact H|].
  destruct (rlookup I s dirname) as [d|e]; [|exact H].
  destruct (i_node I (get_ino I s d)) as [f|ents] eqn:Ed; [exact H|].
  destruct (ents_find ents base) as [n|]; [|exact H].
  destruct (is_dir I s n && negb (length (dir_ents I s n) =? 0)); [exact H|].
  cbn [fst]. apply EntsOK_set_ents; [exact H|]. apply ents_del_ok.
  pose proof (H d) as Hd. unfold dir_ents in Hd. rewrite Ed in Hd. exact Hd.
Qed.

Lemma h_read_EntsOK (s : fs I) h n : EntsOK I s -> EntsOK I (fst (h_read I s h n)).
Proof.
  intros H. unfold h_read. destruct (get_handle I s h) as [x|]; [|exact H].
  destruct (negb (h_r I x)); [exact H|].
  destruct (i_node I (get_ino I s (h_ino I x))) as [f|e].
  - destruct (f_read I f n (h_ptr I x)) as [[d p'] eof]. cbn [fst]. apply EntsOK_set_handle. exact H.
  - cbn [fst]. apply EntsOK_set_handle. exact H.
Qed.

Lemma h_seek_EntsOK (s : fs I) h o neg wh : EntsOK I s -> EntsOK I (fst (h_seek I s h o neg wh)).
Proof.
  intros H. unfold h_seek. destruct (get_handle I s h) as [x|]; [|exact H].
  destruct (neg && _); [exact H|]. destruct (_ =? p_off I (h_ptr I x)); [exact H|].
  cbn [fst]. apply EntsOK_set_handle. exact H.
Qed.

Lemma h_write_EntsOK (s : fs I) h data : EntsOK I s -> EntsOK I (fst (h_write I s h data)).
Proof.
  intros H. unfold h_write. destruct (get_handle I s h) as [x|]; [|exact H].
  destruct (negb (h_w I x)); [exact H|].
  destruct (i_node I (get_ino I s (h_ino I x))) as [f|e].
  - destruct (f_write I f _ data) as [f' p']. cbn [fst]. apply EntsOK_set_handle. apply EntsOK_set_file. exact H.
  - cbn [fst]. apply EntsOK_set_handle. exact H.
Qed.

Lemma h_trunc_EntsOK (s : fs I) h n : EntsOK I s -> EntsOK I (fst (h_trunc I s h n)).
Proof.
  intros H. unfold h_trunc. destruct (get_handle I s h) as [x|]; [|exact H].
  destruct (i_node I (get_ino I s (h_ino I x))) as [f|e]; [|exact H].
  cbn [fst]. apply EntsOK_set_file. exact H.
Qed.

Theorem step_EntsOK_gen (s : fs I) o : EntsOK I s -> EntsOK I (fst (step I s o)).
Proof.
  intros H. destruct o; cbn [step].
  - pose proof (open_file_EntsOK s name fl H) as H1. destruct (open_file I s name fl) as [s' [r|e]]; exact H1.
  - pose proof (h_read_EntsOK s h n H) as H1. destruct (h_read I s h n) as [s' [[d eof]|e]]; exact H1.
  - pose proof (h_write_EntsOK s h data H) as H1. destruct (h_write I s h data) as [s' [r|e]]; exact H1.
  - pose proof (h_seek_EntsOK s h off neg whence H) as H1. destruct (h_seek I s h off neg whence) as [s' [r|e]]; exact H1.
  - pose proof (h_trunc_EntsOK s h size H) as H1. destruct (h_trunc I s h size) as [s' [r|e]]; exact H1.
  - destruct (h_stat I s h) as [[d n]|e]; exact H.
  - destruct (h_readdir I s h) as [l|e]; exact H.
  - pose proof (mkdir_EntsOK s name H) as H1. destruct (mkdir I s name) as [s' [r|e]]; exact H1.
  - pose proof (rename_EntsOK s a b H) as H1. destruct (rename I s a b) as [s' [r|e]]; exact H1.
  - pose proof (remove_EntsOK s name H) as H1. destruct (remove I s name) as [s' [r|e]]; exact H1.
  - destruct (stat I s name) as [[d n]|e]; exact H.
Qed.

Lemma EntsOK_init_gen : EntsOK I (fs_init I).
Proof.
  intros id. unfold dir_ents, get_ino, fs_init. cbn [inodes]. destruct id as [|[|id]]; cbn [nth i_node]; apply ents_ok_nil.
Qed.

End Generic.

Theorem step_EntsOK : forall I s o, EntsOK I s -> EntsOK I (fst (step I s o)).
Proof. exact step_EntsOK_gen. Qed.

Theorem EntsOK_init : forall I, EntsOK I (fs_init I).
Proof. exact EntsOK_init_gen. Qed.

(* ---------- E3: whole histories of foreground operations ---------- *)
Fixpoint fg_final (I : FileImpl) (s : fs I) (ops : list op) : fs I :=
  match ops with [] => s | o :: r => fg_final I (fst (step I s o)) r end.

(* fg_final is the state [run] threads through: observations of a concatenated history *)
Lemma run_app I : forall a b s, run I s (a ++ b) = run I s a ++ run I (fg_final I s a) b.
Proof.
  induction a as [|o a IH]; intros b s; cbn [app run fg_final]; [reflexivity|].
  destruct (step I s o) as [s' v]. cbn [fst app]. rewrite IH. reflexivity.
Qed.

Theorem run_EntsOK : forall I ops s, EntsOK I s -> EntsOK I (fg_final I s ops).
Proof.
  intros I. induction ops as [|o r IH]; intros s H; cbn [fg_final]; [exact H|].
  apply IH. apply step_EntsOK. exact H.
Qed.

Corollary run_EntsOK_init : forall I ops, EntsOK I (fg_final I (fs_init I) ops).
Proof. intros I ops. apply run_EntsOK. apply EntsOK_init. Qed.

(* ---------- E3: the background-write layer never touches entry lists ---------- *)
Section BGInv.
Variable mb : nat.
Notation C := (Conc mb).
Notation OKst st := (EntsOK C (fsys mb st)).

Lemma fold_left_inv {A B} (P : A -> Prop) (f : A -> B -> A) :
  (forall a b, P a -> P (f a b)) -> forall l a, P a -> P (fold_left f l a).
Proof. intros Hf. induction l as [|b l IH]; intros a Ha; cbn [fold_left]; [exact Ha|]. apply IH. apply Hf. exact Ha. Qed.

Lemma set_seg_at_EntsOK (s : fs C) fid i x : EntsOK C s -> EntsOK C (set_seg_at mb s fid i x).
Proof.
  intros H. unfold set_seg_at. destruct (i_node C (get_ino C s fid)) as [fn|e]; [|exact H].
  apply (EntsOK_set_file C). exact H.
Qed.

Lemma install_ref_EntsOK q loc (s : fs C) r : EntsOK C s -> EntsOK C (install_ref mb q loc s r).
Proof.
  intros H. unfold install_ref. destruct (i_node C (get_ino C s (r_file r))) as [fn|e]; [|exact H].
  destruct (length (segs fn) <=? r_idx r); [exact H|].
  destruct (nthseg (segs fn) (r_idx r)) as [b [t|]|b l z o]; try exact H.
  destruct (Nat.eqb t (r_tok r) && _); [|exact H]. apply (EntsOK_set_file C). exact H.
Qed.

Lemma complete_EntsOK st id : OKst st -> OKst (complete mb st id).
Proof.
  intros H. unfold complete. destruct (take_pend (pends mb st) id) as [[q rest]|]; [|exact H].
  destruct (q_ok q); cbn [fsys]; [|exact H].
  apply (fold_left_inv (EntsOK C)); [|exact H]. intros s r Hs. apply install_ref_EntsOK. exact Hs.
Qed.

Lemma complete_data_EntsOK st d : OKst st -> OKst (complete_data mb st d).
Proof.
  intros H. unfold complete_data.
  apply (fold_left_inv (fun st => OKst st)); [|exact H].
  intros s q Hs. destruct (bytes_eqb (q_data q) d); [apply complete_EntsOK; exact Hs|exact Hs].
Qed.

Lemma assign_tokens_EntsOK sync : forall refs st boff acc,
  OKst st -> OKst (fst (assign_tokens mb sync refs st boff acc)).
Proof.
  induction refs as [|[fid i] r IH]; intros st boff acc H; cbn [assign_tokens]; [exact H|].
  destruct (negb (i <? length (file_segs mb (fsys mb st) fid))); [exact H|].
  destruct (seg_at mb (fsys mb st) fid i) as [b tok|b l z o]; [|exact H].
  destruct (negb sync && _); [exact H|].
  apply IH. cbn [fsys]. apply set_seg_at_EntsOK. exact H.
Qed.

Lemma commit_async_EntsOK st refs : OKst st -> OKst (commit_async mb st refs).
Proof.
  intros H. unfold commit_async. destruct refs as [|r0 refs]; [exact H|].
  pose proof (assign_tokens_EntsOK false (r0 :: refs) st 0 [] H) as H1.
  destruct (assign_tokens mb false (r0 :: refs) st 0 []) as [st1 [[prs n]|]]; cbn [fst fsys] in *; exact H1.
Qed.

Lemma install_sync_EntsOK loc bsz (s : fs C) r : EntsOK C s -> EntsOK C (install_sync mb loc bsz s r).
Proof.
  intros H. unfold install_sync. destruct (seg_at mb s (r_file r) (r_idx r)); [|exact H].
  apply set_seg_at_EntsOK. exact H.
Qed.

Lemma commit_sync_EntsOK st refs : OKst st -> OKst (fst (commit_sync mb st refs)).
Proof.
  intros H. unfold commit_sync. destruct refs as [|r0 refs]; [exact H|].
  pose proof (assign_tokens_EntsOK true (r0 :: refs) st 0 [] H) as H1.
  destruct (assign_tokens mb true (r0 :: refs) st 0 []) as [st1 [[prs n]|]]; cbn [fst fsys] in *; [|exact H1].
  destruct (put_fails _ _); cbn [fst fsys]; [exact H1|].
  apply (fold_left_inv (EntsOK C)); [|exact H1]. intros s r Hs. apply install_sync_EntsOK. exact Hs.
Qed.

Lemma commit_any_EntsOK (sync : bool) st refs : OKst st ->
  OKst (fst (if sync then commit_sync mb st refs else (commit_async mb st refs, true))).
Proof.
  intros H. destruct sync; [apply commit_sync_EntsOK; exact H|cbn [fst]; apply commit_async_EntsOK; exact H].
Qed.

Lemma flush_segs_EntsOK sync fid : forall l i st ok pending plen, OKst st ->
  OKst (fst (fst (fst (flush_segs mb sync fid i l st ok pending plen)))).
Proof.
  induction l as [|sg l IH]; intros i st ok pending plen H; cbn [flush_segs]; [exact H|].
  destruct sg as [b t|b lo z o]; [|apply IH; exact H].
  destruct (mb / 2 <? length b).
  - pose proof (commit_any_EntsOK sync st [(fid, i)] H) as H1.
    destruct (if sync then commit_sync mb st [(fid, i)] else (commit_async mb st [(fid, i)], true)) as [st1 ok1].
    apply IH. exact H1.
  - destruct (mb <? plen + length b).
    + pose proof (commit_any_EntsOK sync st pending H) as H1.
      destruct (if sync then commit_sync mb st pending else (commit_async mb st pending, true)) as [st1 ok1].
      apply IH. exact H1.
    + apply IH. exact H.
Qed.

Lemma flush_dir_EntsOK : forall fuel sync short recursive st d, OKst st ->
  OKst (fst (flush_dir mb fuel sync short recursive st d)).
Proof.
  induction fuel as [|fuel IH]; intros sync short recursive st d H; cbn [flush_dir]; [exact H|].
  match goal with |- context [fold_left ?f ?l ?a] =>
    assert (HF : OKst (fst (fst (fst (fold_left f l a))))) end.
  { apply (fold_left_inv (fun acc : bst mb * bool * list (nat * nat) * nat => OKst (fst (fst (fst acc))))); [|exact H].
    intros [[[st0 ok0] pending] plen] e Hacc. cbn [fst] in Hacc.
    destruct (is_dir C (fsys mb st0) (snd e)).
    - destruct recursive; [|exact Hacc].
      pose proof (IH sync short true st0 (snd e) Hacc) as H1.
      destruct (flush_dir mb fuel sync short true st0 (snd e)) as [st1 ok1]. exact H1.
    - apply flush_segs_EntsOK. exact Hacc. }
  match goal with |- context [fold_left ?f ?l ?a] => destruct (fold_left f l a) as [[[st1 ok1] pending] plen] end.
  cbn [fst] in HF. destruct short; [|exact HF].
  pose proof (commit_any_EntsOK sync st1 pending HF) as H2.
  destruct (if sync then commit_sync mb st1 pending else (commit_async mb st1 pending, true)) as [st2 ok2]. exact H2.
Qed.

Lemma b_flush_EntsOK st path short : OKst st -> OKst (fst (b_flush mb st path short)).
Proof.
  intros H. unfold b_flush. destruct (rlookup C (fsys mb st) path) as [d|e]; [|exact H].
  destruct (negb (is_dir C (fsys mb st) d)); [exact H|].
  pose proof (flush_dir_EntsOK (length (inodes C (fsys mb st))) false short (String.eqb path "") st d H) as H1.
  destruct (flush_dir mb (length (inodes C (fsys mb st))) false short (String.eqb path "") st d) as [st1 ok]. exact H1.
Qed.

Lemma b_marshal_EntsOK tab st : OKst st -> OKst (fst (b_marshal mb tab st)).
Proof.
  intros H. unfold b_marshal.
  pose proof (flush_dir_EntsOK (length (inodes C (fsys mb st))) true true true st root_id H) as H1.
  destruct (flush_dir mb (length (inodes C (fsys mb st))) true true true st root_id) as [st1 ok].
  destruct ok; exact H1.
Qed.

Lemma b_write_EntsOK st h data : OKst st -> OKst (fst (b_write mb st h data)).
Proof.
  intros H. unfold b_write. destruct (get_handle C (fsys mb st) h) as [x|]; [|exact H].
  destruct (negb (h_w C x)); [exact H|].
  destruct (i_node C (get_ino C (fsys mb st) (h_ino C x))) as [f|e].
  - destruct (bfn_write mb (h_ino C x) f _ data st) as [[f' p'] st']. cbn [fst with_fs fsys].
    apply (EntsOK_set_handle C). apply (EntsOK_set_file C). exact H.
  - cbn [fst with_fs fsys]. apply (EntsOK_set_handle C). exact H.
Qed.

Theorem bexec_EntsOK tab st e : OKst st -> OKst (fst (bexec mb tab st e)).
Proof.
  intros H. destruct e as [o v|p sh v|v|d|m]; cbn [bexec].
  - assert (Hstep : forall o', OKst (fst (let '(s', v') := step C (fsys mb st) o' in (with_fs mb st s', OObs v')))).
    { intros o'. pose proof (step_EntsOK C (fsys mb st) o' H) as H1. destruct (step C (fsys mb st) o') as [s' v']. exact H1. }
    destruct o; try apply Hstep.
    pose proof (b_write_EntsOK st h data H) as H1. destruct (b_write mb st h data) as [st' [n|x]]; exact H1.
  - pose proof (b_flush_EntsOK st p sh H) as H1. destruct (b_flush mb st p sh) as [st' [u|x]]; exact H1.
  - pose proof (b_marshal_EntsOK tab st H) as H1. destruct (b_marshal mb tab st) as [st' [t|x]]; exact H1.
  - cbn [fst]. apply complete_data_EntsOK. exact H.
  - exact H.
Qed.

Theorem bfinal_EntsOK tab : forall es st, OKst st -> OKst (bfinal mb tab st es).
Proof.
  induction es as [|e r IH]; intros st H; cbn [bfinal]; [exact H|]. apply IH. apply bexec_EntsOK. exact H.
Qed.

End BGInv.

Theorem bg_history_EntsOK : forall mb, 1 <= mb -> forall tab s0 es,
  EntsOK (Conc mb) s0 -> EntsOK (Conc mb) (fsys mb (bfinal mb tab (binit mb tab s0) es)).
Proof. intros mb _ tab s0 es H. apply bfinal_EntsOK. exact H. Qed.

(* ---------- E4: the manifest loader ---------- *)
Section LoadInv.
Variable mb : nat.
Notation C := (Conc mb).

Lemma mkdirs_EntsOK : forall names (s : fs C) node s' n',
  Forall (fun t => has_char "/"%char t = false) names -> EntsOK C s ->
  mkdirs mb s node names = Ok (s', n') -> EntsOK C s'.
Proof.
  induction names as [|name r IH]; intros s node s' n' Hn H; cbn [mkdirs].
  - intros E; inversion E; subst; exact H.
  - inversion Hn as [|? ? Hname Hr]; subst.
    destruct (String.eqb name "" || String.eqb name ".") eqn:E1; [apply IH; assumption|].
    destruct (String.eqb name "..") eqn:E2.
    + destruct (Nat.eqb node root_id); [discriminate|]. apply IH; assumption.
    + destruct (i_node C (get_ino C s node)) as [f|ents]; [discriminate|].
      destruct (ents_find ents name) as [c|].
      * destruct (is_dir C s c); [|discriminate]. apply IH; assumption.
      * assert (Hv : valid_name name).
        { apply valid_name_intro; [|exact Hname]. apply orb_false_iff in E1. destruct E1 as [Ea Eb].
          unfold special_name. rewrite Ea, Eb, E2. reflexivity. }
        pose proof (EntsOK_add_child C s {| i_node := IDir []; i_parent := node |} node name H ents_ok_nil Hv) as H2.
        destruct (add_ino C s {| i_node := IDir []; i_parent := node |}) as [s1 id]. cbn [fst snd] in H2.
        apply IH; [exact Hr|exact H2].
Qed.

Lemma In_removelast {A} (l : list A) x : In x (removelast l) -> In x l.
Proof.
  induction l as [|a l IH]; cbn [removelast]; [auto|]. destruct l as [|b l']; [intros []|].
  intros [<-|Hin]; [left; reflexivity|right; apply IH; exact Hin].
Qed.

Lemma last_In_or_default {A} (l : list A) d : last l d = d \/ In (last l d) l.
Proof.
  induction l as [|a l IH]; [left; reflexivity|]. cbn [last]. destruct l as [|b l']; [right; left; reflexivity|].
  destruct IH as [E|Hin]; [left; exact E|right; right; exact Hin].
Qed.

Lemma create_file_EntsOK (s : fs C) path s' r :
  EntsOK C s -> create_file_and_parents mb s path = Ok (s', r) -> EntsOK C s'.
Proof.
  intros H. unfold create_file_and_parents.
  destruct (mkdirs mb s root_id (removelast (split_slash path))) as [[s1 node]|e] eqn:Em; [|discriminate].
  assert (H1 : EntsOK C s1).
  { eapply mkdirs_EntsOK; [|exact H|exact Em]. apply Forall_forall. intros t Ht.
    apply (split_slash_nosep path). apply In_removelast. exact Ht. }
  destruct (String.eqb (last (split_slash path) "") "."); [intros E; inversion E; subst; exact H1|].
  destruct (special_name (last (split_slash path) "")) eqn:Esp; [discriminate|].
  destruct (i_node C (get_ino C s1 node)) as [f|ents]; [discriminate|].
  destruct (ents_find ents (last (split_slash path) "")) as [c|].
  - destruct (is_dir C s1 c); [discriminate|]. intros E; inversion E; subst; exact H1.
  - assert (Hv : valid_name (last (split_slash path) "")).
    { apply valid_name_intro; [exact Esp|]. destruct (last_In_or_default (split_slash path) "") as [E|Hin].
      - rewrite E. reflexivity.
      - apply (split_slash_nosep path). exact Hin. }
    pose proof (EntsOK_add_child C s1 {| i_node := IFile (I := C) f_new; i_parent := node |} node _ H1 ents_ok_nil Hv) as H2.
    destruct (add_ino C s1 {| i_node := IFile (I := C) f_new; i_parent := node |}) as [s2 id]. cbn [fst snd] in H2.
    intros E; inversion E; subst. exact H2.
Qed.

Lemma load_tokens_EntsOK tab : forall toks dirname (s : fs C) bl anyfile segIdx pos s' af nb,
  EntsOK C s -> load_tokens mb tab dirname toks s bl anyfile segIdx pos = Ok (s', af, nb) -> EntsOK C s'.
Proof.
  induction toks as [|t toks IH]; intros dirname s bl anyfile segIdx pos s' af nb H; cbn [load_tokens].
  - intros E; inversion E; subst; exact H.
  - destruct (classify tab t) as [b|offset len nm|]; [| |discriminate].
    + destruct anyfile; [discriminate|]. apply IH. exact H.
    + destruct bl as [|b0 bl0] eqn:Ebl; [discriminate|]. rewrite <- Ebl.
      destruct (create_file_and_parents mb s (dirname ++ "/" ++ manifest_unescape nm)%string) as [[s1 [fid|]]|e] eqn:Ecf; [| |discriminate].
      * pose proof (create_file_EntsOK _ _ _ _ H Ecf) as H1.
        destruct (if offset <? pos then (0, 0) else (segIdx, pos)) as [si p0].
        destruct (map_range (S (length bl)) bl si p0 offset len []) as [[[si' p'] sgs]|]; [|discriminate].
        destruct (i_node C (get_ino C s1 fid)) as [fn|e]; [|discriminate].
        apply IH. apply (EntsOK_set_file C). exact H1.
      * destruct (Nat.eqb len 0); [|discriminate]. apply IH. eapply create_file_EntsOK; eassumption.
Qed.

Lemma load_streams_EntsOK tab : forall streams (s s' : fs C),
  EntsOK C s -> load_streams mb tab streams s = Ok s' -> EntsOK C s'.
Proof.
  induction streams as [|st r IH]; intros s s' H; cbn [load_streams]; [intros E; inversion E; subst; exact H|].
  destruct (split_char " "%char st) as [|d toks]; [discriminate|].
  destruct (load_tokens mb tab (manifest_unescape d) toks s [] false 0 0) as [[[s1 af] nb]|e] eqn:El; [|discriminate].
  destruct (negb af || Nat.eqb nb 0 || String.eqb (manifest_unescape d) ""); [discriminate|].
  apply IH. eapply load_tokens_EntsOK; eassumption.
Qed.

End LoadInv.

Theorem b_load_EntsOK : forall mb tab txt s, b_load mb tab txt = Ok s -> EntsOK (Conc mb) s.
Proof.
  intros mb tab txt s. unfold b_load. destruct (negb _); [discriminate|]. intros E.
  eapply load_streams_EntsOK; [|exact E]. apply EntsOK_init.
Qed.

(* a loaded (or empty) collection followed by any event history *)
Corollary loaded_history_EntsOK : forall mb, 1 <= mb -> forall tab txt s0 es,
  load_or_empty mb tab txt = Some s0 -> EntsOK (Conc mb) (fsys mb (bfinal mb tab (binit mb tab s0) es)).
Proof.
  intros mb Hmb tab txt s0 es. unfold load_or_empty. intros E. apply bg_history_EntsOK; [exact Hmb|].
  destruct (String.eqb txt ""); [inversion E; apply EntsOK_init|].
  destruct (b_load mb tab txt) as [s|e] eqn:El; [|discriminate]. inversion E; subst. eapply b_load_EntsOK; exact El.
Qed.

Print Assumptions ents_put_ok.
Print Assumptions ents_del_ok.
Print Assumptions step_EntsOK.
Print Assumptions run_EntsOK.
Print Assumptions bg_history_EntsOK.
Print Assumptions EntsOK_init.
Print Assumptions b_load_EntsOK.
Print Assumptions loaded_history_EntsOK.
