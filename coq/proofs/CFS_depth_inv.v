(* The directory graph of the collection-filesystem model below the root is always a tree, no deeper
   than the inode table is long: the [deep_ok] side condition of the round-trip theorems holds after
   every history.

   TreeInv: the table is not empty; every entry (n, c) of every directory p names an inode c inside the
   table, c is not the root, and c's parent pointer is p; no inode occurs twice among the entries of one
   directory.  So every inode has at most one (directory, name) under which it is entered.  The
   invariant is preserved by every foreground operation over any file representation, by every event
   of the background-write layer, and established by the manifest loader.  It does not depend on the
   [locked] check of rename: what that check prevents is a cycle *detached* from the root, which
   marshalling (a walk from the root) never sees.  From TreeInv alone, a chain of entries going down
   from the root visits pairwise different inodes (walking the parent pointers back up from two equal
   inodes at different depths would make the root an entry), hence is shorter than the table.

   The last part (D4) proves the stronger invariant Rooted = TreeInv + "the root's parent is the root and
   every directory that has an entry is reached from the root through entries", for the same histories.
   That one does use the [locked] check, and shows it complete: the walk [ancestors] makes with the table
   size as fuel lists the target directory and everything above it, so a directory is never moved
   below itself and no cycle exists anywhere in the table. *)
From Coq Require Import List Arith Lia Bool Ascii String.
Import ListNotations.
From AV Require Import lib.Str lib.Path model.CFS_file model.CFS_tree model.CFS_inst model.C08_run model.CFS_bg model.CFS_tload
  model.CFS_run proofs.CFS_file_proofs proofs.CFS_refine proofs.CFS_prov proofs.CFS_tree_proofs proofs.CFS_bg_proofs
  proofs.CFS_hist_proofs proofs.CFS_load_proofs proofs.CFS_text_lemmas proofs.CFS_rt_defs proofs.CFS_ents_inv
  proofs.CFS_flush_proofs.
Local Open Scope string_scope.
Local Open Scope list_scope.
Local Open Scope nat_scope.
Notation length := List.length.

(* ---------- D0: entry lists, second components ---------- *)
Lemma ents_del_sub_snd l n x : In x (map snd (ents_del l n)) -> In x (map snd l).
Proof.
  intros H. apply in_map_iff in H. destruct H as ([m c] & <- & Hin). cbn [snd].
  apply ents_del_in in Hin. apply in_map_iff. exists (m, c). split; [reflexivity|exact Hin].
Qed.

Lemma ents_del_nodup l n : NoDup (map snd l) -> NoDup (map snd (ents_del l n)).
Proof.
  induction l as [|[m i] r IH]; cbn [ents_del map snd]; intros H; [exact H|].
  inversion H as [|? ? Hni Hr]; subst.
  destruct (String.eqb m n); [exact Hr|]. cbn [map snd]. constructor; [|apply IH; exact Hr].
  intros Hin. apply Hni. eapply ents_del_sub_snd. exact Hin.
Qed.

Lemma ents_find_in_snd l n c : ents_find l n = Some c -> In c (map snd l).
Proof. intros H. apply in_map_iff. exists (n, c). split; [reflexivity|]. apply ents_find_in. exact H. Qed.

(* deleting the name under which c is entered removes c *)
Lemma ents_del_gone l n c : NoDup (map snd l) -> ents_find l n = Some c -> ~ In c (map snd (ents_del l n)).
Proof.
  induction l as [|[m i] r IH]; cbn [ents_del ents_find map snd]; intros Hnd Hf; [discriminate|].
  inversion Hnd as [|? ? Hni Hr]; subst.
  destruct (String.eqb m n).
  - inversion Hf; subst. exact Hni.
  - cbn [map snd]. intros [E|Hin].
    + subst i. apply Hni. eapply ents_find_in_snd. exact Hf.
    + exact (IH Hr Hf Hin).
Qed.

Lemma ents_put_sub_snd l n id x : In x (map snd (ents_put l n id)) -> x = id \/ In x (map snd l).
Proof.
  intros H. apply in_map_iff in H. destruct H as ([m c] & <- & Hin). cbn [snd].
  apply ents_put_in in Hin. destruct Hin as [E|Hin]; [inversion E; left; reflexivity|].
  right. apply in_map_iff. exists (m, c). split; [reflexivity|exact Hin].
Qed.

(* entering an inode that is not yet among the entries *)
Lemma ents_put_nodup l n id : NoDup (map snd l) -> ~ In id (map snd l) -> NoDup (map snd (ents_put l n id)).
Proof.
  induction l as [|[m i] r IH]; cbn [ents_put map snd]; intros Hnd Hni.
  - constructor; [intros []|constructor].
  - inversion Hnd as [|? ? Hi Hr]; subst.
    destruct (String.eqb m n).
    + cbn [map snd]. constructor; [|exact Hr]. intros Hin. apply Hni. right. exact Hin.
    + destruct (str_ltb n m).
      * cbn [map snd]. constructor; [exact Hni|exact Hnd].
      * cbn [map snd]. constructor.
        -- intros Hin. apply ents_put_sub_snd in Hin. destruct Hin as [E|Hin]; [|exact (Hi Hin)].
           apply Hni. left. exact E.
        -- apply IH; [exact Hr|]. intros Hin. apply Hni. right. exact Hin.
Qed.

(* renaming inside one directory: enter c under the new name, then delete the old name *)
Lemma ents_move_nodup l old new c : NoDup (map snd l) -> ents_find l old = Some c -> String.eqb new old = false ->
  NoDup (map snd (ents_del (ents_put l new c) old)).
Proof.
  induction l as [|[m i] r IH]; cbn [ents_put ents_find map snd]; intros Hnd Hf Hne; [discriminate|].
  inversion Hnd as [|? ? Hi Hr]; subst.
  assert (Hgone : ~ In c (map snd (ents_del ((m, i) :: r) old))).
  { apply ents_del_gone; [exact Hnd|exact Hf]. }
  destruct (String.eqb_spec m new) as [Emn|Nmn].
  - (* the new name exists: its entry is replaced *)
    subst m. rewrite Hne in Hf. cbn [ents_del]. rewrite Hne. cbn [map snd].
    cbn [ents_del] in Hgone. rewrite Hne in Hgone. cbn [map snd] in Hgone.
    constructor; [|apply ents_del_nodup; exact Hr]. intros Hin. apply Hgone. right. exact Hin.
  - destruct (str_ltb new m).
    + change (ents_del ((new, c) :: (m, i) :: r) old)
        with (if String.eqb new old then (m, i) :: r else (new, c) :: ents_del ((m, i) :: r) old).
      rewrite Hne. cbn [map snd]. constructor; [exact Hgone|apply ents_del_nodup; exact Hnd].
    + cbn [ents_del]. destruct (String.eqb m old) eqn:Emo.
      * inversion Hf; subst i. apply ents_put_nodup; assumption.
      * cbn [map snd]. constructor; [|apply IH; assumption].
        intros Hin. apply ents_del_sub_snd in Hin. apply ents_put_sub_snd in Hin.
        destruct Hin as [E|Hin]; [|exact (Hi Hin)]. subst i. apply Hi. eapply ents_find_in_snd. exact Hf.
Qed.

(* ---------- D1: the invariant, over any file representation ---------- *)
Definition TreeInv (I : FileImpl) (s : fs I) : Prop :=
  1 <= length (inodes I s) /\
  (forall p n c, In (n, c) (dir_ents I s p) ->
     c < length (inodes I s) /\ c <> root_id /\ parent_of I s c = p) /\
  (forall p, NoDup (map snd (dir_ents I s p))).

Section Generic.
Variable I : FileImpl.

Lemma t_length_set_ino (s : fs I) id x : length (inodes I (set_ino I s id x)) = length (inodes I s).
Proof.
  unfold set_ino. destruct (Nat.ltb_spec id (length (inodes I s))) as [H|H]; [|reflexivity].
  cbn [inodes]. rewrite app_length. cbn [List.length]. rewrite firstn_length, skipn_length. lia.
Qed.

Lemma t_parent_of_set_ino (s : fs I) id x j :
  parent_of I (set_ino I s id x) j = if Nat.eqb j id && (id <? length (inodes I s)) then i_parent I x else parent_of I s j.
Proof. unfold parent_of. rewrite g_get_set_ino. destruct (Nat.eqb j id && (id <? length (inodes I s))); reflexivity. Qed.

Lemma t_length_set_ents (s : fs I) d e : length (inodes I (set_ents I s d e)) = length (inodes I s).
Proof. unfold set_ents. apply t_length_set_ino. Qed.
Lemma t_length_set_parent (s : fs I) id p : length (inodes I (set_parent I s id p)) = length (inodes I s).
Proof. unfold set_parent. apply t_length_set_ino. Qed.

Lemma t_dir_ents_set_ents (s : fs I) d e j :
  dir_ents I (set_ents I s d e) j = if Nat.eqb j d && (d <? length (inodes I s)) then e else dir_ents I s j.
Proof. unfold set_ents. rewrite g_dir_ents_set_ino. reflexivity. Qed.

Lemma t_parent_of_set_ents (s : fs I) d e j : parent_of I (set_ents I s d e) j = parent_of I s j.
Proof.
  unfold set_ents. rewrite t_parent_of_set_ino. cbn [i_parent].
  destruct (Nat.eqb_spec j d) as [->|]; cbn [andb]; [|reflexivity]. destruct (d <? length (inodes I s)); reflexivity.
Qed.

Lemma t_dir_ents_set_parent (s : fs I) id p j : dir_ents I (set_parent I s id p) j = dir_ents I s j.
Proof.
  unfold set_parent. rewrite g_dir_ents_set_ino. unfold node_ents. cbn [i_node].
  destruct (Nat.eqb_spec j id) as [->|]; cbn [andb]; [|reflexivity]. destruct (id <? length (inodes I s)); reflexivity.
Qed.

Lemma t_parent_of_set_parent (s : fs I) id p j :
  parent_of I (set_parent I s id p) j = if Nat.eqb j id && (id <? length (inodes I s)) then p else parent_of I s j.
Proof. unfold set_parent. rewrite t_parent_of_set_ino. reflexivity. Qed.

Lemma t_dir_ents_set_file (s : fs I) id f j :
  dir_ents I (set_file I s id f) j = if Nat.eqb j id && (id <? length (inodes I s)) then [] else dir_ents I s j.
Proof. unfold set_file. rewrite g_dir_ents_set_ino. reflexivity. Qed.

Lemma t_parent_of_set_file (s : fs I) id f j : parent_of I (set_file I s id f) j = parent_of I s j.
Proof.
  unfold set_file. rewrite t_parent_of_set_ino. cbn [i_parent].
  destruct (Nat.eqb_spec j id) as [->|]; cbn [andb]; [|reflexivity]. destruct (id <? length (inodes I s)); reflexivity.
Qed.

Lemma t_length_add_ino (s : fs I) x : length (inodes I (fst (add_ino I s x))) = S (length (inodes I s)).
Proof. unfold add_ino. cbn [fst inodes]. rewrite app_length. cbn [List.length]. lia. Qed.

Lemma t_get_add_ino (s : fs I) x j :
  get_ino I (fst (add_ino I s x)) j = if Nat.eqb j (length (inodes I s)) then x else get_ino I s j.
Proof.
  unfold add_ino, get_ino. cbn [fst inodes].
  destruct (Nat.eqb_spec j (length (inodes I s))) as [->|Hne].
  - rewrite app_nth2 by lia. rewrite Nat.sub_diag. reflexivity.
  - destruct (Nat.lt_ge_cases j (length (inodes I s))) as [Hlt|Hge].
    + apply app_nth1. exact Hlt.
    + rewrite app_nth2 by exact Hge. rewrite (nth_overflow (inodes I s)) by exact Hge.
      destruct (j - length (inodes I s)) as [|k] eqn:E; [lia|]. cbn [nth]. destruct k; reflexivity.
Qed.

(* a new node without entries leaves every entry list as it was (the slot past the end reads as an empty directory) *)
Lemma t_dir_ents_add_ino (s : fs I) x j : node_ents I x = [] -> dir_ents I (fst (add_ino I s x)) j = dir_ents I s j.
Proof.
  intros Hx. unfold dir_ents. rewrite t_get_add_ino. destruct (Nat.eqb_spec j (length (inodes I s))) as [->|]; [|reflexivity].
  unfold node_ents in Hx. rewrite Hx. unfold get_ino. rewrite nth_overflow by lia. reflexivity.
Qed.

Lemma t_parent_of_add_ino (s : fs I) x j :
  parent_of I (fst (add_ino I s x)) j = if Nat.eqb j (length (inodes I s)) then i_parent I x else parent_of I s j.
Proof. unfold parent_of. rewrite t_get_add_ino. destruct (Nat.eqb j (length (inodes I s))); reflexivity. Qed.

(* same table size, same parent pointers, every entry list a duplicate-free part of the old one *)
Lemma TreeInv_sub (s s' : fs I) : TreeInv I s ->
  length (inodes I s') = length (inodes I s) ->
  (forall j, parent_of I s' j = parent_of I s j) ->
  (forall j x, In x (dir_ents I s' j) -> In x (dir_ents I s j)) ->
  (forall j, NoDup (map snd (dir_ents I s' j))) ->
  TreeInv I s'.
Proof.
  intros (T0 & T1 & T2) Hl Hp He Hn. split; [rewrite Hl; exact T0|]. split; [|exact Hn].
  intros p n c Hin. rewrite Hl, Hp. apply (T1 p n c). apply He. exact Hin.
Qed.

Lemma TreeInv_same_inodes (s s' : fs I) : inodes I s' = inodes I s -> TreeInv I s -> TreeInv I s'.
Proof.
  intros E H. assert (Hd : forall j, dir_ents I s' j = dir_ents I s j) by (apply dir_ents_same_inodes; exact E).
  apply (TreeInv_sub s s' H).
  - rewrite E. reflexivity.
  - intros j. unfold parent_of, get_ino. rewrite E. reflexivity.
  - intros j x. rewrite Hd. auto.
  - intros j. rewrite Hd. apply H.
Qed.

Lemma TreeInv_set_handle (s : fs I) h x : TreeInv I s -> TreeInv I (set_handle I s h x).
Proof. apply TreeInv_same_inodes. apply g_inodes_set_handle. Qed.

Lemma TreeInv_add_handle (s : fs I) x : TreeInv I s -> TreeInv I (fst (add_handle I s x)).
Proof. apply TreeInv_same_inodes. reflexivity. Qed.

(* rewriting a node as a file: at most an entry list is emptied *)
Lemma TreeInv_set_file (s : fs I) id f : TreeInv I s -> TreeInv I (set_file I s id f).
Proof.
  intros H. apply (TreeInv_sub s _ H).
  - unfold set_file. apply t_length_set_ino.
  - intros j. apply t_parent_of_set_file.
  - intros j x. rewrite t_dir_ents_set_file. destruct (Nat.eqb j id && (id <? length (inodes I s))); [intros []|auto].
  - intros j. rewrite t_dir_ents_set_file. destruct (Nat.eqb j id && (id <? length (inodes I s))); [constructor|apply H].
Qed.

(* dropping an entry *)
Lemma TreeInv_del (s : fs I) d name : TreeInv I s -> TreeInv I (set_ents I s d (ents_del (dir_ents I s d) name)).
Proof.
  intros H. apply (TreeInv_sub s _ H).
  - apply t_length_set_ents.
  - intros j. apply t_parent_of_set_ents.
  - intros j x. rewrite t_dir_ents_set_ents. destruct (Nat.eqb_spec j d) as [->|]; cbn [andb]; [|auto].
    destruct (d <? length (inodes I s)); [apply ents_del_in|auto].
  - intros j. rewrite t_dir_ents_set_ents. destruct (Nat.eqb_spec j d) as [->|]; cbn [andb]; [|apply H].
    destruct (d <? length (inodes I s)); [apply ents_del_nodup|]; apply H.
Qed.

(* a new node without entries, entered into the directory its parent pointer names *)
Lemma TreeInv_add_child (s : fs I) x node name : TreeInv I s -> node_ents I x = [] -> i_parent I x = node ->
  TreeInv I (set_ents I (fst (add_ino I s x)) node (ents_put (dir_ents I (fst (add_ino I s x)) node) name (snd (add_ino I s x)))).
Proof.
  intros (T0 & T1 & T2) Hx Hp.
  set (s1 := fst (add_ino I s x)).
  assert (Hid : snd (add_ino I s x) = length (inodes I s)) by reflexivity. rewrite Hid.
  assert (Hl1 : length (inodes I s1) = S (length (inodes I s))) by apply t_length_add_ino.
  assert (Hfresh : forall j, ~ In (length (inodes I s)) (map snd (dir_ents I s j))).
  { intros j Hin. apply in_map_iff in Hin. destruct Hin as ([n c] & Ec & Hin). cbn [snd] in Ec. subst c.
    destruct (T1 j n _ Hin) as (Hlt & _). lia. }
  unfold TreeInv. rewrite t_length_set_ents, Hl1.
  split; [lia|]. split.
  - intros p n c. rewrite t_dir_ents_set_ents, t_parent_of_set_ents. unfold s1. rewrite !t_dir_ents_add_ino by exact Hx.
    rewrite t_parent_of_add_ino. fold s1.
    assert (Hold : In (n, c) (dir_ents I s p) ->
      c < S (length (inodes I s)) /\ c <> root_id /\ (if Nat.eqb c (length (inodes I s)) then i_parent I x else parent_of I s c) = p).
    { intros Hin. destruct (T1 p n c Hin) as (Hlt & Hnr & Hpar). split; [lia|]. split; [exact Hnr|].
      destruct (Nat.eqb_spec c (length (inodes I s))); [lia|exact Hpar]. }
    destruct (Nat.eqb_spec p node) as [->|]; cbn [andb]; [|exact Hold].
    destruct (node <? length (inodes I s1)); [|exact Hold].
    intros Hin. apply ents_put_in in Hin. destruct Hin as [E|Hin]; [|exact (Hold Hin)].
    inversion E; subst. rewrite Nat.eqb_refl. split; [lia|]. split; [unfold root_id; lia|reflexivity].
  - intros p. rewrite t_dir_ents_set_ents. unfold s1. rewrite !t_dir_ents_add_ino by exact Hx. fold s1.
    destruct (Nat.eqb p node && (node <? length (inodes I s1))); [|apply T2].
    apply ents_put_nodup; [apply T2|apply Hfresh].
Qed.

Lemma TreeInv_init_gen : TreeInv I (fs_init I).
Proof.
  assert (Hd : forall j, dir_ents I (fs_init I) j = []).
  { intros j. unfold dir_ents, get_ino, fs_init. cbn [inodes]. destruct j as [|[|j]]; reflexivity. }
  split; [cbn; lia|]. split.
  - intros p n c. rewrite Hd. intros [].
  - intros p. rewrite Hd. constructor.
Qed.

(* only slots inside the table have entries *)
Lemma t_ents_inside (s : fs I) j x : In x (dir_ents I s j) -> j < length (inodes I s).
Proof.
  intros H. destruct (Nat.lt_ge_cases j (length (inodes I s))) as [Hlt|Hge]; [exact Hlt|].
  unfold dir_ents, get_ino in H. rewrite nth_overflow in H by exact Hge. destruct H.
Qed.

(* the table after the three updates of a successful rename *)
Lemma t_move_shape (s : fs I) od nd oldname newname oi :
  od < length (inodes I s) -> oi < length (inodes I s) ->
  let s1 := set_ents I s nd (ents_put (dir_ents I s nd) newname oi) in
  let s2 := set_parent I s1 oi nd in
  let s3 := set_ents I s2 od (ents_del (dir_ents I s2 od) oldname) in
  length (inodes I s3) = length (inodes I s) /\
  (forall j, parent_of I s3 j = if Nat.eqb j oi then nd else parent_of I s j) /\
  (forall j, dir_ents I s3 j =
     if Nat.eqb j od
     then ents_del (if Nat.eqb od nd && (nd <? length (inodes I s)) then ents_put (dir_ents I s nd) newname oi
                    else dir_ents I s od) oldname
     else if Nat.eqb j nd && (nd <? length (inodes I s)) then ents_put (dir_ents I s nd) newname oi
     else dir_ents I s j).
Proof.
  intros Hod Hoi s1 s2 s3.
  assert (L1 : length (inodes I s1) = length (inodes I s)) by apply t_length_set_ents.
  assert (L2 : length (inodes I s2) = length (inodes I s)) by (unfold s2; rewrite t_length_set_parent; exact L1).
  assert (Hodb : (od <? length (inodes I s)) = true) by (apply Nat.ltb_lt; exact Hod).
  assert (Hoib : (oi <? length (inodes I s)) = true) by (apply Nat.ltb_lt; exact Hoi).
  split; [unfold s3; rewrite t_length_set_ents; exact L2|]. split.
  - intros j. unfold s3. rewrite t_parent_of_set_ents. unfold s2. rewrite t_parent_of_set_parent, L1, Hoib, andb_true_r.
    unfold s1. rewrite t_parent_of_set_ents. reflexivity.
  - assert (D2 : forall j, dir_ents I s2 j =
        if Nat.eqb j nd && (nd <? length (inodes I s)) then ents_put (dir_ents I s nd) newname oi else dir_ents I s j).
    { intros j. unfold s2. rewrite t_dir_ents_set_parent. unfold s1. apply t_dir_ents_set_ents. }
    intros j. unfold s3. rewrite t_dir_ents_set_ents, L2, Hodb, andb_true_r, !D2. reflexivity.
Qed.

Lemma TreeInv_move (s : fs I) od nd oldname newname oi : TreeInv I s ->
  ents_find (dir_ents I s od) oldname = Some oi ->
  Nat.eqb nd od && String.eqb newname oldname = false ->
  TreeInv I (set_ents I (set_parent I (set_ents I s nd (ents_put (dir_ents I s nd) newname oi)) oi nd) od
     (ents_del (dir_ents I (set_parent I (set_ents I s nd (ents_put (dir_ents I s nd) newname oi)) oi nd) od) oldname)).
Proof.
  intros (T0 & T1 & T2) Hf Hne.
  pose proof (ents_find_in _ _ _ Hf) as Hin_oi.
  assert (Hod : od < length (inodes I s)) by (eapply t_ents_inside; exact Hin_oi).
  destruct (T1 od oldname oi Hin_oi) as (Hoi & Hoi_nr & Hoi_par).
  destruct (t_move_shape s od nd oldname newname oi Hod Hoi) as (SL & SP & SD). cbn zeta in SL, SP, SD.
  unfold TreeInv. rewrite SL. split; [exact T0|].
  destruct (Nat.eqb_spec nd od) as [Eno|Nno].
  - (* inside one directory: parent pointers stay, one list changes *)
    subst nd. cbn [andb] in Hne.
    assert (Hodb : (od <? length (inodes I s)) = true) by (apply Nat.ltb_lt; exact Hod).
    assert (SP' : forall j, parent_of I s j = if Nat.eqb j oi then od else parent_of I s j).
    { intros j. destruct (Nat.eqb_spec j oi) as [->|]; [exact Hoi_par|reflexivity]. }
    split.
    + intros p n c. rewrite SP, <- SP', SD, Nat.eqb_refl, Hodb. cbn [andb].
      destruct (Nat.eqb_spec p od) as [->|_]; [|apply T1].
      intros Hin. apply ents_del_in in Hin. apply ents_put_in in Hin. destruct Hin as [E|Hin]; [|exact (T1 od n c Hin)].
      inversion E; subst. auto.
    + intros p. rewrite SD, Nat.eqb_refl, Hodb. cbn [andb].
      destruct (Nat.eqb p od); [|apply T2]. apply ents_move_nodup; [apply T2|exact Hf|exact Hne].
  - (* from one directory into another *)
    assert (Hb : Nat.eqb od nd = false) by (apply Nat.eqb_neq; intros E; apply Nno; symmetry; exact E).
    assert (Helse : forall j n c, j <> od -> In (n, c) (dir_ents I s j) -> c <> oi).
    { intros j n c Hj Hin E. subst c. destruct (T1 j n oi Hin) as (_ & _ & Hp). rewrite Hoi_par in Hp. apply Hj. symmetry. exact Hp. }
    assert (Hold : forall j n c, In (n, c) (dir_ents I s j) -> c <> oi ->
       c < length (inodes I s) /\ c <> root_id /\ (if Nat.eqb c oi then nd else parent_of I s c) = j).
    { intros j n c Hin Hc. destruct (Nat.eqb_spec c oi); [contradiction|]. apply (T1 j n c Hin). }
    split.
    + intros p n c. rewrite SP, SD, Hb. cbn [andb].
      destruct (Nat.eqb_spec p od) as [->|Npo].
      * intros Hin. assert (Hc : c <> oi).
        { intros E. subst c. apply (ents_del_gone _ _ _ (T2 od) Hf). apply in_map_iff. exists (n, oi). split; [reflexivity|exact Hin]. }
        apply ents_del_in in Hin. exact (Hold od n c Hin Hc).
      * destruct (Nat.eqb_spec p nd) as [->|Npn]; cbn [andb].
        -- destruct (nd <? length (inodes I s)).
           ++ intros Hin. apply ents_put_in in Hin. destruct Hin as [E|Hin].
              ** inversion E; subst. rewrite Nat.eqb_refl. auto.
              ** apply (Hold nd n c Hin). eapply Helse; [exact Npo|exact Hin].
           ++ intros Hin. apply (Hold nd n c Hin). eapply Helse; [exact Npo|exact Hin].
        -- intros Hin. apply (Hold p n c Hin). eapply Helse; [exact Npo|exact Hin].
    + intros p. rewrite SD, Hb. cbn [andb].
      destruct (Nat.eqb_spec p od) as [->|Npo]; [apply ents_del_nodup; apply T2|].
      destruct (Nat.eqb_spec p nd) as [->|Npn]; cbn [andb]; [|apply T2].
      destruct (nd <? length (inodes I s)); [|apply T2].
      apply ents_put_nodup; [apply T2|]. intros Hin. apply in_map_iff in Hin. destruct Hin as ([n c] & Ec & Hin). cbn [snd] in Ec. subst c.
      exact (Helse nd n oi Npo Hin eq_refl).
Qed.

(* ---------- the operations ---------- *)
Lemma open_file_TreeInv (s : fs I) name fl : TreeInv I s -> TreeInv I (fst (open_file I s name fl)).
Proof.
  intros H. unfold open_file. destruct (o_sync fl); [exact H|].
  destruct (path_split name) as [dirname base] eqn:Eps.
  destruct (rlookup I s dirname) as [parent|e]; [|exact H].
  destruct (o_acc fl =? 3); [exact H|].
  destruct (negb _ && is_dir I s parent && ((base =? ".")%string || (base =? "")%string)).
  { apply (TreeInv_add_handle s). exact H. }
  destruct (negb _ && is_dir I s parent && (base =? "..")%string).
  { apply (TreeInv_add_handle s). exact H. }
  destruct (child I s parent base) as [[n|]|e] eqn:Ech; [| |exact H].
  - destruct (o_excl fl); [exact H|]. destruct (o_trunc fl).
    + destruct (negb _); [exact H|]. destruct (i_node I (get_ino I s n)) as [f|e]; [|exact H].
      apply (TreeInv_add_handle (set_file I s n (f_trunc I f 0))). apply TreeInv_set_file. exact H.
    + apply (TreeInv_add_handle s). exact H.
  - destruct (o_create fl); cbn [negb]; [|exact H].
    pose proof (TreeInv_add_child s {| i_node := IFile (f_empty I); i_parent := parent |} parent base H eq_refl eq_refl) as H2.
    destruct (add_ino I s {| i_node := IFile (f_empty I); i_parent := parent |}) as [s1 id]. cbn [fst snd] in H2.
    match goal with |- context [add_handle I ?s2 ?x] => apply (TreeInv_add_handle s2 x) end. exact H2.
Qed.

Lemma mkdir_TreeInv (s : fs I) name : TreeInv I s -> TreeInv I (fst (mkdir I s name)).
Proof.
  intros H. unfold mkdir. destruct (path_split name) as [dirname base] eqn:Eps.
  destruct (rlookup I s dirname) as [n|e]; [|exact H].
  destruct (child I s n base) as [[c|]|e] eqn:Ech; [exact H| |exact H].
  pose proof (TreeInv_add_child s {| i_node := IDir []; i_parent := n |} n base H eq_refl eq_refl) as H2.
  destruct (add_ino I s {| i_node := IDir []; i_parent := n |}) as [s1 id]. cbn [fst snd] in H2 |- *. exact H2.
Qed.

(* the [locked] test plays no part: whatever it lets through keeps the invariant *)
Lemma rename_TreeInv (s : fs I) a b : TreeInv I s -> TreeInv I (fst (rename I s a b)).
Proof.
  intros H. unfold rename. destruct (path_split a) as [olddir oldname] eqn:Ea.
  destruct (special_name oldname) eqn:Eso; [exact H|].
  destruct (rlookup I s olddir) as [od|e]; [|exact H].
  destruct (path_split b) as [newdir newname0] eqn:Eb.
  destruct ((newname0 =? ".")%string || (newname0 =? "..")%string) eqn:Edots; [exact H|].
  destruct (rlookup I s newdir) as [nd|e]; [|exact H].
  set (newname := if (newname0 =? "")%string then oldname else newname0).
  destruct (ents_find (dir_ents I s od) oldname) as [oi|] eqn:Ef; [|exact H].
  destruct (mem_nat oi _); [exact H|].
  destruct (Nat.eqb nd od && (newname =? oldname)%string) eqn:Esame; [exact H|].
  pose proof (TreeInv_move s od nd oldname newname oi H Ef Esame) as Hmove.
  destruct (ents_find (dir_ents I s nd) newname) as [ex|].
  - destruct (is_dir I s ex); [exact H|exact Hmove].
  - exact Hmove.
Qed.

Lemma remove_TreeInv (s : fs I) name : TreeInv I s -> TreeInv I (fst (remove I s name)).
Proof.
  intros H. unfold remove. destruct (path_split (trim_right_slash name)) as [dirname base].
  destruct (special_name base); [exact H|].
  destruct (rlookup I s dirname) as [d|e]; [|exact H].
  destruct (i_node I (get_ino I s d)) as [f|ents] eqn:Ed; [exact H|].
  destruct (ents_find ents base) as [n|]; [|exact H].
  destruct (is_dir I s n && negb (length (dir_ents I s n) =? 0)); [exact H|].
  cbn [fst]. assert (E : ents = dir_ents I s d) by (unfold dir_ents; rewrite Ed; reflexivity).
  rewrite E. apply TreeInv_del. exact H.
Qed.

Lemma h_read_TreeInv (s : fs I) h n : TreeInv I s -> TreeInv I (fst (h_read I s h n)).
Proof.
  intros H. unfold h_read. destruct (get_handle I s h) as [x|]; [|exact H].
  destruct (negb (h_r I x)); [exact H|].
  destruct (i_node I (get_ino I s (h_ino I x))) as [f|e].
  - destruct (f_read I f n (h_ptr I x)) as [[d p'] eof]. cbn [fst]. apply TreeInv_set_handle. exact H.
  - cbn [fst]. apply TreeInv_set_handle. exact H.
Qed.

Lemma h_seek_TreeInv (s : fs I) h o neg wh : TreeInv I s -> TreeInv I (fst (h_seek I s h o neg wh)).
Proof.
  intros H. unfold h_seek. destruct (get_handle I s h) as [x|]; [|exact H].
  destruct (neg && _); [exact H|]. destruct (_ =? p_off I (h_ptr I x)); [exact H|].
  cbn [fst]. apply TreeInv_set_handle. exact H.
Qed.

Lemma h_write_TreeInv (s : fs I) h data : TreeInv I s -> TreeInv I (fst (h_write I s h data)).
Proof.
  intros H. unfold h_write. destruct (get_handle I s h) as [x|]; [|exact H].
  destruct (negb (h_w I x)); [exact H|].
  destruct (i_node I (get_ino I s (h_ino I x))) as [f|e].
  - destruct (f_write I f _ data) as [f' p']. cbn [fst]. apply TreeInv_set_handle. apply TreeInv_set_file. exact H.
  - cbn [fst]. apply TreeInv_set_handle. exact H.
Qed.

Lemma h_trunc_TreeInv (s : fs I) h n : TreeInv I s -> TreeInv I (fst (h_trunc I s h n)).
Proof.
  intros H. unfold h_trunc. destruct (get_handle I s h) as [x|]; [|exact H].
  destruct (i_node I (get_ino I s (h_ino I x))) as [f|e]; [|exact H].
  cbn [fst]. apply TreeInv_set_file. exact H.
Qed.

Theorem step_TreeInv_gen (s : fs I) o : TreeInv I s -> TreeInv I (fst (step I s o)).
Proof.
  intros H. destruct o; cbn [step].
  - pose proof (open_file_TreeInv s name fl H) as H1. destruct (open_file I s name fl) as [s' [r|e]]; exact H1.
  - pose proof (h_read_TreeInv s h n H) as H1. destruct (h_read I s h n) as [s' [[d eof]|e]]; exact H1.
  - pose proof (h_write_TreeInv s h data H) as H1. destruct (h_write I s h data) as [s' [r|e]]; exact H1.
  - pose proof (h_seek_TreeInv s h off neg whence H) as H1. destruct (h_seek I s h off neg whence) as [s' [r|e]]; exact H1.
  - pose proof (h_trunc_TreeInv s h size H) as H1. destruct (h_trunc I s h size) as [s' [r|e]]; exact H1.
  - destruct (h_stat I s h) as [[d n]|e]; exact H.
  - destruct (h_readdir I s h) as [l|e]; exact H.
  - pose proof (mkdir_TreeInv s name H) as H1. destruct (mkdir I s name) as [s' [r|e]]; exact H1.
  - pose proof (rename_TreeInv s a b H) as H1. destruct (rename I s a b) as [s' [r|e]]; exact H1.
  - pose proof (remove_TreeInv s name H) as H1. destruct (remove I s name) as [s' [r|e]]; exact H1.
  - destruct (stat I s name) as [[d n]|e]; exact H.
Qed.

End Generic.

Theorem step_TreeInv : forall I s o, TreeInv I s -> TreeInv I (fst (step I s o)).
Proof. exact step_TreeInv_gen. Qed.

Theorem TreeInv_init : forall I, TreeInv I (fs_init I).
Proof. exact TreeInv_init_gen. Qed.

Theorem run_TreeInv : forall I ops s, TreeInv I s -> TreeInv I (fg_final I s ops).
Proof.
  intros I. induction ops as [|o r IH]; intros s H; cbn [fg_final]; [exact H|].
  apply IH. apply step_TreeInv. exact H.
Qed.

(* ---------- D2: below the root, entries form a tree no deeper than the table ---------- *)
Section Depth.
Variable I : FileImpl.

(* d, then its parent, ... ending at the root: [path] lists the proper ancestors of d, nearest first *)
Fixpoint upchain (s : fs I) (d : nat) (path : list nat) : Prop :=
  match path with
  | [] => d = root_id
  | p :: r => d <> root_id /\ parent_of I s d = p /\ upchain s p r
  end.

Lemma upchain_det (s : fs I) : forall l1 l2 d, upchain s d l1 -> upchain s d l2 -> l1 = l2.
Proof.
  induction l1 as [|p r IH]; intros l2 d H1 H2; destruct l2 as [|p2 r2]; cbn [upchain] in H1, H2.
  - reflexivity.
  - destruct H2 as (Hn & _). contradiction.
  - destruct H1 as (Hn & _). contradiction.
  - destruct H1 as (_ & E1 & C1). destruct H2 as (_ & E2 & C2). rewrite E1 in E2. subst p2.
    f_equal. exact (IH r2 p C1 C2).
Qed.

Lemma upchain_suffix (s : fs I) : forall l1 d y l2, upchain s d (l1 ++ y :: l2) -> upchain s y l2.
Proof.
  induction l1 as [|p r IH]; intros d y l2 H; cbn [app upchain] in H.
  - destruct H as (_ & _ & H). exact H.
  - destruct H as (_ & _ & H). exact (IH p y l2 H).
Qed.

Lemma upchain_notin (s : fs I) d l : upchain s d l -> ~ In d l.
Proof.
  intros H Hin. apply in_split in Hin. destruct Hin as (l1 & l2 & E). subst l.
  pose proof (upchain_suffix s l1 d d l2 H) as H2.
  pose proof (upchain_det s _ _ d H H2) as E.
  apply (f_equal (@List.length nat)) in E. rewrite app_length in E. cbn [List.length] in E. lia.
Qed.

Lemma upchain_nodup (s : fs I) : forall l d, upchain s d l -> NoDup (d :: l).
Proof.
  induction l as [|p r IH]; intros d H.
  - constructor; [intros []|constructor].
  - constructor; [exact (upchain_notin s d _ H)|]. destruct H as (_ & _ & H). exact (IH p H).
Qed.

(* the pigeonhole: a chain inside the table is not longer than the table *)
Lemma upchain_short (s : fs I) d l n : upchain s d l -> (forall x, In x (d :: l) -> x < n) -> S (length l) <= n.
Proof.
  intros H Hb. pose proof (upchain_nodup s l d H) as Hnd.
  assert (Hincl : incl (d :: l) (seq 0 n)).
  { intros x Hx. apply in_seq. specialize (Hb x Hx). lia. }
  pose proof (NoDup_incl_length Hnd Hincl) as Hlen. rewrite seq_length in Hlen. exact Hlen.
Qed.

End Depth.

Lemma deep_ok_chain mb (s : fs (Conc mb)) : TreeInv (Conc mb) s ->
  forall fuel d path, upchain (Conc mb) s d path ->
  (forall x, In x (d :: path) -> x < length (inodes (Conc mb) s)) ->
  length (inodes (Conc mb) s) <= fuel + length path ->
  deep_ok mb fuel s d = true.
Proof.
  intros (T0 & T1 & T2). induction fuel as [|f IH]; intros d path Hc Hb Hlen.
  - pose proof (upchain_short (Conc mb) s d path _ Hc Hb). lia.
  - cbn [deep_ok]. apply forallb_forall. intros [n c] Hin. cbn [snd].
    destruct (is_dir (Conc mb) s c); [|reflexivity].
    destruct (T1 d n c Hin) as (Hlt & Hnr & Hpar).
    apply (IH c (d :: path)).
    + cbn [upchain]. split; [exact Hnr|]. split; [exact Hpar|exact Hc].
    + intros x [<-|Hx]; [exact Hlt|exact (Hb x Hx)].
    + cbn [List.length]. lia.
Qed.

Theorem treeinv_deep_ok : forall mb s, TreeInv (Conc mb) s ->
  deep_ok mb (length (inodes (Conc mb) s)) s root_id = true.
Proof.
  intros mb s H. apply (deep_ok_chain mb s H _ root_id []).
  - reflexivity.
  - intros x [<-|[]]. destruct H as (T0 & _). unfold root_id. lia.
  - lia.
Qed.
(* ---------- D3: the background-write layer only rewrites file nodes and handles ---------- *)
Section BGInv.
Variable mb : nat.
Notation C := (Conc mb).
Notation OKst st := (TreeInv C (fsys mb st)).



Lemma set_seg_at_TreeInv (s : fs C) fid i x : TreeInv C s -> TreeInv C (set_seg_at mb s fid i x).
Proof.
  intros H. unfold set_seg_at. destruct (i_node C (get_ino C s fid)) as [fn|e]; [|exact H].
  apply (TreeInv_set_file C). exact H.
Qed.

Lemma install_ref_TreeInv q loc (s : fs C) r : TreeInv C s -> TreeInv C (install_ref mb q loc s r).
Proof.
  intros H. unfold install_ref. destruct (i_node C (get_ino C s (r_file r))) as [fn|e]; [|exact H].
  destruct (length (segs fn) <=? r_idx r); [exact H|].
  destruct (nthseg (segs fn) (r_idx r)) as [b [t|]|b l z o]; try exact H.
  destruct (Nat.eqb t (r_tok r) && _); [|exact H]. apply (TreeInv_set_file C). exact H.
Qed.

Lemma complete_TreeInv st id : OKst st -> OKst (complete mb st id).
Proof.
  intros H. unfold complete. destruct (take_pend (pends mb st) id) as [[q rest]|]; [|exact H].
  destruct (q_ok q); cbn [fsys]; [|exact H].
  apply (fold_left_inv (TreeInv C)); [|exact H]. intros s r Hs. apply install_ref_TreeInv. exact Hs.
Qed.

Lemma complete_data_TreeInv st d : OKst st -> OKst (complete_data mb st d).
Proof.
  intros H. unfold complete_data.
  apply (fold_left_inv (fun st => OKst st)); [|exact H].
  intros s q Hs. destruct (bytes_eqb (q_data q) d); [apply complete_TreeInv; exact Hs|exact Hs].
Qed.

Lemma assign_tokens_TreeInv sync : forall refs st boff acc,
  OKst st -> OKst (fst (assign_tokens mb sync refs st boff acc)).
Proof.
  induction refs as [|[fid i] r IH]; intros st boff acc H; cbn [assign_tokens]; [exact H|].
  destruct (negb (i <? length (file_segs mb (fsys mb st) fid))); [exact H|].
  destruct (seg_at mb (fsys mb st) fid i) as [b tok|b l z o]; [|exact H].
  destruct (negb sync && _); [exact H|].
  apply IH. cbn [fsys]. apply set_seg_at_TreeInv. exact H.
Qed.

Lemma commit_async_TreeInv st refs : OKst st -> OKst (commit_async mb st refs).
Proof.
  intros H. unfold commit_async. destruct refs as [|r0 refs]; [exact H|].
  pose proof (assign_tokens_TreeInv false (r0 :: refs) st 0 [] H) as H1.
  destruct (assign_tokens mb false (r0 :: refs) st 0 []) as [st1 [[prs n]|]]; cbn [fst fsys] in *; exact H1.
Qed.

Lemma install_sync_TreeInv loc bsz (s : fs C) r : TreeInv C s -> TreeInv C (install_sync mb loc bsz s r).
Proof.
  intros H. unfold install_sync. destruct (seg_at mb s (r_file r) (r_idx r)); [|exact H].
  apply set_seg_at_TreeInv. exact H.
Qed.

Lemma commit_sync_TreeInv st refs : OKst st -> OKst (fst (commit_sync mb st refs)).
Proof.
  intros H. unfold commit_sync. destruct refs as [|r0 refs]; [exact H|].
  pose proof (assign_tokens_TreeInv true (r0 :: refs) st 0 [] H) as H1.
  destruct (assign_tokens mb true (r0 :: refs) st 0 []) as [st1 [[prs n]|]]; cbn [fst fsys] in *; [|exact H1].
  destruct (put_fails _ _); cbn [fst fsys]; [exact H1|].
  apply (fold_left_inv (TreeInv C)); [|exact H1]. intros s r Hs. apply install_sync_TreeInv. exact Hs.
Qed.

Lemma commit_any_TreeInv (sync : bool) st refs : OKst st ->
  OKst (fst (if sync then commit_sync mb st refs else (commit_async mb st refs, true))).
Proof.
  intros H. destruct sync; [apply commit_sync_TreeInv; exact H|cbn [fst]; apply commit_async_TreeInv; exact H].
Qed.

Lemma flush_segs_TreeInv sync fid : forall l i st ok pending plen, OKst st ->
  OKst (fst (fst (fst (flush_segs mb sync fid i l st ok pending plen)))).
Proof.
  induction l as [|sg l IH]; intros i st ok pending plen H; cbn [flush_segs]; [exact H|].
  destruct sg as [b t|b lo z o]; [|apply IH; exact H].
  destruct (mb / 2 <? length b).
  - pose proof (commit_any_TreeInv sync st [(fid, i)] H) as H1.
    destruct (if sync then commit_sync mb st [(fid, i)] else (commit_async mb st [(fid, i)], true)) as [st1 ok1].
    apply IH. exact H1.
  - destruct (mb <? plen + length b).
    + pose proof (commit_any_TreeInv sync st pending H) as H1.
      destruct (if sync then commit_sync mb st pending else (commit_async mb st pending, true)) as [st1 ok1].
      apply IH. exact H1.
    + apply IH. exact H.
Qed.

Lemma flush_dir_TreeInv : forall fuel sync short recursive st d, OKst st ->
  OKst (fst (flush_dir mb fuel sync short recursive st d)).
Proof.
  induction fuel as [|fuel IH]; intros sync short recursive st d H; cbn [flush_dir]; [exact H|].
  match goal with |- context [fold_left ?f ?l ?a] =>
    assert (HF : OKst (fst (fst (fst (fold_left f l a))))) end.
  { apply (fold_left_inv (fun acc : bst mb * bool * list (nat * nat) * nat => OKst (fst (fst (fst acc))))); [|exact H].
    intros [[[st0 ok0] pending] plen] e Hacc. cbn [fst] in Hacc.
    destruct (is_dir C (fsys mb st0) (snd e)).
    - destruct recursive; [|exact Hacc].
      pose proof (IH sync short true st0 (snd e) Hacc) as H1.
      destruct (flush_dir mb fuel sync short true st0 (snd e)) as [st1 ok1]. exact H1.
    - apply flush_segs_TreeInv. exact Hacc. }
  match goal with |- context [fold_left ?f ?l ?a] => destruct (fold_left f l a) as [[[st1 ok1] pending] plen] end.
  cbn [fst] in HF. destruct short; [|exact HF].
  pose proof (commit_any_TreeInv sync st1 pending HF) as H2.
  destruct (if sync then commit_sync mb st1 pending else (commit_async mb st1 pending, true)) as [st2 ok2]. exact H2.
Qed.

Lemma b_flush_TreeInv st path short : OKst st -> OKst (fst (b_flush mb st path short)).
Proof.
  intros H. unfold b_flush. destruct (rlookup C (fsys mb st) path) as [d|e]; [|exact H].
  destruct (negb (is_dir C (fsys mb st) d)); [exact H|].
  pose proof (flush_dir_TreeInv (length (inodes C (fsys mb st))) false short (String.eqb path "") st d H) as H1.
  destruct (flush_dir mb (length (inodes C (fsys mb st))) false short (String.eqb path "") st d) as [st1 ok]. exact H1.
Qed.

Lemma b_marshal_TreeInv tab st : OKst st -> OKst (fst (b_marshal mb tab st)).
Proof.
  intros H. unfold b_marshal.
  pose proof (flush_dir_TreeInv (length (inodes C (fsys mb st))) true true true st root_id H) as H1.
  destruct (flush_dir mb (length (inodes C (fsys mb st))) true true true st root_id) as [st1 ok].
  destruct ok; exact H1.
Qed.

Lemma b_write_TreeInv st h data : OKst st -> OKst (fst (b_write mb st h data)).
Proof.
  intros H. unfold b_write. destruct (get_handle C (fsys mb st) h) as [x|]; [|exact H].
  destruct (negb (h_w C x)); [exact H|].
  destruct (i_node C (get_ino C (fsys mb st) (h_ino C x))) as [f|e].
  - destruct (bfn_write mb (h_ino C x) f _ data st) as [[f' p'] st']. cbn [fst with_fs fsys].
    apply (TreeInv_set_handle C). apply (TreeInv_set_file C). exact H.
  - cbn [fst with_fs fsys]. apply (TreeInv_set_handle C). exact H.
Qed.

Theorem bexec_TreeInv tab st e : OKst st -> OKst (fst (bexec mb tab st e)).
Proof.
  intros H. destruct e as [o v|p sh v|v|d|m]; cbn [bexec].
  - assert (Hstep : forall o', OKst (fst (let '(s', v') := step C (fsys mb st) o' in (with_fs mb st s', OObs v')))).
    { intros o'. pose proof (step_TreeInv C (fsys mb st) o' H) as H1. destruct (step C (fsys mb st) o') as [s' v']. exact H1. }
    destruct o; try apply Hstep.
    pose proof (b_write_TreeInv st h data H) as H1. destruct (b_write mb st h data) as [st' [n|x]]; exact H1.
  - pose proof (b_flush_TreeInv st p sh H) as H1. destruct (b_flush mb st p sh) as [st' [u|x]]; exact H1.
  - pose proof (b_marshal_TreeInv tab st H) as H1. destruct (b_marshal mb tab st) as [st' [t|x]]; exact H1.
  - cbn [fst]. apply complete_data_TreeInv. exact H.
  - exact H.
Qed.

Theorem bfinal_TreeInv tab : forall es st, OKst st -> OKst (bfinal mb tab st es).
Proof.
  induction es as [|e r IH]; intros st H; cbn [bfinal]; [exact H|]. apply IH. apply bexec_TreeInv. exact H.
Qed.

End BGInv.

Theorem bg_history_TreeInv : forall mb, 1 <= mb -> forall tab s0 es,
  TreeInv (Conc mb) s0 -> TreeInv (Conc mb) (fsys mb (bfinal mb tab (binit mb tab s0) es)).
Proof. intros mb _ tab s0 es H. apply bfinal_TreeInv. exact H. Qed.


(* ---------- D3: the manifest loader only adds new leaves below existing directories ---------- *)
Section LoadInv.
Variable mb : nat.
Notation C := (Conc mb).

Lemma mkdirs_TreeInv : forall names (s : fs C) node s' n',
  TreeInv C s -> mkdirs mb s node names = Ok (s', n') -> TreeInv C s'.
Proof.
  induction names as [|name r IH]; intros s node s' n' H; cbn [mkdirs].
  - intros E; inversion E; subst; exact H.
  - destruct (String.eqb name "" || String.eqb name "."); [apply IH; assumption|].
    destruct (String.eqb name "..").
    + destruct (Nat.eqb node root_id); [discriminate|]. apply IH; assumption.
    + destruct (i_node C (get_ino C s node)) as [f|ents]; [discriminate|].
      destruct (ents_find ents name) as [c|].
      * destruct (is_dir C s c); [|discriminate]. apply IH; assumption.
      * pose proof (TreeInv_add_child C s {| i_node := IDir []; i_parent := node |} node name H eq_refl eq_refl) as H2.
        destruct (add_ino C s {| i_node := IDir []; i_parent := node |}) as [s1 id]. cbn [fst snd] in H2.
        apply IH. exact H2.
Qed.





Lemma create_file_TreeInv (s : fs C) path s' r :
  TreeInv C s -> create_file_and_parents mb s path = Ok (s', r) -> TreeInv C s'.
Proof.
  intros H. unfold create_file_and_parents.
  destruct (mkdirs mb s root_id (removelast (split_slash path))) as [[s1 node]|e] eqn:Em; [|discriminate].
  assert (H1 : TreeInv C s1) by (eapply mkdirs_TreeInv; [exact H|exact Em]).
  destruct (String.eqb (last (split_slash path) "") "."); [intros E; inversion E; subst; exact H1|].
  destruct (special_name (last (split_slash path) "")); [discriminate|].
  destruct (i_node C (get_ino C s1 node)) as [f|ents]; [discriminate|].
  destruct (ents_find ents (last (split_slash path) "")) as [c|].
  - destruct (is_dir C s1 c); [discriminate|]. intros E; inversion E; subst; exact H1.
  - pose proof (TreeInv_add_child C s1 {| i_node := IFile (I := C) f_new; i_parent := node |} node
                  (last (split_slash path) "") H1 eq_refl eq_refl) as H2.
    destruct (add_ino C s1 {| i_node := IFile (I := C) f_new; i_parent := node |}) as [s2 id]. cbn [fst snd] in H2.
    intros E; inversion E; subst. exact H2.
Qed.

Lemma load_tokens_TreeInv tab : forall toks dirname (s : fs C) bl anyfile segIdx pos s' af nb,
  TreeInv C s -> load_tokens mb tab dirname toks s bl anyfile segIdx pos = Ok (s', af, nb) -> TreeInv C s'.
Proof.
  induction toks as [|t toks IH]; intros dirname s bl anyfile segIdx pos s' af nb H; cbn [load_tokens].
  - intros E; inversion E; subst; exact H.
  - destruct (classify tab t) as [b|offset len nm|]; [| |discriminate].
    + destruct anyfile; [discriminate|]. apply IH. exact H.
    + destruct bl as [|b0 bl0] eqn:Ebl; [discriminate|]. rewrite <- Ebl.
      destruct (create_file_and_parents mb s (dirname ++ "/" ++ manifest_unescape nm)%string) as [[s1 [fid|]]|e] eqn:Ecf; [| |discriminate].
      * pose proof (create_file_TreeInv _ _ _ _ H Ecf) as H1.
        destruct (if offset <? pos then (0, 0) else (segIdx, pos)) as [si p0].
        destruct (map_range (S (length bl)) bl si p0 offset len []) as [[[si' p'] sgs]|]; [|discriminate].
        destruct (i_node C (get_ino C s1 fid)) as [fn|e]; [|discriminate].
        apply IH. apply (TreeInv_set_file C). exact H1.
      * destruct (Nat.eqb len 0); [|discriminate]. apply IH. eapply create_file_TreeInv; eassumption.
Qed.

Lemma load_streams_TreeInv tab : forall streams (s s' : fs C),
  TreeInv C s -> load_streams mb tab streams s = Ok s' -> TreeInv C s'.
Proof.
  induction streams as [|st r IH]; intros s s' H; cbn [load_streams]; [intros E; inversion E; subst; exact H|].
  destruct (split_char " "%char st) as [|d toks]; [discriminate|].
  destruct (load_tokens mb tab (manifest_unescape d) toks s [] false 0 0) as [[[s1 af] nb]|e] eqn:El; [|discriminate].
  destruct (negb af || Nat.eqb nb 0 || String.eqb (manifest_unescape d) ""); [discriminate|].
  apply IH. eapply load_tokens_TreeInv; eassumption.
Qed.

End LoadInv.

Theorem b_load_TreeInv : forall mb tab txt s, b_load mb tab txt = Ok s -> TreeInv (Conc mb) s.
Proof.
  intros mb tab txt s. unfold b_load. destruct (negb _); [discriminate|]. intros E.
  eapply load_streams_TreeInv; [|exact E]. apply TreeInv_init.
Qed.

(* a loaded (or empty) collection followed by any event history *)
Corollary loaded_history_TreeInv : forall mb, 1 <= mb -> forall tab txt s0 es,
  load_or_empty mb tab txt = Some s0 -> TreeInv (Conc mb) (fsys mb (bfinal mb tab (binit mb tab s0) es)).
Proof.
  intros mb Hmb tab txt s0 es. unfold load_or_empty. intros E. apply bg_history_TreeInv; [exact Hmb|].
  destruct (String.eqb txt ""); [inversion E; apply TreeInv_init|].
  destruct (b_load mb tab txt) as [s|e] eqn:El; [|discriminate]. inversion E; subst. eapply b_load_TreeInv; exact El.
Qed.

(* ---------- D3: the recursion bound of marshalling holds after every history ---------- *)
Theorem bg_history_deep_ok : forall mb, 1 <= mb -> forall tab es,
  let s := fsys mb (bfinal mb tab (binit mb tab (fs_init (Conc mb))) es) in
  deep_ok mb (length (inodes (Conc mb) s)) s root_id = true.
Proof.
  intros mb Hmb tab es s. apply treeinv_deep_ok. unfold s. apply bg_history_TreeInv; [exact Hmb|]. apply TreeInv_init.
Qed.

Theorem loaded_history_deep_ok : forall mb, 1 <= mb -> forall tab txt s0 es,
  b_load mb tab txt = Ok s0 ->
  let s := fsys mb (bfinal mb tab (binit mb tab s0) es) in
  deep_ok mb (length (inodes (Conc mb) s)) s root_id = true.
Proof.
  intros mb Hmb tab txt s0 es Hl s. apply treeinv_deep_ok. unfold s. apply bg_history_TreeInv; [exact Hmb|].
  eapply b_load_TreeInv. exact Hl.
Qed.

(* what the case evaluator starts from: a loaded manifest, or the empty collection for the empty text *)
Corollary load_or_empty_history_deep_ok : forall mb, 1 <= mb -> forall tab txt s0 es,
  load_or_empty mb tab txt = Some s0 ->
  let s := fsys mb (bfinal mb tab (binit mb tab s0) es) in
  deep_ok mb (length (inodes (Conc mb) s)) s root_id = true.
Proof.
  intros mb Hmb tab txt s0 es Hl s. apply treeinv_deep_ok. unfold s. eapply loaded_history_TreeInv; [exact Hmb|exact Hl].
Qed.

(* foreground histories over the implementation's file representation *)
Corollary fg_history_deep_ok : forall mb ops,
  let s := fg_final (Conc mb) (fs_init (Conc mb)) ops in
  deep_ok mb (length (inodes (Conc mb) s)) s root_id = true.
Proof. intros mb ops s. apply treeinv_deep_ok. unfold s. apply run_TreeInv. apply TreeInv_init. Qed.

(* ================================================================================================
   D4 (beyond what deep_ok needs): nothing is ever detached from the root.  Every directory that has
   an entry is reached from the root through entries; so there is no cycle anywhere in the table, and
   rename's [locked] test is complete: a directory is never moved below itself.
   ================================================================================================ *)

(* ---------- entry lists: what survives ents_put / ents_del ---------- *)
Lemma ents_put_new l name id : In (name, id) (ents_put l name id).
Proof.
  induction l as [|[h i] r IH]; cbn [ents_put]; [left; reflexivity|].
  destruct (String.eqb h name); [left; reflexivity|]. destruct (str_ltb name h); [left; reflexivity|right; exact IH].
Qed.

(* ents_put removes at most the entry that ents_find reports under that name *)
Lemma ents_put_keep l name id m c : In (m, c) l -> ents_find l name <> Some c -> In (m, c) (ents_put l name id).
Proof.
  induction l as [|[h i] r IH]; cbn [ents_put ents_find]; intros Hin Hnf; [destruct Hin|].
  destruct (String.eqb h name).
  - destruct Hin as [E|Hin]; [inversion E; subst; exfalso; apply Hnf; reflexivity|right; exact Hin].
  - destruct (str_ltb name h); [right; exact Hin|].
    destruct Hin as [E|Hin]; [left; exact E|right; apply IH; assumption].
Qed.

(* ents_del removes only the inode that ents_find reports under that name ... *)
Lemma ents_del_keep l name k m c : ents_find l name = Some k -> In (m, c) l -> c <> k -> In (m, c) (ents_del l name).
Proof.
  induction l as [|[h i] r IH]; cbn [ents_del ents_find]; intros Hf Hin Hc; [destruct Hin|].
  destruct (String.eqb h name).
  - inversion Hf; subst. destruct Hin as [E|Hin]; [inversion E; subst; contradiction|exact Hin].
  - destruct Hin as [E|Hin]; [left; exact E|right; apply IH; assumption].
Qed.

(* ... and nothing entered under another name *)
Lemma ents_del_keep_name l name m c : In (m, c) l -> String.eqb m name = false -> In (m, c) (ents_del l name).
Proof.
  induction l as [|[h i] r IH]; cbn [ents_del]; intros Hin Hm; [destruct Hin|].
  destruct (String.eqb h name) eqn:Eh.
  - destruct Hin as [E|Hin]; [inversion E; subst; rewrite Eh in Hm; discriminate|exact Hin].
  - destruct Hin as [E|Hin]; [left; exact E|right; apply IH; assumption].
Qed.

Lemma ents_find_put_other l new id old : String.eqb new old = false -> ents_find (ents_put l new id) old = ents_find l old.
Proof.
  intros Hne. induction l as [|[h i] r IH]; cbn [ents_put ents_find]; [rewrite Hne; reflexivity|].
  destruct (String.eqb_spec h new) as [->|Hhn].
  - cbn [ents_find]. rewrite Hne. reflexivity.
  - destruct (str_ltb new h); cbn [ents_find]; [rewrite Hne; reflexivity|]. rewrite IH. reflexivity.
Qed.

Lemma ents_find_none_in l name m c : ents_find l name = None -> In (m, c) l -> ents_find l name <> Some c.
Proof. intros E _. rewrite E. discriminate. Qed.

Section Rooted.
Variable I : FileImpl.

(* d is entered in p, p in the next, ..., the last one in the root: [path] lists the directories above d, nearest first *)
Fixpoint linked (s : fs I) (d : nat) (path : list nat) : Prop :=
  match path with
  | [] => d = root_id
  | p :: r => (exists n, In (n, d) (dir_ents I s p)) /\ linked s p r
  end.
Definition reachable (s : fs I) (d : nat) : Prop := exists path, linked s d path.

Definition Conn (s : fs I) : Prop :=
  parent_of I s root_id = root_id /\
  (forall p n c, In (n, c) (dir_ents I s p) -> reachable s p).
Definition Rooted (s : fs I) : Prop := TreeInv I s /\ Conn s.

Lemma linked_upchain (s : fs I) : TreeInv I s -> forall path d, linked s d path -> upchain I s d path.
Proof.
  intros (_ & T1 & _). induction path as [|p r IH]; intros d H; cbn [linked upchain] in *; [exact H|].
  destruct H as ((n & Hin) & H). destruct (T1 p n d Hin) as (_ & Hnr & Hp). split; [exact Hnr|]. split; [exact Hp|exact (IH p H)].
Qed.

Lemma linked_inside (s : fs I) : TreeInv I s -> forall path d, linked s d path ->
  forall x, In x (d :: path) -> x < length (inodes I s).
Proof.
  intros (T0 & T1 & _). induction path as [|p r IH]; intros d H x Hx; cbn [linked] in H.
  - destruct Hx as [<-|[]]. subst d. unfold root_id. lia.
  - destruct H as ((n & Hin) & H). destruct Hx as [<-|Hx]; [apply (T1 p n d Hin)|exact (IH p H x Hx)].
Qed.

(* everything on the path above d has an entry *)
Lemma linked_path_has_entry (s : fs I) : forall path d x, linked s d path -> In x path -> exists n c, In (n, c) (dir_ents I s x).
Proof.
  induction path as [|p r IH]; intros d x H Hx; [destruct Hx|]. cbn [linked] in H. destruct H as ((n & Hin) & H).
  destruct Hx as [<-|Hx]; [exists n, d; exact Hin|exact (IH p x H Hx)].
Qed.

(* a path whose members all keep their entry above them *)
Lemma linked_keep (s s' : fs I) (bad : nat -> Prop) :
  (forall p n c, In (n, c) (dir_ents I s p) -> ~ bad c -> In (n, c) (dir_ents I s' p)) ->
  forall path d, linked s d path -> (forall x, In x (d :: path) -> ~ bad x) -> linked s' d path.
Proof.
  intros Hk. induction path as [|p r IH]; intros d H Hb; cbn [linked] in *; [exact H|].
  destruct H as ((n & Hin) & H). split.
  - exists n. apply Hk; [exact Hin|]. apply Hb. left. reflexivity.
  - apply IH; [exact H|]. intros x Hx. apply Hb. right. exact Hx.
Qed.

(* rebuilding paths after an update: each old entry is kept, or its inode is given a new path
   outright, or its inode is dead (without entries, and not needed any more) *)
Lemma linked_rebuild (s s' : fs I) (dead : nat -> Prop) :
  (forall c, dead c -> dir_ents I s c = []) ->
  (forall p n c, In (n, c) (dir_ents I s p) -> In (n, c) (dir_ents I s' p) \/ reachable s' c \/ dead c) ->
  forall path d, linked s d path -> ~ dead d -> reachable s' d.
Proof.
  intros Hdead Hk. induction path as [|p r IH]; intros d H Hd; cbn [linked] in H.
  - exists []. exact H.
  - destruct H as ((n & Hin) & H).
    assert (Hp : ~ dead p). { intros Hx. apply Hdead in Hx. rewrite Hx in Hin. destruct Hin. }
    destruct (IH p H Hp) as (P' & HP').
    destruct (Hk p n d Hin) as [Hkeep|[Hnew|Hx]]; [|exact Hnew|contradiction].
    exists (p :: P'). split; [exists n; exact Hkeep|exact HP'].
Qed.

(* ---------- what path lookup returns is reachable ---------- *)
Lemma reachable_root (s : fs I) : reachable s root_id.
Proof. exists []. reflexivity. Qed.

Lemma reachable_parent (s : fs I) d : Rooted s -> reachable s d -> reachable s (parent_of I s d).
Proof.
  intros [(T0 & T1 & T2) (C0 & C1)] (path & H). destruct path as [|p r]; cbn [linked] in H.
  - subst d. rewrite C0. apply reachable_root.
  - destruct H as ((n & Hin) & H). destruct (T1 p n d Hin) as (_ & _ & Hp). rewrite Hp. exists r. exact H.
Qed.

Lemma reachable_child (s : fs I) d name c : reachable s d -> child I s d name = Ok (Some c) -> reachable s c.
Proof.
  intros (path & H). unfold child. destruct (i_node I (get_ino I s d)) as [f|e] eqn:E; [discriminate|].
  destruct (special_name name); [discriminate|]. intros Hc. inversion Hc as [Hf].
  exists (d :: path). split; [|exact H]. exists name. unfold dir_ents. rewrite E. apply ents_find_in. exact Hf.
Qed.

Lemma rlookup_comps_reachable (s : fs I) : Rooted s -> forall comps d m,
  reachable s d -> rlookup_comps I s d comps = Ok m -> reachable s m.
Proof.
  intros HR. induction comps as [|c r IH]; intros d m Hd; cbn [rlookup_comps].
  - intros E; inversion E; subst; exact Hd.
  - destruct (is_dir I s d && ((c =? ".")%string || (c =? "")%string)); [apply IH; exact Hd|].
    destruct (is_dir I s d && (c =? "..")%string); [apply IH; apply reachable_parent; assumption|].
    destruct (child I s d c) as [[k|]|e] eqn:E; try discriminate. apply IH. eapply reachable_child; eassumption.
Qed.

Lemma rlookup_reachable (s : fs I) p m : Rooted s -> rlookup I s p = Ok m -> reachable s m.
Proof. intros HR. unfold rlookup. apply rlookup_comps_reachable; [exact HR|apply reachable_root]. Qed.

Lemma reachable_inside (s : fs I) d : TreeInv I s -> reachable s d -> d < length (inodes I s).
Proof. intros HT (path & H). apply (linked_inside s HT path d H). left. reflexivity. Qed.

(* ---------- the walk to the root that rename locks ---------- *)
Lemma ancestors_linked (s : fs I) : Rooted s -> forall path d fuel, linked s d path -> length path <= fuel ->
  ancestors I s fuel d = d :: path.
Proof.
  intros [HT (C0 & _)]. induction path as [|p r IH]; intros d fuel H Hf.
  - cbn [linked] in H. subst d. destruct fuel; cbn [ancestors]; [reflexivity|]. rewrite C0, Nat.eqb_refl. reflexivity.
  - pose proof (linked_upchain s HT _ _ H) as Hup. pose proof (upchain_notin I s d _ Hup) as Hni.
    cbn [linked] in H. destruct H as (_ & H). cbn [upchain] in Hup. destruct Hup as (_ & Hp & _).
    destruct fuel as [|f]; [cbn in Hf; lia|]. cbn [ancestors]. rewrite Hp.
    destruct (Nat.eqb_spec p d) as [E|_]; [exfalso; apply Hni; left; exact E|].
    f_equal. apply IH; [exact H|]. cbn [List.length] in Hf. lia.
Qed.

(* the table is long enough for the whole walk *)
Lemma ancestors_complete (s : fs I) d path : Rooted s -> linked s d path ->
  ancestors I s (length (inodes I s)) d = d :: path.
Proof.
  intros HR H. apply ancestors_linked; [exact HR|exact H|]. destruct HR as [HT _].
  pose proof (upchain_short I s d path _ (linked_upchain s HT _ _ H) (linked_inside s HT _ _ H)). lia.
Qed.

Lemma mem_nat_false x l : mem_nat x l = false -> ~ In x l.
Proof.
  unfold mem_nat. intros H Hin. assert (E : existsb (Nat.eqb x) l = true).
  { apply existsb_exists. exists x. split; [exact Hin|apply Nat.eqb_refl]. }
  rewrite E in H. discriminate.
Qed.

(* ---------- updates ---------- *)
Lemma linked_ext (s s' : fs I) : (forall j, dir_ents I s' j = dir_ents I s j) ->
  forall path d, linked s d path -> linked s' d path.
Proof.
  intros He path d H.
  apply (linked_keep s s' (fun _ => False)); [intros p n c Hin _; rewrite He; exact Hin|exact H|intros x _ []].
Qed.

Lemma Rooted_ext (s s' : fs I) : Rooted s ->
  length (inodes I s') = length (inodes I s) ->
  (forall j, parent_of I s' j = parent_of I s j) ->
  (forall j, dir_ents I s' j = dir_ents I s j) ->
  Rooted s'.
Proof.
  intros [HT (C0 & C1)] Hl Hp He. split.
  - apply (TreeInv_sub I s s' HT Hl Hp).
    + intros j x. rewrite He. auto.
    + intros j. rewrite He. apply HT.
  - split; [rewrite Hp; exact C0|]. intros p n c. rewrite He. intros Hin. destruct (C1 p n c Hin) as (path & H).
    exists path. apply (linked_ext s s' He). exact H.
Qed.

Lemma Rooted_same_inodes (s s' : fs I) : inodes I s' = inodes I s -> Rooted s -> Rooted s'.
Proof.
  intros E H. apply (Rooted_ext s s' H).
  - rewrite E. reflexivity.
  - intros j. unfold parent_of, get_ino. rewrite E. reflexivity.
  - apply dir_ents_same_inodes. exact E.
Qed.

Lemma Rooted_set_handle (s : fs I) h x : Rooted s -> Rooted (set_handle I s h x).
Proof. apply Rooted_same_inodes. apply g_inodes_set_handle. Qed.

Lemma Rooted_add_handle (s : fs I) x : Rooted s -> Rooted (fst (add_handle I s x)).
Proof. apply Rooted_same_inodes. reflexivity. Qed.

(* a new version of a regular file *)
Lemma Rooted_set_file (s : fs I) id f0 f : i_node I (get_ino I s id) = IFile f0 -> Rooted s -> Rooted (set_file I s id f).
Proof.
  intros E H. apply (Rooted_ext s _ H).
  - unfold set_file. apply t_length_set_ino.
  - intros j. apply t_parent_of_set_file.
  - intros j. rewrite t_dir_ents_set_file. destruct (Nat.eqb_spec j id) as [->|]; cbn [andb]; [|reflexivity].
    destruct (id <? length (inodes I s)); [|reflexivity]. unfold dir_ents. rewrite E. reflexivity.
Qed.

Lemma child_none_find (s : fs I) d name : child I s d name = Ok None -> ents_find (dir_ents I s d) name = None.
Proof.
  unfold child, dir_ents. destruct (i_node I (get_ino I s d)) as [f|e]; [discriminate|].
  destruct (special_name name); [discriminate|]. intros H. inversion H. reflexivity.
Qed.

(* a new node without entries, entered under an unused name into a reachable directory *)
Lemma Rooted_add_child_full (s : fs I) x node name : Rooted s -> node_ents I x = [] -> i_parent I x = node ->
  reachable s node -> ents_find (dir_ents I s node) name = None ->
  let s' := set_ents I (fst (add_ino I s x)) node (ents_put (dir_ents I (fst (add_ino I s x)) node) name (snd (add_ino I s x))) in
  Rooted s' /\ (forall p, reachable s p -> reachable s' p) /\ reachable s' (snd (add_ino I s x)).
Proof.
  intros [HT (C0 & C1)] Hx Hp Hnode Hnone. cbn zeta.
  pose proof (reachable_inside s node HT Hnode) as Hnl.
  assert (HT' : TreeInv I (set_ents I (fst (add_ino I s x)) node (ents_put (dir_ents I (fst (add_ino I s x)) node) name (snd (add_ino I s x)))))
    by (apply TreeInv_add_child; assumption).
  set (s1 := fst (add_ino I s x)) in *.
  set (s' := set_ents I s1 node (ents_put (dir_ents I s1 node) name (snd (add_ino I s x)))).
  assert (SD : forall j, dir_ents I s' j =
     if Nat.eqb j node && (node <? length (inodes I s1)) then ents_put (dir_ents I s node) name (length (inodes I s)) else dir_ents I s j).
  { intros j. unfold s'. rewrite t_dir_ents_set_ents. unfold s1. rewrite !t_dir_ents_add_ino by exact Hx. reflexivity. }
  assert (Hkeep : forall p n c, In (n, c) (dir_ents I s p) -> ~ False -> In (n, c) (dir_ents I s' p)).
  { intros p n c Hin _. rewrite SD. destruct (Nat.eqb_spec p node) as [->|]; cbn [andb]; [|exact Hin].
    destruct (node <? length (inodes I s1)); [|exact Hin]. apply ents_put_keep; [exact Hin|]. rewrite Hnone. discriminate. }
  assert (Hreach : forall p, reachable s p -> reachable s' p).
  { intros p (path & H). exists path. apply (linked_keep s s' (fun _ => False) Hkeep path p H). intros y _ []. }
  split; [split; [exact HT'|split]|split; [exact Hreach|]].
  - unfold s'. rewrite t_parent_of_set_ents. unfold s1. rewrite t_parent_of_add_ino.
    destruct HT as (T0 & _). destruct (Nat.eqb_spec root_id (length (inodes I s))) as [E|_]; [unfold root_id in E; lia|exact C0].
  - intros p n c. rewrite SD. intros Hin. apply Hreach.
    destruct (Nat.eqb_spec p node) as [->|]; cbn [andb] in Hin; [exact Hnode|]. exact (C1 p n c Hin).
  - destruct (Hreach node Hnode) as (path & H). exists (node :: path). split; [|exact H]. exists name.
    rewrite SD, Nat.eqb_refl. unfold s1. rewrite t_length_add_ino.
    assert (Hb : (node <? S (length (inodes I s))) = true) by (apply Nat.ltb_lt; lia). rewrite Hb. cbn [andb].
    apply ents_put_new.
Qed.

Lemma Rooted_add_child (s : fs I) x node name : Rooted s -> node_ents I x = [] -> i_parent I x = node ->
  reachable s node -> ents_find (dir_ents I s node) name = None ->
  Rooted (set_ents I (fst (add_ino I s x)) node (ents_put (dir_ents I (fst (add_ino I s x)) node) name (snd (add_ino I s x)))).
Proof. intros H Hx Hp Hn Hf. exact (proj1 (Rooted_add_child_full s x node name H Hx Hp Hn Hf)). Qed.

(* dropping the entry of an inode that has no entries itself *)
Lemma Rooted_del (s : fs I) d name k : Rooted s -> ents_find (dir_ents I s d) name = Some k -> dir_ents I s k = [] ->
  Rooted (set_ents I s d (ents_del (dir_ents I s d) name)).
Proof.
  intros [HT (C0 & C1)] Hf Hk. split; [apply TreeInv_del; exact HT|].
  set (s' := set_ents I s d (ents_del (dir_ents I s d) name)).
  assert (SD : forall j, dir_ents I s' j = if Nat.eqb j d && (d <? length (inodes I s)) then ents_del (dir_ents I s d) name else dir_ents I s j).
  { intros j. apply t_dir_ents_set_ents. }
  assert (Hkeep : forall p n c, In (n, c) (dir_ents I s p) -> ~ c = k -> In (n, c) (dir_ents I s' p)).
  { intros p n c Hin Hc. rewrite SD. destruct (Nat.eqb_spec p d) as [->|]; cbn [andb]; [|exact Hin].
    destruct (d <? length (inodes I s)); [|exact Hin]. eapply ents_del_keep; eassumption. }
  split; [unfold s'; rewrite t_parent_of_set_ents; exact C0|].
  intros p n c Hin.
  assert (Hold : In (n, c) (dir_ents I s p)).
  { rewrite SD in Hin. destruct (Nat.eqb_spec p d) as [->|]; cbn [andb] in Hin; [|exact Hin].
    destruct (d <? length (inodes I s)); [apply ents_del_in in Hin|]; exact Hin. }
  destruct (C1 p n c Hold) as (path & H). exists path.
  apply (linked_keep s s' (fun y => y = k) Hkeep path p H).
  intros y [<-|Hy] E; subst.
  - rewrite Hk in Hold. destruct Hold.
  - destruct (linked_path_has_entry s path p k H Hy) as (m & c' & Hin'). rewrite Hk in Hin'. destruct Hin'.
Qed.

(* rename: the moved inode is not among the ancestors of the target directory *)
Lemma Rooted_move (s : fs I) od nd oldname newname oi : Rooted s ->
  ents_find (dir_ents I s od) oldname = Some oi ->
  Nat.eqb nd od && String.eqb newname oldname = false ->
  reachable s nd ->
  ~ In oi (ancestors I s (length (inodes I s)) nd) ->
  (forall ex, ents_find (dir_ents I s nd) newname = Some ex -> dir_ents I s ex = []) ->
  Rooted (set_ents I (set_parent I (set_ents I s nd (ents_put (dir_ents I s nd) newname oi)) oi nd) od
     (ents_del (dir_ents I (set_parent I (set_ents I s nd (ents_put (dir_ents I s nd) newname oi)) oi nd) od) oldname)).
Proof.
  intros HR Hf Hne (Pnd & Hnd) Hanc Hex. split; [apply TreeInv_move; [apply HR|exact Hf|exact Hne]|].
  rewrite (ancestors_complete s nd Pnd HR Hnd) in Hanc.
  destruct HR as [HT (C0 & C1)]. pose proof HT as (T0 & T1 & T2).
  pose proof (ents_find_in _ _ _ Hf) as Hin_oi.
  assert (Hod : od < length (inodes I s)) by (eapply t_ents_inside; exact Hin_oi).
  destruct (T1 od oldname oi Hin_oi) as (Hoi & Hoi_nr & Hoi_par).
  assert (Hndl : nd < length (inodes I s)) by (apply (linked_inside s HT Pnd nd Hnd); left; reflexivity).
  assert (Hndb : (nd <? length (inodes I s)) = true) by (apply Nat.ltb_lt; exact Hndl).
  destruct (t_move_shape I s od nd oldname newname oi Hod Hoi) as (_ & SP & SD). cbn zeta in SP, SD.
  match goal with |- Conn ?x => set (s3 := x) in * end.
  rewrite Hndb in SD. rewrite andb_true_r in SD.
  set (lnd := dir_ents I s nd) in *.
  (* entries that survive *)
  assert (Hkeep : forall p n c, In (n, c) (dir_ents I s p) -> ~ (c = oi \/ ents_find lnd newname = Some c) -> In (n, c) (dir_ents I s3 p)).
  { intros p n c Hin Hc. assert (Hc1 : c <> oi) by tauto. assert (Hc2 : ents_find lnd newname <> Some c) by tauto.
    rewrite SD. destruct (Nat.eqb_spec p od) as [->|Npo].
    - destruct (Nat.eqb_spec od nd) as [Eon|Non]; cbn [andb].
      + subst nd. rewrite Nat.eqb_refl in Hne. cbn [andb] in Hne.
        apply (ents_del_keep _ oldname oi); [rewrite ents_find_put_other by exact Hne; exact Hf| |exact Hc1].
        apply ents_put_keep; [exact Hin|exact Hc2].
      + apply (ents_del_keep _ oldname oi); assumption.
    - destruct (Nat.eqb_spec p nd) as [->|Npn]; [|exact Hin]. apply ents_put_keep; [exact Hin|exact Hc2]. }
  (* the new entry *)
  assert (Hnew : In (newname, oi) (dir_ents I s3 nd)).
  { rewrite SD. destruct (Nat.eqb_spec nd od) as [Eno|Nno].
    - subst nd. cbn [andb] in Hne. rewrite Nat.eqb_refl. cbn [andb].
      apply ents_del_keep_name; [apply ents_put_new|exact Hne].
    - rewrite Nat.eqb_refl. apply ents_put_new. }
  (* nothing with entries, and nothing above such a thing, is dead *)
  assert (Hlive : forall x, ents_find lnd newname = Some x -> forall n c, In (n, c) (dir_ents I s x) -> False).
  { intros x Hx n c Hin. rewrite (Hex x Hx) in Hin. destruct Hin. }
  assert (Hnd3 : linked s3 nd Pnd).
  { apply (linked_keep s s3 _ Hkeep Pnd nd Hnd). intros y Hy [E|E].
    - subst y. exact (Hanc Hy).
    - destruct Hy as [<-|Hy].
      + apply (Hlive nd E newname nd). apply ents_find_in. exact E.
      + destruct (linked_path_has_entry s Pnd nd y Hnd Hy) as (m & c' & Hin'). exact (Hlive y E m c' Hin'). }
  assert (Hoi3 : reachable s3 oi).
  { exists (nd :: Pnd). split; [exists newname; exact Hnew|exact Hnd3]. }
  split.
  - rewrite SP. destruct (Nat.eqb_spec root_id oi) as [E|_]; [exfalso; apply Hoi_nr; symmetry; exact E|exact C0].
  - intros p n c Hin.
    assert (Hcases : p = nd \/ exists m c', In (m, c') (dir_ents I s p)).
    { rewrite SD in Hin. destruct (Nat.eqb_spec p od) as [->|Npo].
      - destruct (Nat.eqb_spec od nd) as [Eon|Non]; cbn [andb] in Hin; [left; exact Eon|].
        right. exists n, c. apply ents_del_in in Hin. exact Hin.
      - destruct (Nat.eqb_spec p nd) as [->|Npn]; [left; reflexivity|right; exists n, c; exact Hin]. }
    destruct Hcases as [->|(m & c' & Hin')]; [exists Pnd; exact Hnd3|].
    destruct (C1 p m c' Hin') as (path & H).
    apply (linked_rebuild s s3 (fun y => ents_find lnd newname = Some y)) with (path := path); [exact Hex| |exact H|].
    + intros q n' y Hq. destruct (Nat.eq_dec y oi) as [->|Ny]; [right; left; exact Hoi3|].
      destruct (ents_find lnd newname) as [ex|] eqn:Efx.
      * destruct (Nat.eq_dec ex y) as [->|Nex]; [right; right; reflexivity|].
        left. apply Hkeep; [exact Hq|]. intros [E|E]; [contradiction|]. inversion E. contradiction.
      * left. apply Hkeep; [exact Hq|]. intros [E|E]; [contradiction|discriminate].
    + intros E. exact (Hlive p E m c' Hin').
Qed.

Lemma not_dir_no_ents (s : fs I) x : is_dir I s x = false -> dir_ents I s x = [].
Proof. unfold is_dir, dir_ents. destruct (i_node I (get_ino I s x)); [reflexivity|discriminate]. Qed.

(* ---------- the operations ---------- *)
Lemma open_file_Rooted (s : fs I) name fl : Rooted s -> Rooted (fst (open_file I s name fl)).
Proof.
  intros H. unfold open_file. destruct (o_sync fl); [exact H|].
  destruct (path_split name) as [dirname base] eqn:Eps.
  destruct (rlookup I s dirname) as [parent|e] eqn:Erl; [|exact H].
  destruct (o_acc fl =? 3); [exact H|].
  destruct (negb _ && is_dir I s parent && ((base =? ".")%string || (base =? "")%string)).
  { apply (Rooted_add_handle s). exact H. }
  destruct (negb _ && is_dir I s parent && (base =? "..")%string).
  { apply (Rooted_add_handle s). exact H. }
  destruct (child I s parent base) as [[n|]|e] eqn:Ech; [| |exact H].
  - destruct (o_excl fl); [exact H|]. destruct (o_trunc fl).
    + destruct (negb _); [exact H|]. destruct (i_node I (get_ino I s n)) as [f|e] eqn:En; [|exact H].
      apply (Rooted_add_handle (set_file I s n (f_trunc I f 0))). apply (Rooted_set_file s n f); [exact En|exact H].
    + apply (Rooted_add_handle s). exact H.
  - destruct (o_create fl); cbn [negb]; [|exact H].
    pose proof (Rooted_add_child s {| i_node := IFile (f_empty I); i_parent := parent |} parent base H eq_refl eq_refl
                  (rlookup_reachable s _ _ H Erl) (child_none_find s _ _ Ech)) as H2.
    destruct (add_ino I s {| i_node := IFile (f_empty I); i_parent := parent |}) as [s1 id]. cbn [fst snd] in H2.
    match goal with |- context [add_handle I ?s2 ?x] => apply (Rooted_add_handle s2 x) end. exact H2.
Qed.

Lemma mkdir_Rooted (s : fs I) name : Rooted s -> Rooted (fst (mkdir I s name)).
Proof.
  intros H. unfold mkdir. destruct (path_split name) as [dirname base] eqn:Eps.
  destruct (rlookup I s dirname) as [n|e] eqn:Erl; [|exact H].
  destruct (child I s n base) as [[c|]|e] eqn:Ech; [exact H| |exact H].
  pose proof (Rooted_add_child s {| i_node := IDir []; i_parent := n |} n base H eq_refl eq_refl
                (rlookup_reachable s _ _ H Erl) (child_none_find s _ _ Ech)) as H2.
  destruct (add_ino I s {| i_node := IDir []; i_parent := n |}) as [s1 id]. cbn [fst snd] in H2 |- *. exact H2.
Qed.

Lemma rename_Rooted (s : fs I) a b : Rooted s -> Rooted (fst (rename I s a b)).
Proof.
  intros H. unfold rename. destruct (path_split a) as [olddir oldname] eqn:Ea.
  destruct (special_name oldname) eqn:Eso; [exact H|].
  destruct (rlookup I s olddir) as [od|e]; [|exact H].
  destruct (path_split b) as [newdir newname0] eqn:Eb.
  destruct ((newname0 =? ".")%string || (newname0 =? "..")%string) eqn:Edots; [exact H|].
  destruct (rlookup I s newdir) as [nd|e] eqn:Erl; [|exact H].
  set (newname := if (newname0 =? "")%string then oldname else newname0).
  destruct (ents_find (dir_ents I s od) oldname) as [oi|] eqn:Ef; [|exact H].
  destruct (mem_nat oi _) eqn:Elock; [exact H|].
  destruct (Nat.eqb nd od && (newname =? oldname)%string) eqn:Esame; [exact H|].
  assert (Hanc : ~ In oi (ancestors I s (length (inodes I s)) nd)).
  { intros Hin. apply (mem_nat_false _ _ Elock). apply in_or_app. right. exact Hin. }
  pose proof (rlookup_reachable s _ _ H Erl) as Hnd.
  destruct (ents_find (dir_ents I s nd) newname) as [ex|] eqn:Eex.
  - destruct (is_dir I s ex) eqn:Edir; [exact H|]. cbn [fst].
    apply Rooted_move; [exact H|exact Ef|exact Esame|exact Hnd|exact Hanc|].
    intros ex' E. rewrite Eex in E. inversion E; subst. apply not_dir_no_ents. exact Edir.
  - cbn [fst]. apply Rooted_move; [exact H|exact Ef|exact Esame|exact Hnd|exact Hanc|].
    intros ex' E. rewrite Eex in E. discriminate.
Qed.

Lemma remove_Rooted (s : fs I) name : Rooted s -> Rooted (fst (remove I s name)).
Proof.
  intros H. unfold remove. destruct (path_split (trim_right_slash name)) as [dirname base].
  destruct (special_name base); [exact H|].
  destruct (rlookup I s dirname) as [d|e]; [|exact H].
  destruct (i_node I (get_ino I s d)) as [f|ents] eqn:Ed; [exact H|].
  destruct (ents_find ents base) as [n|] eqn:Ef; [|exact H].
  destruct (is_dir I s n && negb (length (dir_ents I s n) =? 0)) eqn:Eguard; [exact H|].
  cbn [fst]. assert (E : ents = dir_ents I s d) by (unfold dir_ents; rewrite Ed; reflexivity).
  rewrite E in Ef |- *. apply (Rooted_del s d base n H Ef).
  destruct (is_dir I s n) eqn:Edir; cbn [andb] in Eguard; [|apply not_dir_no_ents; exact Edir].
  apply negb_false_iff in Eguard. apply Nat.eqb_eq in Eguard. apply length_zero_iff_nil. exact Eguard.
Qed.

Lemma h_read_Rooted (s : fs I) h n : Rooted s -> Rooted (fst (h_read I s h n)).
Proof.
  intros H. unfold h_read. destruct (get_handle I s h) as [x|]; [|exact H].
  destruct (negb (h_r I x)); [exact H|].
  destruct (i_node I (get_ino I s (h_ino I x))) as [f|e].
  - destruct (f_read I f n (h_ptr I x)) as [[d p'] eof]. cbn [fst]. apply Rooted_set_handle. exact H.
  - cbn [fst]. apply Rooted_set_handle. exact H.
Qed.

Lemma h_seek_Rooted (s : fs I) h o neg wh : Rooted s -> Rooted (fst (h_seek I s h o neg wh)).
Proof.
  intros H. unfold h_seek. destruct (get_handle I s h) as [x|]; [|exact H].
  destruct (neg && _); [exact H|]. destruct (_ =? p_off I (h_ptr I x)); [exact H|].
  cbn [fst]. apply Rooted_set_handle. exact H.
Qed.

Lemma h_write_Rooted (s : fs I) h data : Rooted s -> Rooted (fst (h_write I s h data)).
Proof.
  intros H. unfold h_write. destruct (get_handle I s h) as [x|]; [|exact H].
  destruct (negb (h_w I x)); [exact H|].
  destruct (i_node I (get_ino I s (h_ino I x))) as [f|e] eqn:En.
  - destruct (f_write I f _ data) as [f' p']. cbn [fst]. apply Rooted_set_handle. apply (Rooted_set_file s _ f); [exact En|exact H].
  - cbn [fst]. apply Rooted_set_handle. exact H.
Qed.

Lemma h_trunc_Rooted (s : fs I) h n : Rooted s -> Rooted (fst (h_trunc I s h n)).
Proof.
  intros H. unfold h_trunc. destruct (get_handle I s h) as [x|]; [|exact H].
  destruct (i_node I (get_ino I s (h_ino I x))) as [f|e] eqn:En; [|exact H].
  cbn [fst]. apply (Rooted_set_file s _ f); [exact En|exact H].
Qed.

Theorem step_Rooted_gen (s : fs I) o : Rooted s -> Rooted (fst (step I s o)).
Proof.
  intros H. destruct o; cbn [step].
  - pose proof (open_file_Rooted s name fl H) as H1. destruct (open_file I s name fl) as [s' [r|e]]; exact H1.
  - pose proof (h_read_Rooted s h n H) as H1. destruct (h_read I s h n) as [s' [[d eof]|e]]; exact H1.
  - pose proof (h_write_Rooted s h data H) as H1. destruct (h_write I s h data) as [s' [r|e]]; exact H1.
  - pose proof (h_seek_Rooted s h off neg whence H) as H1. destruct (h_seek I s h off neg whence) as [s' [r|e]]; exact H1.
  - pose proof (h_trunc_Rooted s h size H) as H1. destruct (h_trunc I s h size) as [s' [r|e]]; exact H1.
  - destruct (h_stat I s h) as [[d n]|e]; exact H.
  - destruct (h_readdir I s h) as [l|e]; exact H.
  - pose proof (mkdir_Rooted s name H) as H1. destruct (mkdir I s name) as [s' [r|e]]; exact H1.
  - pose proof (rename_Rooted s a b H) as H1. destruct (rename I s a b) as [s' [r|e]]; exact H1.
  - pose proof (remove_Rooted s name H) as H1. destruct (remove I s name) as [s' [r|e]]; exact H1.
  - destruct (stat I s name) as [[d n]|e]; exact H.
Qed.

Lemma Rooted_init_gen : Rooted (fs_init I).
Proof.
  split; [apply TreeInv_init|]. split; [reflexivity|].
  intros p n c Hin. exfalso. unfold dir_ents, get_ino, fs_init in Hin. cbn [inodes] in Hin.
  destruct p as [|[|p]]; cbn in Hin; exact Hin.
Qed.

(* ---------- what Rooted says ---------- *)
(* every inode that is entered anywhere hangs below the root: walking up its parent pointers passes
   pairwise different inodes, each entered in the next, and arrives at the root in fewer steps than the
   table is long.  In particular no inode is its own ancestor. *)
Theorem Rooted_entry_path (s : fs I) p n c : Rooted s -> In (n, c) (dir_ents I s p) ->
  exists path, linked s c (p :: path) /\ upchain I s c (p :: path) /\ NoDup (c :: p :: path) /\
               S (S (length path)) <= length (inodes I s).
Proof.
  intros [HT (C0 & C1)] Hin. destruct (C1 p n c Hin) as (path & H). exists path.
  assert (HL : linked s c (p :: path)) by (split; [exists n; exact Hin|exact H]).
  pose proof (linked_upchain s HT _ _ HL) as HU.
  split; [exact HL|]. split; [exact HU|]. split; [apply (upchain_nodup I s _ _ HU)|].
  exact (upchain_short I s c (p :: path) _ HU (linked_inside s HT _ _ HL)).
Qed.

(* rename's lock list is exactly the target directory and everything above it *)
Theorem Rooted_locked_complete (s : fs I) newdir nd : Rooted s -> rlookup I s newdir = Ok nd ->
  exists path, linked s nd path /\ ancestors I s (length (inodes I s)) nd = nd :: path.
Proof.
  intros HR Erl. destruct (rlookup_reachable s _ _ HR Erl) as (path & H). exists path.
  split; [exact H|apply ancestors_complete; assumption].
Qed.

End Rooted.

Theorem step_Rooted : forall I s o, Rooted I s -> Rooted I (fst (step I s o)).
Proof. exact step_Rooted_gen. Qed.

Theorem Rooted_init : forall I, Rooted I (fs_init I).
Proof. exact Rooted_init_gen. Qed.

Theorem run_Rooted : forall I ops s, Rooted I s -> Rooted I (fg_final I s ops).
Proof.
  intros I. induction ops as [|o r IH]; intros s H; cbn [fg_final]; [exact H|].
  apply IH. apply step_Rooted. exact H.
Qed.
(* ---------- D4: the background-write layer ---------- *)
Section BGRooted.
Variable mb : nat.
Notation C := (Conc mb).
Notation OKst st := (Rooted C (fsys mb st)).



Lemma set_seg_at_Rooted (s : fs C) fid i x : Rooted C s -> Rooted C (set_seg_at mb s fid i x).
Proof.
  intros H. unfold set_seg_at. destruct (i_node C (get_ino C s fid)) as [fn|e] eqn:En; [|exact H].
  apply (Rooted_set_file C s fid fn); [exact En|exact H].
Qed.

Lemma install_ref_Rooted q loc (s : fs C) r : Rooted C s -> Rooted C (install_ref mb q loc s r).
Proof.
  intros H. unfold install_ref. destruct (i_node C (get_ino C s (r_file r))) as [fn|e] eqn:En; [|exact H].
  destruct (length (segs fn) <=? r_idx r); [exact H|].
  destruct (nthseg (segs fn) (r_idx r)) as [b [t|]|b l z o]; try exact H.
  destruct (Nat.eqb t (r_tok r) && _); [|exact H]. apply (Rooted_set_file C s _ fn); [exact En|exact H].
Qed.

Lemma complete_Rooted st id : OKst st -> OKst (complete mb st id).
Proof.
  intros H. unfold complete. destruct (take_pend (pends mb st) id) as [[q rest]|]; [|exact H].
  destruct (q_ok q); cbn [fsys]; [|exact H].
  apply (fold_left_inv (Rooted C)); [|exact H]. intros s r Hs. apply install_ref_Rooted. exact Hs.
Qed.

Lemma complete_data_Rooted st d : OKst st -> OKst (complete_data mb st d).
Proof.
  intros H. unfold complete_data.
  apply (fold_left_inv (fun st => OKst st)); [|exact H].
  intros s q Hs. destruct (bytes_eqb (q_data q) d); [apply complete_Rooted; exact Hs|exact Hs].
Qed.

Lemma assign_tokens_Rooted sync : forall refs st boff acc,
  OKst st -> OKst (fst (assign_tokens mb sync refs st boff acc)).
Proof.
  induction refs as [|[fid i] r IH]; intros st boff acc H; cbn [assign_tokens]; [exact H|].
  destruct (negb (i <? length (file_segs mb (fsys mb st) fid))); [exact H|].
  destruct (seg_at mb (fsys mb st) fid i) as [b tok|b l z o]; [|exact H].
  destruct (negb sync && _); [exact H|].
  apply IH. cbn [fsys]. apply set_seg_at_Rooted. exact H.
Qed.

Lemma commit_async_Rooted st refs : OKst st -> OKst (commit_async mb st refs).
Proof.
  intros H. unfold commit_async. destruct refs as [|r0 refs]; [exact H|].
  pose proof (assign_tokens_Rooted false (r0 :: refs) st 0 [] H) as H1.
  destruct (assign_tokens mb false (r0 :: refs) st 0 []) as [st1 [[prs n]|]]; cbn [fst fsys] in *; exact H1.
Qed.

Lemma install_sync_Rooted loc bsz (s : fs C) r : Rooted C s -> Rooted C (install_sync mb loc bsz s r).
Proof.
  intros H. unfold install_sync. destruct (seg_at mb s (r_file r) (r_idx r)); [|exact H].
  apply set_seg_at_Rooted. exact H.
Qed.

Lemma commit_sync_Rooted st refs : OKst st -> OKst (fst (commit_sync mb st refs)).
Proof.
  intros H. unfold commit_sync. destruct refs as [|r0 refs]; [exact H|].
  pose proof (assign_tokens_Rooted true (r0 :: refs) st 0 [] H) as H1.
  destruct (assign_tokens mb true (r0 :: refs) st 0 []) as [st1 [[prs n]|]]; cbn [fst fsys] in *; [|exact H1].
  destruct (put_fails _ _); cbn [fst fsys]; [exact H1|].
  apply (fold_left_inv (Rooted C)); [|exact H1]. intros s r Hs. apply install_sync_Rooted. exact Hs.
Qed.

Lemma commit_any_Rooted (sync : bool) st refs : OKst st ->
  OKst (fst (if sync then commit_sync mb st refs else (commit_async mb st refs, true))).
Proof.
  intros H. destruct sync; [apply commit_sync_Rooted; exact H|cbn [fst]; apply commit_async_Rooted; exact H].
Qed.

Lemma flush_segs_Rooted sync fid : forall l i st ok pending plen, OKst st ->
  OKst (fst (fst (fst (flush_segs mb sync fid i l st ok pending plen)))).
Proof.
  induction l as [|sg l IH]; intros i st ok pending plen H; cbn [flush_segs]; [exact H|].
  destruct sg as [b t|b lo z o]; [|apply IH; exact H].
  destruct (mb / 2 <? length b).
  - pose proof (commit_any_Rooted sync st [(fid, i)] H) as H1.
    destruct (if sync then commit_sync mb st [(fid, i)] else (commit_async mb st [(fid, i)], true)) as [st1 ok1].
    apply IH. exact H1.
  - destruct (mb <? plen + length b).
    + pose proof (commit_any_Rooted sync st pending H) as H1.
      destruct (if sync then commit_sync mb st pending else (commit_async mb st pending, true)) as [st1 ok1].
      apply IH. exact H1.
    + apply IH. exact H.
Qed.

Lemma flush_dir_Rooted : forall fuel sync short recursive st d, OKst st ->
  OKst (fst (flush_dir mb fuel sync short recursive st d)).
Proof.
  induction fuel as [|fuel IH]; intros sync short recursive st d H; cbn [flush_dir]; [exact H|].
  match goal with |- context [fold_left ?f ?l ?a] =>
    assert (HF : OKst (fst (fst (fst (fold_left f l a))))) end.
  { apply (fold_left_inv (fun acc : bst mb * bool * list (nat * nat) * nat => OKst (fst (fst (fst acc))))); [|exact H].
    intros [[[st0 ok0] pending] plen] e Hacc. cbn [fst] in Hacc.
    destruct (is_dir C (fsys mb st0) (snd e)).
    - destruct recursive; [|exact Hacc].
      pose proof (IH sync short true st0 (snd e) Hacc) as H1.
      destruct (flush_dir mb fuel sync short true st0 (snd e)) as [st1 ok1]. exact H1.
    - apply flush_segs_Rooted. exact Hacc. }
  match goal with |- context [fold_left ?f ?l ?a] => destruct (fold_left f l a) as [[[st1 ok1] pending] plen] end.
  cbn [fst] in HF. destruct short; [|exact HF].
  pose proof (commit_any_Rooted sync st1 pending HF) as H2.
  destruct (if sync then commit_sync mb st1 pending else (commit_async mb st1 pending, true)) as [st2 ok2]. exact H2.
Qed.

Lemma b_flush_Rooted st path short : OKst st -> OKst (fst (b_flush mb st path short)).
Proof.
  intros H. unfold b_flush. destruct (rlookup C (fsys mb st) path) as [d|e]; [|exact H].
  destruct (negb (is_dir C (fsys mb st) d)); [exact H|].
  pose proof (flush_dir_Rooted (length (inodes C (fsys mb st))) false short (String.eqb path "") st d H) as H1.
  destruct (flush_dir mb (length (inodes C (fsys mb st))) false short (String.eqb path "") st d) as [st1 ok]. exact H1.
Qed.

Lemma b_marshal_Rooted tab st : OKst st -> OKst (fst (b_marshal mb tab st)).
Proof.
  intros H. unfold b_marshal.
  pose proof (flush_dir_Rooted (length (inodes C (fsys mb st))) true true true st root_id H) as H1.
  destruct (flush_dir mb (length (inodes C (fsys mb st))) true true true st root_id) as [st1 ok].
  destruct ok; exact H1.
Qed.

Lemma b_write_Rooted st h data : OKst st -> OKst (fst (b_write mb st h data)).
Proof.
  intros H. unfold b_write. destruct (get_handle C (fsys mb st) h) as [x|]; [|exact H].
  destruct (negb (h_w C x)); [exact H|].
  destruct (i_node C (get_ino C (fsys mb st) (h_ino C x))) as [f|e] eqn:En.
  - destruct (bfn_write mb (h_ino C x) f _ data st) as [[f' p'] st']. cbn [fst with_fs fsys].
    apply (Rooted_set_handle C). apply (Rooted_set_file C _ _ f); [exact En|exact H].
  - cbn [fst with_fs fsys]. apply (Rooted_set_handle C). exact H.
Qed.

Theorem bexec_Rooted tab st e : OKst st -> OKst (fst (bexec mb tab st e)).
Proof.
  intros H. destruct e as [o v|p sh v|v|d|m]; cbn [bexec].
  - assert (Hstep : forall o', OKst (fst (let '(s', v') := step C (fsys mb st) o' in (with_fs mb st s', OObs v')))).
    { intros o'. pose proof (step_Rooted C (fsys mb st) o' H) as H1. destruct (step C (fsys mb st) o') as [s' v']. exact H1. }
    destruct o; try apply Hstep.
    pose proof (b_write_Rooted st h data H) as H1. destruct (b_write mb st h data) as [st' [n|x]]; exact H1.
  - pose proof (b_flush_Rooted st p sh H) as H1. destruct (b_flush mb st p sh) as [st' [u|x]]; exact H1.
  - pose proof (b_marshal_Rooted tab st H) as H1. destruct (b_marshal mb tab st) as [st' [t|x]]; exact H1.
  - cbn [fst]. apply complete_data_Rooted. exact H.
  - exact H.
Qed.

Theorem bfinal_Rooted tab : forall es st, OKst st -> OKst (bfinal mb tab st es).
Proof.
  induction es as [|e r IH]; intros st H; cbn [bfinal]; [exact H|]. apply IH. apply bexec_Rooted. exact H.
Qed.

End BGRooted.

Theorem bg_history_Rooted : forall mb, 1 <= mb -> forall tab s0 es,
  Rooted (Conc mb) s0 -> Rooted (Conc mb) (fsys mb (bfinal mb tab (binit mb tab s0) es)).
Proof. intros mb _ tab s0 es H. apply bfinal_Rooted. exact H. Qed.



(* ---------- D4: the manifest loader ---------- *)
Section LoadRooted.
Variable mb : nat.
Notation C := (Conc mb).

Lemma mkdirs_Rooted : forall names (s : fs C) node s' n',
  Rooted C s -> reachable C s node -> mkdirs mb s node names = Ok (s', n') -> Rooted C s' /\ reachable C s' n'.
Proof.
  induction names as [|name r IH]; intros s node s' n' H Hn; cbn [mkdirs].
  - intros E; inversion E; subst; split; assumption.
  - destruct (String.eqb name "" || String.eqb name "."); [apply IH; assumption|].
    destruct (String.eqb name "..").
    + destruct (Nat.eqb node root_id); [discriminate|]. apply IH; [exact H|]. apply reachable_parent; assumption.
    + destruct (i_node C (get_ino C s node)) as [f|ents] eqn:En; [discriminate|].
      assert (Ed : dir_ents C s node = ents) by (unfold dir_ents; rewrite En; reflexivity).
      destruct (ents_find ents name) as [c|] eqn:Ef.
      * destruct (is_dir C s c); [|discriminate]. apply IH; [exact H|].
        destruct Hn as (path & HP). exists (node :: path). split; [|exact HP]. exists name. rewrite Ed. apply ents_find_in. exact Ef.
      * rewrite <- Ed in Ef.
        pose proof (Rooted_add_child_full C s {| i_node := IDir []; i_parent := node |} node name H eq_refl eq_refl Hn Ef) as H2.
        cbn zeta in H2.
        destruct (add_ino C s {| i_node := IDir []; i_parent := node |}) as [s1 id]. cbn [fst snd] in H2.
        destruct H2 as (H2 & _ & H3). apply IH; [exact H2|exact H3].
Qed.





Lemma create_file_Rooted (s : fs C) path s' r :
  Rooted C s -> create_file_and_parents mb s path = Ok (s', r) -> Rooted C s'.
Proof.
  intros H. unfold create_file_and_parents.
  destruct (mkdirs mb s root_id (removelast (split_slash path))) as [[s1 node]|e] eqn:Em; [|discriminate].
  destruct (mkdirs_Rooted _ _ _ _ _ H (reachable_root C s) Em) as [H1 Hn].
  destruct (String.eqb (last (split_slash path) "") "."); [intros E; inversion E; subst; exact H1|].
  destruct (special_name (last (split_slash path) "")); [discriminate|].
  destruct (i_node C (get_ino C s1 node)) as [f|ents] eqn:En; [discriminate|].
  assert (Ed : dir_ents C s1 node = ents) by (unfold dir_ents; rewrite En; reflexivity).
  destruct (ents_find ents (last (split_slash path) "")) as [c|] eqn:Ef.
  - destruct (is_dir C s1 c); [discriminate|]. intros E; inversion E; subst; exact H1.
  - rewrite <- Ed in Ef.
    pose proof (Rooted_add_child C s1 {| i_node := IFile (I := C) f_new; i_parent := node |} node
                  (last (split_slash path) "") H1 eq_refl eq_refl Hn Ef) as H2.
    destruct (add_ino C s1 {| i_node := IFile (I := C) f_new; i_parent := node |}) as [s2 id]. cbn [fst snd] in H2.
    intros E; inversion E; subst. exact H2.
Qed.

Lemma load_tokens_Rooted tab : forall toks dirname (s : fs C) bl anyfile segIdx pos s' af nb,
  Rooted C s -> load_tokens mb tab dirname toks s bl anyfile segIdx pos = Ok (s', af, nb) -> Rooted C s'.
Proof.
  induction toks as [|t toks IH]; intros dirname s bl anyfile segIdx pos s' af nb H; cbn [load_tokens].
  - intros E; inversion E; subst; exact H.
  - destruct (classify tab t) as [b|offset len nm|]; [| |discriminate].
    + destruct anyfile; [discriminate|]. apply IH. exact H.
    + destruct bl as [|b0 bl0] eqn:Ebl; [discriminate|]. rewrite <- Ebl.
      destruct (create_file_and_parents mb s (dirname ++ "/" ++ manifest_unescape nm)%string) as [[s1 [fid|]]|e] eqn:Ecf; [| |discriminate].
      * pose proof (create_file_Rooted _ _ _ _ H Ecf) as H1.
        destruct (if offset <? pos then (0, 0) else (segIdx, pos)) as [si p0].
        destruct (map_range (S (length bl)) bl si p0 offset len []) as [[[si' p'] sgs]|]; [|discriminate].
        destruct (i_node C (get_ino C s1 fid)) as [fn|e] eqn:En; [|discriminate].
        apply IH. apply (Rooted_set_file C s1 fid fn); [exact En|exact H1].
      * destruct (Nat.eqb len 0); [|discriminate]. apply IH. eapply create_file_Rooted; eassumption.
Qed.

Lemma load_streams_Rooted tab : forall streams (s s' : fs C),
  Rooted C s -> load_streams mb tab streams s = Ok s' -> Rooted C s'.
Proof.
  induction streams as [|st r IH]; intros s s' H; cbn [load_streams]; [intros E; inversion E; subst; exact H|].
  destruct (split_char " "%char st) as [|d toks]; [discriminate|].
  destruct (load_tokens mb tab (manifest_unescape d) toks s [] false 0 0) as [[[s1 af] nb]|e] eqn:El; [|discriminate].
  destruct (negb af || Nat.eqb nb 0 || String.eqb (manifest_unescape d) ""); [discriminate|].
  apply IH. eapply load_tokens_Rooted; eassumption.
Qed.

End LoadRooted.

Theorem b_load_Rooted : forall mb tab txt s, b_load mb tab txt = Ok s -> Rooted (Conc mb) s.
Proof.
  intros mb tab txt s. unfold b_load. destruct (negb _); [discriminate|]. intros E.
  eapply load_streams_Rooted; [|exact E]. apply Rooted_init.
Qed.

(* a loaded (or empty) collection followed by any event history *)
Corollary loaded_history_Rooted : forall mb, 1 <= mb -> forall tab txt s0 es,
  load_or_empty mb tab txt = Some s0 -> Rooted (Conc mb) (fsys mb (bfinal mb tab (binit mb tab s0) es)).
Proof.
  intros mb Hmb tab txt s0 es. unfold load_or_empty. intros E. apply bg_history_Rooted; [exact Hmb|].
  destruct (String.eqb txt ""); [inversion E; apply Rooted_init|].
  destruct (b_load mb tab txt) as [s|e] eqn:El; [|discriminate]. inversion E; subst. eapply b_load_Rooted; exact El.
Qed.

(* after every history, from the empty collection or from a loaded manifest *)
Theorem loaded_history_no_cycle : forall mb, 1 <= mb -> forall tab txt s0 es,
  load_or_empty mb tab txt = Some s0 ->
  let s := fsys mb (bfinal mb tab (binit mb tab s0) es) in
  forall p n c, In (n, c) (dir_ents (Conc mb) s p) ->
  exists path, linked (Conc mb) s c (p :: path) /\ upchain (Conc mb) s c (p :: path) /\ NoDup (c :: p :: path) /\
               S (S (length path)) <= length (inodes (Conc mb) s).
Proof.
  intros mb Hmb tab txt s0 es Hl s p n c Hin. apply (Rooted_entry_path (Conc mb) s p n c); [|exact Hin].
  unfold s. eapply loaded_history_Rooted; [exact Hmb|exact Hl].
Qed.

Print Assumptions step_TreeInv.
Print Assumptions run_TreeInv.
Print Assumptions treeinv_deep_ok.
Print Assumptions bg_history_TreeInv.
Print Assumptions b_load_TreeInv.
Print Assumptions bg_history_deep_ok.
Print Assumptions loaded_history_deep_ok.
Print Assumptions load_or_empty_history_deep_ok.
Print Assumptions fg_history_deep_ok.
Print Assumptions step_Rooted.
Print Assumptions run_Rooted.
Print Assumptions Rooted_entry_path.
Print Assumptions Rooted_locked_complete.
Print Assumptions bg_history_Rooted.
Print Assumptions b_load_Rooted.
Print Assumptions loaded_history_Rooted.
Print Assumptions loaded_history_no_cycle.
