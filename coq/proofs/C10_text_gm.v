(* C10 — lifting the range theorem of the Go manifest package (sdk/go/manifest) to whole manifest texts:
   for every valid manifest text (streams below 2^63 bytes)
     - StreamIter + FileSegmentIterByName deliver, for every file token, the reference segments of its path in that
       stream (plus zero-length marker segments);
     - Manifest.segment builds a map (stream name, file name) -> segments which holds exactly the reference
       denotation [denote m path] for every path of the manifest and nothing else. *)
From Coq Require Import NArith Lia List Bool Ascii String Arith.
From AV Require Import lib.Str model.C10_manifest model.C10_ranges model.C10_fs model.C10_gomanifest
  proofs.C10_bytes_proofs proofs.C10_ranges_proofs proofs.C10_pdh_proofs proofs.C10_escape_proofs proofs.C10_gm_proofs
  proofs.C10_text_lines proofs.C10_text_fs.
Import ListNotations.
Local Open Scope string_scope.
Local Open Scope list_scope.
Notation length := List.length.

(* ---------- the shape of the entries of a valid manifest ---------- *)
Definition entry_shape (e : entry) : Prop :=
  exists l' b, comps (e_path e) = "."%string :: l' ++ [b] /\ Forall okc l' /\
               (if e_marker e then b = "."%string /\ e_segs e = [] else okc b).

Lemma entry_of_shape sn ds blocks f : comps sn = "."%string :: ds -> Forall okc ds -> valid_file_name_u f = true ->
  entry_shape (entry_of sn blocks f).
Proof.
  intros Hsn Hds Hv. destruct (valid_file_name_inv _ Hv) as (cs' & b & Hcs & Hcs' & Hb).
  exists (ds ++ cs'), b. unfold entry_of. cbn [e_path e_marker e_segs].
  split; [rewrite comps_path_of, Hsn, Hcs; cbn [app]; rewrite app_assoc; reflexivity|].
  split; [apply Forall_app; split; assumption|].
  destruct (is_marker f); [|exact Hb]. destruct Hb as [-> Hlen]. split; [reflexivity|].
  rewrite Hlen. unfold ref. rewrite ref_from_len0. reflexivity.
Qed.

Definition lines_ok (ls : list string) (m : manifest) : Prop :=
  Forall2 (fun l s => exists name fts, stream_ok l s name fts) ls m.

Lemma stream_entries_shape line s name fts : stream_ok line s name fts -> Forall entry_shape (stream_entries s).
Proof.
  intros Hok. destruct (valid_stream_name_inv _ (so_vname _ _ _ _ Hok)) as (ds & Hsn & Hds).
  unfold stream_entries. apply Forall_forall. intros e He. apply in_map_iff in He. destruct He as (f & <- & Hf).
  pose proof (so_files _ _ _ _ Hok) as Hfs. rewrite Forall_forall in Hfs. destruct (Hfs f Hf) as [Hv _].
  eapply entry_of_shape; eauto.
Qed.
Lemma entries_shape ls m : lines_ok ls m -> Forall entry_shape (entries m).
Proof.
  induction 1 as [|l s ls m (name & fts & Hok) _ IH]; [constructor|].
  cbn [entries flat_map]. apply Forall_app. split; [eapply stream_entries_shape; eauto|exact IH].
Qed.

Lemma okc_dot : ~ okc "."%string.
Proof. unfold okc. cbn. discriminate. Qed.

(* entries at a directory path, or at the path of a marker, carry no segments *)
Lemma app_last_inj {A} (a b : list A) x y : a ++ [x] = b ++ [y] -> a = b /\ x = y.
Proof. intros H. apply app_inj_tail in H. exact H. Qed.

Lemma sel_marker_nil E e : Forall entry_shape E -> In e E -> e_marker e = true ->
  forall es, incl es E -> flat_map (sel (e_path e)) es = [].
Proof.
  intros Hsh He Hm es Hin. rewrite Forall_forall in Hsh.
  induction es as [|e' es IH]; [reflexivity|]. cbn [flat_map]. rewrite IH by (intros x Hx; apply Hin; right; exact Hx).
  rewrite app_nil_r. unfold sel. destruct (String.eqb (e_path e') (e_path e)) eqn:Ep; [|reflexivity].
  apply String.eqb_eq in Ep.
  destruct (Hsh e He) as (l1 & b1 & Hc1 & _ & Hb1). rewrite Hm in Hb1. destruct Hb1 as [-> _].
  destruct (Hsh e' (Hin e' (or_introl eq_refl))) as (l2 & b2 & Hc2 & _ & Hb2).
  rewrite Ep, Hc1 in Hc2. injection Hc2 as Hc2. apply app_last_inj in Hc2. destruct Hc2 as [_ <-].
  destruct (e_marker e'); [tauto|]. exfalso. exact (okc_dot Hb2).
Qed.
Lemma sel_dir_nil E T : Forall entry_shape E -> conflict_free E -> In T (dirs_of E) ->
  forall es, incl es E -> flat_map (sel T) es = [].
Proof.
  intros Hsh Hcf HT es Hin. rewrite Forall_forall in Hsh.
  induction es as [|e' es IH]; [reflexivity|]. cbn [flat_map]. rewrite IH by (intros x Hx; apply Hin; right; exact Hx).
  rewrite app_nil_r. unfold sel. destruct (String.eqb (e_path e') T) eqn:Ep; [|reflexivity].
  apply String.eqb_eq in Ep. pose proof (Hin e' (or_introl eq_refl)) as He'.
  destruct (Hsh e' He') as (l2 & b2 & Hc2 & _ & Hb2).
  destruct (e_marker e') eqn:Em; [tauto|]. exfalso. apply (Hcf T); [|exact HT].
  unfold files_of. rewrite <- Ep. apply in_map. apply filter_In. split; [exact He'|]. rewrite Em. reflexivity.
Qed.

(* ---------- path.Clean / fixStreamName on the paths of a valid manifest ---------- *)
Lemma clean_fold_okc : forall l stack, Forall okc l -> fold_left (clean_step false) l stack = rev l ++ stack.
Proof.
  induction l as [|c l IH]; intros stack H; [reflexivity|]. inversion H as [|? ? Hc Hl]; subst.
  cbn [fold_left rev]. unfold clean_step at 2. destruct (okc_inv _ Hc) as (E1 & E2 & E3). rewrite E1, E2, E3. cbn [orb].
  rewrite IH by exact Hl. rewrite <- app_assoc. reflexivity.
Qed.
Lemma okc_first c : okc c -> noslash c -> exists a r, c = String a r /\ Ascii.eqb a c_slash = false.
Proof.
  intros Hc Hn. destruct c as [|a r]; [exfalso; destruct (okc_inv _ Hc) as [E _]; discriminate|].
  exists a, r. split; [reflexivity|]. unfold noslash in Hn. cbn in Hn. apply orb_false_elim in Hn. tauto.
Qed.
Lemma fix_stream_name_path P l' tl : comps P = "."%string :: l' ++ tl -> Forall okc l' -> tl = [] \/ tl = ["."%string] \/ tl = [""%string] ->
  fix_stream_name P = path_string l'.
Proof.
  intros Hc Hl Htl.
  assert (HP : P = join "/" ("."%string :: l' ++ tl)) by (rewrite <- Hc; symmetry; apply join_comps).
  assert (Hns : Forall noslash l').
  { pose proof (comps_noslash P) as H. rewrite Hc in H. inversion H as [|? ? _ H']; subst. apply Forall_app in H'. tauto. }
  assert (Hfold : fold_left (clean_step false) (split_on c_slash P) [] = rev l').
  { fold (comps P). rewrite Hc. cbn [fold_left]. unfold clean_step at 2. cbn [String.eqb Ascii.eqb Bool.eqb orb].
    change (("." =? "") || ("." =? "."))%string with true. cbn iota.
    rewrite fold_left_app. rewrite (clean_fold_okc l' [] Hl). rewrite app_nil_r.
    destruct Htl as [->|[->| ->]]; [reflexivity| |]; cbn [fold_left]; unfold clean_step.
    - change (("." =? "") || ("." =? "."))%string with true. reflexivity.
    - change (("" =? "") || ("" =? "."))%string with true. reflexivity. }
  assert (Hclean : path_clean P = match l' with [] => "."%string | _ => join "/" l' end).
  { unfold path_clean. destruct P as [|a P'] eqn:EP.
    - exfalso. cbn in Hc. discriminate.
    - assert (Ha : a = "."%char).
      { rewrite join_cons in HP. cbn [append] in HP. injection HP as -> _. reflexivity. }
      subst a. change (Ascii.eqb "."%char c_slash) with false. cbn iota.
      rewrite Hfold, rev_involutive. destruct l' as [|x l1]; [reflexivity|].
      destruct (String.eqb (join "/" (x :: l1)) "") eqn:Ee; [|reflexivity]. exfalso.
      apply String.eqb_eq in Ee. inversion Hl as [|? ? Hx _]; subst. inversion Hns as [|? ? Hnx _]; subst.
      destruct (okc_first _ Hx Hnx) as (a & r & -> & _). rewrite join_cons in Ee. discriminate. }
  unfold fix_stream_name. rewrite Hclean. destruct l' as [|x l1]; [reflexivity|].
  inversion Hl as [|? ? Hx Hl1]; subst. inversion Hns as [|? ? Hnx Hn1]; subst.
  destruct (okc_first _ Hx Hnx) as (a & r & -> & Ha).
  assert (Hpre : has_prefix "/" (join "/" (String a r :: l1)) = false).
  { rewrite join_cons. cbn [append has_prefix]. rewrite Ascii.eqb_sym. change "/"%char with c_slash. rewrite Ha. reflexivity. }
  rewrite Hpre.
  destruct (String.eqb (join "/" (String a r :: l1)) ".") eqn:Ed.
  - exfalso. apply String.eqb_eq in Ed. apply (f_equal comps) in Ed. unfold comps in Ed.
    rewrite (split_on_join c_slash) in Ed by (try discriminate; constructor; assumption).
    cbn in Ed. inversion Ed; subst. exact (okc_dot Hx).
  - unfold path_string. rewrite join_cons2. reflexivity.
Qed.

(* ---------- parseManifestStream on a valid line ---------- *)
Definition gtok (f : ftok) : N * N * string := (ft_pos f, ft_len f, ft_name f).
Definition gs_of (s : stream) : gstream := {| g_name := s_name s; g_blocks := s_blocks s; g_fts := map gtok (s_ftoks s) |}.

Lemma lhex_hex a : is_lhex a = true -> is_hex a = true.
Proof. unfold is_hex. intros ->. reflexivity. Qed.
Lemma locator_go tok : is_locator tok = true -> go_locator tok = true.
Proof.
  unfold is_locator, go_locator, locator_with. destruct (split_on c_plus tok) as [|h [|sz hints]]; try discriminate.
  intros H. apply andb_prop in H. destruct H as [H H4]. apply andb_prop in H. destruct H as [H H3].
  apply andb_prop in H. destruct H as [H1 H2]. rewrite H1, H3, H4, (all_chars_impl _ _ _ lhex_hex H2). reflexivity.
Qed.
Lemma span_go_ok : forall blocks fts, Forall (fun t => is_locator t = true) blocks ->
  Forall (fun t => contains_char c_colon t = true) fts -> span_go_locators (blocks ++ fts) = (blocks, fts).
Proof.
  induction blocks as [|b r IH]; intros fts Hb Hf; cbn [app span_go_locators].
  - destruct fts as [|t fts]; [reflexivity|]. cbn [span_go_locators]. inversion Hf as [|? ? Ht _]; subst.
    destruct (go_locator t) eqn:E; [|reflexivity]. apply go_locator_no_colon in E. congruence.
  - inversion Hb as [|? ? H1 H2]; subst. rewrite (locator_go _ H1), (IH fts H2 Hf). reflexivity.
Qed.

Lemma parse_dec_uint64 s v : parse_dec s = Some v -> (v < 2 ^ 64)%N -> parse_uint64 s = Some v.
Proof.
  unfold parse_dec, parse_uint64. destruct (all_digits s); [|discriminate]. intros H Hlt. injection H as <-.
  destruct (N.ltb_spec (dec_val s) (2 ^ 64)); [reflexivity|lia].
Qed.
Lemma gm_parse_ftok_ok tok f : parse_ftok tok = Some f -> (ft_pos f < 2 ^ 64)%N -> (ft_len f < 2 ^ 64)%N ->
  gm_parse_ftok tok = Some (gtok f).
Proof.
  intros Hp H1 H2. destruct (parse_ftok_inv _ _ Hp) as (p & s & n & Hsp & Hpp & Hps & Hnm).
  unfold gm_parse_ftok. rewrite Hsp, (parse_dec_uint64 _ _ Hpp H1), (parse_dec_uint64 _ _ Hps H2).
  rewrite gm_unescape_eq, <- Hnm. reflexivity.
Qed.

Lemma stream_name_prefix sn ds : comps sn = "."%string :: ds -> String.eqb sn "." || has_prefix "./" sn = true.
Proof.
  intros H. rewrite <- (join_comps sn), H. destruct ds as [|d ds]; [reflexivity|].
  rewrite join_cons2. cbn [append]. apply orb_true_r.
Qed.

Lemma gm_parse_ok line s name fts : stream_ok line s name fts -> small_stream s -> gm_parse_stream line = GpOk (gs_of s).
Proof.
  intros Hok Hsm.
  destruct Hok as [so_parse0 so_split0 so_name0 so_blocks_ne0 so_fts_ne0 so_locs0 so_fts0 so_vname0 so_sizes0 so_files0 so_chars0].
  destruct (valid_stream_name_inv _ so_vname0) as (ds & Hsn & Hds).
  unfold gm_parse_stream. rewrite so_split0. rewrite gm_unescape_eq, <- so_name0.
  rewrite (stream_name_prefix _ _ Hsn). cbn [negb].
  assert (Hcolon : Forall (fun t => contains_char c_colon t = true) fts).
  { clear - so_fts0. induction so_fts0 as [|t f ts fs Hp _ IH]; constructor; [eapply ftok_has_colon; eauto|exact IH]. }
  rewrite (span_go_ok _ _ so_locs0 Hcolon).
  rewrite match_nonempty by exact so_blocks_ne0.
  assert (H63 : forallb (fun b => (loc_size b <? 2 ^ 63)%N) (s_blocks s) = true).
  { apply forallb_Forall. eapply Forall_impl; [|exact so_sizes0]. cbn. intros b Hb. apply N.ltb_lt. unfold max_block in Hb. lia. }
  rewrite H63. cbn [negb].
  assert (Hst : small_total (sizes_of (s_blocks s)) = true) by (apply N.ltb_lt; exact Hsm).
  rewrite Hst. cbn [negb]. rewrite match_nonempty by exact so_fts_ne0.
  assert (Hmo : map_opt gm_parse_ftok fts = Some (map gtok (s_ftoks s))).
  { clear - so_fts0 so_files0 Hsm. unfold small_stream in Hsm. induction so_fts0 as [|t f ts fs Hp _ IH]; [reflexivity|].
    inversion so_files0 as [|? ? [_ Hr] Hfs]; subst. cbn [map_opt map].
    rewrite (gm_parse_ftok_ok _ _ Hp) by lia. rewrite (IH Hfs). reflexivity. }
  rewrite Hmo.
  assert (Hrg : forallb (fun '(p, n, _) => go_range_ok (sizes_of (s_blocks s)) p n) (map gtok (s_ftoks s)) = true).
  { apply forallb_forall. intros x Hx. apply in_map_iff in Hx. destruct Hx as (f & <- & Hf).
    rewrite Forall_forall in so_files0. destruct (so_files0 f Hf) as [_ Hr]. unfold small_stream in Hsm.
    unfold gtok, go_range_ok, w64. rewrite N.mod_small by lia.
    apply andb_true_intro. split; [apply N.leb_le; exact Hr|]. apply negb_true_iff. apply N.ltb_ge. lia. }
  rewrite Hrg. reflexivity.
Qed.

(* non-blank lines = the lines of a valid text *)
Lemma valid_line_nonempty line s name fts : stream_ok line s name fts -> String.eqb line "" = false.
Proof.
  intros Hok. destruct (String.eqb line "") eqn:E; [|reflexivity]. apply String.eqb_eq in E. subst line.
  pose proof (so_parse _ _ _ _ Hok) as H. cbn in H. discriminate.
Qed.
Lemma gm_lines_valid txt ls m : lines_of txt = Some ls -> lines_ok ls m -> gm_lines txt = ls.
Proof.
  unfold lines_of, gm_lines. intros Hl Hok.
  destruct (rev (split_on c_nl txt)) as [|x r] eqn:Er; [discriminate|]. destruct x; [|discriminate]. injection Hl as <-.
  apply (f_equal (@rev string)) in Er. rewrite rev_involutive in Er. rewrite Er. cbn [rev]. rewrite filter_app. cbn. rewrite app_nil_r.
  generalize dependent m. generalize (rev r). clear. intros ls m Hok.
  induction Hok as [|l s ls m (name & fts & Hok) _ IH]; [reflexivity|].
  cbn [filter]. rewrite (valid_line_nonempty _ _ _ _ Hok). cbn [negb]. rewrite IH. reflexivity.
Qed.

(* ---------- sendFileSegmentIterByName ---------- *)
Lemma name_segs_nonempty blocks l : filter seg_nonempty (name_segs blocks l) = name_segs blocks (nonempty l).
Proof.
  unfold name_segs, nonempty. induction l as [|[[i o] n] l IH]; [reflexivity|].
  cbn [map filter]. unfold seg_nonempty at 1. destruct (0 <? n)%N; cbn [map]; rewrite IH; reflexivity.
Qed.

Definition tok_in (s : stream) (f : ftok) : Prop := (ft_pos f + ft_len f <= total (sizes_of (s_blocks s)))%N.

Lemma send_fts_ok s T : small_stream s -> forall fs, Forall (tok_in s) fs ->
  exists l, send_fts (gs_of s) T (map gtok fs) = Some l /\
            filter seg_nonempty l = flat_map (sel T) (map (entry_of (s_name s) (s_blocks s)) fs).
Proof.
  intros Hsm. induction fs as [|f fs IH]; intros Hin; [exists []; split; reflexivity|].
  inversion Hin as [|? ? Hf Hfs]; subst. destruct (IH Hfs) as (l & Hl & Hfl).
  cbn [map send_fts flat_map]. unfold gtok at 1. cbn [gs_of g_name].
  unfold sel at 1. unfold entry_of at 1. cbn [e_path e_segs]. unfold path_of.
  destruct (String.eqb (s_name s ++ "/" ++ ft_name f)%string T) eqn:Ep; cbn [negb].
  - destruct (N.eqb_spec (ft_len f) 0) as [E0|E0].
    + rewrite Hl. eexists. split; [reflexivity|]. rewrite filter_app, Hfl. cbn.
      rewrite E0. unfold ref. rewrite ref_from_len0. reflexivity.
    + unfold g_sizes. cbn [gs_of g_blocks]. unfold small_stream in Hsm. unfold tok_in in Hf.
      destruct (go_map_ref (sizes_of (s_blocks s)) (ft_pos f) (ft_len f)) as (l0 & Hg & Hne); [lia|exact Hf|lia|].
      rewrite Hg, Hl. eexists. split; [reflexivity|]. rewrite filter_app, Hfl, name_segs_nonempty, Hne. reflexivity.
  - exists l. split; [exact Hl|exact Hfl].
Qed.

(* send_segs for the path of a file token of the stream *)
Section Send.
Variables (E : list entry) (s : stream).
Hypothesis Hsh : Forall entry_shape E.
Hypothesis Hcf : conflict_free E.
Hypothesis Hin : incl (stream_entries s) E.
Hypothesis Hsm : small_stream s.
Hypothesis Htok : Forall (tok_in s) (s_ftoks s).

Lemma send_segs_ok e : In e (stream_entries s) ->
  exists l, send_segs (gs_of s) (e_path e) = Some l /\ filter seg_nonempty l = flat_map (sel (e_path e)) (stream_entries s).
Proof.
  intros He. unfold send_segs. cbn [gs_of g_fts].
  destruct (send_fts_ok s (fix_stream_name (e_path e)) Hsm (s_ftoks s) Htok) as (l & Hl & Hfl).
  exists l. split; [exact Hl|]. rewrite Hfl. fold (stream_entries s).
  pose proof (Hin e He) as HeE. rewrite Forall_forall in Hsh. destruct (Hsh e HeE) as (l' & b & Hc & Hl' & Hb).
  assert (Hns : Forall noslash (l' ++ [b])).
  { pose proof (comps_noslash (e_path e)) as H. rewrite Hc in H. inversion H; assumption. }
  destruct (e_marker e) eqn:Em.
  - destruct Hb as [-> _].
    rewrite (fix_stream_name_path _ l' ["."%string] Hc Hl') by auto.
    rewrite (sel_marker_nil E e) by (try apply Forall_forall; assumption).
    apply (sel_dir_nil E); [apply Forall_forall; exact Hsh|exact Hcf| |exact Hin].
    unfold dirs_of. apply in_flat_map. exists e. split; [exact HeE|].
    apply (dir_prefixes_spec _ _ _ Hc). destruct l' as [|x l1]; [left; reflexivity|]. right.
    exists (length (x :: l1)). rewrite app_length. cbn [length]. split; [lia|].
    rewrite firstn_app_le by (cbn [length]; lia). change (S (length l1)) with (length (x :: l1)). rewrite firstn_all. reflexivity.
  - rewrite (fix_stream_name_path _ (l' ++ [b]) [] ).
    + rewrite (path_string_of_comps _ _ Hc). reflexivity.
    + rewrite app_nil_r. exact Hc.
    + apply Forall_app. split; [exact Hl'|constructor; [exact Hb|constructor]].
    + auto.
Qed.
End Send.

(* ---------- StreamIter + FileSegmentIterByName ---------- *)
Definition drop_empty (x : string * list seg) : string * list seg := (fst x, filter seg_nonempty (snd x)).
Definition iter_ref_stream (s : stream) : list (string * list seg) :=
  map (fun f => let p := path_of (s_name s) (ft_name f) in (p, stream_segs s p)) (s_ftoks s).
Definition iter_ref (m : manifest) : list (string * list seg) := flat_map iter_ref_stream m.

Lemma stream_segs_entries s p : stream_segs s p = flat_map (sel p) (stream_entries s).
Proof. unfold stream_segs, stream_entries. rewrite flat_map_map. reflexivity. Qed.

Lemma gs_paths s : map (fun '(_, _, nm) => (g_name (gs_of s) ++ "/" ++ nm)%string) (g_fts (gs_of s)) = map e_path (stream_entries s).
Proof. cbn [gs_of g_name g_fts]. unfold stream_entries. rewrite !map_map. reflexivity. Qed.

Lemma stream_tok_in line s name fts : stream_ok line s name fts -> Forall (tok_in s) (s_ftoks s).
Proof. intros Hok. eapply Forall_impl; [|exact (so_files _ _ _ _ Hok)]. cbn. intros f [_ H]. exact H. Qed.

Lemma iter_stream_ok E s : Forall entry_shape E -> conflict_free E -> incl (stream_entries s) E -> small_stream s ->
  Forall (tok_in s) (s_ftoks s) ->
  forall es, incl es (stream_entries s) ->
  exists a, map_opt (fun p => match send_segs (gs_of s) p with Some l => Some (p, l) | None => None end) (map e_path es) = Some a /\
            map drop_empty a = map (fun e => (e_path e, stream_segs s (e_path e))) es.
Proof.
  intros Hsh Hcf Hin Hsm Htok. induction es as [|e es IH]; intros Hes; [exists []; split; reflexivity|].
  destruct IH as (a & Ha & Hda); [intros x Hx; apply Hes; right; exact Hx|].
  destruct (send_segs_ok E s Hsh Hcf Hin Hsm Htok e (Hes e (or_introl eq_refl))) as (l & Hl & Hfl).
  cbn [map map_opt]. rewrite Hl, Ha. eexists. split; [reflexivity|]. cbn [map]. rewrite Hda. unfold drop_empty at 1. cbn [fst snd].
  rewrite Hfl, stream_segs_entries. reflexivity.
Qed.

Lemma iter_lines_ok E : Forall entry_shape E -> conflict_free E -> forall ls m, lines_ok ls m -> Forall small_stream m ->
  incl (entries m) E ->
  exists l, iter_lines ls = Ok l /\ map drop_empty l = iter_ref m.
Proof.
  intros Hsh Hcf ls m Hok. induction Hok as [|line s ls m (name & fts & Hok) _ IH]; intros Hsm Hin.
  - exists []. split; reflexivity.
  - inversion Hsm as [|? ? Hs Hsm']; subst. cbn [entries flat_map] in Hin.
    assert (Hin1 : incl (stream_entries s) E) by (intros x Hx; apply Hin; apply in_app_iff; left; exact Hx).
    destruct IH as (l2 & Hl2 & Hd2); [exact Hsm'|intros x Hx; apply Hin; apply in_app_iff; right; exact Hx|].
    destruct (iter_stream_ok E s Hsh Hcf Hin1 Hs (stream_tok_in _ _ _ _ Hok) (stream_entries s) (incl_refl _)) as (a & Ha & Hda).
    cbn [iter_lines]. rewrite (gm_parse_ok _ _ _ _ Hok Hs). rewrite gs_paths, Ha, Hl2.
    exists (a ++ l2). split; [reflexivity|]. rewrite map_app, Hda, Hd2. cbn [iter_ref flat_map]. f_equal.
    unfold iter_ref_stream, stream_entries. rewrite map_map. reflexivity.
Qed.

Theorem gm_iter_text_agrees : forall txt m,
  valid_manifest txt = true -> parse_manifest txt = Some m -> small_manifest m = true ->
  exists l, gm_iter txt = Ok l /\ map drop_empty l = iter_ref m.
Proof.
  intros txt m Hv Hp Hsm. destruct (valid_manifest_inv _ Hv) as (ls & m' & Hls & Hmo & Hp' & Hvl & Hnc).
  rewrite Hp in Hp'. injection Hp' as <-. apply small_manifest_spec in Hsm.
  pose proof (valid_lines_ok _ _ Hvl Hmo) as Hok.
  unfold gm_iter. rewrite (gm_lines_valid _ _ _ Hls Hok).
  apply (iter_lines_ok (entries m)); auto using incl_refl, no_conflict_free. eapply entries_shape; eauto.
Qed.

(* ---------- Manifest.segment ---------- *)
Lemma assoc_get_set {A} k k' (v : A) : forall l, assoc_get k (assoc_set k' v l) = if String.eqb k k' then Some v else assoc_get k l.
Proof.
  induction l as [|[k0 v0] l IH]; cbn [assoc_set assoc_get].
  - destruct (String.eqb k k'); reflexivity.
  - destruct (String.eqb k' k0) eqn:E0; cbn [assoc_get].
    + apply String.eqb_eq in E0. subst k0. destruct (String.eqb k k'); reflexivity.
    + destruct (String.eqb k k0) eqn:E1.
      * apply String.eqb_eq in E1. subst k0. rewrite String.eqb_sym, E0. reflexivity.
      * exact IH.
Qed.

Definition get2 (sm : smanifest) (a b : string) : option (list seg) :=
  match assoc_get a sm with Some sf => assoc_get b sf | None => None end.
Definition sf_of (sm : smanifest) (a : string) : sfiles := match assoc_get a sm with Some sf => sf | None => [] end.
Lemma get2_sf sm a b : get2 sm a b = assoc_get b (sf_of sm a).
Proof. unfold get2, sf_of. destruct (assoc_get a sm); reflexivity. Qed.
Lemma get2_touch sm a0 a b : get2 (assoc_set a0 (sf_of sm a0) sm) a b = get2 sm a b.
Proof.
  unfold get2 at 1. rewrite assoc_get_set. destruct (String.eqb a a0) eqn:E; [|reflexivity].
  apply String.eqb_eq in E. subst a0. symmetry. apply get2_sf.
Qed.
Lemma get2_update sm a0 b0 v a b :
  get2 (assoc_set a0 (assoc_set b0 v (sf_of sm a0)) sm) a b =
  if String.eqb a a0 && String.eqb b b0 then Some v else get2 sm a b.
Proof.
  unfold get2 at 1. rewrite assoc_get_set. destruct (String.eqb a a0) eqn:E; cbn [andb]; [|reflexivity].
  apply String.eqb_eq in E. subst a0. rewrite assoc_get_set. destruct (String.eqb b b0); [reflexivity|]. symmetry. apply get2_sf.
Qed.

Lemma mem_str_app x a b : mem_str x (a ++ b) = mem_str x a || mem_str x b.
Proof. unfold mem_str. apply existsb_app. Qed.
Lemma sel_notin p : forall es, mem_str p (map e_path es) = false -> flat_map (sel p) es = [].
Proof.
  induction es as [|e es IH]; intros H; [reflexivity|]. cbn [map mem_str existsb] in H. apply orb_false_elim in H.
  destruct H as [H1 H2]. cbn [flat_map]. rewrite (IH H2), app_nil_r. unfold sel. rewrite String.eqb_sym, H1. reflexivity.
Qed.

(* splitPath on a path with at least two components *)
Lemma split_path_comps P c0 l b : comps P = c0 :: l ++ [b] ->
  split_path P = (join "/" (c0 :: l), b) /\ P = (join "/" (c0 :: l) ++ "/" ++ b)%string.
Proof.
  intros Hc. split.
  - unfold split_path. fold (comps P). rewrite Hc. change (c0 :: l ++ [b]) with ((c0 :: l) ++ [b]). rewrite rev_app_distr.
    cbn [rev app]. destruct (rev l ++ [c0]) as [|x r] eqn:Er; [destruct (rev l); discriminate|].
    rewrite <- Er. change (rev l ++ [c0]) with (rev (c0 :: l)). rewrite rev_involutive. reflexivity.
  - rewrite <- (join_comps P) at 1. rewrite Hc. change (c0 :: l ++ [b]) with ((c0 :: l) ++ [b]). apply join_snoc. discriminate.
Qed.
Lemma path_key_inj a b a' b' : noslash b -> noslash b' -> (a ++ "/" ++ b)%string = (a' ++ "/" ++ b')%string -> a = a' /\ b = b'.
Proof.
  intros Hb Hb' H. apply (f_equal comps) in H. unfold comps in H. cbn [append] in H. change "/"%char with c_slash in H.
  rewrite !split_on_app_sep in H.
  rewrite (split_on_nosep _ _ Hb), (split_on_nosep _ _ Hb') in H. apply app_inj_tail in H. destruct H as [H ->].
  split; [|reflexivity]. rewrite <- (join_comps a), <- (join_comps a'). unfold comps. rewrite H. reflexivity.
Qed.

Lemma noslash_has_suffix y : noslash y -> has_suffix_slash y = false.
Proof.
  unfold noslash. induction y as [|a r IH]; intros H; [reflexivity|]. cbn in H. apply orb_false_elim in H. destruct H as [Ha Hr].
  cbn [has_suffix_slash]. destruct r; [exact Ha|]. apply IH. exact Hr.
Qed.
Lemma has_suffix_slash_app x a r : has_suffix_slash (x ++ String a r)%string = has_suffix_slash (String a r).
Proof.
  induction x as [|c x IH]; [reflexivity|]. cbn [append]. rewrite <- IH.
  destruct (x ++ String a r)%string eqn:E; [destruct x; discriminate|]. reflexivity.
Qed.
Lemma stream_name_no_suffix sn ds : comps sn = "."%string :: ds -> Forall okc ds -> has_suffix_slash sn = false.
Proof.
  intros Hc Hds. pose proof (comps_noslash sn) as Hns. rewrite Hc in Hns. inversion Hns as [|? ? _ Hnd]; subst.
  rewrite <- (join_comps sn), Hc. destruct ds as [|d ds] using rev_ind; [reflexivity|].
  change ("."%string :: ds ++ [d]) with (("."%string :: ds) ++ [d]). rewrite join_snoc by discriminate.
  apply Forall_app in Hds. destruct Hds as [_ Hd]. inversion Hd as [|? ? Hd' _]; subst.
  apply Forall_app in Hnd. destruct Hnd as [_ Hn]. inversion Hn as [|? ? Hn' _]; subst.
  destruct (okc_first _ Hd' Hn') as (a & r & -> & _).
  rewrite <- append_assoc. rewrite has_suffix_slash_app. apply noslash_has_suffix. exact Hn'.
Qed.

Definition nsl (b : string) : bool := negb (contains_char c_slash b).
Definition key_path (a b : string) : string := (a ++ "/" ++ b)%string.
(* what the map holds after the streams with entries es0 and, of the current stream (entries es), the tokens pre *)
Definition mval (es0 es pre : list entry) (a b : string) : option (list seg) :=
  let P := key_path a b in
  if nsl b && mem_str P (map e_path (es0 ++ pre))
  then Some (flat_map (sel P) es0 ++ (if mem_str P (map e_path pre) then flat_map (sel P) es else []))
  else None.
Definition sm_ne (sm : smanifest) : Prop := forall a sf, assoc_get a sm = Some sf -> sf <> [].

Lemma assoc_set_ne {A} k (v : A) l : assoc_set k v l <> [].
Proof. destruct l as [|[k0 v0] l]; cbn; [discriminate|]. destruct (String.eqb k k0); discriminate. Qed.
Lemma sm_ne_set sm a v : sm_ne sm -> v <> [] -> sm_ne (assoc_set a v sm).
Proof.
  intros H Hv a' sf. rewrite assoc_get_set. destruct (String.eqb a' a); [intros E; injection E as <-; exact Hv|apply H].
Qed.
Lemma mem_str_snoc_same x y l : mem_str y l = true -> mem_str x (l ++ [y]) = mem_str x l.
Proof.
  intros H. rewrite mem_str_app. cbn [mem_str existsb]. rewrite orb_false_r.
  destruct (String.eqb x y) eqn:E; [|apply orb_false_r]. apply String.eqb_eq in E. subst y. rewrite H. reflexivity.
Qed.
Lemma mem_str_snoc x y l : mem_str x (l ++ [y]) = mem_str x l || String.eqb x y.
Proof. rewrite mem_str_app. cbn [mem_str existsb]. rewrite orb_false_r. reflexivity. Qed.

Section Segment.
Variables (E : list entry) (s : stream) (es0 : list entry) (ds : list string).
Hypothesis Hsh : Forall entry_shape E.
Hypothesis Hcf : conflict_free E.
Hypothesis Hin : incl (stream_entries s) E.
Hypothesis Hsm : small_stream s.
Hypothesis Htok : Forall (tok_in s) (s_ftoks s).
Let es := stream_entries s.
Let eo := entry_of (s_name s) (s_blocks s).

Lemma segment_fts_ok : forall fr pf seen files,
  s_ftoks s = pf ++ fr ->
  (forall P, mem_str P seen = mem_str P (map e_path (map eo pf))) ->
  (forall a b, get2 files a b = mval es0 es (map eo pf) a b) -> sm_ne files ->
  exists files', segment_fts (gs_of s) (s_name s) (map gtok fr) seen files = Some files' /\
                 (forall a b, get2 files' a b = mval es0 es es a b) /\ sm_ne files'.
Proof.
  induction fr as [|f fr IH]; intros pf seen files Hsplit Hseen Hget Hne.
  - exists files. split; [reflexivity|]. split; [|exact Hne]. rewrite app_nil_r in Hsplit.
    intros a b. rewrite Hget. unfold es, stream_entries. fold eo. rewrite Hsplit. reflexivity.
  - set (e := eo f).
    assert (He : In e es).
    { unfold es, stream_entries. fold eo. apply in_map. rewrite Hsplit. apply in_app_iff. right. left. reflexivity. }
    pose proof (Hin e He) as HeE. pose proof Hsh as Hsh'. rewrite Forall_forall in Hsh'.
    destruct (Hsh' e HeE) as (l' & b0 & Hc & Hl' & Hb).
    destruct (split_path_comps _ _ _ _ Hc) as [Hsp HP]. set (a0 := join "/" ("."%string :: l')) in *.
    assert (Hnb0 : noslash b0).
    { pose proof (comps_noslash (e_path e)) as H. rewrite Hc in H. inversion H as [|? ? _ H']; subst.
      apply Forall_app in H'. destruct H' as [_ H']. inversion H'; assumption. }
    assert (Hkey : forall a b, nsl b = true -> (String.eqb a a0 && String.eqb b b0 = String.eqb (key_path a b) (e_path e))).
    { intros a b Hb'. unfold nsl in Hb'. apply negb_true_iff in Hb'.
      destruct (String.eqb (key_path a b) (e_path e)) eqn:Ek.
      - apply String.eqb_eq in Ek. rewrite HP in Ek. apply path_key_inj in Ek; [|exact Hb'|exact Hnb0].
        destruct Ek as [-> ->]. rewrite !String.eqb_refl. reflexivity.
      - apply andb_false_iff. destruct (String.eqb a a0) eqn:Ea; [|auto]. right. destruct (String.eqb b b0) eqn:Eb; [|auto].
        apply String.eqb_eq in Ea, Eb. subst a b. unfold key_path in Ek. rewrite <- HP, String.eqb_refl in Ek. discriminate. }
    assert (Hsplit' : s_ftoks s = (pf ++ [f]) ++ fr) by (rewrite <- app_assoc; exact Hsplit).
    cbn [map segment_fts]. unfold gtok at 1.
    change (s_name s ++ "/" ++ ft_name f)%string with (e_path e). rewrite Hsp.
    fold (sf_of files a0).
    destruct (mem_str (e_path e) seen) eqn:Eseen.
    + (* already collected *)
      pose proof Eseen as Epre. rewrite Hseen in Epre.
      apply (IH (pf ++ [f]) seen _ Hsplit').
      * intros P. rewrite Hseen, !map_app. cbn [map]. fold e. symmetry. apply mem_str_snoc_same. exact Epre.
      * intros a b. rewrite get2_touch, Hget. unfold mval. rewrite !map_app. cbn [map]. fold e.
        rewrite app_assoc, !mem_str_snoc_same; [reflexivity|exact Epre|rewrite mem_str_app, Epre; apply orb_true_r].
      * apply sm_ne_set; [exact Hne|].
        pose proof (Hget a0 b0) as H0. unfold mval in H0. fold (key_path a0 b0) in HP. rewrite <- HP in H0.
        rewrite map_app, mem_str_app, Epre, orb_true_r in H0.
        replace (nsl b0) with true in H0 by (symmetry; apply negb_true_iff; exact Hnb0). cbn [andb] in H0.
        unfold get2 in H0. unfold sf_of. destruct (assoc_get a0 files) as [sf|] eqn:Ea; [|discriminate]. apply (Hne a0). exact Ea.
    + (* first token of this path in the stream: all its tokens are collected now *)
      pose proof Eseen as Epre. rewrite Hseen in Epre.
      destruct (send_segs_ok E s Hsh Hcf Hin Hsm Htok e He) as (sent & Hsent & Hfl). rewrite Hsent.
      apply (IH (pf ++ [f]) (e_path e :: seen) _ Hsplit').
      * intros P. cbn [mem_str existsb]. fold (mem_str P seen). rewrite Hseen, !map_app. cbn [map]. fold e.
        rewrite mem_str_snoc. apply orb_comm.
      * intros a b. rewrite get2_update.
        assert (Hold : match assoc_get b0 (sf_of files a0) with Some l => l | None => [] end = flat_map (sel (e_path e)) es0).
        { rewrite <- get2_sf, Hget. unfold mval. fold (key_path a0 b0) in HP. rewrite <- HP.
          rewrite map_app, mem_str_app, Epre, orb_false_r.
          replace (nsl b0) with true by (symmetry; apply negb_true_iff; exact Hnb0). cbn [andb].
          destruct (mem_str (e_path e) (map e_path es0)) eqn:E0; [apply app_nil_r|]. symmetry. apply sel_notin. exact E0. }
        rewrite Hold, Hfl. fold es.
        unfold mval. rewrite !map_app. cbn [map]. fold e. rewrite app_assoc, !mem_str_snoc.
        destruct (nsl b) eqn:Enb.
        -- rewrite (Hkey a b Enb). destruct (String.eqb (key_path a b) (e_path e)) eqn:Ek.
           ++ apply String.eqb_eq in Ek. rewrite Ek. rewrite !orb_true_r. reflexivity.
           ++ rewrite !orb_false_r. rewrite Hget. unfold mval. rewrite Enb, map_app. reflexivity.
        -- assert (Hbb : String.eqb b b0 = false).
           { destruct (String.eqb b b0) eqn:Eb; [|reflexivity]. apply String.eqb_eq in Eb. subst b.
             unfold nsl in Enb. apply negb_false_iff in Enb. unfold noslash in Hnb0. congruence. }
           rewrite Hbb, andb_false_r. rewrite Hget. unfold mval. rewrite Enb. reflexivity.
      * apply sm_ne_set; [exact Hne|apply assoc_set_ne].
Qed.
End Segment.

Definition sval (es0 : list entry) (a b : string) : option (list seg) :=
  let P := key_path a b in
  if nsl b && mem_str P (map e_path es0) then Some (flat_map (sel P) es0) else None.

Lemma mval_start es0 es a b : mval es0 es [] a b = sval es0 a b.
Proof. unfold mval, sval. cbn [map mem_str existsb]. rewrite !app_nil_r. reflexivity. Qed.
Lemma mval_end es0 es a b : mval es0 es es a b = sval (es0 ++ es) a b.
Proof.
  unfold mval, sval. destruct (nsl b && mem_str (key_path a b) (map e_path (es0 ++ es))); [|reflexivity].
  rewrite flat_map_app. destruct (mem_str (key_path a b) (map e_path es)) eqn:E; [reflexivity|].
  rewrite (sel_notin _ _ E). reflexivity.
Qed.

Lemma segment_lines_ok E : Forall entry_shape E -> conflict_free E -> forall ls m, lines_ok ls m -> Forall small_stream m ->
  incl (entries m) E -> forall es0 files, (forall a b, get2 files a b = sval es0 a b) -> sm_ne files ->
  exists sm, segment_lines ls files = Ok sm /\ (forall a b, get2 sm a b = sval (es0 ++ entries m) a b) /\ sm_ne sm.
Proof.
  intros Hsh Hcf ls m Hok. induction Hok as [|line s ls m (name & fts & Hok) _ IH]; intros Hsm Hin es0 files Hget Hne.
  - exists files. cbn [entries flat_map]. rewrite app_nil_r. auto.
  - inversion Hsm as [|? ? Hs Hsm']; subst. cbn [entries flat_map] in Hin.
    assert (Hin1 : incl (stream_entries s) E) by (intros x Hx; apply Hin; apply in_app_iff; left; exact Hx).
    destruct (valid_stream_name_inv _ (so_vname _ _ _ _ Hok)) as (ds & Hsn & Hds).
    cbn [segment_lines]. rewrite (gm_parse_ok _ _ _ _ Hok Hs). cbn [gs_of g_name g_fts].
    rewrite (stream_name_no_suffix _ _ Hsn Hds).
    destruct (segment_fts_ok E s es0 Hsh Hcf Hin1 Hs (stream_tok_in _ _ _ _ Hok) (s_ftoks s) [] [] files eq_refl)
      as (files' & Hseg & Hget' & Hne').
    { reflexivity. }
    { intros a b. rewrite Hget. symmetry. apply mval_start. }
    { exact Hne. }
    change (map gtok (s_ftoks s)) with (g_fts (gs_of s)) in Hseg. cbn [gs_of g_fts] in Hseg.
    change {| g_name := s_name s; g_blocks := s_blocks s; g_fts := map gtok (s_ftoks s) |} with (gs_of s).
    rewrite Hseg.
    destruct (IH Hsm') with (es0 := es0 ++ stream_entries s) (files := files') as (sm & Hsm2 & Hget2 & Hne2).
    { intros x Hx. apply Hin. apply in_app_iff. right. exact Hx. }
    { intros a b. rewrite Hget'. apply mval_end. }
    { exact Hne'. }
    exists sm. split; [exact Hsm2|]. split; [|exact Hne2]. cbn [entries flat_map]. rewrite app_assoc. exact Hget2.
Qed.

(* Manifest.segment on a valid text: the map (stream name, file name) -> segments is the reference denotation *)
Theorem gm_segment_text_full : forall txt m,
  valid_manifest txt = true -> parse_manifest txt = Some m -> small_manifest m = true ->
  exists sm, gm_segment txt = Ok sm /\ (forall a b, get2 sm a b = sval (entries m) a b) /\ sm_ne sm.
Proof.
  intros txt m Hv Hp Hsm. destruct (valid_manifest_inv _ Hv) as (ls & m' & Hls & Hmo & Hp' & Hvl & Hnc).
  rewrite Hp in Hp'. injection Hp' as <-. apply small_manifest_spec in Hsm.
  pose proof (valid_lines_ok _ _ Hvl Hmo) as Hok.
  unfold gm_segment. rewrite (gm_lines_valid _ _ _ Hls Hok).
  destruct (segment_lines_ok (entries m) (entries_shape _ _ Hok) (no_conflict_free _ Hnc) ls m Hok Hsm (incl_refl _) [] [])
    as (sm & Hseg & Hget & Hne).
  { intros a b. unfold get2, sval. cbn. rewrite andb_false_r. reflexivity. }
  { intros a sf H. discriminate. }
  exists sm. split; [exact Hseg|]. split; [|exact Hne]. intros a b. rewrite Hget. reflexivity.
Qed.
Theorem gm_segment_text_agrees : forall txt m,
  valid_manifest txt = true -> parse_manifest txt = Some m -> small_manifest m = true ->
  exists sm, gm_segment txt = Ok sm /\
    forall a b, get2 sm a b =
      if nsl b && mem_str (key_path a b) (all_paths m) then Some (denote m (key_path a b)) else None.
Proof.
  intros txt m Hv Hp Hsm. destruct (gm_segment_text_full txt m Hv Hp Hsm) as (sm & Hseg & Hget & _).
  exists sm. split; [exact Hseg|]. intros a b. rewrite Hget. unfold sval.
  rewrite all_paths_entries, denote_entries. reflexivity.
Qed.

(* the shape facts of a valid manifest, for later use *)
Lemma valid_manifest_shape txt m : valid_manifest txt = true -> parse_manifest txt = Some m ->
  Forall entry_shape (entries m) /\ conflict_free (entries m) /\ exists ls, lines_ok ls m.
Proof.
  intros Hv Hp. destruct (valid_manifest_inv _ Hv) as (ls & m' & Hls & Hmo & Hp' & Hvl & Hnc).
  rewrite Hp in Hp'. injection Hp' as <-. pose proof (valid_lines_ok _ _ Hvl Hmo) as Hok.
  split; [eapply entries_shape; eauto|]. split; [apply no_conflict_free; exact Hnc|]. exists ls. exact Hok.
Qed.
