(* One manifest line as marshalManifest writes it, read back by the loader: tokens, block list,
   file parts, and the tree insertions they amount to. *)
From Coq Require Import List Arith Lia Bool Ascii String NArith.
Import ListNotations.
From AV Require Import lib.Str lib.Path model.CFS_file model.CFS_tree model.CFS_inst model.CFS_bg model.CFS_tload
  proofs.CFS_file_proofs proofs.CFS_prov proofs.CFS_bg_proofs proofs.CFS_escape_proofs proofs.CFS_text_lemmas
  proofs.CFS_range_proofs proofs.CFS_stream_proofs proofs.CFS_rt_defs.
Notation length := List.length.
Notation byte := CFS_file.byte.
Local Open Scope string_scope.
Local Open Scope list_scope.

Definition nl : ascii := ascii_of_N 10.

Lemma str_contains_has_char c s : str_contains c s = has_char c s.
Proof. induction s as [|x r IH]; cbn [str_contains has_char]; [reflexivity|]. rewrite IH. reflexivity. Qed.

(* ---- the locator table: what Keep hands out ---- *)
(* a locator is a token without separators that states the size of its block after the first '+' *)
Definition loc_ok (d : list byte) (l : string) : Prop :=
  has_char ":"%char l = false /\ has_char " "%char l = false /\ has_char nl l = false /\
  exists h sz rest, splitn3 "+"%char l = h :: sz :: rest /\ parse_dec sz = Some (length d).
(* every entry is well formed, and one locator never names two different blocks *)
Definition TabOK (tab : list (list byte * string)) : Prop :=
  (forall d l, In (d, l) tab -> loc_ok d l) /\
  (forall d d' l, In (d, l) tab -> In (d', l) tab -> d = d').
Definition InTab (tab : list (list byte * string)) (blks : list (list byte)) : Prop :=
  forall d, In d blks -> exists l, In (d, l) tab.

Lemma bytes_beq_spec d : forall d', bytes_beq d d' = true <-> d = d'.
Proof.
  unfold bytes_beq. induction d as [|x d IH]; intros [|y d']; cbn [length combine forallb Nat.eqb andb fst snd];
    try (split; [discriminate|discriminate]); [split; reflexivity|].
  specialize (IH d'). split.
  - intros H. apply andb_true_iff in H. destruct H as [H1 H2]. apply andb_true_iff in H2. destruct H2 as [H2 H3].
    apply Nat.eqb_eq in H2. subst y. f_equal. apply IH. rewrite H1, H3. reflexivity.
  - intros E. inversion E; subst. destruct IH as [_ IH]. specialize (IH eq_refl). apply andb_true_iff in IH.
    destruct IH as [I1 I2]. rewrite I1, I2, Nat.eqb_refl. reflexivity.
Qed.

Lemma loc_text_in tab d : (exists l, In (d, l) tab) -> In (d, loc_text tab d) tab.
Proof.
  induction tab as [|[d0 l0] tab IH]; intros (l & Hin); [destruct Hin|]. cbn [loc_text].
  fold (bytes_beq d0 d). destruct (bytes_beq d0 d) eqn:E.
  - apply bytes_beq_spec in E. subst d0. left. reflexivity.
  - right. apply IH. destruct Hin as [Hin|Hin]; [|exists l; exact Hin]. inversion Hin; subst.
    assert (bytes_beq d d = true) by (apply bytes_beq_spec; reflexivity). congruence.
Qed.

Lemma find_block_some tab l : forall k i d, find_block tab k l = Some (i, d) -> In (d, l) tab.
Proof.
  induction tab as [|[d0 l0] tab IH]; intros k i d; cbn [find_block]; [discriminate|].
  destruct (String.eqb_spec l0 l) as [->|]; [intros E; inversion E; subst; left; reflexivity|].
  intros E. right. eapply IH. exact E.
Qed.
Lemma find_block_none tab l : forall k, find_block tab k l = None -> forall d, ~ In (d, l) tab.
Proof.
  induction tab as [|[d0 l0] tab IH]; intros k; cbn [find_block]; [intros _ d []|].
  destruct (String.eqb_spec l0 l) as [->|Hne]; [discriminate|]. intros E d [Hin|Hin]; [inversion Hin; subst; congruence|].
  eapply IH; eassumption.
Qed.

Section Table.
Variable tab : list (list byte * string).
Hypothesis Htab : TabOK tab.

Lemma loc_text_inj blks d d' : InTab tab blks -> In d blks -> In d' blks -> loc_text tab d = loc_text tab d' -> d = d'.
Proof.
  intros HI Hd Hd' E. destruct Htab as [_ Hf]. apply (Hf d d' (loc_text tab d)).
  - apply loc_text_in. apply HI. exact Hd.
  - rewrite E. apply loc_text_in. apply HI. exact Hd'.
Qed.

(* a block token *)
Definition mk_lseg (i : nat) (d : list byte) : lseg := {| ls_loc := i; ls_size := length d; ls_data := d |}.

Lemma classify_block d l : In (d, l) tab -> exists i, classify tab l = TBlock (mk_lseg i d).
Proof.
  intros Hin. destruct Htab as [Hok Hf]. destruct (Hok d l Hin) as (Hc & _ & _ & (h & sz & rest & Es & Ep)).
  unfold classify. rewrite str_contains_has_char, Hc. cbn [negb]. rewrite Es, Ep.
  destruct (find_block tab 0 l) as [[i d0]|] eqn:Ef.
  - apply find_block_some in Ef. rewrite (Hf d0 d l Ef Hin). exists i. unfold mk_lseg. destruct (length d); reflexivity.
  - exfalso. eapply find_block_none; eassumption.
Qed.

Lemma classify_empty_loc : exists b, classify tab empty_block_loc = TBlock b /\ ls_size b = 0 /\ ls_data b = [].
Proof.
  unfold classify. change (negb (str_contains ":"%char empty_block_loc)) with true. cbv iota.
  change (splitn3 "+"%char empty_block_loc) with ["d41d8cd98f00b204e9800998ecf8427e"; "0"; ""].
  change (parse_dec "0") with (Some 0).
  destruct (find_block tab 0 empty_block_loc) as [[i d0]|] eqn:Ef.
  - eexists. split; [reflexivity|]. cbn. split; [reflexivity|].
    apply find_block_some in Ef. destruct Htab as [Hok _]. destruct (Hok _ _ Ef) as (_ & _ & _ & (h & sz & rest & Es & Ep)).
    change (splitn3 "+"%char empty_block_loc) with ["d41d8cd98f00b204e9800998ecf8427e"; "0"; ""] in Es.
    inversion Es; subst. change (parse_dec "0") with (Some 0) in Ep. inversion Ep as [E0]. destruct d0; [reflexivity|discriminate].
  - eexists. split; [reflexivity|]. split; reflexivity.
Qed.

End Table.

(* a file token *)
Lemma digits_no_char c n : (N_of_ascii c < 48 \/ 57 < N_of_ascii c)%N -> has_char c (nat_dec n) = false.
Proof.
  intros Hc. destruct (has_char c (nat_dec n)) eqn:E; [|reflexivity]. apply nat_dec_digits in E.
  apply andb_true_iff in E. destruct E as [E1 E2]. apply N.leb_le in E1. apply N.leb_le in E2. lia.
Qed.

Lemma classify_part tab p : classify tab (part_text p) = TFile (fp_off p) (fp_len p) (manifest_escape (fp_name p)).
Proof.
  unfold classify, part_text. rewrite str_contains_has_char.
  rewrite !has_char_app. cbn [has_char]. rewrite Ascii.eqb_refl. rewrite orb_true_r. cbn [orb negb].
  unfold splitn3_exact.
  change (nat_dec (fp_off p) ++ ":" ++ nat_dec (fp_len p) ++ ":" ++ manifest_escape (fp_name p))%string
    with (join_with ":" [nat_dec (fp_off p); nat_dec (fp_len p); manifest_escape (fp_name p)]).
  rewrite split_join.
  - cbn [join_with]. rewrite !parse_dec_nat_dec. reflexivity.
  - discriminate.
  - constructor; [apply digits_no_char; right; reflexivity|]. constructor; [apply digits_no_char; right; reflexivity|].
    constructor; [apply escape_no_colon|constructor].
Qed.

(* ---- path of a file inside a directory ---- *)
Lemma split_acc_snoc c n : has_char c n = false -> forall a k,
  split_acc c (a ++ String c n) k = split_acc c a k ++ [n].
Proof.
  intros Hn. induction a as [|x a IH]; intros k; cbn [append split_acc].
  - rewrite Ascii.eqb_refl. rewrite split_acc_nochar by exact Hn. reflexivity.
  - destruct (Ascii.eqb x c); [rewrite IH; reflexivity|apply IH].
Qed.
Lemma split_slash_snoc a n : has_char "/"%char n = false -> split_slash (a ++ "/" ++ n) = split_slash a ++ [n].
Proof. intros Hn. unfold split_slash, split_char. cbn [append]. apply split_acc_snoc. exact Hn. Qed.

Lemma valid_name_facts n : valid_name n -> has_char "/"%char n = false /\ n <> "." /\ special_name n = false.
Proof.
  intros [Hs Hc]. rewrite str_contains_has_char in Hc. split; [exact Hc|]. split; [|exact Hs].
  intros ->. discriminate Hs.
Qed.

Lemma tcreate_file t dn n : valid_name n ->
  tcreate t (dn ++ "/" ++ n) =
  match tmkdirs t [] (split_slash dn) with
  | None => None
  | Some (t1, cur) => match tmod t1 cur (ensure_file n) with
                      | Some t2 => Some (t2, Some (cur ++ [n]))
                      | None => None
                      end
  end.
Proof.
  intros Hv. destruct (valid_name_facts n Hv) as (Hc & Hd & Hs).
  unfold tcreate. rewrite split_slash_snoc by exact Hc. rewrite last_last, removelast_last.
  destruct (tmkdirs t [] (split_slash dn)) as [[t1 cur]|]; [|reflexivity].
  destruct (String.eqb_spec n "."); [contradiction|]. rewrite Hs. reflexivity.
Qed.

(* ---- reading the block tokens ---- *)
Lemma load_block_tokens tab dn rest t : forall toks LBnew LB si pos,
  Forall2 (fun tk b => classify tab tk = TBlock b) toks LBnew ->
  t_load_tokens tab dn (toks ++ rest) t LB false si pos = t_load_tokens tab dn rest t (LB ++ LBnew) false si pos.
Proof.
  induction toks as [|tk toks IH]; intros LBnew LB si pos H; inversion H; subst.
  - rewrite app_nil_r. reflexivity.
  - cbn [app t_load_tokens]. match goal with E : classify tab tk = _ |- _ => rewrite E end.
    rewrite IH with (LBnew := l') by assumption. rewrite <- app_assoc. reflexivity.
Qed.

(* ---- reading the file tokens ---- *)
Lemma ldata_sized_length LB : Forall lseg_sized LB -> True.
Proof. trivial. Qed.

Lemma load_part_tokens tab dn LB : LB <> [] -> Forall lseg_sized LB ->
  forall parts t anyfile si,
  Forall (part_in (ldata LB)) parts -> Forall (fun p => valid_name (fp_name p)) parts ->
  si <= length LB ->
  t_load_tokens tab dn (map part_text parts) t LB anyfile si (lstart LB si) =
  match tins_parts t dn (map (chunk (ldata LB)) parts) with
  | Some t' => Some (t', match parts with [] => anyfile | _ => true end, length LB)
  | None => None
  end.
Proof.
  intros Hne Hsz. destruct LB as [|b0 LB0]; [contradiction|]. set (LB := b0 :: LB0) in *.
  induction parts as [|p parts IH]; intros t anyfile si Hin Hval Hsi; cbn [map t_load_tokens tins_parts]; [reflexivity|].
  set (pos := lstart LB si).
  inversion Hin as [|? ? Hp Hin']; subst. inversion Hval as [|? ? Hv Hval']; subst.
  rewrite classify_part. unfold LB at 1. cbv iota. fold LB.
  rewrite unescape_escape. unfold chunk at 1. cbn [fst snd]. unfold tins_part.
  rewrite (tcreate_file t dn (fp_name p) Hv).
  destruct (tmkdirs t [] (split_slash dn)) as [[t1 cur]|]; [|reflexivity].
  destruct (tmod t1 cur (ensure_file (fp_name p))) as [t2|]; [|reflexivity].
  (* the cursor *)
  set (c := if Nat.ltb (fp_off p) pos then (0, 0) else (si, pos)).
  assert (Hc : snd c = lstart LB (fst c) /\ fst c <= length LB /\ snd c <= fp_off p).
  { unfold c. destruct (Nat.ltb_spec (fp_off p) pos); cbn [fst snd].
    - split; [reflexivity|]. split; lia.
    - split; [reflexivity|]. split; [exact Hsi|assumption]. }
  destruct c as [si0 p0]. cbn [fst snd] in Hc. destruct Hc as (Hc1 & Hc2 & Hc3).
  unfold part_in in Hp.
  destruct (map_range_slice (S (length LB)) LB si0 p0 (fp_off p) (fp_len p) [] Hsz Hc1 Hc2 Hp ltac:(lia) [] ) as (si' & p' & sgs & Em & Eb & Hp' & Hsi').
  { replace (p0 - fp_off p) with 0 by lia. reflexivity. }
  { lia. }
  rewrite Em. cbn [app] in Eb |- *. rewrite Eb. fold (slice (ldata LB) (fp_off p) (fp_len p)).
  cbn [obind].
  destruct (tmod t2 (cur ++ [fp_name p]) (tappend (slice (ldata LB) (fp_off p) (fp_len p)))) as [t3|]; [|reflexivity].
  cbn [obind]. rewrite Hp'. rewrite (IH t3 true si' Hin' Hval' Hsi').
  destruct (tins_parts t3 dn (map (chunk (ldata LB)) parts)); [|reflexivity]. destruct parts; reflexivity.
Qed.

(* ---- the tokens of a line ---- *)
Definition tok_clean (s : string) : Prop := has_char " "%char s = false /\ has_char nl s = false.

Lemma escape_clean s : tok_clean (manifest_escape s).
Proof. split; apply escape_no_low; cbv; discriminate. Qed.
Lemma part_text_clean p : tok_clean (part_text p).
Proof.
  unfold part_text. split; rewrite !has_char_app; cbn [has_char orb];
    rewrite !digits_no_char by (left; reflexivity); rewrite (proj1 (escape_clean _)) || rewrite (proj2 (escape_clean _)); reflexivity.
Qed.
Lemma empty_loc_clean : tok_clean empty_block_loc.
Proof. split; reflexivity. Qed.

Lemma join_cons sep x r : r <> [] -> join_with sep (x :: r) = (x ++ sep ++ join_with sep r)%string.
Proof. destruct r; [contradiction|reflexivity]. Qed.
Lemma join_app sep l1 l2 : l1 <> [] -> l2 <> [] ->
  (join_with sep l1 ++ sep ++ join_with sep l2)%string = join_with sep (l1 ++ l2).
Proof.
  intros H1 H2. induction l1 as [|x l1 IH]; [contradiction|]. destruct l1 as [|y l1].
  - cbn [app]. rewrite (join_cons sep x l2) by exact H2. reflexivity.
  - rewrite (join_cons sep x (y :: l1)) by discriminate.
    change ((x :: y :: l1) ++ l2) with (x :: ((y :: l1) ++ l2)). rewrite (join_cons sep x ((y :: l1) ++ l2)) by discriminate.
    rewrite <- IH by discriminate. rewrite !str_app_assoc. reflexivity.
Qed.
Lemma has_char_join c sep l : has_char c sep = false -> Forall (fun s => has_char c s = false) l -> has_char c (join_with sep l) = false.
Proof.
  intros Hs. induction l as [|x l IH]; intros H; [reflexivity|]. inversion H; subst. destruct l as [|y l]; [assumption|].
  rewrite join_cons by discriminate. rewrite !has_char_app. rewrite Hs, IH by assumption.
  match goal with E : has_char c x = false |- _ => rewrite E end. reflexivity.
Qed.

Definition line_of (prefix : string) (toks : list string) : string := join_with " " (manifest_escape prefix :: toks).

Lemma line_split prefix toks : Forall tok_clean toks ->
  split_char " "%char (line_of prefix toks) = manifest_escape prefix :: toks.
Proof.
  intros H. unfold line_of. apply split_join; [discriminate|]. constructor; [apply escape_clean|].
  eapply Forall_impl; [|exact H]. intros s [Hs _]. exact Hs.
Qed.
Lemma line_no_nl prefix toks : Forall tok_clean toks -> has_char nl (line_of prefix toks) = false.
Proof.
  intros H. unfold line_of. apply has_char_join; [reflexivity|]. constructor; [apply escape_clean|].
  eapply Forall_impl; [|exact H]. intros s [_ Hs]. exact Hs.
Qed.

(* the text marshalManifest writes for a directory's own files is such a line *)
Lemma own_line_text prefix (bl : list string) (pts : list string) : bl <> [] -> pts <> [] ->
  (manifest_escape prefix ++ " " ++ join_with " " bl ++ " " ++ join_with " " pts)%string = line_of prefix (bl ++ pts).
Proof.
  intros Hb Hp. unfold line_of. rewrite join_cons by (destruct bl; [contradiction|discriminate]).
  rewrite <- join_app by assumption. reflexivity.
Qed.

Section Line.
Variable tab : list (list byte * string).
Hypothesis Htab : TabOK tab.
Variable blks : list (list byte).
Hypothesis HIn : InTab tab blks.

Lemma block_tokens BD : Forall (fun d => In d blks) BD ->
  exists LB, Forall2 (fun tk b => classify tab tk = TBlock b) (map (loc_text tab) BD) LB /\
             Forall lseg_sized LB /\ ldata LB = List.concat BD /\ length LB = length BD /\
             Forall tok_clean (map (loc_text tab) BD).
Proof.
  induction BD as [|d BD IH]; intros H.
  - exists []. repeat split; constructor.
  - inversion H as [|? ? Hd HBD]; subst. destruct (IH HBD) as (LB & H2 & Hs & Hl & Hn & Hc).
    pose proof (loc_text_in tab d (HIn d Hd)) as Hin.
    destruct (classify_block tab Htab d _ Hin) as (i & Ec).
    exists (mk_lseg i d :: LB). split; [constructor; assumption|]. split; [constructor; [reflexivity|exact Hs]|].
    split; [unfold ldata in *; cbn [flat_map List.concat mk_lseg ls_data]; rewrite Hl; reflexivity|].
    split; [cbn [length]; rewrite Hn; reflexivity|]. cbn [map]. constructor; [|exact Hc].
    destruct Htab as [Hok _]. destruct (Hok _ _ Hin) as (_ & H1 & H2' & _). split; assumption.
Qed.

(* a directory's own line, read back *)
Lemma load_own_tokens dn t BD ps :
  Forall (fun d => In d blks) BD -> parts_in (List.concat BD) ps -> ps <> [] ->
  Forall (fun p => valid_name (fp_name p)) ps ->
  exists n, 0 < n /\
  t_load_tokens tab dn ((match map (loc_text tab) BD with [] => [empty_block_loc] | _ => map (loc_text tab) BD end) ++ map part_text ps) t [] false 0 0 =
  match tins_parts t dn (map (chunk (List.concat BD)) ps) with
  | Some t' => Some (t', true, n)
  | None => None
  end.
Proof.
  intros HBD Hin Hne Hval. destruct BD as [|d0 BD0].
  - destruct (classify_empty_loc tab Htab) as (b & Ec & Hs & Hd). cbn [map].
    exists 1. split; [lia|].
    rewrite (load_block_tokens tab dn (map part_text ps) t [empty_block_loc] [b] [] 0 0) by (constructor; [exact Ec|constructor]).
    cbn [app].
    assert (Hld : ldata [b] = []) by (unfold ldata; cbn [flat_map]; rewrite Hd; reflexivity).
    pose proof (load_part_tokens tab dn [b] ltac:(discriminate) ltac:(constructor; [unfold lseg_sized; rewrite Hd, Hs; reflexivity|constructor]) ps t false 0) as Hl.
    rewrite Hld in Hl. cbn [List.concat] in Hin |- *. specialize (Hl Hin Hval ltac:(cbn; lia)).
    change (lstart [b] 0) with 0 in Hl. rewrite Hl.
    destruct (tins_parts t dn (map (chunk []) ps)); [|reflexivity]. destruct ps; [contradiction|reflexivity].
  - destruct (block_tokens (d0 :: BD0) HBD) as (LB & H2 & Hs & Hl & Hn & _).
    assert (Hbl : map (loc_text tab) (d0 :: BD0) <> []) by discriminate.
    destruct (map (loc_text tab) (d0 :: BD0)) as [|tk0 tks] eqn:Em; [contradiction|].
    exists (length LB). split; [rewrite Hn; cbn; lia|].
    rewrite (load_block_tokens tab dn (map part_text ps) t (tk0 :: tks) LB [] 0 0 H2). cbn [app].
    assert (HLBne : LB <> []) by (destruct LB; [cbn in Hn; discriminate|discriminate]).
    pose proof (load_part_tokens tab dn LB HLBne Hs ps t false 0) as Hlp. rewrite Hl in Hlp.
    specialize (Hlp Hin Hval ltac:(lia)). change (lstart LB 0) with 0 in Hlp. rewrite Hlp.
    destruct (tins_parts t dn (map (chunk (List.concat (d0 :: BD0))) ps)); [|reflexivity]. destruct ps; [contradiction|reflexivity].
Qed.

(* the empty-directory marker line *)
Lemma load_marker_tokens dn t :
  t_load_tokens tab dn [empty_block_loc; "0:0:\056"] t [] false 0 0 =
  match tins_marker t dn with Some t' => Some (t', true, 1) | None => None end.
Proof.
  destruct (classify_empty_loc tab Htab) as (b & Ec & Hs & Hd).
  cbn [t_load_tokens]. rewrite Ec. cbn [app].
  change (classify tab "0:0:\056") with (TFile 0 0 "\056"). cbv beta iota.
  change (manifest_unescape "\056") with ".". unfold tins_marker.
  destruct (tcreate t (dn ++ "/" ++ ".")) as [[t1 [p|]]|] eqn:Ecr.
  - (* "." never names a file *)
    exfalso. unfold tcreate in Ecr. rewrite split_slash_snoc in Ecr by reflexivity. rewrite last_last, removelast_last in Ecr.
    destruct (tmkdirs t [] (split_slash dn)) as [[t1' cur]|]; [|discriminate]. cbn in Ecr. discriminate.
  - cbn [Nat.eqb length app]. reflexivity.
  - reflexivity.
Qed.

End Line.

(* ---- the computable table checks imply the table hypotheses ---- *)
Lemma loc_ok_b_spec d l : loc_ok_b d l = true -> loc_ok d l.
Proof.
  unfold loc_ok_b, loc_ok. intros H. apply andb_true_iff in H. destruct H as [H H4]. apply andb_true_iff in H. destruct H as [H H3].
  apply andb_true_iff in H. destruct H as [H1 H2]. apply negb_true_iff in H1, H2, H3.
  split; [exact H1|]. split; [exact H2|]. split; [exact H3|].
  destruct (splitn3 "+"%char l) as [|h [|sz rest]]; try discriminate. exists h, sz, rest. split; [reflexivity|].
  destruct (parse_dec sz) as [n|]; [|discriminate]. apply Nat.eqb_eq in H4. subst n. reflexivity.
Qed.
Lemma tab_ok_b_spec tab : tab_ok_b tab = true -> TabOK tab.
Proof.
  unfold tab_ok_b. intros H. apply andb_true_iff in H. destruct H as [H1 H2]. rewrite forallb_forall in H1, H2. split.
  - intros d l Hin. apply loc_ok_b_spec. exact (H1 (d, l) Hin).
  - intros d d' l Hin Hin'. specialize (H2 (d, l) Hin). rewrite forallb_forall in H2. specialize (H2 (d', l) Hin').
    cbn [fst snd] in H2. rewrite String.eqb_refl in H2. cbn [negb orb] in H2. apply bytes_beq_spec. exact H2.
Qed.
Lemma in_tab_b_spec tab blks : in_tab_b tab blks = true -> InTab tab blks.
Proof.
  unfold in_tab_b. intros H d Hd. rewrite forallb_forall in H. specialize (H d Hd). apply existsb_exists in H.
  destruct H as ([d0 l] & Hin & E). cbn [fst] in E. apply bytes_beq_spec in E. subst d0. exists l. exact Hin.
Qed.
