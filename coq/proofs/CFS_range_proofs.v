(* loadManifest's range mapper returns exactly the requested slice of the stream. *)
From Coq Require Import List Arith Lia Bool String.
Import ListNotations.
From AV Require Import lib.Str lib.Path model.CFS_file model.CFS_tree model.CFS_inst model.CFS_bg model.CFS_tload
  proofs.CFS_file_proofs proofs.CFS_refine proofs.CFS_prov.
Notation length := List.length.

Section Range.
Variable mb : nat.

Definition ldata (bl : list lseg) : list byte := flat_map ls_data bl.
Definition lstart (bl : list lseg) (i : nat) : nat := length (ldata (firstn i bl)).
Definition lseg_sized (b : lseg) : Prop := length (ls_data b) = ls_size b.

Lemma ldata_app a b : ldata (a ++ b) = ldata a ++ ldata b.
Proof. unfold ldata. apply flat_map_app'. Qed.

Lemma lstart_S bl i b : nth_error bl i = Some b -> Forall lseg_sized bl -> lstart bl (S i) = lstart bl i + ls_size b.
Proof.
  intros Hn Hs. unfold lstart.
  assert (E : firstn (S i) bl = firstn i bl ++ [b]).
  { clear Hs. revert i Hn. induction bl as [|x bl IH]; intros [|i] Hn; cbn in *; try discriminate.
    - inversion Hn; reflexivity.
    - f_equal. apply IH. exact Hn. }
  rewrite E, ldata_app, app_length. f_equal. unfold ldata. cbn. rewrite app_nil_r.
  rewrite Forall_forall in Hs. apply Hs. eapply nth_error_In; exact Hn.
Qed.

Lemma lstart_all bl i : length bl <= i -> lstart bl i = length (ldata bl).
Proof. intros H. unfold lstart. rewrite firstn_all2 by exact H. reflexivity. Qed.

(* the bytes of block i sit at [lstart i, lstart i + size) of the stream *)
Lemma block_in_stream bl i b : nth_error bl i = Some b -> Forall lseg_sized bl ->
  ls_data b = firstn (ls_size b) (skipn (lstart bl i) (ldata bl)).
Proof.
  intros Hn Hs.
  assert (E : bl = firstn i bl ++ b :: skipn (S i) bl).
  { clear Hs. revert i Hn. induction bl as [|x bl IH]; intros [|i] Hn; cbn in *; try discriminate.
    - inversion Hn; reflexivity.
    - f_equal. apply IH. exact Hn. }
  assert (Hsz : lseg_sized b) by (rewrite Forall_forall in Hs; apply Hs; eapply nth_error_In; exact Hn).
  assert (Ed : ldata bl = ldata (firstn i bl) ++ ls_data b ++ ldata (skipn (S i) bl)).
  { rewrite E at 1. rewrite ldata_app. reflexivity. }
  rewrite Ed. unfold lstart. rewrite skipn_app, skipn_all, Nat.sub_diag. cbn [skipn app].
  rewrite firstn_app, <- Hsz, firstn_all, Nat.sub_diag. cbn [firstn]. rewrite app_nil_r. reflexivity.
Qed.


(* main lemma: from a consistent cursor not past the range, the mapper appends segments whose bytes are
   exactly stream[offset, offset+len) *)
Lemma map_range_slice : forall fuel bl segIdx pos offset len acc,
  Forall lseg_sized bl ->
  pos = lstart bl segIdx -> segIdx <= length bl ->
  offset + len <= length (ldata bl) ->
  length bl - segIdx < fuel ->
  (* bytes already emitted for this range: stream[offset, max offset pos) *)
  forall emitted, emitted = firstn (pos - offset) (skipn offset (ldata bl)) ->
  pos <= offset + len ->
  exists si' p' sgs,
    map_range fuel bl segIdx pos offset len acc = Some (si', p', acc ++ sgs) /\
    emitted ++ segs_bytes sgs = firstn len (skipn offset (ldata bl)) /\
    p' = lstart bl si' /\ si' <= length bl.
Proof.
  induction fuel as [|fuel IH]; intros bl segIdx pos offset len acc Hs Hpos Hidx Hin Hfuel emitted Hem Hcur; [lia|].
  cbn [map_range].
  destruct (nth_error bl segIdx) as [b|] eqn:En.
  - assert (Hlt : segIdx < length bl) by (apply nth_error_Some; rewrite En; discriminate).
    pose proof (lstart_S bl segIdx b En Hs) as HS. rewrite <- Hpos in HS.
    pose proof (block_in_stream bl segIdx b En Hs) as Hblk. rewrite <- Hpos in Hblk.
    assert (Hsz : lseg_sized b) by (rewrite Forall_forall in Hs; apply Hs; eapply nth_error_In; exact En).
    assert (Hend : pos + ls_size b <= length (ldata bl)).
    { rewrite <- HS. unfold lstart. rewrite <- (firstn_skipn (S segIdx) bl) at 2. rewrite ldata_app, app_length. lia. }
    destruct ((pos + ls_size b <=? offset) || Nat.eqb (ls_size b) 0) eqn:Eskip.
    + (* block entirely before the range, or empty: skip *)
      assert (Hskip : pos + ls_size b <= offset \/ ls_size b = 0).
      { apply orb_true_iff in Eskip. destruct Eskip as [E|E]; [left; apply Nat.leb_le; exact E|right; apply Nat.eqb_eq; exact E]. }
      assert (Hem' : emitted = firstn (pos + ls_size b - offset) (skipn offset (ldata bl))).
      { rewrite Hem. destruct Hskip as [Hk|Hk]; [|rewrite Hk, Nat.add_0_r; reflexivity].
        replace (pos - offset) with 0 by lia. replace (pos + ls_size b - offset) with 0 by lia. reflexivity. }
      assert (Hcur' : pos + ls_size b <= offset + len) by lia.
      exact (IH bl (S segIdx) (pos + ls_size b) offset len acc Hs (eq_sym HS) ltac:(lia) Hin ltac:(lia) emitted Hem' Hcur').
    + apply orb_false_iff in Eskip. destruct Eskip as [E1 E2]. apply Nat.leb_gt in E1. apply Nat.eqb_neq in E2.
      destruct (Nat.eqb len 0 || (offset + len <=? pos)) eqn:Estop.
      * (* nothing (more) to emit *)
        exists segIdx, pos, []. rewrite app_nil_r. split; [reflexivity|]. split; [|split; [exact Hpos|lia]].
        cbn. rewrite app_nil_r, Hem. apply orb_true_iff in Estop. destruct Estop as [E|E].
        -- apply Nat.eqb_eq in E. subst len. f_equal. lia.
        -- apply Nat.leb_le in E. f_equal. lia.
      * apply orb_false_iff in Estop. destruct Estop as [E3 E4]. apply Nat.eqb_neq in E3. apply Nat.leb_gt in E4.
        set (blkOff := if pos <? offset then offset - pos else 0).
        set (blkLen0 := ls_size b - blkOff).
        set (blkLen := if offset + len <? pos + blkOff + blkLen0 then offset + len - pos - blkOff else blkLen0).
        set (sg := Sto (firstn blkLen (skipn blkOff (ls_data b))) (ls_loc b) (ls_size b) blkOff).
        assert (Hbo : blkOff < ls_size b /\ pos + blkOff = Nat.max pos offset).
        { unfold blkOff. destruct (Nat.ltb_spec pos offset); lia. }
        destruct Hbo as [Hbo Hmax].
        assert (Hbl : 0 < blkLen /\ blkOff + blkLen <= ls_size b /\ pos + blkOff + blkLen = Nat.min (offset + len) (pos + ls_size b)).
        { unfold blkLen, blkLen0. destruct (Nat.ltb_spec (offset + len) (pos + blkOff + (ls_size b - blkOff))); lia. }
        destruct Hbl as (Hbl1 & Hbl2 & Hbl3).
        (* bytes of the emitted segment = stream[max pos offset, min (offset+len) next) *)
        assert (Hsg : sbytes sg = firstn blkLen (skipn (pos + blkOff) (ldata bl))).
        { cbn [sg sbytes]. rewrite Hblk. rewrite skipn_firstn_comm'. rewrite firstn_firstn_le by lia.
          rewrite my_skipn_skipn. reflexivity. }
        (* emitted ++ sg bytes = stream[offset, pos+blkOff+blkLen) *)
        assert (Hjoin : emitted ++ sbytes sg = firstn (pos + blkOff + blkLen - offset) (skipn offset (ldata bl))).
        { rewrite Hem, Hsg.
          replace (pos + blkOff) with (offset + (pos - offset)) by lia.
          rewrite <- my_skipn_skipn.
          rewrite <- (firstn_add (skipn offset (ldata bl)) (pos - offset) blkLen). f_equal. lia. }
        destruct (Nat.ltb_spec (offset + len) (pos + ls_size b)) as [Elast|Emore].
        -- (* the range ends inside this block *)
           exists segIdx, pos, [sg]. split; [reflexivity|]. split; [|split; [exact Hpos|lia]].
           cbn [segs_bytes flat_map]. rewrite app_nil_r, Hjoin. f_equal. lia.
        -- destruct (IH bl (S segIdx) (pos + ls_size b) offset len (acc ++ [sg]) Hs (eq_sym HS) ltac:(lia) Hin ltac:(lia)
                        (emitted ++ sbytes sg)) as (si' & p' & sgs & R1 & R2 & R3 & R4).
           ++ rewrite Hjoin. f_equal. lia.
           ++ lia.
           ++ exists si', p', (sg :: sgs). split; [rewrite R1, <- app_assoc; reflexivity|].
              split; [|auto]. cbn [segs_bytes flat_map]. rewrite app_assoc. exact R2.
  - (* past the last block *)
    apply nth_error_None in En. assert (segIdx = length bl) by lia. subst segIdx.
    rewrite lstart_all in Hpos by lia.
    destruct (Nat.ltb_spec pos (offset + len)); [lia|].
    exists (length bl), pos, []. rewrite app_nil_r. split; [reflexivity|]. split; [|split; [rewrite lstart_all by lia; exact Hpos|lia]].
    cbn. rewrite app_nil_r, Hem. rewrite Hpos.
    rewrite (firstn_all2 (n := length (ldata bl) - offset)) by (rewrite skipn_length; lia).
    symmetry. apply firstn_all2. rewrite skipn_length. lia.
Qed.

End Range.
