(* C10 — lifting the range theorems to whole manifest texts, part 1: what a valid manifest text looks like.
     - the reference denotation as a flat list of "entries" (one per file token: path, marker flag, reference segments);
     - inversion of [valid_manifest] / [valid_stream] / [parse_stream] into token-level facts;
     - split/join facts for "/" (path components) used by all codecs. *)
From Coq Require Import NArith Lia List Bool Ascii String Arith.
From AV Require Import lib.Str model.C10_manifest model.C10_ranges model.C10_fs
  proofs.C10_bytes_proofs proofs.C10_ranges_proofs proofs.C10_pdh_proofs proofs.C10_escape_proofs.
Import ListNotations.
Local Open Scope string_scope.
Local Open Scope list_scope.
Notation length := List.length.

(* ---------- generic ---------- *)
Lemma str_eqb_true a b : String.eqb a b = true <-> a = b.
Proof. apply String.eqb_eq. Qed.
Lemma str_eqb_false a b : String.eqb a b = false <-> a <> b.
Proof. apply String.eqb_neq. Qed.

Lemma flat_map_flat_map {A B C} (f : A -> list B) (g : B -> list C) l :
  flat_map g (flat_map f l) = flat_map (fun x => flat_map g (f x)) l.
Proof. induction l as [|x l IH]; cbn; [reflexivity|]. rewrite flat_map_app, IH. reflexivity. Qed.
Lemma flat_map_map {A B C} (f : A -> B) (g : B -> list C) l : flat_map g (map f l) = flat_map (fun x => g (f x)) l.
Proof. induction l as [|x l IH]; cbn; [reflexivity|]. rewrite IH. reflexivity. Qed.
Lemma map_flat_map {A B C} (f : A -> list B) (g : B -> C) l : map g (flat_map f l) = flat_map (fun x => map g (f x)) l.
Proof. induction l as [|x l IH]; cbn; [reflexivity|]. rewrite map_app, IH. reflexivity. Qed.
Lemma filter_flat_map {A B} (f : A -> list B) (p : B -> bool) l :
  filter p (flat_map f l) = flat_map (fun x => filter p (f x)) l.
Proof. induction l as [|x l IH]; cbn; [reflexivity|]. rewrite filter_app, IH. reflexivity. Qed.
Lemma flat_map_ext' {A B} (f g : A -> list B) l : (forall x, In x l -> f x = g x) -> flat_map f l = flat_map g l.
Proof.
  induction l as [|x l IH]; intros H; cbn; [reflexivity|].
  rewrite (H x (or_introl eq_refl)), IH; [reflexivity|]. intros y Hy. apply H. right. exact Hy.
Qed.

(* ---------- entries ---------- *)
Record entry := { e_path : string; e_marker : bool; e_segs : list seg }.
Definition entry_of (sn : string) (blocks : list string) (f : ftok) : entry :=
  {| e_path := path_of sn (ft_name f); e_marker := is_marker f;
     e_segs := name_segs blocks (ref (sizes_of blocks) (ft_pos f) (ft_len f)) |}.
Definition stream_entries (s : stream) : list entry := map (entry_of (s_name s) (s_blocks s)) (s_ftoks s).
Definition entries (m : manifest) : list entry := flat_map stream_entries m.

Definition sel (p : string) (e : entry) : list seg := if String.eqb (e_path e) p then e_segs e else [].
Definition files_of (es : list entry) : list string := map e_path (filter (fun e => negb (e_marker e)) es).
Definition dirs_of (es : list entry) : list string := flat_map (fun e => dir_prefixes (e_path e)) es.

Lemma denote_entries m p : denote m p = flat_map (sel p) (entries m).
Proof.
  unfold denote, entries. rewrite flat_map_flat_map. apply flat_map_ext. intros s.
  unfold stream_segs, stream_entries. rewrite flat_map_map. reflexivity.
Qed.
Lemma file_paths_entries m : file_paths m = files_of (entries m).
Proof.
  unfold file_paths, files_of, entries. rewrite filter_flat_map, map_flat_map. apply flat_map_ext. intros s.
  unfold stream_files, stream_entries.
  induction (s_ftoks s) as [|f l IH]; cbn; [reflexivity|].
  destruct (is_marker f); cbn; rewrite IH; reflexivity.
Qed.
Lemma dir_paths_entries m : dir_paths m = dirs_of (entries m).
Proof.
  unfold dir_paths, dirs_of, entries. rewrite flat_map_flat_map. apply flat_map_ext. intros s.
  unfold stream_dirs, stream_entries. rewrite flat_map_map. reflexivity.
Qed.
Lemma all_paths_entries m : all_paths m = map e_path (entries m).
Proof.
  unfold all_paths, entries. rewrite map_flat_map. apply flat_map_ext. intros s.
  unfold stream_entries. rewrite map_map. reflexivity.
Qed.

Lemma files_of_app a b : files_of (a ++ b) = files_of a ++ files_of b.
Proof. unfold files_of. rewrite filter_app, map_app. reflexivity. Qed.
Lemma dirs_of_app a b : dirs_of (a ++ b) = dirs_of a ++ dirs_of b.
Proof. unfold dirs_of. apply flat_map_app. Qed.
Lemma files_of_incl a b : incl a b -> incl (files_of a) (files_of b).
Proof.
  unfold files_of. intros H p Hp. apply in_map_iff in Hp. destruct Hp as (e & <- & He).
  apply filter_In in He. destruct He as [He Hm]. apply in_map. apply filter_In. split; [apply H; exact He|exact Hm].
Qed.
Lemma dirs_of_incl a b : incl a b -> incl (dirs_of a) (dirs_of b).
Proof.
  unfold dirs_of. intros H p Hp. apply in_flat_map in Hp. destruct Hp as (e & He & Hp).
  apply in_flat_map. exists e. split; [apply H; exact He|exact Hp].
Qed.

Definition conflict_free (E : list entry) : Prop := forall p, In p (files_of E) -> ~ In p (dirs_of E).
Lemma mem_str_In x l : mem_str x l = true <-> In x l.
Proof.
  unfold mem_str. rewrite existsb_exists. split.
  - intros (y & Hy & E). apply String.eqb_eq in E. subst y. exact Hy.
  - intros H. exists x. split; [exact H|apply String.eqb_refl].
Qed.
Lemma no_conflict_free m : no_conflict m = true -> conflict_free (entries m).
Proof.
  unfold no_conflict, conflict_free. rewrite file_paths_entries, dir_paths_entries. intros H p Hp Hd.
  rewrite forallb_forall in H. specialize (H p Hp). apply mem_str_In in Hd. rewrite Hd in H. discriminate.
Qed.

(* ---------- "/" components ---------- *)
Definition noslash (c : string) : Prop := contains_char c_slash c = false.
Definition slash : string := "/"%string.
Lemma split_on_app_sep c a : forall b, split_on c (a ++ String c b)%string = split_on c a ++ split_on c b.
Proof.
  intros b. induction a as [|x a IH]; cbn [append split_on].
  - rewrite Ascii.eqb_refl. reflexivity.
  - rewrite IH. destruct (Ascii.eqb x c); [reflexivity|].
    destruct (split_on c a) as [|h t] eqn:E; [exfalso; eapply split_on_nonempty; eauto|]. reflexivity.
Qed.
Lemma split_on_join c : forall l, l <> [] -> Forall (fun t => contains_char c t = false) l ->
  split_on c (join (sep1 c) l) = l.
Proof.
  induction l as [|x l IH]; intros Hne Hf; [congruence|].
  inversion Hf as [|? ? Hx Hl]; subst.
  destruct l as [|y l]; [cbn [join]; apply split_on_nosep; exact Hx|].
  rewrite join_cons2. unfold sep1 at 1. cbn [append]. rewrite split_on_app_sep.
  rewrite (split_on_nosep _ _ Hx). cbn [app]. rewrite IH by (try discriminate; exact Hl). reflexivity.
Qed.

Lemma comps_path_of sn fn : comps (path_of sn fn) = comps sn ++ comps fn.
Proof. unfold comps, path_of. cbn [append]. apply split_on_app_sep. Qed.
Lemma join_comps s : join "/" (comps s) = s.
Proof. apply (join_split c_slash). Qed.
Lemma comps_noslash s : Forall noslash (comps s).
Proof. apply split_on_parts_nosep. Qed.
Lemma comps_nonempty s : comps s <> [].
Proof. apply split_on_nonempty. Qed.

Lemma path_string_comps q : Forall noslash q -> comps (path_string q) = "."%string :: q.
Proof.
  intros H. unfold path_string, comps. apply (split_on_join c_slash); [discriminate|].
  constructor; [reflexivity|exact H].
Qed.
Lemma path_string_inj p q : Forall noslash p -> Forall noslash q -> path_string p = path_string q -> p = q.
Proof.
  intros Hp Hq H. apply (f_equal comps) in H. rewrite !path_string_comps in H by assumption. injection H as H. exact H.
Qed.
Lemma join_snoc sep : forall l c, l <> [] -> join sep (l ++ [c]) = (join sep l ++ sep ++ c)%string.
Proof.
  induction l as [|x l IH]; intros c Hne; [congruence|].
  destruct l as [|y l].
  - reflexivity.
  - change ((x :: y :: l) ++ [c]) with (x :: (y :: l) ++ [c]). cbn [app]. rewrite !join_cons2.
    change (y :: l ++ [c]) with ((y :: l) ++ [c]). rewrite IH by discriminate. rewrite !append_assoc. reflexivity.
Qed.
Lemma path_string_snoc pre c : path_string (pre ++ [c]) = (path_string pre ++ "/" ++ c)%string.
Proof.
  unfold path_string. change ("."%string :: pre ++ [c]) with (("."%string :: pre) ++ [c]).
  apply join_snoc. discriminate.
Qed.
Lemma path_string_nil : path_string [] = "."%string.
Proof. reflexivity. Qed.
Lemma path_string_cons_ne x q : path_string (x :: q) <> "."%string.
Proof. unfold path_string. rewrite join_cons2. cbn. discriminate. Qed.
Lemma path_string_of_comps s l : comps s = "."%string :: l -> path_string l = s.
Proof. intros H. unfold path_string. rewrite <- H. apply join_comps. Qed.

(* prefixes *)
Lemma prefixes_from_spec : forall cs pre p,
  In p (prefixes_from (path_string pre) cs) <->
  exists k, (1 <= k < length cs)%nat /\ p = path_string (pre ++ firstn k cs).
Proof.
  induction cs as [|c r IH]; intros pre p.
  - cbn. split; [tauto|]. intros (k & Hk & _). lia.
  - cbn [prefixes_from]. destruct r as [|c' r'].
    + cbn. split; [tauto|]. intros (k & Hk & _). lia.
    + rewrite <- path_string_snoc. cbn [In]. rewrite IH. split.
      * intros [<-|(k & Hk & ->)].
        -- exists 1%nat. cbn [length firstn]. split; [lia|reflexivity].
        -- exists (S k). cbn [length] in *. split; [lia|]. cbn [firstn]. rewrite <- app_assoc. reflexivity.
      * intros (k & Hk & ->). destruct k as [|k]; [lia|]. destruct k as [|k].
        -- left. reflexivity.
        -- right. exists (S k). cbn [length] in *. split; [lia|]. cbn [firstn]. rewrite <- app_assoc. reflexivity.
Qed.
Lemma dir_prefixes_spec P l p : comps P = "."%string :: l ->
  (In p (dir_prefixes P) <-> p = "."%string \/ exists k, (1 <= k < length l)%nat /\ p = path_string (firstn k l)).
Proof.
  intros H. unfold dir_prefixes. rewrite H. cbn [In]. rewrite <- path_string_nil, prefixes_from_spec. cbn [app].
  rewrite path_string_nil. split; intros [Hp|Hp]; auto.
Qed.

(* ---------- inversion of validity ---------- *)
Lemma map_opt_Forall2 {A B} (f : A -> option B) : forall l r, map_opt f l = Some r -> Forall2 (fun x y => f x = Some y) l r.
Proof.
  induction l as [|x l IH]; intros r H; cbn in H.
  - injection H as <-. constructor.
  - destruct (f x) eqn:E; [|discriminate]. destruct (map_opt f l) eqn:E2; [|discriminate]. injection H as <-.
    constructor; [exact E|apply IH; reflexivity].
Qed.

Lemma forallb_Forall {A} (p : A -> bool) l : forallb p l = true <-> Forall (fun x => p x = true) l.
Proof.
  rewrite forallb_forall, Forall_forall. tauto.
Qed.

Record stream_ok (line : string) (s : stream) (name : string) (fts : list string) : Prop := {
  so_parse : parse_stream line = Some s;
  so_split : split_on c_sp line = name :: s_blocks s ++ fts;
  so_name : s_name s = unescape name;
  so_blocks_ne : s_blocks s <> [];
  so_fts_ne : fts <> [];
  so_locs : Forall (fun t => is_locator t = true) (s_blocks s);
  so_fts : Forall2 (fun t f => parse_ftok t = Some f) fts (s_ftoks s);
  so_vname : valid_stream_name_u (s_name s) = true;
  so_sizes : Forall (fun b => (loc_size b <= max_block)%N) (s_blocks s);
  so_files : Forall (fun f => valid_file_name_u f = true /\ (ft_pos f + ft_len f <= total (sizes_of (s_blocks s)))%N) (s_ftoks s);
  so_chars : all_chars (fun a => is_tokc a || Ascii.eqb a c_sp) line = true
}.

Lemma valid_stream_inv line : valid_stream line = true -> exists s name fts, stream_ok line s name fts.
Proof.
  unfold valid_stream. intros H. apply andb_prop in H. destruct H as [Hch H].
  destruct (parse_stream line) as [s|] eqn:Ep; [|discriminate].
  apply andb_prop in H. destruct H as [H Hf]. apply andb_prop in H. destruct H as [Hn Hb].
  pose proof Ep as Ep'. unfold parse_stream in Ep'.
  destruct (split_on c_sp line) as [|name rest] eqn:Es; [discriminate|].
  destruct (span_locators rest) as [locs fts] eqn:Esp.
  destruct locs as [|l0 locs]; [discriminate|]. destruct fts as [|f0 fts]; [discriminate|].
  destruct (map_opt parse_ftok (f0 :: fts)) as [fs|] eqn:Em; [|discriminate].
  injection Ep' as <-. cbn [s_name s_blocks s_ftoks] in *.
  destruct (span_locators_spec _ _ _ Esp) as [-> Hl].
  exists {| s_name := unescape name; s_blocks := l0 :: locs; s_ftoks := fs |}, name, (f0 :: fts).
  constructor; cbn [s_name s_blocks s_ftoks]; auto; try discriminate.
  - apply map_opt_Forall2. exact Em.
  - apply forallb_Forall in Hb. eapply Forall_impl; [|exact Hb]. cbn. intros b Hb'. apply N.leb_le. exact Hb'.
  - apply forallb_Forall in Hf. eapply Forall_impl; [|exact Hf]. cbn. intros f Hf'.
    apply andb_prop in Hf'. destruct Hf' as [H1 H2]. split; [exact H1|apply N.leb_le; exact H2].
Qed.

Lemma valid_manifest_inv txt : valid_manifest txt = true ->
  exists ls m, lines_of txt = Some ls /\ map_opt parse_stream ls = Some m /\ parse_manifest txt = Some m /\
               Forall (fun l => valid_stream l = true) ls /\ no_conflict m = true.
Proof.
  unfold valid_manifest, parse_manifest. destruct (lines_of txt) as [ls|]; [|discriminate].
  intros H. apply andb_prop in H. destruct H as [Hv Hm].
  destruct (map_opt parse_stream ls) as [m|] eqn:Em; [|discriminate].
  exists ls, m. split; [reflexivity|]. split; [exact Em|]. split; [first [exact Em|reflexivity]|]. split; [apply forallb_Forall; exact Hv|exact Hm].
Qed.

(* token-level facts *)
Lemma parse_ftok_inv tok f : parse_ftok tok = Some f ->
  exists p s n, splitn3 c_colon tok = [p; s; n] /\ parse_dec p = Some (ft_pos f) /\ parse_dec s = Some (ft_len f) /\
                ft_name f = unescape n.
Proof.
  unfold parse_ftok. destruct (splitn3 c_colon tok) as [|p [|s [|n [|]]]]; try discriminate.
  destruct (parse_dec p) as [p'|] eqn:Ep; [|discriminate]. destruct (parse_dec s) as [s'|] eqn:Es; [|discriminate].
  intros H. injection H as <-. exists p, s, n. cbn. auto.
Qed.

Lemma all_digits_first s : all_digits s = true -> exists a r, s = String a r /\ is_digit a = true.
Proof.
  unfold all_digits. destruct s as [|a r]; [discriminate|]. cbn. intros H. apply andb_prop in H. exists a, r. tauto.
Qed.
Lemma digit_not_sign a : is_digit a = true -> Ascii.eqb a "+"%char = false /\ Ascii.eqb a "-"%char = false.
Proof.
  intros H. split; apply Ascii.eqb_neq; intros ->; vm_compute in H; discriminate.
Qed.
Lemma parse_dec_nonneg bits s v : parse_dec s = Some v -> (v < 2 ^ (bits - 1))%N -> parse_nonneg bits s = Some v.
Proof.
  unfold parse_dec. destruct (all_digits s) eqn:E; [|discriminate]. intros H Hlt. injection H as <-.
  destruct (all_digits_first _ E) as (a & r & -> & Hd). destruct (digit_not_sign _ Hd) as [H1 H2].
  unfold parse_nonneg, parse_int. rewrite H1, H2, E.
  destruct (N.ltb_spec (dec_val (String a r)) (2 ^ (bits - 1))); [reflexivity|lia].
Qed.

Lemma locator_inv tok : is_locator tok = true ->
  exists h sz hints, split_on c_plus tok = h :: sz :: hints /\ all_digits sz = true /\ loc_size tok = dec_val sz.
Proof.
  unfold is_locator, locator_with, loc_size. destruct (split_on c_plus tok) as [|h [|sz hints]]; try discriminate.
  intros H. apply andb_prop in H. destruct H as [H _]. apply andb_prop in H. destruct H as [_ H].
  exists h, sz, hints. auto.
Qed.
Lemma fs_loc_size_locator tok : is_locator tok = true -> (loc_size tok <= max_block)%N -> fs_loc_size tok = Some (loc_size tok).
Proof.
  intros H Hle. destruct (locator_inv _ H) as (h & sz & hints & Hs & Hd & Hl).
  unfold fs_loc_size. rewrite Hs. apply parse_dec_nonneg.
  - unfold parse_dec. rewrite Hd, Hl. reflexivity.
  - unfold max_block in Hle. cbn. lia.
Qed.

Lemma NoDup_snoc {A} (l : list A) x : NoDup l -> ~ In x l -> NoDup (l ++ [x]).
Proof.
  intros Hn Hx. induction Hn as [|y l Hy Hn IH]; cbn.
  - constructor; [intros []|constructor].
  - constructor.
    + rewrite in_app_iff. cbn. intros [H|[H|[]]]; [exact (Hy H)|]. subst y. apply Hx. left. reflexivity.
    + apply IH. intros H. apply Hx. right. exact H.
Qed.
Lemma last_str_snoc l x d : last_str (l ++ [x]) d = x.
Proof.
  induction l as [|y l IH]; [reflexivity|]. cbn [app last_str].
  destruct (l ++ [x]) eqn:E; [destruct l; discriminate|]. exact IH.
Qed.
