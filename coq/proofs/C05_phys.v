(* C05 — transfer of the per-mount results to the physical-device reading used by the
   specification (model/C05_run.v), for layouts in which no device is mounted twice. *)
From Coq Require Import List Arith Bool Lia Permutation NArith.
From AV Require Import model.C05_model model.C05_old_model model.C05_run proofs.C05_proofs proofs.C05_safety proofs.C05_repl.
Import ListNotations.

Lemma pd_eqb_eq a b : pd_eqb a b = true <-> a = b.
Proof.
  destruct a as [a1 a2], b as [b1 b2]. unfold pd_eqb; simpl. rewrite andb_true_iff, !Nat.eqb_eq.
  split; [intros [-> ->]; reflexivity|intros E; injection E; auto].
Qed.
Lemma pd_mem_In x l : pd_mem x l = true <-> In x l.
Proof.
  unfold pd_mem. rewrite existsb_exists. split.
  - intros (y & Hy & E). apply pd_eqb_eq in E. subst; auto.
  - intros H. exists x. split; auto. apply pd_eqb_eq; reflexivity.
Qed.
Lemma pd_nodup_id l : NoDup l -> pd_nodup l = l.
Proof.
  induction 1 as [|x l Hn Hd IH]; simpl; [reflexivity|].
  destruct (pd_mem x l) eqn:E; [apply pd_mem_In in E; contradiction|]. rewrite IH. reflexivity.
Qed.

Lemma filter_map_comm {A B} (f : A -> B) (p : B -> bool) l : filter p (map f l) = map f (filter (fun x => p (f x)) l).
Proof. induction l as [|a l IH]; simpl; [reflexivity|]. destruct (p (f a)); simpl; congruence. Qed.

(* no device is mounted twice *)
Definition unshared (eff : list mnt) : Prop := NoDup (map mid eff) /\ NoDup (filter nz (map dev eff)).

Lemma pdev_inj eff x y : unshared eff -> In x eff -> In y eff -> pdev x = pdev y -> x = y.
Proof.
  intros [M1 M2] Hx Hy E. unfold pdev in E.
  destruct (dev x =? 0) eqn:Zx, (dev y =? 0) eqn:Zy.
  - injection E as E. eapply (NoDup_map_inj mid); eauto.
  - injection E as E _. apply Nat.eqb_neq in Zy. congruence.
  - injection E as E _. apply Nat.eqb_neq in Zx. congruence.
  - injection E as E. rewrite filter_map_comm in M2.
    apply (NoDup_map_inj dev (filter (fun m => nz (dev m)) eff)); auto; apply filter_In; unfold nz; rewrite ?Zx, ?Zy; auto.
Qed.
Lemma pdev_nodup eff : unshared eff -> NoDup (map pdev eff).
Proof.
  intros U. assert (H : forall x y, In x eff -> In y eff -> pdev x = pdev y -> x = y) by (intros; eapply pdev_inj; eauto).
  destruct U as [M1 _]. clear - H M1. induction eff as [|m r IH]; simpl; [constructor|].
  inversion M1 as [|? ? Hnin M1']; subst. constructor.
  - intro X. apply in_map_iff in X. destruct X as (y & E & Hy).
    assert (y = m) by (apply H; simpl; auto). subst y. apply Hnin. apply in_map; exact Hy.
  - apply IH; auto. intros; apply H; simpl; auto.
Qed.

(* a mount shows a replica iff its slot has one *)
Lemma holds_find repl m : holds repl m = true <-> find_repl repl (mid m) None <> None.
Proof.
  unfold holds. split.
  - intros H. apply existsb_exists in H. destruct H as ([i t] & Hin & E). simpl in E. apply Nat.eqb_eq in E. subst i.
    intro X. eapply find_repl_none; eauto.
  - intros H. destruct (find_repl repl (mid m) None) as [t|] eqn:E; [|congruence].
    apply find_repl_some in E. destruct E as [E|E]; [|discriminate].
    apply existsb_exists. exists (mid m, t). split; auto. simpl. apply Nat.eqb_refl.
Qed.

(* the replication one unshared device contributes = that of its only mount *)
Lemma dev_repl_single dflt c eff m : unshared eff -> In m eff ->
  dev_repl dflt c eff (pdev m) = if inclass dflt c m then mrepl m else 0.
Proof.
  intros U Hm. unfold dev_repl.
  assert (F : filter (fun x => pd_eqb (pdev x) (pdev m) && inclass dflt c x) eff = if inclass dflt c m then [m] else []).
  { pose proof (pdev_nodup eff U) as N.
    assert (Hinj : forall x, In x eff -> pdev x = pdev m -> x = m) by (intros; eapply pdev_inj; eauto).
    clear U. induction eff as [|x r IH]; [contradiction|]. simpl in N. inversion N as [|? ? Hnin N']; subst. simpl.
    destruct Hm as [->|Hm].
    - assert (E : pd_eqb (pdev m) (pdev m) = true) by (apply pd_eqb_eq; reflexivity). rewrite E. simpl.
      assert (R : filter (fun x => pd_eqb (pdev x) (pdev m) && inclass dflt c x) r = []).
      { clear - Hnin. induction r as [|y r IH]; simpl; [reflexivity|].
        destruct (pd_eqb (pdev y) (pdev m)) eqn:E; simpl.
        - apply pd_eqb_eq in E. exfalso. apply Hnin. simpl. left; exact E.
        - apply IH. intro X. apply Hnin. simpl. right; exact X. }
      rewrite R. destruct (inclass dflt c m); reflexivity.
    - destruct (pd_eqb (pdev x) (pdev m)) eqn:E; simpl.
      + apply pd_eqb_eq in E. exfalso. apply Hnin. rewrite E. apply in_map; exact Hm.
      + apply IH; auto. intros; apply Hinj; simpl; auto. }
  rewrite F. destruct (inclass dflt c m); simpl; [apply Nat.max_0_r|reflexivity].
Qed.

Lemma phys_of_mounts dflt c eff (p : mnt -> bool) : unshared eff ->
  phys_repl dflt c eff (map pdev (filter p eff)) =
  list_sum (map (fun m => if inclass dflt c m then mrepl m else 0) (filter p eff)).
Proof.
  intros U. unfold phys_repl. rewrite map_map. f_equal. apply map_ext_in.
  intros m Hm. apply filter_In in Hm. apply dev_repl_single; tauto.
Qed.

Theorem phys_held dflt c eff repl : unshared eff ->
  phys_repl dflt c eff (held eff repl) = have_m dflt c eff repl.
Proof.
  intros U. unfold held. rewrite pd_nodup_id.
  2:{ pose proof (pdev_nodup eff U) as N. clear - N.
      induction eff as [|m r IH]; simpl; [constructor|]. inversion N; subst.
      destruct (holds repl m); simpl; auto. constructor; auto.
      intro X. apply H1. apply in_map_iff in X. destruct X as (y & E & Hy). apply filter_In in Hy.
      apply in_map_iff. exists y. tauto. }
  rewrite phys_of_mounts by exact U.
  unfold have_m, ssum. rewrite !map_map. clear U.
  induction eff as [|m r IH]; simpl; [reflexivity|].
  unfold cval at 1. simpl.
  destruct (holds repl m) eqn:H; simpl.
  - apply holds_find in H. destruct (find_repl repl (mid m) None); [|congruence]. rewrite IH. reflexivity.
  - destruct (find_repl repl (mid m) None) eqn:E; [|exact IH].
    assert (holds repl m = true) by (apply holds_find; congruence). congruence.
Qed.

Theorem phys_after dflt c eff repl tr : unshared eff ->
  phys_repl dflt c eff (after eff repl tr) = kept_m dflt c eff repl (map fst tr).
Proof.
  intros U. unfold after, held. rewrite pd_nodup_id.
  2:{ pose proof (pdev_nodup eff U) as N. clear - N.
      induction eff as [|m r IH]; simpl; [constructor|]. inversion N; subst.
      destruct (holds repl m); simpl; auto. constructor; auto.
      intro X. apply H1. apply in_map_iff in X. destruct X as (y & E & Hy). apply filter_In in Hy.
      apply in_map_iff. exists y. tauto. }
  rewrite filter_map_comm.
  (* membership in `gone` for a mount of eff *)
  assert (G : forall m, In m eff -> pd_mem (pdev m) (gone eff tr) = mem (mid m) (map fst tr)).
  { intros m Hm. destruct (mem (mid m) (map fst tr)) eqn:E.
    - apply mem_In in E. apply in_map_iff in E. destruct E as (t & Et & Ht).
      apply pd_mem_In. unfold gone. apply in_flat_map. exists t. split; auto.
      apply in_map. apply filter_In. split; auto. apply Nat.eqb_eq. auto.
    - apply mem_false in E. destruct (pd_mem (pdev m) (gone eff tr)) eqn:E2; [|reflexivity].
      exfalso. apply E. apply pd_mem_In in E2. unfold gone in E2. apply in_flat_map in E2.
      destruct E2 as (t & Ht & Hx). apply in_map_iff in Hx. destruct Hx as (x & Ex & Hx).
      apply filter_In in Hx. destruct Hx as [Hx Em]. apply Nat.eqb_eq in Em.
      assert (x = m) by (eapply pdev_inj; eauto). subst x. apply in_map_iff. exists t. auto. }
  assert (F : filter (fun x => negb (pd_mem (pdev x) (gone eff tr))) (filter (holds repl) eff) =
              filter (fun x => holds repl x && negb (mem (mid x) (map fst tr))) eff).
  { rewrite (filter_ext_in (fun x => negb (pd_mem (pdev x) (gone eff tr))) (fun x => negb (mem (mid x) (map fst tr)))).
    - clear. induction eff as [|m r IH]; simpl; [reflexivity|].
      destruct (holds repl m); simpl; [destruct (negb (mem (mid m) (map fst tr))); simpl; congruence|exact IH].
    - intros x Hx. apply filter_In in Hx. rewrite G by tauto. reflexivity. }
  rewrite F, phys_of_mounts by exact U.
  unfold kept_m. rewrite !map_map. clear.
  induction eff as [|m r IH]; simpl; [reflexivity|].
  unfold gval at 1. simpl.
  destruct (holds repl m) eqn:H; simpl.
  - apply holds_find in H. destruct (find_repl repl (mid m) None); [|congruence].
    destruct (mem (mid m) (map fst tr)); simpl.
    + rewrite andb_false_r. exact IH.
    + rewrite andb_true_r. rewrite IH. reflexivity.
  - destruct (find_repl repl (mid m) None) eqn:E; [|exact IH].
    assert (holds repl m = true) by (apply holds_find; congruence). congruence.
Qed.

Lemma trash_mids_trashes l : trash_mids l = map fst (trashes l).
Proof.
  unfold trash_mids, trashes. induction l as [|ch r IH]; simpl; [reflexivity|].
  destruct ch; simpl; congruence.
Qed.
Lemma in_trashes l m t : In (m, t) (trashes l) <-> In (Trash m t) l.
Proof.
  unfold trashes. rewrite in_flat_map. split.
  - intros (ch & Hch & Hm). destruct ch; simpl in Hm; [|contradiction]. destruct Hm as [E|[]]. injection E as <- <-. exact Hch.
  - intros H. exists (Trash m t). simpl. auto.
Qed.
Lemma in_pulls l m f : In (m, f) (pulls l) <-> In (Pull m f) l.
Proof.
  unfold pulls. rewrite in_flat_map. split.
  - intros (ch & Hch & Hm). destruct ch; simpl in Hm; [contradiction|]. destruct Hm as [E|[]]. injection E as <- <-. exact Hch.
  - intros H. exists (Pull m f). simpl. auto.
Qed.

(* bal.classes *)
Lemma ins_sorted_In x y l : In y (ins_sorted x l) <-> y = x \/ In y l.
Proof.
  induction l as [|z r IH]; simpl; [intuition|].
  destruct (x <? z); simpl; [intuition|].
  destruct (x =? z) eqn:E; simpl.
  - apply Nat.eqb_eq in E. subst. intuition.
  - rewrite IH. intuition.
Qed.
Lemma classes_of_In dflt ms c : In c (classes_of dflt ms) <-> c = dflt \/ exists m, In m ms /\ In c (mclasses m).
Proof.
  unfold classes_of.
  assert (X : forall l, In c (fold_right ins_sorted [] l) <-> In c l).
  { induction l as [|x r IH]; simpl; [tauto|]. rewrite ins_sorted_In, IH. intuition. }
  rewrite X. simpl. rewrite in_flat_map. intuition.
Qed.
Lemma inclass_classes dflt ms c m : In m ms -> inclass dflt c m = true -> In c (classes_of dflt ms).
Proof.
  intros Hm H. apply classes_of_In. unfold inclass in H. destruct (mclasses m) as [|x r] eqn:E.
  - left. apply Nat.eqb_eq in H. exact H.
  - right. exists m. split; auto. rewrite E. apply mem_In. exact H.
Qed.

(* ---------- the two replication clauses for the model, physical reading (_partial) ---------- *)
Section Balance.
Variables (dflt : nat) (rank devrank : nat -> nat) (minMtime : nat).
Variables (raw : list mnt) (sro : list nat) (repl desired : list (nat * nat)).
Let eff := setup raw sro.
Let out := balance_old dflt rank devrank minMtime raw sro repl desired.

Theorem under_partial k :
  unshared eff -> In k (classes_of dflt eff) -> 0 < lookup desired k ->
  phys_repl dflt k eff (held eff repl) < lookup desired k ->
  trashes (fst out) = [].
Proof using Type.
  intros U Hk Hd Hs. rewrite phys_held in Hs by exact U.
  assert (F : under_flag_old dflt rank devrank eff repl (classes_of dflt eff) desired = true)
    by (eapply flag_set_when_short; eauto).
  destruct (trashes (fst out)) as [|[m t] r] eqn:E; [reflexivity|exfalso].
  assert (In (m, t) (trashes (fst out))) by (rewrite E; left; reflexivity).
  apply in_trashes in H. unfold out, balance_old in H. fold eff in H.
  eapply block_no_trash_when_flag; eauto.
Qed.

Theorem pres_partial k :
  unshared eff -> NoDup (map msrv (filter (inclass dflt k) eff)) ->
  In k (classes_of dflt eff) -> 0 < lookup desired k ->
  Nat.min (lookup desired k) (phys_repl dflt k eff (held eff repl)) <=
  phys_repl dflt k eff (after eff repl (trashes (fst out))).
Proof using Type.
  intros U Hs Hk Hd. rewrite phys_held, phys_after by exact U.
  rewrite <- trash_mids_trashes. unfold out, balance_old. fold eff.
  apply block_keeps_class; auto. destruct U as [U1 U2]. split; [exact U1|]. split; [exact U2|exact Hs].
Qed.
End Balance.
